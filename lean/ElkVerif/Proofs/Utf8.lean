import ElkVerif.Model.Utf8
/-! Facts about the UTF-8 model: decode ∘ encode, encode ∘ decode, widths, concatenation. -/
namespace Elk.Utf8

theorem byte_toNat (n : Nat) (h : n < 256) : (byte n).toNat = n := by
  simp [byte, UInt8.toNat_ofNat']
  omega

theorem byte_toNat_self (b : UInt8) : byte b.toNat = b := by
  simp [byte]

theorem toNat_lt (b : UInt8) : b.toNat < 256 := b.toNat_lt

/-! ### decoding explicit sequences -/

theorem decode_ascii (b0 : UInt8) (rest : Bytes) (h : b0.toNat < 0x80) :
    decodeRune (b0 :: rest) = (b0.toNat, 1) := by
  simp [decodeRune, h]

theorem decode_two (b0 b1 : UInt8) (rest : Bytes) (h0 : 0xC2 ≤ b0.toNat) (h0' : b0.toNat < 0xE0)
    (h1 : 0x80 ≤ b1.toNat) (h1' : b1.toNat ≤ 0xBF) :
    decodeRune (b0 :: b1 :: rest) = ((b0.toNat - 0xC0) * 64 + (b1.toNat - 0x80), 2) := by
  have n1 : ¬ b0.toNat < 0x80 := by omega
  have n2 : ¬ b0.toNat < 0xC2 := by omega
  simp [decodeRune, n1, n2, h0', isCont, h1, h1']

theorem decode_three (b0 b1 b2 : UInt8) (rest : Bytes) (h0 : 0xE0 ≤ b0.toNat) (h0' : b0.toNat < 0xF0)
    (h1 : lo2 b0.toNat ≤ b1.toNat) (h1' : b1.toNat ≤ hi2 b0.toNat)
    (h2 : 0x80 ≤ b2.toNat) (h2' : b2.toNat ≤ 0xBF) :
    decodeRune (b0 :: b1 :: b2 :: rest) =
      ((b0.toNat - 0xE0) * 4096 + (b1.toNat - 0x80) * 64 + (b2.toNat - 0x80), 3) := by
  have n1 : ¬ b0.toNat < 0x80 := by omega
  have n2 : ¬ b0.toNat < 0xC2 := by omega
  have n3 : ¬ b0.toNat < 0xE0 := by omega
  simp [decodeRune, n1, n2, n3, h0', isCont, h1, h1', h2, h2']

theorem decode_four (b0 b1 b2 b3 : UInt8) (rest : Bytes) (h0 : 0xF0 ≤ b0.toNat) (h0' : b0.toNat < 0xF5)
    (h1 : lo2 b0.toNat ≤ b1.toNat) (h1' : b1.toNat ≤ hi2 b0.toNat)
    (h2 : 0x80 ≤ b2.toNat) (h2' : b2.toNat ≤ 0xBF) (h3 : 0x80 ≤ b3.toNat) (h3' : b3.toNat ≤ 0xBF) :
    decodeRune (b0 :: b1 :: b2 :: b3 :: rest) =
      ((b0.toNat - 0xF0) * 262144 + (b1.toNat - 0x80) * 4096 + (b2.toNat - 0x80) * 64 + (b3.toNat - 0x80), 4) := by
  have n1 : ¬ b0.toNat < 0x80 := by omega
  have n2 : ¬ b0.toNat < 0xC2 := by omega
  have n3 : ¬ b0.toNat < 0xE0 := by omega
  have n4 : ¬ b0.toNat < 0xF0 := by omega
  simp [decodeRune, n1, n2, n3, n4, h0', isCont, h1, h1', h2, h2', h3, h3']

/-- decoding what `EncodeRune` wrote gives the rune back, whatever follows -/
theorem decode_encode (r : Nat) (hv : ValidScalar r) (rest : Bytes) :
    decodeRune (encodeRune r ++ rest) = (r, (encodeRune r).length) := by
  unfold ValidScalar at hv
  unfold encodeRune
  by_cases h1 : r < 0x80
  · simp only [h1, if_true, List.cons_append, List.nil_append, List.length_cons, List.length_nil]
    have a0 := byte_toNat r (by omega)
    generalize byte r = b0 at a0
    rw [decode_ascii _ _ (by omega), a0]
  · by_cases h2 : r < 0x800
    · simp only [h1, h2, if_true, if_false, List.cons_append, List.nil_append, List.length_cons, List.length_nil]
      have a0 := byte_toNat (0xC0 + r / 64) (by omega)
      have a1 := byte_toNat (0x80 + r % 64) (by omega)
      generalize byte (0xC0 + r / 64) = b0 at a0
      generalize byte (0x80 + r % 64) = b1 at a1
      rw [decode_two _ _ _ (by omega) (by omega) (by omega) (by omega), a0, a1]
      exact Prod.ext (by show _ = r; omega) rfl
    · by_cases h3 : (0xD800 ≤ r ∧ r ≤ 0xDFFF) ∨ 0x10FFFF < r
      · omega
      · by_cases h4 : r < 0x10000
        · simp only [h1, h2, h3, h4, if_true, if_false, List.cons_append, List.nil_append, List.length_cons, List.length_nil]
          have a0 := byte_toNat (0xE0 + r / 4096) (by omega)
          have a1 := byte_toNat (0x80 + r / 64 % 64) (by omega)
          have a2 := byte_toNat (0x80 + r % 64) (by omega)
          generalize byte (0xE0 + r / 4096) = b0 at a0
          generalize byte (0x80 + r / 64 % 64) = b1 at a1
          generalize byte (0x80 + r % 64) = b2 at a2
          rw [decode_three _ _ _ _ (by omega) (by omega) (by rw [a0, a1]; unfold lo2; split <;> (try split) <;> omega)
            (by rw [a0, a1]; unfold hi2; split <;> (try split) <;> omega) (by omega) (by omega), a0, a1, a2]
          exact Prod.ext (by show _ = r; omega) rfl
        · simp only [h1, h2, h3, h4, if_false, List.cons_append, List.nil_append, List.length_cons, List.length_nil]
          have a0 := byte_toNat (0xF0 + r / 262144) (by omega)
          have a1 := byte_toNat (0x80 + r / 4096 % 64) (by omega)
          have a2 := byte_toNat (0x80 + r / 64 % 64) (by omega)
          have a3 := byte_toNat (0x80 + r % 64) (by omega)
          generalize byte (0xF0 + r / 262144) = b0 at a0
          generalize byte (0x80 + r / 4096 % 64) = b1 at a1
          generalize byte (0x80 + r / 64 % 64) = b2 at a2
          generalize byte (0x80 + r % 64) = b3 at a3
          rw [decode_four _ _ _ _ _ (by omega) (by omega) (by rw [a0, a1]; unfold lo2; split <;> (try split) <;> omega)
            (by rw [a0, a1]; unfold hi2; split <;> (try split) <;> omega) (by omega) (by omega) (by omega) (by omega),
            a0, a1, a2, a3]
          exact Prod.ext (by show _ = r; omega) rfl

theorem byte_eq (b : UInt8) (n : Nat) (h : n = b.toNat) : byte n = b := by
  subst h; exact byte_toNat_self b

/-- What `DecodeRune` can answer on a non-empty input: either the *invalid* answer
`(RuneError, 1)` on a non-ASCII first byte, or a scalar value whose canonical encoding is exactly
the consumed prefix. -/
theorem decode_cases (b0 : UInt8) (rest : Bytes) :
    (decodeRune (b0 :: rest) = (runeError, 1) ∧ 0x80 ≤ b0.toNat) ∨
    (ValidScalar (decodeRune (b0 :: rest)).1 ∧
      encodeRune (decodeRune (b0 :: rest)).1 = (b0 :: rest).take (decodeRune (b0 :: rest)).2 ∧
      (decodeRune (b0 :: rest)).2 = (encodeRune (decodeRune (b0 :: rest)).1).length) := by
  have hb0 := toNat_lt b0
  by_cases c1 : b0.toNat < 0x80
  · right
    rw [decode_ascii _ _ c1]
    refine ⟨by unfold ValidScalar; omega, ?_, ?_⟩ <;> simp [encodeRune, c1, byte_toNat_self]
  by_cases c2 : b0.toNat < 0xC2
  · left; simp [decodeRune, c1, c2]; omega
  by_cases c3 : b0.toNat < 0xE0
  · match rest with
    | [] => left; simp [decodeRune, c1, c2, c3]; omega
    | b1 :: rest' =>
      have hb1 := toNat_lt b1
      by_cases k1 : isCont b1 = true
      · right
        simp only [isCont, Bool.and_eq_true, decide_eq_true_eq] at k1
        rw [decode_two _ _ _ (by omega) c3 k1.1 k1.2]
        generalize hr : (b0.toNat - 0xC0) * 64 + (b1.toNat - 0x80) = r
        have r1 : ¬ r < 0x80 := by omega
        have r2 : r < 0x800 := by omega
        refine ⟨by unfold ValidScalar; omega, ?_, ?_⟩
        · simp only [encodeRune, r1, r2, if_true, if_false, List.take_succ_cons, List.take_zero]
          rw [byte_eq b0 _ (by omega), byte_eq b1 _ (by omega)]
        · simp [encodeRune, r1, r2]
      · left; simp [decodeRune, c1, c2, c3, k1]; omega
  by_cases c4 : b0.toNat < 0xF0
  · match rest with
    | [] => left; simp [decodeRune, c1, c2, c3, c4]; omega
    | [_] => left; simp [decodeRune, c1, c2, c3, c4]; omega
    | b1 :: b2 :: rest' =>
      have hb1 := toNat_lt b1
      have hb2 := toNat_lt b2
      by_cases k1 : (decide (lo2 b0.toNat ≤ b1.toNat) && decide (b1.toNat ≤ hi2 b0.toNat) && isCont b2) = true
      · right
        simp only [isCont, Bool.and_eq_true, decide_eq_true_eq] at k1
        obtain ⟨⟨k1, k2⟩, k3, k4⟩ := k1
        rw [decode_three _ _ _ _ (by omega) c4 k1 k2 k3 k4]
        have l1 : 0x80 ≤ b1.toNat := by unfold lo2 at k1; split at k1 <;> (try split at k1) <;> omega
        have l2 : b1.toNat ≤ 0xBF := by unfold hi2 at k2; split at k2 <;> (try split at k2) <;> omega
        have l3 : b0.toNat = 0xE0 → 0xA0 ≤ b1.toNat := by intro h; simp [lo2, h] at k1; exact k1
        have l4 : b0.toNat = 0xED → b1.toNat ≤ 0x9F := by intro h; simp [hi2, h] at k2; exact k2
        generalize hr : (b0.toNat - 0xE0) * 4096 + (b1.toNat - 0x80) * 64 + (b2.toNat - 0x80) = r
        have r1 : ¬ r < 0x80 := by omega
        have r2 : ¬ r < 0x800 := by omega
        have r3 : ¬ ((0xD800 ≤ r ∧ r ≤ 0xDFFF) ∨ 0x10FFFF < r) := by omega
        have r4 : r < 0x10000 := by omega
        refine ⟨by unfold ValidScalar; omega, ?_, ?_⟩
        · simp only [encodeRune, r1, r2, r3, r4, if_true, if_false, List.take_succ_cons, List.take_zero]
          rw [byte_eq b0 _ (by omega), byte_eq b1 _ (by omega), byte_eq b2 _ (by omega)]
        · simp [encodeRune, r1, r2, r3, r4]
      · left; simp [decodeRune, c1, c2, c3, c4, k1]; omega
  by_cases c5 : b0.toNat < 0xF5
  · match rest with
    | [] => left; simp [decodeRune, c1, c2, c3, c4, c5]; omega
    | [_] => left; simp [decodeRune, c1, c2, c3, c4, c5]; omega
    | [_, _] => left; simp [decodeRune, c1, c2, c3, c4, c5]; omega
    | b1 :: b2 :: b3 :: rest' =>
      have hb1 := toNat_lt b1
      have hb2 := toNat_lt b2
      have hb3 := toNat_lt b3
      by_cases k1 : (decide (lo2 b0.toNat ≤ b1.toNat) && decide (b1.toNat ≤ hi2 b0.toNat) && isCont b2 && isCont b3) = true
      · right
        simp only [isCont, Bool.and_eq_true, decide_eq_true_eq] at k1
        obtain ⟨⟨⟨k1, k2⟩, k3, k4⟩, k5, k6⟩ := k1
        rw [decode_four _ _ _ _ _ (by omega) c5 k1 k2 k3 k4 k5 k6]
        have l1 : 0x80 ≤ b1.toNat := by unfold lo2 at k1; split at k1 <;> (try split at k1) <;> omega
        have l2 : b1.toNat ≤ 0xBF := by unfold hi2 at k2; split at k2 <;> (try split at k2) <;> omega
        have l3 : b0.toNat = 0xF0 → 0x90 ≤ b1.toNat := by intro h; simp [lo2, h] at k1; exact k1
        have l4 : b0.toNat = 0xF4 → b1.toNat ≤ 0x8F := by intro h; simp [hi2, h] at k2; exact k2
        generalize hr : (b0.toNat - 0xF0) * 262144 + (b1.toNat - 0x80) * 4096 + (b2.toNat - 0x80) * 64 + (b3.toNat - 0x80) = r
        have r1 : ¬ r < 0x80 := by omega
        have r2 : ¬ r < 0x800 := by omega
        have r3 : ¬ ((0xD800 ≤ r ∧ r ≤ 0xDFFF) ∨ 0x10FFFF < r) := by omega
        have r4 : ¬ r < 0x10000 := by omega
        refine ⟨by unfold ValidScalar; omega, ?_, ?_⟩
        · simp only [encodeRune, r1, r2, r3, r4, if_false, List.take_succ_cons, List.take_zero]
          rw [byte_eq b0 _ (by omega), byte_eq b1 _ (by omega), byte_eq b2 _ (by omega), byte_eq b3 _ (by omega)]
        · simp [encodeRune, r1, r2, r3, r4]
      · left; simp [decodeRune, c1, c2, c3, c4, c5, k1]; omega
  · left; simp [decodeRune, c1, c2, c3, c4, c5]; omega

end Elk.Utf8

namespace Elk.Utf8

/-! ### decoding whole strings -/

theorem pieces_nil : pieces [] = [] := by rw [pieces]

theorem pieces_cons (b : UInt8) (rest : Bytes) :
    pieces (b :: rest) = decodeRune (b :: rest) :: pieces ((b :: rest).drop (decodeRune (b :: rest)).2) := by
  rw [pieces]

theorem encodeRune_ne_nil (r : Nat) : encodeRune r ≠ [] := by
  unfold encodeRune; repeat' split
  all_goals simp

/-- the decoder sees an encoded scalar value as one piece, whatever follows -/
theorem pieces_encode_append (r : Nat) (hv : ValidScalar r) (rest : Bytes) :
    pieces (encodeRune r ++ rest) = (r, (encodeRune r).length) :: pieces rest := by
  cases he : encodeRune r with
  | nil => exact absurd he (encodeRune_ne_nil r)
  | cons b t =>
    have hd := decode_encode r hv rest
    rw [he, List.cons_append] at hd
    rw [List.cons_append, pieces_cons, hd]
    have : (b :: (t ++ rest)).drop (b :: t).length = rest := by
      rw [← List.cons_append, List.drop_left]
    rw [this]

/-- what `WriteRune` writes for any Go rune is the encoding of a scalar value -/
theorem encodeRuneInt_scalar (c : Int) : ∃ r, ValidScalar r ∧ encodeRuneInt c = encodeRune r := by
  unfold encodeRuneInt
  by_cases h : c < 0
  · exact ⟨0xFFFD, by unfold ValidScalar; omega, by simp [h, encodeRune, byte]⟩
  · simp only [h, if_false]
    by_cases hv : ValidScalar c.toNat
    · exact ⟨c.toNat, hv, rfl⟩
    · refine ⟨0xFFFD, by unfold ValidScalar; omega, ?_⟩
      unfold ValidScalar at hv
      have h1 : ¬ c.toNat < 0x80 := by omega
      have h2 : ¬ c.toNat < 0x800 := by omega
      have h3 : (0xD800 ≤ c.toNat ∧ c.toNat ≤ 0xDFFF) ∨ 0x10FFFF < c.toNat := by omega
      unfold encodeRune
      rw [if_neg h1, if_neg h2, if_pos h3]
      decide

/-- decoding a concatenation of encoded scalar values gives the scalar values back -/
theorem runes_flatten_encode (rs : List Nat) (hv : ∀ r ∈ rs, ValidScalar r) (rest : Bytes) :
    pieces ((rs.map encodeRune).flatten ++ rest) = rs.map (fun r => (r, (encodeRune r).length)) ++ pieces rest := by
  induction rs with
  | nil => simp
  | cons r t ih =>
    simp only [List.map_cons, List.flatten_cons, List.append_assoc]
    rw [pieces_encode_append r (hv r (by simp)), ih (fun x hx => hv x (by simp [hx]))]
    simp

/-- a string whose first piece is valid decodes the same way when something is appended -/
theorem decodeRune_append_valid (b : UInt8) (rest more : Bytes)
    (hvalid : ¬ (decodeRune (b :: rest) = (runeError, 1) ∧ 0x80 ≤ b.toNat)) :
    decodeRune (b :: rest ++ more) = decodeRune (b :: rest) := by
  rcases decode_cases b rest with h | ⟨hv, henc, hlen⟩
  · exact absurd h hvalid
  · have hsplit : b :: rest = encodeRune (decodeRune (b :: rest)).1 ++ (b :: rest).drop (decodeRune (b :: rest)).2 := by
      rw [henc, List.take_append_drop]
    have : b :: rest ++ more = encodeRune (decodeRune (b :: rest)).1 ++ ((b :: rest).drop (decodeRune (b :: rest)).2 ++ more) := by
      rw [← List.append_assoc, ← hsplit]
    rw [this, decode_encode _ hv, ← hlen]

end Elk.Utf8
