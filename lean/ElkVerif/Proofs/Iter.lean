import ElkVerif.Model.Iter
/-! Helper lemmas for C23: a native loop over an iterator is the loop over the drained list, and each
list-level loop is the corresponding `List` operation. -/
namespace Elk.Iter

variable {α β ρ σ ε : Type}

/-- running a loop over an iterator = running it over what `drain` sees, for every fuel, state and
accumulator (errors and endless iterators included) -/
theorem runFrom_val (L : Loop α β ρ) (it : Iterator σ α ε) (n : Nat) (s : σ) (b : β) :
    (L.runFrom it n s b).val = L.listEndFrom (drain it n s).1 (drain it n s).2 b := by
  induction n generalizing s b with
  | zero => simp [Loop.runFrom, drain, Res.val, Loop.listEndFrom]
  | succ n ih =>
    simp only [Loop.runFrom, drain]
    cases h : it.next s with
    | stop s' => simp [Res.val, Loop.listEndFrom]
    | err e s' => simp [Res.val, Loop.listEndFrom]
    | yield a s' =>
      simp only [Loop.listEndFrom]
      cases hb : L.body b a with
      | cont b' => simp only []; exact ih s' b'
      | brk r => simp [Res.val]

theorem listEndFrom_done (L : Loop α β ρ) (l : List α) (b : β) :
    L.listEndFrom l (End.done : End ε) b = some (.ok (L.listFrom l b)) := by
  induction l generalizing b with
  | nil => simp [Loop.listEndFrom, Loop.listFrom]
  | cons a l ih =>
    simp only [Loop.listEndFrom, Loop.listFrom]
    cases L.body b a with
    | cont b' => exact ih b'
    | brk r => rfl

/-! ### list-level meaning of each native -/

theorem listFrom_nil (L : Loop α β ρ) (b : β) : L.listFrom [] b = L.done b := rfl

theorem listFrom_cons (L : Loop α β ρ) (a : α) (l : List α) (b : β) :
    L.listFrom (a :: l) b = match L.body b a with | .cont b' => L.listFrom l b' | .brk r => r := rfl

theorem mapL_from (f : α → β) (l : List α) (acc : List β) : (mapL f).listFrom l acc = acc ++ l.map f := by
  induction l generalizing acc with
  | nil => simp [listFrom_nil, mapL]
  | cons a l ih =>
    rw [listFrom_cons]
    have hb : (mapL f).body acc a = .cont (acc ++ [f a]) := rfl
    rw [hb]; simp only []; rw [ih]; simp

theorem filterL_from (p : α → Bool) (l : List α) (acc : List α) :
    (filterL p).listFrom l acc = acc ++ l.filter p := by
  induction l generalizing acc with
  | nil => simp [listFrom_nil, filterL]
  | cons a l ih =>
    rw [listFrom_cons]
    have hb : (filterL p).body acc a = .cont (if p a then acc ++ [a] else acc) := rfl
    rw [hb]; simp only []; rw [ih]
    cases h : p a <;> simp [h]

theorem rejectL_from (p : α → Bool) (l : List α) (acc : List α) :
    (rejectL p).listFrom l acc = acc ++ l.filter (fun a => !p a) := by
  induction l generalizing acc with
  | nil => simp [listFrom_nil, rejectL]
  | cons a l ih =>
    rw [listFrom_cons]
    have hb : (rejectL p).body acc a = .cont (if !p a then acc ++ [a] else acc) := rfl
    rw [hb]; simp only []; rw [ih]
    cases h : p a <;> simp [h]

theorem countL_from (p : α → Bool) (l : List α) (c : Nat) : (countL p).listFrom l c = c + l.countP p := by
  induction l generalizing c with
  | nil => simp [listFrom_nil, countL]
  | cons a l ih =>
    rw [listFrom_cons]
    have hb : (countL p).body c a = .cont (if p a then c + 1 else c) := rfl
    rw [hb]; simp only []; rw [ih]
    cases h : p a <;> simp [List.countP_cons, h] <;> omega

theorem anyL_from (p : α → Bool) (l : List α) : (anyL p).listFrom l () = l.any p := by
  induction l with
  | nil => simp [listFrom_nil, anyL]
  | cons a l ih =>
    rw [listFrom_cons]
    have hb : (anyL p).body () a = (if p a then .brk true else .cont ()) := rfl
    rw [hb]; cases h : p a <;> simp [h, ih]

theorem everyL_from (p : α → Bool) (l : List α) : (everyL p).listFrom l () = l.all p := by
  induction l with
  | nil => simp [listFrom_nil, everyL]
  | cons a l ih =>
    rw [listFrom_cons]
    have hb : (everyL p).body () a = (if !p a then .brk false else .cont ()) := rfl
    rw [hb]; cases h : p a <;> simp [h, ih]

theorem findL_from (p : α → Bool) (l : List α) :
    (findL p).listFrom l () = orNotFound (l.find? p) := by
  induction l with
  | nil => simp [listFrom_nil, findL, orNotFound]
  | cons a l ih =>
    rw [listFrom_cons]
    have hb : (findL p).body () a = (if p a then .brk (.ok a) else .cont ()) := rfl
    rw [hb]; cases h : p a <;> simp [h, ih, List.find?, orNotFound]

theorem tryFindL_from (p : α → Bool) (l : List α) : (tryFindL p).listFrom l () = l.find? p := by
  induction l with
  | nil => simp [listFrom_nil, tryFindL]
  | cons a l ih =>
    rw [listFrom_cons]
    have hb : (tryFindL p).body () a = (if p a then .brk (some a) else .cont ()) := rfl
    rw [hb]; cases h : p a <;> simp [h, ih, List.find?]

/-- index of the first element satisfying `p`, counted from `i`; `-1` when there is none -/
def idxFrom (p : α → Bool) : List α → Int → Int
  | [], _ => -1
  | a :: l, i => if p a then i else idxFrom p l (i + 1)

theorem findIndexL_from (p : α → Bool) (l : List α) (i : Int) :
    (findIndexL p).listFrom l i = idxFrom p l i := by
  induction l generalizing i with
  | nil => simp [listFrom_nil, findIndexL, idxFrom]
  | cons a l ih =>
    rw [listFrom_cons]
    have hb : (findIndexL p).body i a = (if p a then .brk i else .cont (i + 1)) := rfl
    rw [hb]; cases h : p a <;> simp [h, ih, idxFrom]

theorem indexOfL_from [BEq α] (v : α) (l : List α) (i : Int) :
    (indexOfL v).listFrom l i = idxFrom (· == v) l i := by
  induction l generalizing i with
  | nil => simp [listFrom_nil, indexOfL, idxFrom]
  | cons a l ih =>
    rw [listFrom_cons]
    have hb : (indexOfL v).body i a = (if a == v then .brk i else .cont (i + 1)) := rfl
    rw [hb]; cases h : a == v <;> simp [h, ih, idxFrom]

/-- `idxFrom` is `List.findIdx?` shifted, with `-1` for `none` -/
theorem idxFrom_eq (p : α → Bool) (l : List α) (i : Int) :
    idxFrom p l i = (match l.findIdx? p with | some k => i + k | none => -1 : Int) := by
  induction l generalizing i with
  | nil => simp [idxFrom]
  | cons a l ih =>
    simp only [idxFrom, List.findIdx?_cons]
    cases h : p a
    · simp only [Bool.false_eq_true, if_false]; rw [ih]
      cases l.findIdx? p with
      | none => simp
      | some k => simp only [Option.map_some]; show i + 1 + (k : Int) = i + ((k + 1 : Nat) : Int); omega
    · simp

theorem containsL_from [BEq α] (v : α) (l : List α) : (containsL v).listFrom l () = l.any (· == v) := by
  induction l with
  | nil => simp [listFrom_nil, containsL]
  | cons a l ih =>
    rw [listFrom_cons]
    have hb : (containsL v).body () a = (if a == v then .brk true else .cont ()) := rfl
    rw [hb]; cases h : a == v <;> simp [h, ih]

theorem isEmptyL_from (l : List α) : (isEmptyL : Loop α Unit Bool).listFrom l () = l.isEmpty := by
  cases l <;> simp [Loop.listFrom, isEmptyL]

theorem firstL_from (l : List α) :
    (firstL : Loop α Unit (Except NErr α)).listFrom l () = orNotFound l.head? := by
  cases l <;> simp [Loop.listFrom, firstL, orNotFound]

theorem tryFirstL_from (l : List α) : (tryFirstL : Loop α Unit (Option α)).listFrom l () = l.head? := by
  cases l <;> simp [Loop.listFrom, tryFirstL]

/-- last element of `l`, or `o` when `l` is empty -/
def lastOr : List α → Option α → Option α
  | [], o => o
  | a :: l, _ => lastOr l (some a)

theorem lastOr_eq (l : List α) (o : Option α) : lastOr l o = (l.getLast?).or o := by
  induction l generalizing o with
  | nil => simp [lastOr]
  | cons a l ih =>
    simp only [lastOr]; rw [ih]
    cases l with
    | nil => simp
    | cons b t =>
      rw [List.getLast?_cons_cons]
      cases h : (b :: t).getLast? with
      | none => simp [List.getLast?_eq_none_iff] at h
      | some x => simp

theorem tryLastL_from (l : List α) (o : Option α) :
    (tryLastL : Loop α (Option α) (Option α)).listFrom l o = lastOr l o := by
  induction l generalizing o with
  | nil => simp [listFrom_nil, tryLastL, lastOr]
  | cons a l ih =>
    rw [listFrom_cons]
    have hb : (tryLastL : Loop α (Option α) (Option α)).body o a = .cont (some a) := rfl
    rw [hb]; simp only [lastOr]; exact ih _

theorem lastL_from (l : List α) (o : Option α) :
    (lastL : Loop α (Option α) (Except NErr α)).listFrom l o = orNotFound (lastOr l o) := by
  induction l generalizing o with
  | nil => cases o <;> simp [listFrom_nil, lastL, lastOr, orNotFound]
  | cons a l ih =>
    rw [listFrom_cons]
    have hb : (lastL : Loop α (Option α) (Except NErr α)).body o a = .cont (some a) := rfl
    rw [hb]; simp only [lastOr]; exact ih _

theorem takeL_from (n : Int) (l : List α) (c : Int) (acc : List α) (hc : 0 ≤ c) :
    (takeL n).listFrom l (c, acc) = acc ++ l.take c.toNat := by
  induction l generalizing c acc with
  | nil => simp [listFrom_nil, takeL]
  | cons a l ih =>
    rw [listFrom_cons]
    have hb : (takeL n).body (c, acc) a = (if c ≤ 0 then .brk acc else .cont (c - 1, acc ++ [a])) := rfl
    rw [hb]
    by_cases h0 : c ≤ 0
    · have : c = 0 := by omega
      subst this; simp
    · simp only [h0, if_false]
      rw [ih (c - 1) (acc ++ [a]) (by omega)]
      have hc' : c.toNat = (c - 1).toNat + 1 := by omega
      rw [hc']; simp

theorem dropL_from (n : Int) (l : List α) (c : Int) (acc : List α) (hc : 0 ≤ c) :
    (dropL n).listFrom l (c, acc) = acc ++ l.drop c.toNat := by
  induction l generalizing c acc with
  | nil => simp [listFrom_nil, dropL]
  | cons a l ih =>
    rw [listFrom_cons]
    have hb : (dropL n).body (c, acc) a =
        (if c > 0 then .cont (c - 1, acc) else .cont (c, acc ++ [a])) := rfl
    rw [hb]
    by_cases h0 : c > 0
    · simp only [h0, if_true]
      rw [ih (c - 1) acc (by omega)]
      have hc' : c.toNat = (c - 1).toNat + 1 := by omega
      rw [hc']; simp
    · have : c = 0 := by omega
      subst this
      simp only [Int.lt_irrefl, if_false, gt_iff_lt]
      rw [ih 0 (acc ++ [a]) (by omega)]; simp

theorem takeWhileL_from (p : α → Bool) (l : List α) (acc : List α) :
    (takeWhileL p).listFrom l acc = acc ++ l.takeWhile p := by
  induction l generalizing acc with
  | nil => simp [listFrom_nil, takeWhileL]
  | cons a l ih =>
    rw [listFrom_cons]
    have hb : (takeWhileL p).body acc a = (if !p a then .brk acc else .cont (acc ++ [a])) := rfl
    rw [hb]
    cases h : p a
    · simp [List.takeWhile, h]
    · simp only [Bool.not_true, Bool.false_eq_true, if_false]; rw [ih]; simp [List.takeWhile, h]

theorem dropWhileL_collect (p : α → Bool) (l : List α) (acc : List α) :
    (dropWhileL p).listFrom l (true, acc) = acc ++ l := by
  induction l generalizing acc with
  | nil => simp [listFrom_nil, dropWhileL]
  | cons a l ih =>
    rw [listFrom_cons]
    have hb : (dropWhileL p).body (true, acc) a = .cont (true, acc ++ [a]) := rfl
    rw [hb]; simp only []; rw [ih]; simp

theorem dropWhileL_from (p : α → Bool) (l : List α) (acc : List α) :
    (dropWhileL p).listFrom l (false, acc) = acc ++ l.dropWhile p := by
  induction l generalizing acc with
  | nil => simp [listFrom_nil, dropWhileL]
  | cons a l ih =>
    rw [listFrom_cons]
    have hb : (dropWhileL p).body (false, acc) a =
        (if p a then .cont (false, acc) else .cont (true, acc ++ [a])) := rfl
    rw [hb]
    cases h : p a
    · simp only [Bool.false_eq_true, if_false]
      rw [dropWhileL_collect]; simp [List.dropWhile, h]
    · simp only [if_true]; rw [ih]; simp [List.dropWhile, h]

theorem reduceL_from (g : α → α → α) (l : List α) (acc : α) :
    (reduceL g).listFrom l (some acc) = some (l.foldl g acc) := by
  induction l generalizing acc with
  | nil => simp [listFrom_nil, reduceL]
  | cons a l ih =>
    rw [listFrom_cons]
    have hb : (reduceL g).body (some acc) a = .cont (some (g acc a)) := rfl
    rw [hb]; simp only []; rw [ih]; rfl

theorem foldL_from (g : β → α → β) (l : List α) (acc init : β) :
    (foldL init g).listFrom l acc = l.foldl g acc := by
  induction l generalizing acc with
  | nil => simp [listFrom_nil, foldL]
  | cons a l ih =>
    rw [listFrom_cons]
    have hb : (foldL init g).body acc a = .cont (g acc a) := rfl
    rw [hb]; simp only []; rw [ih]; rfl

theorem toListL_from (l : List α) (acc : List α) : (toListL : Loop α _ _).listFrom l acc = acc ++ l := by
  induction l generalizing acc with
  | nil => simp [listFrom_nil, toListL]
  | cons a l ih =>
    rw [listFrom_cons]
    have hb : (toListL : Loop α _ _).body acc a = .cont (acc ++ [a]) := rfl
    rw [hb]; simp only []; rw [ih]; simp

theorem lengthL_from (l : List α) (c : Nat) : (lengthL : Loop α _ _).listFrom l c = c + l.length := by
  induction l generalizing c with
  | nil => simp [listFrom_nil, lengthL]
  | cons a l ih =>
    rw [listFrom_cons]
    have hb : (lengthL : Loop α _ _).body c a = .cont (c + 1) := rfl
    rw [hb]; simp only []; rw [ih]; simp; omega


/-! ### the natives started from their own initial accumulator -/
section onList
variable {α β : Type}

theorem mapL_onList (f : α → β) (l : List α) : (mapL f).onList l = l.map f := by
  show (mapL f).listFrom l [] = _; rw [mapL_from]; simp
theorem filterL_onList (p : α → Bool) (l : List α) : (filterL p).onList l = l.filter p := by
  show (filterL p).listFrom l [] = _; rw [filterL_from]; simp
theorem rejectL_onList (p : α → Bool) (l : List α) : (rejectL p).onList l = l.filter (fun a => !p a) := by
  show (rejectL p).listFrom l [] = _; rw [rejectL_from]; simp
theorem countL_onList (p : α → Bool) (l : List α) : (countL p).onList l = l.countP p := by
  show (countL p).listFrom l 0 = _; rw [countL_from]; simp
theorem anyL_onList (p : α → Bool) (l : List α) : (anyL p).onList l = l.any p := anyL_from p l
theorem everyL_onList (p : α → Bool) (l : List α) : (everyL p).onList l = l.all p := everyL_from p l
theorem findL_onList (p : α → Bool) (l : List α) :
    (findL p).onList l = orNotFound (l.find? p) := findL_from p l
theorem tryFindL_onList (p : α → Bool) (l : List α) : (tryFindL p).onList l = l.find? p := tryFindL_from p l
theorem findIndexL_onList (p : α → Bool) (l : List α) :
    (findIndexL p).onList l = idxOrMinus1 (l.findIdx? p) := by
  show (findIndexL p).listFrom l 0 = _
  rw [findIndexL_from, idxFrom_eq]; cases l.findIdx? p <;> simp [idxOrMinus1]
theorem indexOfL_onList [BEq α] (v : α) (l : List α) :
    (indexOfL v).onList l = idxOrMinus1 (l.findIdx? (· == v)) := by
  show (indexOfL v).listFrom l 0 = _
  rw [indexOfL_from, idxFrom_eq]; cases l.findIdx? (· == v) <;> simp [idxOrMinus1]
theorem containsL_onList [BEq α] (v : α) (l : List α) : (containsL v).onList l = l.any (· == v) :=
  containsL_from v l
theorem isEmptyL_onList (l : List α) : (isEmptyL : Loop α Unit Bool).onList l = l.isEmpty := isEmptyL_from l
theorem firstL_onList (l : List α) :
    (firstL : Loop α Unit (Except NErr α)).onList l = orNotFound l.head? := firstL_from l
theorem tryFirstL_onList (l : List α) : (tryFirstL : Loop α Unit (Option α)).onList l = l.head? := tryFirstL_from l
theorem lastL_onList (l : List α) :
    (lastL : Loop α (Option α) (Except NErr α)).onList l = orNotFound l.getLast? := by
  show (lastL : Loop α (Option α) (Except NErr α)).listFrom l none = _
  rw [lastL_from, lastOr_eq]; simp
theorem tryLastL_onList (l : List α) : (tryLastL : Loop α (Option α) (Option α)).onList l = l.getLast? := by
  show (tryLastL : Loop α (Option α) (Option α)).listFrom l none = _
  rw [tryLastL_from, lastOr_eq]; simp
theorem takeL_onList (n : Int) (hn : 0 ≤ n) (l : List α) : (takeL n).onList l = l.take n.toNat := by
  show (takeL n).listFrom l (n, []) = _; rw [takeL_from n l n [] hn]; simp
theorem dropL_onList (n : Int) (hn : 0 ≤ n) (l : List α) : (dropL n).onList l = l.drop n.toNat := by
  show (dropL n).listFrom l (n, []) = _; rw [dropL_from n l n [] hn]; simp
theorem takeWhileL_onList (p : α → Bool) (l : List α) : (takeWhileL p).onList l = l.takeWhile p := by
  show (takeWhileL p).listFrom l [] = _; rw [takeWhileL_from]; simp
theorem dropWhileL_onList (p : α → Bool) (l : List α) : (dropWhileL p).onList l = l.dropWhile p := by
  show (dropWhileL p).listFrom l (false, []) = _; rw [dropWhileL_from]; simp
theorem reduceL_onList (g : α → α → α) (l : List α) : (reduceL g).onList l = reduceSpec g l := by
  cases l with
  | nil => rfl
  | cons a t =>
    show (reduceL g).listFrom (a :: t) none = _
    rw [listFrom_cons]
    have : (reduceL g).body none a = .cont (some a) := rfl
    rw [this]; simp only []; rw [reduceL_from]; rfl
theorem foldL_onList (init : β) (g : β → α → β) (l : List α) : (foldL init g).onList l = l.foldl g init := by
  show (foldL init g).listFrom l init = _; rw [foldL_from]
theorem toListL_onList (l : List α) : (toListL : Loop α _ _).onList l = l := by
  show (toListL : Loop α _ _).listFrom l [] = _; rw [toListL_from]; simp
theorem lengthL_onList (l : List α) : (lengthL : Loop α _ _).onList l = l.length := by
  show (lengthL : Loop α _ _).listFrom l 0 = _; rw [lengthL_from]; simp

end onList

/-- the list iterator drains to its list -/
theorem drain_listIter (l : List α) (n : Nat) (h : l.length < n) :
    drain (listIter α) n l = (l, End.done) := by
  induction l generalizing n with
  | nil => cases n with
    | zero => omega
    | succ n => simp [drain, listIter]
  | cons a l ih =>
    cases n with
    | zero => omega
    | succ n =>
      simp only [drain, listIter]
      have := ih n (by simp at h; omega)
      simp only [listIter] at this
      rw [this]

end Elk.Iter
