import ElkVerif.Model.Bytecode.Abort
import ElkVerif.Proofs.Bytecode
/-!
# Proofs for C33: a valid ranking bounds check-free paths; machine steps are graph edges
-/
namespace Elk.Bytecode.Abort

/-- `p` is a path of `g`: consecutive nodes are joined by edges -/
inductive IsPath (g : Graph) : List Node → Prop where
  | single (u : Node) : IsPath g [u]
  | cons {u v : Node} {rest : List Node} : (u, v) ∈ g.edges → IsPath g (v :: rest) → IsPath g (u :: v :: rest)

theorem validRank_edge {g : Graph} {rank : Node → Nat} (h : validRank g rank = true) {u v : Node}
    (he : (u, v) ∈ g.edges) (hu : g.isCheck u = false) : rank v < rank u := by
  unfold validRank at h
  simp only [List.all_eq_true] at h
  have := h (u, v) he
  simp only [hu, Bool.false_or, decide_eq_true_eq] at this
  exact this

/-- a path none of whose nodes except possibly the last is a check node has at most
`rank (first node) + 1` nodes -/
theorem path_bound {g : Graph} {rank : Node → Nat} (h : validRank g rank = true) :
    ∀ (p : List Node) (u : Node), IsPath g (u :: p) → (∀ w ∈ (u :: p).dropLast, g.isCheck w = false) →
      (u :: p).length ≤ rank u + 1 := by
  intro p
  induction p with
  | nil => intro u _ _; simp
  | cons v rest ih =>
    intro u hp hc
    cases hp with
    | cons he hrest =>
      have hu : g.isCheck u = false := hc u (by simp [List.dropLast])
      have hlt := validRank_edge h he hu
      have hc' : ∀ w ∈ (v :: rest).dropLast, g.isCheck w = false := by
        intro w hw
        apply hc w
        simp only [List.dropLast_cons₂, List.mem_cons]
        right; exact hw
      have := ih v hrest hc'
      simp only [List.length_cons] at this ⊢
      omega

/-- every step of the abstract machine from a certificate state is an intra-procedural edge -/
theorem edge_of_step (P : Prog) (k : Nat) (f : Func) (cfg : Cfg) (cert : List St) (s s' : St) (l : List St)
    (hs : s ∈ cert) (he : exec P f cfg s = .ok l) (hm : s' ∈ l) :
    ((k, s), (k, s')) ∈ intraEdges P k f cfg cert := by
  unfold intraEdges
  simp only [List.mem_flatMap]
  refine ⟨s, hs, ?_⟩
  rw [he]
  simp only [List.mem_map]
  exact ⟨s', hm, rfl⟩

end Elk.Bytecode.Abort
