import ElkVerif.Proofs.Num
namespace Elk.Val
open Elk.Num

/-- no hash-based container inside: equality is positional -/
def Tag.positional : Tag → Bool
  | .set | .map | .record => false
  | _ => true

mutual
def Val.positional : Val → Bool
  | .node t xs => t.positional && Items.positional xs
  | _ => true
def Items.positional : Items → Bool
  | .nil => true
  | .cons v r => Val.positional v && Items.positional r
end

mutual
theorem Val.eqv_symm : ∀ (a b : Val), a.positional = true → Val.eqv a b = Val.eqv b a
  | .num x, b, _ => by cases b <;> simp [Val.eqv, eqVal_symm]
  | .str x, b, _ => by cases b <;> simp [Val.eqv, eq_comm]
  | .chr x, b, _ => by cases b <;> simp [Val.eqv, eq_comm]
  | .sym x, b, _ => by cases b <;> simp [Val.eqv, eq_comm]
  | .nil, b, _ => by cases b <;> simp [Val.eqv]
  | .bool x, b, _ => by cases b <;> simp [Val.eqv, eq_comm]
  | .date y m d, b, _ => by
    cases b <;> simp only [Val.eqv]
    rename_i y' m' d'
    rw [Bool.beq_comm (a := y), Bool.beq_comm (a := m), Bool.beq_comm (a := d)]
  | .node t xs, b, h => by
    cases b with
    | node t' ys =>
      simp only [Val.positional, Bool.and_eq_true] at h
      by_cases ht : t = t'
      · subst ht
        have := Items.eqv_symm xs ys h.2
        cases t <;> simp [Tag.positional] at h <;> simp [Val.eqv, this]
      · have ht' : ¬ t' = t := fun e => ht e.symm
        have e1 : (t == t') = false := by simpa using ht
        have e2 : (t' == t) = false := by simpa using ht'
        cases t <;> cases t' <;> simp only [Val.eqv, e1, e2, Bool.false_and]
    | _ => simp [Val.eqv]
theorem Items.eqv_symm : ∀ (xs ys : Items), xs.positional = true → Items.eqv xs ys = Items.eqv ys xs
  | .nil, ys, _ => by cases ys <;> simp [Items.eqv]
  | .cons a r, ys, h => by
    cases ys with
    | nil => simp [Items.eqv]
    | cons b s =>
      simp only [Items.positional, Bool.and_eq_true] at h
      simp only [Items.eqv]
      rw [Val.eqv_symm a b h.1, Items.eqv_symm r s h.2]
end

end Elk.Val

namespace Elk.Val
open Elk.Num

mutual
def Val.nanFree : Val → Bool
  | .num n => !n.isNaN
  | .node _ xs => Items.nanFree xs
  | _ => true
def Items.nanFree : Items → Bool
  | .nil => true
  | .cons v r => Val.nanFree v && Items.nanFree r
end

mutual
theorem Val.eqv_refl : ∀ (a : Val), a.positional = true → a.nanFree = true → Val.eqv a a = true
  | .num x, _, h => by
    simp only [Val.nanFree, Bool.not_eq_true'] at h
    simp [Val.eqv, eqVal_refl x h]
  | .str x, _, _ => by simp [Val.eqv]
  | .chr x, _, _ => by simp [Val.eqv]
  | .sym x, _, _ => by simp [Val.eqv]
  | .nil, _, _ => by simp [Val.eqv]
  | .bool x, _, _ => by simp [Val.eqv]
  | .date y m d, _, _ => by simp [Val.eqv]
  | .node t xs, hp, hn => by
    simp only [Val.positional, Bool.and_eq_true] at hp
    simp only [Val.nanFree] at hn
    have := Items.eqv_refl xs hp.2 hn
    cases t <;> simp [Tag.positional] at hp <;> simp [Val.eqv, this]
theorem Items.eqv_refl : ∀ (xs : Items), xs.positional = true → xs.nanFree = true → Items.eqv xs xs = true
  | .nil, _, _ => by simp [Items.eqv]
  | .cons a r, hp, hn => by
    simp only [Items.positional, Items.nanFree, Bool.and_eq_true] at hp hn
    simp [Items.eqv, Val.eqv_refl a hp.1 hn.1, Items.eqv_refl r hp.2 hn.2]
end

/-- well-formed atoms -/
def Val.wfAtom : Val → Bool
  | .num n => wf n
  | .node .. => false
  | _ => true

/-- for values that are not compound, `==` implies the same hash key -/
theorem Val.hash_of_eqv_atom (a b : Val) (ha : a.wfAtom = true) (hb : b.wfAtom = true) (h : Val.eqv a b = true) :
    a.hashKey = b.hashKey := by
  cases a <;> cases b <;> simp [Val.eqv, Val.wfAtom] at h ha hb <;> simp only [Val.hashKey]
  case num.num x y => rw [hash_of_eq x y ha hb h]
  case str.str => rw [h]
  case chr.chr => rw [h]
  case sym.sym => rw [h]
  case bool.bool => rw [h]

end Elk.Val
