import ElkVerif.Model.Mini.TypesB
/-!
Helper lemmas for the soundness of the full MiniElk checker (`Model/Mini/TypesB.lean`):
type equality, `fits`/`join`, monotonicity in the store typing, store/environment invariants.
-/
namespace Elk.Mini

-- ---------------------------------------------------------------- T.beq

mutual
theorem T.eq_of_beq : ∀ (a b : T), T.beq a b = true → a = b
  | .int, b, h => by cases b <;> first | rfl | simp [T.beq] at h
  | .bool, b, h => by cases b <;> first | rfl | simp [T.beq] at h
  | .str, b, h => by cases b <;> first | rfl | simp [T.beq] at h
  | .nil, b, h => by cases b <;> first | rfl | simp [T.beq] at h
  | .zde, b, h => by cases b <;> first | rfl | simp [T.beq] at h
  | .any, b, h => by cases b <;> first | rfl | simp [T.beq] at h
  | .never, b, h => by cases b <;> first | rfl | simp [T.beq] at h
  | .opt a, b, h => by
    cases b with
    | opt b => simp only [T.beq] at h; rw [T.eq_of_beq a b h]
    | _ => simp [T.beq] at h
  | .fn ps r, b, h => by
    cases b with
    | fn qs s =>
      simp only [T.beq, Bool.and_eq_true] at h
      rw [T.eqs_of_beqs ps qs h.1, T.eq_of_beq r s h.2]
    | _ => simp [T.beq] at h
theorem T.eqs_of_beqs : ∀ (as bs : List T), T.beqs as bs = true → as = bs
  | [], bs, h => by cases bs <;> first | rfl | simp [T.beqs] at h
  | a :: as, bs, h => by
    cases bs with
    | nil => simp [T.beqs] at h
    | cons b bs =>
      simp only [T.beqs, Bool.and_eq_true] at h
      rw [T.eq_of_beq a b h.1, T.eqs_of_beqs as bs h.2]
end

mutual
theorem T.beq_refl : ∀ (a : T), T.beq a a = true
  | .int => rfl | .bool => rfl | .str => rfl | .nil => rfl | .zde => rfl | .any => rfl | .never => rfl
  | .opt a => by simp only [T.beq]; exact T.beq_refl a
  | .fn ps r => by simp only [T.beq, Bool.and_eq_true]; exact ⟨T.beqs_refl ps, T.beq_refl r⟩
theorem T.beqs_refl : ∀ (as : List T), T.beqs as as = true
  | [] => rfl
  | a :: as => by simp only [T.beqs, Bool.and_eq_true]; exact ⟨T.beq_refl a, T.beqs_refl as⟩
end

theorem fits_refl (a : T) : fits a a = true := by simp [fits, T.beq_refl]

-- ---------------------------------------------------------------- store typing only grows

theorem Ext.refl (S : List T) : Ext S S := ⟨[], by simp⟩

theorem Ext.trans {S1 S2 S3 : List T} (h1 : Ext S1 S2) (h2 : Ext S2 S3) : Ext S1 S3 := by
  obtain ⟨d1, rfl⟩ := h1
  obtain ⟨d2, rfl⟩ := h2
  exact ⟨d1 ++ d2, by simp⟩

theorem Ext.get {S S' : List T} (h : Ext S S') {i : Nat} {t : T} (hi : S[i]? = some t) : S'[i]? = some t := by
  obtain ⟨d, rfl⟩ := h
  have hlt : i < S.length := by
    cases Nat.lt_or_ge i S.length with
    | inl h => exact h
    | inr h => rw [List.getElem?_eq_none h] at hi; cases hi
  rw [List.getElem?_append_left hlt]; exact hi

theorem EnvOkB.mono {S S' : List T} {g : TEnvB} {env : Env} (hx : Ext S S') (h : EnvOkB S g env) :
    EnvOkB S' g env := by
  intro x t hl
  obtain ⟨i, h1, h2⟩ := h x t hl
  exact ⟨i, h1, hx.get h2⟩

theorem CloOk.mono {defs : List Def} {S S' : List T} (hx : Ext S S') {ps body cenv pts r}
    (h : CloOk defs S ps body cenv pts r) : CloOk defs S' ps body cenv pts r := by
  obtain ⟨hl, g, k, tv, g', he, hc, hf⟩ := h
  exact ⟨hl, g, k, tv, g', he.mono hx, hc, hf⟩

theorem HasTy.mono {defs : List Def} {S S' : List T} (hx : Ext S S') {v : Val} :
    ∀ (t : T), HasTy defs S v t → HasTy defs S' v t
  | .int, h => h
  | .bool, h => h
  | .str, h => h
  | .nil, h => h
  | .zde, h => h
  | .any, _ => trivial
  | .never, h => h
  | .opt t, h => by
    simp only [HasTy] at h ⊢
    exact h.imp id (HasTy.mono hx t)
  | .fn pts r, h => by
    simp only [HasTy] at h ⊢
    obtain ⟨ps, body, cenv, hv, hc⟩ := h
    exact ⟨ps, body, cenv, hv, hc.mono hx⟩

-- ---------------------------------------------------------------- fits / join

theorem fits_sound {defs : List Def} {S : List T} {v : Val} {a b : T}
    (hv : HasTy defs S v a) (hf : fits a b = true) : HasTy defs S v b := by
  simp only [fits, Bool.or_eq_true] at hf
  rcases hf with (hf | hf) | hf
  · rw [← T.eq_of_beq a b hf]; exact hv
  · rw [T.eq_of_beq a _ hf] at hv; simp [HasTy] at hv
  · cases b with
    | opt u =>
      simp only [Bool.or_eq_true] at hf
      simp only [HasTy]
      rcases hf with hf | hf
      · rw [← T.eq_of_beq a u hf]; exact Or.inr hv
      · rw [T.eq_of_beq a _ hf] at hv; simp only [HasTy] at hv; exact Or.inl hv
    | _ => simp at hf

theorem join_left {defs : List Def} {S : List T} {v : Val} {a b : T}
    (hv : HasTy defs S v a) : HasTy defs S v (join a b) := by
  unfold join
  split
  · rename_i h; exact fits_sound hv h
  · split
    · exact hv
    · split
      · rename_i h; rw [T.eq_of_beq a _ h] at hv; simp only [HasTy] at hv ⊢; exact Or.inl hv
      · split
        · simp only [HasTy]; exact Or.inr hv
        · simp [HasTy]

theorem join_right {defs : List Def} {S : List T} {v : Val} {a b : T}
    (hv : HasTy defs S v b) : HasTy defs S v (join a b) := by
  unfold join
  split
  · exact hv
  · split
    · rename_i h; exact fits_sound hv h
    · split
      · simp only [HasTy]; exact Or.inr hv
      · split
        · rename_i h; rw [T.eq_of_beq b _ h] at hv; simp only [HasTy] at hv ⊢; exact Or.inl hv
        · simp [HasTy]

theorem nonNil_sound {defs : List Def} {S : List T} {v : Val} {t : T}
    (hv : HasTy defs S v t) (hn : v ≠ .nil) : HasTy defs S v (nonNil t) := by
  cases t with
  | opt u => simp only [HasTy] at hv; simp only [nonNil]; exact hv.resolve_left hn
  | nil => simp only [HasTy] at hv; exact absurd hv hn
  | _ => exact hv

theorem fitsAll_length : ∀ {as bs : List T}, fitsAll as bs = true → as.length = bs.length
  | [], [], _ => rfl
  | [], _ :: _, h => by simp [fitsAll] at h
  | _ :: _, [], h => by simp [fitsAll] at h
  | _ :: as, _ :: bs, h => by
    simp only [fitsAll, Bool.and_eq_true] at h
    simp [fitsAll_length h.2]

theorem ofTys_length : ∀ (l : List Ty) (ts : List T), ofTys l = some ts → ts.length = l.length
  | [], ts, h => by simp [ofTys] at h; subst h; rfl
  | t :: l, ts, h => by
    simp only [ofTys] at h
    split at h
    · rename_i t' ts' _ h2
      simp at h; subst h
      simp [ofTys_length l ts' h2]
    · simp at h

-- ---------------------------------------------------------------- store invariant

theorem StOk.read {defs : List Def} {S : List T} {s : St} (h : StOk defs S s) {i : Nat} {t : T}
    (hi : S[i]? = some t) : ∃ v, s.read i = some v ∧ HasTy defs S v t := by
  have hlt : i < S.length := by
    cases Nat.lt_or_ge i S.length with
    | inl h => exact h
    | inr h => rw [List.getElem?_eq_none h] at hi; cases hi
  have hlt' : i < s.store.length := by rw [h.1]; exact hlt
  refine ⟨s.store[i], ?_, h.2 i _ t ?_ hi⟩ <;> simp [St.read, List.getElem?_eq_getElem hlt']

theorem StOk.write {defs : List Def} {S : List T} {s : St} (h : StOk defs S s) {i : Nat} {t : T} {v : Val}
    (hi : S[i]? = some t) (hv : HasTy defs S v t) : StOk defs S (s.write i v) := by
  refine ⟨by simp [St.write, h.1], ?_⟩
  intro j w tj hw hj
  simp only [St.write, List.getElem?_set] at hw
  split at hw
  · rename_i hij
    subst hij
    split at hw
    · simp at hw; subst hw
      rw [hi] at hj; cases hj; exact hv
    · cases hw
  · exact h.2 j w tj hw hj

theorem StOk.emit {defs : List Def} {S : List T} {s : St} (h : StOk defs S s) (l : String) :
    StOk defs S (s.emit l) := h

theorem StOk.alloc {defs : List Def} {S : List T} {s : St} (h : StOk defs S s) {t : T} {v : Val}
    (hv : HasTy defs S v t) : (s.alloc v).1 = S.length ∧ StOk defs (S ++ [t]) (s.alloc v).2 := by
  refine ⟨by simp [St.alloc, h.1], by simp [St.alloc, h.1], ?_⟩
  intro j w tj hw hj
  have hx : Ext S (S ++ [t]) := ⟨[t], rfl⟩
  simp only [St.alloc] at hw
  by_cases hlt : j < S.length
  · rw [List.getElem?_append_left (by rw [h.1]; exact hlt)] at hw
    rw [List.getElem?_append_left hlt] at hj
    exact HasTy.mono hx _ (h.2 j w tj hw hj)
  · have hge : S.length ≤ j := Nat.le_of_not_lt hlt
    rw [List.getElem?_append_right (by rw [h.1]; exact hge)] at hw
    rw [List.getElem?_append_right hge] at hj
    rw [h.1] at hw
    cases hk : j - S.length with
    | zero =>
      rw [hk] at hw hj
      simp at hw hj
      subst hw; subst hj
      exact HasTy.mono hx _ hv
    | succ k => rw [hk] at hj; simp at hj

theorem lookupT_cons {g : TEnvB} {x y : String} {t : T} :
    lookupT ((y, t) :: g) x = if x == y then some t else lookupT g x := rfl

/-- a fresh cell of type `t` bound to `x` extends the environment typing -/
theorem EnvOkB.cons {S : List T} {g : TEnvB} {env : Env} (h : EnvOkB S g env) (x : String) (t : T) :
    EnvOkB (S ++ [t]) ((x, t) :: g) ((x, S.length) :: env) := by
  intro y ty hl
  rw [lookupT_cons] at hl
  simp only [lookup]
  split at hl
  · rename_i hxy
    simp at hl; subst hl
    exact ⟨S.length, by simp [hxy], by simp⟩
  · rename_i hxy
    obtain ⟨i, h1, h2⟩ := h y ty hl
    exact ⟨i, by simp [hxy, h1], Ext.get ⟨[t], rfl⟩ h2⟩

theorem ValsOk.mono {defs : List Def} {S S' : List T} (hx : Ext S S') :
    ∀ {vs : List Val} {ts : List T}, ValsOk defs S vs ts → ValsOk defs S' vs ts
  | [], [], _ => trivial
  | [], _ :: _, h => by simp [ValsOk] at h
  | _ :: _, [], h => by simp [ValsOk] at h
  | _ :: _, _ :: _, h => ⟨HasTy.mono hx _ h.1, ValsOk.mono hx h.2⟩

theorem ValsOk.fits {defs : List Def} {S : List T} :
    ∀ {vs : List Val} {ts pts : List T}, ValsOk defs S vs ts → fitsAll ts pts = true → ValsOk defs S vs pts
  | [], [], [], _, _ => trivial
  | [], [], _ :: _, _, h => by simp [fitsAll] at h
  | [], _ :: _, _, h, _ => by simp [ValsOk] at h
  | _ :: _, [], _, h, _ => by simp [ValsOk] at h
  | _ :: _, _ :: _, [], _, h => by simp [fitsAll] at h
  | _ :: _, _ :: _, _ :: _, h, hf => by
    simp only [fitsAll, Bool.and_eq_true] at hf
    exact ⟨fits_sound h.1 hf.1, ValsOk.fits h.2 hf.2⟩

theorem bindParams_ok {defs : List Def} :
    ∀ (ps : List String) (vs : List Val) (ts : List T) (S : List T) (g : TEnvB) (env : Env) (s : St),
      ps.length = ts.length → ValsOk defs S vs ts → StOk defs S s → EnvOkB S g env →
      ∃ env' s', bindParams ps vs env s = some (env', s') ∧ StOk defs (S ++ ts) s' ∧
        EnvOkB (S ++ ts) (bindTys ps ts g) env'
  | [], vs, ts, S, g, env, s, hl, hv, hs, he => by
    cases ts with
    | nil =>
      cases vs with
      | nil => exact ⟨env, s, rfl, by simpa using hs, by simpa [bindTys] using he⟩
      | cons v vs => simp [ValsOk] at hv
    | cons t ts => simp at hl
  | p :: ps, vs, ts, S, g, env, s, hl, hv, hs, he => by
    cases ts with
    | nil => simp at hl
    | cons t ts =>
      cases vs with
      | nil => simp [ValsOk] at hv
      | cons v vs =>
        obtain ⟨hv1, hvr⟩ := hv
        obtain ⟨hi, hs1⟩ := hs.alloc hv1
        have hx : Ext S (S ++ [t]) := ⟨[t], rfl⟩
        have he1 := he.cons p t
        obtain ⟨env', s', hb, hs', he'⟩ :=
          bindParams_ok ps vs ts (S ++ [t]) ((p, t) :: g) ((p, S.length) :: env) (s.alloc v).2
            (by simpa using hl) (hvr.mono hx) hs1 he1
        refine ⟨env', s', ?_, by simpa using hs', by simpa [bindTys] using he'⟩
        simp only [bindParams]
        rw [← hi] at hb
        exact hb

-- ---------------------------------------------------------------- labels

theorem lblOk_miss {mine : Option String} {L : List (Option String)} {l : Option String}
    (h : lblOk (mine :: L) l = true) (hm : labelHits mine l = false) : lblOk L l = true := by
  cases l with
  | none => simp [labelHits] at hm
  | some x =>
    simp only [labelHits] at hm
    simp only [lblOk, List.any_cons, Bool.or_eq_true] at h ⊢
    rcases h with h | h
    · rw [h] at hm; cases hm
    · exact h

theorem lblOk_nil (l : Option String) : lblOk [] l = false := by
  cases l <;> simp [lblOk]

-- ---------------------------------------------------------------- outcomes

theorem OutOk.mono {defs : List Def} {S S' : List T} (hx : Ext S S') {L ret t} {o : Out}
    (h : OutOk defs S L ret t o) : OutOk defs S' L ret t o := by
  cases o with
  | val v => exact HasTy.mono hx _ h
  | ret v => obtain ⟨r, h1, h2⟩ := h; exact ⟨r, h1, HasTy.mono hx _ h2⟩
  | _ => exact h

/-- an outcome of an expression (no loops, no return type) is fine in every statement context -/
theorem OutOk.lift {defs : List Def} {S : List T} {L ret t} {o : Out}
    (h : OutOk defs S [] none t o) : OutOk defs S L ret t o := by
  cases o with
  | val v => exact h
  | brk l => simp [OutOk, lblOk_nil] at h
  | cont l => simp [OutOk, lblOk_nil] at h
  | ret v => obtain ⟨r, h1, _⟩ := h; cases h1
  | _ => exact h

/-- outcomes that are not values do not care about the expected type -/
theorem OutOk.retype {defs : List Def} {S : List T} {L ret t t'} {o : Out}
    (h : OutOk defs S L ret t o) (hv : ∀ v, o ≠ .val v) : OutOk defs S L ret t' o := by
  cases o with
  | val v => exact absurd rfl (hv v)
  | _ => exact h

end Elk.Mini
