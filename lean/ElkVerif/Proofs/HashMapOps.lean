import ElkVerif.Proofs.HashMap
/-! C17: abstraction to association lists; lookup, store and delete preserve the invariant -/
namespace Elk.HashMap

variable {K V : Type}

/-- lookup in an association list up to `eqv` (the finite map a table denotes) -/
def lookupL (eqv : K → K → Bool) : List (K × V) → K → Option V
  | [], _ => none
  | (k, v) :: rest, key => if eqv k key then some v else lookupL eqv rest key

theorem mem_entries (slots : List (Slot K V)) (k : K) (v : V) :
    (k, v) ∈ entries slots ↔ ∃ j : Nat, slots[j]? = some (Slot.live k v) := by
  induction slots with
  | nil => simp [entries]
  | cons s rest ih =>
    have shift : (∃ j : Nat, (s :: rest)[j]? = some (Slot.live k v)) ↔
        (s = Slot.live k v ∨ ∃ j : Nat, rest[j]? = some (Slot.live k v)) := by
      constructor
      · rintro ⟨j, hj⟩
        cases j with
        | zero => left; simpa using hj
        | succ j => right; exact ⟨j, by simpa using hj⟩
      · rintro (h | ⟨j, hj⟩)
        · exact ⟨0, by simp [h]⟩
        · exact ⟨j + 1, by simpa using hj⟩
    rw [shift]
    cases s with
    | empty => simp [entries, ih]
    | tomb => simp [entries, ih]
    | live k' v' =>
      simp only [entries, List.mem_cons, Prod.mk.injEq, ih, Slot.live.injEq]
      constructor <;> rintro (⟨a, b⟩ | h) <;> first | exact Or.inl ⟨a.symm, b.symm⟩ | exact Or.inr h

theorem entries_length (slots : List (Slot K V)) : (entries slots).length = countLive slots := by
  induction slots with
  | nil => rfl
  | cons s rest ih => cases s <;> simp [entries, countLive, ih]

theorem lookupL_none (eqv : K → K → Bool) (l : List (K × V)) (key : K)
    (h : ∀ k w, (k, w) ∈ l → eqv k key = false) : lookupL eqv l key = none := by
  induction l with
  | nil => rfl
  | cons p rest ih =>
    obtain ⟨k, w⟩ := p
    simp only [lookupL, h k w (by simp)]
    exact ih (fun k' w' hm => h k' w' (by simp [hm]))

theorem lookupL_unique (eqv : K → K → Bool) (l : List (K × V)) (key : K) (v : V)
    (hex : ∃ k, (k, v) ∈ l ∧ eqv k key = true)
    (hun : ∀ k w, (k, w) ∈ l → eqv k key = true → w = v) : lookupL eqv l key = some v := by
  induction l with
  | nil => obtain ⟨k, hm, _⟩ := hex; cases hm
  | cons p rest ih =>
    obtain ⟨k, w⟩ := p
    simp only [lookupL]
    cases he : eqv k key with
    | true => simp [hun k w (by simp) he]
    | false =>
      simp only [Bool.false_eq_true, if_false]
      apply ih
      · obtain ⟨k', hm, hk'⟩ := hex
        rcases List.mem_cons.mp hm with h | h
        · injection h with h1 h2; subst h1; rw [he] at hk'; cases hk'
        · exact ⟨k', h, hk'⟩
      · exact fun k' w' hm => hun k' w' (by simp [hm])

theorem lookupL_some_mem (eqv : K → K → Bool) (l : List (K × V)) (key : K) (v : V)
    (h : lookupL eqv l key = some v) : ∃ k, (k, v) ∈ l ∧ eqv k key = true := by
  induction l with
  | nil => cases h
  | cons p rest ih =>
    obtain ⟨k, w⟩ := p
    simp only [lookupL] at h
    cases he : eqv k key with
    | true => simp only [he, if_true, Option.some.injEq] at h; subst h; exact ⟨k, by simp, he⟩
    | false =>
      simp only [he, Bool.false_eq_true, if_false] at h
      obtain ⟨k', hm, hk'⟩ := ih h
      exact ⟨k', by simp [hm], hk'⟩

section
variable {hash : K → Nat} {eqv : K → K → Bool}

/-- **what a table denotes**: `q ↦ w` iff some live slot holds a key equivalent to `q` with value `w` -/
theorem lookup_iff (hk : KeyOk hash eqv) (t : Tbl K V) (hinv : Inv hash eqv t) (q : K) (w : V) :
    lookupL eqv t.toList q = some w ↔ ∃ (j : Nat) (k : K), t.slots[j]? = some (Slot.live k w) ∧ eqv k q = true := by
  constructor
  · intro h
    obtain ⟨k, hm, he⟩ := lookupL_some_mem eqv _ q w h
    obtain ⟨j, hj⟩ := (mem_entries t.slots k w).mp hm
    exact ⟨j, k, hj, he⟩
  · rintro ⟨j, k, hj, he⟩
    apply lookupL_unique eqv _ q w ⟨k, (mem_entries t.slots k w).mpr ⟨j, hj⟩, he⟩
    intro k' w' hm he'
    obtain ⟨j', hj'⟩ := (mem_entries t.slots k' w').mp hm
    have : eqv k' k = true := hk.trans k' q k he' (hk.symm k q he)
    have := hinv.nodup j' j k' k w' w hj' hj this
    subst this
    rw [hj] at hj'; injection hj' with h; injection h with _ h2; exact h2.symm

theorem lookup_none_iff (hk : KeyOk hash eqv) (t : Tbl K V) (hinv : Inv hash eqv t) (q : K) :
    lookupL eqv t.toList q = none ↔ Absent eqv t.slots q := by
  constructor
  · intro h j k v hj
    cases he : eqv k q with
    | false => rfl
    | true =>
      have := (lookup_iff hk t hinv q v).mpr ⟨j, k, hj, he⟩
      rw [h] at this; cases this
  · intro h
    apply lookupL_none
    intro k w hm
    obtain ⟨j, hj⟩ := (mem_entries t.slots k w).mp hm
    exact h j k w hj

theorem option_ext {α} (a b : Option α) (h : ∀ w, a = some w ↔ b = some w) : a = b := by
  cases a with
  | none =>
    cases b with
    | none => rfl
    | some y => exact absurd ((h y).mpr rfl) (by simp)
  | some x => exact ((h x).mp rfl).symm

theorem countLive_pos_of_live (slots : List (Slot K V)) (j : Nat) (k : K) (v : V)
    (h : slots[j]? = some (.live k v)) : 0 < countLive slots := by
  induction slots generalizing j with
  | nil => simp at h
  | cons s rest ih =>
    cases j with
    | zero => simp at h; subst h; simp [countLive]
    | succ j =>
      have := ih j (by simpa using h)
      cases s <;> simp [countLive] <;> omega

/-- **`Get` refines lookup** (absent keys look up as absent, whatever deleted slots they cross) -/
theorem get_spec (hk : KeyOk hash eqv) (t : Tbl K V) (hinv : Inv hash eqv t) (key : K) :
    get hash eqv t key = .ok (match lookupL eqv t.toList key with
      | some v => .val v
      | none => .absent) := by
  cases hl : lookupL eqv t.toList key with
  | some v =>
    obtain ⟨j, k, hj, he⟩ := (lookup_iff hk t hinv key v).mp hl
    have hpos := countLive_pos_of_live t.slots j k v hj
    have hne : ¬ t.elements = 0 := by rw [hinv.elems]; omega
    simp only [get, hne, if_false, index_found hk t hinv key k v j hj he, hj]
  | none =>
    have hab := (lookup_none_iff hk t hinv key).mp hl
    simp only [get]
    by_cases he : t.elements = 0
    · simp [he]
    · simp only [he, if_false]
      have hc : 0 < t.cap := by
        have := count_total t.slots
        have := hinv.elems
        simp only [Tbl.cap]; omega
      obtain ⟨r, hr, hspec⟩ := index_absent (hash := hash) t key hc hab
      rw [hr]
      cases r with
      | none => rfl
      | some x =>
        obtain ⟨_, _, _, _, hx⟩ := hspec
        rcases hx with hx | hx <;> simp [hx]

/-- `ContainsKey` refines membership -/
theorem containsKey_spec (hk : KeyOk hash eqv) (t : Tbl K V) (hinv : Inv hash eqv t) (key : K) :
    containsKey hash eqv t key = .ok (lookupL eqv t.toList key).isSome := by
  cases hl : lookupL eqv t.toList key with
  | some v =>
    obtain ⟨j, k, hj, he⟩ := (lookup_iff hk t hinv key v).mp hl
    have hpos := countLive_pos_of_live t.slots j k v hj
    have hne : ¬ t.elements = 0 := by rw [hinv.elems]; omega
    simp only [containsKey, hne, if_false, index_found hk t hinv key k v j hj he, hj, Option.isSome]
  | none =>
    have hab := (lookup_none_iff hk t hinv key).mp hl
    simp only [containsKey]
    by_cases he : t.elements = 0
    · simp [he]
    · simp only [he, if_false]
      have hc : 0 < t.cap := by
        have := count_total t.slots
        have := hinv.elems
        simp only [Tbl.cap]; omega
      obtain ⟨r, hr, hspec⟩ := index_absent (hash := hash) t key hc hab
      rw [hr]
      cases r with
      | none => rfl
      | some x =>
        obtain ⟨_, _, _, _, hx⟩ := hspec
        rcases hx with hx | hx <;> simp [hx]

end


/-! ### writing one slot -/

def isLive : Slot K V → Nat
  | .live _ _ => 1
  | _ => 0

def isTomb : Slot K V → Nat
  | .tomb => 1
  | _ => 0

theorem countLive_set (slots : List (Slot K V)) (i : Nat) (new : Slot K V) (h : i < slots.length) :
    countLive (slots.set i new) + isLive slots[i] = countLive slots + isLive new := by
  induction slots generalizing i with
  | nil => simp at h
  | cons s rest ih =>
    cases i with
    | zero => cases s <;> cases new <;> simp [countLive, isLive] <;> omega
    | succ i =>
      have := ih i (by simpa using h)
      cases s <;> simp [countLive] at this ⊢ <;> omega

theorem countTomb_set (slots : List (Slot K V)) (i : Nat) (new : Slot K V) (h : i < slots.length) :
    countTomb (slots.set i new) + isTomb slots[i] = countTomb slots + isTomb new := by
  induction slots generalizing i with
  | nil => simp at h
  | cons s rest ih =>
    cases i with
    | zero => cases s <;> cases new <;> simp [countTomb, isTomb] <;> omega
    | succ i =>
      have := ih i (by simpa using h)
      cases s <;> simp [countTomb] at this ⊢ <;> omega

theorem split_unique {α} {l p1 q1 p2 q2 : List α} {x : α} (hn : l.Nodup)
    (h1 : l = p1 ++ x :: q1) (h2 : l = p2 ++ x :: q2) : p1 = p2 := by
  subst h1
  induction p1 generalizing p2 with
  | nil =>
    cases p2 with
    | nil => rfl
    | cons y p2 =>
      simp only [List.nil_append, List.cons_append, List.cons.injEq] at h2
      obtain ⟨rfl, h2⟩ := h2
      rw [h2] at hn
      simp at hn
  | cons y p1 ih =>
    cases p2 with
    | nil =>
      simp only [List.nil_append, List.cons_append, List.cons.injEq] at h2
      obtain ⟨rfl, h2⟩ := h2
      simp at hn
    | cons z p2 =>
      simp only [List.cons_append, List.cons.injEq] at h2
      obtain ⟨rfl, h2⟩ := h2
      rw [ih (by simpa using (List.nodup_cons.mp hn).2) h2]

section
variable {hash : K → Nat} {eqv : K → K → Bool}

/-- how a slot may be (over)written with `live key val` -/
inductive StoreAt (hash : K → Nat) (eqv : K → K → Bool) (t : Tbl K V) (key : K) (i : Nat) : Prop where
  /-- the slot already holds an equivalent key -/
  | update (k' : K) (v' : V) (h : t.slots[i]? = some (.live k' v')) (he : eqv k' key = true)
  /-- the key is absent and `i` is a free slot reachable from the key's home without crossing an empty slot -/
  | fresh (hfree : t.slots[i]? = some .empty ∨ t.slots[i]? = some .tomb) (hab : Absent eqv t.slots key)
      (pre post : List Nat) (hpath : path t.cap (hash key % t.cap) = pre ++ i :: post)
      (hpre : ∀ x ∈ pre, t.slots[x]? ≠ some .empty)

/-- structural part of the invariant and the new denotation after storing `key ↦ val` at slot `i` -/
theorem store_struct (hk : KeyOk hash eqv) (t : Tbl K V) (hinv : Inv hash eqv t) (key : K) (val : V) (i : Nat)
    (hs : StoreAt hash eqv t key i) (e o : Nat)
    (he : e = countLive (t.slots.set i (.live key val)))
    (ho : o = countLive (t.slots.set i (.live key val)) + countTomb (t.slots.set i (.live key val))) :
    Inv hash eqv ⟨t.slots.set i (.live key val), e, o⟩ := by
  have hilt : i < t.slots.length := by
    cases hs with
    | update k' v' h _ => exact lt_of_getElem?' h
    | fresh hf _ _ _ _ _ => rcases hf with h | h <;> exact lt_of_getElem?' h
  -- reading the new table
  have hget : ∀ j, (t.slots.set i (Slot.live key val))[j]? =
      if i = j then some (Slot.live key val) else t.slots[j]? := by
    intro j; rw [List.getElem?_set]; simp [hilt]
  -- any live entry of the old table equivalent to `key` sits at `i`
  have hother : ∀ (j : Nat) (k2 : K) (v2 : V), t.slots[j]? = some (.live k2 v2) → eqv k2 key = true → j = i := by
    intro j k2 v2 hj hke
    cases hs with
    | update k' v' h he' =>
      exact hinv.nodup j i k2 k' v2 v' hj h (hk.trans k2 key k' hke (hk.symm k' key he'))
    | fresh _ hab _ _ _ _ => rw [hab j k2 v2 hj] at hke; cases hke
  refine ⟨he, ho, ?_, ?_⟩
  · intro a b k1 k2 v1 v2 ha hb hee
    simp only at ha hb
    rw [hget] at ha hb
    by_cases hia : i = a <;> by_cases hib : i = b
    · omega
    · rw [if_pos hia] at ha; rw [if_neg hib] at hb
      injection ha with ha; injection ha with h1 _; subst h1
      have := hother b k2 v2 hb (hk.symm key k2 hee); omega
    · rw [if_neg hia] at ha; rw [if_pos hib] at hb
      injection hb with hb; injection hb with h1 _; subst h1
      have := hother a k1 v1 ha hee; omega
    · rw [if_neg hia] at ha; rw [if_neg hib] at hb
      exact hinv.nodup a b k1 k2 v1 v2 ha hb hee
  · intro j k v hj pre post hpath x hx
    simp only [Tbl.cap, List.length_set] at hpath
    simp only at hj ⊢
    rw [hget] at hj ⊢
    by_cases hix : i = x
    · rw [if_pos hix]; simp
    · rw [if_neg hix]
      by_cases hij : i = j
      · rw [if_pos hij] at hj
        injection hj with hj; injection hj with h1 _; subst h1; subst hij
        cases hs with
        | update k' v' h he' =>
          have hh : hash key % t.cap = hash k' % t.cap := by rw [hk.hash_eq k' key he']
          exact hinv.reach i k' v' h pre post (by rw [← hh]; exact hpath) x hx
        | fresh _ _ pre0 post0 hpath0 hpre0 =>
          have := split_unique (nodup_path _ _) hpath hpath0
          subst this
          exact hpre0 x hx
      · rw [if_neg hij] at hj
        exact hinv.reach j k v hj pre post hpath x hx

/-- the denotation after storing `key ↦ val` at slot `i` -/
theorem store_lookup (hk : KeyOk hash eqv) (t : Tbl K V) (hinv : Inv hash eqv t) (key : K) (val : V) (i : Nat)
    (hs : StoreAt hash eqv t key i) (t' : Tbl K V) (hslots : t'.slots = t.slots.set i (.live key val))
    (hinv' : Inv hash eqv t') (q : K) :
    lookupL eqv t'.toList q = if eqv key q then some val else lookupL eqv t.toList q := by
  have hilt : i < t.slots.length := by
    cases hs with
    | update k' v' h _ => exact lt_of_getElem?' h
    | fresh hf _ _ _ _ _ => rcases hf with h | h <;> exact lt_of_getElem?' h
  have hget : ∀ j, t'.slots[j]? = if i = j then some (Slot.live key val) else t.slots[j]? := by
    intro j; rw [hslots, List.getElem?_set]; simp [hilt]
  cases hq : eqv key q with
  | true =>
    simp only [if_true]
    exact (lookup_iff hk t' hinv' q val).mpr ⟨i, key, by rw [hget, if_pos rfl], hq⟩
  | false =>
    simp only [Bool.false_eq_true, if_false]
    apply option_ext
    intro w
    rw [lookup_iff hk t' hinv' q w, lookup_iff hk t hinv q w]
    constructor
    · rintro ⟨j, k, hj, hke⟩
      rw [hget] at hj
      by_cases hij : i = j
      · rw [if_pos hij] at hj
        injection hj with hj; injection hj with h1 _; subst h1
        rw [hq] at hke; cases hke
      · rw [if_neg hij] at hj
        exact ⟨j, k, hj, hke⟩
    · rintro ⟨j, k, hj, hke⟩
      have hij : i ≠ j := by
        intro e; subst e
        cases hs with
        | update k' v' h he' =>
          rw [h] at hj; injection hj with hj; injection hj with h1 _; subst h1
          have := hk.trans key k' q (hk.symm k' key he') hke
          rw [hq] at this; cases this
        | fresh hf _ _ _ _ _ => rcases hf with h | h <;> (rw [h] at hj; cases hj)
      exact ⟨j, k, by rw [hget, if_neg hij]; exact hj, hke⟩

end

end Elk.HashMap

namespace Elk.HashMap
variable {K V : Type} {hash : K → Nat} {eqv : K → K → Bool}

/-! ### delete -/

/-- `Delete` removes exactly the binding of `key`, keeps the invariant, reports whether there was one -/
theorem delete_spec (hk : KeyOk hash eqv) (t : Tbl K V) (hinv : Inv hash eqv t) (key : K) :
    ∃ t' b, delete hash eqv t key = .ok (t', b) ∧ Inv hash eqv t' ∧ t'.cap = t.cap ∧
      b = (lookupL eqv t.toList key).isSome ∧
      ∀ q, lookupL eqv t'.toList q = if eqv key q then none else lookupL eqv t.toList q := by
  cases hl : lookupL eqv t.toList key with
  | none =>
    -- nothing to delete
    have hab := (lookup_none_iff hk t hinv key).mp hl
    have hsame : ∀ q, lookupL eqv t.toList q = if eqv key q then none else lookupL eqv t.toList q := by
      intro q
      cases hq : eqv key q with
      | false => simp
      | true =>
        simp only [if_true]
        apply (lookup_none_iff hk t hinv q).mpr
        intro j k v hj
        cases hkq : eqv k q with
        | false => rfl
        | true =>
          have := hab j k v hj
          have h2 := hk.trans k q key hkq (hk.symm key q hq)
          rw [this] at h2; cases h2
    simp only [delete]
    by_cases he : t.elements = 0
    · exact ⟨t, false, by simp [he], hinv, rfl, rfl, hsame⟩
    · simp only [he, if_false]
      have hc : 0 < t.cap := by
        have := count_total t.slots
        have := hinv.elems
        simp only [Tbl.cap]; omega
      obtain ⟨r, hr, hspec⟩ := index_absent (hash := hash) t key hc hab
      rw [hr]
      cases r with
      | none => exact ⟨t, false, rfl, hinv, rfl, rfl, hsame⟩
      | some x =>
        obtain ⟨_, _, _, _, hx⟩ := hspec
        rcases hx with hx | hx <;> exact ⟨t, false, by simp [hx], hinv, rfl, rfl, hsame⟩
  | some v =>
    obtain ⟨j, k, hj, he⟩ := (lookup_iff hk t hinv key v).mp hl
    have hjlt : j < t.slots.length := lt_of_getElem?' hj
    have hpos := countLive_pos_of_live t.slots j k v hj
    have hne : ¬ t.elements = 0 := by rw [hinv.elems]; omega
    have hget : ∀ x, (t.slots.set j Slot.tomb)[x]? = if j = x then some Slot.tomb else t.slots[x]? := by
      intro x; rw [List.getElem?_set]; simp [hjlt]
    have hcl := countLive_set t.slots j (Slot.tomb : Slot K V) hjlt
    have hct := countTomb_set t.slots j (Slot.tomb : Slot K V) hjlt
    have hjv : t.slots[j] = Slot.live k v := by
      have := List.getElem?_eq_getElem hjlt; rw [this] at hj; exact Option.some.inj hj
    rw [hjv] at hcl hct
    simp only [isLive, isTomb] at hcl hct
    have hinv' : Inv hash eqv ⟨t.slots.set j Slot.tomb, t.elements - 1, t.occupied⟩ := by
      refine ⟨?_, ?_, ?_, ?_⟩
      · simp only; rw [hinv.elems]; omega
      · simp only; rw [hinv.occ]; omega
      · intro a b k1 k2 v1 v2 ha hb hee
        simp only at ha hb
        rw [hget] at ha hb
        by_cases hja : j = a
        · rw [if_pos hja] at ha; cases ha
        · by_cases hjb : j = b
          · rw [if_pos hjb] at hb; cases hb
          · rw [if_neg hja] at ha; rw [if_neg hjb] at hb
            exact hinv.nodup a b k1 k2 v1 v2 ha hb hee
      · intro a k1 v1 ha pre post hpath x hx
        simp only [Tbl.cap, List.length_set] at hpath
        simp only at ha ⊢
        rw [hget] at ha ⊢
        by_cases hjx : j = x
        · rw [if_pos hjx]; simp
        · rw [if_neg hjx]
          by_cases hja : j = a
          · rw [if_pos hja] at ha; cases ha
          · rw [if_neg hja] at ha
            exact hinv.reach a k1 v1 ha pre post hpath x hx
    refine ⟨_, true, by simp only [delete, hne, if_false, index_found hk t hinv key k v j hj he, hj], hinv',
      by simp [Tbl.cap], rfl, ?_⟩
    intro q
    cases hq : eqv key q with
    | true =>
      simp only [if_true]
      apply (lookup_none_iff hk _ hinv' q).mpr
      intro a k1 v1 ha
      simp only at ha
      rw [hget] at ha
      by_cases hja : j = a
      · rw [if_pos hja] at ha; cases ha
      · rw [if_neg hja] at ha
        cases hkq : eqv k1 q with
        | false => rfl
        | true =>
          exfalso
          have h1 : eqv k1 k = true :=
            hk.trans k1 q k hkq (hk.trans q key k (hk.symm key q hq) (hk.symm k key he))
          exact hja (hinv.nodup a j k1 k v1 v ha hj h1).symm
    | false =>
      simp only [Bool.false_eq_true, if_false]
      apply option_ext
      intro w
      rw [lookup_iff hk _ hinv' q w, lookup_iff hk t hinv q w]
      constructor
      · rintro ⟨a, k1, ha, hke⟩
        simp only at ha
        rw [hget] at ha
        by_cases hja : j = a
        · rw [if_pos hja] at ha; cases ha
        · rw [if_neg hja] at ha; exact ⟨a, k1, ha, hke⟩
      · rintro ⟨a, k1, ha, hke⟩
        have hja : j ≠ a := by
          intro e; subst e
          rw [hj] at ha; injection ha with ha; injection ha with h1 _; subst h1
          have := hk.trans key k q (hk.symm k key he) hke
          rw [hq] at this; cases this
        exact ⟨a, k1, by simp only; rw [hget, if_neg hja]; exact ha, hke⟩

end Elk.HashMap
