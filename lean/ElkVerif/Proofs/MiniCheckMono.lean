import ElkVerif.Model.Mini.TypesB
/-!
Fuel monotonicity of the extended checker: once it accepts, more fuel gives the same answer, so
"the checker accepts the program" does not depend on the fuel chosen.
-/
namespace Elk.Mini

structure CMonoAt (defs : List Def) (k : Nat) : Prop where
  expr : ∀ g e t, checkExpr defs k g e = some t → checkExpr defs (k + 1) g e = some t
  args : ∀ g es ts, checkArgs defs k g es = some ts → checkArgs defs (k + 1) g es = some ts
  block : ∀ c ss r, checkBlock defs k c ss = some r → checkBlock defs (k + 1) c ss = some r
  stmt : ∀ c st r, checkStmt defs k c st = some r → checkStmt defs (k + 1) c st = some r
  catches : ∀ c cs t, checkCatches defs k c cs = some t → checkCatches defs (k + 1) c cs = some t

theorem cmonoAt_zero (defs : List Def) : CMonoAt defs 0 := by
  constructor <;> intros <;> simp_all [checkExpr, checkArgs, checkBlock, checkStmt, checkCatches]

theorem cmono_expr_succ (defs : List Def) (k : Nat) (ih : CMonoAt defs k) :
    ∀ g e t, checkExpr defs (k + 1) g e = some t → checkExpr defs (k + 2) g e = some t := by
  intro g e t h
  cases e with
  | int n => unfold checkExpr at h ⊢; exact h
  | bool n => unfold checkExpr at h ⊢; exact h
  | str n => unfold checkExpr at h ⊢; exact h
  | nil => unfold checkExpr at h ⊢; exact h
  | var x => unfold checkExpr at h ⊢; exact h
  | bin op a b =>
    unfold checkExpr at h ⊢
    simp only [Option.bind_eq_some_iff] at h ⊢
    obtain ⟨ta, ha, tb, hb, h⟩ := h
    exact ⟨ta, ih.expr _ _ _ ha, tb, ih.expr _ _ _ hb, h⟩
  | un op a =>
    unfold checkExpr at h ⊢
    simp only [Option.bind_eq_some_iff] at h ⊢
    obtain ⟨ta, ha, h⟩ := h
    exact ⟨ta, ih.expr _ _ _ ha, h⟩
  | and a b =>
    unfold checkExpr at h ⊢
    simp only [Option.bind_eq_some_iff] at h ⊢
    obtain ⟨ta, ha, tb, hb, h⟩ := h
    exact ⟨ta, ih.expr _ _ _ ha, tb, ih.expr _ _ _ hb, h⟩
  | or a b =>
    unfold checkExpr at h ⊢
    simp only [Option.bind_eq_some_iff] at h ⊢
    obtain ⟨ta, ha, tb, hb, h⟩ := h
    exact ⟨ta, ih.expr _ _ _ ha, tb, ih.expr _ _ _ hb, h⟩
  | nilco a b =>
    unfold checkExpr at h ⊢
    simp only [Option.bind_eq_some_iff] at h ⊢
    obtain ⟨ta, ha, tb, hb, h⟩ := h
    exact ⟨ta, ih.expr _ _ _ ha, tb, ih.expr _ _ _ hb, h⟩
  | assign x rhs =>
    unfold checkExpr at h ⊢
    simp only [Option.bind_eq_some_iff] at h ⊢
    obtain ⟨tx, hx, t', hr, h⟩ := h
    exact ⟨tx, hx, t', ih.expr _ _ _ hr, h⟩
  | callDef f args =>
    unfold checkExpr at h ⊢
    simp only [Option.bind_eq_some_iff] at h ⊢
    obtain ⟨d, hd, sig, hs, ts, ha, h⟩ := h
    exact ⟨d, hd, sig, hs, ts, ih.args _ _ _ ha, h⟩
  | callClo f args =>
    unfold checkExpr at h ⊢
    simp only [Option.bind_eq_some_iff] at h ⊢
    obtain ⟨tf, hf, ts, ha, h⟩ := h
    exact ⟨tf, ih.expr _ _ _ hf, ts, ih.args _ _ _ ha, h⟩
  | lam ps rt body =>
    unfold checkExpr at h ⊢
    simp only [Option.bind_eq_some_iff] at h ⊢
    obtain ⟨pts, hp, r, hr, tv, hb, h⟩ := h
    exact ⟨pts, hp, r, hr, tv, ih.block _ _ _ hb, h⟩

theorem cmono_args_succ (defs : List Def) (k : Nat) (ih : CMonoAt defs k) :
    ∀ g es ts, checkArgs defs (k + 1) g es = some ts → checkArgs defs (k + 2) g es = some ts := by
  intro g es ts h
  cases es with
  | nil => unfold checkArgs at h ⊢; exact h
  | cons a rest =>
    unfold checkArgs at h ⊢
    simp only [Option.bind_eq_some_iff] at h ⊢
    obtain ⟨t, ha, ts', hr, h⟩ := h
    exact ⟨t, ih.expr _ _ _ ha, ts', ih.args _ _ _ hr, h⟩

theorem cmono_block_succ (defs : List Def) (k : Nat) (ih : CMonoAt defs k) :
    ∀ c ss r, checkBlock defs (k + 1) c ss = some r → checkBlock defs (k + 2) c ss = some r := by
  intro c ss r h
  cases ss with
  | nil => unfold checkBlock at h ⊢; exact h
  | cons st rest =>
    cases rest with
    | nil =>
      unfold checkBlock at h ⊢
      split at h
      · rename_i hd; simp only [hd, if_true]; exact ih.stmt _ _ _ h
      · cases h
    | cons st2 rest2 =>
      unfold checkBlock at h ⊢
      split at h
      · rename_i hd
        simp only [hd, if_true, Option.bind_eq_some_iff] at h ⊢
        obtain ⟨r1, h1, h2⟩ := h
        exact ⟨r1, ih.stmt _ _ _ h1, ih.block _ _ _ h2⟩
      · cases h

theorem cmono_catches_succ (defs : List Def) (k : Nat) (ih : CMonoAt defs k) :
    ∀ c cs t, checkCatches defs (k + 1) c cs = some t → checkCatches defs (k + 2) c cs = some t := by
  intro c cs t h
  cases cs with
  | nil => unfold checkCatches at h ⊢; exact h
  | cons ct rest =>
    cases ct with
    | mk p x body =>
      unfold checkCatches at h ⊢
      simp only [Option.bind_eq_some_iff] at h ⊢
      obtain ⟨rb, hb, tr, hr, h⟩ := h
      exact ⟨rb, ih.block _ _ _ hb, tr, ih.catches _ _ _ hr, h⟩

theorem cmono_stmt_succ (defs : List Def) (k : Nat) (ih : CMonoAt defs k) :
    ∀ c st r, checkStmt defs (k + 1) c st = some r → checkStmt defs (k + 2) c st = some r := by
  intro c st r h
  cases st with
  | decl x ann e =>
    unfold checkStmt at h ⊢
    simp only [Option.bind_eq_some_iff] at h ⊢
    obtain ⟨t, he, td, hd, h⟩ := h
    exact ⟨t, ih.expr _ _ _ he, td, hd, h⟩
  | expr e =>
    unfold checkStmt at h ⊢
    simp only [Option.bind_eq_some_iff] at h ⊢
    obtain ⟨t, he, h⟩ := h
    exact ⟨t, ih.expr _ _ _ he, h⟩
  | print e =>
    unfold checkStmt at h ⊢
    simp only [Option.bind_eq_some_iff] at h ⊢
    obtain ⟨t, he, h⟩ := h
    exact ⟨t, ih.expr _ _ _ he, h⟩
  | ite cnd tb eb =>
    unfold checkStmt at h ⊢
    simp only [Option.bind_eq_some_iff] at h ⊢
    obtain ⟨tc, hc, r1, h1, r2, h2, h⟩ := h
    exact ⟨tc, ih.expr _ _ _ hc, r1, ih.block _ _ _ h1, r2, ih.block _ _ _ h2, h⟩
  | «while» lbl cnd body =>
    unfold checkStmt at h ⊢
    simp only [Option.bind_eq_some_iff] at h ⊢
    obtain ⟨tc, hc, rb, hb, h⟩ := h
    exact ⟨tc, ih.expr _ _ _ hc, rb, ih.block _ _ _ hb, h⟩
  | loop lbl body =>
    unfold checkStmt at h ⊢
    simp only [Option.bind_eq_some_iff] at h ⊢
    obtain ⟨rb, hb, h⟩ := h
    exact ⟨rb, ih.block _ _ _ hb, h⟩
  | brk l => unfold checkStmt at h ⊢; exact h
  | cont l => unfold checkStmt at h ⊢; exact h
  | ret e =>
    unfold checkStmt at h ⊢
    simp only [Option.bind_eq_some_iff] at h ⊢
    obtain ⟨t, he, r', hr, h⟩ := h
    exact ⟨t, ih.expr _ _ _ he, r', hr, h⟩
  | throw e =>
    unfold checkStmt at h ⊢
    simp only [Option.bind_eq_some_iff] at h ⊢
    obtain ⟨t, he, h⟩ := h
    exact ⟨t, ih.expr _ _ _ he, h⟩
  | «try» body cs fin =>
    unfold checkStmt at h ⊢
    simp only [Option.bind_eq_some_iff] at h ⊢
    obtain ⟨rb, hb, tc, hc, h⟩ := h
    refine ⟨rb, ih.block _ _ _ hb, tc, ih.catches _ _ _ hc, ?_⟩
    cases fin with
    | none => exact h
    | some f =>
      simp only [Option.bind_eq_some_iff] at h ⊢
      obtain ⟨rf, hf, h⟩ := h
      exact ⟨rf, ih.block _ _ _ hf, h⟩

theorem cmonoAt_all (defs : List Def) : ∀ k, CMonoAt defs k
  | 0 => cmonoAt_zero defs
  | k + 1 =>
    have ih := cmonoAt_all defs k
    ⟨cmono_expr_succ defs k ih, cmono_args_succ defs k ih, cmono_block_succ defs k ih,
     cmono_stmt_succ defs k ih, cmono_catches_succ defs k ih⟩

theorem checkBlock_mono (defs : List Def) (k j : Nat) (c : Ctx) (ss : List Stmt) (r : T × TEnvB)
    (h : checkBlock defs k c ss = some r) : checkBlock defs (k + j) c ss = some r := by
  induction j with
  | zero => exact h
  | succ j ih => exact (cmonoAt_all defs (k + j)).block c ss r ih

theorem checkDef_mono (defs : List Def) (k j : Nat) (d : Def) (h : checkDef defs k d = true) :
    checkDef defs (k + j) d = true := by
  simp only [checkDef] at h ⊢
  split at h
  · rename_i pts r hs
    split at h
    · rename_i tv g' hb
      simp only [checkBlock_mono defs k j _ _ _ hb]
      exact h
    · cases h
  · cases h

/-- once a program is accepted, every larger checker fuel accepts it too -/
theorem checkProg_mono (k j : Nat) (p : Prog) (h : checkProg k p = true) : checkProg (k + j) p = true := by
  simp only [checkProg, Bool.and_eq_true, List.all_eq_true, Option.isSome_iff_exists] at h ⊢
  obtain ⟨hd, r, hr⟩ := h
  exact ⟨fun d hm => checkDef_mono p.defs k j d (hd d hm), r, checkBlock_mono p.defs k j _ _ r hr⟩

end Elk.Mini
