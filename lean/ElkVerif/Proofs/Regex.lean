import ElkVerif.Model.Regex.Sem
/-! Helper lemmas for C21: the tree translation `tg` preserves matching (fragment). -/
namespace Elk.Regex

theorem Star.congr {R R' : Nat → Nat → Prop} (h : ∀ i j, R i j ↔ R' i j) {i j : Nat} :
    Star R i j ↔ Star R' i j := by
  constructor
  · intro hs
    induction hs with
    | refl i => exact .refl i
    | step h1 _ ih => exact .step ((h _ _).1 h1) ih
  · intro hs
    induction hs with
    | refl i => exact .refl i
    | step h1 _ ih => exact .step ((h _ _).2 h1) ih

theorem one_congr (s : Str) {P Q : Rune → Prop} (h : ∀ r, P r ↔ Q r) (i j : Nat) : one s P i j ↔ one s Q i j := by
  simp only [one]
  constructor
  · rintro ⟨r, h1, h2, h3⟩; exact ⟨r, h1, (h r).1 h2, h3⟩
  · rintro ⟨r, h1, h2, h3⟩; exact ⟨r, h1, (h r).2 h2, h3⟩

section
variable (T : Tables)

theorem foldSet_congr (ci : Bool) {P Q : Rune → Prop} (h : ∀ r, P r ↔ Q r) (r : Rune) :
    foldSet T ci P r ↔ foldSet T ci Q r := by
  cases ci <;> simp only [foldSet]
  · simpa using h r
  · simp only [if_true]
    constructor
    · rintro ⟨r', h1, h2⟩; exact ⟨r', h1, (h r').1 h2⟩
    · rintro ⟨r', h1, h2⟩; exact ⟨r', h1, (h r').2 h2⟩

theorem foldSet_or (ci : Bool) (P Q : Rune → Prop) (r : Rune) :
    foldSet T ci (fun x => P x ∨ Q x) r ↔ foldSet T ci P r ∨ foldSet T ci Q r := by
  cases ci <;> simp only [foldSet]
  · simp
  · simp only [if_true]
    constructor
    · rintro ⟨r', h1, h2 | h2⟩
      · exact Or.inl ⟨r', h1, h2⟩
      · exact Or.inr ⟨r', h1, h2⟩
    · rintro (⟨r', h1, h2⟩ | ⟨r', h1, h2⟩)
      · exact ⟨r', h1, Or.inl h2⟩
      · exact ⟨r', h1, Or.inr h2⟩

end

theorem visible_i (f : Flags) : f.visible.i = f.i := rfl
theorem visible_m (f : Flags) : f.visible.m = f.m := rfl
theorem visible_s (f : Flags) : f.visible.s = f.s := rfl

theorem visible_apply (f set unset : Flags) :
    (applyFlags f.visible set.visible unset.visible).visible = (applyFlags f set unset).visible := by
  simp [applyFlags, Flags.visible]

theorem visible_apply_invisible (f set unset : Flags)
    (h : (set.visible.any || unset.visible.any) = false) :
    (applyFlags f set unset).visible = f.visible := by
  simp only [Flags.any, Flags.visible, Bool.or_eq_false_iff] at h
  obtain ⟨⟨⟨⟨⟨⟨h1, h2⟩, h3⟩, h4⟩, _⟩, _⟩, ⟨⟨⟨⟨⟨h5, h6⟩, h7⟩, h8⟩, _⟩, _⟩⟩ := h
  simp [applyFlags, Flags.visible, h1, h2, h3, h4, h5, h6, h7, h8]

set_option linter.unusedSimpArgs false

section
variable (T : Tables) (s : Str)

theorem named_vals : namedRune 97 = 7 ∧ namedRune 102 = 12 ∧ namedRune 116 = 9 ∧ namedRune 110 = 10 ∧
    namedRune 114 = 13 ∧ namedRune 118 = 11 := by decide

theorem hex_vals : hexVal (lit "85") = 0x85 ∧ hexVal (lit "2028") = 0x2028 ∧ hexVal (lit "2029") = 0x2029 := by decide

/-- single-rune leaves: the Go construct chosen by the transpiler denotes the set the Elk node denotes -/
theorem tgLeaf_correct (f : Flags) (n : Node) (g : GoRe) (h : tgLeaf f n = some g) (gf : Flags) (hi : gf.i = f.i)
    (i j : Nat) : ∃ P, elkSet T f n = some P ∧ (g.M T s gf i j ↔ one s (setHas T f.i P) i j) := by
  obtain ⟨n1, n2, n3, n4, n5, n6⟩ := named_vals
  obtain ⟨x1, x2, x3⟩ := hex_vals
  cases n <;> simp only [tgLeaf, Option.some.injEq, reduceCtorEq] at h
  all_goals subst h
  all_goals refine ⟨_, rfl, ?_⟩
  all_goals cases hfa : f.a
  all_goals simp only [GoRe.M, hi, setHas, if_true, if_false, Bool.false_eq_true, perlNeg, perlSet, Item.has,
    wordItems, spaceItems, hItems, vItems, List.mem_cons, List.mem_singleton, List.not_mem_nil, or_false,
    exists_eq_or_imp, exists_eq_left, List.append_nil, List.cons_append, List.nil_append,
    n1, n2, n3, n4, n5, n6, x1, x2, x3, Nat.reduceEqDiff, decide_eq_true_eq, Bool.or_eq_true, or_self, or_true, true_or,
    Nat.reduceBEq, decide_false, decide_true, Bool.or_false, Bool.false_or, hfa]
  all_goals apply one_congr
  all_goals intro r
  all_goals first
    | rfl
    | (simp only [← foldSet_or]
       first
        | (apply foldSet_congr; intro x; simp only [uniWord, uniSpace, uniH, uniV, uniDigit, asciiH, asciiV, or_assoc])
        | (apply not_congr; apply foldSet_congr; intro x
           simp only [uniWord, uniSpace, uniH, uniV, uniDigit, asciiH, asciiV, or_assoc]))


theorem one_or (P Q : Rune → Prop) (i j : Nat) : one s (fun r => P r ∨ Q r) i j ↔ one s P i j ∨ one s Q i j := by
  simp only [one]
  constructor
  · rintro ⟨r, h1, h2 | h2, h3⟩
    · exact Or.inl ⟨r, h1, h2, h3⟩
    · exact Or.inr ⟨r, h1, h2, h3⟩
  · rintro (⟨r, h1, h2, h3⟩ | ⟨r, h1, h2, h3⟩)
    · exact ⟨r, h1, Or.inl h2, h3⟩
    · exact ⟨r, h1, Or.inr h2, h3⟩

theorem one_false (i j : Nat) : ¬ one s (fun _ => False) i j := by
  simp [one]

/-- an element that stays inside the brackets: its items denote the element's set -/
theorem tgItems_has (f : Flags) (e : Node) (its : List Item) (h : tgItems f e = some its) (r : Rune) :
    (∃ it ∈ its, Item.has T f.i it r) ↔ elemHas T f e r := by
  obtain ⟨n1, n2, n3, n4, n5, n6⟩ := named_vals
  obtain ⟨x1, x2, x3⟩ := hex_vals
  cases e <;> simp only [tgItems, Option.some.injEq, reduceCtorEq] at h
  case charRange l r' =>
    cases hl : rend l <;> cases hr : rend r' <;> simp only [hl, hr, Option.some.injEq, reduceCtorEq] at h
    subst h
    cases l <;> simp only [rend, Option.some.injEq, reduceCtorEq] at hl <;> subst hl <;>
      cases r' <;> simp only [rend, Option.some.injEq, reduceCtorEq] at hr <;> subst hr <;>
      simp [elemHas, elemSet, runeOf, setHas, Item.has, REnd.val, n1, n2, n3, n4, n5]
  all_goals first
    | (subst h
       cases hfa : f.a <;>
       simp [elemHas, elemSet, elkSet, setHas, Item.has, wordItems, spaceItems, hItems, vItems, perlNeg, perlSet,
         n1, n2, n3, n4, n5, n6, x1, x2, x3, hfa] <;>
       (try ((try simp only [← foldSet_or])
             first
              | (apply foldSet_congr; intro x
                 simp only [uniWord, uniSpace, uniH, uniV, uniDigit, asciiH, asciiV, or_assoc])
              | (apply not_congr; apply foldSet_congr; intro x
                 simp only [uniWord, uniSpace, uniH, uniV, uniDigit, asciiH, asciiV, or_assoc]))))
    | (cases hfa : f.a <;> simp only [hfa, if_true, if_false, Bool.false_eq_true, Option.some.injEq, reduceCtorEq] at h
       subst h
       simp [elemHas, elemSet, elkSet, setHas, Item.has, perlNeg, perlSet, hfa])

theorem mapItems_has (f : Flags) : ∀ (es : List Node) (its : List Item), mapItems f es = some its → ∀ r,
    ((∃ it ∈ its, Item.has T f.i it r) ↔ ∃ e ∈ es, elemHas T f e r)
  | [], its, h, r => by simp only [mapItems, Option.some.injEq] at h; subst h; simp
  | e :: es, its, h, r => by
    simp only [mapItems, Option.bind_eq_bind, Option.bind_eq_some_iff, Option.pure_def, Option.some.injEq] at h
    obtain ⟨a, ha, b, hb, rfl⟩ := h
    have h1 := tgItems_has T f e a ha r
    have h2 := mapItems_has f es b hb r
    simp only [List.mem_append, List.mem_cons, or_and_right, exists_or, exists_eq_left, h1, h2]

theorem elemSet_of_leaf (f : Flags) (e : Node) (g : GoRe) (h : tgLeaf f e = some g) :
    elemSet T f e = elkSet T f e := by
  cases e <;> simp [tgLeaf] at h <;> rfl

theorem altList_M (gf : Flags) (i j : Nat) : ∀ (g : GoRe) (gs : List GoRe),
    (altList g gs).M T s gf i j ↔ g.M T s gf i j ∨ ∃ x ∈ gs, x.M T s gf i j
  | g, [] => by simp [altList]
  | g, x :: xs => by
    simp only [altList, GoRe.M, altList_M gf i j x xs, List.mem_cons, exists_eq_or_imp]

theorem mapLeaf_M (f gf : Flags) (hi : gf.i = f.i) (i j : Nat) : ∀ (es : List Node) (gs : List GoRe),
    mapLeaf f es = some gs →
    ((∃ g ∈ gs, g.M T s gf i j) ↔ one s (fun r => ∃ e ∈ es, elemHas T f e r) i j)
  | [], gs, h => by
    simp only [mapLeaf, Option.some.injEq] at h; subst h
    simp [one]
  | e :: es, gs, h => by
    simp only [mapLeaf, Option.bind_eq_bind, Option.bind_eq_some_iff, Option.pure_def, Option.some.injEq] at h
    obtain ⟨a, ha, b, hb, rfl⟩ := h
    obtain ⟨P, hP, hM⟩ := tgLeaf_correct T s f e a ha gf hi i j
    have ih := mapLeaf_M f gf hi i j es b hb
    have he : ∀ r, elemHas T f e r ↔ setHas T f.i P r := by
      intro r; simp only [elemHas, elemSet_of_leaf T f e a ha, hP]
    simp only [List.mem_cons, exists_eq_or_imp, hM, ih]
    rw [← one_or]
    apply one_congr
    intro r
    rw [he r]

theorem mapLeaf_nil (f : Flags) (es : List Node) (h : mapLeaf f es = some []) : es = [] := by
  cases es with
  | nil => rfl
  | cons e es =>
    simp [mapLeaf, Option.bind_eq_some_iff] at h

theorem splitP_neg (neg : Bool) (f : Flags) (e : Node) (h : splitP neg f e = true) : neg = false := by
  cases e <;> simp [splitP] at h <;> simp [h]

theorem exists_filter_split (es : List Node) (p : Node → Bool) (P : Node → Prop) :
    (∃ e ∈ es, P e) ↔ (∃ e ∈ es.filter (fun n => !p n), P e) ∨ (∃ e ∈ es.filter p, P e) := by
  simp only [List.mem_filter, Bool.not_eq_true']
  constructor
  · rintro ⟨e, he, hp⟩
    cases hpe : p e
    · exact Or.inl ⟨e, ⟨he, hpe⟩, hp⟩
    · exact Or.inr ⟨e, ⟨he, hpe⟩, hp⟩
  · rintro (⟨e, ⟨he, _⟩, hp⟩ | ⟨e, ⟨he, _⟩, hp⟩) <;> exact ⟨e, he, hp⟩

/-- bracket expressions: the emitted class (plus split-out alternatives) denotes the union of the elements -/
theorem tgClass_correct (els : List Node) (neg : Bool) (f gf : Flags) (hi : gf.i = f.i) (g : GoRe)
    (h : tgClass els neg f = some g) (i j : Nat) :
    g.M T s gf i j ↔
      one s (fun r => if neg then ¬ (∃ e ∈ els, elemHas T f e r) else (∃ e ∈ els, elemHas T f e r)) i j := by
  simp only [tgClass, Option.bind_eq_bind, Option.bind_eq_some_iff] at h
  obtain ⟨items, hit, leaves, hlv, h⟩ := h
  have hI := fun r => mapItems_has T f _ items hit r
  have hL := mapLeaf_M T s f gf hi i j _ leaves hlv
  cases hemp : (els.filter (fun n => !splitP neg f n)).isEmpty <;> cases leaves with
  | nil =>
    simp only [hemp, Option.pure_def, Option.some.injEq, reduceCtorEq] at h
    first
      | (subst h
         have hsp := mapLeaf_nil f _ hlv
         simp only [GoRe.M, hi]
         apply one_congr
         intro r
         have := exists_filter_split els (splitP neg f) (fun e => elemHas T f e r)
         simp only [hsp, List.not_mem_nil, false_and, exists_false, or_false] at this
         rw [this, ← hI r])
      | skip
  | cons x xs =>
    simp only [hemp, Option.pure_def, Option.some.injEq] at h
    subst h
    have hne : ∃ e, e ∈ els.filter (splitP neg f) := by
      cases hf : els.filter (splitP neg f) with
      | nil => rw [hf] at hlv; simp [mapLeaf] at hlv
      | cons e _ => exact ⟨e, by simp⟩
    obtain ⟨e0, he0⟩ := hne
    have hneg : neg = false := splitP_neg neg f e0 (List.mem_filter.1 he0).2
    subst hneg
    simp only [GoRe.M, altList_M, hi, Bool.false_eq_true, if_false]
    first
      | (rw [hL, ← one_or]
         apply one_congr
         intro r
         rw [hI r]
         exact (exists_filter_split els (splitP false f) (fun e => elemHas T f e r)).symm)
      | (have hemp' : els.filter (fun n => !splitP false f n) = [] := by simpa using hemp
         have : (x.M T s gf i j ∨ ∃ y ∈ xs, y.M T s gf i j) ↔ ∃ g ∈ x :: xs, g.M T s gf i j := by simp
         rw [this, hL]
         apply one_congr
         intro r
         have := exists_filter_split els (splitP false f) (fun e => elemHas T f e r)
         simp only [hemp', List.not_mem_nil, false_and, exists_false, false_or] at this
         exact this.symm)

mutual
/-- **tg preserves matching.** If the tree translation is defined on `r` under flags `f`, the RE2 tree it yields,
read under the flags RE2 itself implements (`f.visible`), matches exactly the position pairs `r` denotes. -/
theorem tg_correct : ∀ (r : Node) (f : Flags) (g : GoRe), tg r f = some g →
    ∀ i j, g.M T s f.visible i j ↔ EM T s r f i j
  | .char c, f, g, h, i, j => by
    simp only [tg, Option.some.injEq] at h
    subst h
    by_cases hx : f.x = true ∧ isSpace c = true
    · simp [EM, hx, GoRe.M]
    · have : (f.x && isSpace c) = false := by
        cases hfx : f.x <;> cases hsp : isSpace c <;> simp_all
      simp [EM, hx, this, GoRe.M, visible_i]
  | .anyChar, f, g, h, i, j => by
    simp only [tg, Option.some.injEq] at h; subst h; simp [EM, GoRe.M, visible_s]
  | .startOfString, f, g, h, i, j => by
    simp only [tg, Option.some.injEq] at h; subst h; simp [EM, GoRe.M, visible_m]
  | .endOfString, f, g, h, i, j => by
    simp only [tg, Option.some.injEq] at h; subst h; simp [EM, GoRe.M, visible_m]
  | .absStart, f, g, h, i, j => by
    simp only [tg, Option.some.injEq] at h; subst h; simp [EM, GoRe.M]
  | .absEnd, f, g, h, i, j => by
    simp only [tg, Option.some.injEq] at h; subst h; simp [EM, GoRe.M]
  | .wordBoundary, f, g, h, i, j => by
    simp only [tg, Option.some.injEq] at h; subst h; simp [EM, GoRe.M]
  | .notWordBoundary, f, g, h, i, j => by
    simp only [tg, Option.some.injEq] at h; subst h; simp [EM, GoRe.M]
  | .concat els, f, g, h, i, j => by
    simp only [tg] at h
    simpa [EM] using tgs_correct els f g h i j
  | .union l r, f, g, h, i, j => by
    simp only [tg, Option.bind_eq_bind, Option.bind_eq_some_iff, Option.pure_def, Option.some.injEq] at h
    obtain ⟨a, ha, b, hb, rfl⟩ := h
    simp only [GoRe.M, EM, tg_correct l f a ha, tg_correct r f b hb]
  | .zeroOrOne r alt, f, g, h, i, j => by
    simp only [tg, Option.bind_eq_bind, Option.bind_eq_some_iff, Option.pure_def, Option.some.injEq] at h
    obtain ⟨a, ha, rfl⟩ := h
    simp only [GoRe.M, EM, tg_correct r f a ha]
  | .zeroOrMore r alt, f, g, h, i, j => by
    simp only [tg, Option.bind_eq_bind, Option.bind_eq_some_iff, Option.pure_def, Option.some.injEq] at h
    obtain ⟨a, ha, rfl⟩ := h
    simp only [GoRe.M, EM]
    exact Star.congr (tg_correct r f a ha)
  | .oneOrMore r alt, f, g, h, i, j => by
    simp only [tg, Option.bind_eq_bind, Option.bind_eq_some_iff, Option.pure_def, Option.some.injEq] at h
    obtain ⟨a, ha, rfl⟩ := h
    simp only [GoRe.M, EM]
    constructor
    · rintro ⟨k, h1, h2⟩
      exact ⟨k, (tg_correct r f a ha i k).1 h1, (Star.congr (tg_correct r f a ha)).1 h2⟩
    · rintro ⟨k, h1, h2⟩
      exact ⟨k, (tg_correct r f a ha i k).2 h1, (Star.congr (tg_correct r f a ha)).2 h2⟩
  | .group r name set unset nc, f, g, h, i, j => by
    simp only [tg, Option.bind_eq_bind, Option.bind_eq_some_iff] at h
    obtain ⟨inner, hin, h⟩ := h
    have ih := tg_correct r (applyFlags f set unset) inner hin i j
    simp only [EM]
    rw [← ih]
    by_cases hv : (set.visible.any || unset.visible.any) = true
    · simp only [hv, if_true, Option.pure_def, Option.some.injEq] at h
      subst h
      simp only [GoRe.M, visible_apply]
    · have hv' : (set.visible.any || unset.visible.any) = false := by simpa using hv
      have hvis := visible_apply_invisible f set unset hv'
      simp only [hv', Bool.false_eq_true, if_false] at h
      split at h
      · split at h
        · simp at h
        · simp only [Option.pure_def, Option.some.injEq] at h; subst h; simp only [GoRe.M, hvis]
      · split at h
        · simp only [Option.pure_def, Option.some.injEq] at h; subst h; simp only [GoRe.M, hvis]
        · split at h
          · simp only [Option.pure_def, Option.some.injEq] at h; subst h; simp only [GoRe.M, hvis]
          · simp only [Option.pure_def, Option.some.injEq] at h; subst h; simp only [GoRe.M, hvis]
  | .bell, f, g, h, i, j => by
    simp only [tg] at h
    obtain ⟨P, hP, hM⟩ := tgLeaf_correct T s f _ g h f.visible (visible_i f) i j
    simp only [EM, hP]
    exact hM
  | .formFeed, f, g, h, i, j => by
    simp only [tg] at h
    obtain ⟨P, hP, hM⟩ := tgLeaf_correct T s f _ g h f.visible (visible_i f) i j
    simp only [EM, hP]
    exact hM
  | .tab, f, g, h, i, j => by
    simp only [tg] at h
    obtain ⟨P, hP, hM⟩ := tgLeaf_correct T s f _ g h f.visible (visible_i f) i j
    simp only [EM, hP]
    exact hM
  | .newline, f, g, h, i, j => by
    simp only [tg] at h
    obtain ⟨P, hP, hM⟩ := tgLeaf_correct T s f _ g h f.visible (visible_i f) i j
    simp only [EM, hP]
    exact hM
  | .carriageReturn, f, g, h, i, j => by
    simp only [tg] at h
    obtain ⟨P, hP, hM⟩ := tgLeaf_correct T s f _ g h f.visible (visible_i f) i j
    simp only [EM, hP]
    exact hM
  | .word, f, g, h, i, j => by
    simp only [tg] at h
    obtain ⟨P, hP, hM⟩ := tgLeaf_correct T s f _ g h f.visible (visible_i f) i j
    simp only [EM, hP]
    exact hM
  | .notWord, f, g, h, i, j => by
    simp only [tg] at h
    obtain ⟨P, hP, hM⟩ := tgLeaf_correct T s f _ g h f.visible (visible_i f) i j
    simp only [EM, hP]
    exact hM
  | .digit, f, g, h, i, j => by
    simp only [tg] at h
    obtain ⟨P, hP, hM⟩ := tgLeaf_correct T s f _ g h f.visible (visible_i f) i j
    simp only [EM, hP]
    exact hM
  | .notDigit, f, g, h, i, j => by
    simp only [tg] at h
    obtain ⟨P, hP, hM⟩ := tgLeaf_correct T s f _ g h f.visible (visible_i f) i j
    simp only [EM, hP]
    exact hM
  | .whitespace, f, g, h, i, j => by
    simp only [tg] at h
    obtain ⟨P, hP, hM⟩ := tgLeaf_correct T s f _ g h f.visible (visible_i f) i j
    simp only [EM, hP]
    exact hM
  | .notWhitespace, f, g, h, i, j => by
    simp only [tg] at h
    obtain ⟨P, hP, hM⟩ := tgLeaf_correct T s f _ g h f.visible (visible_i f) i j
    simp only [EM, hP]
    exact hM
  | .hWhitespace, f, g, h, i, j => by
    simp only [tg] at h
    obtain ⟨P, hP, hM⟩ := tgLeaf_correct T s f _ g h f.visible (visible_i f) i j
    simp only [EM, hP]
    exact hM
  | .notHWhitespace, f, g, h, i, j => by
    simp only [tg] at h
    obtain ⟨P, hP, hM⟩ := tgLeaf_correct T s f _ g h f.visible (visible_i f) i j
    simp only [EM, hP]
    exact hM
  | .vWhitespace, f, g, h, i, j => by
    simp only [tg] at h
    obtain ⟨P, hP, hM⟩ := tgLeaf_correct T s f _ g h f.visible (visible_i f) i j
    simp only [EM, hP]
    exact hM
  | .notVWhitespace, f, g, h, i, j => by
    simp only [tg] at h
    obtain ⟨P, hP, hM⟩ := tgLeaf_correct T s f _ g h f.visible (visible_i f) i j
    simp only [EM, hP]
    exact hM
  | .metaCharEscape c, f, g, h, i, j => by
    simp only [tg] at h
    obtain ⟨P, hP, hM⟩ := tgLeaf_correct T s f _ g h f.visible (visible_i f) i j
    simp only [EM, hP]
    exact hM
  | .invalid, f, g, h, i, j => by
    simp [tg, tgLeaf] at h
  | .nQuant r n alt, f, g, h, i, j => by
    simp [tg, tgLeaf] at h
  | .nmQuant r n m alt, f, g, h, i, j => by
    simp [tg, tgLeaf] at h
  | .groupNoRegex name st us nc, f, g, h, i, j => by
    simp [tg, tgLeaf] at h
  | .charClass els neg, f, g, h, i, j => by
    simp only [tg] at h
    simp only [EM]
    exact tgClass_correct T s els.toList neg f f.visible (visible_i f) g h i j
  | .charRange l r, f, g, h, i, j => by
    simp [tg, tgLeaf] at h
  | .namedCharClass name neg, f, g, h, i, j => by
    simp [tg, tgLeaf] at h
  | .quotedText q, f, g, h, i, j => by
    simp [tg, tgLeaf] at h
  | .caretEscape c, f, g, h, i, j => by
    simp [tg, tgLeaf] at h
  | .unicodeEscape q, f, g, h, i, j => by
    simp [tg, tgLeaf] at h
  | .hexEscape q, f, g, h, i, j => by
    simp [tg, tgLeaf] at h
  | .octalEscape q, f, g, h, i, j => by
    simp [tg, tgLeaf] at h
  | .unicodeCharClass q neg, f, g, h, i, j => by
    simp [tg, tgLeaf] at h
theorem tgs_correct : ∀ (els : Nodes) (f : Flags) (g : GoRe), tgs els f = some g →
    ∀ i j, g.M T s f.visible i j ↔ EMs T s els f i j
  | .nil, f, g, h, i, j => by
    simp only [tgs, Option.some.injEq] at h; subst h; simp [EMs, GoRe.M]
  | .cons n rest, f, g, h, i, j => by
    simp only [tgs] at h
    split at h
    · simp at h
    · simp only [Option.bind_eq_bind, Option.bind_eq_some_iff, Option.pure_def, Option.some.injEq] at h
      obtain ⟨a, ha, b, hb, rfl⟩ := h
      simp only [GoRe.M, EMs]
      constructor
      · rintro ⟨k, h1, h2⟩
        exact ⟨k, (tg_correct n f a ha i k).1 h1, (tgs_correct rest f b hb k j).1 h2⟩
      · rintro ⟨k, h1, h2⟩
        exact ⟨k, (tg_correct n f a ha i k).2 h1, (tgs_correct rest f b hb k j).2 h2⟩
end

end

/-! ### the tree translation prints what the string mirror writes -/

theorem write_write (t : St) (a b : Str) : (t.write a).write b = t.write (a ++ b) := by
  simp [St.write, List.append_assoc]

theorem write_nil (t : St) : t.write [] = t := by simp [St.write]

theorem St.write_eq (t : St) (a : Str) : t.write a = { t with buf := t.buf ++ a } := rfl

/-- leaves: in top-level mode the string mirror writes exactly the printed Go construct -/
theorem leaf_print (f : Flags) (n : Node) (g : GoRe) (h : tgLeaf f n = some g) (t : St)
    (hm : t.mode = .top) (hf : t.flags = f) : leaf t n = some (t.write g.print) := by
  cases n <;> simp only [tgLeaf, Option.some.injEq, reduceCtorEq] at h
  all_goals subst h
  all_goals subst hf
  all_goals cases hfa : t.flags.a
  all_goals simp [leaf, wordCharClass, notWordCharClass, digitCharClass, notDigitCharClass, whitespaceCharClass,
    notWhitespaceCharClass, hWhitespaceCharClass, notHWhitespaceCharClass, vWhitespaceCharClass,
    notVWhitespaceCharClass, hm, hfa, GoRe.print, Item.print, wordItems, spaceItems, hItems, vItems, sl, lit,
    St.write]


theorem quantSuffix_eq (t : St) (p : Str) (alt : Bool) :
    quantSuffix t p alt = t.write (if alt then p ++ [63] else p) := by
  cases alt <;> simp [quantSuffix]


/-! bracket expressions: printing -/

theorem hasToBeSplit_eq (t : St) (neg : Bool) (n : Node) :
    hasToBeSplit { t with mode := if neg then .ncc else .cc } n = splitP neg t.flags n := by
  cases n <;> cases neg <;> simp [hasToBeSplit, splitP] <;> cases t.flags.a <;> simp

theorem ccElement_rend (e : Node) (a : REnd) (h : rend e = some a) (t : St) (hm : t.mode ≠ .top) :
    ccElement e t = t.write a.print := by
  cases e <;> simp only [rend, Option.some.injEq, reduceCtorEq] at h <;> subst h <;>
    simp [ccElement, leaf, REnd.print, St.write, lit]

/-- an element that stays inside the brackets: `charClassElement` writes exactly its items -/
theorem ccElement_items (f : Flags) (e : Node) (its : List Item) (h : tgItems f e = some its) (t : St)
    (hf : t.flags = f) (hm : t.mode ≠ .top) : ccElement e t = t.write (its.map Item.print).flatten := by
  subst hf
  cases e <;> simp only [tgItems, Option.some.injEq, reduceCtorEq] at h
  case charRange l r =>
    cases hl : rend l <;> cases hr : rend r <;> simp only [hl, hr, Option.some.injEq, reduceCtorEq] at h
    subst h
    rename_i a b
    have h1 := ccElement_rend l a hl t hm
    have h2 := ccElement_rend r b hr ((t.write a.print).write [45]) (by simpa [St.write] using hm)
    simp only [ccElement, h1, h2]
    simp [St.write, Item.print, List.append_assoc]
  all_goals first
    | (subst h
       cases hfa : t.flags.a <;> cases hmode : t.mode <;>
       simp_all [ccElement, leaf, wordCharClass, notWordCharClass, digitCharClass, notDigitCharClass,
         whitespaceCharClass, notWhitespaceCharClass, hWhitespaceCharClass, vWhitespaceCharClass, unicodeCharClass,
         Item.print, wordItems, spaceItems, hItems, vItems, sl, lit, St.write])
    | (cases hfa : t.flags.a <;> simp only [hfa, if_true, if_false, Bool.false_eq_true, Option.some.injEq, reduceCtorEq] at h
       subst h
       cases hmode : t.mode <;>
       simp_all [ccElement, leaf, notWordCharClass, notWhitespaceCharClass, Item.print, sl, lit, St.write])

theorem foldl_items (f : Flags) : ∀ (es : List Node) (its : List Item), mapItems f es = some its →
    ∀ t : St, t.flags = f → t.mode ≠ .top →
      es.foldl (fun t n => ccElement n t) t = t.write (its.map Item.print).flatten
  | [], its, h, t, _, _ => by simp only [mapItems, Option.some.injEq] at h; subst h; simp [write_nil]
  | e :: es, its, h, t, hf, hm => by
    simp only [mapItems, Option.bind_eq_bind, Option.bind_eq_some_iff, Option.pure_def, Option.some.injEq] at h
    obtain ⟨a, ha, b, hb, rfl⟩ := h
    simp only [List.foldl_cons, ccElement_items f e a ha t hf hm]
    rw [foldl_items f es b hb _ (by simpa [St.write] using hf) (by simpa [St.write] using hm)]
    simp [write_write]

/-- a split-out element, written in top-level mode: the printed top-level construct -/
theorem ccElement_leaf_top (f : Flags) (e : Node) (g : GoRe) (h : tgLeaf f e = some g) (t : St)
    (hf : t.flags = f) (hm : t.mode = .top) : ccElement e t = t.write g.print := by
  have hp := leaf_print f e g h t hm hf
  cases e <;> simp only [tgLeaf, reduceCtorEq] at h <;> simp only [ccElement, hp]

theorem foldl_leaves (f : Flags) : ∀ (es : List Node) (gs : List GoRe), mapLeaf f es = some gs →
    ∀ t : St, t.flags = f → t.mode = .top →
      es.foldl (fun t n => ccElement n (t.write [124])) t = t.write (gs.map (fun g => 124 :: g.print)).flatten
  | [], gs, h, t, _, _ => by simp only [mapLeaf, Option.some.injEq] at h; subst h; simp [write_nil]
  | e :: es, gs, h, t, hf, hm => by
    simp only [mapLeaf, Option.bind_eq_bind, Option.bind_eq_some_iff, Option.pure_def, Option.some.injEq] at h
    obtain ⟨a, ha, b, hb, rfl⟩ := h
    simp only [List.foldl_cons]
    rw [ccElement_leaf_top f e a ha (t.write [124]) (by simpa [St.write] using hf) (by simpa [St.write] using hm)]
    rw [foldl_leaves f es b hb _ (by simpa [St.write] using hf) (by simpa [St.write] using hm)]
    simp [write_write]

theorem altList_print : ∀ (g : GoRe) (gs : List GoRe),
    (altList g gs).print = g.print ++ (gs.map (fun x => 124 :: x.print)).flatten
  | g, [] => by simp [altList]
  | g, x :: xs => by simp [altList, GoRe.print, altList_print x xs]

/-- `charClass` writes the printed bracket expression (with its split-out alternatives) -/
theorem charClass_print (els : Nodes) (neg : Bool) (t : St) (g : GoRe)
    (h : tgClass els.toList neg t.flags = some g) (hm : t.mode = .top) :
    charClass els neg t = t.write g.print := by
  simp only [tgClass, Option.bind_eq_bind, Option.bind_eq_some_iff] at h
  obtain ⟨items, hit, leaves, hlv, h⟩ := h
  have hsp : (fun n => hasToBeSplit { t with mode := if neg then Mode.ncc else Mode.cc } n) = splitP neg t.flags :=
    funext (hasToBeSplit_eq t neg)
  have hsp' : (fun n => !hasToBeSplit { t with mode := if neg then Mode.ncc else Mode.cc } n) =
      (fun n => !splitP neg t.flags n) := by
    funext n; rw [hasToBeSplit_eq]
  simp only [charClass, hsp', show hasToBeSplit { t with mode := if neg then Mode.ncc else Mode.cc } = splitP neg t.flags from hsp]
  have hmode : ∀ (u : St), u.mode = (if neg then Mode.ncc else Mode.cc) → u.mode ≠ .top := by
    intro u hu; rw [hu]; cases neg <;> simp
  cases leaves with
  | nil =>
    have hs0 := mapLeaf_nil t.flags _ hlv
    cases hemp : (els.toList.filter (fun n => !splitP neg t.flags n)).isEmpty
    · simp only [hemp, Option.pure_def, Option.some.injEq] at h
      subst h
      simp only [ccBody, hs0, hemp, List.isEmpty_nil, if_true, Bool.not_false, Bool.not_true, Bool.false_eq_true,
        if_false]
      cases neg
      · simp only [Bool.false_eq_true, if_false]
        rw [foldl_items t.flags _ items hit _ (by simp [St.write]) (by simp [St.write])]
        simp [St.write, GoRe.print, List.append_assoc, hm]
      · simp only [if_true]
        rw [foldl_items t.flags _ items hit _ (by simp [St.write]) (by simp [St.write])]
        simp [St.write, GoRe.print, List.append_assoc, hm]
    · simp [hemp] at h
  | cons x xs =>
    obtain ⟨e0, es0, hs0⟩ : ∃ e0 es0, els.toList.filter (splitP neg t.flags) = e0 :: es0 := by
      cases hf : els.toList.filter (splitP neg t.flags) with
      | nil => rw [hf] at hlv; simp [mapLeaf] at hlv
      | cons e es => exact ⟨e, es, rfl⟩
    have hneg : neg = false := splitP_neg neg t.flags e0 (by
      have : e0 ∈ els.toList.filter (splitP neg t.flags) := by rw [hs0]; simp
      exact (List.mem_filter.1 this).2)
    subst hneg
    rw [hs0] at hlv
    simp only [mapLeaf, Option.bind_eq_bind, Option.bind_eq_some_iff, Option.pure_def, Option.some.injEq,
      List.cons.injEq] at hlv
    obtain ⟨a, ha, b, hb, hax, hbxs⟩ := hlv
    subst hax hbxs
    cases hemp : (els.toList.filter (fun n => !splitP false t.flags n)).isEmpty
    · simp only [hemp, Option.pure_def, Option.some.injEq] at h
      subst h
      simp only [ccBody, hs0, hemp, List.isEmpty_cons, Bool.false_eq_true, if_false, Bool.not_false, if_true]
      rw [foldl_items t.flags _ items hit _ (by simp [St.write]) (by simp [St.write])]
      rw [ccElement_leaf_top t.flags e0 a ha _ (by simp [St.write]) (by simp [St.write])]
      rw [foldl_leaves t.flags es0 b hb _ (by simp [St.write]) (by simp [St.write])]
      simp [St.write, GoRe.print, altList_print, sl, lit, List.append_assoc, hm]
    · simp only [hemp, Option.pure_def, Option.some.injEq] at h
      subst h
      simp only [ccBody, hs0, hemp, List.isEmpty_cons, Bool.false_eq_true, if_false, Bool.not_true, if_true]
      rw [ccElement_leaf_top t.flags e0 a ha _ (by simp [St.write]) (by simp [St.write])]
      rw [foldl_leaves t.flags es0 b hb _ (by simp [St.write]) (by simp [St.write])]
      simp [St.write, GoRe.print, altList_print, sl, lit, List.append_assoc, hm]

/-- the text `group` writes before the content -/
def groupHeader (name : Str) (set unset : Flags) (nc : Bool) : Str :=
  [40] ++
  (if set.visible.any || unset.visible.any then
    [63] ++ flagChars set.visible ++ (if unset.visible.any then [45] ++ flagChars unset.visible else []) ++ [58]
   else
    (if set.any || unset.any then lit "?:" else []) ++
    (if name.length > 0 then lit "?P<" ++ name ++ [62] else if nc then lit "?:" else []))

theorem groupOpen_spec (t : St) (name : Str) (set unset : Flags) (nc : Bool) :
    (groupOpen true name set unset nc t).1 =
      { t with buf := t.buf ++ groupHeader name set unset nc, flags := applyFlags t.flags set unset } := by
  simp only [groupOpen, groupHeader, Bool.true_or, if_true, Bool.true_and]
  cases hsv : set.visible.any <;> cases hu : unset.visible.any <;>
    cases hsa : set.any <;> cases hua : unset.any <;> cases nc <;> by_cases hn : name.length > 0 <;>
    simp [hsv, hu, hsa, hua, hn, St.write, List.append_assoc]

theorem group_print_hdr (name : Str) (set unset : Flags) (nc : Bool) (inner g : GoRe)
    (h : (if (set.visible.any || unset.visible.any) = true then pure (GoRe.fgrp set.visible unset.visible inner)
          else if (set.any || unset.any) = true then
            if (decide (name.length > 0) || nc) = true then none else pure (GoRe.ncg inner)
          else if name.length > 0 then pure (GoRe.ngrp name inner)
          else if nc = true then pure (GoRe.ncg inner)
          else pure (GoRe.grp inner)) = some g) :
    g.print = groupHeader name set unset nc ++ inner.print ++ [41] := by
  simp only [groupHeader]
  cases hsv : set.visible.any <;> cases hu : unset.visible.any <;>
    cases hsa : set.any <;> cases hua : unset.any <;> cases nc <;> by_cases hn : name.length > 0 <;>
    simp [hsv, hu, hsa, hua, hn, Option.pure_def] at h ⊢ <;>
    (try subst h) <;> (try simp [GoRe.print, sl, lit, hsv, hu, List.append_assoc])

mutual
/-- **tr_print.** On the fragment, what the string mirror of `transpileNode` appends to its buffer is exactly the
printed translation `g`; mode, flags, errors and the panic mark are unchanged. -/
theorem tr_print : ∀ (r : Node) (t : St) (g : GoRe), tg r t.flags = some g → t.mode = .top →
    trNode r t = t.write g.print
  | .char c, t, g, h, hm => by
    simp only [tg, Option.some.injEq] at h
    subst h
    cases hx : (t.flags.x && isSpace c) <;> simp [trNode, hx, GoRe.print, write_nil]
  | .anyChar, t, g, h, hm => by
    simp only [tg, Option.some.injEq] at h; subst h; simp [trNode, GoRe.print]
  | .startOfString, t, g, h, hm => by
    simp only [tg, Option.some.injEq] at h; subst h; simp [trNode, GoRe.print]
  | .endOfString, t, g, h, hm => by
    simp only [tg, Option.some.injEq] at h; subst h; simp [trNode, GoRe.print]
  | .absStart, t, g, h, hm => by
    simp only [tg, Option.some.injEq] at h; subst h; simp [trNode, GoRe.print, sl]
  | .absEnd, t, g, h, hm => by
    simp only [tg, Option.some.injEq] at h; subst h; simp [trNode, GoRe.print, sl]
  | .wordBoundary, t, g, h, hm => by
    simp only [tg, Option.some.injEq] at h; subst h; simp [trNode, GoRe.print, sl]
  | .notWordBoundary, t, g, h, hm => by
    simp only [tg, Option.some.injEq] at h; subst h; simp [trNode, GoRe.print, sl]
  | .concat els, t, g, h, hm => by
    simp only [tg] at h
    simpa [trNode] using trs_print els t g h hm
  | .union l r, t, g, h, hm => by
    simp only [tg, Option.bind_eq_bind, Option.bind_eq_some_iff, Option.pure_def, Option.some.injEq] at h
    obtain ⟨a, ha, b, hb, rfl⟩ := h
    have h1 := tr_print l t a ha hm
    have h2 := tr_print r ((t.write a.print).write [124]) b (by simpa [St.write] using hb) (by simpa [St.write] using hm)
    rw [write_write] at h2
    simp only [trNode, h1, h2, GoRe.print, write_write, List.append_assoc]
  | .zeroOrOne r alt, t, g, h, hm => by
    simp only [tg, Option.bind_eq_bind, Option.bind_eq_some_iff, Option.pure_def, Option.some.injEq] at h
    obtain ⟨a, ha, rfl⟩ := h
    simp only [trNode, tr_print r t a ha hm, quantSuffix_eq, write_write, GoRe.print]
    cases alt <;> simp [sl, lit]
  | .zeroOrMore r alt, t, g, h, hm => by
    simp only [tg, Option.bind_eq_bind, Option.bind_eq_some_iff, Option.pure_def, Option.some.injEq] at h
    obtain ⟨a, ha, rfl⟩ := h
    simp only [trNode, tr_print r t a ha hm, quantSuffix_eq, write_write, GoRe.print]
    cases alt <;> simp [sl, lit]
  | .oneOrMore r alt, t, g, h, hm => by
    simp only [tg, Option.bind_eq_bind, Option.bind_eq_some_iff, Option.pure_def, Option.some.injEq] at h
    obtain ⟨a, ha, rfl⟩ := h
    simp only [trNode, tr_print r t a ha hm, quantSuffix_eq, write_write, GoRe.print]
    cases alt <;> simp [sl, lit]
  | .group r name set unset nc, t, g, h, hm => by
    simp only [tg, Option.bind_eq_bind, Option.bind_eq_some_iff] at h
    obtain ⟨inner, hin, h⟩ := h
    have hopen := groupOpen_spec t name set unset nc
    have ih := tr_print r (groupOpen true name set unset nc t).1 inner
      (by rw [hopen]; exact hin) (by rw [hopen]; exact hm)
    have hp := group_print_hdr name set unset nc inner g h
    rw [hopen] at ih
    simp only [trNode, hopen, ih, hp]
    simp [St.write, List.append_assoc]
  | .bell, t, g, h, hm => by
    simp only [tg] at h
    have := leaf_print _ _ g h t hm rfl
    simp only [trNode, this]
  | .formFeed, t, g, h, hm => by
    simp only [tg] at h
    have := leaf_print _ _ g h t hm rfl
    simp only [trNode, this]
  | .tab, t, g, h, hm => by
    simp only [tg] at h
    have := leaf_print _ _ g h t hm rfl
    simp only [trNode, this]
  | .newline, t, g, h, hm => by
    simp only [tg] at h
    have := leaf_print _ _ g h t hm rfl
    simp only [trNode, this]
  | .carriageReturn, t, g, h, hm => by
    simp only [tg] at h
    have := leaf_print _ _ g h t hm rfl
    simp only [trNode, this]
  | .word, t, g, h, hm => by
    simp only [tg] at h
    have := leaf_print _ _ g h t hm rfl
    simp only [trNode, this]
  | .notWord, t, g, h, hm => by
    simp only [tg] at h
    have := leaf_print _ _ g h t hm rfl
    simp only [trNode, this]
  | .digit, t, g, h, hm => by
    simp only [tg] at h
    have := leaf_print _ _ g h t hm rfl
    simp only [trNode, this]
  | .notDigit, t, g, h, hm => by
    simp only [tg] at h
    have := leaf_print _ _ g h t hm rfl
    simp only [trNode, this]
  | .whitespace, t, g, h, hm => by
    simp only [tg] at h
    have := leaf_print _ _ g h t hm rfl
    simp only [trNode, this]
  | .notWhitespace, t, g, h, hm => by
    simp only [tg] at h
    have := leaf_print _ _ g h t hm rfl
    simp only [trNode, this]
  | .hWhitespace, t, g, h, hm => by
    simp only [tg] at h
    have := leaf_print _ _ g h t hm rfl
    simp only [trNode, this]
  | .notHWhitespace, t, g, h, hm => by
    simp only [tg] at h
    have := leaf_print _ _ g h t hm rfl
    simp only [trNode, this]
  | .vWhitespace, t, g, h, hm => by
    simp only [tg] at h
    have := leaf_print _ _ g h t hm rfl
    simp only [trNode, this]
  | .notVWhitespace, t, g, h, hm => by
    simp only [tg] at h
    have := leaf_print _ _ g h t hm rfl
    simp only [trNode, this]
  | .metaCharEscape c, t, g, h, hm => by
    simp only [tg] at h
    have := leaf_print _ _ g h t hm rfl
    simp only [trNode, this]
  | .invalid, t, g, h, hm => by
    simp [tg, tgLeaf] at h
  | .nQuant r n alt, t, g, h, hm => by
    simp [tg, tgLeaf] at h
  | .nmQuant r n m alt, t, g, h, hm => by
    simp [tg, tgLeaf] at h
  | .groupNoRegex name st us nc, t, g, h, hm => by
    simp [tg, tgLeaf] at h
  | .charClass els neg, t, g, h, hm => by
    simp only [tg] at h
    simp only [trNode]
    exact charClass_print els neg t g h hm
  | .charRange l r, t, g, h, hm => by
    simp [tg, tgLeaf] at h
  | .namedCharClass name neg, t, g, h, hm => by
    simp [tg, tgLeaf] at h
  | .quotedText q, t, g, h, hm => by
    simp [tg, tgLeaf] at h
  | .caretEscape c, t, g, h, hm => by
    simp [tg, tgLeaf] at h
  | .unicodeEscape q, t, g, h, hm => by
    simp [tg, tgLeaf] at h
  | .hexEscape q, t, g, h, hm => by
    simp [tg, tgLeaf] at h
  | .octalEscape q, t, g, h, hm => by
    simp [tg, tgLeaf] at h
  | .unicodeCharClass q neg, t, g, h, hm => by
    simp [tg, tgLeaf] at h
theorem trs_print : ∀ (els : Nodes) (t : St) (g : GoRe), tgs els t.flags = some g → t.mode = .top →
    trConcat els false t = t.write g.print
  | .nil, t, g, h, hm => by
    simp only [tgs, Option.some.injEq] at h; subst h; simp [trConcat, GoRe.print, write_nil]
  | .cons n rest, t, g, h, hm => by
    simp only [tgs] at h
    split at h
    · simp at h
    · rename_i hx
      simp only [Option.bind_eq_bind, Option.bind_eq_some_iff, Option.pure_def, Option.some.injEq] at h
      obtain ⟨a, ha, b, hb, rfl⟩ := h
      have h1 := tr_print n t a ha hm
      have h2 := trs_print rest (t.write a.print) b (by simpa [St.write] using hb) (by simpa [St.write] using hm)
      have hx' : (t.flags.x && isChar n 35) = false := by simpa using hx
      cases hfx : t.flags.x
      · simp [trConcat, hfx, h1, h2, GoRe.print, write_write]
      · have hc : isChar n 35 = false := by simpa [hfx] using hx'
        simp [trConcat, hfx, hc, h1, h2, GoRe.print, write_write]
end


end Elk.Regex
