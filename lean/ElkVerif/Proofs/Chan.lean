import ElkVerif.Model.ChanHist
/-! Helper lemmas for C25. -/
namespace Elk.Chan

/-- channel invariant: what was pushed is what was delivered followed by what is buffered -/
def CInv (s : CSys) : Prop := s.pushed = s.delivered ++ s.ch.buf ∧ s.ch.buf.length ≤ s.ch.cap

theorem cinv_init (cap : Nat) : CInv (cinit cap) := by simp [CInv, cinit]

theorem cstep_inv {s s' : CSys} {e : CEv} (hi : CInv s) (h : cstep s e = some s') :
    CInv s' ∧ s'.ch.cap = s.ch.cap := by
  obtain ⟨h1, h2⟩ := hi
  cases e with
  | push v =>
    simp only [cstep, push] at h
    split at h <;> try contradiction
    rename_i c' heq
    split at heq
    · simp at heq
    · split at heq
      · simp only [Prod.mk.injEq, true_and] at heq
        subst heq
        simp only [Option.some.injEq] at h; subst h
        refine ⟨⟨?_, ?_⟩, rfl⟩
        · simp [h1]
        · simp; omega
      · simp at heq
  | pop =>
    simp only [cstep, pop] at h
    split at h <;> try contradiction
    rename_i v c' heq
    split at heq
    · rename_i v' rest hb
      simp only [Prod.mk.injEq, Out.val.injEq] at heq
      obtain ⟨rfl, rfl⟩ := heq
      simp only [Option.some.injEq] at h; subst h
      refine ⟨⟨?_, ?_⟩, rfl⟩
      · simp [h1, hb]
      · simp [hb] at h2 ⊢; omega
    · split at heq <;> simp at heq
  | handoff v =>
    simp only [cstep, handoffEnabled] at h
    by_cases hen : (!s.ch.closed && s.ch.buf.isEmpty) = true
    · simp only [hen, if_true, Option.some.injEq] at h; subst h
      simp only [Bool.and_eq_true, Bool.not_eq_true', List.isEmpty_iff] at hen
      refine ⟨⟨?_, h2⟩, rfl⟩
      simp [h1, hen.2]
    · simp [hen] at h
  | close =>
    simp only [cstep, close] at h
    split at h <;> try contradiction
    rename_i c' heq
    split at heq
    · simp at heq
    · simp only [Prod.mk.injEq, true_and] at heq
      subst heq
      simp only [Option.some.injEq] at h; subst h
      exact ⟨⟨h1, h2⟩, rfl⟩
  | pushClosed v =>
    simp only [cstep] at h
    split at h <;> try contradiction
    simp only [Option.some.injEq] at h; subst h; exact ⟨⟨h1, h2⟩, rfl⟩
  | popClosed =>
    simp only [cstep] at h
    split at h <;> try contradiction
    simp only [Option.some.injEq] at h; subst h; exact ⟨⟨h1, h2⟩, rfl⟩
  | closeClosed =>
    simp only [cstep] at h
    split at h <;> try contradiction
    simp only [Option.some.injEq] at h; subst h; exact ⟨⟨h1, h2⟩, rfl⟩

theorem crun_inv : ∀ (evs : List CEv) (s s' : CSys), CInv s → crun s evs = some s' → CInv s' ∧ s'.ch.cap = s.ch.cap
  | [], s, s', hi, h => by simp [crun] at h; subst h; exact ⟨hi, rfl⟩
  | e :: es, s, s', hi, h => by
    simp only [crun] at h
    cases hs : cstep s e with
    | none => simp [hs] at h
    | some s1 =>
      simp only [hs] at h
      obtain ⟨hi1, hc1⟩ := cstep_inv hi hs
      obtain ⟨hi2, hc2⟩ := crun_inv es s1 s' hi1 h
      exact ⟨hi2, hc2.trans hc1⟩

/-- once closed: stays closed, nothing more is pushed, and the buffer only shrinks from the front -/
theorem cstep_closed {s s' : CSys} {e : CEv} (hc : s.ch.closed = true) (h : cstep s e = some s') :
    s'.ch.closed = true ∧ s'.pushed = s.pushed ∧ ∃ k, s'.ch.buf = s.ch.buf.drop k := by
  cases e with
  | push v => simp [cstep, push, hc] at h
  | handoff v => simp [cstep, handoffEnabled, hc] at h
  | close => simp [cstep, close, hc] at h
  | pop =>
    simp only [cstep, pop] at h
    cases hb : s.ch.buf with
    | nil => simp [hb, hc] at h
    | cons v rest =>
      simp only [hb, Option.some.injEq] at h; subst h
      exact ⟨hc, rfl, 1, by simp⟩
  | pushClosed v =>
    simp only [cstep] at h; split at h <;> try contradiction
    simp only [Option.some.injEq] at h; subst h; exact ⟨hc, rfl, 0, by simp⟩
  | popClosed =>
    simp only [cstep] at h; split at h <;> try contradiction
    simp only [Option.some.injEq] at h; subst h; exact ⟨hc, rfl, 0, by simp⟩
  | closeClosed =>
    simp only [cstep] at h; split at h <;> try contradiction
    simp only [Option.some.injEq] at h; subst h; exact ⟨hc, rfl, 0, by simp⟩

/-! ### generic soundness of the boolean list checkers -/

theorem nodupB_sound : ∀ (l : List Nat), nodupB l = true → l.Nodup
  | [], _ => List.nodup_nil
  | x :: xs, h => by
    simp only [nodupB, Bool.and_eq_true, Bool.not_eq_true', List.contains_eq_mem, decide_eq_false_iff_not] at h
    exact List.nodup_cons.mpr ⟨h.1, nodupB_sound xs h.2⟩

theorem pairwiseB_sound (r : Nat → Nat → Bool) : ∀ (l : List Nat), pairwiseB r l = true → l.Pairwise (fun a b => r a b = true)
  | [], _ => List.Pairwise.nil
  | x :: xs, h => by
    simp only [pairwiseB, Bool.and_eq_true, List.all_eq_true] at h
    exact List.Pairwise.cons h.1 (pairwiseB_sound r xs h.2)

theorem allSplits_sound (p : Hist → HRec → Hist → Bool) :
    ∀ (post pre0 : Hist), allSplits p pre0 post = true →
      ∀ pre x rest, post = pre ++ x :: rest → p (pre0 ++ pre) x rest = true
  | [], _, _, pre, x, rest, he => by simp at he
  | y :: ys, pre0, h, pre, x, rest, he => by
    simp only [allSplits, Bool.and_eq_true] at h
    cases pre with
    | nil =>
      simp only [List.nil_append, List.cons.injEq] at he
      obtain ⟨rfl, rfl⟩ := he
      simpa using h.1
    | cons z zs =>
      simp only [List.cons_append, List.cons.injEq] at he
      obtain ⟨rfl, he2⟩ := he
      have := allSplits_sound p ys (pre0 ++ [y]) h.2 zs x rest he2
      simpa [List.append_assoc] using this

end Elk.Chan
