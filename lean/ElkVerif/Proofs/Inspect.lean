import ElkVerif.Model.Inspect
import ElkVerif.Proofs.Utf8
/-! Lemmas for C19: hex digits, single reader steps, the string/char round trips. -/
namespace Elk.Inspect
open Elk.Utf8

/-! ### hex -/

theorem hexVal_hexDigit (n : Nat) (h : n < 16) : hexVal (hexDigit n) = some n := by
  have : ∀ n : Fin 16, hexVal (hexDigit n.val) = some n.val := by decide
  exact this ⟨n, h⟩

theorem hexVal_hexDigitU (n : Nat) (h : n < 16) : hexVal (hexDigitU n) = some n := by
  have : ∀ n : Fin 16, hexVal (hexDigitU n.val) = some n.val := by decide
  exact this ⟨n, h⟩

theorem parseHex2 (c : Nat) (h : c < 256) (rest : Bytes) : parseHexN 2 (hex2 c ++ rest) 0 = some c := by
  simp only [hex2, List.cons_append, List.nil_append, parseHexN,
    hexVal_hexDigit (c / 16 % 16) (by omega), hexVal_hexDigit (c % 16) (by omega)]
  congr 1; omega

theorem parseHex4 (c : Nat) (h : c < 65536) (rest : Bytes) : parseHexN 4 (hex4 c ++ rest) 0 = some c := by
  simp only [hex4, List.cons_append, List.nil_append, parseHexN,
    hexVal_hexDigit (c / 4096 % 16) (by omega), hexVal_hexDigit (c / 256 % 16) (by omega),
    hexVal_hexDigit (c / 16 % 16) (by omega), hexVal_hexDigit (c % 16) (by omega)]
  congr 1; omega

theorem parseHex8 (c : Nat) (h : c < 4294967296) (rest : Bytes) : parseHexN 8 (hex8U c ++ rest) 0 = some c := by
  simp only [hex8U, List.cons_append, List.nil_append, parseHexN,
    hexVal_hexDigitU (c / 268435456 % 16) (by omega), hexVal_hexDigitU (c / 16777216 % 16) (by omega),
    hexVal_hexDigitU (c / 1048576 % 16) (by omega), hexVal_hexDigitU (c / 65536 % 16) (by omega),
    hexVal_hexDigitU (c / 4096 % 16) (by omega), hexVal_hexDigitU (c / 256 % 16) (by omega),
    hexVal_hexDigitU (c / 16 % 16) (by omega), hexVal_hexDigitU (c % 16) (by omega)]
  congr 1; omega

/-! ### one-letter escapes -/

theorem strEscape_spec (c : Nat) (e : UInt8) (h : strEscape c = some e) :
    c < 0x80 ∧ e.toNat < 0x80 ∧ strUnescape e.toNat = some (byte c) := by
  unfold strEscape at h
  repeat' split at h
  all_goals first
    | (simp at h; done)
    | (injection h with h; subst h; subst_vars; decide)

theorem strEscape_none (c : Nat) (h : strEscape c = none) :
    c ≠ 0x22 ∧ c ≠ 0x5C ∧ c ≠ 0x24 ∧ c ≠ 0x23 := by
  unfold strEscape at h
  repeat' split at h
  all_goals first
    | (simp at h; done)
    | omega

/-! ### reading one escape -/

theorem decode_lit (b : UInt8) (rest : Bytes) (h : b.toNat < 0x80) :
    decodeRune (b :: rest) = (b.toNat, 1) := decode_ascii b rest h

theorem readEscape_simple (un : Nat → Option UInt8) (e out : UInt8) (tail : Bytes)
    (he : e.toNat < 0x80) (hun : un e.toNat = some out) :
    readEscape un (e :: tail) = .emit [out] 2 := by
  simp [readEscape, decode_lit e tail he, hun]

theorem readEscape_x (un : Nat → Option UInt8) (hun : un 0x78 = none) (v : Nat) (hv : v < 256) (tail : Bytes) :
    readEscape un ((0x78 : UInt8) :: (hex2 v ++ tail)) = .emit [byte v] 4 := by
  have hd : decodeRune ((0x78 : UInt8) :: (hex2 v ++ tail)) = (0x78, 1) := decode_lit _ _ (by decide)
  simp [readEscape, hd, hun, parseHex2 v hv tail]

theorem readEscape_u (un : Nat → Option UInt8) (hun : un 0x75 = none) (v : Nat) (hv : v < 65536) (tail : Bytes) :
    readEscape un ((0x75 : UInt8) :: (hex4 v ++ tail)) = .emit (encodeRune v) 6 := by
  have hd : decodeRune ((0x75 : UInt8) :: (hex4 v ++ tail)) = (0x75, 1) := decode_lit _ _ (by decide)
  simp [readEscape, hd, hun, parseHex4 v hv tail]

theorem readEscape_U (un : Nat → Option UInt8) (hun : un 0x55 = none) (v : Nat) (hv : v < 4294967296) (tail : Bytes) :
    readEscape un ((0x55 : UInt8) :: (hex8U v ++ tail)) = .emit (encodeRune v) 10 := by
  have hd : decodeRune ((0x55 : UInt8) :: (hex8U v ++ tail)) = (0x55, 1) := decode_lit _ _ (by decide)
  simp [readEscape, hd, hun, parseHex8 v hv tail]

/-! ### one step of the string reader -/

theorem encodeRune_length_pos (r : Nat) : 0 < (encodeRune r).length := by
  unfold encodeRune; repeat' split
  all_goals simp

theorem encodeRune_length_one (r : Nat) (h : (encodeRune r).length = 1) : r < 0x80 := by
  unfold encodeRune at h
  repeat' split at h
  all_goals first | assumption | (simp at h)

theorem encodeRune_ascii (r : Nat) (h : r < 0x80) : encodeRune r = [byte r] := by
  simp [encodeRune, h]

theorem strStep_backslash (L : Nat → Bool) (src : Bytes) :
    strStep L ((0x5C : UInt8) :: src) = readEscape strUnescape src := by
  have hd : decodeRune ((0x5C : UInt8) :: src) = (0x5C, 1) := decode_lit _ _ (by decide)
  simp [strStep, hd]

theorem strStep_rune (L : Nat → Bool) (c : Nat) (hv : ValidScalar c)
    (h : c ≠ 0x22 ∧ c ≠ 0x5C ∧ c ≠ 0x24 ∧ c ≠ 0x23) (tail : Bytes) :
    strStep L (encodeRune c ++ tail) = .emit (encodeRune c) (encodeRune c).length := by
  have hp := encodeRune_length_pos c
  have hne : (encodeRune c).length ≠ 0 := by omega
  simp [strStep, decode_encode c hv tail, hne, h.1, h.2.1, h.2.2.1, h.2.2.2]

/-- the reader consumes exactly what `String.Inspect` wrote for one piece and appends exactly the
bytes of that piece -/
theorem strStep_piece (g L : Nat → Bool) (b : UInt8) (rest tail : Bytes) :
    strStep L (inspectPiece g b (decodeRune (b :: rest)) ++ tail) =
      .emit ((b :: rest).take (decodeRune (b :: rest)).2) (inspectPiece g b (decodeRune (b :: rest))).length := by
  have hb := toNat_lt b
  rcases decode_cases b rest with ⟨hinv, _⟩ | ⟨hv, henc, hlen⟩
  · -- invalid byte
    rw [hinv]
    simp only [inspectPiece, and_self, if_true, List.cons_append, List.nil_append]
    rw [strStep_backslash, readEscape_x _ (by decide) _ hb]
    simp [hex2, byte_toNat_self]
  · generalize hp : decodeRune (b :: rest) = p at *
    have hnot : ¬ (p.1 = runeError ∧ p.2 = 1) := by
      intro ⟨h1, h2⟩
      have := encodeRune_length_one p.1 (by omega)
      simp [runeError] at h1; omega
    simp only [inspectPiece, hnot, if_false]
    cases hesc : strEscape p.1 with
    | some e =>
      obtain ⟨hc, he, hun⟩ := strEscape_spec _ _ hesc
      simp only [List.cons_append, List.nil_append]
      rw [strStep_backslash, readEscape_simple _ e _ _ he hun]
      rw [← henc, encodeRune_ascii _ hc]
      simp
    | none =>
      have hn := strEscape_none _ hesc
      simp only [escapeRune]
      have hmax : p.1 ≤ 0x10FFFF := by unfold ValidScalar at hv; omega
      split
      · rw [strStep_rune L _ hv hn, henc]
      · split
        · rename_i hlt
          simp only [List.cons_append, List.nil_append]
          rw [strStep_backslash, readEscape_x _ (by decide) _ (by omega)]
          rw [← henc, encodeRune_ascii _ hlt]
          simp [hex2]
        · split
          · rename_i hlt
            simp only [List.cons_append, List.nil_append]
            rw [strStep_backslash, readEscape_u _ (by decide) _ hlt, henc]
            simp [hex4]
          · simp only [List.cons_append, List.nil_append]
            rw [strStep_backslash, readEscape_U _ (by decide) _ (by omega), henc]
            simp [hex8U]

/-! ### the whole string -/

theorem inspectBody_nil (g : Nat → Bool) : inspectBody g [] = [] := by rw [inspectBody]

theorem inspectBody_cons (g : Nat → Bool) (b : UInt8) (rest : Bytes) :
    inspectBody g (b :: rest) = inspectPiece g b (decodeRune (b :: rest)) ++
      inspectBody g ((b :: rest).drop (decodeRune (b :: rest)).2) := by rw [inspectBody]

theorem readLoop_done (L : Nat → Bool) (src acc : Bytes) (k : Nat) (h : strStep L src = .done k) :
    readLoop L src acc = if src.drop k = [] then some acc else none := by
  rw [readLoop, h]

theorem readLoop_emit (L : Nat → Bool) (src acc out : Bytes) (k : Nat) (h : strStep L src = .emit out k)
    (hk : 0 < k ∧ k ≤ src.length ∧ src ≠ []) :
    readLoop L src acc = readLoop L (src.drop k) (acc ++ out) := by
  rw [readLoop, h]; simp [hk]

theorem inspectPiece_length_pos (g : Nat → Bool) (b : UInt8) (p : Nat × Nat) : 0 < (inspectPiece g b p).length := by
  unfold inspectPiece
  split
  · simp
  · split
    · simp
    · unfold escapeRune
      repeat' split
      · exact encodeRune_length_pos _
      all_goals simp

theorem readLoop_inspectBody (g L : Nat → Bool) : ∀ (n : Nat) (bs : Bytes), bs.length = n → ∀ acc : Bytes,
    readLoop L (inspectBody g bs ++ [0x22]) acc = some (acc ++ bs) := by
  intro n
  induction n using Nat.strongRecOn with
  | _ n ih =>
    intro bs hlen acc
    cases bs with
    | nil =>
      rw [inspectBody_nil, List.nil_append]
      have hd : strStep L [(0x22 : UInt8)] = .done 1 := by
        have : decodeRune [(0x22 : UInt8)] = (0x22, 1) := decode_lit _ _ (by decide)
        simp [strStep, this]
      rw [readLoop_done L _ _ 1 hd]; simp
    | cons b rest =>
      rw [inspectBody_cons, List.append_assoc]
      have hpos := inspectPiece_length_pos g b (decodeRune (b :: rest))
      have hw1 := decodeRune_width_pos (b :: rest) (by simp)
      have hw2 := decodeRune_width_le (b :: rest)
      rw [readLoop_emit L _ _ _ _ (strStep_piece g L b rest _)
        ⟨hpos, by simp, by intro h; have := congrArg List.length h; simp at this⟩]
      rw [List.drop_left]
      rw [ih ((b :: rest).drop (decodeRune (b :: rest)).2).length
        (by simp only [List.length_drop, List.length_cons] at *; omega) _ rfl]
      rw [List.append_assoc, List.take_append_drop]

/-- **String round trip**: the lexer reads back every byte string from its `inspect` output -/
theorem readString_inspectString (g L : Nat → Bool) (bs : Bytes) :
    readString L (inspectString g bs) = some bs := by
  simp only [inspectString, List.cons_append, List.nil_append, readString]
  simpa using readLoop_inspectBody g L bs.length bs rfl []

/-! ### Char -/

theorem charEscape_spec (c : Nat) (e : UInt8) (h : charEscape c = some e) :
    c < 0x80 ∧ e.toNat < 0x80 ∧ charUnescape e.toNat = some (byte c) := by
  unfold charEscape at h
  repeat' split at h
  all_goals first
    | (simp at h; done)
    | (injection h with h; subst h; subst_vars; decide)

theorem charEscape_none (c : Nat) (h : charEscape c = none) : c ≠ 0x5C := by
  unfold charEscape at h
  repeat' split at h
  all_goals first
    | (simp at h; done)
    | omega

theorem decode_encode_nil (c : Nat) (hv : ValidScalar c) : (decodeRune (encodeRune c)).1 = c := by
  have := decode_encode c hv []
  rw [List.append_nil] at this
  rw [this]

theorem decode_byte (c : Nat) (h : c < 0x80) : (decodeRune [byte c]).1 = c := by
  rw [decode_lit _ _ (by rw [byte_toNat c (by omega)]; exact h), byte_toNat c (by omega)]

theorem readChar_backslash (rest out : Bytes) (k : Nat) (h : readEscape charUnescape rest = .emit out k)
    (hdrop : ((0x5C : UInt8) :: rest).drop k = [0x60]) :
    readChar ((0x60 : UInt8) :: 0x5C :: rest) = some (decodeRune out).1 := by
  have hd : decodeRune ((0x5C : UInt8) :: rest) = (0x5C, 1) := decode_lit _ _ (by decide)
  simp only [readChar, hd]
  simp [h, hdrop]

/-- **Char round trip**: every Unicode scalar value is read back from its `inspect` output -/
theorem readChar_inspectChar (g : Nat → Bool) (c : Nat) (hv : ValidScalar c) :
    readChar (inspectChar g c) = some c := by
  have hmax : c ≤ 0x10FFFF := by unfold ValidScalar at hv; omega
  unfold inspectChar
  cases hesc : charEscape c with
  | some e =>
    obtain ⟨hc, he, hun⟩ := charEscape_spec _ _ hesc
    simp only [List.cons_append, List.nil_append]
    rw [readChar_backslash _ _ _ (readEscape_simple _ e _ _ he hun) (by simp), decode_byte c hc]
  | none =>
    have hn := charEscape_none _ hesc
    simp only [escapeRune]
    split
    · have hd := decode_encode c hv [(0x60 : UInt8)]
      have hp := encodeRune_length_pos c
      have hne : (encodeRune c).length ≠ 0 := by omega
      simp [readChar, hd, hne, hn, decode_encode_nil c hv]
    · split
      · rename_i hlt
        simp only [List.cons_append, List.nil_append, List.append_assoc]
        rw [readChar_backslash _ _ _ (readEscape_x charUnescape (by decide) c (by omega) [(0x60 : UInt8)])
          (by simp [hex2]), decode_byte c hlt]
      · split
        · rename_i hlt
          simp only [List.cons_append, List.nil_append, List.append_assoc]
          rw [readChar_backslash _ _ _ (readEscape_u charUnescape (by decide) c hlt [(0x60 : UInt8)])
            (by simp [hex4]), decode_encode_nil c hv]
        · simp only [List.cons_append, List.nil_append, List.append_assoc]
          rw [readChar_backslash _ _ _ (readEscape_U charUnescape (by decide) c (by omega) [(0x60 : UInt8)])
            (by simp [hex8U]), decode_encode_nil c hv]

end Elk.Inspect

namespace Elk.Inspect
open Elk.Utf8

/-! ### integers -/

/-- canonical (lower-case) character of a digit value below 16 -/
def digitByte (d : Nat) : UInt8 := if d < 10 then byte (0x30 + d) else byte (0x61 + (d - 10))

theorem digitOf_digitByte (d : Nat) (h : d < 16) : digitOf (digitByte d) = .val d := by
  have : ∀ d : Fin 16, digitOf (digitByte d.val) = .val d.val := by decide
  exact this ⟨d, h⟩

theorem digitByte_ne_us (d : Nat) (h : d < 16) : digitByte d ≠ 0x5F := by
  have : ∀ d : Fin 16, digitByte d.val ≠ 0x5F := by decide
  exact this ⟨d, h⟩

/-- the bases that have a literal syntax -/
def LitBase (base : Nat) : Prop := base = 2 ∨ base = 4 ∨ base = 8 ∨ base = 10 ∨ base = 12 ∨ base = 16

theorem digitSet_digitByte (base d : Nat) (hb : LitBase base) (h : d < base) : digitSet base (digitByte d) = true := by
  have h16 : d < 16 := by unfold LitBase at hb; omega
  unfold digitSet
  rw [digitOf_digitByte d h16]
  unfold LitBase at hb
  simp only [Bool.and_eq_true, decide_eq_true_eq, Bool.or_eq_true]
  omega

/-- positional value, most significant digit first -/
def ofDigits (base : Nat) (acc : Nat) (ds : List Nat) : Nat := ds.foldl (fun a d => a * base + d) acc

theorem parseDigits_digits (base : Nat) (hb : base ≤ 16) : ∀ (ds : List Nat) (acc : Nat), (∀ d ∈ ds, d < base) →
    parseDigits base (ds.map digitByte) acc = .ok (ofDigits base acc ds) := by
  intro ds
  induction ds with
  | nil => intro acc _; simp [parseDigits, ofDigits]
  | cons d t ih =>
    intro acc h
    have hd : d < base := h d (by simp)
    simp only [List.map_cons, parseDigits, digitOf_digitByte d (by omega)]
    have : ¬ d ≥ base := by omega
    simp only [this, if_false]
    rw [ih _ (fun x hx => h x (by simp [hx]))]
    simp [ofDigits]

/-- digits with optional single `_` separators in front of them -/
def litBody (ds : List (Bool × Nat)) : Bytes :=
  ds.flatMap fun p => (if p.1 then [(0x5F : UInt8)] else []) ++ [digitByte p.2]

theorem consumeDigits_body (base : Nat) (hb : LitBase base) : ∀ (ds : List (Bool × Nat)) (fuel : Nat),
    ds.length < fuel → (∀ p ∈ ds, p.2 < base) →
    consumeDigits base fuel (litBody ds) = (ds.map fun p => digitByte p.2, []) := by
  intro ds
  induction ds with
  | nil =>
    intro fuel hf _
    cases fuel with
    | zero => omega
    | succ f => simp [litBody, consumeDigits]
  | cons p t ih =>
    intro fuel hf h
    cases fuel with
    | zero => omega
    | succ f =>
      have hp : p.2 < base := h p (by simp)
      have h16 : p.2 < 16 := by unfold LitBase at hb; omega
      have hset := digitSet_digitByte base p.2 hb hp
      have hne := digitByte_ne_us p.2 h16
      have iht := ih f (by simp at hf; omega) (fun x hx => h x (by simp [hx]))
      have hcons : litBody (p :: t) = (if p.1 then [(0x5F : UInt8)] else []) ++ [digitByte p.2] ++ litBody t := by
        simp [litBody]
      rw [hcons]
      cases hu : p.1 with
      | true => simp [consumeDigits, hset, iht]
      | false => simp [consumeDigits, hne, hset, iht]

end Elk.Inspect

namespace Elk.Inspect
open Elk.Utf8

/-- `0x`, `0d`, `0o`, `0q`, `0b`, or nothing for decimal -/
def litPrefix (base : Nat) : Bytes :=
  if base = 16 then [0x30, 0x78] else if base = 12 then [0x30, 0x64] else if base = 8 then [0x30, 0x6F]
  else if base = 4 then [0x30, 0x71] else if base = 2 then [0x30, 0x62] else []

theorem litBody_length_ge (ds : List (Bool × Nat)) : ds.length ≤ (litBody ds).length := by
  induction ds with
  | nil => simp [litBody]
  | cons p t ih =>
    have : litBody (p :: t) = (if p.1 then [(0x5F : UInt8)] else []) ++ [digitByte p.2] ++ litBody t := by simp [litBody]
    rw [this]; simp only [List.length_append, List.length_cons, List.length_nil]; omega

/-- lexing + resolving a prefixed literal `0<letter><digits>` -/
theorem readIntLit_prefixed (base : Nat) (letter : UInt8) (hb : LitBase base)
    (hpre : ∀ t : Bytes, lexPrefix 0x30 (letter :: t) = some (base, letter))
    (hdet : ∀ ds : Bytes, ds ≠ [] → detectBase ((0x30 : UInt8) :: letter :: ds) = (base, ds))
    (d0 : Nat) (rest : List (Bool × Nat)) (h0 : d0 < base) (hr : ∀ p ∈ rest, p.2 < base) :
    readIntLit ((0x30 : UInt8) :: letter :: (digitByte d0 :: litBody rest)) =
      some (ofDigits base 0 (d0 :: rest.map (·.2)) : Int) := by
  have hb16 : base ≤ 16 := by unfold LitBase at hb; omega
  have hcd := consumeDigits_body base hb ((false, d0) :: rest)
    ((letter :: (digitByte d0 :: litBody rest)).length + 1)
    (by have := litBody_length_ge rest; simp only [List.length_cons]; omega)
    (by intro p hp; simp at hp; rcases hp with rfl | hp; exact h0; exact hr p hp)
  have hbody : litBody ((false, d0) :: rest) = digitByte d0 :: litBody rest := by simp [litBody]
  rw [hbody] at hcd
  have hpd := parseDigits_digits base hb16 (d0 :: rest.map (·.2)) 0
    (by
      intro d hd
      rcases List.mem_cons.mp hd with rfl | hd
      · exact h0
      · obtain ⟨p, hp, rfl⟩ := List.mem_map.mp hd
        exact hr p hp)
  simp only [readIntLit, lexInt]
  have h30 : ¬ ¬ (0x30 ≤ (0x30 : UInt8).toNat ∧ (0x30 : UInt8).toNat ≤ 0x39) := by decide
  simp only [h30, if_false, if_true, hpre (digitByte d0 :: litBody rest), List.drop_succ_cons, List.drop_zero, hcd]
  simp only [parseBigInt]
  have n1 : ¬ ((0x30 : UInt8) = 0x2B) := by decide
  have n2 : ¬ ((0x30 : UInt8) = 0x2D) := by decide
  simp only [n1, n2, if_false, parseUBigInt]
  have n3 : ¬ ((0x30 : UInt8) :: letter :: List.map (fun p : Bool × Nat => digitByte p.2) ((false, d0) :: rest) = []) := by simp
  have n4 : ¬ ((2 : Int) ≤ 0 ∧ (0 : Int) ≤ 36) := by omega
  simp only [n3, n4, if_false, if_true]
  rw [hdet _ (by simp)]
  have hmap : List.map (fun p : Bool × Nat => digitByte p.2) ((false, d0) :: rest) = (d0 :: rest.map (·.2)).map digitByte := by
    simp [List.map_map, Function.comp_def]
  rw [hmap, hpd]
  rfl

end Elk.Inspect

namespace Elk.Inspect
open Elk.Utf8

theorem detectBase_letter (letter : UInt8) (base : Nat) (ds : Bytes) (hds : ds ≠ [])
    (h : ∀ rest : Bytes, rest ≠ [] → detectBase ((0x30 : UInt8) :: letter :: rest) = (base, rest)) :
    detectBase ((0x30 : UInt8) :: letter :: ds) = (base, ds) := h ds hds

theorem readIntLit_hex (d0 : Nat) (rest : List (Bool × Nat)) (h0 : d0 < 16) (hr : ∀ p ∈ rest, p.2 < 16) :
    readIntLit (litPrefix 16 ++ (digitByte d0 :: litBody rest)) = some (ofDigits 16 0 (d0 :: rest.map (·.2)) : Int) :=
  readIntLit_prefixed 16 0x78 (by simp [LitBase]) (by intro t; simp [lexPrefix, lowerByte])
    (by intro ds h; simp [detectBase, h, lowerByte]) d0 rest h0 hr

theorem readIntLit_duo (d0 : Nat) (rest : List (Bool × Nat)) (h0 : d0 < 12) (hr : ∀ p ∈ rest, p.2 < 12) :
    readIntLit (litPrefix 12 ++ (digitByte d0 :: litBody rest)) = some (ofDigits 12 0 (d0 :: rest.map (·.2)) : Int) :=
  readIntLit_prefixed 12 0x64 (by simp [LitBase]) (by intro t; simp [lexPrefix, lowerByte])
    (by intro ds h; simp [detectBase, h, lowerByte]) d0 rest h0 hr

theorem readIntLit_oct (d0 : Nat) (rest : List (Bool × Nat)) (h0 : d0 < 8) (hr : ∀ p ∈ rest, p.2 < 8) :
    readIntLit (litPrefix 8 ++ (digitByte d0 :: litBody rest)) = some (ofDigits 8 0 (d0 :: rest.map (·.2)) : Int) :=
  readIntLit_prefixed 8 0x6F (by simp [LitBase]) (by intro t; simp [lexPrefix, lowerByte])
    (by intro ds h; simp [detectBase, h, lowerByte]) d0 rest h0 hr

theorem readIntLit_quat (d0 : Nat) (rest : List (Bool × Nat)) (h0 : d0 < 4) (hr : ∀ p ∈ rest, p.2 < 4) :
    readIntLit (litPrefix 4 ++ (digitByte d0 :: litBody rest)) = some (ofDigits 4 0 (d0 :: rest.map (·.2)) : Int) :=
  readIntLit_prefixed 4 0x71 (by simp [LitBase]) (by intro t; simp [lexPrefix, lowerByte])
    (by intro ds h; simp [detectBase, h, lowerByte]) d0 rest h0 hr

theorem readIntLit_bin (d0 : Nat) (rest : List (Bool × Nat)) (h0 : d0 < 2) (hr : ∀ p ∈ rest, p.2 < 2) :
    readIntLit (litPrefix 2 ++ (digitByte d0 :: litBody rest)) = some (ofDigits 2 0 (d0 :: rest.map (·.2)) : Int) :=
  readIntLit_prefixed 2 0x62 (by simp [LitBase]) (by intro t; simp [lexPrefix, lowerByte])
    (by intro ds h; simp [detectBase, h, lowerByte]) d0 rest h0 hr

end Elk.Inspect

namespace Elk.Inspect
open Elk.Utf8

/-- `lowerByte b` is none of the prefix letters x d o q b -/
def NotPrefixLetter (b : UInt8) : Prop :=
  lowerByte b ≠ 0x78 ∧ lowerByte b ≠ 0x64 ∧ lowerByte b ≠ 0x6F ∧ lowerByte b ≠ 0x71 ∧ lowerByte b ≠ 0x62

theorem notPrefix_digit (d : Nat) (h : d < 10) : NotPrefixLetter (digitByte d) := by
  have : ∀ d : Fin 10, NotPrefixLetter (digitByte d.val) := by unfold NotPrefixLetter; decide
  exact this ⟨d, h⟩

theorem notPrefix_us : NotPrefixLetter 0x5F := by unfold NotPrefixLetter; decide

theorem digitByte_dec_range (d : Nat) (h : d < 10) :
    0x30 ≤ (digitByte d).toNat ∧ (digitByte d).toNat ≤ 0x39 := by
  have : ∀ d : Fin 10, 0x30 ≤ (digitByte d.val).toNat ∧ (digitByte d.val).toNat ≤ 0x39 := by decide
  exact this ⟨d, h⟩

/-- heads of a byte string (if any) are not prefix letters -/
def HeadOk (bs : Bytes) : Prop := ∀ b t, bs = b :: t → NotPrefixLetter b

theorem headOk_litBody (rest : List (Bool × Nat)) (hr : ∀ p ∈ rest, p.2 < 10) : HeadOk (litBody rest) := by
  intro b t h
  cases rest with
  | nil => simp [litBody] at h
  | cons p r =>
    have hp := hr p (by simp)
    have hc : litBody (p :: r) = (if p.1 then [(0x5F : UInt8)] else []) ++ [digitByte p.2] ++ litBody r := by simp [litBody]
    rw [hc] at h
    cases hu : p.1 with
    | true => simp [hu] at h; rw [← h.1]; exact notPrefix_us
    | false => simp [hu] at h; rw [← h.1]; exact notPrefix_digit _ hp

theorem headOk_map (ds : List Nat) (hr : ∀ d ∈ ds, d < 10) : HeadOk (ds.map digitByte) := by
  intro b t h
  cases ds with
  | nil => simp at h
  | cons d r => simp at h; rw [← h.1]; exact notPrefix_digit _ (hr d (by simp))

theorem lexPre_none (d0b : UInt8) (rest : Bytes) (h : HeadOk rest) : lexPrefix d0b rest = none := by
  unfold lexPrefix
  split
  · cases rest with
    | nil => rfl
    | cons b1 t =>
      obtain ⟨a, b, c, d, e⟩ := h b1 t rfl
      simp [a, b, c, d, e]
  · rfl

theorem detectBase_dec (s : Bytes) (h : ∀ b0 t, s = b0 :: t → HeadOk t) : detectBase s = (10, s) := by
  unfold detectBase
  split
  · rename_i b0 b1 rest
    obtain ⟨a, b, c, d, e⟩ := h b0 (b1 :: rest) rfl b1 rest rfl
    split
    · simp [a, b, c, d, e]
    · rfl
  · rfl

/-- lexing + resolving a decimal literal (leading zeros allowed) -/
theorem readIntLit_dec (d0 : Nat) (rest : List (Bool × Nat)) (h0 : d0 < 10) (hr : ∀ p ∈ rest, p.2 < 10) :
    readIntLit (digitByte d0 :: litBody rest) = some (ofDigits 10 0 (d0 :: rest.map (·.2)) : Int) := by
  have hcd := consumeDigits_body 10 (by simp [LitBase]) rest ((litBody rest).length + 1)
    (by have := litBody_length_ge rest; omega) hr
  have hpd := parseDigits_digits 10 (by omega) (d0 :: rest.map (·.2)) 0
    (by
      intro d hd
      rcases List.mem_cons.mp hd with rfl | hd
      · exact h0
      · obtain ⟨p, hp, rfl⟩ := List.mem_map.mp hd
        exact hr p hp)
  have hrange := digitByte_dec_range d0 h0
  simp only [readIntLit, lexInt]
  have h30 : ¬ ¬ (0x30 ≤ (digitByte d0).toNat ∧ (digitByte d0).toNat ≤ 0x39) := by simp; exact hrange
  simp only [h30, if_false, lexPre_none (digitByte d0) (litBody rest) (headOk_litBody rest hr), hcd]
  simp only [if_true, parseBigInt]
  have n1 : ¬ (digitByte d0 = 0x2B) := by intro h; rw [h] at hrange; revert hrange; decide
  have n2 : ¬ (digitByte d0 = 0x2D) := by intro h; rw [h] at hrange; revert hrange; decide
  simp only [n1, n2, if_false, parseUBigInt]
  have n3 : ¬ (digitByte d0 :: List.map (fun p : Bool × Nat => digitByte p.2) rest = []) := by simp
  have n4 : ¬ ((2 : Int) ≤ 0 ∧ (0 : Int) ≤ 36) := by omega
  simp only [n3, n4, if_false, if_true]
  have hmap : digitByte d0 :: List.map (fun p : Bool × Nat => digitByte p.2) rest = (d0 :: rest.map (·.2)).map digitByte := by
    simp [List.map_map, Function.comp_def]
  rw [hmap, detectBase_dec _ (by
    intro b0 t h
    simp at h
    rw [← h.2]
    have := headOk_map (rest.map (·.2)) (by
      intro d hd
      obtain ⟨p, hp, rfl⟩ := List.mem_map.mp hd
      exact hr p hp)
    simpa [List.map_map, Function.comp_def] using this), hpd]
  rfl

end Elk.Inspect

namespace Elk.Inspect
open Elk.Utf8

theorem natDigits_small (n : Nat) (h : n < 10) : natDigits n = [n] := by
  rw [natDigits]; simp [h]

theorem natDigits_big (n : Nat) (h : ¬ n < 10) : natDigits n = natDigits (n / 10) ++ [n % 10] := by
  rw [natDigits]; simp [h]

theorem ofDigits_append (base acc : Nat) (xs ys : List Nat) :
    ofDigits base acc (xs ++ ys) = ofDigits base (ofDigits base acc xs) ys := by
  simp [ofDigits, List.foldl_append]

theorem natDigits_spec (n : Nat) : (∀ d ∈ natDigits n, d < 10) ∧ natDigits n ≠ [] ∧ ofDigits 10 0 (natDigits n) = n := by
  induction n using Nat.strongRecOn with
  | _ n ih =>
    by_cases h : n < 10
    · rw [natDigits_small n h]; simp [ofDigits]; exact h
    · rw [natDigits_big n h]
      obtain ⟨h1, h2, h3⟩ := ih (n / 10) (by omega)
      refine ⟨?_, by simp, ?_⟩
      · intro d hd
        rcases List.mem_append.mp hd with hd | hd
        · exact h1 d hd
        · simp at hd; omega
      · rw [ofDigits_append, h3]; simp [ofDigits]; omega

theorem digitChar_eq (d : Nat) (h : d < 10) : digitChar d = digitByte d := by
  simp [digitChar, digitByte, h]

theorem litBody_plain (ds : List Nat) : litBody (ds.map fun d => (false, d)) = ds.map digitByte := by
  induction ds with
  | nil => simp [litBody]
  | cons d t ih =>
    have : litBody ((false, d) :: t.map fun d => (false, d)) = digitByte d :: litBody (t.map fun d => (false, d)) := by
      simp [litBody]
    simp only [List.map_cons, this, ih]

/-- reading the decimal digits of a natural number -/
theorem readIntLit_natDigits (m : Nat) : readIntLit ((natDigits m).map digitChar) = some (m : Int) := by
  obtain ⟨h1, h2, h3⟩ := natDigits_spec m
  cases hd : natDigits m with
  | nil => exact absurd hd h2
  | cons d0 ds =>
    rw [hd] at h1 h3
    have hmap : (d0 :: ds).map digitChar = digitByte d0 :: litBody (ds.map fun d => (false, d)) := by
      rw [litBody_plain]
      simp only [List.map_cons]
      rw [digitChar_eq d0 (h1 d0 (by simp))]
      congr 1
      apply List.map_congr_left
      intro d hd'
      exact digitChar_eq d (h1 d (by simp [hd']))
    rw [hmap, readIntLit_dec d0 _ (h1 d0 (by simp)) (by
      intro p hp
      obtain ⟨d, hd', rfl⟩ := List.mem_map.mp hp
      exact h1 d (by simp [hd']))]
    simp only [List.map_map, Function.comp_def, List.map_id'] at *
    rw [h3]

theorem digitChar_ne_minus (d : Nat) (h : d < 10) : digitChar d ≠ 0x2D := by
  have : ∀ d : Fin 10, digitChar d.val ≠ 0x2D := by decide
  exact this ⟨d, h⟩

/-- **Int round trip**: every integer is read back from its `inspect` output -/
theorem readInt_showInt (n : Int) : readInt (showInt n) = some n := by
  obtain ⟨h1, h2, _⟩ := natDigits_spec n.natAbs
  unfold showInt
  by_cases hn : n < 0
  · simp only [hn, if_true, List.cons_append, List.nil_append, readInt]
    rw [readIntLit_natDigits]
    simp; omega
  · simp only [hn, if_false, List.nil_append]
    cases hd : natDigits n.natAbs with
    | nil => exact absurd hd h2
    | cons d0 ds =>
      have hne := digitChar_ne_minus d0 (h1 d0 (by simp [hd]))
      have := readIntLit_natDigits n.natAbs
      rw [hd] at this
      simp only [List.map_cons, readInt, hne, if_false] at this ⊢
      rw [this]
      simp; omega

end Elk.Inspect
