import ElkVerif.Model.Bytecode.Verify
/-!
# Proofs about the bytecode decoder, the abstract machine and the verifier (C29)
-/
namespace Elk.Bytecode

/-! ## membership in the hash index = membership in the list -/

theorem idx_contains_iff {α} [BEq α] [Hashable α] [LawfulBEq α] (l : List α) (k : α) :
    (Std.HashSet.ofList l).contains k = true ↔ k ∈ l := by
  rw [Std.HashSet.contains_ofList]
  exact List.contains_iff_mem

/-! ## decoder: every byte an instruction occupies is inside the code -/

theorem rd_ok {code : Array Nat} {i b : Nat} (h : rd code i = .ok b) : i < code.size := by
  unfold rd at h
  cases hc : code[i]? with
  | none => simp [hc] at h
  | some v =>
    have := Array.getElem?_eq_some_iff.mp hc
    exact this.1

theorem rd16_ok {code : Array Nat} {i b : Nat} (h : rd16 code i = .ok b) : i + 1 < code.size := by
  unfold rd16 at h
  cases h1 : code[i]? with
  | none => simp [h1] at h
  | some v =>
    cases h2 : code[i + 1]? with
    | none => simp [h1, h2] at h
    | some w =>
      have := Array.getElem?_eq_some_iff.mp h2
      exact this.1

/-- the descriptor loop ends after its start, inside the code -/
theorem decodeUps_bounds (code : Array Nat) (fuel pos : Nat) (l : List (Bool × Nat)) (p : Nat)
    (h : decodeUps code fuel pos = .ok (l, p)) : pos < p ∧ p ≤ code.size := by
  induction fuel generalizing pos l p with
  | zero => simp [decodeUps] at h
  | succ n ih =>
    unfold decodeUps at h
    cases hr : rd code pos with
    | error e => simp [hr] at h
    | ok fl =>
      have hpos := rd_ok hr
      simp only [hr] at h
      split at h
      · injection h with h; injection h with _ h2; omega
      · split at h
        · cases h16 : rd16 code (pos + 1) with
          | error e => simp [h16] at h
          | ok idx =>
            simp only [h16] at h
            cases hrec : decodeUps code n (pos + 3) with
            | error e => simp [hrec] at h
            | ok r =>
              obtain ⟨l', p'⟩ := r
              simp only [hrec] at h
              injection h with h; injection h with _ h2
              have := ih (pos + 3) l' p' hrec
              omega
        · cases h8 : rd code (pos + 1) with
          | error e => simp [h8] at h
          | ok idx =>
            simp only [h8] at h
            cases hrec : decodeUps code n (pos + 2) with
            | error e => simp [hrec] at h
            | ok r =>
              obtain ⟨l', p'⟩ := r
              simp only [hrec] at h
              injection h with h; injection h with _ h2
              have := ih (pos + 2) l' p' hrec
              omega

theorem mkInstr_ok {pc op : Nat} {info : OpInfo} {a b : Nat} {sa : Int} {w : Nat} {i : Instr}
    (h : mkInstr pc op info a b sa w = .ok i) : i.pc = pc ∧ i.width = w := by
  unfold mkInstr at h
  split at h
  · injection h with h; subst h; exact ⟨rfl, rfl⟩
  · cases h

theorem decodeOperands_bounds (code : Array Nat) (pc op : Nat) (info : OpInfo) (o : Opnd) (i : Instr)
    (hpc : pc < code.size) (h : decodeOperands code pc op info o = .ok i) :
    i.pc = pc ∧ 0 < i.width ∧ pc + i.width ≤ code.size := by
  cases o with
  | e =>
    have := mkInstr_ok (by simpa [decodeOperands] using h)
    omega
  | u8 =>
    simp only [decodeOperands] at h
    cases h1 : rd code (pc + 1) with
    | error e => rw [h1] at h; cases h
    | ok a => rw [h1] at h; have := mkInstr_ok h; have := rd_ok h1; omega
  | s8 =>
    simp only [decodeOperands] at h
    cases h1 : rd code (pc + 1) with
    | error e => rw [h1] at h; cases h
    | ok a => rw [h1] at h; have := mkInstr_ok h; have := rd_ok h1; omega
  | u16 =>
    simp only [decodeOperands] at h
    cases h1 : rd16 code (pc + 1) with
    | error e => rw [h1] at h; cases h
    | ok a => rw [h1] at h; have := mkInstr_ok h; have := rd16_ok h1; omega
  | s16 =>
    simp only [decodeOperands] at h
    cases h1 : rd16 code (pc + 1) with
    | error e => rw [h1] at h; cases h
    | ok a => rw [h1] at h; have := mkInstr_ok h; have := rd16_ok h1; omega
  | u8u8 =>
    simp only [decodeOperands] at h
    cases h1 : rd code (pc + 1) with
    | error e => rw [h1] at h; cases h
    | ok a =>
      rw [h1] at h
      cases h2 : rd code (pc + 2) with
      | error e => rw [h2] at h; cases h
      | ok b => rw [h2] at h; have := mkInstr_ok h; have := rd_ok h2; omega
  | u16u8 =>
    simp only [decodeOperands] at h
    cases h1 : rd16 code (pc + 1) with
    | error e => rw [h1] at h; cases h
    | ok a =>
      rw [h1] at h
      cases h2 : rd code (pc + 3) with
      | error e => rw [h2] at h; cases h
      | ok b => rw [h2] at h; have := mkInstr_ok h; have := rd_ok h2; omega
  | u8u16 =>
    simp only [decodeOperands] at h
    cases h1 : rd code (pc + 1) with
    | error e => rw [h1] at h; cases h
    | ok a =>
      rw [h1] at h
      cases h2 : rd16 code (pc + 2) with
      | error e => rw [h2] at h; cases h
      | ok b => rw [h2] at h; have := mkInstr_ok h; have := rd16_ok h2; omega
  | closure =>
    simp only [decodeOperands] at h
    split at h
    · cases h
    · cases hu : decodeUps code code.size (pc + 1) with
      | error e => rw [hu] at h; cases h
      | ok r =>
        obtain ⟨ups, p⟩ := r
        rw [hu] at h
        injection h with h; subst h
        have := decodeUps_bounds code code.size (pc + 1) ups p hu
        refine ⟨rfl, ?_, ?_⟩ <;> dsimp only <;> omega

/-- **Instruction fetch is in range**: a decoded instruction starts at `pc`, is at least one byte
wide and lies entirely inside the code. -/
theorem decodeAt_bounds (code : Array Nat) (pc : Nat) (i : Instr) (h : decodeAt code pc = .ok i) :
    i.pc = pc ∧ 0 < i.width ∧ pc + i.width ≤ code.size := by
  unfold decodeAt at h
  cases hop : code[pc]? with
  | none => rw [hop] at h; cases h
  | some op =>
    have hpc : pc < code.size := (Array.getElem?_eq_some_iff.mp hop).1
    rw [hop] at h
    simp only [] at h
    generalize opInfo op = oi at h
    cases oi with
    | none => cases h
    | some info => exact decodeOperands_bounds code pc op info _ i hpc h

/-! ## linear sweep -/

/-- `l` are consecutive instruction starts from `pc` to the end of the code -/
inductive Tiles (code : Array Nat) : Nat → List Nat → Prop where
  | done : Tiles code code.size []
  | step {pc : Nat} {i : Instr} {l : List Nat} : decodeAt code pc = .ok i → pc < code.size →
      Tiles code (pc + i.width) l → Tiles code pc (pc :: l)

theorem sweepFrom_tiles (code : Array Nat) (fuel pc : Nat) (l : List Nat)
    (h : sweepFrom code fuel pc = .ok l) : Tiles code pc l := by
  induction fuel generalizing pc l with
  | zero => simp [sweepFrom] at h
  | succ n ih =>
    unfold sweepFrom at h
    split at h
    · rename_i hpc; injection h with h; subst h; subst hpc; exact .done
    · cases hd : decodeAt code pc with
      | error e => simp [hd] at h
      | ok i =>
        simp only [hd] at h
        split at h
        · simp at h
        · cases hr : sweepFrom code n (pc + i.width) with
          | error e => simp [hr] at h
          | ok l' =>
            simp only [hr] at h
            injection h with h; subst h
            have hb := decodeAt_bounds code pc i hd
            exact .step hd (by omega) (ih _ _ hr)

theorem Tiles.head {code : Array Nat} {pc : Nat} {l : List Nat} (h : Tiles code pc l) :
    (l = [] ∧ pc = code.size) ∨ (∃ r, l = pc :: r) := by
  cases h with
  | done => left; exact ⟨rfl, rfl⟩
  | step _ _ _ => right; exact ⟨_, rfl⟩

/-- every boundary decodes, and the next boundary (or the end of the code) follows it directly -/
theorem Tiles.mem {code : Array Nat} {pc : Nat} {l : List Nat} (h : Tiles code pc l) :
    ∀ b ∈ l, ∃ i, decodeAt code b = .ok i ∧ b < code.size ∧ (b + i.width ∈ l ∨ b + i.width = code.size) := by
  induction h with
  | done => intro b hb; simp at hb
  | @step pc i l hd hlt ht ih =>
    intro b hb
    rcases List.mem_cons.mp hb with rfl | hb
    · refine ⟨i, hd, hlt, ?_⟩
      rcases ht.head with ⟨_, hend⟩ | ⟨r, hr⟩
      · right; exact hend
      · left; rw [hr]; simp
    · obtain ⟨j, hj, hlt', hn⟩ := ih b hb
      refine ⟨j, hj, hlt', ?_⟩
      rcases hn with hn | hn
      · left; exact List.mem_cons_of_mem _ hn
      · right; exact hn

/-- with fuel for one instruction per remaining byte the sweep never stops for lack of fuel:
it returns boundaries, or the decode error of an instruction that starts inside the code -/
theorem sweepFrom_total (code : Array Nat) (fuel pc : Nat) (hpc : pc ≤ code.size) (hf : code.size - pc < fuel) :
    (∃ l, sweepFrom code fuel pc = .ok l) ∨
    (∃ q e, q < code.size ∧ decodeAt code q = .error e ∧ sweepFrom code fuel pc = .error e) := by
  induction fuel generalizing pc with
  | zero => omega
  | succ n ih =>
    unfold sweepFrom
    by_cases hend : pc = code.size
    · left; simp [hend]
    · simp only [hend, if_false]
      cases hd : decodeAt code pc with
      | error e => right; exact ⟨pc, e, by omega, hd, rfl⟩
      | ok i =>
        have hb := decodeAt_bounds code pc i hd
        have hw : ¬ i.width = 0 := by omega
        simp only [hw, if_false]
        rcases ih (pc + i.width) (by omega) (by omega) with ⟨l, hl⟩ | ⟨q, e, hq, hqe, hl⟩
        · left; exact ⟨pc :: l, by simp [hl]⟩
        · right; exact ⟨q, e, hq, hqe, by simp [hl]⟩

/-! ## the certificate check is sound for the abstract machine -/

theorem checkCert_entry {P : Prog} {f : Func} {cfg : Cfg} {cert : List St}
    (h : checkCert P f cfg cert = true) : St.entry f cfg ∈ cert := by
  unfold checkCert at h
  simp only [Bool.and_eq_true] at h
  exact (idx_contains_iff cert (St.entry f cfg)).mp h.1

theorem checkCert_closed {P : Prog} {f : Func} {cfg : Cfg} {cert : List St}
    (h : checkCert P f cfg cert = true) {s : St} (hs : s ∈ cert) :
    ∃ l, exec P f cfg s = .ok l ∧ ∀ s' ∈ l, s' ∈ cert := by
  unfold checkCert at h
  simp only [Bool.and_eq_true, List.all_eq_true] at h
  have := h.2 s hs
  cases he : exec P f cfg s with
  | error e => simp [he] at this
  | ok l =>
    simp only [he, List.all_eq_true] at this
    exact ⟨l, rfl, fun s' hs' => (idx_contains_iff cert s').mp (this s' hs')⟩

/-- every reachable state is in an accepted certificate -/
theorem reachable_in_cert {P : Prog} {f : Func} {cfg : Cfg} {cert : List St}
    (h : checkCert P f cfg cert = true) {s : St} (hr : Reachable P f cfg s) : s ∈ cert := by
  induction hr with
  | entry => exact checkCert_entry h
  | step _ hex hmem ih =>
    obtain ⟨l', hl', hall⟩ := checkCert_closed h ih
    rw [hex] at hl'
    injection hl' with hl'
    subst hl'
    exact hall _ hmem

theorem onBoundaries_mem {bs : List Nat} {cert : List St} (h : onBoundaries bs cert = true) {s : St}
    (hs : s ∈ cert) : s.pc ∈ bs := by
  unfold onBoundaries at h
  simp only [List.all_eq_true] at h
  exact (idx_contains_iff bs s.pc).mp (h s hs)

/-- list-membership form of `checkCert` (the kernel can evaluate it; the hash index is only speed) -/
def checkCertL (P : Prog) (f : Func) (cfg : Cfg) (cert : List St) : Bool :=
  cert.contains (St.entry f cfg) &&
  cert.all fun s =>
    match exec P f cfg s with
    | .ok l => l.all fun s' => cert.contains s'
    | .error _ => false

theorem checkCert_eq_L (P : Prog) (f : Func) (cfg : Cfg) (cert : List St) :
    checkCert P f cfg cert = checkCertL P f cfg cert := by
  unfold checkCert checkCertL
  simp only [Std.HashSet.contains_ofList]
  rfl

/-! ## bounded forward exploration (for witnesses) -/

def stepAll (P : Prog) (f : Func) (cfg : Cfg) (l : List St) : List St :=
  l.flatMap fun s => match exec P f cfg s with
    | .ok l' => l'
    | .error _ => []

def reachN (P : Prog) (f : Func) (cfg : Cfg) : Nat → List St
  | 0 => [St.entry f cfg]
  | n + 1 => stepAll P f cfg (reachN P f cfg n)

theorem reachN_sound (P : Prog) (f : Func) (cfg : Cfg) (n : Nat) :
    ∀ s ∈ reachN P f cfg n, Reachable P f cfg s := by
  induction n with
  | zero => intro s hs; simp [reachN] at hs; subst hs; exact .entry
  | succ k ih =>
    intro s hs
    simp only [reachN, stepAll, List.mem_flatMap] at hs
    obtain ⟨s0, hs0, hmem⟩ := hs
    cases he : exec P f cfg s0 with
    | error e => rw [he] at hmem; simp at hmem
    | ok l => rw [he] at hmem; exact .step (ih s0 hs0) he hmem

/-! ## structure check -/

theorem checkInstrs_mem {P : Prog} {f : Func} {bs : List Nat} {l : List Nat}
    (h : checkInstrs P f bs l = .ok ()) :
    ∀ pc ∈ l, ∃ i, decodeAt f.code pc = .ok i ∧ staticCheck P f i = .ok () ∧ ∀ t ∈ staticTargets i, t ∈ bs := by
  induction l with
  | nil => intro pc hpc; simp at hpc
  | cons a rest ih =>
    unfold checkInstrs at h
    cases hd : decodeAt f.code a with
    | error e => simp [hd] at h
    | ok i =>
      simp only [hd] at h
      cases hs : staticCheck P f i with
      | error e => simp [hs] at h
      | ok u =>
        simp only [hs] at h
        cases hf : (staticTargets i).find? (fun t => !bs.contains t) with
        | some t => rw [hf] at h; cases h
        | none =>
          rw [hf] at h
          intro pc hpc
          rcases List.mem_cons.mp hpc with rfl | hpc
          · refine ⟨i, hd, hs, ?_⟩
            intro t ht
            have := List.find?_eq_none.mp hf t ht
            simpa using this
          · exact ih h pc hpc

end Elk.Bytecode
