import ElkVerif.Model.ZoneOff
/-! round trip of `%z` / `%:z` zone offsets (C22) -/
namespace Elk.ZoneOff

theorem two_pad2 : ∀ n : Fin 100, two? (pad2 n.val)[0]! (pad2 n.val)[1]! = some n.val := by decide

theorem two_pad2' (n : Nat) (h : n < 100) : two? (digitChar (n / 10)) (digitChar (n % 10)) = some n := by
  have := two_pad2 ⟨n, h⟩
  simpa [pad2] using this

/-- every whole-minute offset the implementation accepts is printed and parsed back to itself, with or without colon -/
theorem offset_roundtrip (colon : Bool) (o : Int) (h1 : -86400 < o) (h2 : o < 86400) (hm : o % 60 = 0) :
    parseOff colon (fmtOff colon o) = some o := by
  have ha : o.natAbs < 86400 := by omega
  have hh : o.natAbs / 3600 < 24 := by omega
  have hmi : o.natAbs % 3600 / 60 < 60 := by omega
  have e1 := two_pad2' (o.natAbs / 3600) (by omega)
  have e2 := two_pad2' (o.natAbs % 3600 / 60) (by omega)
  have hz : (o.natAbs : Int) % 60 = 0 := by omega
  by_cases hs : o ≥ 0
  · cases colon <;> simp [fmtOff, pad2, parseOff, hs, e1, e2, sign?, mkOff, hh, hmi] <;> omega
  · cases colon <;> simp [fmtOff, pad2, parseOff, hs, e1, e2, sign?, mkOff, hh, hmi] <;> omega

end Elk.ZoneOff
