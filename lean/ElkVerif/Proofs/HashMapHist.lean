import ElkVerif.Proofs.HashMapLoops
/-! C17: union/intersection, equality, and histories over several tables -/
namespace Elk.HashMap
variable {K V : Type} {hash : K → Nat} {eqv : K → K → Bool}

theorem lookupL_isSome_any (l : List (K × V)) (q : K) :
    (lookupL eqv l q).isSome = l.any (fun p => eqv p.1 q) := by
  induction l with
  | nil => rfl
  | cons p rest ih =>
    obtain ⟨k, v⟩ := p
    simp only [lookupL, List.any_cons]
    cases eqv k q <;> simp [ih]

/-- lookups respect key equivalence -/
theorem lookup_congr (hk : KeyOk hash eqv) (t : Tbl K V) (hinv : Inv hash eqv t) (k q : K) (he : eqv k q = true) :
    lookupL eqv t.toList k = lookupL eqv t.toList q := by
  apply option_ext
  intro w
  rw [lookup_iff hk t hinv k w, lookup_iff hk t hinv q w]
  constructor
  · rintro ⟨j, k', hj, h⟩; exact ⟨j, k', hj, hk.trans k' k q h he⟩
  · rintro ⟨j, k', hj, h⟩; exact ⟨j, k', hj, hk.trans k' q k h (hk.symm k q he)⟩

theorem unionLoop_spec (hk : KeyOk hash eqv) (dflt : V) : ∀ (es : List (K × V)) (acc : Tbl K V),
    Inv hash eqv acc → ∃ t', unionLoop hash eqv dflt acc es = .ok t' ∧ Inv hash eqv t' ∧
      ∀ q, (lookupL eqv t'.toList q).isSome =
        ((lookupL eqv acc.toList q).isSome || es.any (fun p => eqv p.1 q)) := by
  intro es
  induction es with
  | nil => intro acc h; exact ⟨acc, rfl, h, by simp⟩
  | cons p rest ih =>
    intro acc h
    obtain ⟨k, v⟩ := p
    obtain ⟨a1, h1, hinv1, hl1⟩ := setWithMaxLoad_spec hk acc h k dflt 3 4 (Or.inl ⟨rfl, rfl⟩)
    obtain ⟨t', h2, hinv2, hl2⟩ := ih a1 hinv1
    refine ⟨t', by simp only [unionLoop, h1]; exact h2, hinv2, ?_⟩
    intro q
    rw [hl2 q, hl1 q]
    simp only [List.any_cons]
    cases eqv k q <;> simp

/-- `HashSetOfValueUnion`: membership is the disjunction -/
theorem union_spec (hk : KeyOk hash eqv) (dflt : V) (x y : Tbl K V) (hx : Inv hash eqv x) (hy : Inv hash eqv y) :
    ∃ t', union hash eqv dflt x y = .ok t' ∧ Inv hash eqv t' ∧
      ∀ q, (lookupL eqv t'.toList q).isSome =
        ((lookupL eqv x.toList q).isSome || (lookupL eqv y.toList q).isSome) := by
  simp only [union]
  by_cases hc : x.elements > y.elements
  · simp only [hc, if_true]
    obtain ⟨acc, h1, hinv1, hl1⟩ := copy_spec hk (Tbl.new (y.elements + x.elements)) x (inv_new _) hx
    obtain ⟨t', h2, hinv2, hl2⟩ := unionLoop_spec hk dflt y.toList acc hinv1
    refine ⟨t', by rw [h1]; exact h2, hinv2, ?_⟩
    intro q
    rw [hl2 q, hl1 q, ← lookupL_isSome_any]
    have : lookupL eqv (Tbl.new (y.elements + x.elements) : Tbl K V).toList q = none := by
      simp [Tbl.toList, Tbl.new, entries_replicate_empty, lookupL]
    rw [this]
    cases lookupL eqv x.toList q <;> simp
  · simp only [hc, if_false]
    obtain ⟨acc, h1, hinv1, hl1⟩ := copy_spec hk (Tbl.new (x.elements + y.elements)) y (inv_new _) hy
    obtain ⟨t', h2, hinv2, hl2⟩ := unionLoop_spec hk dflt x.toList acc hinv1
    refine ⟨t', by rw [h1]; exact h2, hinv2, ?_⟩
    intro q
    rw [hl2 q, hl1 q, ← lookupL_isSome_any]
    have : lookupL eqv (Tbl.new (x.elements + y.elements) : Tbl K V).toList q = none := by
      simp [Tbl.toList, Tbl.new, entries_replicate_empty, lookupL]
    rw [this]
    cases lookupL eqv y.toList q <;> cases lookupL eqv x.toList q <;> simp

theorem interLoop_spec (hk : KeyOk hash eqv) (dflt : V) (longer : Tbl K V) (hlong : Inv hash eqv longer) :
    ∀ (es : List (K × V)) (acc : Tbl K V), Inv hash eqv acc →
      ∃ t', interLoop hash eqv dflt longer acc es = .ok t' ∧ Inv hash eqv t' ∧
        ∀ q, (lookupL eqv t'.toList q).isSome =
          ((lookupL eqv acc.toList q).isSome ||
            (es.any (fun p => eqv p.1 q) && (lookupL eqv longer.toList q).isSome)) := by
  intro es
  induction es with
  | nil => intro acc h; exact ⟨acc, rfl, h, by simp⟩
  | cons p rest ih =>
    intro acc h
    obtain ⟨k, v⟩ := p
    have hck := containsKey_spec hk longer hlong k
    cases hb : (lookupL eqv longer.toList k).isSome with
    | false =>
      rw [hb] at hck
      obtain ⟨t', h2, hinv2, hl2⟩ := ih acc h
      refine ⟨t', by simp only [interLoop, hck]; exact h2, hinv2, ?_⟩
      intro q
      rw [hl2 q]
      simp only [List.any_cons]
      cases hq : eqv k q with
      | false => simp
      | true =>
        have := lookup_congr hk longer hlong k q hq
        rw [← this, hb]; simp
    | true =>
      rw [hb] at hck
      obtain ⟨a1, h1, hinv1, hl1⟩ := setWithMaxLoad_spec hk acc h k dflt 3 4 (Or.inl ⟨rfl, rfl⟩)
      obtain ⟨t', h2, hinv2, hl2⟩ := ih a1 hinv1
      refine ⟨t', by simp only [interLoop, hck, h1]; exact h2, hinv2, ?_⟩
      intro q
      rw [hl2 q, hl1 q]
      simp only [List.any_cons]
      cases hq : eqv k q with
      | false => simp
      | true =>
        have := lookup_congr hk longer hlong k q hq
        rw [← this, hb]; simp

/-- `HashSetOfValueIntersection`: membership is the conjunction -/
theorem inter_spec (hk : KeyOk hash eqv) (dflt : V) (x y : Tbl K V) (hx : Inv hash eqv x) (hy : Inv hash eqv y) :
    ∃ t', inter hash eqv dflt x y = .ok t' ∧ Inv hash eqv t' ∧
      ∀ q, (lookupL eqv t'.toList q).isSome =
        ((lookupL eqv x.toList q).isSome && (lookupL eqv y.toList q).isSome) := by
  simp only [inter]
  have hnone : ∀ q, lookupL eqv (Tbl.new 5 : Tbl K V).toList q = none := by
    intro q
    have : (Tbl.new 5 : Tbl K V).toList = [] := entries_replicate_empty 5
    rw [this]; rfl
  by_cases hc : x.elements > y.elements
  · simp only [hc, if_true]
    obtain ⟨t', h2, hinv2, hl2⟩ := interLoop_spec hk dflt x hx y.toList (Tbl.new 5) (inv_new 5)
    refine ⟨t', h2, hinv2, ?_⟩
    intro q
    rw [hl2 q, hnone q, ← lookupL_isSome_any]
    cases lookupL eqv x.toList q <;> cases lookupL eqv y.toList q <;> simp
  · simp only [hc, if_false]
    obtain ⟨t', h2, hinv2, hl2⟩ := interLoop_spec hk dflt y hy x.toList (Tbl.new 5) (inv_new 5)
    refine ⟨t', h2, hinv2, ?_⟩
    intro q
    rw [hl2 q, hnone q, ← lookupL_isSome_any]
    cases lookupL eqv x.toList q <;> cases lookupL eqv y.toList q <;> simp

end Elk.HashMap
