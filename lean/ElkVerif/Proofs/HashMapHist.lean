import ElkVerif.Proofs.HashMapLoops
/-! C17: union/intersection, equality, and histories over several tables -/
namespace Elk.HashMap
variable {K V : Type} {hash : K → Nat} {eqv : K → K → Bool}

theorem lookupL_isSome_any (l : List (K × V)) (q : K) :
    (lookupL eqv l q).isSome = l.any (fun p => eqv p.1 q) := by
  induction l with
  | nil => rfl
  | cons p rest ih =>
    obtain ⟨k, v⟩ := p
    simp only [lookupL, List.any_cons]
    cases eqv k q <;> simp [ih]

/-- lookups respect key equivalence -/
theorem lookup_congr (hk : KeyOk hash eqv) (t : Tbl K V) (hinv : Inv hash eqv t) (k q : K) (he : eqv k q = true) :
    lookupL eqv t.toList k = lookupL eqv t.toList q := by
  apply option_ext
  intro w
  rw [lookup_iff hk t hinv k w, lookup_iff hk t hinv q w]
  constructor
  · rintro ⟨j, k', hj, h⟩; exact ⟨j, k', hj, hk.trans k' k q h he⟩
  · rintro ⟨j, k', hj, h⟩; exact ⟨j, k', hj, hk.trans k' q k h (hk.symm k q he)⟩

theorem unionLoop_spec (hk : KeyOk hash eqv) (dflt : V) : ∀ (es : List (K × V)) (acc : Tbl K V),
    Inv hash eqv acc → ∃ t', unionLoop hash eqv dflt acc es = .ok t' ∧ Inv hash eqv t' ∧
      ∀ q, (lookupL eqv t'.toList q).isSome =
        ((lookupL eqv acc.toList q).isSome || es.any (fun p => eqv p.1 q)) := by
  intro es
  induction es with
  | nil => intro acc h; exact ⟨acc, rfl, h, by simp⟩
  | cons p rest ih =>
    intro acc h
    obtain ⟨k, v⟩ := p
    obtain ⟨a1, h1, hinv1, hl1⟩ := setWithMaxLoad_spec hk acc h k dflt 3 4 (Or.inl ⟨rfl, rfl⟩)
    obtain ⟨t', h2, hinv2, hl2⟩ := ih a1 hinv1
    refine ⟨t', by simp only [unionLoop, h1]; exact h2, hinv2, ?_⟩
    intro q
    rw [hl2 q, hl1 q]
    simp only [List.any_cons]
    cases eqv k q <;> simp

/-- `HashSetOfValueUnion`: membership is the disjunction -/
theorem union_spec (hk : KeyOk hash eqv) (dflt : V) (x y : Tbl K V) (hx : Inv hash eqv x) (hy : Inv hash eqv y) :
    ∃ t', union hash eqv dflt x y = .ok t' ∧ Inv hash eqv t' ∧
      ∀ q, (lookupL eqv t'.toList q).isSome =
        ((lookupL eqv x.toList q).isSome || (lookupL eqv y.toList q).isSome) := by
  simp only [union]
  by_cases hc : x.elements > y.elements
  · simp only [hc, if_true]
    obtain ⟨acc, h1, hinv1, hl1⟩ := copy_spec hk (Tbl.new (y.elements + x.elements)) x (inv_new _) hx
    obtain ⟨t', h2, hinv2, hl2⟩ := unionLoop_spec hk dflt y.toList acc hinv1
    refine ⟨t', by rw [h1]; exact h2, hinv2, ?_⟩
    intro q
    rw [hl2 q, hl1 q, ← lookupL_isSome_any]
    have : lookupL eqv (Tbl.new (y.elements + x.elements) : Tbl K V).toList q = none := by
      simp [Tbl.toList, Tbl.new, entries_replicate_empty, lookupL]
    rw [this]
    cases lookupL eqv x.toList q <;> simp
  · simp only [hc, if_false]
    obtain ⟨acc, h1, hinv1, hl1⟩ := copy_spec hk (Tbl.new (x.elements + y.elements)) y (inv_new _) hy
    obtain ⟨t', h2, hinv2, hl2⟩ := unionLoop_spec hk dflt x.toList acc hinv1
    refine ⟨t', by rw [h1]; exact h2, hinv2, ?_⟩
    intro q
    rw [hl2 q, hl1 q, ← lookupL_isSome_any]
    have : lookupL eqv (Tbl.new (x.elements + y.elements) : Tbl K V).toList q = none := by
      simp [Tbl.toList, Tbl.new, entries_replicate_empty, lookupL]
    rw [this]
    cases lookupL eqv y.toList q <;> cases lookupL eqv x.toList q <;> simp

theorem interLoop_spec (hk : KeyOk hash eqv) (dflt : V) (longer : Tbl K V) (hlong : Inv hash eqv longer) :
    ∀ (es : List (K × V)) (acc : Tbl K V), Inv hash eqv acc →
      ∃ t', interLoop hash eqv dflt longer acc es = .ok t' ∧ Inv hash eqv t' ∧
        ∀ q, (lookupL eqv t'.toList q).isSome =
          ((lookupL eqv acc.toList q).isSome ||
            (es.any (fun p => eqv p.1 q) && (lookupL eqv longer.toList q).isSome)) := by
  intro es
  induction es with
  | nil => intro acc h; exact ⟨acc, rfl, h, by simp⟩
  | cons p rest ih =>
    intro acc h
    obtain ⟨k, v⟩ := p
    have hck := containsKey_spec hk longer hlong k
    cases hb : (lookupL eqv longer.toList k).isSome with
    | false =>
      rw [hb] at hck
      obtain ⟨t', h2, hinv2, hl2⟩ := ih acc h
      refine ⟨t', by simp only [interLoop, hck]; exact h2, hinv2, ?_⟩
      intro q
      rw [hl2 q]
      simp only [List.any_cons]
      cases hq : eqv k q with
      | false => simp
      | true =>
        have := lookup_congr hk longer hlong k q hq
        rw [← this, hb]; simp
    | true =>
      rw [hb] at hck
      obtain ⟨a1, h1, hinv1, hl1⟩ := setWithMaxLoad_spec hk acc h k dflt 3 4 (Or.inl ⟨rfl, rfl⟩)
      obtain ⟨t', h2, hinv2, hl2⟩ := ih a1 hinv1
      refine ⟨t', by simp only [interLoop, hck, h1]; exact h2, hinv2, ?_⟩
      intro q
      rw [hl2 q, hl1 q]
      simp only [List.any_cons]
      cases hq : eqv k q with
      | false => simp
      | true =>
        have := lookup_congr hk longer hlong k q hq
        rw [← this, hb]; simp

/-- `HashSetOfValueIntersection`: membership is the conjunction -/
theorem inter_spec (hk : KeyOk hash eqv) (dflt : V) (x y : Tbl K V) (hx : Inv hash eqv x) (hy : Inv hash eqv y) :
    ∃ t', inter hash eqv dflt x y = .ok t' ∧ Inv hash eqv t' ∧
      ∀ q, (lookupL eqv t'.toList q).isSome =
        ((lookupL eqv x.toList q).isSome && (lookupL eqv y.toList q).isSome) := by
  simp only [inter]
  have hnone : ∀ q, lookupL eqv (Tbl.new 5 : Tbl K V).toList q = none := by
    intro q
    have : (Tbl.new 5 : Tbl K V).toList = [] := entries_replicate_empty 5
    rw [this]; rfl
  by_cases hc : x.elements > y.elements
  · simp only [hc, if_true]
    obtain ⟨t', h2, hinv2, hl2⟩ := interLoop_spec hk dflt x hx y.toList (Tbl.new 5) (inv_new 5)
    refine ⟨t', h2, hinv2, ?_⟩
    intro q
    rw [hl2 q, hnone q, ← lookupL_isSome_any]
    cases lookupL eqv x.toList q <;> cases lookupL eqv y.toList q <;> simp
  · simp only [hc, if_false]
    obtain ⟨t', h2, hinv2, hl2⟩ := interLoop_spec hk dflt y hy x.toList (Tbl.new 5) (inv_new 5)
    refine ⟨t', h2, hinv2, ?_⟩
    intro q
    rw [hl2 q, hnone q, ← lookupL_isSome_any]
    cases lookupL eqv x.toList q <;> cases lookupL eqv y.toList q <;> simp

end Elk.HashMap

namespace Elk.HashMap
variable {K V : Type} {hash : K → Nat} {eqv : K → K → Bool}

/-! ### equality -/

theorem equalLoop_spec (hk : KeyOk hash eqv) (veq : V → V → Bool) (y : Tbl K V) (hy : Inv hash eqv y) :
    ∀ (es : List (K × V)), equalLoop hash eqv veq y es =
      .ok (es.all fun p => match lookupL eqv y.toList p.1 with
        | some w => veq p.2 w
        | none => false) := by
  intro es
  induction es with
  | nil => rfl
  | cons p rest ih =>
    obtain ⟨k, v⟩ := p
    simp only [equalLoop, get_spec hk y hy k, List.all_cons]
    cases lookupL eqv y.toList k with
    | none => simp
    | some w =>
      simp only
      cases veq v w with
      | false => simp
      | true => simp [ih]

theorem keysIn_spec (hk : KeyOk hash eqv) (y : Tbl K V) (hy : Inv hash eqv y) :
    ∀ (es : List (K × V)), keysIn hash eqv y es =
      .ok (es.all fun p => (lookupL eqv y.toList p.1).isSome) := by
  intro es
  induction es with
  | nil => rfl
  | cons p rest ih =>
    obtain ⟨k, v⟩ := p
    simp only [keysIn, containsKey_spec hk y hy k, List.all_cons]
    cases (lookupL eqv y.toList k).isSome with
    | false => simp
    | true => simp [ih]

/-- counting: an injection (up to `eqv`) between key-distinct lists of the same length is onto -/
theorem distinct_inj_onto (hk : KeyOk hash eqv) : ∀ (es fs : List (K × V)), Distinct eqv es → Distinct eqv fs →
    (∀ p ∈ es, ∃ r ∈ fs, eqv p.1 r.1 = true) →
    es.length ≤ fs.length ∧ (es.length = fs.length → ∀ r ∈ fs, ∃ p ∈ es, eqv p.1 r.1 = true) := by
  intro es
  induction es with
  | nil =>
    intro fs _ _ _
    refine ⟨by simp, ?_⟩
    intro h r hr
    have : fs = [] := List.length_eq_zero_iff.mp (by simpa using h.symm)
    subst this; cases hr
  | cons p es ih =>
    intro fs hd hf hinj
    obtain ⟨r, hr, hpr⟩ := hinj p (by simp)
    obtain ⟨a, b, hsplit⟩ := List.append_of_mem hr
    subst hsplit
    have hf' : Distinct eqv (a ++ b) := by
      simp only [Distinct] at hf ⊢
      exact hf.sublist (List.Sublist.append (List.Sublist.refl a) (List.sublist_cons_self r b))
    have hinj' : ∀ p' ∈ es, ∃ r' ∈ a ++ b, eqv p'.1 r'.1 = true := by
      intro p' hp'
      obtain ⟨r', hr', hpr'⟩ := hinj p' (by simp [hp'])
      have hne : r' ∈ a ++ b := by
        rcases List.mem_append.mp hr' with h | h
        · exact List.mem_append.mpr (Or.inl h)
        · rcases List.mem_cons.mp h with h | h
          · exfalso
            subst h
            have h1 := (List.pairwise_cons.mp hd).1 p' hp'
            have h2 := hk.trans p.1 r'.1 p'.1 hpr (hk.symm p'.1 r'.1 hpr')
            rw [h1] at h2; cases h2
          · exact List.mem_append.mpr (Or.inr h)
      exact ⟨r', hne, hpr'⟩
    obtain ⟨hle, honto⟩ := ih (a ++ b) (List.pairwise_cons.mp hd).2 hf' hinj'
    simp only [List.length_cons, List.length_append] at hle ⊢
    refine ⟨by omega, ?_⟩
    intro hlen r' hr'
    rcases List.mem_append.mp hr' with h | h
    · obtain ⟨p', hp', he⟩ := honto (by simp only [List.length_append]; omega) r' (List.mem_append.mpr (Or.inl h))
      exact ⟨p', by simp [hp'], he⟩
    · rcases List.mem_cons.mp h with h | h
      · subst h; exact ⟨p, by simp, hpr⟩
      · obtain ⟨p', hp', he⟩ := honto (by simp only [List.length_append]; omega) r' (List.mem_append.mpr (Or.inr h))
        exact ⟨p', by simp [hp'], he⟩

/-- two tables denote the same finite map (values compared with `veq`) -/
def SameMap (eqv : K → K → Bool) (veq : V → V → Bool) (x y : Tbl K V) : Prop :=
  ∀ q, match lookupL eqv x.toList q, lookupL eqv y.toList q with
    | some v, some w => veq v w = true
    | none, none => True
    | _, _ => False

/-- **`==` decides equality of the denoted maps** -/
theorem equal_spec (hk : KeyOk hash eqv) (veq : V → V → Bool) (x y : Tbl K V)
    (hx : Inv hash eqv x) (hy : Inv hash eqv y) :
    ∃ b, equal hash eqv veq x y = .ok b ∧ (b = true ↔ SameMap eqv veq x y) := by
  have hlx := length_spec (hash := hash) x hx
  have hly := length_spec (hash := hash) y hy
  simp only [equal]
  by_cases hne : x.elements ≠ y.elements
  · rw [if_pos hne]
    refine ⟨false, rfl, ?_⟩
    constructor
    · intro h; cases h
    · intro hsame
      exfalso
      -- the same map has the same number of keys
      have hinj : ∀ (a b : Tbl K V), Inv hash eqv a → Inv hash eqv b → SameMap eqv veq a b →
          ∀ p ∈ a.toList, ∃ r ∈ b.toList, eqv p.1 r.1 = true := by
        intro a b ha hb hs p hp
        obtain ⟨k, v⟩ := p
        obtain ⟨j, hj⟩ := (mem_entries a.slots k v).mp hp
        have h1 := (lookup_iff hk a ha k v).mpr ⟨j, k, hj, hk.refl k⟩
        have := hs k
        rw [h1] at this
        cases h2 : lookupL eqv b.toList k with
        | none => rw [h2] at this; exact this.elim
        | some w =>
          obtain ⟨k2, hm, he⟩ := lookupL_some_mem eqv _ k w h2
          exact ⟨(k2, w), hm, hk.symm k2 k he⟩
      have hsym : SameMap eqv veq y x → True := fun _ => trivial
      have h1 := (distinct_inj_onto hk x.toList y.toList hlx.2 hly.2 (hinj x y hx hy hsame)).1
      have hsame' : ∀ p ∈ y.toList, ∃ r ∈ x.toList, eqv p.1 r.1 = true := by
        intro p hp
        obtain ⟨k, v⟩ := p
        obtain ⟨j, hj⟩ := (mem_entries y.slots k v).mp hp
        have h1 := (lookup_iff hk y hy k v).mpr ⟨j, k, hj, hk.refl k⟩
        have := hsame k
        rw [h1] at this
        cases h2 : lookupL eqv x.toList k with
        | none => rw [h2] at this; exact this.elim
        | some w =>
          obtain ⟨k2, hm, he⟩ := lookupL_some_mem eqv _ k w h2
          exact ⟨(k2, w), hm, hk.symm k2 k he⟩
      have h2 := (distinct_inj_onto hk y.toList x.toList hly.2 hlx.2 hsame').1
      exact hne (by rw [hlx.1, hly.1]; omega)
  · rw [if_neg hne]
    have heq : x.elements = y.elements := by
      cases Nat.decEq x.elements y.elements with
      | isTrue h => exact h
      | isFalse h => exact absurd h hne
    rw [equalLoop_spec hk veq y hy]
    refine ⟨_, rfl, ?_⟩
    rw [List.all_eq_true]
    constructor
    · intro hall q
      -- every pair of x is matched in y; sizes agree, so y has no other keys
      have hinj : ∀ p ∈ x.toList, ∃ r ∈ y.toList, eqv p.1 r.1 = true := by
        intro p hp
        have := hall p hp
        cases h2 : lookupL eqv y.toList p.1 with
        | none => rw [h2] at this; cases this
        | some w =>
          obtain ⟨k2, hm, he⟩ := lookupL_some_mem eqv _ p.1 w h2
          exact ⟨(k2, w), hm, hk.symm k2 p.1 he⟩
      have honto := (distinct_inj_onto hk x.toList y.toList hlx.2 hly.2 hinj).2
        (by rw [← hlx.1, ← hly.1]; exact heq)
      cases hxq : lookupL eqv x.toList q with
      | some v =>
        obtain ⟨k, hm, he⟩ := lookupL_some_mem eqv _ q v hxq
        have := hall (k, v) hm
        simp only at this
        rw [lookup_congr hk y hy k q he] at this
        cases hyq : lookupL eqv y.toList q with
        | none => rw [hyq] at this; cases this
        | some w => rw [hyq] at this; simpa using this
      | none =>
        cases hyq : lookupL eqv y.toList q with
        | none => trivial
        | some w =>
          exfalso
          obtain ⟨k2, hm, he⟩ := lookupL_some_mem eqv _ q w hyq
          obtain ⟨p, hp, hpe⟩ := honto (k2, w) hm
          obtain ⟨k1, v1⟩ := p
          obtain ⟨j, hj⟩ := (mem_entries x.slots k1 v1).mp hp
          have := (lookup_iff hk x hx q v1).mpr ⟨j, k1, hj, hk.trans k1 k2 q hpe he⟩
          rw [hxq] at this; cases this
    · intro hsame p hp
      obtain ⟨k, v⟩ := p
      obtain ⟨j, hj⟩ := (mem_entries x.slots k v).mp hp
      have h1 := (lookup_iff hk x hx k v).mpr ⟨j, k, hj, hk.refl k⟩
      have := hsame k
      rw [h1] at this
      simp only
      cases h2 : lookupL eqv y.toList k with
      | none => rw [h2] at this; exact this.elim
      | some w => rw [h2] at this; simpa using this

end Elk.HashMap
