import ElkVerif.Proofs.HashMapLoops
/-! C17: union/intersection, equality, and histories over several tables -/
namespace Elk.HashMap
variable {K V : Type} {hash : K → Nat} {eqv : K → K → Bool}

theorem lookupL_isSome_any (l : List (K × V)) (q : K) :
    (lookupL eqv l q).isSome = l.any (fun p => eqv p.1 q) := by
  induction l with
  | nil => rfl
  | cons p rest ih =>
    obtain ⟨k, v⟩ := p
    simp only [lookupL, List.any_cons]
    cases eqv k q <;> simp [ih]

/-- lookups respect key equivalence -/
theorem lookup_congr (hk : KeyOk hash eqv) (t : Tbl K V) (hinv : Inv hash eqv t) (k q : K) (he : eqv k q = true) :
    lookupL eqv t.toList k = lookupL eqv t.toList q := by
  apply option_ext
  intro w
  rw [lookup_iff hk t hinv k w, lookup_iff hk t hinv q w]
  constructor
  · rintro ⟨j, k', hj, h⟩; exact ⟨j, k', hj, hk.trans k' k q h he⟩
  · rintro ⟨j, k', hj, h⟩; exact ⟨j, k', hj, hk.trans k' q k h (hk.symm k q he)⟩

theorem unionLoop_spec (hk : KeyOk hash eqv) (dflt : V) : ∀ (es : List (K × V)) (acc : Tbl K V),
    Inv hash eqv acc → ∃ t', unionLoop hash eqv dflt acc es = .ok t' ∧ Inv hash eqv t' ∧
      ∀ q, (lookupL eqv t'.toList q).isSome =
        ((lookupL eqv acc.toList q).isSome || es.any (fun p => eqv p.1 q)) := by
  intro es
  induction es with
  | nil => intro acc h; exact ⟨acc, rfl, h, by simp⟩
  | cons p rest ih =>
    intro acc h
    obtain ⟨k, v⟩ := p
    obtain ⟨a1, h1, hinv1, hl1⟩ := setWithMaxLoad_spec hk acc h k dflt 3 4 (Or.inl ⟨rfl, rfl⟩)
    obtain ⟨t', h2, hinv2, hl2⟩ := ih a1 hinv1
    refine ⟨t', by simp only [unionLoop, h1]; exact h2, hinv2, ?_⟩
    intro q
    rw [hl2 q, hl1 q]
    simp only [List.any_cons]
    cases eqv k q <;> simp

/-- `HashSetOfValueUnion`: membership is the disjunction -/
theorem union_spec (hk : KeyOk hash eqv) (dflt : V) (x y : Tbl K V) (hx : Inv hash eqv x) (hy : Inv hash eqv y) :
    ∃ t', union hash eqv dflt x y = .ok t' ∧ Inv hash eqv t' ∧
      ∀ q, (lookupL eqv t'.toList q).isSome =
        ((lookupL eqv x.toList q).isSome || (lookupL eqv y.toList q).isSome) := by
  simp only [union]
  by_cases hc : x.elements > y.elements
  · simp only [hc, if_true]
    obtain ⟨acc, h1, hinv1, hl1⟩ := copy_spec hk (Tbl.new (y.elements + x.elements)) x (inv_new _) hx
    obtain ⟨t', h2, hinv2, hl2⟩ := unionLoop_spec hk dflt y.toList acc hinv1
    refine ⟨t', by rw [h1]; exact h2, hinv2, ?_⟩
    intro q
    rw [hl2 q, hl1 q, ← lookupL_isSome_any]
    have : lookupL eqv (Tbl.new (y.elements + x.elements) : Tbl K V).toList q = none := by
      simp [Tbl.toList, Tbl.new, entries_replicate_empty, lookupL]
    rw [this]
    cases lookupL eqv x.toList q <;> simp
  · simp only [hc, if_false]
    obtain ⟨acc, h1, hinv1, hl1⟩ := copy_spec hk (Tbl.new (x.elements + y.elements)) y (inv_new _) hy
    obtain ⟨t', h2, hinv2, hl2⟩ := unionLoop_spec hk dflt x.toList acc hinv1
    refine ⟨t', by rw [h1]; exact h2, hinv2, ?_⟩
    intro q
    rw [hl2 q, hl1 q, ← lookupL_isSome_any]
    have : lookupL eqv (Tbl.new (x.elements + y.elements) : Tbl K V).toList q = none := by
      simp [Tbl.toList, Tbl.new, entries_replicate_empty, lookupL]
    rw [this]
    cases lookupL eqv y.toList q <;> cases lookupL eqv x.toList q <;> simp

theorem interLoop_spec (hk : KeyOk hash eqv) (dflt : V) (longer : Tbl K V) (hlong : Inv hash eqv longer) :
    ∀ (es : List (K × V)) (acc : Tbl K V), Inv hash eqv acc →
      ∃ t', interLoop hash eqv dflt longer acc es = .ok t' ∧ Inv hash eqv t' ∧
        ∀ q, (lookupL eqv t'.toList q).isSome =
          ((lookupL eqv acc.toList q).isSome ||
            (es.any (fun p => eqv p.1 q) && (lookupL eqv longer.toList q).isSome)) := by
  intro es
  induction es with
  | nil => intro acc h; exact ⟨acc, rfl, h, by simp⟩
  | cons p rest ih =>
    intro acc h
    obtain ⟨k, v⟩ := p
    have hck := containsKey_spec hk longer hlong k
    cases hb : (lookupL eqv longer.toList k).isSome with
    | false =>
      rw [hb] at hck
      obtain ⟨t', h2, hinv2, hl2⟩ := ih acc h
      refine ⟨t', by simp only [interLoop, hck]; exact h2, hinv2, ?_⟩
      intro q
      rw [hl2 q]
      simp only [List.any_cons]
      cases hq : eqv k q with
      | false => simp
      | true =>
        have := lookup_congr hk longer hlong k q hq
        rw [← this, hb]; simp
    | true =>
      rw [hb] at hck
      obtain ⟨a1, h1, hinv1, hl1⟩ := setWithMaxLoad_spec hk acc h k dflt 3 4 (Or.inl ⟨rfl, rfl⟩)
      obtain ⟨t', h2, hinv2, hl2⟩ := ih a1 hinv1
      refine ⟨t', by simp only [interLoop, hck, h1]; exact h2, hinv2, ?_⟩
      intro q
      rw [hl2 q, hl1 q]
      simp only [List.any_cons]
      cases hq : eqv k q with
      | false => simp
      | true =>
        have := lookup_congr hk longer hlong k q hq
        rw [← this, hb]; simp

/-- `HashSetOfValueIntersection`: membership is the conjunction -/
theorem inter_spec (hk : KeyOk hash eqv) (dflt : V) (x y : Tbl K V) (hx : Inv hash eqv x) (hy : Inv hash eqv y) :
    ∃ t', inter hash eqv dflt x y = .ok t' ∧ Inv hash eqv t' ∧
      ∀ q, (lookupL eqv t'.toList q).isSome =
        ((lookupL eqv x.toList q).isSome && (lookupL eqv y.toList q).isSome) := by
  simp only [inter]
  have hnone : ∀ q, lookupL eqv (Tbl.new 5 : Tbl K V).toList q = none := by
    intro q
    have : (Tbl.new 5 : Tbl K V).toList = [] := entries_replicate_empty 5
    rw [this]; rfl
  by_cases hc : x.elements > y.elements
  · simp only [hc, if_true]
    obtain ⟨t', h2, hinv2, hl2⟩ := interLoop_spec hk dflt x hx y.toList (Tbl.new 5) (inv_new 5)
    refine ⟨t', h2, hinv2, ?_⟩
    intro q
    rw [hl2 q, hnone q, ← lookupL_isSome_any]
    cases lookupL eqv x.toList q <;> cases lookupL eqv y.toList q <;> simp
  · simp only [hc, if_false]
    obtain ⟨t', h2, hinv2, hl2⟩ := interLoop_spec hk dflt y hy x.toList (Tbl.new 5) (inv_new 5)
    refine ⟨t', h2, hinv2, ?_⟩
    intro q
    rw [hl2 q, hnone q, ← lookupL_isSome_any]
    cases lookupL eqv x.toList q <;> cases lookupL eqv y.toList q <;> simp

end Elk.HashMap

namespace Elk.HashMap
variable {K V : Type} {hash : K → Nat} {eqv : K → K → Bool}

/-! ### equality -/

theorem equalLoop_spec (hk : KeyOk hash eqv) (veq : V → V → Bool) (y : Tbl K V) (hy : Inv hash eqv y) :
    ∀ (es : List (K × V)), equalLoop hash eqv veq y es =
      .ok (es.all fun p => match lookupL eqv y.toList p.1 with
        | some w => veq p.2 w
        | none => false) := by
  intro es
  induction es with
  | nil => rfl
  | cons p rest ih =>
    obtain ⟨k, v⟩ := p
    simp only [equalLoop, get_spec hk y hy k, List.all_cons]
    cases lookupL eqv y.toList k with
    | none => simp
    | some w =>
      simp only
      cases veq v w with
      | false => simp
      | true => simp [ih]

theorem keysIn_spec (hk : KeyOk hash eqv) (y : Tbl K V) (hy : Inv hash eqv y) :
    ∀ (es : List (K × V)), keysIn hash eqv y es =
      .ok (es.all fun p => (lookupL eqv y.toList p.1).isSome) := by
  intro es
  induction es with
  | nil => rfl
  | cons p rest ih =>
    obtain ⟨k, v⟩ := p
    simp only [keysIn, containsKey_spec hk y hy k, List.all_cons]
    cases (lookupL eqv y.toList k).isSome with
    | false => simp
    | true => simp [ih]

/-- counting: an injection (up to `eqv`) between key-distinct lists of the same length is onto -/
theorem distinct_inj_onto (hk : KeyOk hash eqv) : ∀ (es fs : List (K × V)), Distinct eqv es → Distinct eqv fs →
    (∀ p ∈ es, ∃ r ∈ fs, eqv p.1 r.1 = true) →
    es.length ≤ fs.length ∧ (es.length = fs.length → ∀ r ∈ fs, ∃ p ∈ es, eqv p.1 r.1 = true) := by
  intro es
  induction es with
  | nil =>
    intro fs _ _ _
    refine ⟨by simp, ?_⟩
    intro h r hr
    have : fs = [] := List.length_eq_zero_iff.mp (by simpa using h.symm)
    subst this; cases hr
  | cons p es ih =>
    intro fs hd hf hinj
    obtain ⟨r, hr, hpr⟩ := hinj p (by simp)
    obtain ⟨a, b, hsplit⟩ := List.append_of_mem hr
    subst hsplit
    have hf' : Distinct eqv (a ++ b) := by
      simp only [Distinct] at hf ⊢
      exact hf.sublist (List.Sublist.append (List.Sublist.refl a) (List.sublist_cons_self r b))
    have hinj' : ∀ p' ∈ es, ∃ r' ∈ a ++ b, eqv p'.1 r'.1 = true := by
      intro p' hp'
      obtain ⟨r', hr', hpr'⟩ := hinj p' (by simp [hp'])
      have hne : r' ∈ a ++ b := by
        rcases List.mem_append.mp hr' with h | h
        · exact List.mem_append.mpr (Or.inl h)
        · rcases List.mem_cons.mp h with h | h
          · exfalso
            subst h
            have h1 := (List.pairwise_cons.mp hd).1 p' hp'
            have h2 := hk.trans p.1 r'.1 p'.1 hpr (hk.symm p'.1 r'.1 hpr')
            rw [h1] at h2; cases h2
          · exact List.mem_append.mpr (Or.inr h)
      exact ⟨r', hne, hpr'⟩
    obtain ⟨hle, honto⟩ := ih (a ++ b) (List.pairwise_cons.mp hd).2 hf' hinj'
    simp only [List.length_cons, List.length_append] at hle ⊢
    refine ⟨by omega, ?_⟩
    intro hlen r' hr'
    rcases List.mem_append.mp hr' with h | h
    · obtain ⟨p', hp', he⟩ := honto (by simp only [List.length_append]; omega) r' (List.mem_append.mpr (Or.inl h))
      exact ⟨p', by simp [hp'], he⟩
    · rcases List.mem_cons.mp h with h | h
      · subst h; exact ⟨p, by simp, hpr⟩
      · obtain ⟨p', hp', he⟩ := honto (by simp only [List.length_append]; omega) r' (List.mem_append.mpr (Or.inr h))
        exact ⟨p', by simp [hp'], he⟩

/-- two tables denote the same finite map (values compared with `veq`) -/
def SameMap (eqv : K → K → Bool) (veq : V → V → Bool) (x y : Tbl K V) : Prop :=
  ∀ q, match lookupL eqv x.toList q, lookupL eqv y.toList q with
    | some v, some w => veq v w = true
    | none, none => True
    | _, _ => False

/-- **`==` decides equality of the denoted maps** -/
theorem equal_spec (hk : KeyOk hash eqv) (veq : V → V → Bool) (x y : Tbl K V)
    (hx : Inv hash eqv x) (hy : Inv hash eqv y) :
    ∃ b, equal hash eqv veq x y = .ok b ∧ (b = true ↔ SameMap eqv veq x y) := by
  have hlx := length_spec (hash := hash) x hx
  have hly := length_spec (hash := hash) y hy
  simp only [equal]
  by_cases hne : x.elements ≠ y.elements
  · rw [if_pos hne]
    refine ⟨false, rfl, ?_⟩
    constructor
    · intro h; cases h
    · intro hsame
      exfalso
      -- the same map has the same number of keys
      have hinj : ∀ (a b : Tbl K V), Inv hash eqv a → Inv hash eqv b → SameMap eqv veq a b →
          ∀ p ∈ a.toList, ∃ r ∈ b.toList, eqv p.1 r.1 = true := by
        intro a b ha hb hs p hp
        obtain ⟨k, v⟩ := p
        obtain ⟨j, hj⟩ := (mem_entries a.slots k v).mp hp
        have h1 := (lookup_iff hk a ha k v).mpr ⟨j, k, hj, hk.refl k⟩
        have := hs k
        rw [h1] at this
        cases h2 : lookupL eqv b.toList k with
        | none => rw [h2] at this; exact this.elim
        | some w =>
          obtain ⟨k2, hm, he⟩ := lookupL_some_mem eqv _ k w h2
          exact ⟨(k2, w), hm, hk.symm k2 k he⟩
      have hsym : SameMap eqv veq y x → True := fun _ => trivial
      have h1 := (distinct_inj_onto hk x.toList y.toList hlx.2 hly.2 (hinj x y hx hy hsame)).1
      have hsame' : ∀ p ∈ y.toList, ∃ r ∈ x.toList, eqv p.1 r.1 = true := by
        intro p hp
        obtain ⟨k, v⟩ := p
        obtain ⟨j, hj⟩ := (mem_entries y.slots k v).mp hp
        have h1 := (lookup_iff hk y hy k v).mpr ⟨j, k, hj, hk.refl k⟩
        have := hsame k
        rw [h1] at this
        cases h2 : lookupL eqv x.toList k with
        | none => rw [h2] at this; exact this.elim
        | some w =>
          obtain ⟨k2, hm, he⟩ := lookupL_some_mem eqv _ k w h2
          exact ⟨(k2, w), hm, hk.symm k2 k he⟩
      have h2 := (distinct_inj_onto hk y.toList x.toList hly.2 hlx.2 hsame').1
      exact hne (by rw [hlx.1, hly.1]; omega)
  · rw [if_neg hne]
    have heq : x.elements = y.elements := by
      cases Nat.decEq x.elements y.elements with
      | isTrue h => exact h
      | isFalse h => exact absurd h hne
    rw [equalLoop_spec hk veq y hy]
    refine ⟨_, rfl, ?_⟩
    rw [List.all_eq_true]
    constructor
    · intro hall q
      -- every pair of x is matched in y; sizes agree, so y has no other keys
      have hinj : ∀ p ∈ x.toList, ∃ r ∈ y.toList, eqv p.1 r.1 = true := by
        intro p hp
        have := hall p hp
        cases h2 : lookupL eqv y.toList p.1 with
        | none => rw [h2] at this; cases this
        | some w =>
          obtain ⟨k2, hm, he⟩ := lookupL_some_mem eqv _ p.1 w h2
          exact ⟨(k2, w), hm, hk.symm k2 p.1 he⟩
      have honto := (distinct_inj_onto hk x.toList y.toList hlx.2 hly.2 hinj).2
        (by rw [← hlx.1, ← hly.1]; exact heq)
      cases hxq : lookupL eqv x.toList q with
      | some v =>
        obtain ⟨k, hm, he⟩ := lookupL_some_mem eqv _ q v hxq
        have := hall (k, v) hm
        simp only at this
        rw [lookup_congr hk y hy k q he] at this
        cases hyq : lookupL eqv y.toList q with
        | none => rw [hyq] at this; cases this
        | some w => rw [hyq] at this; simpa using this
      | none =>
        cases hyq : lookupL eqv y.toList q with
        | none => trivial
        | some w =>
          exfalso
          obtain ⟨k2, hm, he⟩ := lookupL_some_mem eqv _ q w hyq
          obtain ⟨p, hp, hpe⟩ := honto (k2, w) hm
          obtain ⟨k1, v1⟩ := p
          obtain ⟨j, hj⟩ := (mem_entries x.slots k1 v1).mp hp
          have := (lookup_iff hk x hx q v1).mpr ⟨j, k1, hj, hk.trans k1 k2 q hpe he⟩
          rw [hxq] at this; cases this
    · intro hsame p hp
      obtain ⟨k, v⟩ := p
      obtain ⟨j, hj⟩ := (mem_entries x.slots k v).mp hp
      have h1 := (lookup_iff hk x hx k v).mpr ⟨j, k, hj, hk.refl k⟩
      have := hsame k
      rw [h1] at this
      simp only
      cases h2 : lookupL eqv y.toList k with
      | none => rw [h2] at this; exact this.elim
      | some w => rw [h2] at this; simpa using this

end Elk.HashMap

namespace Elk.HashMap
variable {K V : Type} {hash : K → Nat} {eqv : K → K → Bool}

/-! ### histories -/

/-- pointwise relation between the live tables and a list of abstract values -/
def RelG {α : Type} (P : Tbl K V → α → Prop) (objs : List (Tbl K V)) (A : List α) : Prop :=
  objs.length = A.length ∧ ∀ (i : Nat) (t : Tbl K V) (a : α), objs[i]? = some t → A[i]? = some a → P t a

theorem RelG.nil {α} (P : Tbl K V → α → Prop) : RelG P [] [] := ⟨rfl, by simp⟩

theorem RelG.get {α} {P : Tbl K V → α → Prop} {objs A} (h : RelG P objs A) {i : Nat} {t : Tbl K V}
    (ht : objs[i]? = some t) : ∃ a, A[i]? = some a ∧ P t a := by
  have hlt : i < A.length := by rw [← h.1]; exact lt_of_getElem?' ht
  exact ⟨A[i], List.getElem?_eq_getElem hlt, h.2 i t A[i] ht (List.getElem?_eq_getElem hlt)⟩

theorem RelG.none {α} {P : Tbl K V → α → Prop} {objs A} (h : RelG P objs A) {i : Nat}
    (ht : objs[i]? = none) : A[i]? = none := by
  have : objs.length ≤ i := by simpa using ht
  simp; rw [← h.1]; exact this

theorem RelG.append {α} {P : Tbl K V → α → Prop} {objs A} (h : RelG P objs A) {t : Tbl K V} {a : α}
    (hp : P t a) : RelG P (objs ++ [t]) (A ++ [a]) := by
  refine ⟨by simp [h.1], ?_⟩
  intro i t' a' ht ha
  by_cases hi : i < objs.length
  · rw [List.getElem?_append_left hi] at ht
    rw [List.getElem?_append_left (by rw [← h.1]; exact hi)] at ha
    exact h.2 i t' a' ht ha
  · have : i = objs.length := by have := lt_of_getElem?' ht; simp at this; omega
    subst this
    simp at ht
    rw [h.1] at ha; simp at ha
    subst ht; subst ha; exact hp

theorem RelG.set {α} {P : Tbl K V → α → Prop} {objs A} (h : RelG P objs A) (m : Nat) {t : Tbl K V} {a : α}
    (hp : P t a) : RelG P (objs.set m t) (A.set m a) := by
  refine ⟨by simp [h.1], ?_⟩
  intro i t' a' ht ha
  rw [List.getElem?_set] at ht ha
  by_cases hm : m = i
  · subst hm
    by_cases hlt : m < objs.length
    · have hlt' : m < A.length := by rw [← h.1]; exact hlt
      simp [hlt] at ht; simp [hlt'] at ha
      subst ht; subst ha; exact hp
    · simp [hlt] at ht
  · simp [hm] at ht ha
    exact h.2 i t' a' ht ha

theorem list_set_self {α} (l : List α) (o : Nat) (x : α) (h : l[o]? = some x) : l.set o x = l := by
  apply List.ext_getElem?
  intro i
  rw [List.getElem?_set]
  by_cases hi : o = i
  · subst hi
    have hlt := lt_of_getElem?' h
    simp only [hlt, if_true]
    exact h.symm
  · simp [hi]

/-- the next state of the history machine (a panicking or ill-formed operation changes nothing) -/
def nextSt (hash : K → Nat) (eqv : K → K → Bool) (dflt : V) (objs : List (Tbl K V)) (op : Op K V) : List (Tbl K V) :=
  match mstep hash eqv dflt objs op with
  | some (.ok objs') => objs'
  | _ => objs

theorem mrun_eq_foldl (dflt : V) (ops : List (Op K V)) (objs : List (Tbl K V)) :
    mrun hash eqv dflt objs ops = ops.foldl (nextSt hash eqv dflt) objs := by
  induction ops generalizing objs with
  | nil => rfl
  | cons op ops ih =>
    simp only [mrun, List.foldl_cons, nextSt]
    cases h : mstep hash eqv dflt objs op with
    | none => exact ih objs
    | some r => cases r <;> exact ih _

/-- abstract machine on finite maps (functions `K → Option V`); `union`/`inter` are set operations and
are left to the membership machine below -/
def astepM (eqv : K → K → Bool) (A : List (K → Option V)) : Op K V → List (K → Option V)
  | .new _ => A ++ [(fun _ => none : K → Option V)]
  | .set m k v => match A[m]? with
    | some f => A.set m (fun q => if eqv k q then some v else f q)
    | none => A
  | .del m k => match A[m]? with
    | some f => A.set m (fun q => if eqv k q then none else f q)
    | none => A
  | .setcap _ _ => A
  | .grow _ _ => A
  | .clone m => match A[m]? with
    | some f => A ++ [f]
    | none => A
  | .clonecap m _ => match A[m]? with
    | some f => A ++ [f]
    | none => A
  | .cat a b => match A[a]?, A[b]? with
    | some f, some g => A ++ [fun q => match g q with | some w => some w | none => f q]
    | _, _ => A
  | .copy t s => match A[t]?, A[s]? with
    | some f, some g => A.set t (fun q => match g q with | some w => some w | none => f q)
    | _, _ => A
  | .union _ _ => A
  | .inter _ _ => A

def Op.isMapOp : Op K V → Bool
  | .union _ _ | .inter _ _ => false
  | _ => true

/-- abstract machine on finite sets (membership predicates): every operation -/
def astepS (eqv : K → K → Bool) (A : List (K → Bool)) : Op K V → List (K → Bool)
  | .new _ => A ++ [(fun _ => false : K → Bool)]
  | .set m k _ => match A[m]? with
    | some f => A.set m (fun q => eqv k q || f q)
    | none => A
  | .del m k => match A[m]? with
    | some f => A.set m (fun q => !eqv k q && f q)
    | none => A
  | .setcap _ _ => A
  | .grow _ _ => A
  | .clone m => match A[m]? with
    | some f => A ++ [f]
    | none => A
  | .clonecap m _ => match A[m]? with
    | some f => A ++ [f]
    | none => A
  | .cat a b => match A[a]?, A[b]? with
    | some f, some g => A ++ [fun q => f q || g q]
    | _, _ => A
  | .copy t s => match A[t]?, A[s]? with
    | some f, some g => A.set t (fun q => f q || g q)
    | _, _ => A
  | .union a b => match A[a]?, A[b]? with
    | some f, some g => A ++ [fun q => f q || g q]
    | _, _ => A
  | .inter a b => match A[a]?, A[b]? with
    | some f, some g => A ++ [fun q => f q && g q]
    | _, _ => A

/-- table `t` denotes the finite map `f` -/
def DenM (hash : K → Nat) (eqv : K → K → Bool) (t : Tbl K V) (f : K → Option V) : Prop :=
  Inv hash eqv t ∧ ∀ q, lookupL eqv t.toList q = f q

/-- table `t` denotes the finite set `f` -/
def DenS (hash : K → Nat) (eqv : K → K → Bool) (t : Tbl K V) (f : K → Bool) : Prop :=
  Inv hash eqv t ∧ ∀ q, (lookupL eqv t.toList q).isSome = f q

theorem lookup_new (c : Nat) (q : K) : lookupL eqv (Tbl.new c : Tbl K V).toList q = none := by
  have : (Tbl.new c : Tbl K V).toList = [] := entries_replicate_empty c
  rw [this]; rfl

theorem no_empty_of_count (slots : List (Slot K V)) (h : countEmpty slots = 0) (x : Nat) :
    slots[x]? ≠ some .empty := by
  induction slots generalizing x with
  | nil => simp
  | cons s rest ih =>
    cases x with
    | zero => cases s <;> simp [countEmpty] at h ⊢
    | succ x =>
      have : countEmpty rest = 0 := by cases s <;> simp [countEmpty] at h ⊢ <;> omega
      simpa using ih this x

/-- a successful `reinsert` had room for every entry -/
theorem reinsert_ok_room (hk : KeyOk hash eqv) : ∀ (slots : List (Slot K V)) (acc r : Tbl K V),
    Inv hash eqv acc → countTomb acc.slots = 0 → Distinct eqv (entries slots) →
    (∀ k v, (k, v) ∈ entries slots → lookupL eqv acc.toList k = none) →
    reinsert hash eqv acc slots = .ok r → countLive acc.slots + (entries slots).length ≤ acc.cap := by
  intro slots
  induction slots with
  | nil =>
    intro acc r hinv _ _ _ _
    have := count_total acc.slots
    simp only [entries, List.length_nil, Tbl.cap]; omega
  | cons s rest ih =>
    intro acc r hinv hnt hd hab hok
    cases s with
    | empty => simp only [reinsert, entries] at *; exact ih acc r hinv hnt hd hab hok
    | tomb => simp only [reinsert, entries] at *; exact ih acc r hinv hnt hd hab hok
    | live k v =>
      simp only [entries, List.length_cons] at hd hab ⊢
      have habk := hab k v (by simp)
      have htot := count_total acc.slots
      by_cases hroom : countLive acc.slots < acc.cap
      · obtain ⟨i, hidx, hs⟩ := index_store hk acc hinv k (Or.inl hroom)
        obtain ⟨hinv1, hcap1, hlook1, hcl1, hct1⟩ := stored_spec hk acc hinv k v i hs
        have hempty : acc.slots[i]? = some .empty := by
          cases hs with
          | update k' v' h he =>
            have := (lookup_iff hk acc hinv k v').mpr ⟨i, k', h, he⟩
            rw [habk] at this; cases this
          | fresh hf _ _ _ _ _ =>
            rcases hf with h | h
            · exact h
            · exact absurd h (no_tomb_of_count acc.slots hnt i)
        have hst : stored acc i k v = ⟨acc.slots.set i (.live k v), acc.elements + 1, acc.occupied + 1⟩ := by
          simp only [stored, hempty]
        simp only [reinsert, hidx] at hok
        rw [← hst] at hok
        have := ih (stored acc i k v) r hinv1 (by omega) (List.pairwise_cons.mp hd).2 (by
          intro k2 v2 hm
          rw [hlook1 k2]
          have := (List.pairwise_cons.mp hd).1 (k2, v2) hm
          simp only at this
          rw [this]
          simp only [Bool.false_eq_true, if_false]
          exact hab k2 v2 (by simp [hm])) hok
        rw [hcap1, hcl1, habk] at this
        simp at this; omega
      · exfalso
        have hab' := (lookup_none_iff hk acc hinv k).mp habk
        simp only [reinsert] at hok
        by_cases hc0 : acc.cap = 0
        · simp [index, hc0] at hok
        · obtain ⟨ri, hri, hspec⟩ := index_absent (hash := hash) acc k (by omega) hab'
          rw [hri] at hok
          cases ri with
          | none => cases hok
          | some x =>
            obtain ⟨_, _, _, _, hx⟩ := hspec
            have hce : countEmpty acc.slots = 0 := by simp only [Tbl.cap] at hroom; omega
            rcases hx with hx | hx
            · exact no_empty_of_count acc.slots hce x hx
            · exact no_tomb_of_count acc.slots hnt x hx

/-- whenever `SetCapacity` returns, the invariant and the denotation are kept -/
theorem setCapacity_ok (hk : KeyOk hash eqv) (t t' : Tbl K V) (hinv : Inv hash eqv t) (c : Nat)
    (hok : setCapacity hash eqv t c = .ok t') :
    Inv hash eqv t' ∧ ∀ q, lookupL eqv t'.toList q = lookupL eqv t.toList q := by
  have hroom : countLive t.slots ≤ c := by
    simp only [setCapacity] at hok
    split at hok
    · rename_i hc
      have := count_total t.slots; simp only [Tbl.cap] at hc; omega
    · have := reinsert_ok_room hk t.slots (Tbl.new c) t' (inv_new c) (count_replicate_empty c).2
        (entries_distinct t.slots hinv.nodup) (fun k v _ => lookup_new c k) hok
      have h0 : countLive (Tbl.new c : Tbl K V).slots = 0 := (count_replicate_empty c).1
      have hc : (Tbl.new c : Tbl K V).cap = c := by simp [Tbl.new, Tbl.cap]
      rw [h0, hc, entries_length] at this; omega
  obtain ⟨t'', h1, hinv', _, hl', _, _⟩ := setCapacity_spec hk t hinv c hroom
  rw [hok] at h1; injection h1 with h1; subst h1
  exact ⟨hinv', hl'⟩

/-- **one step refines the finite-map machine** -/
theorem next_refinesM (hk : KeyOk hash eqv) (dflt : V) (objs : List (Tbl K V)) (A : List (K → Option V))
    (h : RelG (DenM hash eqv) objs A) (op : Op K V) (hop : op.isMapOp = true) :
    RelG (DenM hash eqv) (nextSt hash eqv dflt objs op) (astepM eqv A op) := by
  cases op with
  | new c => exact h.append ⟨inv_new c, fun q => lookup_new c q⟩
  | set m k v =>
    simp only [nextSt, mstep, astepM]
    cases ht : objs[m]? with
    | none => simp only [h.none ht]; exact h
    | some t =>
      obtain ⟨f, hf, hinv, hl⟩ := h.get ht
      obtain ⟨t', h1, hinv', hl'⟩ := set_spec hk t hinv k v
      simp only [hf, h1]
      exact h.set m ⟨hinv', fun q => by rw [hl' q, hl q]⟩
  | del m k =>
    simp only [nextSt, mstep, astepM]
    cases ht : objs[m]? with
    | none => simp only [h.none ht]; exact h
    | some t =>
      obtain ⟨f, hf, hinv, hl⟩ := h.get ht
      obtain ⟨t', b, h1, hinv', _, _, hl'⟩ := delete_spec hk t hinv k
      simp only [hf, h1]
      exact h.set m ⟨hinv', fun q => by rw [hl' q, hl q]⟩
  | setcap m c =>
    simp only [nextSt, mstep, astepM]
    cases ht : objs[m]? with
    | none => exact h
    | some t =>
      obtain ⟨f, hf, hinv, hl⟩ := h.get ht
      simp only
      cases hr : setCapacity hash eqv t c with
      | panic => exact h
      | ok t' =>
        obtain ⟨hinv', hl'⟩ := setCapacity_ok hk t t' hinv c hr
        have := h.set m (a := f) ⟨hinv', fun q => by rw [hl' q, hl q]⟩
        rwa [list_set_self A m f hf] at this
  | grow m n =>
    simp only [nextSt, mstep, astepM]
    cases ht : objs[m]? with
    | none => exact h
    | some t =>
      obtain ⟨f, hf, hinv, hl⟩ := h.get ht
      simp only
      cases hr : setCapacity hash eqv t (t.cap + n) with
      | panic => exact h
      | ok t' =>
        obtain ⟨hinv', hl'⟩ := setCapacity_ok hk t t' hinv _ hr
        have := h.set m (a := f) ⟨hinv', fun q => by rw [hl' q, hl q]⟩
        rwa [list_set_self A m f hf] at this
  | clone m =>
    simp only [nextSt, mstep, astepM]
    cases ht : objs[m]? with
    | none => simp only [h.none ht]; exact h
    | some t =>
      obtain ⟨f, hf, hden⟩ := h.get ht
      simp only [hf]
      exact h.append hden
  | clonecap m c =>
    simp only [nextSt, mstep, astepM]
    cases ht : objs[m]? with
    | none => simp only [h.none ht]; exact h
    | some t =>
      obtain ⟨f, hf, hinv, hl⟩ := h.get ht
      obtain ⟨t', h1, hinv', hl'⟩ := copy_spec hk (Tbl.new c) t (inv_new c) hinv
      simp only [hf, cloneCap, h1]
      refine h.append ⟨hinv', fun q => ?_⟩
      rw [hl' q, lookup_new c q, hl q]
      cases f q <;> rfl
  | cat a b =>
    simp only [nextSt, mstep, astepM]
    cases hta : objs[a]? with
    | none => simp only [h.none hta]; exact h
    | some x =>
      obtain ⟨f, hf, hinvx, hlx⟩ := h.get hta
      cases htb : objs[b]? with
      | none => simp only [hf, h.none htb]; exact h
      | some y =>
        obtain ⟨g, hg, hinvy, hly⟩ := h.get htb
        obtain ⟨t', h1, hinv', hl'⟩ := copy_spec hk x y hinvx hinvy
        simp only [hf, hg, concat, h1]
        exact h.append ⟨hinv', fun q => by simp only [hl' q, hly q, hlx q]; cases g q <;> rfl⟩
  | copy a b =>
    simp only [nextSt, mstep, astepM]
    cases hta : objs[a]? with
    | none => simp only [h.none hta]; exact h
    | some x =>
      obtain ⟨f, hf, hinvx, hlx⟩ := h.get hta
      cases htb : objs[b]? with
      | none => simp only [hf, h.none htb]; exact h
      | some y =>
        obtain ⟨g, hg, hinvy, hly⟩ := h.get htb
        obtain ⟨t', h1, hinv', hl'⟩ := copy_spec hk x y hinvx hinvy
        simp only [hf, hg, h1]
        exact h.set a ⟨hinv', fun q => by simp only [hl' q, hly q, hlx q]; cases g q <;> rfl⟩
  | union a b => simp [Op.isMapOp] at hop
  | inter a b => simp [Op.isMapOp] at hop

end Elk.HashMap

namespace Elk.HashMap
variable {K V : Type} {hash : K → Nat} {eqv : K → K → Bool}

/-- **one step refines the finite-set machine** (every operation, union and intersection included) -/
theorem next_refinesS (hk : KeyOk hash eqv) (dflt : V) (objs : List (Tbl K V)) (A : List (K → Bool))
    (h : RelG (DenS hash eqv) objs A) (op : Op K V) :
    RelG (DenS hash eqv) (nextSt hash eqv dflt objs op) (astepS eqv A op) := by
  cases op with
  | new c => exact h.append ⟨inv_new c, fun q => by rw [lookup_new c q]; rfl⟩
  | set m k v =>
    simp only [nextSt, mstep, astepS]
    cases ht : objs[m]? with
    | none => simp only [h.none ht]; exact h
    | some t =>
      obtain ⟨f, hf, hinv, hl⟩ := h.get ht
      obtain ⟨t', h1, hinv', hl'⟩ := set_spec hk t hinv k v
      simp only [hf, h1]
      refine h.set m ⟨hinv', fun q => ?_⟩
      rw [hl' q]; show _ = (eqv k q || f q); rw [← hl q]; cases eqv k q <;> simp
  | del m k =>
    simp only [nextSt, mstep, astepS]
    cases ht : objs[m]? with
    | none => simp only [h.none ht]; exact h
    | some t =>
      obtain ⟨f, hf, hinv, hl⟩ := h.get ht
      obtain ⟨t', b, h1, hinv', _, _, hl'⟩ := delete_spec hk t hinv k
      simp only [hf, h1]
      refine h.set m ⟨hinv', fun q => ?_⟩
      rw [hl' q]; show _ = (!eqv k q && f q); rw [← hl q]; cases eqv k q <;> simp
  | setcap m c =>
    simp only [nextSt, mstep, astepS]
    cases ht : objs[m]? with
    | none => exact h
    | some t =>
      obtain ⟨f, hf, hinv, hl⟩ := h.get ht
      simp only
      cases hr : setCapacity hash eqv t c with
      | panic => exact h
      | ok t' =>
        obtain ⟨hinv', hl'⟩ := setCapacity_ok hk t t' hinv c hr
        have := h.set m (a := f) ⟨hinv', fun q => by rw [hl' q, hl q]⟩
        rwa [list_set_self A m f hf] at this
  | grow m n =>
    simp only [nextSt, mstep, astepS]
    cases ht : objs[m]? with
    | none => exact h
    | some t =>
      obtain ⟨f, hf, hinv, hl⟩ := h.get ht
      simp only
      cases hr : setCapacity hash eqv t (t.cap + n) with
      | panic => exact h
      | ok t' =>
        obtain ⟨hinv', hl'⟩ := setCapacity_ok hk t t' hinv _ hr
        have := h.set m (a := f) ⟨hinv', fun q => by rw [hl' q, hl q]⟩
        rwa [list_set_self A m f hf] at this
  | clone m =>
    simp only [nextSt, mstep, astepS]
    cases ht : objs[m]? with
    | none => simp only [h.none ht]; exact h
    | some t =>
      obtain ⟨f, hf, hden⟩ := h.get ht
      simp only [hf]
      exact h.append hden
  | clonecap m c =>
    simp only [nextSt, mstep, astepS]
    cases ht : objs[m]? with
    | none => simp only [h.none ht]; exact h
    | some t =>
      obtain ⟨f, hf, hinv, hl⟩ := h.get ht
      obtain ⟨t', h1, hinv', hl'⟩ := copy_spec hk (Tbl.new c) t (inv_new c) hinv
      simp only [hf, cloneCap, h1]
      refine h.append ⟨hinv', fun q => ?_⟩
      rw [hl' q, lookup_new c q, ← hl q]
      cases lookupL eqv t.toList q <;> rfl
  | cat a b =>
    simp only [nextSt, mstep, astepS]
    cases hta : objs[a]? with
    | none => simp only [h.none hta]; exact h
    | some x =>
      obtain ⟨f, hf, hinvx, hlx⟩ := h.get hta
      cases htb : objs[b]? with
      | none => simp only [hf, h.none htb]; exact h
      | some y =>
        obtain ⟨g, hg, hinvy, hly⟩ := h.get htb
        obtain ⟨t', h1, hinv', hl'⟩ := copy_spec hk x y hinvx hinvy
        simp only [hf, hg, concat, h1]
        refine h.append ⟨hinv', fun q => ?_⟩
        rw [hl' q]; show _ = (f q || g q); rw [← hly q, ← hlx q]
        cases lookupL eqv y.toList q <;> cases lookupL eqv x.toList q <;> rfl
  | copy a b =>
    simp only [nextSt, mstep, astepS]
    cases hta : objs[a]? with
    | none => simp only [h.none hta]; exact h
    | some x =>
      obtain ⟨f, hf, hinvx, hlx⟩ := h.get hta
      cases htb : objs[b]? with
      | none => simp only [hf, h.none htb]; exact h
      | some y =>
        obtain ⟨g, hg, hinvy, hly⟩ := h.get htb
        obtain ⟨t', h1, hinv', hl'⟩ := copy_spec hk x y hinvx hinvy
        simp only [hf, hg, h1]
        refine h.set a ⟨hinv', fun q => ?_⟩
        rw [hl' q]; show _ = (f q || g q); rw [← hly q, ← hlx q]
        cases lookupL eqv y.toList q <;> cases lookupL eqv x.toList q <;> rfl
  | union a b =>
    simp only [nextSt, mstep, astepS]
    cases hta : objs[a]? with
    | none => simp only [h.none hta]; exact h
    | some x =>
      obtain ⟨f, hf, hinvx, hlx⟩ := h.get hta
      cases htb : objs[b]? with
      | none => simp only [hf, h.none htb]; exact h
      | some y =>
        obtain ⟨g, hg, hinvy, hly⟩ := h.get htb
        obtain ⟨t', h1, hinv', hl'⟩ := union_spec hk dflt x y hinvx hinvy
        simp only [hf, hg, h1]
        exact h.append ⟨hinv', fun q => by rw [hl' q, hlx q, hly q]⟩
  | inter a b =>
    simp only [nextSt, mstep, astepS]
    cases hta : objs[a]? with
    | none => simp only [h.none hta]; exact h
    | some x =>
      obtain ⟨f, hf, hinvx, hlx⟩ := h.get hta
      cases htb : objs[b]? with
      | none => simp only [hf, h.none htb]; exact h
      | some y =>
        obtain ⟨g, hg, hinvy, hly⟩ := h.get htb
        obtain ⟨t', h1, hinv', hl'⟩ := inter_spec hk dflt x y hinvx hinvy
        simp only [hf, hg, h1]
        exact h.append ⟨hinv', fun q => by rw [hl' q, hlx q, hly q]⟩

end Elk.HashMap
