import ElkVerif.Proofs.HashMapOps
/-! C17: insertion step, resize, copy, set -/
namespace Elk.HashMap
variable {K V : Type} {hash : K → Nat} {eqv : K → K → Bool}

theorem exists_free_of_count (slots : List (Slot K V)) (h : countLive slots < slots.length) :
    ∃ i, i < slots.length ∧ (slots[i]? = some .empty ∨ slots[i]? = some .tomb) := by
  induction slots with
  | nil => simp at h
  | cons s rest ih =>
    cases s with
    | empty => exact ⟨0, by simp, Or.inl rfl⟩
    | tomb => exact ⟨0, by simp, Or.inr rfl⟩
    | live k v =>
      simp only [countLive, List.length_cons] at h
      obtain ⟨i, hi, hf⟩ := ih (by omega)
      exact ⟨i + 1, by simp; omega, by simpa using hf⟩

/-- with room for one more key (or the key already present) `Index` answers a slot where it can be stored -/
theorem index_store (hk : KeyOk hash eqv) (t : Tbl K V) (hinv : Inv hash eqv t) (key : K)
    (hroom : countLive t.slots < t.cap ∨ (lookupL eqv t.toList key).isSome = true) :
    ∃ i, index hash eqv t key = .ok (some i) ∧ StoreAt hash eqv t key i := by
  cases hl : lookupL eqv t.toList key with
  | some v =>
    obtain ⟨j, k, hj, he⟩ := (lookup_iff hk t hinv key v).mp hl
    exact ⟨j, index_found hk t hinv key k v j hj he, .update k v hj he⟩
  | none =>
    have hab := (lookup_none_iff hk t hinv key).mp hl
    have hlt : countLive t.slots < t.cap := by
      rcases hroom with h | h
      · exact h
      · rw [hl] at h; cases h
    have hc : 0 < t.cap := by omega
    obtain ⟨r, hr, hspec⟩ := index_absent (hash := hash) t key hc hab
    cases r with
    | none =>
      exfalso
      obtain ⟨i, hi, hf⟩ := exists_free_of_count t.slots hlt
      obtain ⟨k, v, hkv⟩ := hspec i hi
      rcases hf with hf | hf <;> (rw [hf] at hkv; cases hkv)
    | some x =>
      obtain ⟨pre, post, hpath, hpre, hx⟩ := hspec
      exact ⟨x, hr, .fresh hx hab pre post hpath hpre⟩

/-- the table after `Table[i] = (key, val)` with the counter updates of `SetWithMaxLoad`/`Copy` -/
def stored (t : Tbl K V) (i : Nat) (key : K) (val : V) : Tbl K V :=
  match t.slots[i]? with
  | some (.live _ _) => ⟨t.slots.set i (.live key val), t.elements, t.occupied⟩
  | some .tomb => ⟨t.slots.set i (.live key val), t.elements + 1, t.occupied⟩
  | some .empty => ⟨t.slots.set i (.live key val), t.elements + 1, t.occupied + 1⟩
  | none => t

theorem stored_spec (hk : KeyOk hash eqv) (t : Tbl K V) (hinv : Inv hash eqv t) (key : K) (val : V) (i : Nat)
    (hs : StoreAt hash eqv t key i) :
    Inv hash eqv (stored t i key val) ∧ (stored t i key val).cap = t.cap ∧
    (∀ q, lookupL eqv (stored t i key val).toList q = if eqv key q then some val else lookupL eqv t.toList q) ∧
    countLive (stored t i key val).slots =
      countLive t.slots + (if (lookupL eqv t.toList key).isSome then 0 else 1) ∧
    countTomb (stored t i key val).slots ≤ countTomb t.slots := by
  have hilt : i < t.slots.length := by
    cases hs with
    | update k' v' h _ => exact lt_of_getElem?' h
    | fresh hf _ _ _ _ _ => rcases hf with h | h <;> exact lt_of_getElem?' h
  have hcl := countLive_set t.slots i (Slot.live key val) hilt
  have hct := countTomb_set t.slots i (Slot.live key val) hilt
  have hgi : t.slots[i]? = some t.slots[i] := List.getElem?_eq_getElem hilt
  have hslots : (stored t i key val).slots = t.slots.set i (.live key val) := by
    simp only [stored, hgi]; cases t.slots[i] <;> rfl
  have hpres : (lookupL eqv t.toList key).isSome = true ↔ ∃ k' v', t.slots[i] = Slot.live k' v' := by
    cases hs with
    | update k' v' h he =>
      rw [hgi] at h
      have hv := (lookup_iff hk t hinv key v').mpr ⟨i, k', by rw [hgi]; exact h, he⟩
      simp [hv, Option.some.inj h]
    | fresh hf hab _ _ _ _ =>
      have := (lookup_none_iff hk t hinv key).mpr hab
      rw [this]
      rw [hgi] at hf
      constructor
      · intro h; cases h
      · rintro ⟨k', v', h⟩; rcases hf with hf | hf <;> (rw [h] at hf; cases hf)
  have hinv' : Inv hash eqv (stored t i key val) := by
    have hI := store_struct hk t hinv key val i hs (stored t i key val).elements (stored t i key val).occupied
    have : stored t i key val = ⟨t.slots.set i (.live key val), (stored t i key val).elements,
        (stored t i key val).occupied⟩ := by
      rw [← hslots]
    rw [this]
    apply hI
    · simp only [stored, hgi]
      cases hsl : t.slots[i] <;> simp only [hsl, isLive] at hcl ⊢ <;> rw [hinv.elems] <;> omega
    · simp only [stored, hgi]
      cases hsl : t.slots[i] <;> simp only [hsl, isLive, isTomb] at hcl hct ⊢ <;> rw [hinv.occ] <;> omega
  refine ⟨hinv', by simp [Tbl.cap, hslots], ?_, ?_, ?_⟩
  · intro q; exact store_lookup hk t hinv key val i hs _ hslots hinv' q
  · rw [hslots]
    by_cases hp : (lookupL eqv t.toList key).isSome = true
    · obtain ⟨k', v', h⟩ := hpres.mp hp
      rw [if_pos hp]; rw [h] at hcl; simp only [isLive] at hcl; omega
    · have : ¬ ∃ k' v', t.slots[i] = Slot.live k' v' := fun h => hp (hpres.mpr h)
      rw [if_neg hp]
      cases hsl : t.slots[i] with
      | live k' v' => exact absurd ⟨k', v', hsl⟩ this
      | empty => rw [hsl] at hcl; simp only [isLive] at hcl; omega
      | tomb => rw [hsl] at hcl; simp only [isLive] at hcl; omega
  · rw [hslots]; simp only [isTomb] at hct; omega


/-! ### loops: Copy and SetCapacity -/

/-- the keys of an entry list are pairwise inequivalent -/
def Distinct (eqv : K → K → Bool) (es : List (K × V)) : Prop :=
  es.Pairwise (fun a b => eqv a.1 b.1 = false)

theorem entries_distinct (slots : List (Slot K V))
    (h : ∀ (i j : Nat) (k1 k2 : K) (v1 v2 : V), slots[i]? = some (.live k1 v1) →
      slots[j]? = some (.live k2 v2) → eqv k1 k2 = true → i = j) : Distinct eqv (entries slots) := by
  induction slots with
  | nil => simp [entries, Distinct]
  | cons s rest ih =>
    have hrest : ∀ (i j : Nat) (k1 k2 : K) (v1 v2 : V), rest[i]? = some (.live k1 v1) →
        rest[j]? = some (.live k2 v2) → eqv k1 k2 = true → i = j := by
      intro i j k1 k2 v1 v2 hi hj he
      have := h (i + 1) (j + 1) k1 k2 v1 v2 (by simpa using hi) (by simpa using hj) he
      omega
    cases s with
    | empty => simpa [entries] using ih hrest
    | tomb => simpa [entries] using ih hrest
    | live k v =>
      simp only [entries, Distinct, List.pairwise_cons]
      refine ⟨?_, ih hrest⟩
      intro p hp
      obtain ⟨k2, v2⟩ := p
      obtain ⟨j, hj⟩ := (mem_entries rest k2 v2).mp hp
      cases he : eqv k k2 with
      | false => rfl
      | true =>
        have := h 0 (j + 1) k k2 v v2 (by simp) (by simpa using hj) he
        omega

theorem lookupL_distinct_head (hk : KeyOk hash eqv) (k : K) (v : V) (rest : List (K × V))
    (hd : Distinct eqv ((k, v) :: rest)) (q : K) (hq : eqv k q = true) : lookupL eqv rest q = none := by
  apply lookupL_none
  intro k2 w hm
  cases he : eqv k2 q with
  | false => rfl
  | true =>
    have h1 := (List.pairwise_cons.mp hd).1 (k2, w) hm
    have h2 := hk.trans k q k2 hq (hk.symm k2 q he)
    simp only at h1; rw [h1] at h2; cases h2

/-- store every entry of `es` (the common body of `Copy`'s and `SetCapacity`'s loops) -/
def insertAll (hash : K → Nat) (eqv : K → K → Bool) (acc : Tbl K V) : List (K × V) → Res (Tbl K V)
  | [] => .ok acc
  | (k, v) :: rest =>
    match index hash eqv acc k with
    | .ok (some i) => insertAll hash eqv (stored acc i k v) rest
    | _ => .panic

theorem copyLoop_eq (acc : Tbl K V) (slots : List (Slot K V)) :
    copyLoop hash eqv acc slots = insertAll hash eqv acc (entries slots) := by
  induction slots generalizing acc with
  | nil => rfl
  | cons s rest ih =>
    cases s with
    | empty => simp only [copyLoop, entries]; exact ih acc
    | tomb => simp only [copyLoop, entries]; exact ih acc
    | live k v =>
      simp only [copyLoop, entries, insertAll]
      cases hidx : index hash eqv acc k with
      | panic => rfl
      | ok r =>
        cases r with
        | none => rfl
        | some i =>
          simp only [stored]
          cases hs : acc.slots[i]? with
          | none =>
            -- not reachable (the index is inside the table); both sides agree anyway only if we show it
            exfalso
            simp only [index] at hidx
            split at hidx
            · cases hidx
            · injection hidx with hidx
              rw [probe_eq_scan] at hidx
              -- a scan only answers indices it has read
              have : ∀ (is : List Nat) (d : Option Nat), (∀ x, d = some x → x < acc.slots.length) →
                  scan eqv acc.slots k is d = some i → i < acc.slots.length := by
                intro is
                induction is with
                | nil => intro d hd h; exact hd i h
                | cons x is ihs =>
                  intro d hd h
                  simp only [scan] at h
                  cases hx : acc.slots[x]? with
                  | none => rw [hx] at h; cases h
                  | some sl =>
                    have hxlt := lt_of_getElem?' hx
                    rw [hx] at h
                    cases sl with
                    | empty =>
                      cases d with
                      | none => simp at h; omega
                      | some d' => simp at h; exact hd i (by rw [h])
                    | tomb =>
                      cases d with
                      | none => exact ihs (some x) (by intro y hy; injection hy with hy; omega) h
                      | some d' => exact ihs (some d') hd h
                    | live k2 v2 =>
                      simp only at h
                      split at h
                      · injection h with h; omega
                      · exact ihs d hd h
              have := this _ none (by intro x hx; cases hx) hidx
              have := List.getElem?_eq_getElem this
              rw [this] at hs; cases hs
          | some sl => cases sl <;> exact ih _

/-- storing a list of entries with pairwise inequivalent keys into a table with enough room -/
theorem insertAll_spec (hk : KeyOk hash eqv) : ∀ (es : List (K × V)) (acc : Tbl K V), Inv hash eqv acc →
    Distinct eqv es → countLive acc.slots + es.length ≤ acc.cap →
    ∃ t', insertAll hash eqv acc es = .ok t' ∧ Inv hash eqv t' ∧ t'.cap = acc.cap ∧
      (∀ q, lookupL eqv t'.toList q = match lookupL eqv es q with
        | some w => some w
        | none => lookupL eqv acc.toList q) ∧
      countLive t'.slots ≤ countLive acc.slots + es.length ∧ countLive acc.slots ≤ countLive t'.slots ∧
      countTomb t'.slots ≤ countTomb acc.slots := by
  intro es
  induction es with
  | nil => intro acc hinv _ _; exact ⟨acc, rfl, hinv, rfl, by simp [lookupL], by simp, by simp, by simp⟩
  | cons p rest ih =>
    intro acc hinv hd hroom
    obtain ⟨k, v⟩ := p
    simp only [List.length_cons] at hroom
    obtain ⟨i, hidx, hs⟩ := index_store hk acc hinv k (Or.inl (by omega))
    obtain ⟨hinv1, hcap1, hlook1, hcl1, hct1⟩ := stored_spec hk acc hinv k v i hs
    have hcl1' : countLive (stored acc i k v).slots ≤ countLive acc.slots + 1 := by
      rw [hcl1]; split <;> omega
    obtain ⟨t', hrun, hinv', hcap', hlook', hcl', hcl'', hct'⟩ :=
      ih (stored acc i k v) hinv1 (List.pairwise_cons.mp hd).2 (by rw [hcap1]; omega)
    refine ⟨t', by simp only [insertAll, hidx]; exact hrun, hinv', by rw [hcap', hcap1], ?_, ?_, ?_, by omega⟩
    · intro q
      rw [hlook' q, hlook1 q]
      simp only [lookupL]
      cases hq : eqv k q with
      | true => simp [lookupL_distinct_head hk k v rest hd q hq]
      | false => simp
    · simp only [List.length_cons]; omega
    · have : countLive acc.slots ≤ countLive (stored acc i k v).slots := by rw [hcl1]; omega
      omega

theorem insertAll_nil_of_entries (acc : Tbl K V) (slots : List (Slot K V)) (h : entries slots = []) :
    copyLoop hash eqv acc slots = .ok acc := by
  rw [copyLoop_eq, h]; rfl


theorem no_tomb_of_count (slots : List (Slot K V)) (h : countTomb slots = 0) (x : Nat) :
    slots[x]? ≠ some .tomb := by
  induction slots generalizing x with
  | nil => simp
  | cons s rest ih =>
    cases x with
    | zero => cases s <;> simp [countTomb] at h ⊢
    | succ x =>
      have : countTomb rest = 0 := by cases s <;> simp [countTomb] at h ⊢ <;> omega
      simpa using ih this x

theorem replicate_empty_get (c i : Nat) (s : Slot K V) (h : (List.replicate c (Slot.empty : Slot K V))[i]? = some s) :
    s = .empty := by
  rw [List.getElem?_replicate] at h
  split at h
  · exact (Option.some.inj h).symm
  · cases h

theorem count_replicate_empty (c : Nat) :
    countLive (List.replicate c (Slot.empty : Slot K V)) = 0 ∧
    countTomb (List.replicate c (Slot.empty : Slot K V)) = 0 := by
  induction c with
  | zero => exact ⟨rfl, rfl⟩
  | succ n ih => simp [List.replicate_succ, countLive, countTomb, ih]

theorem entries_replicate_empty (c : Nat) : entries (List.replicate c (Slot.empty : Slot K V)) = [] := by
  induction c with
  | zero => rfl
  | succ n ih => simp [List.replicate_succ, entries, ih]

/-- a new table satisfies the invariant and denotes the empty map -/
theorem inv_new (c : Nat) : Inv hash eqv (Tbl.new c : Tbl K V) := by
  refine ⟨?_, ?_, ?_, ?_⟩
  · simp [Tbl.new, (count_replicate_empty (K := K) (V := V) c).1]
  · simp [Tbl.new, (count_replicate_empty (K := K) (V := V) c).1, (count_replicate_empty (K := K) (V := V) c).2]
  · intro i j k1 k2 v1 v2 hi
    have := replicate_empty_get c i _ hi; cases this
  · intro j k v hj
    have := replicate_empty_get c j _ hj; cases this

theorem reinsert_eq (hk : KeyOk hash eqv) : ∀ (slots : List (Slot K V)) (acc : Tbl K V), Inv hash eqv acc →
    countTomb acc.slots = 0 → Distinct eqv (entries slots) →
    (∀ k v, (k, v) ∈ entries slots → lookupL eqv acc.toList k = none) →
    countLive acc.slots + (entries slots).length ≤ acc.cap →
    reinsert hash eqv acc slots = insertAll hash eqv acc (entries slots) := by
  intro slots
  induction slots with
  | nil => intro acc _ _ _ _ _; rfl
  | cons s rest ih =>
    intro acc hinv hnt hd hab hroom
    cases s with
    | empty => simp only [reinsert, entries] at *; exact ih acc hinv hnt hd hab hroom
    | tomb => simp only [reinsert, entries] at *; exact ih acc hinv hnt hd hab hroom
    | live k v =>
      simp only [entries, List.length_cons] at hd hab hroom
      simp only [reinsert, entries, insertAll]
      have habk := hab k v (by simp)
      obtain ⟨i, hidx, hs⟩ := index_store hk acc hinv k (Or.inl (by omega))
      rw [hidx]
      simp only
      obtain ⟨hinv1, hcap1, hlook1, hcl1, hct1⟩ := stored_spec hk acc hinv k v i hs
      -- the slot is empty: the key is absent and there are no deleted slots
      have hempty : acc.slots[i]? = some .empty := by
        cases hs with
        | update k' v' h he =>
          have := (lookup_iff hk acc hinv k v').mpr ⟨i, k', h, he⟩
          rw [habk] at this; cases this
        | fresh hf _ _ _ _ _ =>
          rcases hf with h | h
          · exact h
          · exact absurd h (no_tomb_of_count acc.slots hnt i)
      have hst : stored acc i k v = ⟨acc.slots.set i (.live k v), acc.elements + 1, acc.occupied + 1⟩ := by
        simp only [stored, hempty]
      rw [← hst]
      apply ih (stored acc i k v) hinv1 (by omega) (List.pairwise_cons.mp hd).2
      · intro k2 v2 hm
        rw [hlook1 k2]
        have := (List.pairwise_cons.mp hd).1 (k2, v2) hm
        simp only at this
        rw [this]
        simp only [Bool.false_eq_true, if_false]
        exact hab k2 v2 (by simp [hm])
      · rw [hcap1, hcl1, habk]; simp; omega

/-- `SetCapacity(c)` with room for the live pairs keeps the denotation and drops every deleted slot -/
theorem setCapacity_spec (hk : KeyOk hash eqv) (t : Tbl K V) (hinv : Inv hash eqv t) (c : Nat)
    (hroom : countLive t.slots ≤ c) :
    ∃ t', setCapacity hash eqv t c = .ok t' ∧ Inv hash eqv t' ∧ t'.cap = c ∧
      (∀ q, lookupL eqv t'.toList q = lookupL eqv t.toList q) ∧
      countLive t'.slots ≤ countLive t.slots ∧ (t.cap ≠ c → countTomb t'.slots = 0) := by
  simp only [setCapacity]
  by_cases hc : t.cap = c
  · simp only [hc, if_true]
    exact ⟨t, rfl, hinv, hc, fun _ => rfl, Nat.le_refl _, fun h => absurd rfl h⟩
  · simp only [hc, if_false]
    have hnew : Inv hash eqv (Tbl.new c : Tbl K V) := inv_new c
    have hcl0 : countLive (Tbl.new c : Tbl K V).slots = 0 := (count_replicate_empty c).1
    have hct0 : countTomb (Tbl.new c : Tbl K V).slots = 0 := (count_replicate_empty c).2
    have hcap0 : (Tbl.new c : Tbl K V).cap = c := by simp [Tbl.new, Tbl.cap]
    have hlk0 : ∀ q, lookupL eqv (Tbl.new c : Tbl K V).toList q = none := by
      intro q; simp [Tbl.toList, Tbl.new, entries_replicate_empty, lookupL]
    have hd := entries_distinct (eqv := eqv) t.slots hinv.nodup
    have hlen := entries_length t.slots
    rw [reinsert_eq hk t.slots _ hnew hct0 hd (fun k v _ => hlk0 k) (by rw [hcl0, hcap0, hlen]; omega)]
    obtain ⟨t', hrun, hinv', hcap', hlook', hcl', _, hct'⟩ :=
      insertAll_spec hk (entries t.slots) _ hnew hd (by rw [hcl0, hcap0, hlen]; omega)
    refine ⟨t', hrun, hinv', by rw [hcap', hcap0], ?_, by rw [hcl0, hlen] at hcl'; omega, fun _ => by omega⟩
    intro q
    rw [hlook' q, hlk0 q]
    simp only [Tbl.toList]
    cases lookupL eqv (entries t.slots) q <;> rfl


/-! ### Set, Copy -/

theorem countLive_nil_of_cap0 (t : Tbl K V) (h : t.cap = 0) : countLive t.slots = 0 := by
  have : t.slots = [] := List.length_eq_zero_iff.mp h
  rw [this]; rfl

/-- `SetWithMaxLoad` (load factor 3/4 or 1) binds `key ↦ val`, leaves every other key alone, never panics -/
theorem setWithMaxLoad_spec (hk : KeyOk hash eqv) (t : Tbl K V) (hinv : Inv hash eqv t) (key : K) (val : V)
    (num den : Nat) (hload : (num = 3 ∧ den = 4) ∨ (num = 1 ∧ den = 1)) :
    ∃ t', setWithMaxLoad hash eqv t key val num den = .ok t' ∧ Inv hash eqv t' ∧
      (∀ q, lookupL eqv t'.toList q = if eqv key q then some val else lookupL eqv t.toList q) := by
  -- after the load check there is a table `t1` with the same denotation and a free slot
  have hstep : ∃ t1, (if t.cap = 0 then setCapacity hash eqv t 5
        else if t.occupied * den ≥ t.cap * num then setCapacity hash eqv t (t.occupied * 2)
        else .ok t) = .ok t1 ∧ Inv hash eqv t1 ∧ (∀ q, lookupL eqv t1.toList q = lookupL eqv t.toList q) ∧
        countLive t1.slots < t1.cap := by
    have hocc := hinv.occ
    have htot := count_total t.slots
    by_cases hc0 : t.cap = 0
    · simp only [hc0, if_true]
      have h0 := countLive_nil_of_cap0 t hc0
      obtain ⟨t1, h1, h2, h3, h4, h5, _⟩ := setCapacity_spec hk t hinv 5 (by omega)
      exact ⟨t1, h1, h2, h4, by omega⟩
    · simp only [hc0, if_false]
      by_cases hl : t.occupied * den ≥ t.cap * num
      · simp only [hl, if_true]
        obtain ⟨t1, h1, h2, h3, h4, h5, _⟩ := setCapacity_spec hk t hinv (t.occupied * 2) (by omega)
        refine ⟨t1, h1, h2, h4, ?_⟩
        have : 0 < t.occupied := by
          rcases hload with ⟨rfl, rfl⟩ | ⟨rfl, rfl⟩ <;> simp only [Tbl.cap] at * <;> omega
        omega
      · simp only [hl, if_false]
        refine ⟨t, rfl, hinv, fun _ => rfl, ?_⟩
        rcases hload with ⟨rfl, rfl⟩ | ⟨rfl, rfl⟩ <;> simp only [Tbl.cap] at * <;> omega
  obtain ⟨t1, hres, hinv1, hlook1, hroom1⟩ := hstep
  obtain ⟨i, hidx, hs⟩ := index_store hk t1 hinv1 key (Or.inl hroom1)
  obtain ⟨hinv2, _, hlook2, _, _⟩ := stored_spec hk t1 hinv1 key val i hs
  refine ⟨stored t1 i key val, ?_, hinv2, fun q => by rw [hlook2 q, hlook1 q]⟩
  simp only [setWithMaxLoad, hres, hidx]
  have hilt : i < t1.slots.length := by
    cases hs with
    | update k' v' h _ => exact lt_of_getElem?' h
    | fresh hf _ _ _ _ _ => rcases hf with h | h <;> exact lt_of_getElem?' h
  simp only [stored, List.getElem?_eq_getElem hilt]
  cases t1.slots[i] <;> rfl

theorem set_spec (hk : KeyOk hash eqv) (t : Tbl K V) (hinv : Inv hash eqv t) (key : K) (val : V) :
    ∃ t', set hash eqv t key val = .ok t' ∧ Inv hash eqv t' ∧
      (∀ q, lookupL eqv t'.toList q = if eqv key q then some val else lookupL eqv t.toList q) :=
  setWithMaxLoad_spec hk t hinv key val 3 4 (Or.inl ⟨rfl, rfl⟩)

/-- `Copy(target, source)`: right-biased union; never panics -/
theorem copy_spec (hk : KeyOk hash eqv) (target source : Tbl K V) (ht : Inv hash eqv target)
    (hs : Inv hash eqv source) :
    ∃ t', copy hash eqv target source = .ok t' ∧ Inv hash eqv t' ∧
      (∀ q, lookupL eqv t'.toList q = match lookupL eqv source.toList q with
        | some w => some w
        | none => lookupL eqv target.toList q) := by
  have hd := entries_distinct (eqv := eqv) source.slots hs.nodup
  have hlen := entries_length source.slots
  have hstep : ∃ t1, (if target.cap < target.elements + source.elements
        then setCapacity hash eqv target (target.elements + source.elements) else .ok target) = .ok t1 ∧
        Inv hash eqv t1 ∧ (∀ q, lookupL eqv t1.toList q = lookupL eqv target.toList q) ∧
        countLive t1.slots + (entries source.slots).length ≤ t1.cap := by
    have e1 := ht.elems
    have e2 := hs.elems
    by_cases hc : target.cap < target.elements + source.elements
    · simp only [hc, if_true]
      obtain ⟨t1, h1, h2, h3, h4, h5, _⟩ :=
        setCapacity_spec hk target ht (target.elements + source.elements) (by omega)
      exact ⟨t1, h1, h2, h4, by omega⟩
    · simp only [hc, if_false]
      exact ⟨target, rfl, ht, fun _ => rfl, by omega⟩
  obtain ⟨t1, hres, hinv1, hlook1, hroom1⟩ := hstep
  obtain ⟨t', hrun, hinv', _, hlook', _, _, _⟩ := insertAll_spec hk (entries source.slots) t1 hinv1 hd hroom1
  refine ⟨t', ?_, hinv', ?_⟩
  · simp only [copy, hres, copyLoop_eq]; exact hrun
  · intro q; rw [hlook' q, hlook1 q]; rfl

/-- `length` is the number of distinct keys; iteration yields each live entry once -/
theorem length_spec (t : Tbl K V) (hinv : Inv hash eqv t) :
    t.elements = t.toList.length ∧ Distinct eqv t.toList :=
  ⟨by rw [hinv.elems, Tbl.toList, entries_length], entries_distinct t.slots hinv.nodup⟩

end Elk.HashMap
