import ElkVerif.Model.Range
import ElkVerif.Proofs.Iter
/-! Helper lemmas for the range kinds (C23). -/
namespace Elk.Range
open Elk.Iter

theorem contains_iff_bounds (r : Range) (x : Int) : r.contains x = true ↔ r.Bounds x := by
  unfold Range.contains Range.Bounds
  cases r.kind <;> simp <;> omega

theorem mem_intsFrom (lo : Int) (n : Nat) (x : Int) : x ∈ intsFrom lo n ↔ lo ≤ x ∧ x < lo + n := by
  induction n generalizing lo with
  | zero => simp [intsFrom]
  | succ n ih => simp only [intsFrom, List.mem_cons, ih]; omega

theorem length_intsFrom (lo : Int) (n : Nat) : (intsFrom lo n).length = n := by
  induction n generalizing lo with
  | zero => rfl
  | succ n ih => simp [intsFrom, ih]

theorem intsFrom_pairwise (lo : Int) (n : Nat) : (intsFrom lo n).Pairwise (· < ·) := by
  induction n generalizing lo with
  | zero => simp [intsFrom]
  | succ n ih =>
    simp only [intsFrom, List.pairwise_cons]
    refine ⟨fun y hy => ?_, ih _⟩
    have := (mem_intsFrom _ _ _).mp hy
    omega

theorem getElem?_intsFrom (lo : Int) (n i : Nat) (h : i < n) : (intsFrom lo n)[i]? = some (lo + i) := by
  induction n generalizing lo i with
  | zero => omega
  | succ n ih =>
    cases i with
    | zero => simp [intsFrom]
    | succ i =>
      simp only [intsFrom, List.getElem?_cons_succ]
      rw [ih (lo + 1) i (by omega)]; simp; omega

theorem intsFrom_take (lo : Int) (n : Nat) : (intsFrom lo (n + 1)).take n = intsFrom lo n := by
  induction n generalizing lo with
  | zero => simp [intsFrom]
  | succ n ih =>
    show (lo :: intsFrom (lo + 1) (n + 1)).take (n + 1) = lo :: intsFrom (lo + 1) n
    simp [ih]

/-! ### what each iterator yields from a given `CurrentElement` -/

theorem drain_closed (lo hi cur : Int) (fuel : Nat) (h : (hi - cur + 1).toNat < fuel) :
    drain (Range.iterator ⟨.closed, lo, hi⟩) fuel cur = (intsFrom cur (hi - cur + 1).toNat, End.done) := by
  induction fuel generalizing cur with
  | zero => omega
  | succ fuel ih =>
    simp only [drain, Range.iterator, Range.next]
    by_cases hc : cur > hi
    · have : (hi - cur + 1).toNat = 0 := by omega
      simp [hc, this, intsFrom]
    · simp only [hc, if_false]
      have := ih (cur + 1) (by omega)
      simp only [Range.iterator] at this
      rw [this]
      have e : (hi - cur + 1).toNat = (hi - (cur + 1) + 1).toNat + 1 := by omega
      rw [e]; simp [intsFrom]

theorem drain_rightOpen (lo hi cur : Int) (fuel : Nat) (h : (hi - cur).toNat < fuel) :
    drain (Range.iterator ⟨.rightOpen, lo, hi⟩) fuel cur = (intsFrom cur (hi - cur).toNat, End.done) := by
  induction fuel generalizing cur with
  | zero => omega
  | succ fuel ih =>
    simp only [drain, Range.iterator, Range.next]
    by_cases hc : cur ≥ hi
    · have : (hi - cur).toNat = 0 := by omega
      simp [hc, this, intsFrom]
    · simp only [hc, if_false]
      have := ih (cur + 1) (by omega)
      simp only [Range.iterator] at this
      rw [this]
      have e : (hi - cur).toNat = (hi - (cur + 1)).toNat + 1 := by omega
      rw [e]; simp [intsFrom]

theorem drain_open (lo hi cur : Int) (fuel : Nat) (h : (hi - cur - 1).toNat < fuel) :
    drain (Range.iterator ⟨.open, lo, hi⟩) fuel cur = (intsFrom (cur + 1) (hi - cur - 1).toNat, End.done) := by
  induction fuel generalizing cur with
  | zero => omega
  | succ fuel ih =>
    simp only [drain, Range.iterator, Range.next]
    by_cases hc : cur + 1 ≥ hi
    · have : (hi - cur - 1).toNat = 0 := by omega
      simp [hc, this, intsFrom]
    · simp only [hc, if_false]
      have := ih (cur + 1) (by omega)
      simp only [Range.iterator] at this
      rw [this]
      have e : (hi - cur - 1).toNat = (hi - (cur + 1) - 1).toNat + 1 := by omega
      rw [e]; simp [intsFrom]

theorem drain_leftOpen (lo hi cur : Int) (fuel : Nat) (h : (hi - cur).toNat < fuel) :
    drain (Range.iterator ⟨.leftOpen, lo, hi⟩) fuel cur = (intsFrom (cur + 1) (hi - cur).toNat, End.done) := by
  induction fuel generalizing cur with
  | zero => omega
  | succ fuel ih =>
    simp only [drain, Range.iterator, Range.next]
    by_cases hc : cur + 1 > hi
    · have : (hi - cur).toNat = 0 := by omega
      simp [hc, this, intsFrom]
    · simp only [hc, if_false]
      have := ih (cur + 1) (by omega)
      simp only [Range.iterator] at this
      rw [this]
      have e : (hi - cur).toNat = (hi - (cur + 1)).toNat + 1 := by omega
      rw [e]; simp [intsFrom]

theorem drain_endlessClosed (lo hi cur : Int) (fuel : Nat) :
    drain (Range.iterator ⟨.endlessClosed, lo, hi⟩) fuel cur = (intsFrom cur fuel, End.fuel) := by
  induction fuel generalizing cur with
  | zero => simp [drain, intsFrom]
  | succ fuel ih =>
    simp only [drain, Range.iterator, Range.next]
    have := ih (cur + 1)
    simp only [Range.iterator] at this
    rw [this]; simp [intsFrom]

theorem drain_endlessOpen (lo hi cur : Int) (fuel : Nat) :
    drain (Range.iterator ⟨.endlessOpen, lo, hi⟩) fuel cur = (intsFrom (cur + 1) fuel, End.fuel) := by
  induction fuel generalizing cur with
  | zero => simp [drain, intsFrom]
  | succ fuel ih =>
    simp only [drain, Range.iterator, Range.next]
    have := ih (cur + 1)
    simp only [Range.iterator] at this
    rw [this]; simp [intsFrom]

end Elk.Range
