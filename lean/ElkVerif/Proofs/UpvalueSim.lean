import ElkVerif.Proofs.UpvalueInv
namespace Elk.Upvalue

/-- the simulation relation between the index machine and the cell machine;
`ρ` maps an upvalue object to the cell of the variable it stands for -/
structure R (c : C) (a : A) (ρ : Nat → Nat) : Prop where
  len : a.stack.length = c.stack.length
  fp : a.fp = c.fp
  val : ∀ (i : Nat) (v : Val), c.stack[i]? = some v → ∃ r, a.stack[i]? = some r ∧ a.cells[r]? = some v
  inj : a.stack.Nodup
  opn : ∀ (u s : Nat), c.heap[u]? = some (Uv.opn s) → a.stack[s]? = some (ρ u)
  cls : ∀ (u : Nat) (v : Val), c.heap[u]? = some (Uv.closed v) → a.cells[ρ u]? = some v ∧ ρ u ∉ a.stack
  clsInj : ∀ (u u' : Nat) (v v' : Val), u ≠ u' → c.heap[u]? = some (Uv.closed v) →
    c.heap[u']? = some (Uv.closed v') → ρ u ≠ ρ u'
  hs : a.hs = c.hs.map ρ
  ups : a.upvalues = c.upvalues.map ρ
  frames : a.frames = c.frames.map (fun f => ⟨f.fp, f.upvalues.map ρ⟩)
  hsOk : ∀ u ∈ c.hs, u < c.heap.length
  upsOk : ∀ u ∈ c.upvalues, u < c.heap.length
  framesOk : ∀ f ∈ c.frames, ∀ u ∈ f.upvalues, u < c.heap.length
  linv : LInv c.heap c.openL

theorem R.stack_lt {c a ρ} (h : R c a ρ) : ∀ r ∈ a.stack, r < a.cells.length := by
  intro r hr
  obtain ⟨i, hi, rfl⟩ := List.getElem_of_mem hr
  have hi' : i < c.stack.length := h.len ▸ hi
  obtain ⟨r', h1, h2⟩ := h.val i c.stack[i] (List.getElem?_eq_getElem hi')
  rw [List.getElem?_eq_getElem hi] at h1
  cases h1
  exact (List.getElem?_eq_some_iff.mp h2).1

theorem R.cls_lt {c a ρ} (h : R c a ρ) {u v} (hu : c.heap[u]? = some (Uv.closed v)) : ρ u < a.cells.length :=
  (List.getElem?_eq_some_iff.mp (h.cls u v hu).1).1

theorem nodup_idx {α} {l : List α} (hn : l.Nodup) {i j : Nat} {x : α}
    (hi : l[i]? = some x) (hj : l[j]? = some x) : i = j := by
  have hil := (List.getElem?_eq_some_iff.mp hi).1
  exact (List.getElem?_inj hil hn).mp (hi.trans hj.symm)


/-! ### one lemma per operation -/

section ops
variable {c : C} {a : A} {ρ : Nat → Nat}

theorem sim_push (h : R c a ρ) (v : Val) :
    R { c with stack := c.stack ++ [v] }
      { a with cells := a.cells ++ [v], stack := a.stack ++ [a.cells.length] } ρ := by
  have hlt := h.stack_lt
  refine { h with len := ?_, val := ?_, inj := ?_, opn := ?_, cls := ?_ }
  · simp [h.len]
  · intro i w hi
    by_cases hil : i < c.stack.length
    · rw [List.getElem?_append_left hil] at hi
      obtain ⟨r, h1, h2⟩ := h.val i w hi
      refine ⟨r, ?_, ?_⟩
      · rw [List.getElem?_append_left (h.len ▸ hil)]; exact h1
      · rw [List.getElem?_append_left (List.getElem?_eq_some_iff.mp h2).1]; exact h2
    · have hil' : i = c.stack.length := by
        have := (List.getElem?_eq_some_iff.mp hi).1
        simp at this; omega
      subst hil'
      simp at hi; subst hi
      refine ⟨a.cells.length, ?_, by simp⟩
      rw [← h.len]; simp
  · rw [List.nodup_append]
    refine ⟨h.inj, by simp, ?_⟩
    intro x hx y hy
    simp at hy; subst hy
    have := hlt x hx; omega
  · intro u s hu
    have := h.opn u s hu
    rw [List.getElem?_append_left (List.getElem?_eq_some_iff.mp this).1]; exact this
  · intro u w hu
    obtain ⟨h1, h2⟩ := h.cls u w hu
    have hl := (List.getElem?_eq_some_iff.mp h1).1
    refine ⟨by rw [List.getElem?_append_left hl]; exact h1, ?_⟩
    simp only [List.mem_append, List.mem_singleton, not_or]
    exact ⟨h2, by omega⟩

theorem sim_pop (h : R c a ρ) (hs : scopeOk c .pop = true) :
    R { c with stack := c.stack.dropLast } { a with stack := a.stack.dropLast } ρ := by
  refine { h with len := ?_, val := ?_, inj := ?_, opn := ?_, cls := ?_ }
  · simp [h.len]
  · intro i w hi
    rw [List.getElem?_dropLast] at hi
    split at hi
    · rename_i hlt
      obtain ⟨r, h1, h2⟩ := h.val i w hi
      refine ⟨r, ?_, h2⟩
      rw [List.getElem?_dropLast, h.len, if_pos hlt]; exact h1
    · cases hi
  · exact h.inj.sublist (List.dropLast_sublist _)
  · intro u s hu
    have h1 := h.opn u s hu
    have hl := (List.getElem?_eq_some_iff.mp h1).1
    rw [List.getElem?_dropLast]
    have hne : s ≠ c.stack.length - 1 := by
      intro he
      simp only [scopeOk, List.all_eq_true] at hs
      have hm : Uv.opn s ∈ c.heap := List.mem_of_getElem? hu
      have := hs _ hm
      simp [he] at this
    rw [h.len] at hl ⊢
    rw [if_pos (by omega)]; exact h1
  · intro u w hu
    obtain ⟨h1, h2⟩ := h.cls u w hu
    exact ⟨h1, fun hm => h2 ((List.dropLast_sublist _).subset hm)⟩

/-- writing stack slot `s` in the machine and the cell of that slot in the reference -/
theorem sim_write_slot (h : R c a ρ) {s r : Nat} (v : Val) (hs : s < c.stack.length)
    (hr : a.stack[s]? = some r) :
    R { c with stack := c.stack.set s v } { a with cells := a.cells.set r v } ρ := by
  refine { h with len := ?_, val := ?_, cls := ?_ }
  · simp [h.len]
  · intro i w hi
    by_cases he : s = i
    · subst he
      rw [List.getElem?_set_self hs] at hi; cases hi
      refine ⟨r, hr, ?_⟩
      rw [List.getElem?_set_self]
      exact h.stack_lt r (List.mem_of_getElem? hr)
    · rw [List.getElem?_set_ne he] at hi
      obtain ⟨r', h1, h2⟩ := h.val i w hi
      refine ⟨r', h1, ?_⟩
      have : r ≠ r' := by
        intro hrr; subst hrr
        exact he (nodup_idx h.inj hr h1)
      rw [List.getElem?_set_ne this]; exact h2
  · intro u w hu
    obtain ⟨h1, h2⟩ := h.cls u w hu
    refine ⟨?_, h2⟩
    have : r ≠ ρ u := by
      intro hrr; subst hrr
      exact h2 (List.mem_of_getElem? hr)
    rw [List.getElem?_set_ne this]; exact h1

/-- writing through a closed upvalue -/
theorem sim_write_closed (h : R c a ρ) {id : Nat} {w : Val} (v : Val)
    (hc : c.heap[id]? = some (Uv.closed w)) :
    R { c with heap := c.heap.set id (Uv.closed v) } { a with cells := a.cells.set (ρ id) v } ρ := by
  have hidl := (List.getElem?_eq_some_iff.mp hc).1
  have key : ∀ (u : Nat), u ≠ id → (c.heap.set id (Uv.closed v))[u]? = c.heap[u]? := by
    intro u hu; rw [List.getElem?_set_ne (Ne.symm hu)]
  have hself : (c.heap.set id (Uv.closed v))[id]? = some (Uv.closed v) := List.getElem?_set_self hidl
  obtain ⟨hcid1, hcid2⟩ := h.cls id w hc
  have hρl := (List.getElem?_eq_some_iff.mp hcid1).1
  refine { h with val := ?_, opn := ?_, cls := ?_, clsInj := ?_, hsOk := ?_, upsOk := ?_, framesOk := ?_,
                  linv := ?_ }
  · intro i x hi
    obtain ⟨r', h1, h2⟩ := h.val i x hi
    refine ⟨r', h1, ?_⟩
    have : ρ id ≠ r' := by
      intro hrr; rw [← hrr] at h1
      exact hcid2 (List.mem_of_getElem? h1)
    rw [List.getElem?_set_ne this]; exact h2
  · intro u s hu
    by_cases he : u = id
    · subst he; rw [hself] at hu; cases hu
    · rw [key u he] at hu; exact h.opn u s hu
  · intro u x hu
    by_cases he : u = id
    · subst he; rw [hself] at hu; cases hu
      exact ⟨List.getElem?_set_self hρl, hcid2⟩
    · rw [key u he] at hu
      obtain ⟨h1, h2⟩ := h.cls u x hu
      refine ⟨?_, h2⟩
      have := h.clsInj id u w x (Ne.symm he) hc hu
      rw [List.getElem?_set_ne this]; exact h1
  · intro u u' x x' hne hu hu'
    have conv : ∀ (t : Nat) (y : Val), (c.heap.set id (Uv.closed v))[t]? = some (Uv.closed y) →
        ∃ y', c.heap[t]? = some (Uv.closed y') := by
      intro t y ht
      by_cases he : t = id
      · subst he; exact ⟨w, hc⟩
      · rw [key t he] at ht; exact ⟨y, ht⟩
    obtain ⟨y, hy⟩ := conv u x hu
    obtain ⟨y', hy'⟩ := conv u' x' hu'
    exact h.clsInj u u' y y' hne hy hy'
  · intro u hu; simp; exact h.hsOk u hu
  · intro u hu; simp; exact h.upsOk u hu
  · intro f hf u hu; simp; exact h.framesOk f hf u hu
  · exact h.linv.set_closed hc v

theorem sim_uvGet (h : R c a ρ) {id : Nat} {v : Val} (hg : uvGet c id = .ok v) :
    cellGet a (ρ id) = .ok v := by
  unfold uvGet at hg
  unfold cellGet
  split at hg
  · cases hg
  · rename_i w hw
    cases hg
    rw [(h.cls id _ hw).1]
  · rename_i s hs
    split at hg
    · rename_i w hw
      cases hg
      obtain ⟨r, h1, h2⟩ := h.val s _ hw
      rw [h.opn id s hs] at h1; cases h1
      rw [h2]
    · cases hg

theorem sim_uvSet (h : R c a ρ) {id : Nat} {v : Val} {c' : C} (hg : uvSet c id v = .ok c') :
    ∃ a', cellSet a (ρ id) v = .ok a' ∧ R c' a' ρ := by
  unfold uvSet at hg
  unfold cellSet
  split at hg
  · cases hg
  · rename_i w hw
    cases hg
    have := h.cls_lt hw
    rw [if_pos this]
    exact ⟨_, rfl, sim_write_closed h v hw⟩
  · rename_i s hs
    split at hg
    · rename_i hlt
      cases hg
      have hr := h.opn id s hs
      have := h.stack_lt _ (List.mem_of_getElem? hr)
      rw [if_pos this]
      exact ⟨_, rfl, sim_write_slot h v hlt hr⟩
    · cases hg

end ops
theorem lookupAll_map (ρ : Nat → Nat) (hs : List Nat) (ks ids : List Nat)
    (h : lookupAll hs ks = some ids) : lookupAll (hs.map ρ) ks = some (ids.map ρ) := by
  induction ks generalizing ids with
  | nil => simp [lookupAll] at h ⊢; subst h; rfl
  | cons k ks ih =>
    unfold lookupAll at h ⊢
    cases hk : hs[k]? with
    | none => simp [hk] at h
    | some id =>
      cases hr : lookupAll hs ks with
      | none => simp [hk, hr] at h
      | some ids' =>
        simp [hk, hr] at h; subst h
        simp [hk, ih _ hr]

theorem lookupAll_mem (hs : List Nat) (ks ids : List Nat)
    (h : lookupAll hs ks = some ids) : ∀ id ∈ ids, id ∈ hs := by
  induction ks generalizing ids with
  | nil => simp [lookupAll] at h; subst h; simp
  | cons k ks ih =>
    unfold lookupAll at h
    cases hk : hs[k]? with
    | none => simp [hk] at h
    | some id =>
      cases hr : lookupAll hs ks with
      | none => simp [hk, hr] at h
      | some ids' =>
        simp [hk, hr] at h; subst h
        intro x hx
        rcases List.mem_cons.mp hx with rfl | hx'
        · exact List.mem_of_getElem? hk
        · exact ih _ hr x hx'

section ops
variable {c : C} {a : A} {ρ : Nat → Nat}

theorem map_congr_lt (ρ ρ' : Nat → Nat) (n : Nat) (heq : ∀ u, u < n → ρ' u = ρ u) (l : List Nat)
    (hl : ∀ u ∈ l, u < n) : l.map ρ' = l.map ρ :=
  List.map_congr_left (fun u hu => heq u (hl u hu))

theorem sim_capture (h : R c a ρ) {slot r : Nat} {c' : C} {id : Nat}
    (hr : a.stack[slot]? = some r) (hc : capture c slot = .ok (c', id)) :
    ∃ ρ', R { c' with hs := c'.hs ++ [id] } { a with hs := a.hs ++ [r] } ρ' := by
  obtain ⟨c'', id', hc', res⟩ := capture_spec c slot h.linv
  rw [hc] at hc'; injection hc' with hc'; injection hc' with e1 e2; subst e1; subst e2
  cases res with
  | found _ hf =>
    refine ⟨ρ, { h with hs := ?_, hsOk := ?_ }⟩
    · have := h.opn id slot hf
      rw [hr] at this; cases this
      simp [h.hs]
    · intro u hu
      rcases List.mem_append.mp hu with h1 | h1
      · exact h.hsOk u h1
      · simp at h1; subst h1; exact (List.getElem?_eq_some_iff.mp hf).1
  | fresh l' hno hi =>
    let n := c.heap.length
    let ρ' : Nat → Nat := fun u => if u = n then r else ρ u
    have hρ : ∀ u, u < n → ρ' u = ρ u := by
      intro u hu; simp only [ρ']; rw [if_neg (by omega)]
    have hρn : ρ' n = r := by simp [ρ']
    have hold : ∀ u, u < n → (c.heap ++ [Uv.opn slot])[u]? = c.heap[u]? := fun u hu =>
      List.getElem?_append_left hu
    have hnew : (c.heap ++ [Uv.opn slot])[n]? = some (Uv.opn slot) := by simp [n]
    have hnone : ∀ u, n < u → (c.heap ++ [Uv.opn slot])[u]? = none := by
      intro u hu; rw [List.getElem?_eq_none_iff]; simp; omega
    have cases3 : ∀ (u : Nat) (x : Uv), (c.heap ++ [Uv.opn slot])[u]? = some x →
        (u < n ∧ c.heap[u]? = some x) ∨ (u = n ∧ x = Uv.opn slot) := by
      intro u x hu
      rcases Nat.lt_trichotomy u n with hlt | heq | hgt
      · left; exact ⟨hlt, by rw [← hold u hlt]; exact hu⟩
      · right; subst heq; rw [hnew] at hu; cases hu; exact ⟨rfl, rfl⟩
      · rw [hnone u hgt] at hu; cases hu
    refine ⟨ρ', ?_⟩
    refine { len := h.len, fp := h.fp, val := h.val, inj := h.inj, opn := ?_, cls := ?_, clsInj := ?_, hs := ?_,
             ups := ?_, frames := ?_, hsOk := ?_, upsOk := ?_, framesOk := ?_, linv := hi }
    · intro u s hu
      rcases cases3 u _ hu with ⟨hlt, hu'⟩ | ⟨rfl, hx⟩
      · rw [hρ u hlt]; exact h.opn u s hu'
      · cases hx; rw [hρn]; exact hr
    · intro u v hu
      rcases cases3 u _ hu with ⟨hlt, hu'⟩ | ⟨rfl, hx⟩
      · rw [hρ u hlt]; exact h.cls u v hu'
      · cases hx
    · intro u u' v v' hne hu hu'
      rcases cases3 u _ hu with ⟨hlt, hu1⟩ | ⟨rfl, hx⟩
      · rcases cases3 u' _ hu' with ⟨hlt', hu1'⟩ | ⟨rfl, hx'⟩
        · rw [hρ u hlt, hρ u' hlt']; exact h.clsInj u u' v v' hne hu1 hu1'
        · cases hx'
      · cases hx
    · show a.hs ++ [r] = (c.hs ++ [n]).map ρ'
      rw [List.map_append, map_congr_lt ρ ρ' n hρ c.hs h.hsOk, h.hs]; simp [hρn]
    · show a.upvalues = c.upvalues.map ρ'
      rw [map_congr_lt ρ ρ' n hρ c.upvalues h.upsOk, h.ups]
    · show a.frames = c.frames.map (fun f => (⟨f.fp, f.upvalues.map ρ'⟩ : Frame))
      rw [h.frames]
      apply List.map_congr_left
      intro f hf
      rw [map_congr_lt ρ ρ' n hρ f.upvalues (h.framesOk f hf)]
    · intro u hu
      simp only [List.length_append, List.length_singleton]
      rcases List.mem_append.mp hu with h1 | h1
      · have := h.hsOk u h1; omega
      · simp at h1; subst h1; omega
    · intro u hu
      simp only [List.length_append, List.length_singleton]
      have := h.upsOk u hu; omega
    · intro f hf u hu
      simp only [List.length_append, List.length_singleton]
      have := h.framesOk f hf u hu; omega

end ops
theorem readAll_eq (cells : List Val) (rs : List Nat) (vs : List Val) (hlen : rs.length = vs.length)
    (h : ∀ (i r : Nat), rs[i]? = some r → cells[r]? = vs[i]?) : readAll cells rs = some vs := by
  induction rs generalizing vs with
  | nil => cases vs with
    | nil => rfl
    | cons _ _ => simp at hlen
  | cons r rs ih =>
    cases vs with
    | nil => simp at hlen
    | cons v vs =>
      have h0 := h 0 r (by simp)
      simp at h0
      have := ih vs (by simpa using hlen) (fun i r' hi => by simpa using h (i + 1) r' (by simpa using hi))
      simp [readAll, h0, this]

section ops
variable {c : C} {a : A} {ρ : Nat → Nat}

theorem CloseRes.closed_cases {stack frm h l h' l'} (r : CloseRes stack frm h l h' l') (u : Nat) (v : Val)
    (hu : h'[u]? = some (Uv.closed v)) :
    h[u]? = some (Uv.closed v) ∨ ∃ s, h[u]? = some (Uv.opn s) ∧ frm ≤ s ∧ stack[s]? = some v := by
  cases hh : h[u]? with
  | none =>
    have : h'[u]? = none := by
      rw [List.getElem?_eq_none_iff] at hh ⊢; rw [r.len]; exact hh
    rw [this] at hu; cases hu
  | some x =>
    cases x with
    | closed w => rw [r.closed u w hh] at hu; cases hu; exact Or.inl rfl
    | opn s =>
      by_cases hlt : s < frm
      · rw [r.low u s hh hlt] at hu; cases hu
      · obtain ⟨w, h1, h2⟩ := r.high u s hh (by omega)
        rw [h2] at hu; cases hu
        exact Or.inr ⟨s, rfl, by omega, h1⟩

/-- the part of the simulation that `close` and `ret` share: the heap after closing from `frm`
against an abstract stack that keeps `[0, frm)` and continues with fresh cells -/
theorem sim_close_core (h : R c a ρ) {frm : Nat} {h' : List Uv} {l' : List Nat}
    (res : CloseRes c.stack frm c.heap c.openL h' l') (extra : List Val) (fresh : List Nat)
    (hfresh : ∀ r ∈ fresh, a.cells.length ≤ r) :
    (∀ (u s : Nat), h'[u]? = some (Uv.opn s) → (a.stack.take frm ++ fresh)[s]? = some (ρ u)) ∧
    (∀ (u : Nat) (v : Val), h'[u]? = some (Uv.closed v) →
        (a.cells ++ extra)[ρ u]? = some v ∧ ρ u ∉ a.stack.take frm ++ fresh) ∧
    (∀ (u u' : Nat) (v v' : Val), u ≠ u' → h'[u]? = some (Uv.closed v) → h'[u']? = some (Uv.closed v') →
        ρ u ≠ ρ u') := by
  -- facts about a newly closed upvalue
  have newly : ∀ (u s : Nat) (v : Val), c.heap[u]? = some (Uv.opn s) → frm ≤ s → c.stack[s]? = some v →
      a.stack[s]? = some (ρ u) ∧ a.cells[ρ u]? = some v ∧ ρ u ∉ a.stack.take frm := by
    intro u s v hu hge hv
    have h1 := h.opn u s hu
    obtain ⟨r, h2, h3⟩ := h.val s v hv
    rw [h1] at h2; cases h2
    refine ⟨h1, h3, ?_⟩
    intro hm
    obtain ⟨j, hj, hje⟩ := List.getElem_of_mem hm
    have hjl : j < frm := by simp at hj; omega
    have : a.stack[j]? = some (ρ u) := by
      rw [List.getElem_take] at hje
      rw [List.getElem?_eq_some_iff]; exact ⟨_, hje⟩
    have := nodup_idx h.inj this h1
    omega
  refine ⟨?_, ?_, ?_⟩
  · intro u s hu
    obtain ⟨hlt, hu'⟩ := res.lowOnly u s hu
    have h1 := h.opn u s hu'
    have hl := (List.getElem?_eq_some_iff.mp h1).1
    rw [List.getElem?_append_left (by simp; omega), List.getElem?_take, if_pos hlt]; exact h1
  · intro u v hu
    rcases res.closed_cases u v hu with hc | ⟨s, hs, hge, hv⟩
    · obtain ⟨h1, h2⟩ := h.cls u v hc
      have hl := (List.getElem?_eq_some_iff.mp h1).1
      refine ⟨by rw [List.getElem?_append_left hl]; exact h1, ?_⟩
      rw [List.mem_append, not_or]
      refine ⟨fun hm => h2 ((List.take_sublist _ _).subset hm), fun hm => ?_⟩
      have := hfresh _ hm; omega
    · obtain ⟨h1, h2, h3⟩ := newly u s v hs hge hv
      have hl := (List.getElem?_eq_some_iff.mp h2).1
      refine ⟨by rw [List.getElem?_append_left hl]; exact h2, ?_⟩
      rw [List.mem_append, not_or]
      refine ⟨h3, fun hm => ?_⟩
      have := hfresh _ hm; omega
  · intro u u' v v' hne hu hu'
    rcases res.closed_cases u v hu with hc | ⟨s, hs, hge, hv⟩
    · rcases res.closed_cases u' v' hu' with hc' | ⟨s', hs', hge', hv'⟩
      · exact h.clsInj u u' v v' hne hc hc'
      · obtain ⟨h1, _, _⟩ := newly u' s' v' hs' hge' hv'
        intro he
        exact (h.cls u v hc).2 (he ▸ List.mem_of_getElem? h1)
    · obtain ⟨h1, _, _⟩ := newly u s v hs hge hv
      rcases res.closed_cases u' v' hu' with hc' | ⟨s', hs', hge', hv'⟩
      · intro he
        exact (h.cls u' v' hc').2 (he ▸ List.mem_of_getElem? h1)
      · obtain ⟨h1', _, _⟩ := newly u' s' v' hs' hge' hv'
        intro he
        have : s = s' := nodup_idx h.inj h1 (he ▸ h1')
        subst this
        exact hne (h.linv.slot_inj hs hs')

theorem R.readAll_drop (h : R c a ρ) (k : Nat) : readAll a.cells (a.stack.drop k) = some (c.stack.drop k) := by
  apply readAll_eq
  · simp [h.len]
  · intro i r hi
    rw [List.getElem?_drop] at hi ⊢
    have hl := (List.getElem?_eq_some_iff.mp hi).1
    rw [h.len] at hl
    obtain ⟨r', h1, h2⟩ := h.val (k + i) _ (List.getElem?_eq_getElem hl)
    rw [hi] at h1; cases h1
    rw [h2, List.getElem?_eq_getElem hl]

theorem sim_close (h : R c a ρ) {frm : Nat} {h' : List Uv} {l' : List Nat}
    (hc : closeLoop c.stack frm c.heap c.openL = .ok (h', l')) :
    R { c with heap := h', openL := l' }
      { a with cells := a.cells ++ c.stack.drop frm,
               stack := a.stack.take frm ++ List.range' a.cells.length (c.stack.drop frm).length } ρ := by
  have res := closeLoop_spec _ _ _ _ _ _ h.linv hc
  obtain ⟨k1, k2, k3⟩ := sim_close_core h res (c.stack.drop frm)
    (List.range' a.cells.length (c.stack.drop frm).length) (by
      intro r hr; simp [List.mem_range'] at hr; omega)
  refine { len := ?_, fp := h.fp, val := ?_, inj := ?_, opn := k1, cls := k2, clsInj := k3, hs := h.hs,
           ups := h.ups, frames := h.frames, hsOk := ?_, upsOk := ?_, framesOk := ?_, linv := res.inv }
  · simp [h.len]; omega
  · intro i w hi
    show ∃ r, (a.stack.take frm ++ List.range' a.cells.length (c.stack.drop frm).length)[i]? = some r ∧
        (a.cells ++ c.stack.drop frm)[r]? = some w
    have hi : c.stack[i]? = some w := hi
    have hil : i < c.stack.length := (List.getElem?_eq_some_iff.mp hi).1
    by_cases hlt : i < frm
    · obtain ⟨r, h1, h2⟩ := h.val i w hi
      refine ⟨r, ?_, ?_⟩
      · rw [List.getElem?_append_left (by simp [h.len]; omega), List.getElem?_take, if_pos hlt]; exact h1
      · rw [List.getElem?_append_left (List.getElem?_eq_some_iff.mp h2).1]; exact h2
    · refine ⟨a.cells.length + (i - frm), ?_, ?_⟩
      · rw [List.getElem?_append_right (by simp [h.len]; omega)]
        have e1 : i - (a.stack.take frm).length = i - frm := by simp [h.len]; omega
        rw [e1, List.getElem?_range' (by simp; omega)]; simp
      · rw [List.getElem?_append_right (by omega)]
        have e2 : a.cells.length + (i - frm) - a.cells.length = i - frm := by omega
        rw [e2, List.getElem?_drop, ← hi]; congr 1; omega
  · show (a.stack.take frm ++ List.range' a.cells.length (c.stack.drop frm).length).Nodup
    rw [List.nodup_append]
    refine ⟨h.inj.sublist (List.take_sublist _ _), List.nodup_range', ?_⟩
    intro x hx y hy
    have := h.stack_lt x ((List.take_sublist _ _).subset hx)
    simp [List.mem_range'] at hy
    omega
  · intro u hu; show u < h'.length; rw [res.len]; exact h.hsOk u hu
  · intro u hu; show u < h'.length; rw [res.len]; exact h.upsOk u hu
  · intro f hf u hu; show u < h'.length; rw [res.len]; exact h.framesOk f hf u hu

end ops
section ops
variable {c : C} {a : A} {ρ : Nat → Nat}

theorem sim_tcall (h : R c a ρ) {k : Nat} {h' : List Uv} {l' : List Nat}
    (hfp : c.fp ≤ c.stack.length)
    (hc : closeLoop c.stack c.fp c.heap c.openL = .ok (h', l')) :
    R { c with stack := c.stack.take c.fp ++ c.stack.drop k, heap := h', openL := l' }
      { a with cells := a.cells ++ c.stack.drop k,
               stack := a.stack.take a.fp ++ List.range' a.cells.length (c.stack.drop k).length } ρ := by
  have res := closeLoop_spec _ _ _ _ _ _ h.linv hc
  obtain ⟨k1, k2, k3⟩ := sim_close_core h res (c.stack.drop k)
    (List.range' a.cells.length (c.stack.drop k).length) (by
      intro r hr; simp [List.mem_range'] at hr; omega)
  rw [h.fp]
  refine { len := ?_, fp := rfl, val := ?_, inj := ?_, opn := k1, cls := k2, clsInj := k3, hs := h.hs,
           ups := h.ups, frames := h.frames, hsOk := ?_, upsOk := ?_, framesOk := ?_, linv := res.inv }
  · simp [h.len]
  · intro i w hi
    show ∃ r, (a.stack.take c.fp ++ List.range' a.cells.length (c.stack.drop k).length)[i]? = some r ∧
        (a.cells ++ c.stack.drop k)[r]? = some w
    have hi : (c.stack.take c.fp ++ c.stack.drop k)[i]? = some w := hi
    have hlen : (c.stack.take c.fp).length = c.fp := by simp; omega
    have hlen' : (a.stack.take c.fp).length = c.fp := by simp [h.len]; omega
    by_cases hlt : i < c.fp
    · rw [List.getElem?_append_left (by omega), List.getElem?_take, if_pos hlt] at hi
      obtain ⟨r, h1, h2⟩ := h.val i w hi
      refine ⟨r, ?_, ?_⟩
      · rw [List.getElem?_append_left (by omega), List.getElem?_take, if_pos hlt]; exact h1
      · rw [List.getElem?_append_left (List.getElem?_eq_some_iff.mp h2).1]; exact h2
    · rw [List.getElem?_append_right (by omega), hlen] at hi
      have hil := (List.getElem?_eq_some_iff.mp hi).1
      refine ⟨a.cells.length + (i - c.fp), ?_, ?_⟩
      · rw [List.getElem?_append_right (by omega), hlen', List.getElem?_range' hil]; simp
      · rw [List.getElem?_append_right (by omega)]
        have e2 : a.cells.length + (i - c.fp) - a.cells.length = i - c.fp := by omega
        rw [e2]; exact hi
  · show (a.stack.take c.fp ++ List.range' a.cells.length (c.stack.drop k).length).Nodup
    rw [List.nodup_append]
    refine ⟨h.inj.sublist (List.take_sublist _ _), List.nodup_range', ?_⟩
    intro x hx y hy
    have := h.stack_lt x ((List.take_sublist _ _).subset hx)
    simp [List.mem_range'] at hy
    omega
  · intro u hu; show u < h'.length; rw [res.len]; exact h.hsOk u hu
  · intro u hu; show u < h'.length; rw [res.len]; exact h.upsOk u hu
  · intro f hf u hu; show u < h'.length; rw [res.len]; exact h.framesOk f hf u hu

theorem sim_ret (h : R c a ρ) {f : Frame} {fs : List Frame} {rv : Val} {h' : List Uv} {l' : List Nat}
    (hf : c.frames = f :: fs) (hlt : c.fp < c.stack.length)
    (hc : closeLoop c.stack c.fp c.heap c.openL = .ok (h', l')) :
    R { c with stack := c.stack.take c.fp ++ [rv], fp := f.fp, upvalues := f.upvalues, frames := fs,
               heap := h', openL := l' }
      { a with cells := a.cells ++ [rv], stack := a.stack.take a.fp ++ [a.cells.length], fp := f.fp,
               upvalues := f.upvalues.map ρ, frames := fs.map (fun f => ⟨f.fp, f.upvalues.map ρ⟩) } ρ := by
  have res := closeLoop_spec _ _ _ _ _ _ h.linv hc
  obtain ⟨k1, k2, k3⟩ := sim_close_core h res [rv] [a.cells.length] (by intro r hr; simp at hr; omega)
  rw [h.fp]
  have hfm : f ∈ c.frames := by rw [hf]; simp
  refine { len := ?_, fp := rfl, val := ?_, inj := ?_, opn := k1, cls := k2, clsInj := k3, hs := h.hs,
           ups := rfl, frames := rfl, hsOk := ?_, upsOk := ?_, framesOk := ?_, linv := res.inv }
  · simp [h.len]
  · intro i w hi
    show ∃ r, (a.stack.take c.fp ++ [a.cells.length])[i]? = some r ∧ (a.cells ++ [rv])[r]? = some w
    have hi : (c.stack.take c.fp ++ [rv])[i]? = some w := hi
    by_cases hil : i < c.fp
    · rw [List.getElem?_append_left (by simp; omega), List.getElem?_take, if_pos hil] at hi
      obtain ⟨r, h1, h2⟩ := h.val i w hi
      refine ⟨r, ?_, ?_⟩
      · rw [List.getElem?_append_left (by simp [h.len]; omega), List.getElem?_take, if_pos hil]; exact h1
      · rw [List.getElem?_append_left (List.getElem?_eq_some_iff.mp h2).1]; exact h2
    · have hlen : (c.stack.take c.fp).length = c.fp := by simp; omega
      have hlen' : (a.stack.take c.fp).length = c.fp := by simp [h.len]; omega
      rw [List.getElem?_append_right (by omega), hlen] at hi
      have hi0 : i - c.fp = 0 := by
        rcases Nat.eq_zero_or_pos (i - c.fp) with h0 | h0
        · exact h0
        · have : ([rv] : List Val)[i - c.fp]? = none := by
            rw [List.getElem?_eq_none_iff]; simp; omega
          rw [this] at hi; cases hi
      rw [hi0] at hi; simp at hi; subst hi
      refine ⟨a.cells.length, ?_, by simp⟩
      rw [List.getElem?_append_right (by omega), hlen', hi0]; simp
  · show (a.stack.take c.fp ++ [a.cells.length]).Nodup
    rw [List.nodup_append]
    refine ⟨h.inj.sublist (List.take_sublist _ _), by simp, ?_⟩
    intro x hx y hy
    have := h.stack_lt x ((List.take_sublist _ _).subset hx)
    simp at hy; omega
  · intro u hu; show u < h'.length; rw [res.len]; exact h.hsOk u hu
  · intro u hu; show u < h'.length; rw [res.len]; exact h.framesOk f hfm u hu
  · intro g hg u hu; show u < h'.length; rw [res.len]
    exact h.framesOk g (by rw [hf]; exact List.mem_cons_of_mem _ hg) u hu

theorem R.top (h : R c a ρ) {rv : Val} (hl : c.stack.getLast? = some rv) :
    ∃ r, a.stack.getLast? = some r ∧ a.cells[r]? = some rv := by
  rw [List.getLast?_eq_getElem?] at hl ⊢
  obtain ⟨r, h1, h2⟩ := h.val _ _ hl
  exact ⟨r, by rw [h.len]; exact h1, h2⟩

/-- forward simulation, one operation -/
theorem sim_step (h : R c a ρ) (op : Op) {c' : C} {r : Option Val} (hsc : scopeOk c op = true)
    (hs : step c op = .ok (c', r)) : ∃ a' ρ', stepA a op = .ok (a', r) ∧ R c' a' ρ' := by
  cases op with
  | push v =>
    simp only [step] at hs; cases hs
    exact ⟨_, ρ, rfl, sim_push h v⟩
  | pop =>
    simp only [step] at hs
    split at hs
    · cases hs
    · cases hs
      rename_i hne
      refine ⟨_, ρ, ?_, sim_pop h hsc⟩
      simp only [stepA, h.len, hne, if_false]
  | getLocal i =>
    simp only [step] at hs
    split at hs
    · rename_i v hv
      cases hs
      obtain ⟨r, h1, h2⟩ := h.val _ _ hv
      refine ⟨a, ρ, ?_, h⟩
      simp only [stepA, h.fp, h1, cellGet, h2]
    · cases hs
  | setLocal i v =>
    simp only [step] at hs
    split at hs
    · rename_i hlt
      cases hs
      obtain ⟨r, h1, _⟩ := h.val _ _ (List.getElem?_eq_getElem hlt)
      have hr := h.stack_lt r (List.mem_of_getElem? h1)
      refine ⟨_, ρ, ?_, sim_write_slot h v hlt h1⟩
      simp only [stepA, h.fp, h1, cellSet, hr, if_true]
    · cases hs
  | capture i =>
    simp only [step] at hs
    split at hs
    · rename_i hlt
      split at hs
      · rename_i c1 id hcap
        cases hs
        obtain ⟨r, h1, _⟩ := h.val _ _ (List.getElem?_eq_getElem hlt)
        obtain ⟨ρ', hR⟩ := sim_capture h h1 hcap
        refine ⟨_, ρ', ?_, hR⟩
        simp only [stepA, h.fp, h1]
      · cases hs
    · cases hs
  | close i =>
    simp only [step] at hs
    split at hs
    · rename_i h' l' hcl
      cases hs
      refine ⟨_, ρ, ?_, sim_close h hcl⟩
      simp only [stepA, h.fp, h.readAll_drop]
    · cases hs
  | uget k =>
    simp only [step] at hs
    split at hs
    · cases hs
    · rename_i id hk
      split at hs
      · rename_i v hg
        cases hs
        refine ⟨a, ρ, ?_, h⟩
        have : a.hs[k]? = some (ρ id) := by rw [h.hs]; simp [hk]
        simp only [stepA, this, sim_uvGet h hg]
      · cases hs
  | uset k v =>
    simp only [step] at hs
    split at hs
    · cases hs
    · rename_i id hk
      split at hs
      · rename_i c1 hg
        cases hs
        obtain ⟨a', h1, h2⟩ := sim_uvSet h hg
        refine ⟨a', ρ, ?_, h2⟩
        have : a.hs[k]? = some (ρ id) := by rw [h.hs]; simp [hk]
        simp only [stepA, this, h1]
      · cases hs
  | fget j =>
    simp only [step] at hs
    split at hs
    · cases hs
    · rename_i id hk
      split at hs
      · rename_i v hg
        cases hs
        refine ⟨a, ρ, ?_, h⟩
        have : a.upvalues[j]? = some (ρ id) := by rw [h.ups]; simp [hk]
        simp only [stepA, this, sim_uvGet h hg]
      · cases hs
  | fset j v =>
    simp only [step] at hs
    split at hs
    · cases hs
    · rename_i id hk
      split at hs
      · rename_i c1 hg
        cases hs
        obtain ⟨a', h1, h2⟩ := sim_uvSet h hg
        refine ⟨a', ρ, ?_, h2⟩
        have : a.upvalues[j]? = some (ρ id) := by rw [h.ups]; simp [hk]
        simp only [stepA, this, h1]
      · cases hs
  | callc n ks =>
    simp only [step] at hs
    split at hs
    · rename_i hle
      split at hs
      · rename_i ids hl
        cases hs
        refine ⟨{ a with frames := ⟨a.fp, a.upvalues⟩ :: a.frames, fp := a.stack.length - (n + 1),
                         upvalues := ids.map ρ }, ρ, ?_, ?_⟩
        · simp only [stepA, h.len, hle, if_true, h.hs, lookupAll_map ρ _ _ _ hl]
        · refine { h with fp := ?_, ups := rfl, frames := ?_, upsOk := ?_, framesOk := ?_ }
          · simp [h.len]
          · simp [h.fp, h.ups, h.frames]
          · intro u hu; exact h.hsOk u (lookupAll_mem _ _ _ hl u hu)
          · intro f hf u hu
            rcases List.mem_cons.mp hf with rfl | hf'
            · exact h.upsOk u hu
            · exact h.framesOk f hf' u hu
      · cases hs
    · cases hs
  | callm n =>
    simp only [step] at hs
    split at hs
    · rename_i hle
      cases hs
      refine ⟨{ a with frames := ⟨a.fp, a.upvalues⟩ :: a.frames, fp := a.stack.length - (n + 1) }, ρ, ?_, ?_⟩
      · simp only [stepA, h.len, hle, if_true]
      · refine { h with fp := ?_, frames := ?_, framesOk := ?_ }
        · simp [h.len]
        · simp [h.fp, h.ups, h.frames]
        · intro f hf u hu
          rcases List.mem_cons.mp hf with rfl | hf'
          · exact h.upsOk u hu
          · exact h.framesOk f hf' u hu
    · cases hs
  | tcall n =>
    simp only [step] at hs
    split at hs
    · rename_i hle
      split at hs
      · rename_i h' l' hcl
        cases hs
        refine ⟨_, ρ, ?_, sim_tcall (k := c.stack.length - (n + 1)) h (by omega) hcl⟩
        simp only [stepA, h.fp, h.len, hle, if_true, h.readAll_drop]
      · cases hs
    · cases hs
  | ret =>
    simp only [step] at hs
    split at hs
    · cases hs
    · rename_i f fs hf
      split at hs
      · cases hs
      · rename_i rv hrv
        split at hs
        · rename_i hlt
          split at hs
          · rename_i h' l' hcl
            cases hs
            obtain ⟨r, h1, h2⟩ := h.top hrv
            refine ⟨_, ρ, ?_, sim_ret h hf hlt hcl⟩
            have hfa : a.frames = ⟨f.fp, f.upvalues.map ρ⟩ :: fs.map (fun f => ⟨f.fp, f.upvalues.map ρ⟩) := by
              rw [h.frames, hf]; rfl
            simp only [stepA, hfa, h1, h.fp, h.len, hlt, if_true, cellGet, h2]
          · cases hs
        · cases hs
  | grow =>
    simp only [step] at hs; cases hs
    exact ⟨a, ρ, rfl, h⟩

end ops
end Elk.Upvalue
