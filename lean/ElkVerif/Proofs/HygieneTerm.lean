import ElkVerif.Proofs.Hygiene
/-!
Term-level layer for C31: a macro body as a list of statements that declare and read locals,
possibly inside nested blocks, with `unhygienic` islands. `resolutions` is what the checker
computes for the body when it is checked as `MacroBoundaryNode(body)` on top of the caller's
stack: for every identifier occurrence, the binding it resolves to.
-/
namespace Elk.Hygiene

/-- statements of an expansion (what matters for name resolution) -/
inductive Tm where
  | decl (n : Name)                      -- `n := …` / `var n` : `addLocal` with a fresh local
  | read (n : Name)                      -- hygienic identifier occurrence
  | uread (n : Name)                     -- identifier occurrence inside an `unhygienic` island (caller code)
  | block (t : EnvType) (body : List Tm) -- `do`/`if`/loop body: nested environment of type t
deriving Repr

mutual
def Tm.size : Tm → Nat
  | .decl _ => 1 | .read _ => 1 | .uread _ => 1
  | .block _ b => 1 + Tm.sizeList b
def Tm.sizeList : List Tm → Nat
  | [] => 0
  | t :: r => t.size + Tm.sizeList r
end

/-- checking a statement list on a stack; `k` is the next fresh local id; returns the binding ids
found for the identifier occurrences (in order), the stack and the next id -/
def checkTms : Nat → List Tm → Stack → Nat → List (Option LocalId) × Stack × Nat
  | 0, _, s, k => ([], s, k)
  | _ + 1, [], s, k => ([], s, k)
  | fuel + 1, t :: rest, s, k =>
    match t with
    | .decl n =>
      match s with
      | [] => ([], s, k)
      | f :: fs => checkTms fuel rest ({ f with locals := insert n k f.locals } :: fs) (k + 1)
    | .read n =>
      let (rs, s', k') := checkTms fuel rest s k
      ((resolve n false s).map (·.loc) :: rs, s', k')
    | .uread n =>
      let (rs, s', k') := checkTms fuel rest s k
      ((resolve n true s).map (·.loc) :: rs, s', k')
    | .block ty body =>
      let (r1, s1, k1) := checkTms fuel body (⟨ty, true, []⟩ :: s) k
      let (r2, s2, k2) := checkTms fuel rest s1.tail k1
      (r1 ++ r2, s2, k2)

/-- consistent renaming of the HYGIENIC names of a body; islands are caller code and stay -/
def renameTms (ρ : Name → Name) : Nat → List Tm → List Tm
  | 0, ts => ts
  | _ + 1, [] => []
  | fuel + 1, t :: rest =>
    (match t with
     | .decl n => .decl (ρ n)
     | .read n => .read (ρ n)
     | .uread n => .uread n
     | .block ty body => .block ty (renameTms ρ fuel body)) :: renameTms ρ fuel rest

/-- a body without `unhygienic` islands -/
def hygienicOnly : Nat → List Tm → Bool
  | 0, _ => true
  | _ + 1, [] => true
  | fuel + 1, t :: rest =>
    (match t with
     | .uread _ => false
     | .block _ body => hygienicOnly fuel body
     | _ => true) && hygienicOnly fuel rest

end Elk.Hygiene

namespace Elk.Hygiene

/-- checking a body only changes the bindings of the current environment: everything below is
untouched and the current environment keeps its kind (blocks are balanced by construction) -/
theorem checkTms_shape (fuel : Nat) : ∀ (B : List Tm) (f : Frame) (fs : Stack) (k : Nat),
    ∃ f', (checkTms fuel B (f :: fs) k).2.1 = f' :: fs ∧ f'.typ = f.typ ∧ f'.hasParent = f.hasParent := by
  induction fuel with
  | zero => intro B f fs k; exact ⟨f, rfl, rfl, rfl⟩
  | succ n ih =>
    intro B f fs k
    cases B with
    | nil => exact ⟨f, rfl, rfl, rfl⟩
    | cons t rest =>
      cases t with
      | decl x =>
        simp only [checkTms]
        obtain ⟨f', h1, h2, h3⟩ := ih rest { f with locals := insert x k f.locals } fs (k + 1)
        exact ⟨f', h1, h2, h3⟩
      | read x =>
        simp only [checkTms]
        exact ih rest f fs k
      | uread x =>
        simp only [checkTms]
        exact ih rest f fs k
      | block ty body =>
        simp only [checkTms]
        obtain ⟨g, h1, _, _⟩ := ih body ⟨ty, true, []⟩ (f :: fs) k
        rw [h1]
        simp only [List.tail_cons]
        exact ih rest f fs _

theorem insert_rename (ρ : Name → Name) (hρ : ∀ a b, ρ a = ρ b → a = b) (n : Name) (l : LocalId)
    (ls : List (Name × LocalId)) :
    (insert n l ls).map (fun (m, x) => (ρ m, x)) = insert (ρ n) l (ls.map fun (m, x) => (ρ m, x)) := by
  induction ls with
  | nil => simp [insert]
  | cons p rest ih =>
    obtain ⟨m, x⟩ := p
    by_cases h : m = n
    · subst h; simp [insert]
    · have : ρ m ≠ ρ n := fun e => h (hρ _ _ e)
      simp [insert, h, this, ih]

theorem Frame.rename_insert (ρ : Name → Name) (hρ : ∀ a b, ρ a = ρ b → a = b) (n : Name) (l : LocalId) (f : Frame) :
    Frame.rename ρ { f with locals := insert n l f.locals } =
      { Frame.rename ρ f with locals := insert (ρ n) l (Frame.rename ρ f).locals } := by
  simp [Frame.rename, insert_rename ρ hρ]

/-- **α-equivalence of hygienic bodies.** Check a body without `unhygienic` islands on top of the
expansion's environments `inner ++ [b]` (b the macro boundary) and any caller stack; check the
body with all its names renamed by an injective ρ on top of the renamed environments and ANY
OTHER caller stack: every identifier occurrence resolves to the same binding, the fresh-id
counter advances equally, and the resulting stacks are again related. -/
theorem alpha_body_aux (ρ : Name → Name) (hρ : ∀ a b, ρ a = ρ b → a = b) (fuel : Nat) :
    ∀ (B : List Tm) (inner : Stack) (b : Frame) (outer outer' : Stack) (k : Nat),
      b.typ = .macroBoundary → hygienicOnly fuel B = true →
      (checkTms fuel (renameTms ρ fuel B) (inner.map (Frame.rename ρ) ++ Frame.rename ρ b :: outer') k).1 =
        (checkTms fuel B (inner ++ b :: outer) k).1 ∧
      (checkTms fuel (renameTms ρ fuel B) (inner.map (Frame.rename ρ) ++ Frame.rename ρ b :: outer') k).2.2 =
        (checkTms fuel B (inner ++ b :: outer) k).2.2 ∧
      ∃ (inner2 : Stack) (b2 : Frame), b2.typ = .macroBoundary ∧ inner2.length = inner.length ∧
        (checkTms fuel B (inner ++ b :: outer) k).2.1 = inner2 ++ b2 :: outer ∧
        (checkTms fuel (renameTms ρ fuel B) (inner.map (Frame.rename ρ) ++ Frame.rename ρ b :: outer') k).2.1 =
          inner2.map (Frame.rename ρ) ++ Frame.rename ρ b2 :: outer' := by
  induction fuel with
  | zero =>
    intro B inner b outer outer' k hb _
    exact ⟨rfl, rfl, inner, b, hb, rfl, rfl, rfl⟩
  | succ n ih =>
    intro B inner b outer outer' k hb hh
    cases B with
    | nil => exact ⟨rfl, rfl, inner, b, hb, rfl, rfl, rfl⟩
    | cons t rest =>
      cases t with
      | uread x => simp [hygienicOnly] at hh
      | decl x =>
        have hr : hygienicOnly n rest = true := by simpa [hygienicOnly] using hh
        cases inner with
        | nil =>
          have := ih rest [] { b with locals := insert x k b.locals } outer outer' (k + 1) hb hr
          simp only [List.map_nil, List.nil_append, renameTms, checkTms] at this ⊢
          rw [← Frame.rename_insert ρ hρ x k b]
          exact this
        | cons f fs =>
          have := ih rest ({ f with locals := insert x k f.locals } :: fs) b outer outer' (k + 1) hb hr
          simp only [List.map_cons, List.cons_append, renameTms, checkTms, List.length_cons] at this ⊢
          rw [← Frame.rename_insert ρ hρ x k f]
          exact this
      | read x =>
        have hr : hygienicOnly n rest = true := by simpa [hygienicOnly] using hh
        obtain ⟨h1, h2, h3⟩ := ih rest inner b outer outer' k hb hr
        have ha : resolve (ρ x) false (inner.map (Frame.rename ρ) ++ Frame.rename ρ b :: outer') =
            resolve x false (inner ++ b :: outer) := by
          have e1 := resolveFrom_boundary_indep x inner b outer outer' hb 0 false
          have e2 := resolveFrom_rename ρ hρ x inner b outer' hb 0 false
          simp only [resolve]; rw [e2, ← e1]
        simp only [renameTms, checkTms]
        refine ⟨?_, h2, h3⟩
        rw [ha, h1]
      | block ty body =>
        have hb1 : hygienicOnly n body = true ∧ hygienicOnly n rest = true := by
          simpa [hygienicOnly] using hh
        -- the nested block: one more environment on top of `inner`
        obtain ⟨g1, g2, inner2, b2, hb2, hl2, e1, e2⟩ :=
          ih body (⟨ty, true, []⟩ :: inner) b outer outer' k hb hb1.1
        -- its result stack is the pushed environment (with new bindings) on the old stack
        obtain ⟨fa, sa, _, _⟩ := checkTms_shape n body ⟨ty, true, []⟩ (inner ++ b :: outer) k
        obtain ⟨fb, sb, _, _⟩ := checkTms_shape n (renameTms ρ n body) ⟨ty, true, []⟩
          (inner.map (Frame.rename ρ) ++ Frame.rename ρ b :: outer') k
        have hren : Frame.rename ρ ⟨ty, true, []⟩ = ⟨ty, true, []⟩ := rfl
        simp only [List.map_cons, List.cons_append, hren] at g1 g2 e1 e2
        have := ih rest inner b outer outer' (checkTms n body (⟨ty, true, []⟩ :: (inner ++ b :: outer)) k).2.2 hb hb1.2
        simp only [renameTms, checkTms]
        rw [sa, sb, g2] at *
        simp only [List.tail_cons]
        obtain ⟨t1, t2, t3⟩ := this
        refine ⟨?_, t2, t3⟩
        rw [g1, t1]

end Elk.Hygiene

namespace Elk.Hygiene

/-! ### bodies with `unhygienic` islands, under the no-capture hypothesis -/

/-- `D` = names the expansion may declare, `U` = names that occur inside `unhygienic` islands -/
def okIslands (D U : Name → Prop) : Nat → List Tm → Prop
  | 0, _ => True
  | _ + 1, [] => True
  | fuel + 1, t :: rest =>
    (match t with
     | .decl n => D n
     | .read _ => True
     | .uread n => U n
     | .block _ body => okIslands D U fuel body) ∧ okIslands D U fuel rest

/-- an environment of the expansion: linked to its parent and binding only names of `D` -/
def FrameOk (D : Name → Prop) (f : Frame) : Prop := f.hasParent = true ∧ ∀ p ∈ f.locals, D p.1

theorem mem_insert_name (n : Name) (l : LocalId) (ls : List (Name × LocalId)) (p : Name × LocalId)
    (h : p ∈ insert n l ls) : p.1 = n ∨ p ∈ ls := by
  induction ls with
  | nil => simp [insert] at h; left; rw [h]
  | cons q rest ih =>
    obtain ⟨m, x⟩ := q
    by_cases hm : m = n
    · simp only [insert, hm, if_true, List.mem_cons] at h
      rcases h with h | h
      · left; rw [h]
      · right; exact List.mem_cons_of_mem _ h
    · simp only [insert, hm, if_false, List.mem_cons] at h
      rcases h with h | h
      · right; rw [h]; exact List.mem_cons_self
      · rcases ih h with h' | h'
        · left; exact h'
        · right; exact List.mem_cons_of_mem _ h'

theorem lookup_none_of_names (n : Name) (ls : List (Name × LocalId)) (h : ∀ p ∈ ls, p.1 ≠ n) :
    lookup n ls = none := by
  induction ls with
  | nil => rfl
  | cons q rest ih =>
    obtain ⟨m, x⟩ := q
    have : m ≠ n := h (m, x) (by simp)
    simp only [lookup, this, if_false]
    exact ih (fun p hp => h p (List.mem_cons_of_mem _ hp))

theorem FrameOk.insert {D : Name → Prop} {f : Frame} (hf : FrameOk D f) (n : Name) (k : LocalId) (hn : D n) :
    FrameOk D { f with locals := Elk.Hygiene.insert n k f.locals } := by
  refine ⟨hf.1, ?_⟩
  intro p hp
  rcases mem_insert_name n k f.locals p hp with h | h
  · rw [h]; exact hn
  · exact hf.2 p h

/-- the location an unhygienic lookup finds does not depend on the counters -/
theorem resolveFrom_loc_indep (n : Name) (s : Stack) (d d' : Nat) (k k' : Bool) :
    (resolveFrom n true s d k).map (·.loc) = (resolveFrom n true s d' k').map (·.loc) := by
  induction s generalizing d d' k k' with
  | nil => rfl
  | cons f rest ih =>
    simp only [resolveFrom]
    cases lookup n f.locals with
    | some l => rfl
    | none =>
      simp only []
      split
      · rfl
      · split
        · exact ih _ _ _ _
        · rfl

/-- an unhygienic lookup of a name the expansion's environments do not bind returns the caller's binding -/
theorem resolve_unhyg_through (n : Name) (m outer : Stack)
    (hp : ∀ f ∈ m, f.hasParent = true) (hn : ∀ f ∈ m, lookup n f.locals = none) :
    (resolve n true (m ++ outer)).map (·.loc) = (resolve n true outer).map (·.loc) := by
  simp only [resolve]
  rw [resolveFrom_unhyg_skip n m outer 0 false hp hn]
  exact resolveFrom_loc_indep n outer _ _ _ _

theorem alpha_islands_aux (ρ : Name → Name) (hρ : ∀ a b, ρ a = ρ b → a = b) (D U : Name → Prop)
    (hDU : ∀ n, D n → ¬ U n) (hρU : ∀ n, D n → ¬ U (ρ n)) (fuel : Nat) :
    ∀ (B : List Tm) (inner : Stack) (b : Frame) (outer : Stack) (k : Nat),
      b.typ = .macroBoundary → okIslands D U fuel B → (∀ f ∈ inner ++ [b], FrameOk D f) →
      (checkTms fuel (renameTms ρ fuel B) (inner.map (Frame.rename ρ) ++ Frame.rename ρ b :: outer) k).1 =
        (checkTms fuel B (inner ++ b :: outer) k).1 ∧
      (checkTms fuel (renameTms ρ fuel B) (inner.map (Frame.rename ρ) ++ Frame.rename ρ b :: outer) k).2.2 =
        (checkTms fuel B (inner ++ b :: outer) k).2.2 ∧
      ∃ (inner2 : Stack) (b2 : Frame), b2.typ = .macroBoundary ∧ inner2.length = inner.length ∧
        (∀ f ∈ inner2 ++ [b2], FrameOk D f) ∧
        (checkTms fuel B (inner ++ b :: outer) k).2.1 = inner2 ++ b2 :: outer ∧
        (checkTms fuel (renameTms ρ fuel B) (inner.map (Frame.rename ρ) ++ Frame.rename ρ b :: outer) k).2.1 =
          inner2.map (Frame.rename ρ) ++ Frame.rename ρ b2 :: outer := by
  induction fuel with
  | zero =>
    intro B inner b outer k hb _ hf
    exact ⟨rfl, rfl, inner, b, hb, rfl, hf, rfl, rfl⟩
  | succ n ih =>
    intro B inner b outer k hb hok hf
    cases B with
    | nil => exact ⟨rfl, rfl, inner, b, hb, rfl, hf, rfl, rfl⟩
    | cons t rest =>
      cases t with
      | decl x =>
        obtain ⟨hx, hr⟩ : D x ∧ okIslands D U n rest := hok
        cases inner with
        | nil =>
          have hf' : ∀ f ∈ ([] : Stack) ++ [{ b with locals := insert x k b.locals }], FrameOk D f := by
            intro f h; simp at h; rw [h]; exact (hf b (by simp)).insert x k hx
          have := ih rest [] { b with locals := insert x k b.locals } outer (k + 1) hb hr hf'
          simp only [List.map_nil, List.nil_append, renameTms, checkTms] at this ⊢
          rw [← Frame.rename_insert ρ hρ x k b]
          exact this
        | cons f fs =>
          have hf' : ∀ g ∈ ({ f with locals := insert x k f.locals } :: fs) ++ [b], FrameOk D g := by
            intro g h
            simp only [List.cons_append, List.mem_cons] at h
            rcases h with h | h
            · rw [h]; exact (hf f (by simp)).insert x k hx
            · exact hf g (by simp [h])
          have := ih rest ({ f with locals := insert x k f.locals } :: fs) b outer (k + 1) hb hr hf'
          simp only [List.map_cons, List.cons_append, renameTms, checkTms, List.length_cons] at this ⊢
          rw [← Frame.rename_insert ρ hρ x k f]
          exact this
      | read x =>
        obtain ⟨_, hr⟩ : True ∧ okIslands D U n rest := hok
        obtain ⟨h1, h2, h3⟩ := ih rest inner b outer k hb hr hf
        have ha : resolve (ρ x) false (inner.map (Frame.rename ρ) ++ Frame.rename ρ b :: outer) =
            resolve x false (inner ++ b :: outer) := by
          have e2 := resolveFrom_rename ρ hρ x inner b outer hb 0 false
          simp only [resolve]; rw [e2]
        simp only [renameTms, checkTms]
        refine ⟨?_, h2, h3⟩
        rw [ha, h1]
      | uread x =>
        obtain ⟨hx, hr⟩ : U x ∧ okIslands D U n rest := hok
        obtain ⟨h1, h2, h3⟩ := ih rest inner b outer k hb hr hf
        -- neither the expansion's environments nor their renamed versions bind x
        have hp1 : ∀ f ∈ inner ++ [b], f.hasParent = true := fun f h => (hf f h).1
        have hn1 : ∀ f ∈ inner ++ [b], lookup x f.locals = none := by
          intro f h
          exact lookup_none_of_names x f.locals (fun p hp e => hDU p.1 ((hf f h).2 p hp) (e ▸ hx))
        have hp2 : ∀ f ∈ inner.map (Frame.rename ρ) ++ [Frame.rename ρ b], f.hasParent = true := by
          intro f h
          simp only [List.mem_append, List.mem_map, List.mem_singleton] at h
          rcases h with ⟨g, hg, rfl⟩ | rfl
          · exact (hf g (by simp [hg])).1
          · exact (hf b (by simp)).1
        have hn2 : ∀ f ∈ inner.map (Frame.rename ρ) ++ [Frame.rename ρ b], lookup x f.locals = none := by
          intro f h
          simp only [List.mem_append, List.mem_map, List.mem_singleton] at h
          rcases h with ⟨g, hg, rfl⟩ | rfl
          · exact lookup_rename_fresh ρ x g.locals (fun p hp e => hρU p.1 ((hf g (by simp [hg])).2 p hp) (e ▸ hx))
          · exact lookup_rename_fresh ρ x b.locals (fun p hp e => hρU p.1 ((hf b (by simp)).2 p hp) (e ▸ hx))
        have e1 := resolve_unhyg_through x (inner ++ [b]) outer hp1 hn1
        have e2 := resolve_unhyg_through x (inner.map (Frame.rename ρ) ++ [Frame.rename ρ b]) outer hp2 hn2
        simp only [List.append_assoc, List.singleton_append] at e1 e2
        simp only [renameTms, checkTms]
        refine ⟨?_, h2, h3⟩
        rw [e2, e1, h1]
      | block ty body =>
        obtain ⟨hbody, hrest⟩ : okIslands D U n body ∧ okIslands D U n rest := hok
        have hnew : FrameOk D ⟨ty, true, []⟩ := ⟨rfl, by intro p hp; cases hp⟩
        have hf1 : ∀ f ∈ (⟨ty, true, []⟩ :: inner) ++ [b], FrameOk D f := by
          intro f h
          simp only [List.cons_append, List.mem_cons] at h
          rcases h with h | h
          · rw [h]; exact hnew
          · exact hf f h
        obtain ⟨g1, g2, inner2, b2, hb2, hl2, hf2, e1, e2⟩ :=
          ih body (⟨ty, true, []⟩ :: inner) b outer k hb hbody hf1
        obtain ⟨fa, sa, _, _⟩ := checkTms_shape n body ⟨ty, true, []⟩ (inner ++ b :: outer) k
        obtain ⟨fb, sb, _, _⟩ := checkTms_shape n (renameTms ρ n body) ⟨ty, true, []⟩
          (inner.map (Frame.rename ρ) ++ Frame.rename ρ b :: outer) k
        have hren : Frame.rename ρ ⟨ty, true, []⟩ = ⟨ty, true, []⟩ := rfl
        simp only [List.map_cons, List.cons_append, hren] at g1 g2 e1 e2
        have := ih rest inner b outer (checkTms n body (⟨ty, true, []⟩ :: (inner ++ b :: outer)) k).2.2 hb hrest hf
        simp only [renameTms, checkTms]
        rw [sa, sb, g2] at *
        simp only [List.tail_cons]
        obtain ⟨t1, t2, t3⟩ := this
        refine ⟨?_, t2, t3⟩
        rw [g1, t1]

end Elk.Hygiene
