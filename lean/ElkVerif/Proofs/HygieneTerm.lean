import ElkVerif.Proofs.Hygiene
/-!
Term-level layer for C31: a macro body as a list of statements that declare and read locals,
possibly inside nested blocks, with `unhygienic` islands. `resolutions` is what the checker
computes for the body when it is checked as `MacroBoundaryNode(body)` on top of the caller's
stack: for every identifier occurrence, the binding it resolves to.
-/
namespace Elk.Hygiene

/-- statements of an expansion (what matters for name resolution) -/
inductive Tm where
  | decl (n : Name)                      -- `n := …` / `var n` : `addLocal` with a fresh local
  | read (n : Name)                      -- hygienic identifier occurrence
  | uread (n : Name)                     -- identifier occurrence inside an `unhygienic` island (caller code)
  | block (t : EnvType) (body : List Tm) -- `do`/`if`/loop body: nested environment of type t
deriving Repr

mutual
def Tm.size : Tm → Nat
  | .decl _ => 1 | .read _ => 1 | .uread _ => 1
  | .block _ b => 1 + Tm.sizeList b
def Tm.sizeList : List Tm → Nat
  | [] => 0
  | t :: r => t.size + Tm.sizeList r
end

/-- checking a statement list on a stack; `k` is the next fresh local id; returns the binding ids
found for the identifier occurrences (in order), the stack and the next id -/
def checkTms : Nat → List Tm → Stack → Nat → List (Option LocalId) × Stack × Nat
  | 0, _, s, k => ([], s, k)
  | _ + 1, [], s, k => ([], s, k)
  | fuel + 1, t :: rest, s, k =>
    match t with
    | .decl n =>
      match s with
      | [] => ([], s, k)
      | f :: fs => checkTms fuel rest ({ f with locals := insert n k f.locals } :: fs) (k + 1)
    | .read n =>
      let (rs, s', k') := checkTms fuel rest s k
      ((resolve n false s).map (·.loc) :: rs, s', k')
    | .uread n =>
      let (rs, s', k') := checkTms fuel rest s k
      ((resolve n true s).map (·.loc) :: rs, s', k')
    | .block ty body =>
      let (r1, s1, k1) := checkTms fuel body (⟨ty, true, []⟩ :: s) k
      let (r2, s2, k2) := checkTms fuel rest s1.tail k1
      (r1 ++ r2, s2, k2)

/-- consistent renaming of the HYGIENIC names of a body; islands are caller code and stay -/
def renameTms (ρ : Name → Name) : Nat → List Tm → List Tm
  | 0, ts => ts
  | _ + 1, [] => []
  | fuel + 1, t :: rest =>
    (match t with
     | .decl n => .decl (ρ n)
     | .read n => .read (ρ n)
     | .uread n => .uread n
     | .block ty body => .block ty (renameTms ρ fuel body)) :: renameTms ρ fuel rest

/-- a body without `unhygienic` islands -/
def hygienicOnly : Nat → List Tm → Bool
  | 0, _ => true
  | _ + 1, [] => true
  | fuel + 1, t :: rest =>
    (match t with
     | .uread _ => false
     | .block _ body => hygienicOnly fuel body
     | _ => true) && hygienicOnly fuel rest

end Elk.Hygiene

namespace Elk.Hygiene

/-- checking a body only changes the bindings of the current environment: everything below is
untouched and the current environment keeps its kind (blocks are balanced by construction) -/
theorem checkTms_shape (fuel : Nat) : ∀ (B : List Tm) (f : Frame) (fs : Stack) (k : Nat),
    ∃ f', (checkTms fuel B (f :: fs) k).2.1 = f' :: fs ∧ f'.typ = f.typ ∧ f'.hasParent = f.hasParent := by
  induction fuel with
  | zero => intro B f fs k; exact ⟨f, rfl, rfl, rfl⟩
  | succ n ih =>
    intro B f fs k
    cases B with
    | nil => exact ⟨f, rfl, rfl, rfl⟩
    | cons t rest =>
      cases t with
      | decl x =>
        simp only [checkTms]
        obtain ⟨f', h1, h2, h3⟩ := ih rest { f with locals := insert x k f.locals } fs (k + 1)
        exact ⟨f', h1, h2, h3⟩
      | read x =>
        simp only [checkTms]
        exact ih rest f fs k
      | uread x =>
        simp only [checkTms]
        exact ih rest f fs k
      | block ty body =>
        simp only [checkTms]
        obtain ⟨g, h1, _, _⟩ := ih body ⟨ty, true, []⟩ (f :: fs) k
        rw [h1]
        simp only [List.tail_cons]
        exact ih rest f fs _

theorem insert_rename (ρ : Name → Name) (hρ : ∀ a b, ρ a = ρ b → a = b) (n : Name) (l : LocalId)
    (ls : List (Name × LocalId)) :
    (insert n l ls).map (fun (m, x) => (ρ m, x)) = insert (ρ n) l (ls.map fun (m, x) => (ρ m, x)) := by
  induction ls with
  | nil => simp [insert]
  | cons p rest ih =>
    obtain ⟨m, x⟩ := p
    by_cases h : m = n
    · subst h; simp [insert]
    · have : ρ m ≠ ρ n := fun e => h (hρ _ _ e)
      simp [insert, h, this, ih]

theorem Frame.rename_insert (ρ : Name → Name) (hρ : ∀ a b, ρ a = ρ b → a = b) (n : Name) (l : LocalId) (f : Frame) :
    Frame.rename ρ { f with locals := insert n l f.locals } =
      { Frame.rename ρ f with locals := insert (ρ n) l (Frame.rename ρ f).locals } := by
  simp [Frame.rename, insert_rename ρ hρ]

/-- **α-equivalence of hygienic bodies.** Check a body without `unhygienic` islands on top of the
expansion's environments `inner ++ [b]` (b the macro boundary) and any caller stack; check the
body with all its names renamed by an injective ρ on top of the renamed environments and ANY
OTHER caller stack: every identifier occurrence resolves to the same binding, the fresh-id
counter advances equally, and the resulting stacks are again related. -/
theorem alpha_body_aux (ρ : Name → Name) (hρ : ∀ a b, ρ a = ρ b → a = b) (fuel : Nat) :
    ∀ (B : List Tm) (inner : Stack) (b : Frame) (outer outer' : Stack) (k : Nat),
      b.typ = .macroBoundary → hygienicOnly fuel B = true →
      (checkTms fuel (renameTms ρ fuel B) (inner.map (Frame.rename ρ) ++ Frame.rename ρ b :: outer') k).1 =
        (checkTms fuel B (inner ++ b :: outer) k).1 ∧
      (checkTms fuel (renameTms ρ fuel B) (inner.map (Frame.rename ρ) ++ Frame.rename ρ b :: outer') k).2.2 =
        (checkTms fuel B (inner ++ b :: outer) k).2.2 ∧
      ∃ (inner2 : Stack) (b2 : Frame), b2.typ = .macroBoundary ∧ inner2.length = inner.length ∧
        (checkTms fuel B (inner ++ b :: outer) k).2.1 = inner2 ++ b2 :: outer ∧
        (checkTms fuel (renameTms ρ fuel B) (inner.map (Frame.rename ρ) ++ Frame.rename ρ b :: outer') k).2.1 =
          inner2.map (Frame.rename ρ) ++ Frame.rename ρ b2 :: outer' := by
  induction fuel with
  | zero =>
    intro B inner b outer outer' k hb _
    exact ⟨rfl, rfl, inner, b, hb, rfl, rfl, rfl⟩
  | succ n ih =>
    intro B inner b outer outer' k hb hh
    cases B with
    | nil => exact ⟨rfl, rfl, inner, b, hb, rfl, rfl, rfl⟩
    | cons t rest =>
      cases t with
      | uread x => simp [hygienicOnly] at hh
      | decl x =>
        have hr : hygienicOnly n rest = true := by simpa [hygienicOnly] using hh
        cases inner with
        | nil =>
          have := ih rest [] { b with locals := insert x k b.locals } outer outer' (k + 1) hb hr
          simp only [List.map_nil, List.nil_append, renameTms, checkTms] at this ⊢
          rw [← Frame.rename_insert ρ hρ x k b]
          exact this
        | cons f fs =>
          have := ih rest ({ f with locals := insert x k f.locals } :: fs) b outer outer' (k + 1) hb hr
          simp only [List.map_cons, List.cons_append, renameTms, checkTms, List.length_cons] at this ⊢
          rw [← Frame.rename_insert ρ hρ x k f]
          exact this
      | read x =>
        have hr : hygienicOnly n rest = true := by simpa [hygienicOnly] using hh
        obtain ⟨h1, h2, h3⟩ := ih rest inner b outer outer' k hb hr
        have ha : resolve (ρ x) false (inner.map (Frame.rename ρ) ++ Frame.rename ρ b :: outer') =
            resolve x false (inner ++ b :: outer) := by
          have e1 := resolveFrom_boundary_indep x inner b outer outer' hb 0 false
          have e2 := resolveFrom_rename ρ hρ x inner b outer' hb 0 false
          simp only [resolve]; rw [e2, ← e1]
        simp only [renameTms, checkTms]
        refine ⟨?_, h2, h3⟩
        rw [ha, h1]
      | block ty body =>
        have hb1 : hygienicOnly n body = true ∧ hygienicOnly n rest = true := by
          simpa [hygienicOnly] using hh
        -- the nested block: one more environment on top of `inner`
        obtain ⟨g1, g2, inner2, b2, hb2, hl2, e1, e2⟩ :=
          ih body (⟨ty, true, []⟩ :: inner) b outer outer' k hb hb1.1
        -- its result stack is the pushed environment (with new bindings) on the old stack
        obtain ⟨fa, sa, _, _⟩ := checkTms_shape n body ⟨ty, true, []⟩ (inner ++ b :: outer) k
        obtain ⟨fb, sb, _, _⟩ := checkTms_shape n (renameTms ρ n body) ⟨ty, true, []⟩
          (inner.map (Frame.rename ρ) ++ Frame.rename ρ b :: outer') k
        have hren : Frame.rename ρ ⟨ty, true, []⟩ = ⟨ty, true, []⟩ := rfl
        simp only [List.map_cons, List.cons_append, hren] at g1 g2 e1 e2
        have := ih rest inner b outer outer' (checkTms n body (⟨ty, true, []⟩ :: (inner ++ b :: outer)) k).2.2 hb hb1.2
        simp only [renameTms, checkTms]
        rw [sa, sb, g2] at *
        simp only [List.tail_cons]
        obtain ⟨t1, t2, t3⟩ := this
        refine ⟨?_, t2, t3⟩
        rw [g1, t1]

end Elk.Hygiene
