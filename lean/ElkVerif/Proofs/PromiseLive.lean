import ElkVerif.Proofs.Promise
/-!
Consequences of the protocol invariant used by C16/C15: physical reading of the location ghost,
room in the queue when few tasks exist, progress of lock holders, frame lemmas for traces.
-/
set_option linter.unusedSimpArgs false
namespace Elk.Promise

/-- the ghost location is exactly the physical location -/
theorem at_iff_loc {s : Sys} (hi : Inv s) (t : Nat) (ht : IsTask s t) (l : Loc) : At s t l ↔ s.loc t = l := by
  have hq := hi.qAgree t
  have hn := hi.locNone t
  have hf := hi.finIff t
  unfold IsTask at ht
  cases l with
  | none => simp only [At, false_iff]; intro h; exact (hn.mp h) ht
  | queued =>
    simp only [At, Queued, ← List.count_pos_iff, hq]
    split <;> simp_all
  | actor a =>
    simp only [At, OnActor, hi.aAgree a t]
    split <;> simp_all
  | waiting p =>
    simp only [At, WaitingOn]
    constructor
    · rintro ⟨hs, hm⟩
      have := hi.wAgree p t hs
      rw [← List.count_pos_iff, this] at hm
      split at hm <;> simp_all
    · intro hl
      have hs := hi.wUnset p t hl
      refine ⟨hs, ?_⟩
      have := hi.wAgree p t hs
      rw [← List.count_pos_iff, this]; simp [hl]
  | finished =>
    simp only [At, Finished]
    constructor
    · intro h; exact hf.mpr ⟨ht, h⟩
    · intro h; exact (hf.mp h).2

theorem queue_nodup {s : Sys} (hi : Inv s) : s.queue.Nodup := by
  rw [List.nodup_iff_count]; intro a; rw [hi.qAgree a]; split <;> omega

/-- a task that is not in the queue finds room when at most `Q` tasks were ever created -/
theorem enq_room {Q : Nat} {s : Sys} (hi : Inv s) (hQ : s.tasks.length ≤ Q) (c : Nat)
    (hc : s.loc c ≠ .queued) (hk : s.loc c ≠ .none) : s.queue.length < Q := by
  have hnd : (c :: s.queue).Nodup := by
    rw [List.nodup_cons]
    refine ⟨?_, queue_nodup hi⟩
    rw [← List.count_pos_iff, hi.qAgree c]; simp [hc]
  have hsub : (c :: s.queue) ⊆ s.tasks := by
    intro x hx
    rw [hi.tasksIff x]
    have hx' : s.loc x ≠ .none := by
      rcases List.mem_cons.mp hx with rfl | hm
      · exact hk
      · rw [← List.count_pos_iff, hi.qAgree x] at hm
        split at hm <;> simp_all
    have := hi.locNone x
    by_cases hkind : (s.prom x).kind = .task
    · exact hkind
    · exact absurd (this.mpr hkind) hx'
  have := hnd.length_le_of_subset hsub
  simp at this; omega

theorem progress_of {N Q : Nat} {s : Sys} (e : Event) (hne : s.act e.actor ≠ .idle)
    (h : (stepB N Q s e).isSome) : Progress N Q s := by
  obtain ⟨s', hs'⟩ := Option.isSome_iff_exists.mp h
  exact ⟨e, s', hs', Or.inl hne⟩

/-- whoever holds a promise mutex can take its next micro-step (given room in the queue) -/
theorem holder_progress {N Q : Nat} {s : Sys} (hi : Inv s) (hQ : s.tasks.length ≤ Q) (b p : Nat)
    (hb : (s.act b).holdsLock p = true) : Progress N Q s := by
  cases hact : s.act b with
  | awTest t p' =>
    by_cases hs : (s.prom p').settled = none
    · exact progress_of (.aws b p') (by simp [Event.actor, hact]) (by simp [stepB, hact, hs])
    · exact progress_of (.awr b p') (by simp [Event.actor, hact]) (by simp [stepB, hact, hs])
  | awSusp t p' => exact progress_of (.reg b p') (by simp [Event.actor, hact]) (by simp [stepB, hact])
  | awUnl p' => exact progress_of (.unl b p') (by simp [Event.actor, hact]) (by simp [stepB, hact])
  | resPub own p' r => exact progress_of (.pub b p') (by simp [Event.actor, hact]) (by simp [stepB, hact])
  | resEnq p' rest =>
    cases rest with
    | nil => exact progress_of (.resu b p') (by simp [Event.actor, hact]) (by simp [stepB, hact])
    | cons c rest =>
      have hl := hi.aAgree b c
      simp only [hact, AState.holdCount, List.count_cons_self] at hl
      have hloc : s.loc c = .actor b := by
        by_cases h : s.loc c = .actor b
        · exact h
        · simp [h] at hl
      have hroom := enq_room hi hQ c (by simp [hloc]) (by simp [hloc])
      exact progress_of (.enqc b p' c) (by simp [Event.actor, hact]) (by simp [stepB, hact, hroom])
  | idle => simp [hact, AState.holdsLock] at hb
  | run t => simp [hact, AState.holdsLock] at hb
  | add r c => simp [hact, AState.holdsLock] at hb
  | awLock t p' => simp [hact, AState.holdsLock] at hb
  | wait r p' => simp [hact, AState.holdsLock] at hb
  | resLock o p' r => simp [hact, AState.holdsLock] at hb

/-- waiting for a promise mutex is never for ever: free → take it, held → the holder moves -/
theorem lock_progress {N Q : Nat} {s : Sys} (hi : Inv s) (hQ : s.tasks.length ≤ Q) (p : Nat)
    (free : (s.prom p).locked = none → Progress N Q s) : Progress N Q s := by
  cases hl : (s.prom p).locked with
  | none => exact free hl
  | some b => exact holder_progress hi hQ b p (hi.lockHeld p b hl)

/-! ### frame lemmas for traces -/

theorem step_act_other {N Q : Nat} {s s' : Sys} {e : Event} (h : Step N Q s e s') (a : Nat)
    (ha : a ≠ e.actor) : s'.act a = s.act a := by
  cases e with
  | add b c => obtain ⟨_, _, _, rfl⟩ := step_add h; simp_all [Event.actor]
  | enq b c => obtain ⟨_, _, _, rfl⟩ := step_enq h; simp_all [Event.actor]
  | deq b t => obtain ⟨_, _, _, rfl⟩ := step_deq h; simp_all [Event.actor]
  | aw b p => obtain ⟨_, _, _, rfl⟩ := step_aw h; simp_all [Event.actor]
  | awl b p => obtain ⟨_, _, _, rfl⟩ := step_awl h; simp_all [Event.actor]
  | aws b p => obtain ⟨_, _, _, rfl⟩ := step_aws h; simp_all [Event.actor]
  | awr b p => obtain ⟨_, _, _, rfl⟩ := step_awr h; simp_all [Event.actor]
  | reg b p => obtain ⟨_, _, rfl⟩ := step_reg h; simp_all [Event.actor]
  | unl b p => obtain ⟨_, rfl⟩ := step_unl h; simp_all [Event.actor]
  | res b p r => rcases step_res h with ⟨_, rfl⟩ | ⟨_, _, _, _, rfl⟩ <;> simp_all [Event.actor]
  | resl b p => obtain ⟨_, _, _, _, rfl⟩ := step_resl h; simp_all [Event.actor]
  | pub b p => obtain ⟨_, _, _, rfl⟩ := step_pub h; simp_all [Event.actor]
  | enqc b p c => obtain ⟨_, _, _, rfl⟩ := step_enqc h; simp_all [Event.actor]
  | resu b p => obtain ⟨_, rfl⟩ := step_resu h; simp_all [Event.actor]
  | newx b p => obtain ⟨_, _, _, rfl⟩ := step_newx h; rfl
  | syw b p => obtain ⟨_, _, _, rfl⟩ := step_syw h; simp_all [Event.actor]
  | sywd b p => obtain ⟨_, _, _, rfl⟩ := step_sywd h; simp_all [Event.actor]

theorem runTrace_act_other {N Q : Nat} (a : Nat) :
    ∀ (tr : List Event) (s s' : Sys), runTrace N Q s tr = some s' → (∀ e ∈ tr, e.actor ≠ a) → s'.act a = s.act a
  | [], s, s', h, _ => by simp [runTrace] at h; rw [h]
  | e :: es, s, s', h, hall => by
    simp only [runTrace] at h
    cases hs : stepB N Q s e with
    | none => simp [hs] at h
    | some s1 =>
      simp only [hs] at h
      have h1 := runTrace_act_other a es s1 s' h (fun e' he' => hall e' (List.mem_cons_of_mem _ he'))
      have h2 := step_act_other (N := N) (Q := Q) hs a (Ne.symm (hall e (List.mem_cons_self ..)))
      rw [h1, h2]

theorem reachable_runTrace {N Q : Nat} :
    ∀ (tr : List Event) (s s' : Sys), Reachable N Q s → runTrace N Q s tr = some s' → Reachable N Q s'
  | [], s, s', hr, h => by simp [runTrace] at h; rw [← h]; exact hr
  | e :: es, s, s', hr, h => by
    simp only [runTrace] at h
    cases hs : stepB N Q s e with
    | none => simp [hs] at h
    | some s1 =>
      simp only [hs] at h
      exact reachable_runTrace es s1 s' (Reachable.step hr hs) h

/-- a state in which every goroutine is idle, blocked in a send on the full queue, or parked in
    AwaitSync on an unsettled promise, and no pool worker is idle, has no progressing step -/
theorem stuck_of {N Q : Nat} {s : Sys}
    (hall : ∀ a, s.act a = .idle ∨ (∃ ret c, s.act a = .add ret c) ∨
                 (∃ ret p, s.act a = .wait ret p ∧ (s.prom p).settled = none))
    (hfull : Q ≤ s.queue.length) (hw : ∀ a, a < N → s.act a ≠ .idle) : ¬ Progress N Q s := by
  rintro ⟨e, s', hstep, hprog⟩
  cases e with
  | add a c =>
    obtain ⟨ret, hst, _, _⟩ := step_add hstep
    rcases starter_some hst with ⟨t, ht, _⟩ | ⟨hi, _, _⟩
    · rcases hall a with h | ⟨_, _, h⟩ | ⟨_, _, h, _⟩ <;> simp [ht] at h
    · rcases hprog with h | ⟨_, _, h⟩
      · exact h hi
      · cases h
  | newx a c =>
    obtain ⟨ret, hst, _, _⟩ := step_newx hstep
    rcases starter_some hst with ⟨t, ht, _⟩ | ⟨hi, _, _⟩
    · rcases hall a with h | ⟨_, _, h⟩ | ⟨_, _, h, _⟩ <;> simp [ht] at h
    · rcases hprog with h | ⟨_, _, h⟩
      · exact h hi
      · cases h
  | syw a c =>
    obtain ⟨ret, hst, _, _⟩ := step_syw hstep
    rcases starter_some hst with ⟨t, ht, _⟩ | ⟨hi, _, _⟩
    · rcases hall a with h | ⟨_, _, h⟩ | ⟨_, _, h, _⟩ <;> simp [ht] at h
    · rcases hprog with h | ⟨_, _, h⟩
      · exact h hi
      · cases h
  | enq a c => obtain ⟨_, _, hq, _⟩ := step_enq hstep; omega
  | deq a t => obtain ⟨hi, hn, _, _⟩ := step_deq hstep; exact hw a hn hi
  | sywd a p =>
    obtain ⟨ret, ha, hs, _⟩ := step_sywd hstep
    rcases hall a with h | ⟨_, _, h⟩ | ⟨_, _, h, hu⟩
    · simp [ha] at h
    · simp [ha] at h
    · simp only [ha, AState.wait.injEq] at h; obtain ⟨_, rfl⟩ := h; exact hs hu
  | aw a p => obtain ⟨t, ha, _, _⟩ := step_aw hstep; rcases hall a with h | ⟨_, _, h⟩ | ⟨_, _, h, _⟩ <;> simp [ha] at h
  | awl a p => obtain ⟨t, ha, _, _⟩ := step_awl hstep; rcases hall a with h | ⟨_, _, h⟩ | ⟨_, _, h, _⟩ <;> simp [ha] at h
  | aws a p => obtain ⟨t, ha, _, _⟩ := step_aws hstep; rcases hall a with h | ⟨_, _, h⟩ | ⟨_, _, h, _⟩ <;> simp [ha] at h
  | awr a p => obtain ⟨t, ha, _, _⟩ := step_awr hstep; rcases hall a with h | ⟨_, _, h⟩ | ⟨_, _, h, _⟩ <;> simp [ha] at h
  | reg a p => obtain ⟨t, ha, _⟩ := step_reg hstep; rcases hall a with h | ⟨_, _, h⟩ | ⟨_, _, h, _⟩ <;> simp [ha] at h
  | unl a p => obtain ⟨ha, _⟩ := step_unl hstep; rcases hall a with h | ⟨_, _, h⟩ | ⟨_, _, h, _⟩ <;> simp [ha] at h
  | res a p r =>
    rcases step_res hstep with ⟨ha, _⟩ | ⟨hi, _, _, _, _⟩
    · rcases hall a with h | ⟨_, _, h⟩ | ⟨_, _, h, _⟩ <;> simp [ha] at h
    · rcases hprog with h | ⟨_, _, h⟩
      · exact h hi
      · cases h
  | resl a p => obtain ⟨_, _, ha, _, _⟩ := step_resl hstep; rcases hall a with h | ⟨_, _, h⟩ | ⟨_, _, h, _⟩ <;> simp [ha] at h
  | pub a p => obtain ⟨_, _, ha, _⟩ := step_pub hstep; rcases hall a with h | ⟨_, _, h⟩ | ⟨_, _, h, _⟩ <;> simp [ha] at h
  | enqc a p c => obtain ⟨_, ha, _, _⟩ := step_enqc hstep; rcases hall a with h | ⟨_, _, h⟩ | ⟨_, _, h, _⟩ <;> simp [ha] at h
  | resu a p => obtain ⟨ha, _⟩ := step_resu hstep; rcases hall a with h | ⟨_, _, h⟩ | ⟨_, _, h, _⟩ <;> simp [ha] at h


/-- general shape of a stuck state: every goroutine is idle, blocked in a send on the full queue
    (`AddTask` or `enqueueContinuations`), waiting for a held promise mutex, or parked in AwaitSync on an
    unsettled promise; no pool worker is idle -/
theorem stuck_of' {N Q : Nat} {s : Sys}
    (hall : ∀ a, s.act a = .idle ∨ (∃ ret c, s.act a = .add ret c) ∨
                 (∃ ret p, s.act a = .wait ret p ∧ (s.prom p).settled = none) ∨
                 (∃ p c rest, s.act a = .resEnq p (c :: rest)) ∨
                 (∃ t p, s.act a = .awLock t p ∧ (s.prom p).locked ≠ none) ∨
                 (∃ own p r, s.act a = .resLock own p r ∧ (s.prom p).locked ≠ none))
    (hfull : Q ≤ s.queue.length) (hw : ∀ a, a < N → s.act a ≠ .idle) : ¬ Progress N Q s := by
  rintro ⟨e, s', hstep, hprog⟩
  have hidle : ∀ a, s.act a = .idle → e.actor = a → (∃ b t, e = .deq b t) → False := by
    intro a hi he ⟨b, t, hd⟩
    subst hd
    obtain ⟨_, hn, _, _⟩ := step_deq hstep
    simp only [Event.actor] at he; subst he
    exact hw _ hn hi
  -- the actor of the step and its state
  have key : ∀ a, e.actor = a → (s.act a ≠ .idle ∨ ∃ b t, e = .deq b t) := by
    intro a ha; subst ha; exact hprog
  cases e with
  | add a c =>
    obtain ⟨ret, hst, _, _⟩ := step_add hstep
    rcases starter_some hst with ⟨t, ht, _⟩ | ⟨hi, _, _⟩
    · rcases hall a with h | ⟨_, _, h⟩ | ⟨_, _, h, _⟩ | ⟨_, _, _, h⟩ | ⟨_, _, h, _⟩ | ⟨_, _, _, h, _⟩ <;> simp [ht] at h
    · rcases hprog with h | ⟨_, _, h⟩
      · exact h hi
      · cases h
  | newx a c =>
    obtain ⟨ret, hst, _, _⟩ := step_newx hstep
    rcases starter_some hst with ⟨t, ht, _⟩ | ⟨hi, _, _⟩
    · rcases hall a with h | ⟨_, _, h⟩ | ⟨_, _, h, _⟩ | ⟨_, _, _, h⟩ | ⟨_, _, h, _⟩ | ⟨_, _, _, h, _⟩ <;> simp [ht] at h
    · rcases hprog with h | ⟨_, _, h⟩
      · exact h hi
      · cases h
  | syw a c =>
    obtain ⟨ret, hst, _, _⟩ := step_syw hstep
    rcases starter_some hst with ⟨t, ht, _⟩ | ⟨hi, _, _⟩
    · rcases hall a with h | ⟨_, _, h⟩ | ⟨_, _, h, _⟩ | ⟨_, _, _, h⟩ | ⟨_, _, h, _⟩ | ⟨_, _, _, h, _⟩ <;> simp [ht] at h
    · rcases hprog with h | ⟨_, _, h⟩
      · exact h hi
      · cases h
  | enq a c => obtain ⟨_, _, hq, _⟩ := step_enq hstep; omega
  | enqc a p c => obtain ⟨_, _, hq, _⟩ := step_enqc hstep; omega
  | deq a t => obtain ⟨hi, hn, _, _⟩ := step_deq hstep; exact hw a hn hi
  | sywd a p =>
    obtain ⟨ret, ha, hs, _⟩ := step_sywd hstep
    rcases hall a with h | ⟨_, _, h⟩ | ⟨_, _, h, hu⟩ | ⟨_, _, _, h⟩ | ⟨_, _, h, _⟩ | ⟨_, _, _, h, _⟩ <;> simp [ha] at h
    obtain ⟨_, rfl⟩ := h; exact hs hu
  | awl a p =>
    obtain ⟨t, ha, hl, _⟩ := step_awl hstep
    rcases hall a with h | ⟨_, _, h⟩ | ⟨_, _, h, _⟩ | ⟨_, _, _, h⟩ | ⟨_, _, h, hk⟩ | ⟨_, _, _, h, _⟩ <;> simp [ha] at h
    obtain ⟨_, rfl⟩ := h; exact hk hl
  | resl a p =>
    obtain ⟨own, r, ha, hl, _⟩ := step_resl hstep
    rcases hall a with h | ⟨_, _, h⟩ | ⟨_, _, h, _⟩ | ⟨_, _, _, h⟩ | ⟨_, _, h, _⟩ | ⟨_, _, _, h, hk⟩ <;> simp [ha] at h
    obtain ⟨_, rfl, _⟩ := h; exact hk hl
  | aw a p => obtain ⟨t, ha, _, _⟩ := step_aw hstep; rcases hall a with h | ⟨_, _, h⟩ | ⟨_, _, h, _⟩ | ⟨_, _, _, h⟩ | ⟨_, _, h, _⟩ | ⟨_, _, _, h, _⟩ <;> simp [ha] at h
  | aws a p => obtain ⟨t, ha, _, _⟩ := step_aws hstep; rcases hall a with h | ⟨_, _, h⟩ | ⟨_, _, h, _⟩ | ⟨_, _, _, h⟩ | ⟨_, _, h, _⟩ | ⟨_, _, _, h, _⟩ <;> simp [ha] at h
  | awr a p => obtain ⟨t, ha, _, _⟩ := step_awr hstep; rcases hall a with h | ⟨_, _, h⟩ | ⟨_, _, h, _⟩ | ⟨_, _, _, h⟩ | ⟨_, _, h, _⟩ | ⟨_, _, _, h, _⟩ <;> simp [ha] at h
  | reg a p => obtain ⟨t, ha, _⟩ := step_reg hstep; rcases hall a with h | ⟨_, _, h⟩ | ⟨_, _, h, _⟩ | ⟨_, _, _, h⟩ | ⟨_, _, h, _⟩ | ⟨_, _, _, h, _⟩ <;> simp [ha] at h
  | unl a p => obtain ⟨ha, _⟩ := step_unl hstep; rcases hall a with h | ⟨_, _, h⟩ | ⟨_, _, h, _⟩ | ⟨_, _, _, h⟩ | ⟨_, _, h, _⟩ | ⟨_, _, _, h, _⟩ <;> simp [ha] at h
  | res a p r =>
    rcases step_res hstep with ⟨ha, _⟩ | ⟨hi, _, _, _, _⟩
    · rcases hall a with h | ⟨_, _, h⟩ | ⟨_, _, h, _⟩ | ⟨_, _, _, h⟩ | ⟨_, _, h, _⟩ | ⟨_, _, _, h, _⟩ <;> simp [ha] at h
    · rcases hprog with h | ⟨_, _, h⟩
      · exact h hi
      · cases h
  | pub a p => obtain ⟨_, _, ha, _⟩ := step_pub hstep; rcases hall a with h | ⟨_, _, h⟩ | ⟨_, _, h, _⟩ | ⟨_, _, _, h⟩ | ⟨_, _, h, _⟩ | ⟨_, _, _, h, _⟩ <;> simp [ha] at h
  | resu a p => obtain ⟨ha, _⟩ := step_resu hstep; rcases hall a with h | ⟨_, _, h⟩ | ⟨_, _, h, _⟩ | ⟨_, _, _, h⟩ | ⟨_, _, h, _⟩ | ⟨_, _, _, h, _⟩ <;> simp [ha] at h


/-! ### the ghost fields are never read -/

/-- two states with the same physical (non-ghost) fields -/
def SamePhys (s t : Sys) : Prop := s.act = t.act ∧ s.queue = t.queue ∧ s.prom = t.prom ∧ s.resumeOn = t.resumeOn

/-- result of a step up to ghost fields -/
def StepAgree (a b : Option Sys) : Prop :=
  match a, b with
  | some s', some t' => SamePhys s' t'
  | none, none => True
  | _, _ => False

set_option hygiene false in
macro "ghost_fin" : tactic => `(tactic|
  (simp only [StepAgree, SamePhys] <;> (repeat' split) <;> (try simp_all) <;>
     (try (rename_i hA hB; first | (obtain ⟨_, rfl⟩ := hA; subst hB; simp) | (subst hA; subst hB; simp)))))

set_option hygiene false in
macro "ghost_start" a:ident : tactic => `(tactic|
  (simp only [stepB, starter, setProm, h1, h2, h3, h4]
   cases hq : t.act $a
   case idle => by_cases hn : N ≤ $a <;> simp only [hn, if_true, if_false] <;> ghost_fin
   all_goals ghost_fin))

set_option hygiene false in
macro "ghost_case" a:ident : tactic => `(tactic|
  (simp only [stepB, starter, setProm, h1, h2, h3, h4]
   cases hq : t.act $a <;> simp only [StepAgree, SamePhys] <;> (repeat' split) <;> (try simp_all) <;>
     (try (rename_i hA hB; first | (obtain ⟨_, rfl⟩ := hA; subst hB; simp) | (subst hA; subst hB; simp)))))

theorem ghost_irrelevant {N Q : Nat} {s t : Sys} (h : SamePhys s t) (e : Event) :
    StepAgree (stepB N Q s e) (stepB N Q t e) := by
  obtain ⟨h1, h2, h3, h4⟩ := h
  cases e with
  | add a c => ghost_start a
  | enq a c => ghost_case a
  | deq a c => ghost_case a
  | aw a c => ghost_case a
  | awl a c => ghost_case a
  | aws a c => ghost_case a
  | awr a c => ghost_case a
  | reg a c => ghost_case a
  | unl a c => ghost_case a
  | res a c r => ghost_case a
  | resl a c => ghost_case a
  | pub a c => ghost_case a
  | enqc a p c =>
    simp only [stepB, setProm, h1, h2, h3, h4]
    cases hq : t.act a
    case resEnq p' rest => cases rest <;> ghost_fin
    all_goals ghost_fin
  | resu a c =>
    simp only [stepB, setProm, h1, h2, h3, h4]
    cases hq : t.act a
    case resEnq p' rest => cases rest <;> ghost_fin
    all_goals ghost_fin
  | newx a c => ghost_start a
  | syw a c => ghost_start a
  | sywd a c => ghost_case a

end Elk.Promise
