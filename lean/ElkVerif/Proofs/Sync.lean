import ElkVerif.Proofs.Str
import ElkVerif.Proofs.LastRune
/-! C20: UTF-8 is self-synchronising — concatenation at a rune start. -/
namespace Elk.Utf8

/-- appending something that starts with a non-continuation byte never changes how the bytes
before it decode (UTF-8 is self-synchronising) -/
theorem decodeRune_append_start (bs more : Bytes) (hne : bs ≠ [])
    (hm : ∀ m t, more = m :: t → isCont m = false) :
    decodeRune (bs ++ more) = decodeRune bs := by
  cases more with
  | nil => simp
  | cons m t =>
    have hmc := hm m t rfl
    have hk : ∀ x, ¬ (lo2 x ≤ m.toNat ∧ m.toNat ≤ hi2 x) := by
      intro x ⟨h1, h2⟩
      have a : 0x80 ≤ lo2 x := by unfold lo2; split <;> (try split) <;> omega
      have b : hi2 x ≤ 0xBF := by unfold hi2; split <;> (try split) <;> omega
      simp [isCont] at hmc
      omega
    match bs, hne with
    | [b0], _ =>
      simp only [List.cons_append, List.nil_append, decodeRune]
      repeat' split
      all_goals (try simp_all)
      all_goals (rename_i h; first | (have := hk _ h.1.1; omega) | (have := hk _ h.1.1.1; omega) | (have := hk _ h.1; omega))
    | [b0, b1], _ =>
      simp only [List.cons_append, List.nil_append, decodeRune]
      repeat' split
      all_goals (try simp_all)
      all_goals (rename_i h; first | (have := hk _ h.1.1; omega) | (have := hk _ h.1.1.1; omega) | (have := hk _ h.1; omega))
    | [b0, b1, b2], _ =>
      simp only [List.cons_append, List.nil_append, decodeRune]
      repeat' split
      all_goals (try simp_all)
      all_goals (rename_i h; first | (have := hk _ h.1.1; omega) | (have := hk _ h.1.1.1; omega) | (have := hk _ h.1; omega))
    | b0 :: b1 :: b2 :: b3 :: r, _ =>
      simp only [List.cons_append, decodeRune]

/-- `b` is empty or starts with a byte that is not a continuation byte -/
def StartsAtRune (b : Bytes) : Prop := ∀ m t, b = m :: t → isCont m = false

/-- the decoder is a monoid morphism whenever the right operand starts at a rune start — for
**every** left operand, valid or not -/
theorem pieces_append_start : ∀ (n : Nat) (a : Bytes), a.length = n → ∀ b : Bytes, StartsAtRune b →
    pieces (a ++ b) = pieces a ++ pieces b := by
  intro n
  induction n using Nat.strongRecOn with
  | _ n ih =>
    intro a ha b hb
    cases a with
    | nil => simp [pieces_nil]
    | cons x xs =>
      have h1 := decodeRune_width_pos (x :: xs) (by simp)
      have h2 := decodeRune_width_le (x :: xs)
      have hd : decodeRune (x :: xs ++ b) = decodeRune (x :: xs) := decodeRune_append_start (x :: xs) b (by simp) hb
      have hp : pieces (x :: xs ++ b) =
          decodeRune (x :: xs ++ b) :: pieces ((x :: xs ++ b).drop (decodeRune (x :: xs ++ b)).2) :=
        pieces_cons x (xs ++ b)
      rw [pieces_cons x xs, hp, hd, List.drop_append_of_le_length h2]
      rw [ih _ (by simp only [List.length_drop, List.length_cons] at *; omega) _ rfl b hb]
      simp

theorem encodeRune_starts (c : Nat) (hv : ValidScalar c) (rest : Bytes) : StartsAtRune (encodeRune c ++ rest) := by
  intro m t h
  rcases encodeRune_shape c hv with ⟨hc, he⟩ | ⟨b0, b1, he, h0, _⟩ | ⟨b0, b1, b2, he, h0, _⟩ | ⟨b0, b1, b2, b3, he, h0, _⟩
  · rw [he] at h; injection h with h _; subst h
    simp [isCont, byte_toNat c (by omega)]; omega
  · rw [he] at h; injection h with h _; subst h; exact h0
  · rw [he] at h; injection h with h _; subst h; exact h0
  · rw [he] at h; injection h with h _; subst h; exact h0

theorem pad_starts (k : Nat) (c : Int) : StartsAtRune (List.replicate k (encodeRuneInt c)).flatten := by
  obtain ⟨r, hv, he⟩ := encodeRuneInt_scalar c
  cases k with
  | zero => intro m t h; simp at h
  | succ j =>
    rw [List.replicate_succ, List.flatten_cons, he]
    exact encodeRune_starts r hv _

end Elk.Utf8

namespace Elk.Str
open Elk.Utf8

theorem charCount_append_start (a b : Bytes) (hb : StartsAtRune b) : charCount (a ++ b) = charCount a + charCount b := by
  simp [charCount, runeCount, pieces_append_start a.length a rfl b hb]

theorem charIter_append_start (a b : Bytes) (hb : StartsAtRune b) : charIter (a ++ b) = charIter a ++ charIter b := by
  simp [charIter, runes, pieces_append_start a.length a rfl b hb]

theorem charCount_pad_right (k : Nat) (c : Int) (s : Bytes) :
    charCount (s ++ (List.replicate k (encodeRuneInt c)).flatten) = charCount s + k := by
  rw [charCount_append_start s _ (pad_starts k c)]
  have := charCount_pad k c []
  simp only [List.append_nil] at this
  rw [this]
  simp [charCount, runeCount, pieces_nil]

end Elk.Str
