import ElkVerif.Proofs.Inspect
/-! C19: `String#to_int` (`ParseBigIntWithErr`) denotes the written value. -/
namespace Elk.Inspect
open Elk.Utf8

/-- canonical character of a digit value below 36 (`0-9a-z`) -/
def digitByte36 (d : Nat) : UInt8 := if d < 10 then byte (0x30 + d) else byte (0x61 + (d - 10))
/-- the upper-case variant (`0-9A-Z`) -/
def digitByte36U (d : Nat) : UInt8 := if d < 10 then byte (0x30 + d) else byte (0x41 + (d - 10))

theorem digitOf_digitByte36 (d : Nat) (h : d < 36) : digitOf (digitByte36 d) = .val d := by
  have : ∀ d : Fin 36, digitOf (digitByte36 d.val) = .val d.val := by decide
  exact this ⟨d, h⟩

theorem digitOf_digitByte36U (d : Nat) (h : d < 36) : digitOf (digitByte36U d) = .val d := by
  have : ∀ d : Fin 36, digitOf (digitByte36U d.val) = .val d.val := by decide
  exact this ⟨d, h⟩

/-- one character of a `to_int` argument: an underscore, or a digit in lower or upper case -/
inductive TChar where
  | us
  | lo (d : Nat)
  | up (d : Nat)

def TChar.byte : TChar → UInt8
  | .us => 0x5F
  | .lo d => digitByte36 d
  | .up d => digitByte36U d

def TChar.val? : TChar → Option Nat
  | .us => none
  | .lo d => some d
  | .up d => some d

def TChar.ok (base : Nat) : TChar → Prop
  | .us => True
  | .lo d => d < base
  | .up d => d < base

/-- the digit loop skips `_` and accumulates positionally -/
theorem parseDigits_tchars (base : Nat) (hb : base ≤ 36) : ∀ (xs : List TChar) (acc : Nat),
    (∀ x ∈ xs, x.ok base) →
    parseDigits base (xs.map TChar.byte) acc = .ok (ofDigits base acc (xs.filterMap TChar.val?)) := by
  intro xs
  induction xs with
  | nil => intro acc _; simp [parseDigits, ofDigits]
  | cons x t ih =>
    intro acc h
    have ht := fun a => ih a (fun y hy => h y (by simp [hy]))
    have hx := h x (by simp)
    cases x with
    | us =>
      have : digitOf (0x5F : UInt8) = .skip := by decide
      simp only [List.map_cons, TChar.byte, parseDigits, this, List.filterMap_cons, TChar.val?]
      exact ht acc
    | lo d =>
      simp only [TChar.ok] at hx
      have hn : ¬ d ≥ base := by omega
      simp only [List.map_cons, TChar.byte, parseDigits, digitOf_digitByte36 d (by omega), hn, if_false,
        List.filterMap_cons, TChar.val?]
      rw [ht]; simp [ofDigits]
    | up d =>
      simp only [TChar.ok] at hx
      have hn : ¬ d ≥ base := by omega
      simp only [List.map_cons, TChar.byte, parseDigits, digitOf_digitByte36U d (by omega), hn, if_false,
        List.filterMap_cons, TChar.val?]
      rw [ht]; simp [ofDigits]

theorem tchar_byte_not_sign (x : TChar) (base : Nat) (hb : base ≤ 36) (hx : x.ok base) :
    x.byte ≠ 0x2B ∧ x.byte ≠ 0x2D := by
  cases x with
  | us => decide
  | lo d =>
    simp only [TChar.ok] at hx
    have : ∀ d : Fin 36, digitByte36 d.val ≠ 0x2B ∧ digitByte36 d.val ≠ 0x2D := by decide
    exact this ⟨d, by omega⟩
  | up d =>
    simp only [TChar.ok] at hx
    have : ∀ d : Fin 36, digitByte36U d.val ≠ 0x2B ∧ digitByte36U d.val ≠ 0x2D := by decide
    exact this ⟨d, by omega⟩

/-- `s.to_int(base)` for an explicit base 2…36: optional sign, then digits (either case) and `_`
in any arrangement; the result is exactly the positional value of the digits. -/
theorem parseBigInt_explicit (base : Nat) (h2 : 2 ≤ base) (h36 : base ≤ 36) (xs : List TChar) (hne : xs ≠ [])
    (hok : ∀ x ∈ xs, x.ok base) :
    parseBigInt (xs.map TChar.byte) base = .ok (ofDigits base 0 (xs.filterMap TChar.val?) : Int) ∧
    parseBigInt (0x2D :: xs.map TChar.byte) base = .ok (-(ofDigits base 0 (xs.filterMap TChar.val?) : Int)) ∧
    parseBigInt (0x2B :: xs.map TChar.byte) base = .ok (ofDigits base 0 (xs.filterMap TChar.val?) : Int) := by
  have hu : parseUBigInt (xs.map TChar.byte) base = .ok (ofDigits base 0 (xs.filterMap TChar.val?)) := by
    unfold parseUBigInt
    have h1 : ¬ (xs.map TChar.byte = []) := by simpa using hne
    have h3 : (2 : Int) ≤ base ∧ (base : Int) ≤ 36 := by omega
    rw [if_neg h1, if_pos h3]
    simpa using parseDigits_tchars base h36 xs 0 hok
  refine ⟨?_, ?_, ?_⟩
  · cases xs with
    | nil => exact absurd rfl hne
    | cons x t =>
      obtain ⟨n1, n2⟩ := tchar_byte_not_sign x base h36 (hok x (by simp))
      simp only [List.map_cons] at hu ⊢
      simp only [parseBigInt, n1, n2, if_false, hu]
      rfl
  · simp only [parseBigInt]
    have : ¬ ((0x2D : UInt8) = 0x2B) := by decide
    simp only [this, if_false, if_true, hu]
    rfl
  · simp only [parseBigInt, if_true, hu]
    rfl

end Elk.Inspect

namespace Elk.Inspect
open Elk.Utf8

/-- `s.to_int` (base 0) with a base prefix `0x 0d 0o 0q 0b` (either case is accepted by
`letterToLower`; the lower-case form is stated) -/
theorem parseBigInt_prefixed (base : Nat) (hb : LitBase base) (h10 : base ≠ 10) (xs : List TChar) (hne : xs ≠ [])
    (hok : ∀ x ∈ xs, x.ok base) :
    parseBigInt (litPrefix base ++ xs.map TChar.byte) 0 = .ok (ofDigits base 0 (xs.filterMap TChar.val?) : Int) := by
  have h36 : base ≤ 36 := by unfold LitBase at hb; omega
  have hd := parseDigits_tchars base h36 xs 0 hok
  have hne' : xs.map TChar.byte ≠ [] := by simpa using hne
  have key : ∀ letter : UInt8, litPrefix base = [0x30, letter] →
      detectBase ((0x30 : UInt8) :: letter :: xs.map TChar.byte) = (base, xs.map TChar.byte) →
      parseBigInt (litPrefix base ++ xs.map TChar.byte) 0 = .ok (ofDigits base 0 (xs.filterMap TChar.val?) : Int) := by
    intro letter hp hdet
    rw [hp]
    simp only [List.cons_append, List.nil_append, parseBigInt]
    have n1 : ¬ ((0x30 : UInt8) = 0x2B) := by decide
    have n2 : ¬ ((0x30 : UInt8) = 0x2D) := by decide
    simp only [n1, n2, if_false, parseUBigInt]
    have n3 : ¬ ((0x30 : UInt8) :: letter :: xs.map TChar.byte = []) := by simp
    have n4 : ¬ ((2 : Int) ≤ 0 ∧ (0 : Int) ≤ 36) := by omega
    simp only [n3, n4, if_false, if_true, hdet, hd]
    rfl
  rcases hb with rfl | rfl | rfl | rfl | rfl | rfl
  · exact key 0x62 (by simp [litPrefix]) (by simp [detectBase, hne', lowerByte])
  · exact key 0x71 (by simp [litPrefix]) (by simp [detectBase, hne', lowerByte])
  · exact key 0x6F (by simp [litPrefix]) (by simp [detectBase, hne', lowerByte])
  · exact absurd rfl h10
  · exact key 0x64 (by simp [litPrefix]) (by simp [detectBase, hne', lowerByte])
  · exact key 0x78 (by simp [litPrefix]) (by simp [detectBase, hne', lowerByte])

end Elk.Inspect
