import ElkVerif.Proofs.MiniSoundB
/-!
Soundness of the full MiniElk checker: one combined statement over the five mutually recursive
evaluator functions, by induction on the evaluator's fuel (the checker's fuel is arbitrary).
-/
namespace Elk.Mini

/-- result of an expression of type `t` started in a store typed by `S` -/
def ERes (defs : List Def) (S : List T) (t : T) (r : Out × St) : Prop :=
  ∃ S', Ext S S' ∧ StOk defs S' r.2 ∧ OutOk defs S' [] none t r.1

def ARes (defs : List Def) (S : List T) (ts : List T) (r : (List Val ⊕ Out) × St) : Prop :=
  ∃ S', Ext S S' ∧ StOk defs S' r.2 ∧
    match r.1 with
    | .inl vs => ValsOk defs S' vs ts
    | .inr o => OutOk defs S' [] none .never o

/-- result of a statement/block of type `t` that leaves the context `g'` -/
def SRes (defs : List Def) (S : List T) (c : Ctx) (t : T) (g' : TEnvB) (r : Out × Env × St) : Prop :=
  ∃ S', Ext S S' ∧ StOk defs S' r.2.2 ∧ OutOk defs S' c.labels c.ret t r.1 ∧
    (∀ v, r.1 = .val v → EnvOkB S' g' r.2.1)

def CRes (defs : List Def) (S : List T) (c : Ctx) (t : T) (r : Out × St) : Prop :=
  ∃ S', Ext S S' ∧ StOk defs S' r.2 ∧ OutOk defs S' c.labels c.ret t r.1

structure SoundAt (defs : List Def) (n : Nat) : Prop where
  expr : ∀ S g env s e k t, StOk defs S s → EnvOkB S g env → checkExpr defs k g e = some t →
    ERes defs S t (evalExpr defs n env s e)
  args : ∀ S g env s es k ts, StOk defs S s → EnvOkB S g env → checkArgs defs k g es = some ts →
    ARes defs S ts (evalArgs defs n env s es)
  block : ∀ S c env s ss k t g', StOk defs S s → EnvOkB S c.vars env →
    checkBlock defs k c ss = some (t, g') → SRes defs S c t g' (execBlock defs n env s ss)
  stmt : ∀ S c env s st k t g', StOk defs S s → EnvOkB S c.vars env →
    checkStmt defs k c st = some (t, g') → SRes defs S c t g' (execStmt defs n env s st)
  catches : ∀ S c env s v cs k t, StOk defs S s → EnvOkB S c.vars env →
    checkCatches defs k c cs = some t → CRes defs S c t (execCatches defs n env s v cs)

theorem soundAt_zero (defs : List Def) : SoundAt defs 0 := by
  constructor
  · intro S g env s e k t hs _ _; exact ⟨S, Ext.refl S, by simpa [evalExpr] using hs, by simp [evalExpr, OutOk]⟩
  · intro S g env s e k t hs _ _; exact ⟨S, Ext.refl S, by simpa [evalArgs] using hs, by simp [evalArgs, OutOk]⟩
  · intro S c env s ss k t g' hs _ _
    exact ⟨S, Ext.refl S, by simpa [execBlock] using hs, by simp [execBlock, OutOk], by simp [execBlock]⟩
  · intro S c env s ss k t g' hs _ _
    exact ⟨S, Ext.refl S, by simpa [execStmt] using hs, by simp [execStmt, OutOk], by simp [execStmt]⟩
  · intro S c env s v cs k t hs _ _
    exact ⟨S, Ext.refl S, by simpa [execCatches] using hs, by simp [execCatches, OutOk]⟩

theorem ERes.nonval {defs : List Def} {S S1 : List T} {t t' : T} {o : Out} {s1 : St}
    (hx : Ext S S1) (hs : StOk defs S1 s1) (ho : OutOk defs S1 [] none t' o) (hv : ∀ v, o ≠ .val v) :
    ERes defs S t (o, s1) := ⟨S1, hx, hs, ho.retype hv⟩

theorem ERes.val {defs : List Def} {S S1 : List T} {t : T} {v : Val} {s1 : St}
    (hx : Ext S S1) (hs : StOk defs S1 s1) (hv : HasTy defs S1 v t) :
    ERes defs S t (.val v, s1) := ⟨S1, hx, hs, hv⟩

theorem ERes.ext {defs : List Def} {S S1 : List T} {t : T} {r : Out × St}
    (hx : Ext S S1) (h : ERes defs S1 t r) : ERes defs S t r := by
  obtain ⟨S2, hx2, h2⟩ := h
  exact ⟨S2, hx.trans hx2, h2⟩

theorem binopB_sound {defs : List Def} {S : List T} {op : BinOp} {ta tb t : T} {va vb : Val}
    (hc : checkBinB op ta tb = some t) (ha : HasTy defs S va ta) (hb : HasTy defs S vb tb) :
    OutOk defs S [] none t (binop op va vb) := by
  cases op
  case eq => simp [checkBinB] at hc; subst hc; simp [binop, OutOk, HasTy]
  case ne => simp [checkBinB] at hc; subst hc; simp [binop, OutOk, HasTy]
  all_goals
    cases ta <;> try (simp [checkBinB] at hc)
    all_goals
      cases tb <;> try (simp at hc)
      all_goals
        subst hc
        simp only [HasTy] at ha hb
        obtain ⟨x, rfl⟩ := ha
        obtain ⟨y, rfl⟩ := hb
        simp only [binop]
        first
          | (by_cases hy : y = 0 <;> simp [hy, OutOk, HasTy])
          | simp [OutOk, HasTy]

theorem unopB_sound {defs : List Def} {S : List T} {op : UnOp} {ta t : T} {va : Val}
    (hc : checkUnB op ta = some t) (ha : HasTy defs S va ta) :
    OutOk defs S [] none t (unop op va) := by
  cases op
  case not => simp [checkUnB] at hc; subst hc; simp [unop, OutOk, HasTy]
  case neg =>
    cases ta <;> simp [checkUnB] at hc
    subst hc
    simp only [HasTy] at ha
    obtain ⟨x, rfl⟩ := ha
    simp [unop, OutOk, HasTy]

theorem ERes.weaken {defs : List Def} {S S1 : List T} {t t' : T} {r : Out × St}
    (hx : Ext S S1) (h : ERes defs S1 t r)
    (hw : ∀ S' v, HasTy defs S' v t → HasTy defs S' v t') : ERes defs S t' r := by
  obtain ⟨S2, hx2, hs2, ho2⟩ := h
  refine ⟨S2, hx.trans hx2, hs2, ?_⟩
  rcases r with ⟨o, s⟩
  cases o with
  | val v => exact hw _ _ ho2
  | _ => exact ho2

theorem OutOk.of_never {defs : List Def} {S : List T} {L ret t} {o : Out}
    (h : OutOk defs S L ret .never o) : OutOk defs S L ret t o := by
  cases o with
  | val v => simp [OutOk, HasTy] at h
  | _ => exact h

theorem callResult_ok {defs : List Def} {S : List T} {tv r : T} {o : Out}
    (h : OutOk defs S [] (some r) tv o) (hf : fits tv r = true) : OutOk defs S [] none r (callResult o) := by
  cases o with
  | val v => exact fits_sound h hf
  | ret v => obtain ⟨r', h1, h2⟩ := h; cases h1; exact h2
  | brk l => simp [OutOk, lblOk_nil] at h
  | cont l => simp [OutOk, lblOk_nil] at h
  | thrw v => trivial
  | stuck w => exact h
  | timeout => trivial

/-- binding the arguments and running a well-typed body -/
theorem call_ok {defs : List Def} {n : Nat} (ih : SoundAt defs n) {S1 : List T} {ps : List String}
    {vs : List Val} {pts : List T} {cenv : Env} {gc : TEnvB} {sa : St} {body : List Stmt} {r tv : T}
    {kd : Nat} {g' : TEnvB}
    (hlen : ps.length = pts.length) (hv : ValsOk defs S1 vs pts) (hs1 : StOk defs S1 sa)
    (hec : EnvOkB S1 gc cenv)
    (hcb : checkBlock defs kd ⟨bindTys ps pts gc, [], some r, ps⟩ body = some (tv, g'))
    (hf : fits tv r = true) :
    ∃ env' s2, bindParams ps vs cenv sa = some (env', s2) ∧
      ERes defs S1 r (callResult (execBlock defs n env' s2 body).1, (execBlock defs n env' s2 body).2.2) := by
  obtain ⟨env', s2, hb, hs2, he2⟩ := bindParams_ok ps vs pts S1 gc cenv sa hlen hv hs1 hec
  refine ⟨env', s2, hb, ?_⟩
  obtain ⟨S3, hx3, hs3, ho3, _⟩ := ih.block (S1 ++ pts) ⟨bindTys ps pts gc, [], some r, ps⟩ env' s2 body kd tv g' hs2 he2 hcb
  exact ⟨S3, Ext.trans ⟨pts, rfl⟩ hx3, hs3, callResult_ok ho3 hf⟩

theorem defSig_length {d : Def} {sig : List T × T} (h : defSig d = some sig) :
    (d.params.map (·.1)).length = sig.1.length := by
  simp only [defSig] at h
  split at h
  · rename_i pts r hp _
    cases h
    simp [ofTys_length _ _ hp]
  · cases h


theorem sound_expr_succ (defs : List Def) (hd : DefsOk defs) (n : Nat) (ih : SoundAt defs n) :
    ∀ S g env s e k t, StOk defs S s → EnvOkB S g env → checkExpr defs k g e = some t →
      ERes defs S t (evalExpr defs (n + 1) env s e) := by
  intro S g env s e k t hs he hc
  cases k with
  | zero => simp [checkExpr] at hc
  | succ k =>
  cases e with
  | int v => simp only [checkExpr] at hc; cases hc; exact ⟨S, Ext.refl S, hs, by simp [evalExpr, OutOk, HasTy]⟩
  | bool v => simp only [checkExpr] at hc; cases hc; exact ⟨S, Ext.refl S, hs, by simp [evalExpr, OutOk, HasTy]⟩
  | str v => simp only [checkExpr] at hc; cases hc; exact ⟨S, Ext.refl S, hs, by simp [evalExpr, OutOk, HasTy]⟩
  | nil => simp only [checkExpr] at hc; cases hc; exact ⟨S, Ext.refl S, hs, by simp [evalExpr, OutOk, HasTy]⟩
  | var x =>
    simp only [checkExpr] at hc
    obtain ⟨i, hl, hi⟩ := he x t hc
    obtain ⟨v, hr, hv⟩ := hs.read hi
    exact ⟨S, Ext.refl S, by simpa [evalExpr, hl, hr] using hs, by simpa [evalExpr, hl, hr, OutOk] using hv⟩
  | bin op a b =>
    simp only [checkExpr, Option.bind_eq_some_iff] at hc
    obtain ⟨ta, hca, tb, hcb, hc⟩ := hc
    obtain ⟨S1, hx1, hs1, ho1⟩ := ih.expr S g env s a k ta hs he hca
    simp only [evalExpr]
    rcases hea : evalExpr defs n env s a with ⟨oa, sa⟩
    rw [hea] at hs1 ho1
    cases oa with
    | val va =>
      obtain ⟨S2, hx2, hs2, ho2⟩ := ih.expr S1 g env sa b k tb hs1 (he.mono hx1) hcb
      simp only
      rcases heb : evalExpr defs n env sa b with ⟨ob, sb⟩
      rw [heb] at hs2 ho2
      cases ob with
      | val vb => exact ⟨S2, hx1.trans hx2, hs2, binopB_sound hc (HasTy.mono hx2 _ ho1) ho2⟩
      | _ => exact ERes.nonval (hx1.trans hx2) hs2 ho2 (fun _ h => by cases h)
    | _ => exact ERes.nonval hx1 hs1 ho1 (fun _ h => by cases h)
  | un op a =>
    simp only [checkExpr, Option.bind_eq_some_iff] at hc
    obtain ⟨ta, hca, hc⟩ := hc
    obtain ⟨S1, hx1, hs1, ho1⟩ := ih.expr S g env s a k ta hs he hca
    simp only [evalExpr]
    rcases hea : evalExpr defs n env s a with ⟨oa, sa⟩
    rw [hea] at hs1 ho1
    cases oa with
    | val va => exact ⟨S1, hx1, hs1, unopB_sound hc ho1⟩
    | _ => exact ERes.nonval hx1 hs1 ho1 (fun _ h => by cases h)
  | and a b =>
    simp only [checkExpr, Option.bind_eq_some_iff] at hc
    obtain ⟨ta, hca, tb, hcb, hc⟩ := hc
    cases hc
    obtain ⟨S1, hx1, hs1, ho1⟩ := ih.expr S g env s a k ta hs he hca
    simp only [evalExpr]
    rcases hea : evalExpr defs n env s a with ⟨oa, sa⟩
    rw [hea] at hs1 ho1
    cases oa with
    | val va =>
      simp only
      by_cases htr : va.truthy = true
      · simp only [htr, if_true]
        exact (ih.expr S1 g env sa b k tb hs1 (he.mono hx1) hcb).weaken hx1 (fun _ _ => join_right)
      · simp only [htr]
        exact ⟨S1, hx1, hs1, join_left ho1⟩
    | _ => exact ERes.nonval hx1 hs1 ho1 (fun _ h => by cases h)
  | or a b =>
    simp only [checkExpr, Option.bind_eq_some_iff] at hc
    obtain ⟨ta, hca, tb, hcb, hc⟩ := hc
    cases hc
    obtain ⟨S1, hx1, hs1, ho1⟩ := ih.expr S g env s a k ta hs he hca
    simp only [evalExpr]
    rcases hea : evalExpr defs n env s a with ⟨oa, sa⟩
    rw [hea] at hs1 ho1
    cases oa with
    | val va =>
      simp only
      by_cases htr : va.truthy = true
      · simp only [htr, if_true]
        exact ⟨S1, hx1, hs1, join_left ho1⟩
      · simp only [htr]
        exact (ih.expr S1 g env sa b k tb hs1 (he.mono hx1) hcb).weaken hx1 (fun _ _ => join_right)
    | _ => exact ERes.nonval hx1 hs1 ho1 (fun _ h => by cases h)
  | nilco a b =>
    simp only [checkExpr, Option.bind_eq_some_iff] at hc
    obtain ⟨ta, hca, tb, hcb, hc⟩ := hc
    cases hc
    obtain ⟨S1, hx1, hs1, ho1⟩ := ih.expr S g env s a k ta hs he hca
    simp only [evalExpr]
    rcases hea : evalExpr defs n env s a with ⟨oa, sa⟩
    rw [hea] at hs1 ho1
    cases oa with
    | val va =>
      cases va with
      | nil => exact (ih.expr S1 g env sa b k tb hs1 (he.mono hx1) hcb).weaken hx1 (fun _ _ => join_right)
      | _ => exact ⟨S1, hx1, hs1, join_left (nonNil_sound ho1 (fun h => by cases h))⟩
    | _ => exact ERes.nonval hx1 hs1 ho1 (fun _ h => by cases h)
  | assign x rhs =>
    simp only [checkExpr, Option.bind_eq_some_iff] at hc
    obtain ⟨tx, hlx, t', hcr, hc⟩ := hc
    simp only [assignTy] at hc
    split at hc
    · rename_i hf
      cases hc
      obtain ⟨i, hl, hi⟩ := he x tx hlx
      obtain ⟨S1, hx1, hs1, ho1⟩ := ih.expr S g env s rhs k t hs he hcr
      simp only [evalExpr]
      rcases hea : evalExpr defs n env s rhs with ⟨oa, sa⟩
      rw [hea] at hs1 ho1
      cases oa with
      | val va =>
        simp only [hl]
        exact ⟨S1, hx1, hs1.write (hx1.get hi) (fits_sound ho1 hf), ho1⟩
      | _ => exact ERes.nonval hx1 hs1 ho1 (fun _ h => by cases h)
    · cases hc
  | callDef f args =>
    simp only [checkExpr, Option.bind_eq_some_iff] at hc
    obtain ⟨d, hfd, sig, hsig, ts, hca, hc⟩ := hc
    simp only [callTy] at hc
    split at hc
    · rename_i hfit
      cases hc
      obtain ⟨S1, hx1, hs1, ho1⟩ := ih.args S g env s args k ts hs he hca
      simp only [evalExpr]
      rcases hea : evalArgs defs n env s args with ⟨ra, sa⟩
      rw [hea] at hs1 ho1
      cases ra with
      | inr o => exact ⟨S1, hx1, hs1, OutOk.of_never ho1⟩
      | inl vs =>
        simp only [hfd]
        have hmem : d ∈ defs := List.mem_of_find?_eq_some hfd
        obtain ⟨kd, hkd⟩ := hd d hmem
        simp only [checkDef, hsig] at hkd
        split at hkd
        · rename_i tv g' hcb
          simp only [Bool.and_eq_true] at hkd
          obtain ⟨env', s2, hb, hres⟩ := call_ok ih (defSig_length hsig) (ValsOk.fits ho1 hfit) hs1
            (fun _ _ h => by simp [lookupT] at h) hcb hkd.1
          rw [hb]
          exact hres.ext hx1
        · cases hkd
    · cases hc
  | callClo f args =>
    simp only [checkExpr, Option.bind_eq_some_iff] at hc
    obtain ⟨tf, hcf, ts, hca, hc⟩ := hc
    cases tf with
    | fn pts r =>
      simp only [calleeTy, callTy] at hc
      split at hc
      · rename_i hfit
        cases hc
        obtain ⟨S1, hx1, hs1, ho1⟩ := ih.expr S g env s f k _ hs he hcf
        simp only [evalExpr]
        rcases hef : evalExpr defs n env s f with ⟨of, sf⟩
        rw [hef] at hs1 ho1
        cases of with
        | val vf =>
          obtain ⟨ps, body, cenv, rfl, hclo⟩ := ho1
          simp only
          obtain ⟨S2, hx2, hs2, ho2⟩ := ih.args S1 g env sf args k ts hs1 (he.mono hx1) hca
          rcases hea : evalArgs defs n env sf args with ⟨ra, sa⟩
          rw [hea] at hs2 ho2
          cases ra with
          | inr o => exact ⟨S2, hx1.trans hx2, hs2, OutOk.of_never ho2⟩
          | inl vs =>
            obtain ⟨hlen, gc, kc, tv, g', hec, hcb, hfr⟩ := hclo.mono hx2
            obtain ⟨env', s2, hb, hres⟩ := call_ok ih hlen (ValsOk.fits ho2 hfit) hs2 hec hcb hfr
            simp only [hb]
            exact hres.ext (hx1.trans hx2)
        | _ => exact ERes.nonval hx1 hs1 ho1 (fun _ h => by cases h)
      · cases hc
    | _ => simp [calleeTy] at hc
  | lam ps rt body =>
    simp only [checkExpr, Option.bind_eq_some_iff] at hc
    obtain ⟨pts, hpts, r, hr, tv, hcb, hc⟩ := hc
    split at hc
    · rename_i hf
      cases hc
      simp only [Bool.and_eq_true] at hf
      refine ⟨S, Ext.refl S, by simpa [evalExpr] using hs, ?_⟩
      simp only [evalExpr, OutOk, HasTy]
      refine ⟨_, _, _, rfl, ?_, g, k, tv.1, tv.2, he, hcb, hf.1⟩
      simp [ofTys_length _ _ hpts]
    · cases hc

theorem sound_args_succ (defs : List Def) (n : Nat) (ih : SoundAt defs n) :
    ∀ S g env s es k ts, StOk defs S s → EnvOkB S g env → checkArgs defs k g es = some ts →
      ARes defs S ts (evalArgs defs (n + 1) env s es) := by
  intro S g env s es k ts hs he hc
  cases k with
  | zero => simp [checkArgs] at hc
  | succ k =>
  cases es with
  | nil =>
    simp only [checkArgs] at hc; cases hc
    exact ⟨S, Ext.refl S, by simpa [evalArgs] using hs, by simp [evalArgs, ValsOk]⟩
  | cons a rest =>
    simp only [checkArgs, Option.bind_eq_some_iff] at hc
    obtain ⟨t, hca, ts', hcr, hc⟩ := hc
    cases hc
    obtain ⟨S1, hx1, hs1, ho1⟩ := ih.expr S g env s a k t hs he hca
    simp only [evalArgs]
    rcases hea : evalExpr defs n env s a with ⟨oa, sa⟩
    rw [hea] at hs1 ho1
    cases oa with
    | val va =>
      obtain ⟨S2, hx2, hs2, ho2⟩ := ih.args S1 g env sa rest k ts' hs1 (he.mono hx1) hcr
      simp only
      rcases her : evalArgs defs n env sa rest with ⟨rr, sr⟩
      rw [her] at hs2 ho2
      cases rr with
      | inl vs => exact ⟨S2, hx1.trans hx2, hs2, HasTy.mono hx2 _ ho1, ho2⟩
      | inr o => exact ⟨S2, hx1.trans hx2, hs2, ho2⟩
    | _ => exact ⟨S1, hx1, hs1, ho1.retype (fun _ h => by cases h)⟩

theorem patTy_sound {defs : List Def} {S : List T} {p : Pat} {v : Val} (h : p.matches v = true) :
    HasTy defs S v (patTy p) := by
  cases p <;> cases v <;> simp_all [Pat.matches, patTy, HasTy]

theorem sound_catches_succ (defs : List Def) (n : Nat) (ih : SoundAt defs n) :
    ∀ S c env s v cs k t, StOk defs S s → EnvOkB S c.vars env → checkCatches defs k c cs = some t →
      CRes defs S c t (execCatches defs (n + 1) env s v cs) := by
  intro S c env s v cs k t hs he hc
  cases k with
  | zero => simp [checkCatches] at hc
  | succ k =>
  cases cs with
  | nil => exact ⟨S, Ext.refl S, by simpa [execCatches] using hs, by simp [execCatches, OutOk]⟩
  | cons ct rest =>
    cases ct with
    | mk p x body =>
      simp only [checkCatches, Option.bind_eq_some_iff] at hc
      obtain ⟨rb, hcb, tr, hcr, hc⟩ := hc
      cases hc
      simp only [execCatches]
      by_cases hp : p.matches v = true
      · simp only [hp, if_true]
        obtain ⟨hi, hs1⟩ := hs.alloc (patTy_sound (defs := defs) (S := S) hp)
        have he1 := he.cons x (patTy p)
        rw [← hi] at he1
        obtain ⟨S2, hx2, hs2, ho2, _⟩ := ih.block (S ++ [patTy p]) { c with vars := (x, patTy p) :: c.vars, scope := [x] }
          ((x, (s.alloc v).1) :: env) (s.alloc v).2 body k rb.1 rb.2 hs1 he1 hcb
        refine ⟨S2, Ext.trans ⟨[patTy p], rfl⟩ hx2, hs2, ?_⟩
        rcases heb : execBlock defs n ((x, (s.alloc v).1) :: env) (s.alloc v).2 body with ⟨ob, eb, sb⟩
        rw [heb] at ho2
        cases ob with
        | val w => exact join_left ho2
        | _ => exact ho2
      · simp only [hp]
        obtain ⟨S2, hx2, hs2, ho2⟩ := ih.catches S c env s v rest k tr hs he hcr
        refine ⟨S2, hx2, hs2, ?_⟩
        rcases hec : execCatches defs n env s v rest with ⟨oc, sc⟩
        rw [hec] at ho2
        cases oc with
        | val w => exact join_right ho2
        | _ => exact ho2

theorem SRes.ext {defs : List Def} {S S1 : List T} {c c' : Ctx} {t : T} {g' : TEnvB} {r : Out × Env × St}
    (hx : Ext S S1) (hl : c'.labels = c.labels) (hr : c'.ret = c.ret) (h : SRes defs S1 c' t g' r) :
    SRes defs S c t g' r := by
  obtain ⟨S2, hx2, hs2, ho2, he2⟩ := h
  rw [hl, hr] at ho2
  exact ⟨S2, hx.trans hx2, hs2, ho2, he2⟩

theorem SRes.of_expr_nonval {defs : List Def} {S S1 : List T} {c : Ctx} {t t' : T} {g' : TEnvB}
    {o : Out} {env : Env} {s1 : St}
    (hx : Ext S S1) (hs : StOk defs S1 s1) (ho : OutOk defs S1 [] none t' o) (hv : ∀ v, o ≠ .val v) :
    SRes defs S c t g' (o, env, s1) :=
  ⟨S1, hx, hs, (ho.retype hv).lift, fun v h => absurd h (hv v)⟩

theorem OutOk.weaken {defs : List Def} {S : List T} {L ret t t'} {o : Out}
    (h : OutOk defs S L ret t o) (hw : ∀ v, HasTy defs S v t → HasTy defs S v t') :
    OutOk defs S L ret t' o := by
  cases o with
  | val v => exact hw v h
  | _ => exact h

theorem declTy_sound {defs : List Def} {S : List T} {ann : Option Ty} {t td : T} {v : Val}
    (hd : declTy ann t = some td) (hv : HasTy defs S v t) : HasTy defs S v td := by
  cases ann with
  | none => simp [declTy] at hd; subst hd; exact hv
  | some a =>
    simp only [declTy] at hd
    split at hd
    · split at hd
      · rename_i hf; cases hd; exact fits_sound hv hf
      · cases hd
    · cases hd

theorem sound_block_succ (defs : List Def) (n : Nat) (ih : SoundAt defs n) :
    ∀ S c env s ss k t g', StOk defs S s → EnvOkB S c.vars env →
      checkBlock defs k c ss = some (t, g') → SRes defs S c t g' (execBlock defs (n + 1) env s ss) := by
  intro S c env s ss k t g' hs he hc
  cases k with
  | zero => simp [checkBlock] at hc
  | succ k =>
  cases ss with
  | nil =>
    simp only [checkBlock] at hc; cases hc
    exact ⟨S, Ext.refl S, by simpa [execBlock] using hs, by simp [execBlock, OutOk, HasTy],
      fun _ _ => by simpa [execBlock] using he⟩
  | cons st rest =>
    cases rest with
    | nil =>
      simp only [checkBlock] at hc
      split at hc
      · simp only [execBlock]
        exact ih.stmt S c env s st k t g' hs he hc
      · cases hc
    | cons st2 rest2 =>
      simp only [checkBlock] at hc
      split at hc
      case isFalse => cases hc
      simp only [Option.bind_eq_some_iff] at hc
      obtain ⟨r1, hc1, hc2⟩ := hc
      obtain ⟨S1, hx1, hs1, ho1, he1⟩ := ih.stmt S c env s st k r1.1 r1.2 hs he hc1
      simp only [execBlock]
      rcases hea : execStmt defs n env s st with ⟨oa, ea, sa⟩
      rw [hea] at hs1 ho1 he1
      cases oa with
      | val va =>
        exact (ih.block S1 { c with vars := r1.2, scope := declAdd c.scope st } ea sa (st2 :: rest2) k t g' hs1 (he1 va rfl) hc2).ext hx1 rfl rfl
      | _ => exact ⟨S1, hx1, hs1, ho1.retype (fun _ h => by cases h), fun v h => by cases h⟩

/-- the part of a `do` before its `finally` -/
def tryCoreB (defs : List Def) (n : Nat) (env : Env) (s : St) (body : List Stmt) (cs : List Catch) : Out × St :=
  match (execBlock defs n env s body).1 with
  | .thrw v => execCatches defs n env (execBlock defs n env s body).2.2 v cs
  | o => (o, (execBlock defs n env s body).2.2)

theorem tryCoreB_ok {defs : List Def} {n : Nat} (ih : SoundAt defs n) {S : List T} {c : Ctx} {env : Env}
    {s : St} {body : List Stmt} {cs : List Catch} {k : Nat} {rb : T × TEnvB} {tc : T}
    (hs : StOk defs S s) (he : EnvOkB S c.vars env)
    (hcb : checkBlock defs k { c with scope := [] } body = some rb) (hcc : checkCatches defs k c cs = some tc) :
    CRes defs S c (join rb.1 tc) (tryCoreB defs n env s body cs) := by
  obtain ⟨S1, hx1, hs1, ho1, _⟩ := ih.block S { c with scope := [] } env s body k rb.1 rb.2 hs he hcb
  unfold tryCoreB
  rcases heb : execBlock defs n env s body with ⟨ob, eb, sb⟩
  rw [heb] at hs1 ho1
  cases ob with
  | thrw v =>
    obtain ⟨S2, hx2, hs2, ho2⟩ := ih.catches S1 c env sb v cs k tc hs1 (he.mono hx1) hcc
    exact ⟨S2, hx1.trans hx2, hs2, ho2.weaken (fun _ => join_right)⟩
  | _ => exact ⟨S1, hx1, hs1, ho1.weaken (fun _ => join_left)⟩

theorem finally_ok {defs : List Def} {n : Nat} (ih : SoundAt defs n) {S : List T} {c : Ctx} {env : Env}
    {r2 : Out × St} {f : List Stmt} {k : Nat} {rf : T × TEnvB} {t : T}
    (h2 : CRes defs S c t r2) (he : EnvOkB S c.vars env)
    (hcf : checkBlock defs k { c with scope := [] } f = some rf) :
    SRes defs S c t c.vars (finallyPhase env r2 (execBlock defs n env r2.2 f)) := by
  obtain ⟨S2, hx2, hs2, ho2⟩ := h2
  unfold finallyPhase
  by_cases hfat : r2.1.fatal = true
  · simp only [hfat, if_true]
    exact ⟨S2, hx2, hs2, ho2, fun _ _ => he.mono hx2⟩
  · simp only [hfat]
    obtain ⟨S3, hx3, hs3, ho3, _⟩ := ih.block S2 { c with scope := [] } env r2.2 f k rf.1 rf.2 hs2 (he.mono hx2) hcf
    rcases hef : execBlock defs n env r2.2 f with ⟨o3, e3, s3⟩
    rw [hef] at hs3 ho3
    cases o3 with
    | val w => exact ⟨S3, hx2.trans hx3, hs3, ho2.mono hx3, fun _ _ => he.mono (hx2.trans hx3)⟩
    | _ => exact ⟨S3, hx2.trans hx3, hs3, ho3.retype (fun _ h => by cases h), fun v h => by cases h⟩

/-- after one iteration of a loop labelled `lbl`: what the loop statement does with the body's outcome -/
theorem loop_tail_ok {defs : List Def} {S S2 : List T} {c : Ctx} {env : Env} {lbl : Option String}
    {tb : T} {ob : Out} {sb : St} {again : Out × Env × St}
    (hx : Ext S S2) (hs2 : StOk defs S2 sb) (he : EnvOkB S c.vars env)
    (ho2 : OutOk defs S2 (lbl :: c.labels) c.ret tb ob)
    (hrec : SRes defs S2 c .any c.vars again) :
    SRes defs S c .any c.vars
      (match ob with
       | .val _ => again
       | .cont l => if labelHits lbl l then again else (.cont l, env, sb)
       | .brk l => if labelHits lbl l then (.val .nil, env, sb) else (.brk l, env, sb)
       | o => (o, env, sb)) := by
  cases ob with
  | val w => exact hrec.ext hx rfl rfl
  | cont l =>
    by_cases hl : labelHits lbl l = true
    · simp only [hl, if_true]; exact hrec.ext hx rfl rfl
    · simp only [hl]
      exact ⟨S2, hx, hs2, lblOk_miss ho2 (by simpa using hl), fun v h => by cases h⟩
  | brk l =>
    by_cases hl : labelHits lbl l = true
    · simp only [hl, if_true]
      exact ⟨S2, hx, hs2, by simp [OutOk, HasTy], fun _ _ => he.mono hx⟩
    · simp only [hl]
      exact ⟨S2, hx, hs2, lblOk_miss ho2 (by simpa using hl), fun v h => by cases h⟩
  | ret v => exact ⟨S2, hx, hs2, ho2, fun v h => by cases h⟩
  | thrw v => exact ⟨S2, hx, hs2, ho2, fun v h => by cases h⟩
  | stuck w => exact ⟨S2, hx, hs2, ho2, fun v h => by cases h⟩
  | timeout => exact ⟨S2, hx, hs2, ho2, fun v h => by cases h⟩

theorem sound_stmt_succ (defs : List Def) (n : Nat) (ih : SoundAt defs n) :
    ∀ S c env s st k t g', StOk defs S s → EnvOkB S c.vars env →
      checkStmt defs k c st = some (t, g') → SRes defs S c t g' (execStmt defs (n + 1) env s st) := by
  intro S c env s st k t g' hs he hc
  cases k with
  | zero => simp [checkStmt] at hc
  | succ k =>
  have hc0 := hc
  cases st with
  | decl x ann e =>
    simp only [checkStmt, Option.bind_eq_some_iff] at hc
    obtain ⟨te, hce, td, hdt, hc⟩ := hc
    cases hc
    obtain ⟨S1, hx1, hs1, ho1⟩ := ih.expr S c.vars env s e k t hs he hce
    simp only [execStmt]
    rcases hea : evalExpr defs n env s e with ⟨oa, sa⟩
    rw [hea] at hs1 ho1
    cases oa with
    | val v =>
      obtain ⟨hi, hs2⟩ := hs1.alloc (declTy_sound hdt ho1)
      refine ⟨S1 ++ [td], hx1.trans ⟨[td], rfl⟩, hs2, HasTy.mono ⟨[td], rfl⟩ _ ho1, fun _ _ => ?_⟩
      have h := (he.mono hx1).cons x td
      rw [← hi] at h
      exact h
    | _ => exact SRes.of_expr_nonval hx1 hs1 ho1 (fun _ h => by cases h)
  | expr e =>
    simp only [checkStmt, Option.bind_eq_some_iff] at hc
    obtain ⟨te, hce, hc⟩ := hc
    cases hc
    obtain ⟨S1, hx1, hs1, ho1⟩ := ih.expr S c.vars env s e k t hs he hce
    simp only [execStmt]
    exact ⟨S1, hx1, hs1, ho1.lift, fun _ _ => he.mono hx1⟩
  | print e =>
    simp only [checkStmt, Option.bind_eq_some_iff] at hc
    obtain ⟨te, hce, hc⟩ := hc
    split at hc
    · cases hc
      obtain ⟨S1, hx1, hs1, ho1⟩ := ih.expr S c.vars env s e k te hs he hce
      simp only [execStmt]
      rcases hea : evalExpr defs n env s e with ⟨oa, sa⟩
      rw [hea] at hs1 ho1
      cases oa with
      | val v => exact ⟨S1, hx1, hs1.emit _, by simp [OutOk, HasTy], fun _ _ => he.mono hx1⟩
      | _ => exact SRes.of_expr_nonval hx1 hs1 ho1 (fun _ h => by cases h)
    · cases hc
  | ite cnd tb eb =>
    simp only [checkStmt, Option.bind_eq_some_iff] at hc
    obtain ⟨tc, hcc, r1, hc1, r2, hc2, hc⟩ := hc
    cases hc
    obtain ⟨S1, hx1, hs1, ho1⟩ := ih.expr S c.vars env s cnd k tc hs he hcc
    simp only [execStmt]
    rcases hea : evalExpr defs n env s cnd with ⟨oa, sa⟩
    rw [hea] at hs1 ho1
    cases oa with
    | val vc =>
      simp only
      by_cases htr : vc.truthy = true
      · simp only [htr, if_true]
        obtain ⟨S2, hx2, hs2, ho2, _⟩ := ih.block S1 { c with scope := [] } env sa tb k r1.1 r1.2 hs1 (he.mono hx1) hc1
        exact ⟨S2, hx1.trans hx2, hs2, ho2.weaken (fun _ => join_left), fun _ _ => he.mono (hx1.trans hx2)⟩
      · simp only [htr]
        obtain ⟨S2, hx2, hs2, ho2, _⟩ := ih.block S1 { c with scope := [] } env sa eb k r2.1 r2.2 hs1 (he.mono hx1) hc2
        exact ⟨S2, hx1.trans hx2, hs2, ho2.weaken (fun _ => join_right), fun _ _ => he.mono (hx1.trans hx2)⟩
    | _ => exact SRes.of_expr_nonval hx1 hs1 ho1 (fun _ h => by cases h)
  | «while» lbl cnd body =>
    simp only [checkStmt, Option.bind_eq_some_iff] at hc
    obtain ⟨tc, hcc, rb, hcb, hc⟩ := hc
    cases hc
    obtain ⟨S1, hx1, hs1, ho1⟩ := ih.expr S c.vars env s cnd k tc hs he hcc
    simp only [execStmt]
    rcases hea : evalExpr defs n env s cnd with ⟨oa, sa⟩
    rw [hea] at hs1 ho1
    cases oa with
    | val vc =>
      simp only
      by_cases htr : vc.truthy = true
      · simp only [htr, if_true]
        obtain ⟨S2, hx2, hs2, ho2, _⟩ := ih.block S1 { c with labels := lbl :: c.labels, scope := [] } env sa body k rb.1 rb.2
          hs1 (he.mono hx1) hcb
        rcases heb : execBlock defs n env sa body with ⟨ob, eb, sb⟩
        rw [heb] at hs2 ho2
        have hrec := ih.stmt S2 c env sb (.while lbl cnd body) (k + 1) .any c.vars hs2
          (he.mono (hx1.trans hx2)) hc0
        cases ob <;> exact loop_tail_ok (hx1.trans hx2) hs2 he ho2 hrec
      · simp only [htr]
        exact ⟨S1, hx1, hs1, by simp [OutOk, HasTy], fun _ _ => he.mono hx1⟩
    | _ => exact SRes.of_expr_nonval hx1 hs1 ho1 (fun _ h => by cases h)
  | loop lbl body =>
    simp only [checkStmt, Option.bind_eq_some_iff] at hc
    obtain ⟨rb, hcb, hc⟩ := hc
    cases hc
    simp only [execStmt]
    obtain ⟨S2, hx2, hs2, ho2, _⟩ := ih.block S { c with labels := lbl :: c.labels, scope := [] } env s body k rb.1 rb.2
      hs he hcb
    rcases heb : execBlock defs n env s body with ⟨ob, eb, sb⟩
    rw [heb] at hs2 ho2
    have hrec := ih.stmt S2 c env sb (.loop lbl body) (k + 1) .any c.vars hs2 (he.mono hx2) hc0
    cases ob <;> exact loop_tail_ok hx2 hs2 he ho2 hrec
  | brk l =>
    simp only [checkStmt] at hc
    split at hc
    · rename_i hl
      cases hc
      exact ⟨S, Ext.refl S, by simpa [execStmt] using hs, by simpa [execStmt, OutOk] using hl,
        fun v h => by simp [execStmt] at h⟩
    · cases hc
  | cont l =>
    simp only [checkStmt] at hc
    split at hc
    · rename_i hl
      cases hc
      exact ⟨S, Ext.refl S, by simpa [execStmt] using hs, by simpa [execStmt, OutOk] using hl,
        fun v h => by simp [execStmt] at h⟩
    · cases hc
  | ret e =>
    simp only [checkStmt, Option.bind_eq_some_iff] at hc
    obtain ⟨te, hce, r, hr, hc⟩ := hc
    split at hc
    · rename_i hf
      cases hc
      obtain ⟨S1, hx1, hs1, ho1⟩ := ih.expr S c.vars env s e k te hs he hce
      simp only [execStmt]
      rcases hea : evalExpr defs n env s e with ⟨oa, sa⟩
      rw [hea] at hs1 ho1
      cases oa with
      | val v => exact ⟨S1, hx1, hs1, ⟨r, hr, fits_sound ho1 hf⟩, fun v h => by cases h⟩
      | _ => exact SRes.of_expr_nonval hx1 hs1 ho1 (fun _ h => by cases h)
    · cases hc
  | throw e =>
    simp only [checkStmt, Option.bind_eq_some_iff] at hc
    obtain ⟨te, hce, hc⟩ := hc
    cases hc
    obtain ⟨S1, hx1, hs1, ho1⟩ := ih.expr S c.vars env s e k te hs he hce
    simp only [execStmt]
    rcases hea : evalExpr defs n env s e with ⟨oa, sa⟩
    rw [hea] at hs1 ho1
    cases oa with
    | val v => exact ⟨S1, hx1, hs1, trivial, fun v h => by cases h⟩
    | _ => exact SRes.of_expr_nonval hx1 hs1 ho1 (fun _ h => by cases h)
  | «try» body cs fin =>
    simp only [checkStmt, Option.bind_eq_some_iff] at hc
    obtain ⟨rb, hcb, tc, hcc, hc⟩ := hc
    have h2 := tryCoreB_ok (n := n) ih hs he hcb hcc
    cases fin with
    | none =>
      simp only at hc
      cases hc
      show SRes defs S c (join rb.1 tc) c.vars
        ((tryCoreB defs n env s body cs).1, env, (tryCoreB defs n env s body cs).2)
      obtain ⟨S2, hx2, hs2, ho2⟩ := h2
      exact ⟨S2, hx2, hs2, ho2, fun _ _ => he.mono hx2⟩
    | some f =>
      simp only [Option.bind_eq_some_iff] at hc
      obtain ⟨rf, hcf, hc⟩ := hc
      cases hc
      show SRes defs S c (join rb.1 tc) c.vars
        (finallyPhase env (tryCoreB defs n env s body cs)
          (execBlock defs n env (tryCoreB defs n env s body cs).2 f))
      exact finally_ok ih h2 he hcf


theorem soundAt_succ (defs : List Def) (hd : DefsOk defs) (n : Nat) (ih : SoundAt defs n) :
    SoundAt defs (n + 1) :=
  ⟨sound_expr_succ defs hd n ih, sound_args_succ defs n ih, sound_block_succ defs n ih,
   sound_stmt_succ defs n ih, sound_catches_succ defs n ih⟩

/-- **Soundness of the full checker**, all five evaluator functions, every fuel. -/
theorem soundAt_all (defs : List Def) (hd : DefsOk defs) : ∀ n, SoundAt defs n
  | 0 => soundAt_zero defs
  | n + 1 => soundAt_succ defs hd n (soundAt_all defs hd n)

theorem defsOk_of_checkProg {k : Nat} {p : Prog} (h : checkProg k p = true) : DefsOk p.defs := by
  simp only [checkProg, Bool.and_eq_true, List.all_eq_true] at h
  exact fun d hd => ⟨k, h.1 d hd⟩

theorem stOk_empty (defs : List Def) : StOk defs [] {} :=
  ⟨rfl, fun i v t h => by simp at h⟩

theorem envOkB_empty (S : List T) : EnvOkB S [] [] := fun _ _ h => by simp [lookupT] at h

end Elk.Mini
