import ElkVerif.Model.Repl
/-! helper lemmas for C27 -/
namespace Elk.Repl

variable {Snap Rest Src Out : Type}

theorem input_rejected_iff (M : Machine Snap Rest Src Out) (s : St Snap Rest) (src : Src) :
    (input M s src).2 = none ↔ (M.check s src).failed = true := by
  unfold input
  cases h : (M.check s src).failed <;> simp [h]

theorem input_accepted (M : Machine Snap Rest Src Out) (s : St Snap Rest) (src : Src)
    (h : (M.check s src).failed = false) :
    input M s src = ((M.check s src).st, some (M.check s src).out) := by
  unfold input; simp [h]

theorem input_rejected (M : Machine Snap Rest Src Out) (s : St Snap Rest) (src : Src)
    (h : (M.check s src).failed = true) :
    input M s src = ({ snap := s.snap, rest := (M.check s src).st.rest }, none) := by
  unfold input; simp [h]

/-- every input of the list is accepted when the session is run from `s` -/
def AllAccepted (M : Machine Snap Rest Src Out) : St Snap Rest → List Src → Prop
  | _, [] => True
  | s, a :: r => (M.check s a).failed = false ∧ AllAccepted M (M.check s a).st r

namespace Mini

theorem stepItem_rest (s : St Env Side) (it : Item) : (stepItem s it).1.rest = s.rest := by
  cases it <;> simp only [stepItem] <;> (try rfl) <;> split <;> rfl

theorem runItems_rest (s : St Env Side) (items : List Item) : (runItems s items).1.rest = s.rest := by
  induction items generalizing s with
  | nil => rfl
  | cons it rest ih =>
    simp only [runItems]
    rw [ih, stepItem_rest]

theorem runItems_append (s : St Env Side) (a b : List Item) :
    runItems s (a ++ b) =
      ((runItems (runItems s a).1 b).1,
       (runItems s a).2.1 || (runItems (runItems s a).1 b).2.1,
       (runItems s a).2.2 ++ (runItems (runItems s a).1 b).2.2) := by
  induction a generalizing s with
  | nil => simp [runItems]
  | cons it rest ih =>
    simp only [List.cons_append, runItems]
    rw [ih]
    simp [Bool.or_assoc, List.append_assoc]

end Mini
end Elk.Repl
