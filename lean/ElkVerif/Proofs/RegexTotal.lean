import ElkVerif.Model.Regex.Transpile
/-! C03: the transpiler model never takes its panic path on trees whose caret escapes name ASCII letters. -/
namespace Elk.Regex
set_option linter.unusedSimpArgs false

mutual
/-- every `\cX` escape in the tree names an ASCII letter (the parser reports an error otherwise) -/
def caretOk : Node → Bool
  | .caretEscape c => isAsciiLetter c
  | .concat els => caretOks els
  | .charClass els _ => caretOks els
  | .union l r => caretOk l && caretOk r
  | .charRange l r => caretOk l && caretOk r
  | .zeroOrOne r _ => caretOk r
  | .zeroOrMore r _ => caretOk r
  | .oneOrMore r _ => caretOk r
  | .nQuant r _ _ => caretOk r
  | .nmQuant r _ _ _ => caretOk r
  | .group r _ _ _ _ => caretOk r
  | _ => true
def caretOks : Nodes → Bool
  | .nil => true
  | .cons n rest => caretOk n && caretOks rest
end

@[simp] theorem write_panicked (t : St) (s : Str) : (t.write s).panicked = t.panicked := rfl
@[simp] theorem fail_panicked (t : St) (m : String) : (t.fail m).panicked = t.panicked := rfl

theorem leaf_panicked (t t' : St) (n : Node) (hc : caretOk n = true) (h : leaf t n = some t') :
    t'.panicked = t.panicked := by
  cases n <;> simp only [leaf, Option.some.injEq, reduceCtorEq] at h <;> subst h <;>
    simp only [caretOk] at hc <;>
    simp [wordCharClass, notWordCharClass, digitCharClass, notDigitCharClass, whitespaceCharClass,
      notWhitespaceCharClass, hWhitespaceCharClass, notHWhitespaceCharClass, vWhitespaceCharClass,
      notVWhitespaceCharClass, unicodeCharClass, caretEscape, hc] <;>
    (repeat' split) <;> simp

theorem ccElement_panicked : ∀ (n : Node) (t : St), caretOk n = true → (ccElement n t).panicked = t.panicked
  | .charRange l r, t, hc => by
    simp only [caretOk, Bool.and_eq_true] at hc
    simp [ccElement, ccElement_panicked r _ hc.2, ccElement_panicked l _ hc.1]
  | .namedCharClass name neg, t, _ => by simp [ccElement]
  | .char c, t, _ => by simp [ccElement]
  | .concat els, t, hc => by
    simp only [ccElement]
    split
    · rename_i h; exact leaf_panicked _ _ _ hc h
    · rfl
  | .union l r, t, hc => by
    simp only [ccElement]
    split
    · rename_i h; exact leaf_panicked _ _ _ hc h
    · rfl
  | .zeroOrOne r alt, t, hc => by
    simp only [ccElement]
    split
    · rename_i h; exact leaf_panicked _ _ _ hc h
    · rfl
  | .zeroOrMore r alt, t, hc => by
    simp only [ccElement]
    split
    · rename_i h; exact leaf_panicked _ _ _ hc h
    · rfl
  | .oneOrMore r alt, t, hc => by
    simp only [ccElement]
    split
    · rename_i h; exact leaf_panicked _ _ _ hc h
    · rfl
  | .nQuant r n alt, t, hc => by
    simp only [ccElement]
    split
    · rename_i h; exact leaf_panicked _ _ _ hc h
    · rfl
  | .nmQuant r n m alt, t, hc => by
    simp only [ccElement]
    split
    · rename_i h; exact leaf_panicked _ _ _ hc h
    · rfl
  | .group r name st us nc, t, hc => by
    simp only [ccElement]
    split
    · rename_i h; exact leaf_panicked _ _ _ hc h
    · rfl
  | .groupNoRegex name st us nc, t, hc => by
    simp only [ccElement]
    split
    · rename_i h; exact leaf_panicked _ _ _ hc h
    · rfl
  | .charClass els neg, t, hc => by
    simp only [ccElement]
    split
    · rename_i h; exact leaf_panicked _ _ _ hc h
    · rfl
  | .metaCharEscape c, t, hc => by
    simp only [ccElement]
    split
    · rename_i h; exact leaf_panicked _ _ _ hc h
    · rfl
  | .quotedText q, t, hc => by
    simp only [ccElement]
    split
    · rename_i h; exact leaf_panicked _ _ _ hc h
    · rfl
  | .caretEscape c, t, hc => by
    simp only [ccElement]
    split
    · rename_i h; exact leaf_panicked _ _ _ hc h
    · rfl
  | .unicodeEscape q, t, hc => by
    simp only [ccElement]
    split
    · rename_i h; exact leaf_panicked _ _ _ hc h
    · rfl
  | .hexEscape q, t, hc => by
    simp only [ccElement]
    split
    · rename_i h; exact leaf_panicked _ _ _ hc h
    · rfl
  | .octalEscape q, t, hc => by
    simp only [ccElement]
    split
    · rename_i h; exact leaf_panicked _ _ _ hc h
    · rfl
  | .unicodeCharClass q neg, t, hc => by
    simp only [ccElement]
    split
    · rename_i h; exact leaf_panicked _ _ _ hc h
    · rfl
  | .bell, t, hc => by
    simp only [ccElement]
    split
    · rename_i h; exact leaf_panicked _ _ _ hc h
    · rfl
  | .formFeed, t, hc => by
    simp only [ccElement]
    split
    · rename_i h; exact leaf_panicked _ _ _ hc h
    · rfl
  | .tab, t, hc => by
    simp only [ccElement]
    split
    · rename_i h; exact leaf_panicked _ _ _ hc h
    · rfl
  | .newline, t, hc => by
    simp only [ccElement]
    split
    · rename_i h; exact leaf_panicked _ _ _ hc h
    · rfl
  | .carriageReturn, t, hc => by
    simp only [ccElement]
    split
    · rename_i h; exact leaf_panicked _ _ _ hc h
    · rfl
  | .startOfString, t, hc => by
    simp only [ccElement]
    split
    · rename_i h; exact leaf_panicked _ _ _ hc h
    · rfl
  | .endOfString, t, hc => by
    simp only [ccElement]
    split
    · rename_i h; exact leaf_panicked _ _ _ hc h
    · rfl
  | .absStart, t, hc => by
    simp only [ccElement]
    split
    · rename_i h; exact leaf_panicked _ _ _ hc h
    · rfl
  | .absEnd, t, hc => by
    simp only [ccElement]
    split
    · rename_i h; exact leaf_panicked _ _ _ hc h
    · rfl
  | .wordBoundary, t, hc => by
    simp only [ccElement]
    split
    · rename_i h; exact leaf_panicked _ _ _ hc h
    · rfl
  | .notWordBoundary, t, hc => by
    simp only [ccElement]
    split
    · rename_i h; exact leaf_panicked _ _ _ hc h
    · rfl
  | .word, t, hc => by
    simp only [ccElement]
    split
    · rename_i h; exact leaf_panicked _ _ _ hc h
    · rfl
  | .notWord, t, hc => by
    simp only [ccElement]
    split
    · rename_i h; exact leaf_panicked _ _ _ hc h
    · rfl
  | .digit, t, hc => by
    simp only [ccElement]
    split
    · rename_i h; exact leaf_panicked _ _ _ hc h
    · rfl
  | .notDigit, t, hc => by
    simp only [ccElement]
    split
    · rename_i h; exact leaf_panicked _ _ _ hc h
    · rfl
  | .whitespace, t, hc => by
    simp only [ccElement]
    split
    · rename_i h; exact leaf_panicked _ _ _ hc h
    · rfl
  | .notWhitespace, t, hc => by
    simp only [ccElement]
    split
    · rename_i h; exact leaf_panicked _ _ _ hc h
    · rfl
  | .hWhitespace, t, hc => by
    simp only [ccElement]
    split
    · rename_i h; exact leaf_panicked _ _ _ hc h
    · rfl
  | .notHWhitespace, t, hc => by
    simp only [ccElement]
    split
    · rename_i h; exact leaf_panicked _ _ _ hc h
    · rfl
  | .vWhitespace, t, hc => by
    simp only [ccElement]
    split
    · rename_i h; exact leaf_panicked _ _ _ hc h
    · rfl
  | .notVWhitespace, t, hc => by
    simp only [ccElement]
    split
    · rename_i h; exact leaf_panicked _ _ _ hc h
    · rfl
  | .anyChar, t, hc => by
    simp only [ccElement]
    split
    · rename_i h; exact leaf_panicked _ _ _ hc h
    · rfl
  | .invalid, t, hc => by
    simp only [ccElement]
    split
    · rename_i h; exact leaf_panicked _ _ _ hc h
    · rfl

theorem foldl_panicked (f : St → Node → St) (l : List Node) (P : Node → Prop)
    (hf : ∀ t n, P n → (f t n).panicked = t.panicked) (hl : ∀ n ∈ l, P n) :
    ∀ t, (l.foldl f t).panicked = t.panicked := by
  induction l with
  | nil => intro t; rfl
  | cons x xs ih =>
    intro t
    simp only [List.foldl_cons]
    rw [ih (fun n hn => hl n (by simp [hn])), hf t x (hl x (by simp))]

theorem caretOks_mem : ∀ (els : Nodes), caretOks els = true → ∀ n ∈ els.toList, caretOk n = true
  | .nil, _, n, hn => by simp [Nodes.toList] at hn
  | .cons x rest, h, n, hn => by
    simp only [caretOks, Bool.and_eq_true] at h
    simp only [Nodes.toList, List.mem_cons] at hn
    rcases hn with rfl | hn
    · exact h.1
    · exact caretOks_mem rest h.2 n hn

theorem ccBody_panicked (split internal : List Node) (neg : Bool) (t : St)
    (hs : ∀ n ∈ split, caretOk n = true) (hi : ∀ n ∈ internal, caretOk n = true) :
    (ccBody split internal neg t).panicked = t.panicked := by
  have hin : ∀ (l : List Node), (∀ n ∈ l, caretOk n = true) → ∀ t : St,
      (l.foldl (fun t n => ccElement n t) t).panicked = t.panicked :=
    fun l hl => foldl_panicked _ l (fun n => caretOk n = true) (fun t n hn => ccElement_panicked n t hn) hl
  have hsp : ∀ (l : List Node), (∀ n ∈ l, caretOk n = true) → ∀ t : St,
      (l.foldl (fun t n => ccElement n (t.write [124])) t).panicked = t.panicked :=
    fun l hl => foldl_panicked _ l (fun n => caretOk n = true)
      (fun t n hn => by simp [ccElement_panicked n _ hn]) hl
  cases split with
  | nil => cases hI : internal.isEmpty <;> cases neg <;> simp [ccBody, hI, hin internal hi]
  | cons first rest =>
    have hf := hs first (by simp)
    have hr : ∀ n ∈ rest, caretOk n = true := fun n hn => hs n (by simp [hn])
    cases hI : internal.isEmpty <;> cases neg <;>
      simp [ccBody, hI, hin internal hi, hsp rest hr, ccElement_panicked first _ hf]

theorem charClass_panicked (els : Nodes) (neg : Bool) (t : St) (h : caretOks els = true) :
    (charClass els neg t).panicked = t.panicked := by
  have hmem := caretOks_mem els h
  simp only [charClass]
  rw [ccBody_panicked]
  · intro n hn; exact hmem n (List.mem_filter.1 hn).1
  · intro n hn; exact hmem n (List.mem_filter.1 hn).1

theorem groupOpen_panicked (hr : Bool) (name : Str) (st us : Flags) (nc : Bool) (t : St) :
    (groupOpen hr name st us nc t).1.panicked = t.panicked := by
  simp only [groupOpen]
  repeat' split
  all_goals simp

theorem quantSuffix_panicked (t : St) (p : Str) (alt : Bool) : (quantSuffix t p alt).panicked = t.panicked := by
  cases alt <;> simp [quantSuffix]

mutual
theorem trNode_panicked : ∀ (r : Node) (t : St), caretOk r = true → (trNode r t).panicked = t.panicked
  | .concat els, t, h => by simp only [caretOk] at h; simp [trNode, trConcat_panicked els false t h]
  | .union l r, t, h => by
    simp only [caretOk, Bool.and_eq_true] at h
    simp [trNode, trNode_panicked r _ h.2, trNode_panicked l _ h.1]
  | .zeroOrOne r alt, t, h => by
    simp only [caretOk] at h; simp [trNode, quantSuffix_panicked, trNode_panicked r t h]
  | .zeroOrMore r alt, t, h => by
    simp only [caretOk] at h; simp [trNode, quantSuffix_panicked, trNode_panicked r t h]
  | .oneOrMore r alt, t, h => by
    simp only [caretOk] at h; simp [trNode, quantSuffix_panicked, trNode_panicked r t h]
  | .nQuant r n alt, t, h => by
    simp only [caretOk] at h; cases alt <;> simp [trNode, trNode_panicked r t h]
  | .nmQuant r n m alt, t, h => by
    simp only [caretOk] at h; cases alt <;> simp [trNode, trNode_panicked r t h]
  | .group r name st us nc, t, h => by
    simp only [caretOk] at h
    simp [trNode, trNode_panicked r _ h, groupOpen_panicked]
  | .groupNoRegex name st us nc, t, _ => by
    simp only [trNode]
    split <;> simp [groupOpen_panicked]
  | .charClass els neg, t, h => by simp only [caretOk] at h; simp [trNode, charClass_panicked els neg t h]
  | .char c, t, _ => by simp only [trNode]; split <;> simp
  | .quotedText q, t, _ => by simp [trNode]
  | .startOfString, t, _ => by simp [trNode]
  | .endOfString, t, _ => by simp [trNode]
  | .absStart, t, _ => by simp [trNode]
  | .absEnd, t, _ => by simp [trNode]
  | .wordBoundary, t, _ => by simp [trNode]
  | .notWordBoundary, t, _ => by simp [trNode]
  | .anyChar, t, _ => by simp [trNode]
  | .invalid, t, _ => by simp [trNode]
  | .charRange l r, t, _ => by simp [trNode]
  | .namedCharClass n g, t, _ => by simp [trNode]
  | .metaCharEscape c, t, hc => by
    simp only [trNode]
    split
    · rename_i h; exact leaf_panicked _ _ _ hc h
    · rfl
  | .caretEscape c, t, hc => by
    simp only [trNode]
    split
    · rename_i h; exact leaf_panicked _ _ _ hc h
    · rfl
  | .unicodeEscape q, t, hc => by
    simp only [trNode]
    split
    · rename_i h; exact leaf_panicked _ _ _ hc h
    · rfl
  | .hexEscape q, t, hc => by
    simp only [trNode]
    split
    · rename_i h; exact leaf_panicked _ _ _ hc h
    · rfl
  | .octalEscape q, t, hc => by
    simp only [trNode]
    split
    · rename_i h; exact leaf_panicked _ _ _ hc h
    · rfl
  | .unicodeCharClass q neg, t, hc => by
    simp only [trNode]
    split
    · rename_i h; exact leaf_panicked _ _ _ hc h
    · rfl
  | .bell, t, hc => by
    simp only [trNode]
    split
    · rename_i h; exact leaf_panicked _ _ _ hc h
    · rfl
  | .formFeed, t, hc => by
    simp only [trNode]
    split
    · rename_i h; exact leaf_panicked _ _ _ hc h
    · rfl
  | .tab, t, hc => by
    simp only [trNode]
    split
    · rename_i h; exact leaf_panicked _ _ _ hc h
    · rfl
  | .newline, t, hc => by
    simp only [trNode]
    split
    · rename_i h; exact leaf_panicked _ _ _ hc h
    · rfl
  | .carriageReturn, t, hc => by
    simp only [trNode]
    split
    · rename_i h; exact leaf_panicked _ _ _ hc h
    · rfl
  | .word, t, hc => by
    simp only [trNode]
    split
    · rename_i h; exact leaf_panicked _ _ _ hc h
    · rfl
  | .notWord, t, hc => by
    simp only [trNode]
    split
    · rename_i h; exact leaf_panicked _ _ _ hc h
    · rfl
  | .digit, t, hc => by
    simp only [trNode]
    split
    · rename_i h; exact leaf_panicked _ _ _ hc h
    · rfl
  | .notDigit, t, hc => by
    simp only [trNode]
    split
    · rename_i h; exact leaf_panicked _ _ _ hc h
    · rfl
  | .whitespace, t, hc => by
    simp only [trNode]
    split
    · rename_i h; exact leaf_panicked _ _ _ hc h
    · rfl
  | .notWhitespace, t, hc => by
    simp only [trNode]
    split
    · rename_i h; exact leaf_panicked _ _ _ hc h
    · rfl
  | .hWhitespace, t, hc => by
    simp only [trNode]
    split
    · rename_i h; exact leaf_panicked _ _ _ hc h
    · rfl
  | .notHWhitespace, t, hc => by
    simp only [trNode]
    split
    · rename_i h; exact leaf_panicked _ _ _ hc h
    · rfl
  | .vWhitespace, t, hc => by
    simp only [trNode]
    split
    · rename_i h; exact leaf_panicked _ _ _ hc h
    · rfl
  | .notVWhitespace, t, hc => by
    simp only [trNode]
    split
    · rename_i h; exact leaf_panicked _ _ _ hc h
    · rfl
theorem trConcat_panicked : ∀ (els : Nodes) (ic : Bool) (t : St), caretOks els = true →
    (trConcat els ic t).panicked = t.panicked
  | .nil, ic, t, _ => by simp [trConcat]
  | .cons n rest, ic, t, h => by
    simp only [caretOks, Bool.and_eq_true] at h
    simp only [trConcat]
    split
    · split
      · exact trConcat_panicked rest _ t h.2
      · split
        · exact trConcat_panicked rest _ t h.2
        · rw [trConcat_panicked rest _ _ h.2, trNode_panicked n t h.1]
    · rw [trConcat_panicked rest _ _ h.2, trNode_panicked n t h.1]
end

theorem globalFlags_panicked (t : St) : (globalFlags t).panicked = t.panicked := by
  simp only [globalFlags]; split <;> simp

/-- the transpiler's only panic path (`asciiLetterIndex` on a non-letter) is never taken on trees whose `\cX`
escapes name ASCII letters -/
theorem transpile_no_panic (r : Node) (f : Flags) (h : caretOk r = true) : transpile r f ≠ .panic := by
  have := trNode_panicked r (globalFlags { flags := f }) h
  simp only [globalFlags_panicked] at this
  simp only [transpile, this]
  simp only [Bool.false_eq_true, if_false]
  split <;> simp

end Elk.Regex
