import ElkVerif.Model.Paths
import ElkVerif.Gen.OpSelect
import ElkVerif.Gen.Handlers
/-!
# C08 — Results do not depend on which evaluation path the compiler chose

Operators over `Int`/`Float` left operands: the typed opcode the compiler selects, the generic opcode with runtime
dispatch, and constant folding hand the same operands to the same receiver method. The receiver methods are an
arbitrary parameter `sem`; the selection table and the handlers' operand accessors are probed from the real
compiler/VM on every run and the decidable side conditions are re-proved by `decide`.
-/
namespace Elk.C08
open Elk.Paths

variable {V E : Type}

theorem finish_eq (h : Handler) (neg : V → V) (hneg : h.negate = false) (x : Except E V)
    (hok : h.propagates = true ∨ ∃ v, outOf x = Out.ok v) : finish h neg x = outOf x := by
  cases x with
  | ok v => simp [finish, outOf, hneg]
  | error e =>
    rcases hok with hp | ⟨v, hv⟩
    · simp [finish, outOf, hp]
    · simp [outOf] at hv

theorem finish_neg (h : Handler) (neg : V → V) (hneg : h.negate = true) (x : Except E V) (v : V)
    (hok : outOf x = Out.ok v) : finish h neg x = Out.ok (neg v) := by
  cases x with
  | ok w => simp [outOf] at hok; simp [finish, hneg, hok]
  | error e => simp [outOf] at hok

/-- A typed handler whose accessor fits the static type of the left operand computes what the generic path
computes, for every receiver-method semantics, every operand of that type and every right operand — provided
the method does not fail or the handler propagates the failure. -/
theorem typed_eq_generic (sem : Sem V E) (neg : V → V) (h : Handler) (ty : STy) (l : LV V) (r : V)
    (hfit : accFits h.acc ty = true) (hty : hasTy l ty = true) (hneg : h.negate = false)
    (hok : h.propagates = true ∨ ∃ v, generic sem h.op l r = .ok v) :
    typed sem neg h l r = generic sem h.op l r := by
  cases hacc : h.acc <;> cases ty <;> simp [hacc, accFits] at hfit <;>
    cases l <;> simp [hasTy] at hty <;>
    simp only [typed, hacc, generic] at hok ⊢ <;>
    exact finish_eq h neg hneg _ hok

/-- `NOT_EQUAL_INT/FLOAT`: the negation of what the generic `==` computes -/
theorem typed_neq_generic (sem : Sem V E) (neg : V → V) (h : Handler) (ty : STy) (l : LV V) (r : V)
    (hfit : accFits h.acc ty = true) (hty : hasTy l ty = true) (hneg : h.negate = true) (v : V)
    (hok : generic sem h.op l r = .ok v) :
    typed sem neg h l r = .ok (neg v) := by
  cases hacc : h.acc <;> cases ty <;> simp [hacc, accFits] at hfit <;>
    cases l <;> simp [hasTy] at hty <;>
    simp only [typed, hacc, generic] at hok ⊢ <;>
    exact finish_neg h neg hneg _ v hok

/-- the same for the opcode the compiler actually selects, under the decidable table condition -/
theorem selected_eq_generic (rows : List (String × List String)) (ops : List String) (ex : List (String × String))
    (hT : tableOk rows ops ex = true) (sem : Sem V E) (neg : V → V) (ty : STy) (op opc : String) (h : Handler)
    (hop : op ∈ ops) (hex : ex.contains (ty.name, op) = false)
    (hsel : lookup rows ops ty.name op = some opc) (hh : handlerOf opc = some h) (hneg : h.negate = false)
    (l : LV V) (r : V) (hty : hasTy l ty = true)
    (hok : h.propagates = true ∨ ∃ v, generic sem op l r = .ok v) :
    typed sem neg h l r = generic sem op l r := by
  unfold tableOk at hT
  rw [List.all_eq_true] at hT
  have h1 := hT ty (by cases ty <;> simp)
  rw [List.all_eq_true] at h1
  have h2 := h1 op hop
  simp only [hex, hsel, hh, Bool.false_or, Bool.and_eq_true, beq_iff_eq] at h2
  have hopEq : h.op = op := by
    have := h2.1
    simpa [Handler.operator, hneg] using this
  subst hopEq
  exact typed_eq_generic sem neg h ty l r h2.2 hty hneg hok

/-- the probed selection table satisfies the condition, except `Float ==` (known finding: `EQUAL_INT` is emitted) -/
theorem tables_ok : tableOk Gen.OpSelect.rows Gen.OpSelect.ops [("Float", "==")] = true := by decide

/-- the handlers read their operands the way `handlerOf` says (probed by running them) -/
theorem handlers_ok : handlersOk Gen.Handlers.handlers [("Float", "==")] = true := by decide

/-- known finding, kernel-checked on the probed table: for a `Float` left operand `==` selects a handler that
reads an `Int`, which panics on a Float operand while the generic path answers -/
theorem float_eq_selects_int_handler_witness :
    lookup Gen.OpSelect.rows Gen.OpSelect.ops "Float" "==" = some "EQUAL_INT" ∧
    (∀ (sem : Sem Bool Unit), typed sem not ⟨"==", .intDispatch, false, false⟩ (.float 0) true = .panic) := by
  constructor
  · decide
  · intro sem; rfl

/-- before the fix `SUBTRACT_FLOAT` read the Float's word as an integer: for the semantics "return the receiver
word" the typed path and the generic path disagree on 3.5 -/
theorem legacy_subtract_float_witness :
    let sem : Sem Int Unit := ⟨fun _ i _ => .ok i, fun _ i _ => .ok i, fun _ b _ => .ok (-(b : Int)), fun _ v _ => .ok v⟩
    (legacyHandlerOf "SUBTRACT_FLOAT").map (fun h => typed sem id h (.float 0x400C000000000000) 0)
      ≠ some (generic sem "-" (.float 0x400C000000000000) 0) := by decide

/-- constant folding computes the generic result or gives up -/
theorem fold_eq_generic (sem : Sem V E) (op : String) (l : LV V) (r v : V) :
    fold sem op l r = some v ↔ generic sem op l r = .ok v := by
  unfold fold
  cases generic sem op l r <;> simp

/-- the folded Float constant is loaded back unchanged (every 64-bit pattern, including -0.0 and NaNs) -/
theorem emit_float_roundtrip (bits : Nat) (h : bits < 2 ^ 64) : (emitFloat bits).run = bits := by
  unfold emitFloat isZero64
  split
  · rename_i hz
    split
    · rename_i hs
      simp only [beq_iff_eq] at hz hs
      simp only [FloatLoad.run]; omega
    · rfl
  · split
    · rename_i h1; simp only [beq_iff_eq] at h1; simp [FloatLoad.run, h1]
    · split
      · rename_i h2; simp only [beq_iff_eq] at h2; simp [FloatLoad.run, h2]
      · rfl

/-- before the fix a folded -0.0 came back as +0.0 -/
theorem legacy_emit_negzero_witness :
    (legacyEmitFloat 0x8000000000000000).run = 0 ∧ (emitFloat 0x8000000000000000).run = 0x8000000000000000 := by
  decide

/-- non-vacuity: a Float operand meets the hypotheses of `typed_eq_generic` for `SUBTRACT_FLOAT` -/
example : accFits (Handler.acc ⟨"-", .asFloat, false, false⟩) .float = true ∧
    hasTy (LV.float (V := Nat) 0x400C000000000000) .float = true := by decide

end Elk.C08
