import ElkVerif.Proofs.PromiseLive
/-!
# C15 — promise state machine part

"Every promise settles exactly once, with the body's result or error, for any thread-pool size
and any interleaving of tasks" — proved for the transition relation of `Model/Promise.lean`
(the relation of C16, whose hook traces are validated against the implementation).
The program-level part of C15 (plain = generator = async on generated bodies) is a
correspondence check, not a theorem.
-/
set_option linter.unusedSimpArgs false
namespace Elk.C15
open Elk.Promise

/-- **Settle once.** In every reachable state (any `N`, `Q`, any interleaving) the number of publishes
of a promise is 0 while it is unsettled and exactly 1 once it is settled. -/
theorem settle_once {N Q : Nat} {s : Sys} (h : Reachable N Q s) (p : Nat) :
    s.pubs p ≤ 1 ∧ (s.pubs p = 1 ↔ (s.prom p).settled ≠ none) := by
  have := (inv_reachable h).pubsOnce p
  rw [this]; split <;> simp_all

/-- **A settled promise never changes**: one step. -/
theorem settled_stable {N Q : Nat} {s s' : Sys} {e : Event} (h : Reachable N Q s) (hs : Step N Q s e s')
    (p : Nat) (r : Res) (hp : (s.prom p).settled = some r) : (s'.prom p).settled = some r := by
  have hi := inv_reachable h
  have hfresh : (s.prom p).kind ≠ .none := by
    intro hk; have := hi.fresh p hk; rw [this] at hp; cases hp
  cases e with
  | add a c =>
    obtain ⟨_, _, hk, rfl⟩ := step_add hs
    have : p ≠ c := by rintro rfl; exact hfresh hk
    simp [setProm, upd_apply, this, hp]
  | newx a c =>
    obtain ⟨_, _, hk, rfl⟩ := step_newx hs
    have : p ≠ c := by rintro rfl; exact hfresh hk
    simp [setProm, upd_apply, this, hp]
  | pub a c =>
    obtain ⟨own, r', ha, rfl⟩ := step_pub hs
    have : p ≠ c := by
      rintro rfl
      have := hi.resUnset a own p r' (Or.inr ha)
      rw [this] at hp; cases hp
    simp [setProm, upd_apply, this, hp]
  | enq a c => obtain ⟨_, _, _, rfl⟩ := step_enq hs; exact hp
  | deq a t => obtain ⟨_, _, _, rfl⟩ := step_deq hs; exact hp
  | aw a c => obtain ⟨_, _, _, rfl⟩ := step_aw hs; exact hp
  | aws a c => obtain ⟨_, _, _, rfl⟩ := step_aws hs; exact hp
  | enqc a c d => obtain ⟨_, _, _, rfl⟩ := step_enqc hs; exact hp
  | syw a c => obtain ⟨_, _, _, rfl⟩ := step_syw hs; exact hp
  | sywd a c => obtain ⟨_, _, _, rfl⟩ := step_sywd hs; exact hp
  | awl a c =>
    obtain ⟨_, _, _, rfl⟩ := step_awl hs
    by_cases hpc : p = c <;> simp_all [setProm, upd_apply]
  | awr a c =>
    obtain ⟨_, _, _, rfl⟩ := step_awr hs
    by_cases hpc : p = c <;> simp_all [setProm, upd_apply]
  | reg a c =>
    obtain ⟨_, _, rfl⟩ := step_reg hs
    by_cases hpc : p = c <;> simp_all [setProm, upd_apply]
  | unl a c =>
    obtain ⟨_, rfl⟩ := step_unl hs
    by_cases hpc : p = c <;> simp_all [setProm, upd_apply]
  | resl a c =>
    obtain ⟨_, _, _, _, rfl⟩ := step_resl hs
    by_cases hpc : p = c <;> simp_all [setProm, upd_apply]
  | resu a c =>
    obtain ⟨_, rfl⟩ := step_resu hs
    by_cases hpc : p = c <;> simp_all [setProm, upd_apply]
  | res a c r' =>
    rcases step_res hs with ⟨_, rfl⟩ | ⟨_, _, _, _, rfl⟩
    · exact hp
    · by_cases hpc : p = c <;> simp_all [setProm, upd_apply]

/-- **A settled promise never changes**: along any continuation of the run. -/
theorem settled_forever {N Q : Nat} :
    ∀ (tr : List Event) (s s' : Sys), Reachable N Q s → runTrace N Q s tr = some s' →
      ∀ p r, (s.prom p).settled = some r → (s'.prom p).settled = some r
  | [], s, s', _, h, p, r, hp => by simp [runTrace] at h; rw [← h]; exact hp
  | e :: es, s, s', hr, h, p, r, hp => by
    simp only [runTrace] at h
    cases hs : stepB N Q s e with
    | none => simp [hs] at h
    | some s1 =>
      simp only [hs] at h
      exact settled_forever es s1 s' (Reachable.step hr hs) h p r (settled_stable hr hs p r hp)

/-- **Async wrap (relation level).** What a promise is settled with is what `Resolve`/`Reject` was
called with — for a task: the value or error its body finished with (`executeBytecodePromise`
passes `thread.popGet()` / the thrown error) — in every reachable state, hence for every schedule,
pool size and queue capacity. Together with `settled_forever` every `await` of the promise — the
immediate path (`awr`, promise already settled) and the resumed path (`AWAIT_RESULT`, see
`C16.await_result_ready`) — reads exactly that value. -/
theorem async_wrap {N Q : Nat} {s : Sys} (h : Reachable N Q s) (p : Nat) (r : Res)
    (hp : (s.prom p).settled = some r) : s.bodyRes p = some r :=
  (inv_reachable h).bodyResSet p r hp

/-- while `Resolve`/`Reject` is in progress the value it will publish is the recorded body result -/
theorem publish_is_body_result {N Q : Nat} {s s' : Sys} (h : Reachable N Q s) (a p : Nat)
    (hs : Step N Q s (.pub a p) s') : (s'.prom p).settled = s.bodyRes p ∧ (s.prom p).settled = none := by
  have hi := inv_reachable h
  obtain ⟨own, r, ha, rfl⟩ := step_pub hs
  have hb := hi.bodyResAct a own p r (Or.inr ha)
  have hu := hi.resUnset a own p r (Or.inr ha)
  simp [setProm, hb, hu]

/-- non-vacuity: a run in which promise 1 is settled with `ok 7` and stays so while task 0 finishes -/
example : ∃ s, Reachable 2 1 s ∧ (s.prom 1).settled = some (.ok 7) ∧ s.pubs 1 = 1 ∧ (s.prom 0).settled = some (.err 3) := by
  let tr : List Event :=
    [.add 2 0, .enq 2 0, .deq 0 0, .add 0 1, .enq 0 1, .aw 0 1, .awl 0 1, .aws 0 1, .reg 0 1, .unl 0 1,
     .deq 1 1, .res 1 1 (.ok 7), .resl 1 1, .pub 1 1, .enqc 1 1 0, .resu 1 1,
     .deq 0 0, .res 0 0 (.err 3), .resl 0 0, .pub 0 0, .resu 0 0]
  have hrun : (runTrace 2 1 init tr).isSome = true := by decide
  refine ⟨(runTrace 2 1 init tr).getD init, ?_, by decide, by decide, by decide⟩
  have : runTrace 2 1 init tr = some ((runTrace 2 1 init tr).getD init) := by
    cases hh : runTrace 2 1 init tr with
    | none => rw [hh] at hrun; cases hrun
    | some x => rfl
  exact reachable_runTrace tr init _ Reachable.init this

end Elk.C15
