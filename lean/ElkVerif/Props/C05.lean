import ElkVerif.Proofs.PrecRound
import ElkVerif.Gen.Prec
/-!
# C05 — Printing a syntax tree and reparsing it gives the same tree (operator sub-language)

`Elk.Prec` (Model/Prec.lean) mirrors the `String()` printers of binary, logical, unary, postfix,
range and `as` nodes with `ExpressionPrecedence`/`ExpressionAssociativity` as a table, and the
parser's precedence ladder parametrised by the ladder of operator sets. `Elk.Gen.Prec.exprTable`
is regenerated from the real code on every run (`elkh probe prec`).

Quantifiers: all tables satisfying the decidable condition `Compatible`, all expression trees of
any depth and shape over the operators of the table (`Valid`). Tokens, not characters.
The other ~100 node printers have no theorem: they are searched (docs/C05.md).
-/
namespace Elk.C05
open Elk.Prec

/-- **Round trip.** For every table whose printer precedences and parser ladder are compatible,
every operator tree the parser can produce prints to tokens that parse back to the same tree. -/
theorem roundtrip (T : Table) (h : Compatible T = true) (e : E) (hv : Valid T e = true) :
    parse T (print T e) = some e :=
  parse_print (compat_of_compatible T h) e hv

/-- The tables probed from the real code are compatible (re-proved by the kernel on every run),
and the probe found the pair shapes of the real parser to be those of a ladder. -/
theorem tables_ok : Compatible Elk.Gen.Prec.exprTable = true ∧ Elk.Gen.Prec.consistent = true := by decide

/-- The model parser with the probed ladder returns exactly what the real parser returned on every
probe source (`a o1 b o2 c` for representatives of all levels, the unary/power/postfix/range/as chain). -/
theorem shapes_ok : Elk.Gen.Prec.shapes.all
    (fun chunk => chunk.all fun (ts, r) => parse Elk.Gen.Prec.exprTable ts == r) = true := by decide

/-- The round trip for Elk's own tables. -/
theorem roundtrip_elk (e : E) (hv : Valid Elk.Gen.Prec.exprTable e = true) :
    parse Elk.Gen.Prec.exprTable (print Elk.Gen.Prec.exprTable e) = some e :=
  roundtrip _ tables_ok.1 e hv

/-! ## what `Valid` excludes

The full statement quantifies over every tree the real parser can produce. Two families of such
trees do not round-trip in today's code; `Valid` excludes exactly them (and ill-formed trees). -/

/-- trees the real parser can produce: as `Valid`, with endless ranges and any range end -/
def Producible (T : Table) : E → Bool
  | .atom _ => true
  | .un o e => T.unOps.contains o && Producible T e
  | .post e o => T.postOps.contains o && Producible T e && (match e with | .post _ _ => false | _ => true)
  | .bin k o l r =>
    ((T.ladder.any fun lv => lv.kind == k && lv.ops.contains o) || (k == .bin && o == T.powOp)) &&
      Producible T l && Producible T r
  | .rng o l r => T.rngOps.contains o && Producible T l && Producible T r
  | .rngOpen o l => T.rngOps.contains o && Producible T l
  | .as e _ => Producible T e

/-- the property at full strength for the operator sub-language -/
def FullStatement (T : Table) : Prop := ∀ e, Producible T e = true → parse T (print T e) = some e

/-- `(a...) - b` is printed `a... - b`, which is `a...(-b)` -/
theorem endless_range_witness : ¬ FullStatement Elk.Gen.Prec.exprTable := by
  intro h
  have := h (.bin .bin "-" (.rngOpen "..." (.atom "a")) (.atom "b")) (by decide)
  revert this
  decide

/-- `a...(<<b)` is printed `a...<<b`, which is `(a...) << b`: `<<` may not start the end of a range -/
theorem range_end_witness :
    parse Elk.Gen.Prec.exprTable (print Elk.Gen.Prec.exprTable (.rng "..." (.atom "a") (.un "<<" (.atom "b")))) =
      some (.bin .bin "<<" (.rngOpen "..." (.atom "a")) (.atom "b")) := by decide

/-! ## non-vacuity -/

/-- a tree mixing all node kinds meets `Valid`; it prints with exactly the parentheses it needs -/
example : Valid Elk.Gen.Prec.exprTable
    (.bin .logic "&&" (.bin .bin "-" (.atom "a") (.bin .bin "-" (.atom "b") (.un "-" (.atom "c"))))
      (.rng "..." (.as (.bin .bin "**" (.un "!" (.atom "d")) (.post (.atom "e") "++")) "T") (.atom "f"))) = true := by
  decide

example : print Elk.Gen.Prec.exprTable (.bin .bin "-" (.atom "a") (.bin .bin "-" (.atom "b") (.atom "c"))) =
    [.atom "a", .op .inf "-", .lparen, .atom "b", .op .inf "-", .atom "c", .rparen] := by decide

end Elk.C05
