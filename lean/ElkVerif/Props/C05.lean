import ElkVerif.Model.Prec
import ElkVerif.Gen.Prec
namespace Elk.C05
open Elk.Prec

/-- the probed tables satisfy the side condition of `roundtrip` (re-proved on every run) -/
theorem tables_ok : Compatible Elk.Gen.Prec.exprTable = true ∧ Elk.Gen.Prec.consistent = true := by decide

/-- the model parser with the probed ladder returns what the real parser returned on every probe source -/
theorem shapes_ok : Elk.Gen.Prec.shapes.all
    (fun chunk => chunk.all fun (ts, r) => parse Elk.Gen.Prec.exprTable ts == r) = true := by decide

end Elk.C05
