import ElkVerif.Proofs.Range
import ElkVerif.Model.IterOps
/-!
# C23 — Ranges and iterable operations agree with a list model

* every range kind: `contains` is exactly the bounds of the notation; the iterator of each
  iterable kind yields exactly the integers inside the bounds, in increasing order, once each;
* every native loop of `vm/iterable.go`, run over ANY iterator that obeys the `next` protocol
  (any state type, any element type), returns what the `List` operation returns on the
  materialised elements — including the error answers, an iterator that fails half-way, and
  early exits on endless iterators.
-/
namespace Elk.C23
open Elk.Iter Elk.Range

/-! ## ranges -/

/-- `contains` agrees with the bounds, for each of the eight kinds and all integers -/
theorem contains_iff_bounds (r : Range) (x : Int) : r.contains x = true ↔ r.Bounds x :=
  Range.contains_iff_bounds r x

/-- iterating a finite range (any bounds, also empty and reversed ones) yields exactly `toList`, then stops -/
theorem range_iterates_toList (r : Range) (hf : r.kind.finite = true) (fuel : Nat) (h : r.fuel ≤ fuel) :
    drain r.iterator fuel r.lo = (r.toList, End.done) := by
  obtain ⟨k, lo, hi⟩ := r
  unfold Range.fuel at h
  cases k <;> simp [Kind.finite] at hf <;> simp only [Range.toList]
  · have := drain_closed lo hi lo fuel (by simp at h; omega); simpa using this
  · have := drain_open lo hi lo fuel (by simp at h; omega); simpa using this
  · have := drain_leftOpen lo hi lo fuel (by simp at h; omega); simpa using this
  · have := drain_rightOpen lo hi lo fuel (by simp at h; omega); simpa using this

/-- an endless range yields consecutive integers for as long as it is asked -/
theorem endless_iterates (r : Range) (hf : r.kind = .endlessClosed ∨ r.kind = .endlessOpen) (n : Nat) :
    (drain r.iterator n r.lo).1 = r.firstN n := by
  obtain ⟨k, lo, hi⟩ := r
  rcases hf with h | h <;> simp at h <;> subst h
  · simp [drain_endlessClosed, Range.firstN]
  · simp [drain_endlessOpen, Range.firstN]

/-- the elements are exactly the integers the range contains -/
theorem mem_toList_iff_contains (r : Range) (hf : r.kind.finite = true) (x : Int) :
    x ∈ r.toList ↔ r.contains x = true := by
  rw [contains_iff_bounds]
  obtain ⟨k, lo, hi⟩ := r
  cases k <;> simp [Kind.finite] at hf <;> simp only [Range.toList, Range.Bounds, mem_intsFrom] <;> omega

/-- in strictly increasing order, hence without repetition -/
theorem toList_sorted (r : Range) : r.toList.Pairwise (· < ·) := by
  obtain ⟨k, lo, hi⟩ := r
  cases k <;> simp only [Range.toList] <;> first | exact intsFrom_pairwise _ _ | simp

theorem toList_nodup (r : Range) : r.toList.Nodup :=
  (toList_sorted r).imp (fun h => Int.ne_of_lt h)

/-- number of elements of each finite kind -/
theorem length_formula (r : Range) :
    r.toList.length =
      match r.kind with
      | .closed => (r.hi - r.lo + 1).toNat
      | .rightOpen | .leftOpen => (r.hi - r.lo).toNat
      | .open => (r.hi - r.lo - 1).toNat
      | _ => 0 := by
  obtain ⟨k, lo, hi⟩ := r
  cases k <;> simp [Range.toList, length_intsFrom]

/-! ## every native loop = the `List` operation on the materialised elements -/

section natives
variable {σ α β ε : Type}

/-- The general statement behind all of the following: for every loop, iterator, fuel and start
state, running the native over the iterator is running it over what `drain` sees. -/
theorem native_eq_on_drained {ρ β' : Type} (L : Loop α β' ρ) (it : Iterator σ α ε) (fuel : Nat) (s : σ) :
    (L.run it fuel s).val = L.listEndFrom (drain it fuel s).1 (drain it fuel s).2 L.init :=
  runFrom_val L it fuel s L.init

/-- on a finite iterator (it stops within the fuel) the native returns the list-level result -/
theorem native_on_finite {ρ β' : Type} (L : Loop α β' ρ) (it : Iterator σ α ε) (fuel : Nat) (s : σ)
    (l : List α) (h : drain it fuel s = (l, End.done)) :
    (L.run it fuel s).val = some (.ok (L.onList l)) := by
  rw [native_eq_on_drained, h]; exact listEndFrom_done L l L.init

variable (it : Iterator σ α ε) (fuel : Nat) (s : σ) (l : List α) (h : drain it fuel s = (l, End.done))
include h

theorem map_eq (f : α → β) : ((mapL f).run it fuel s).val = some (.ok (l.map f)) := by
  rw [native_on_finite _ it fuel s l h, mapL_onList]
theorem filter_eq (p : α → Bool) : ((filterL p).run it fuel s).val = some (.ok (l.filter p)) := by
  rw [native_on_finite _ it fuel s l h, filterL_onList]
theorem reject_eq (p : α → Bool) : ((rejectL p).run it fuel s).val = some (.ok (l.filter (fun a => !p a))) := by
  rw [native_on_finite _ it fuel s l h, rejectL_onList]
theorem count_eq (p : α → Bool) : ((countL p).run it fuel s).val = some (.ok (l.countP p)) := by
  rw [native_on_finite _ it fuel s l h, countL_onList]
theorem any_eq (p : α → Bool) : ((anyL p).run it fuel s).val = some (.ok (l.any p)) := by
  rw [native_on_finite _ it fuel s l h, anyL_onList]
theorem every_eq (p : α → Bool) : ((everyL p).run it fuel s).val = some (.ok (l.all p)) := by
  rw [native_on_finite _ it fuel s l h, everyL_onList]
/-- `find`: the first match, `NotFoundError` when there is none -/
theorem find_eq (p : α → Bool) :
    ((findL p).run it fuel s).val =
      some (.ok (orNotFound (l.find? p))) := by
  rw [native_on_finite _ it fuel s l h, findL_onList]
theorem try_find_eq (p : α → Bool) : ((tryFindL p).run it fuel s).val = some (.ok (l.find? p)) := by
  rw [native_on_finite _ it fuel s l h, tryFindL_onList]
/-- `index_of`: position of the first equal element, `-1` when absent -/
theorem index_of_eq [BEq α] (v : α) :
    ((indexOfL v).run it fuel s).val =
      some (.ok (idxOrMinus1 (l.findIdx? (· == v)))) := by
  rw [native_on_finite _ it fuel s l h, indexOfL_onList]
theorem find_index_eq (p : α → Bool) :
    ((findIndexL p).run it fuel s).val =
      some (.ok (idxOrMinus1 (l.findIdx? p))) := by
  rw [native_on_finite _ it fuel s l h, findIndexL_onList]
theorem contains_eq [BEq α] (v : α) : ((containsL v).run it fuel s).val = some (.ok (l.any (· == v))) := by
  rw [native_on_finite _ it fuel s l h, containsL_onList]
theorem is_empty_eq : ((isEmptyL : Loop α Unit Bool).run it fuel s).val = some (.ok l.isEmpty) := by
  rw [native_on_finite _ it fuel s l h, isEmptyL_onList]
/-- `first`: the head, `NotFoundError` on an empty iterable -/
theorem first_eq :
    ((firstL : Loop α Unit (Except NErr α)).run it fuel s).val =
      some (.ok (orNotFound l.head?)) := by
  rw [native_on_finite _ it fuel s l h, firstL_onList]
theorem try_first_eq : ((tryFirstL : Loop α Unit (Option α)).run it fuel s).val = some (.ok l.head?) := by
  rw [native_on_finite _ it fuel s l h, tryFirstL_onList]
/-- `last`: the last element, `NotFoundError` on an empty iterable -/
theorem last_eq :
    ((lastL : Loop α (Option α) (Except NErr α)).run it fuel s).val =
      some (.ok (orNotFound l.getLast?)) := by
  rw [native_on_finite _ it fuel s l h, lastL_onList]
theorem try_last_eq : ((tryLastL : Loop α (Option α) (Option α)).run it fuel s).val = some (.ok l.getLast?) := by
  rw [native_on_finite _ it fuel s l h, tryLastL_onList]
theorem take_eq (n : Int) (hn : 0 ≤ n) : ((takeL n).run it fuel s).val = some (.ok (l.take n.toNat)) := by
  rw [native_on_finite _ it fuel s l h, takeL_onList n hn]
theorem drop_eq (n : Int) (hn : 0 ≤ n) : ((dropL n).run it fuel s).val = some (.ok (l.drop n.toNat)) := by
  rw [native_on_finite _ it fuel s l h, dropL_onList n hn]
theorem take_while_eq (p : α → Bool) : ((takeWhileL p).run it fuel s).val = some (.ok (l.takeWhile p)) := by
  rw [native_on_finite _ it fuel s l h, takeWhileL_onList]
theorem drop_while_eq (p : α → Bool) : ((dropWhileL p).run it fuel s).val = some (.ok (l.dropWhile p)) := by
  rw [native_on_finite _ it fuel s l h, dropWhileL_onList]
/-- `reduce`: left fold seeded with the first element; on an empty iterable the `Undefined`
sentinel itself comes back (`none`) — see `reduce_empty_witness` -/
theorem reduce_eq (g : α → α → α) :
    ((reduceL g).run it fuel s).val =
      some (.ok (reduceSpec g l)) := by
  rw [native_on_finite _ it fuel s l h, reduceL_onList]
theorem fold_eq (init : β) (g : β → α → β) : ((foldL init g).run it fuel s).val = some (.ok (l.foldl g init)) := by
  rw [native_on_finite _ it fuel s l h, foldL_onList]
theorem to_list_eq : ((toListL : Loop α _ _).run it fuel s).val = some (.ok l) := by
  rw [native_on_finite _ it fuel s l h, toListL_onList]
theorem length_eq : ((lengthL : Loop α _ _).run it fuel s).val = some (.ok l.length) := by
  rw [native_on_finite _ it fuel s l h, lengthL_onList]

end natives

/-! ## errors and endless iterators -/

/-- a loop that never breaks -/
def NoBreak {α β ρ : Type} (L : Loop α β ρ) : Prop := ∀ b a, ∃ b', L.body b a = .cont b'

/-- an iterator that fails after some elements makes every non-breaking native return that error -/
theorem native_error_propagates {σ α β ρ ε : Type} (L : Loop α β ρ) (hL : NoBreak L)
    (it : Iterator σ α ε) (fuel : Nat) (s : σ) (l : List α) (e : ε) (h : drain it fuel s = (l, End.err e)) :
    (L.run it fuel s).val = some (.error e) := by
  rw [native_eq_on_drained, h]
  simp only []
  clear h
  generalize L.init = b
  induction l generalizing b with
  | nil => rfl
  | cons a l ih =>
    obtain ⟨b', hb⟩ := hL b a
    simp only [Loop.listEndFrom, hb]; exact ih b'

example {α β : Type} (f : α → β) : NoBreak (mapL f) := fun _ _ => ⟨_, rfl⟩
example {α : Type} : NoBreak (lengthL : Loop α Nat Nat) := fun _ _ => ⟨_, rfl⟩

/-- `take n` needs only `n + 1` elements: on any iterator that still yields that many (an endless
range, an open channel, …) the result is the first `n` of them, however the iteration would go on -/
theorem take_prefix {σ α ε : Type} (it : Iterator σ α ε) (fuel : Nat) (s : σ) (l : List α) (e : End ε)
    (n : Int) (hn : 0 ≤ n) (h : drain it fuel s = (l, e)) (hl : n.toNat < l.length) :
    ((takeL n).run it fuel s).val = some (.ok (l.take n.toNat)) := by
  rw [native_eq_on_drained, h]
  simp only []
  have key : ∀ (l : List α) (c : Int) (acc : List α), 0 ≤ c → c.toNat < l.length →
      (takeL n).listEndFrom l e (c, acc) = some (.ok (acc ++ l.take c.toNat)) := by
    intro l
    induction l with
    | nil => intro c acc _ hlt; simp at hlt
    | cons a l ih =>
      intro c acc hc hlt
      simp only [Loop.listEndFrom]
      have hb : (takeL n).body (c, acc) a = (if c ≤ 0 then .brk acc else .cont (c - 1, acc ++ [a])) := rfl
      rw [hb]
      by_cases h0 : c ≤ 0
      · have : c = 0 := by omega
        subst this; simp
      · simp only [h0, if_false]
        rw [ih (c - 1) (acc ++ [a]) (by omega) (by simp at hlt; omega)]
        have hc' : c.toNat = (c - 1).toNat + 1 := by omega
        rw [hc']; simp
  have : (takeL n : Loop α _ _).init = (n, []) := rfl
  rw [this, key l n [] hn hl]; simp

/-- the argument check in front of `take` / `drop` -/
theorem negative_count_is_error (n : Int) : checkCount n = .error .outOfRange ↔ n < 0 := by
  unfold checkCount; split <;> simp_all

/-- `reduce` of an empty iterable hands back the VM's `Undefined` sentinel instead of raising
(full-strength statement would ask for an error or `nil`): the native returns its untouched accumulator -/
theorem reduce_empty_witness :
    (IterOps.evalSource (.seq []) (.reduce .add)).out = .undefined := by decide

/-! ## the executable model used by the correspondence run is made of exactly these loops -/

/-- ranges plugged into the natives: e.g. `(lo...hi).iter.map(f)` is `map f` of the integers in the bounds -/
theorem range_map (r : Range) (hf : r.kind.finite = true) (f : Int → Int) :
    ((mapL f).run r.iterator r.fuel r.lo).val = some (.ok (r.toList.map f)) :=
  map_eq r.iterator r.fuel r.lo r.toList (range_iterates_toList r hf r.fuel (Nat.le_refl _)) f

theorem range_length (r : Range) (hf : r.kind.finite = true) :
    ((lengthL : Loop Int _ _).run r.iterator r.fuel r.lo).val = some (.ok r.toList.length) :=
  length_eq r.iterator r.fuel r.lo r.toList (range_iterates_toList r hf r.fuel (Nat.le_refl _))

/-- `take` of an endless range -/
theorem endless_take (r : Range) (hf : r.kind = .endlessClosed ∨ r.kind = .endlessOpen) (n : Nat) :
    ((takeL (n : Int)).run r.iterator (n + 1) r.lo).val = some (.ok (r.firstN n)) := by
  obtain ⟨k, lo, hi⟩ := r
  rcases hf with h | h <;> simp at h <;> subst h
  · have hd := drain_endlessClosed lo hi lo (n + 1)
    have := take_prefix (Range.iterator ⟨.endlessClosed, lo, hi⟩) (n + 1) lo _ _ (n : Int) (by omega) hd
      (by simp [length_intsFrom])
    rw [this]; simp [Range.firstN, intsFrom_take]
  · have hd := drain_endlessOpen lo hi lo (n + 1)
    have := take_prefix (Range.iterator ⟨.endlessOpen, lo, hi⟩) (n + 1) lo _ _ (n : Int) (by omega) hd
      (by simp [length_intsFrom])
    rw [this]; simp [Range.firstN, intsFrom_take]

end Elk.C23
