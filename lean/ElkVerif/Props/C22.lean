import ElkVerif.Proofs.DateFmt
import ElkVerif.Proofs.ZoneOff
/-!
# C22 — Calendar arithmetic is exact, never wraps, and formatting round-trips
-/
namespace Elk.C22
open Elk.Civil Elk.Date Elk.DateFmt

/-! ## The civil calendar: day numbers ↔ dates, for ALL integer years and ALL day numbers -/

/-- date → day number → date is the identity on every real calendar date -/
theorem civil_roundtrip_date (y m d : Int) (h : Valid y m d) :
    civilFromDays (daysFromCivil y m d) = (y, m, d) :=
  civilFromDays_daysFromCivil y m d h

example : Valid (-4194304) 2 29 := by decide   -- year −4194304 is a leap year

/-- day number → date → day number is the identity on every integer -/
theorem civil_roundtrip_days (n : Int) :
    daysFromCivil (civilFromDays n).1 (civilFromDays n).2.1 (civilFromDays n).2.2 = n :=
  daysFromCivil_civilFromDays n

/-- the inverse only produces real dates -/
theorem civil_valid (n : Int) : Valid (civilFromDays n).1 (civilFromDays n).2.1 (civilFromDays n).2.2 :=
  civilFromDays_valid n

/-- the day count is the proleptic Gregorian one: it is anchored at 1970-01-01 = 0 and the calendar
successor (month lengths and the 4/100/400 leap rule only) is the next day number. -/
theorem civil_follows_calendar :
    daysFromCivil 1970 1 1 = 0 ∧
    ∀ y m d, Valid y m d →
      daysFromCivil (nextDay y m d).1 (nextDay y m d).2.1 (nextDay y m d).2.2 = daysFromCivil y m d + 1 :=
  ⟨daysFromCivil_epoch, daysFromCivil_nextDay⟩

/-! ## `Date` ± span: exact on the calendar, never wraps

`calendarAdd` is the specification: go `days` days along the calendar, then `months` months (counted on
`year·12 + month`), keep the day of month but clamp it to the length of the target month. -/

/-- what `date + (months, days)` means on the calendar -/
def calendarAdd (y m d months days : Int) : Int × Int × Int :=
  let c := civilFromDays (daysFromCivil y m d + days)
  let tot := c.1 * 12 + (c.2.1 - 1) + months
  let y2 := tot / 12
  let m2 := tot % 12 + 1
  (y2, m2, min c.2.2 (daysInMonth y2 m2))

/-- `Date + span` (`Date.AddDateSpan`): for every real date of the representable range and every span, the
result is the calendar result when its year is representable and `Date::InvalidYearError` otherwise —
it never wraps. (`range_checked` and `add_exact` in one statement.) -/
theorem add_span_calendar (y m d : Int) (hy : InRange y) (hv : Valid y m d) (s : DateSpan) :
    Date.addDateSpan (makeDate y m d) s =
      let r := calendarAdd y m d s.months s.days
      (if InRange r.1 then .ok (makeDate r.1 r.2.1 r.2.2) else .error .year : Except Err Date) := by
  obtain ⟨hsp, hval⟩ := date_add_spec y m d hy hv s.months s.days
  simp only [calendarAdd]
  unfold Date.addDateSpan DateTime.addDateSpan
  rw [hsp]
  exact checkedDate_midnight _ _ _ hval

/-- `DateTime ± span` (`DateTime.AddDateSpan` / `SubtractDateSpan`, UTC): for EVERY datetime and all integers
`months`, `days` the result is the calendar result at the same time of day (no range limit for `DateTime`) -/
theorem datetime_add_span_calendar (t : Int) (months days : Int) :
    let c := civilFromDays (DateTime.dayNum t + days)
    let tot := c.1 * 12 + (c.2.1 - 1) + months
    DateTime.addMonthsDays t months days =
      daysFromCivil (tot / 12) (tot % 12 + 1) (min c.2.2 (daysInMonth (tot / 12) (tot % 12 + 1))) * nsPerDay
        + DateTime.tod t :=
  addMonthsDays_spec t months days

/-- `Date - span` is `Date + (-span)` on the calendar, with the same range check -/
theorem sub_span_calendar (y m d : Int) (hy : InRange y) (hv : Valid y m d) (s : DateSpan) :
    Date.subDateSpan (makeDate y m d) s =
      let r := calendarAdd y m d (-s.months) (-s.days)
      (if InRange r.1 then .ok (makeDate r.1 r.2.1 r.2.2) else .error .year : Except Err Date) :=
  add_span_calendar y m d hy hv ⟨-s.months, -s.days⟩

/-- adding `n` days is exact: the day number grows by exactly `n` (all `n`, also beyond ±106751 days) -/
theorem add_days_exact (y m d : Int) (hy : InRange y) (hv : Valid y m d) (n : Int) (r : Date)
    (h : Date.addDateSpan (makeDate y m d) ⟨0, n⟩ = .ok r) :
    daysFromCivil r.year r.month r.day = daysFromCivil y m d + n := by
  rw [add_span_calendar y m d hy hv] at h
  simp only [calendarAdd, Int.add_zero] at h
  have hcv := civilFromDays_valid (daysFromCivil y m d + n)
  generalize hc : civilFromDays (daysFromCivil y m d + n) = c at *
  have hy2 : (c.1 * 12 + (c.2.1 - 1)) / 12 = c.1 := by have := hcv.1; have := hcv.2.1; omega
  have hm2 : (c.1 * 12 + (c.2.1 - 1)) % 12 + 1 = c.2.1 := by have := hcv.1; have := hcv.2.1; omega
  rw [hy2, hm2] at h
  have hmin : min c.2.2 (daysInMonth c.1 c.2.1) = c.2.2 := by have := hcv.2.2.2; omega
  rw [hmin] at h
  split at h
  · rename_i hr
    injection h with h; subst h
    have hb := valid_bounds hcv
    obtain ⟨e1, e2, e3⟩ := makeDate_fields c.1 c.2.1 c.2.2 hr hb.1 hb.2
    rw [e1, e2, e3, ← hc]; exact daysFromCivil_civilFromDays _
  · cases h

/-- adding `k` months keeps the day of month, clamped to the last day of the target month -/
theorem month_add_clamp_spec (y m d : Int) (hy : InRange y) (hv : Valid y m d) (k : Int) :
    Date.addDateSpan (makeDate y m d) ⟨k, 0⟩ =
      let tot := y * 12 + (m - 1) + k
      (if InRange (tot / 12) then .ok (makeDate (tot / 12) (tot % 12 + 1) (min d (daysInMonth (tot / 12) (tot % 12 + 1))))
      else .error .year : Except Err Date) := by
  rw [add_span_calendar y m d hy hv]
  simp only [calendarAdd, Int.add_zero, civilFromDays_daysFromCivil y m d hv]

/-- full-strength `range_checked`: whatever the receiver's bits and the span, a result is either an error or
a date whose fields are those of the exact calendar result, inside the representable range -/
theorem range_checked (d : Date) (s : DateSpan) :
    (∃ r, Date.addDateSpan d s = .ok r ∧ InRange r.year ∧
        r.year = DateTime.year (d.toDateTime.addDateSpan s) ∧ r.month = DateTime.month (d.toDateTime.addDateSpan s) ∧
        r.day = DateTime.day (d.toDateTime.addDateSpan s)) ∨
    (Date.addDateSpan d s = .error .year ∧ ¬ InRange (DateTime.year (d.toDateTime.addDateSpan s))) := by
  unfold Date.addDateSpan
  rcases checkedDate_cases (d.toDateTime.addDateSpan s) with ⟨r, hr⟩ | he
  · left
    obtain ⟨h1, h2, h3, h4⟩ := checkedDate_ok _ r hr
    exact ⟨r, hr, h4, h1, h2, h3⟩
  · right; exact ⟨he, (checkedDate_err _).mp he⟩

/-- the witness quoted in the property now raises -/
example : Date.addDateSpan (makeDate 4194303 12 31) ⟨0, 1⟩ = .error .year := by decide
example : Date.addDateSpan (makeDate 4194303 12 31) ⟨0, -1⟩ = .ok (makeDate 4194303 12 30) := by decide
example : Date.addDateSpan (makeDate 2000 1 1) ⟨0, 106752⟩ = .ok (makeDate 2292 4 11) := by decide
example : Date.subDateSpan (makeDate 2023 3 31) ⟨1, 0⟩ = .ok (makeDate 2023 2 28) := by decide
example : Date.subDateSpan (makeDate (-1) 3 15) ⟨0, 0⟩ = .ok (makeDate (-1) 3 15) := by decide
example : InRange 2024 ∧ Valid 2024 2 29 := by decide

/-! ## difference of two dates -/

/-- `d₁ - d₂` is the field-wise difference -/
theorem diff_fieldwise (y1 m1 a y2 m2 b : Int) (hy1 : InRange y1) (hv1 : Valid y1 m1 a)
    (hy2 : InRange y2) (hv2 : Valid y2 m2 b) :
    (makeDate y1 m1 a).diffDate (makeDate y2 m2 b) = ⟨monthIndex y1 m1 - monthIndex y2 m2, a - b⟩ :=
  diffDate_valid y1 m1 a y2 m2 b hy1 hv1 hy2 hv2

/-- the property as written: adding the difference back gives the first date — for ALL pairs of dates -/
def DiffAddInverse : Prop :=
  ∀ y1 m1 a y2 m2 b : Int, InRange y1 → Valid y1 m1 a → InRange y2 → Valid y2 m2 b →
    Date.addDateSpan (makeDate y2 m2 b) ((makeDate y1 m1 a).diffDate (makeDate y2 m2 b)) = .ok (makeDate y1 m1 a)

/-- it fails on the code as it is: 2023-02-28 + (2023-03-31 − 2023-02-28) = 2023-04-03 -/
theorem diff_add_witness :
    Date.addDateSpan (makeDate 2023 2 28) ((makeDate 2023 3 31).diffDate (makeDate 2023 2 28))
      = .ok (makeDate 2023 4 3) := by
  rw [diff_fieldwise 2023 3 31 2023 2 28 (by decide) (by decide) (by decide) (by decide)]
  decide

theorem diffAddInverse_fails : ¬ DiffAddInverse := by
  intro h
  have := h 2023 3 31 2023 2 28 (by decide) (by decide) (by decide) (by decide)
  rw [diff_add_witness] at this
  exact absurd this (by decide)

/-- it holds exactly under the hypothesis that excludes the defect: the day of month of the first date
exists in the month of the second (always true for days ≤ 28) -/
theorem diff_add_partial (y1 m1 a y2 m2 b : Int) (hy1 : InRange y1) (hv1 : Valid y1 m1 a)
    (hy2 : InRange y2) (hv2 : Valid y2 m2 b) (ha : a ≤ daysInMonth y2 m2) :
    Date.addDateSpan (makeDate y2 m2 b) ((makeDate y1 m1 a).diffDate (makeDate y2 m2 b)) = .ok (makeDate y1 m1 a) := by
  rw [diff_fieldwise y1 m1 a y2 m2 b hy1 hv1 hy2 hv2, add_span_calendar y2 m2 b hy2 hv2]
  have hva : Valid y2 m2 a := ⟨hv2.1, hv2.2.1, hv1.2.2.1, ha⟩
  have e1 : daysFromCivil y2 m2 b + (a - b) = daysFromCivil y2 m2 a := by
    have := daysFromCivil_add_day y2 m2 b (a - b)
    have e : b + (a - b) = a := by omega
    rw [e] at this; omega
  simp only [calendarAdd, e1, civilFromDays_daysFromCivil y2 m2 a hva, monthIndex]
  have h1 := hv1.1; have h1' := hv1.2.1
  have ey : (y2 * 12 + (m2 - 1) + (y1 * 12 + (m1 - 1) - (y2 * 12 + (m2 - 1)))) / 12 = y1 := by omega
  have em : (y2 * 12 + (m2 - 1) + (y1 * 12 + (m1 - 1) - (y2 * 12 + (m2 - 1)))) % 12 + 1 = m1 := by omega
  rw [ey, em, if_pos hy1]
  have : min a (daysInMonth y1 m1) = a := by have := hv1.2.2.2; omega
  rw [this]

example : InRange 2023 ∧ Valid 2023 3 28 ∧ Valid 2023 2 28 ∧ (28 : Int) ≤ daysInMonth 2023 2 := by decide

/-! ## formatting and parsing -/

/-- the property as written: `Date.parse(d.to_string)` is `d` for every representable date -/
def FormatParseRoundtrip : Prop :=
  ∀ y m d : Int, InRange y → Valid y m d →
    parseDate defaultDateFormat (dateString (makeDate y m d)) = .ok (makeDate y m d)

/-- it fails for negative years (`%Y` is read as at most four unsigned digits) … -/
theorem format_parse_negative_year_witness :
    parseDate defaultDateFormat (dateString (makeDate (-5) 3 1)) = .err .format := by decide

/-- … and for years above 9999 -/
theorem format_parse_five_digit_year_witness :
    parseDate defaultDateFormat (dateString (makeDate 10000 1 1)) = .err .format := by decide

theorem formatParseRoundtrip_fails : ¬ FormatParseRoundtrip := by
  intro h
  have := h (-5) 3 1 (by decide) (by decide)
  rw [format_parse_negative_year_witness] at this
  exact absurd this (by decide)

/-- `to_string` is the default format -/
theorem dateString_eq_format (y m d : Int) :
    formatDate defaultDateFormat (makeDate y m d) = .ok (dateString (makeDate y m d)) := by
  have hs : scan defaultDateFormat =
      [.year .zero, .text ['-'], .month .zero, .text ['-'], .dayOfMonth .zero] := by decide
  unfold formatDate
  rw [hs]
  simp [fmtToks, fmtDateTok, fmtPad, dateString, bind, Except.bind, pure, Except.pure]

/-- `Date.parse(d.to_string) = d` under exactly the hypothesis that excludes the defect: every real date
whose year is in 0 … 9999 (character-level model of `%04d-%02d-%02d`, `parseTemporalDigitsOk`,
`constructDateFromTmp`, `Normalize`) -/
theorem format_parse_roundtrip_partial (y m d : Int) (hy : 0 ≤ y ∧ y ≤ 9999) (hv : Valid y m d) :
    parseDate defaultDateFormat (dateString (makeDate y m d)) = .ok (makeDate y m d) :=
  dateString_parse y m d hy hv

example : (0 : Int) ≤ 2024 ∧ (2024 : Int) ≤ 9999 ∧ Valid 2024 2 29 := by decide

/-- sample round trips (tests of the statement on boundary dates) -/
example : parseDate defaultDateFormat (dateString (makeDate 2024 2 29)) = .ok (makeDate 2024 2 29) := by decide
example : parseDate defaultDateFormat (dateString (makeDate 0 1 1)) = .ok (makeDate 0 1 1) := by decide
example : parseDate defaultDateFormat (dateString (makeDate 9999 12 31)) = .ok (makeDate 9999 12 31) := by decide

/-- `Span.parse(s.to_string) == s`, as a check -/
def dateSpanRt (mo da : Int) : Bool :=
  match parseDateSpan (dateSpanString ⟨mo, da⟩) with | .ok s => decide (s = ⟨mo, da⟩) | _ => false
def timeSpanRt (ns : Int) : Bool :=
  match parseTimeSpan (timeSpanString ns) with | .ok t => decide (t = ns) | _ => false
def dateTimeSpanRt (s : DateTimeSpan) : Bool :=
  match parseDateTimeSpan (dateTimeSpanString s) with | .ok t => decide (t = s) | _ => false

/-- span strings: the property as written, for the three span types (normalised `DateTime::Span`s) -/
def SpanRoundtrip : Prop :=
  (∀ mo da : Int, -2147483648 ≤ mo → mo < 2147483648 → -2147483648 ≤ da → da < 2147483648 → dateSpanRt mo da = true) ∧
  (∀ ns : Int, -9223372036854775808 ≤ ns → ns < 9223372036854775808 → timeSpanRt ns = true) ∧
  (∀ mo da ns : Int, -2147483648 ≤ mo → mo < 2147483648 → -2147483447 ≤ da → da < 2147483447 →
      -9223372036854775808 ≤ ns → ns < 9223372036854775808 → dateTimeSpanRt (newDateTimeSpan ⟨mo, da⟩ ns) = true)

/-- sample span round trips at the boundaries (tests; `SpanRoundtrip` itself is tied by correspondence only) -/
example : dateSpanRt (-14) (-3) = true := by decide
example : dateSpanRt 2147483647 (-2147483648) = true := by decide
example : dateSpanRt 0 0 = true := by decide
example : timeSpanRt (-9223372036854775808) = true := by decide
example : timeSpanRt 5400000000001 = true := by decide
example : timeSpanRt 0 = true := by decide
example : dateTimeSpanRt (newDateTimeSpan ⟨14, 3⟩ (-5400000000001)) = true := by decide


/-! ## Zone offsets in strftime output (`%z`, `%:z`) -/

/-- every whole-minute offset the implementation accepts (strictly between −24 h and +24 h) is printed by `%z` / `%:z`
and parsed back to itself -/
theorem zone_offset_roundtrip (colon : Bool) (o : Int) (h1 : -86400 < o) (h2 : o < 86400) (hm : o % 60 = 0) :
    Elk.ZoneOff.parseOff colon (Elk.ZoneOff.fmtOff colon o) = some o :=
  Elk.ZoneOff.offset_roundtrip colon o h1 h2 hm

example : Elk.ZoneOff.parseOff true (Elk.ZoneOff.fmtOff true (-1800)) = some (-1800) := by decide   -- −00:30

/-- the full statement (every accepted offset) is false: seconds are dropped (known finding C22-zone-offset-seconds) -/
theorem zone_offset_seconds_witness :
    Elk.ZoneOff.parseOff false (Elk.ZoneOff.fmtOff false (-1830)) = some (-1800) := by decide

end Elk.C22
