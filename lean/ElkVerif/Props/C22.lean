import ElkVerif.Proofs.Civil
import ElkVerif.Model.DateFmt
/-!
# C22 — Calendar arithmetic is exact, never wraps, and formatting round-trips
-/
namespace Elk.C22
open Elk.Civil Elk.Date

/-! ## The civil calendar: day numbers ↔ dates, for ALL integer years and ALL day numbers -/

/-- date → day number → date is the identity on every real calendar date -/
theorem civil_roundtrip_date (y m d : Int) (h : Valid y m d) :
    civilFromDays (daysFromCivil y m d) = (y, m, d) :=
  civilFromDays_daysFromCivil y m d h

example : Valid (-4194304) 2 29 := by decide   -- year −4194304 is a leap year

/-- day number → date → day number is the identity on every integer -/
theorem civil_roundtrip_days (n : Int) :
    daysFromCivil (civilFromDays n).1 (civilFromDays n).2.1 (civilFromDays n).2.2 = n :=
  daysFromCivil_civilFromDays n

/-- the inverse only produces real dates -/
theorem civil_valid (n : Int) : Valid (civilFromDays n).1 (civilFromDays n).2.1 (civilFromDays n).2.2 :=
  civilFromDays_valid n

/-- the day count is the proleptic Gregorian one: it is anchored at 1970-01-01 = 0 and the calendar
successor (month lengths and the 4/100/400 leap rule only) is the next day number. -/
theorem civil_follows_calendar :
    daysFromCivil 1970 1 1 = 0 ∧
    ∀ y m d, Valid y m d →
      daysFromCivil (nextDay y m d).1 (nextDay y m d).2.1 (nextDay y m d).2.2 = daysFromCivil y m d + 1 :=
  ⟨daysFromCivil_epoch, daysFromCivil_nextDay⟩

end Elk.C22
