import ElkVerif.Proofs.Bytecode
/-!
# C29 — Compiled bytecode is structurally valid

Certified per-instance checking. `Bytecode.verifyFunc` is run by `elkmodel` on every
`BytecodeFunction` the real compiler emits for the corpus; the theorems below say what an accepted
function guarantees, for **all** executions of the abstract machine `Bytecode.exec` (one
activation, all branches of unknown conditions, all raise edges).

The machine has two handler-entry semantics (`Cfg.lax`): `false` is `vm/thread.go` as it is
(`rethrow` pushes onto whatever the raising instruction left: D16), `true` is the VM the compiler
assumes (operand stack cut back to the depth the `do` block was entered with). `verify_sound` holds
for both; which functions are accepted only under `lax = true` is reported by the check as the
D16 finding class.
-/
namespace Elk.C29
open Elk.Bytecode

/-! ## the two opcode tables agree (regenerated table, kernel `decide` on every run) -/

/-- operand bytes the VM handler consumes (`semTable`) = operand bytes the real disassembler skips
(probed layout) -/
def layoutOk (layout : Nat) (s : Sem) : Bool :=
  match s.opnd.bytes with
  | some n => layout == n + 1
  | none => layout == 255

/-- the probed table and the semantic table list the same opcode names, position by position, with
agreeing layouts -/
def alignOk : List (Nat × String × Nat) → List (String × Sem) → Bool
  | [], [] => true
  | r :: rs, t :: ts => r.2.1 == t.1 && layoutOk r.2.2 t.2 && alignOk rs ts
  | _, _ => false

set_option maxRecDepth 16000 in
/-- **The two opcode tables agree** (kernel `decide` on the table regenerated from the real
`OpCode.String` / `DisassembleInstruction` on every run): every opcode the real code names has VM
semantics in the model and vice versa, and the real disassembler's operand layout of each is the
layout the VM handler reads. -/
theorem tables_agree : alignOk Gen.Opcodes.rows semTable = true := by decide

theorem alignOk_mem : ∀ (rows : List (Nat × String × Nat)) (tbl : List (String × Sem)),
    alignOk rows tbl = true → ∀ r ∈ rows, ∃ s, (r.2.1, s) ∈ tbl ∧ layoutOk r.2.2 s = true
  | [], _, _, r, hr => by simp at hr
  | _ :: _, [], h, _, _ => by simp [alignOk] at h
  | a :: rs, t :: ts, h, r, hr => by
    simp only [alignOk, Bool.and_eq_true, beq_iff_eq] at h
    rcases List.mem_cons.mp hr with rfl | hr
    · exact ⟨t.2, by rw [h.1.1]; simp, h.1.2⟩
    · obtain ⟨s, hs, hl⟩ := alignOk_mem rs ts h.2 r hr
      exact ⟨s, List.mem_cons_of_mem _ hs, hl⟩

/-- every probed opcode has a semantic row with the same operand layout -/
theorem every_opcode_has_semantics :
    ∀ r ∈ Gen.Opcodes.rows, ∃ s, (r.2.1, s) ∈ semTable ∧ layoutOk r.2.2 s = true :=
  alignOk_mem _ _ tables_agree

/-! ## decoding -/

/-- **Decode totality.** The linear sweep (= `Disassemble`'s loop) of any byte string terminates with
either the list of instruction boundaries or the decode fault of an instruction that starts inside
the code; it never gives up for lack of fuel. -/
theorem decode_total (code : Array Nat) :
    (∃ bs, sweep code = .ok bs) ∨
    (∃ pc e, pc < code.size ∧ decodeAt code pc = .error e ∧ sweep code = .error e) :=
  sweepFrom_total code (code.size + 1) 0 (Nat.zero_le _) (by omega)

/-- **Instruction fetch in range.** A decoded instruction is at least one byte wide and all its
bytes (opcode, operands, closure descriptors up to the terminator) lie inside `Instructions`. -/
theorem decode_in_range (code : Array Nat) (pc : Nat) (i : Instr) (h : decodeAt code pc = .ok i) :
    i.pc = pc ∧ 0 < i.width ∧ pc + i.width ≤ code.size :=
  decodeAt_bounds code pc i h

/-- **Boundaries tile the code.** Every boundary of the sweep decodes, and is followed directly by
the next boundary or by the end of the code; the first boundary is offset 0. -/
theorem sweep_tiles (code : Array Nat) (bs : List Nat) (h : sweep code = .ok bs) :
    (∀ b ∈ bs, ∃ i, decodeAt code b = .ok i ∧ b < code.size ∧ (b + i.width ∈ bs ∨ b + i.width = code.size)) ∧
    (code.size = 0 ∧ bs = [] ∨ ∃ r, bs = 0 :: r) := by
  have ht := sweepFrom_tiles code (code.size + 1) 0 bs h
  refine ⟨ht.mem, ?_⟩
  rcases ht.head with ⟨h1, h2⟩ | h
  · left; exact ⟨h2.symm, h1⟩
  · right; exact h

/-! ## structure: jump targets, catch entries, indices — for every instruction, reachable or not -/

/-- **Structure.** If `checkStructure` accepts, then for every instruction of the function: it
decodes; its static index/kind checks hold (`staticCheck`: constant index in range and of the kind
the handler casts to, local index inside the frame, upvalue index below `UpvalueCount`, closure
descriptors in range, `NEW_RANGE`/`DEF_NAMESPACE` operand valid, opcode has a handler); every jump
target computable from the instruction is an instruction boundary. Every catch entry is well placed
(`catchOk`). -/
theorem structure_sound (P : Prog) (f : Func) (bs : List Nat) (h : checkStructure P f = .ok bs) :
    sweep f.code = .ok bs ∧
    (∀ pc ∈ bs, ∃ i, decodeAt f.code pc = .ok i ∧ staticCheck P f i = .ok () ∧ ∀ t ∈ staticTargets i, t ∈ bs) ∧
    (∀ c ∈ f.catches, catchOk f bs c = true) := by
  unfold checkStructure at h
  cases hs : sweep f.code with
  | error e => rw [hs] at h; cases h
  | ok bs' =>
    rw [hs] at h
    simp only [] at h
    cases hi : checkInstrs P f bs' bs' with
    | error e => rw [hi] at h; cases h
    | ok u =>
      rw [hi] at h
      simp only [] at h
      cases hc : f.catches.find? (fun c => !catchOk f bs' c) with
      | some c => rw [hc] at h; cases h
      | none =>
        rw [hc] at h
        injection h with h
        subst h
        refine ⟨rfl, checkInstrs_mem hi, ?_⟩
        intro c hcm
        have := List.find?_eq_none.mp hc c hcm
        simpa using this

/-! ## the verifier is sound for the abstract machine -/

/-- what it means for an activation of `f` to be safe: every reachable state of the abstract
machine is at an instruction that decodes inside the code, and executing it raises no `Fault`
(no read outside `Instructions`, `Values`, the frame's locals, the closure's upvalues; no constant
of the wrong kind; no pop below the frame's locals; no jump outside the function) -/
def SafeActivation (P : Prog) (f : Func) (cfg : Cfg) : Prop :=
  ∀ s, Reachable P f cfg s →
    (∃ i, decodeAt f.code s.pc = .ok i ∧ s.pc + i.width ≤ f.code.size) ∧
    (∃ l, exec P f cfg s = .ok l)

/-- exec does not fault ⇒ the instruction at `pc` decodes -/
theorem exec_ok_decodes {P : Prog} {f : Func} {cfg : Cfg} {s : St} {l : List St}
    (h : exec P f cfg s = .ok l) : ∃ i, decodeAt f.code s.pc = .ok i := by
  unfold exec at h
  cases hr : execRaw P f cfg s with
  | error e => rw [hr] at h; cases h
  | ok l' =>
    unfold execRaw at hr
    cases hd : decodeAt f.code s.pc with
    | error e => rw [hd] at hr; cases hr
    | ok i => exact ⟨i, rfl⟩

/-- **Certificate soundness.** A state set that passes `checkCert` contains every reachable state,
and no reachable state faults. -/
theorem cert_sound (P : Prog) (f : Func) (cfg : Cfg) (cert : List St)
    (h : checkCert P f cfg cert = true) : SafeActivation P f cfg := by
  intro s hr
  have hs := reachable_in_cert h hr
  obtain ⟨l, hl, _⟩ := checkCert_closed h hs
  obtain ⟨i, hi⟩ := exec_ok_decodes hl
  exact ⟨⟨i, hi, (decodeAt_bounds _ _ _ hi).2.2⟩, l, hl⟩

/-- **`verify_sound`.** If the verifier accepts `f`, there is a machine configuration with the
requested handler semantics under which the activation is safe, and every reachable program counter
is an instruction boundary of the linear sweep (no execution ever enters the middle of an
instruction). -/
theorem verify_sound (P : Prog) (f : Func) (lax : Bool) (v : Verdict)
    (h : verifyFunc P f lax = .ok v) :
    ∃ cfg bs, cfg.lax = lax ∧ checkStructure P f = .ok bs ∧ SafeActivation P f cfg ∧
      ∀ s, Reachable P f cfg s → s.pc ∈ bs := by
  unfold verifyFunc at h
  cases hv : verifyFuncD P f lax with
  | error r => rw [hv] at h; cases h
  | ok v' =>
    unfold verifyFuncD at hv
    cases hs : checkStructure P f with
    | error e => rw [hs] at hv; cases hv
    | ok bs =>
      rw [hs] at hv
      simp only [] at hv
      cases he : explore P f { lax := lax } (4 * maxStates) [St.entry f { lax := lax }] {} [] {} with
      | error e => rw [he] at hv; cases hv
      | ok r =>
        obtain ⟨cert, dg⟩ := r
        rw [he] at hv
        simp only [] at hv
        split at hv
        · rename_i hc
          simp only [Bool.and_eq_true] at hc
          refine ⟨{ lax := lax }, bs, rfl, rfl, cert_sound P f _ cert hc.1, ?_⟩
          intro s hr
          exact onBoundaries_mem hc.2 (reachable_in_cert hc.1 hr)
        · cases hv

/-- the operand stack never underflows: a generic stack instruction that executes without fault
had its operands on the stack (the same holds for every other class: `exec` checks before it pops) -/
theorem no_underflow_stack (f : Func) (cfg : Cfg) (marks : List (Option Nat)) (pc next : Nat) (stk : List AV) (p q : Nat) (thr : Thr)
    (l : List St) (h : stackStep f cfg marks pc next stk p q thr = .ok l) : p ≤ stk.length := by
  unfold stackStep need at h
  by_cases hp : p ≤ stk.length
  · exact hp
  · simp only [hp, if_false] at h
    cases h

/-! ## what "no fault" means, class by class (every read the VM handler makes is in range) -/

theorem execRaw_of_exec {P : Prog} {f : Func} {cfg : Cfg} {s : St} {l : List St}
    (h : exec P f cfg s = .ok l) : ∃ l', execRaw P f cfg s = .ok l' := by
  unfold exec at h
  cases hr : execRaw P f cfg s with
  | error e => rw [hr] at h; cases h
  | ok l' => exact ⟨l', rfl⟩

/-- `GET_LOCAL*` / `SELF`: the slot read is inside the frame -/
theorem local_read_in_frame {P : Prog} {f : Func} {cfg : Cfg} {s : St} {l : List St} {i : Instr} {fixed : Option Nat}
    (h : exec P f cfg s = .ok l) (hd : decodeAt f.code s.pc = .ok i) (ha : i.info.sem.act = .getLocal fixed) :
    fixed.getD i.a < localCount f := by
  obtain ⟨l', hr⟩ := execRaw_of_exec h
  unfold execRaw at hr
  rw [hd] at hr
  simp only [ha] at hr
  unfold chkLocal at hr
  by_cases hlt : fixed.getD i.a < localCount f
  · exact hlt
  · simp only [hlt, if_false] at hr
    cases hr

/-- `SET_LOCAL*`: the slot written is inside the frame and the value was on the operand stack -/
theorem local_write_in_frame {P : Prog} {f : Func} {cfg : Cfg} {s : St} {l : List St} {i : Instr} {fixed : Option Nat}
    (h : exec P f cfg s = .ok l) (hd : decodeAt f.code s.pc = .ok i) (ha : i.info.sem.act = .setLocal fixed) :
    fixed.getD i.a < localCount f ∧ 0 < s.stk.length := by
  obtain ⟨l', hr⟩ := execRaw_of_exec h
  unfold execRaw at hr
  rw [hd] at hr
  simp only [ha] at hr
  unfold chkLocal at hr
  by_cases hlt : fixed.getD i.a < localCount f
  · refine ⟨hlt, ?_⟩
    simp only [hlt, if_true] at hr
    cases hstk : s.stk with
    | nil => rw [hstk] at hr; cases hr
    | cons a r => simp
  · simp only [hlt, if_false] at hr
    cases hr

/-- `GET_UPVALUE*`: the index is below the closure's `UpvalueCount` -/
theorem upvalue_read_in_range {P : Prog} {f : Func} {cfg : Cfg} {s : St} {l : List St} {i : Instr} {fixed : Option Nat}
    (h : exec P f cfg s = .ok l) (hd : decodeAt f.code s.pc = .ok i) (ha : i.info.sem.act = .getUp fixed) :
    fixed.getD i.a < f.upvalues := by
  obtain ⟨l', hr⟩ := execRaw_of_exec h
  unfold execRaw at hr
  rw [hd] at hr
  simp only [ha] at hr
  unfold chkUp at hr
  by_cases hlt : fixed.getD i.a < f.upvalues
  · exact hlt
  · simp only [hlt, if_false] at hr
    cases hr

/-- `LOAD_VALUE*`: the constant index is inside `Values` -/
theorem const_load_in_range {P : Prog} {f : Func} {cfg : Cfg} {s : St} {l : List St} {i : Instr} {fixed : Option Nat}
    (h : exec P f cfg s = .ok l) (hd : decodeAt f.code s.pc = .ok i) (ha : i.info.sem.act = .loadValue fixed) :
    fixed.getD i.a < f.consts.size := by
  obtain ⟨l', hr⟩ := execRaw_of_exec h
  unfold execRaw at hr
  rw [hd] at hr
  simp only [ha] at hr
  cases hc : f.consts[fixed.getD i.a]? with
  | none => rw [hc] at hr; cases hr
  | some c => exact (Array.getElem?_eq_some_iff.mp hc).1

/-- `CALL_METHOD8/16`: the operand denotes a `*CallSiteInfo` constant (the kind the handler casts to
without a check) and receiver plus arguments are on the operand stack -/
theorem call_site_ok {P : Prog} {f : Func} {cfg : Cfg} {s : St} {l : List St} {i : Instr}
    (h : exec P f cfg s = .ok l) (hd : decodeAt f.code s.pc = .ok i) (ha : i.info.sem.act = .call .dyn) :
    ∃ argc, f.consts[i.a]? = some (.callSite argc) ∧ argc + 1 ≤ s.stk.length := by
  obtain ⟨l', hr⟩ := execRaw_of_exec h
  unfold execRaw at hr
  rw [hd] at hr
  simp only [ha] at hr
  cases hc : f.consts[i.a]? with
  | none => rw [hc] at hr; cases hr
  | some c =>
    rw [hc] at hr
    cases c <;> simp only [] at hr <;> try (cases hr)
    rename_i argc
    refine ⟨argc, rfl, ?_⟩
    unfold callStep need at hr
    by_cases hn : argc + 1 ≤ s.stk.length
    · exact hn
    · simp only [hn, if_false] at hr
      cases hr

/-- generic stack instructions (`ADD`, `POP`, `NEW_*`, …): their operands are on the operand stack -/
theorem stack_operands_present {P : Prog} {f : Func} {cfg : Cfg} {s : St} {l : List St} {i : Instr} {p q : Nat} {thr : Thr}
    (h : exec P f cfg s = .ok l) (hd : decodeAt f.code s.pc = .ok i) (ha : i.info.sem.act = .stack p q thr) :
    p ≤ s.stk.length := by
  obtain ⟨l', hr⟩ := execRaw_of_exec h
  unfold execRaw at hr
  rw [hd] at hr
  simp only [ha] at hr
  exact no_underflow_stack f cfg _ _ _ _ _ _ _ _ hr

/-- `JUMP`: the target is inside the function -/
theorem jump_target_in_code {P : Prog} {f : Func} {cfg : Cfg} {s : St} {l : List St} {i : Instr}
    (h : exec P f cfg s = .ok l) (hd : decodeAt f.code s.pc = .ok i) (ha : i.info.sem.act = .jump) :
    s.pc + i.width + i.a < f.code.size := by
  obtain ⟨l', hr⟩ := execRaw_of_exec h
  unfold execRaw at hr
  rw [hd] at hr
  simp only [ha] at hr
  unfold chkTarget at hr
  by_cases hlt : s.pc + i.width + i.a < f.code.size
  · exact hlt
  · simp only [hlt, if_false] at hr
    cases hr

/-- every reachable program counter of an accepted function points into the code -/
theorem reachable_pc_in_code (P : Prog) (f : Func) (cfg : Cfg) (hs : SafeActivation P f cfg) (s : St)
    (hr : Reachable P f cfg s) : s.pc < f.code.size := by
  obtain ⟨⟨i, hi, _⟩, _⟩ := hs s hr
  have := decodeAt_bounds _ _ _ hi
  omega

/-! ## non-vacuity and witnesses (concrete functions assembled by opcode *name*) -/

/-- opcode byte of a name in the probed table -/
def op (name : String) : Nat := (Gen.Opcodes.rows.find? (fun r => r.2.1 == name)).map (·.1) |>.getD 255

/-- `INT_1; RETURN` -/
def tiny : Func := { code := #[op "INT_1", op "RETURN"], consts := #[], catches := [], upvalues := 0, params := 0 }

/-- the hypothesis of `cert_sound` is satisfiable: a two-state certificate for `INT_1; RETURN` -/
example : checkCert #[tiny] tiny {} [⟨0, [], []⟩, ⟨1, [.int 1], []⟩] = true := by
  rw [checkCert_eq_L]; decide

/-- `def f: Int; a := 10 + do boom() catch Error() as e; 2 end; a end` as the compiler emits it
(catch entry 4:7 → 10). The callee raises. -/
def d16f : Func := {
  code := #[op "PREP_LOCALS8", 2, op "LOAD_INT_8", 10, op "SELF", op "CALL_METHOD_BC8", 0,
            op "JUMP", 0, 20, op "DUP", op "SET_LOCAL_2", op "DUP", op "GET_CONST8", 1, op "IS_A",
            op "JUMP_UNLESS_NP", 0, 2, op "POP", op "TRUE", op "JUMP_UNLESS", 0, 5, op "INT_2",
            op "POP_2_SKIP_ONE", op "JUMP", 0, 1, op "RETHROW", op "ADD_INT", op "SET_LOCAL_1",
            op "GET_LOCAL_1", op "RETURN"],
  consts := #[.bcSite 0 false 1, .sym], catches := [⟨4, 7, 10, false⟩], upvalues := 0, params := 0 }
def d16boom : Func := { code := #[op "NIL", op "THROW", op "RETURN"], consts := #[], catches := [], upvalues := 0, params := 0 }
def d16P : Prog := #[d16f, d16boom]

/-- full statement of the "consistent where paths join" clause for one activation -/
def JoinConsistent (P : Prog) (f : Func) (cfg : Cfg) : Prop :=
  ∀ s₁ s₂, Reachable P f cfg s₁ → Reachable P f cfg s₂ → s₁.pc = s₂.pc → s₁.stk.length = s₂.stk.length

/-- **D16 witness.** In the VM as it is (`lax = false`) the `ADD_INT` at offset 30 of `d16f` is reached
with operand-stack depth 2 on the normal path and depth 3 after the caught raise (the slot the
collapsed callee frame leaves stays under the handler's values): the join is inconsistent, and
`ADD_INT` adds the garbage slot. -/
theorem d16_witness : ¬ JoinConsistent d16P d16f {} := by
  intro h
  have h1 := reachN_sound d16P d16f {} 5 ⟨30, [.any, .int 10], []⟩ (by decide)
  have h2 := reachN_sound d16P d16f {} 14 ⟨30, [.int 2, .any, .int 10], []⟩ (by decide)
  have := h _ _ h1 h2 rfl
  simp at this

end Elk.C29
