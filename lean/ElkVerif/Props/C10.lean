import ElkVerif.Proofs.UpvalueGrow
/-!
# C10 — Runtime sizing parameters do not change program results (machine level)

The value stack of the VM is an array that `growValueStack` reallocates; frame pointers, `sp`,
`fp` and the slot pointers of open upvalues are raw addresses into it. `Elk.Upvalue.CA` models
the thread with addresses, `Elk.Upvalue.abs` forgets them. The theorems say that nothing a
program can observe depends on the initial size, on when the stack grows, or on where the
allocator puts the new array.
-/
namespace Elk.C10
open Elk.Upvalue

/-- Reallocation is invisible: for EVERY well-formed state (any number of frames, stale frames,
open and closed upvalues, referenced from running closures, from several frames at once, or
from no frame at all) and every non-overlapping placement of the new array, the address-free
state is unchanged and the result is again well formed. -/
theorem grow_invisible (s : CA) (nb : Int) (hI : InvA s) (hd : Disjoint s.base s.mem.length nb) :
    abs (grow s nb) = abs s ∧ InvA (grow s nb) :=
  let h := grow_invisible' s nb hI hd
  ⟨h.1, h.2.1⟩

/-- what "well formed" means, on the addressed state itself: `sp`, `fp`, saved frame pointers and
open slot pointers are slot boundaries of the backing array (open slots inside it), and the open
list holds exactly the open upvalues by strictly descending address -/
theorem wellformed_iff (s : CA) : InvA s ↔ WF s := ⟨WF_of_InvA s, InvA_of_WF s⟩

/-- the statement above, for an arbitrary implementation of growth -/
def GrowInvisible (g : CA → Int → CA) : Prop :=
  ∀ (s : CA) (nb : Int), InvA s → Disjoint s.base s.mem.length nb → abs (g s nb) = abs s ∧ InvA (g s nb)

theorem grow_is_invisible : GrowInvisible grow := grow_invisible

/-- the initial thread is well formed -/
theorem init_enc (b : Int) (n : Nat) :
    CA.init b n = enc b ⟨(List.replicate n undef).set (n - 1) sentinel, []⟩ C.init := by
  simp [CA.init, enc, C.init]

theorem LInv_init : LInv C.init.heap C.init.openL := ⟨by simp [C.init], by simp [C.init], by simp [C.init]⟩

/-- every state a thread can reach — by any operation sequence, scoped or not, from any initial
size, under any growth policy and allocator — is well formed, so `grow_invisible` applies to it,
and the index machine `C` computes the same reads -/
theorem reachable_wellformed (cfg : Cfg) (hal : ∀ s, Disjoint s.base s.mem.length (cfg.alloc s))
    (b : Int) (n : Nat) (ops : List Op) (s : CA) (rs : List Val)
    (h : run (stepCA cfg) (CA.init b n) ops = .ok (s, rs)) :
    InvA s ∧ run step C.init ops = .ok (abs s, rs) := by
  rw [init_enc] at h
  obtain ⟨b', j', c', e, hr, hi, hb⟩ := runCA_enc cfg hal ops b _ C.init LInv_init
    (by intro u s hu; simp [C.init] at hu) s rs h
  subst e
  refine ⟨⟨⟨j', c', rfl, hi, ?_⟩⟩, by rw [abs_enc]; exact hr⟩
  intro u slot hu
  exact hb u slot hu

/-- Size independence: for ALL operation sequences, two threads started with different initial
stack sizes, at different addresses, with different growth policies, allocators and limits
read the same values and end in the same address-free state — provided both get to the end
(neither exhausts its stack limit nor overruns its array). -/
theorem run_size_independent (cfg₁ cfg₂ : Cfg)
    (hal₁ : ∀ s, Disjoint s.base s.mem.length (cfg₁.alloc s))
    (hal₂ : ∀ s, Disjoint s.base s.mem.length (cfg₂.alloc s))
    (b₁ b₂ : Int) (n₁ n₂ : Nat) (ops : List Op) (s₁ s₂ : CA) (rs₁ rs₂ : List Val)
    (h₁ : run (stepCA cfg₁) (CA.init b₁ n₁) ops = .ok (s₁, rs₁))
    (h₂ : run (stepCA cfg₂) (CA.init b₂ n₂) ops = .ok (s₂, rs₂)) :
    rs₁ = rs₂ ∧ abs s₁ = abs s₂ := by
  have r₁ := (reachable_wellformed cfg₁ hal₁ b₁ n₁ ops s₁ rs₁ h₁).2
  have r₂ := (reachable_wellformed cfg₂ hal₂ b₂ n₂ ops s₂ rs₂ h₂).2
  rw [r₁] at r₂
  injection r₂ with r₂
  injection r₂ with e1 e2
  exact ⟨e2, e1⟩

/-! ## What the two fixes repaired -/

/-- one frame-less thread, two live slots, an open upvalue on slot 1 whose closure is not
running (it is referenced from no frame): base 1008, capacity 4 -/
def w1 : CA :=
  { base := 1008, mem := [7, 8, 0, -1], sp := 1008 + 48, fp := 1008, upvalues := [], frames := [],
    stale := [], heap := [.opn (1008 + 24)], openL := [0], hs := [0] }

/-- the same with the closure running (`vm.upvalues = [u0]`) -/
def w2 : CA := { w1 with upvalues := [0] }

/-- the closure is running and is also referenced from a caller's frame, as after
`callBytecodeFunction` from inside a closure -/
def w3 : CA := { w1 with upvalues := [0], frames := [⟨1008, [0]⟩] }

theorem w1_enc : w1 = enc 1008 ⟨[0, -1], []⟩ ⟨[7, 8], 0, [], [], [.opn 1], [0], [0]⟩ := by decide
theorem w2_enc : w2 = enc 1008 ⟨[0, -1], []⟩ ⟨[7, 8], 0, [0], [], [.opn 1], [0], [0]⟩ := by decide
theorem w3_enc : w3 = enc 1008 ⟨[0, -1], []⟩ ⟨[7, 8], 0, [0], [⟨0, [0]⟩], [.opn 1], [0], [0]⟩ := by decide

theorem LInv_single : LInv [Uv.opn 1] [0] := by
  refine ⟨by simp, ?_, ?_⟩
  · intro u hu; simp at hu; subst hu; exact ⟨1, rfl⟩
  · intro u s hu
    cases u with
    | zero => simp
    | succ k => simp at hu

theorem bnd_single : ∀ (u slot : Nat), [Uv.opn 1][u]? = some (Uv.opn slot) → slot < 4 := by
  intro u slot hu
  cases u with
  | zero => simp at hu; omega
  | succ k => simp at hu

theorem w1_wf : InvA w1 := ⟨⟨_, _, w1_enc, LInv_single, bnd_single⟩⟩
theorem w2_wf : InvA w2 := ⟨⟨_, _, w2_enc, LInv_single, bnd_single⟩⟩
theorem w3_wf : InvA w3 := ⟨⟨_, _, w3_enc, LInv_single, bnd_single⟩⟩

theorem disj_w : Disjoint 1008 4 4096 := by unfold Disjoint VS; omega

/-- `growValueStack` before 7e4e807 did not walk the open-upvalue list: the upvalue of a closure
that is not running keeps pointing into the old array -/
theorem growBuggy_witness_not_walked : abs (growBuggy w1 4096) ≠ abs w1 := by decide

/-- … and for running closures it rebased by the negated offset (arguments of
`stackOffsetFromTo` swapped) -/
theorem growBuggy_witness_negated : abs (growBuggy w2 4096) ≠ abs w2 := by decide

theorem growBuggy_breaks : ¬ GrowInvisible growBuggy := by
  intro h
  exact growBuggy_witness_not_walked (h w1 4096 w1_wf disj_w).1

/-- `growValueStack` between 7e4e807 and e18b419 rebased an open upvalue once per walked set that
contains it; the second pass takes an address in the new array for one in the old -/
theorem growNoGuard_witness : abs (growNoGuard w3 4096) ≠ abs w3 := by decide

theorem growNoGuard_breaks : ¬ GrowInvisible growNoGuard := by
  intro h
  exact growNoGuard_witness (h w3 4096 w3_wf disj_w).1

/-- the fixed `grow` on the same three states (tests, not theorems: instances of `grow_invisible`) -/
example : abs (grow w1 4096) = abs w1 ∧ abs (grow w2 4096) = abs w2 ∧ abs (grow w3 4096) = abs w3 := by
  decide

/-- non-vacuity of `run_size_independent`: a sequence with captures, a call from inside a
closure, growth while the upvalue is open, return and reads completes from sizes 3 and 64 -/
def demoCfg (up : Bool) : Cfg :=
  { needGrow := fun sp cap => decide (10 * sp > 7 * cap),
    alloc := fun s => if up then s.base + VS * s.mem.length + 40 else s.base - VS * (2 * s.mem.length) - 56,
    maxSize := 1000 }

theorem demoCfg_disjoint (up : Bool) (s : CA) : Disjoint s.base s.mem.length ((demoCfg up).alloc s) := by
  unfold Disjoint demoCfg VS
  cases up <;> simp <;> omega

def demoOps : List Op :=
  [.push 1, .grow, .push 2, .capture 1, .callc 0 [0], .fset 0 5, .callm 0, .grow, .fget 0, .ret, .ret,
   .uget 0, .getLocal 1]

example : (run (stepCA (demoCfg true)) (CA.init 4096 3) demoOps).toOption.map (·.2) = some [5, 5, 5] := by decide
example : (run (stepCA (demoCfg false)) (CA.init 800 64) demoOps).toOption.map (·.2) = some [5, 5, 5] := by decide

end Elk.C10
