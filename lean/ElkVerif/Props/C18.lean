import ElkVerif.Proofs.Num
/-!
# C18 — Equality, hashing and ordering are mutually consistent
-/
namespace Elk.C18
open Elk.Num Elk.Val

/-- the exact dyadic comparison used by the model is the order of ℚ -/
theorem dy_cmp_lt (a b : Dy) : Dy.cmp a b < 0 ↔ a.toRat < b.toRat := Dy.cmp_neg_iff a b
theorem dy_cmp_eq (a b : Dy) : Dy.cmp a b = 0 ↔ a.toRat = b.toRat := Dy.cmp_zero_iff a b
theorem dy_cmp_gt (a b : Dy) : 0 < Dy.cmp a b ↔ b.toRat < a.toRat := Dy.cmp_pos_iff a b

/-- Before the fix `=~` between Int and Float went through float64 and was not transitive:
2^53+1 =~ 2^53 (as Float) =~ 2^53 but not 2^53+1 =~ 2^53 (kernel-checked on the legacy definitions). -/
theorem legacy_laxeq_not_trans_witness :
    Legacy.laxIntFloat (2 ^ 53 + 1) 0x4340000000000000 = true ∧
    Legacy.laxIntFloat (2 ^ 53) 0x4340000000000000 = true ∧
    laxEq (.si (2 ^ 53 + 1)) (.si (2 ^ 53)) = false := by decide

/-- … and `2**53 + 1 > (2**53).to_float` was false -/
theorem legacy_gt_wrong_witness :
    Legacy.gtIntFloat (2 ^ 53 + 1) 0x4340000000000000 = false ∧
    rel .gt (.si (2 ^ 53 + 1)) (.f 0x4340000000000000) = .ok true := by decide

/-- Before the fix `0.0 == -0.0` held but the hashed byte streams differed -/
theorem legacy_zero_hash_witness :
    eqVal (.f 0) (.f 0x8000000000000000) = true ∧
    Legacy.floatHashBytes 0 ≠ Legacy.floatHashBytes 0x8000000000000000 ∧
    hashBytes (.f 0) = hashBytes (.f 0x8000000000000000) := by decide

end Elk.C18
