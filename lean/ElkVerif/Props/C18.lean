import ElkVerif.Proofs.Num
import ElkVerif.Proofs.Val
/-!
# C18 — Equality, hashing and ordering are mutually consistent

`Num` models the numeric kinds with the dispatch tables of `value/*.go` (after the `fix:` commits that made the
mixed Int/Float comparisons exact). `a.val : EV` is the exact value in ℚ ∪ {±∞} (or NaN), obtained by decoding the
IEEE bit patterns. `wf` are the representation invariants (ranges of the fixed-width kinds, a BigInt does not fit
a SmallInt). `ordClass` groups the kinds that the ordering operators accept together:
{SmallInt, BigInt, Float, BigFloat}, and every sized kind on its own.
-/
namespace Elk.C18
open Elk.Num

/-! ## every operator agrees with the exact value -/

/-- the mixed comparison `CmpInt64Float64` (trunc, compare integer part, compare fraction) is exact -/
theorem cmpInt64Float64_exact (i : Int) (hlo : -(2 ^ 63) ≤ i) (hhi : i < 2 ^ 63) (d : Dy) :
    cmpI64F i (.fin d) = Dy.cmp (Dy.ofInt i) d := cmpI64F_exact i hlo hhi d

theorem cmpUint64Float64_exact (u : Int) (hlo : 0 ≤ u) (hhi : u < 2 ^ 64) (d : Dy) :
    cmpU64F u (.fin d) = Dy.cmp (Dy.ofInt u) d := cmpU64F_exact u hlo hhi d

/-- `<=>`: accepted exactly within an `ordClass`; `nil` iff a NaN is involved; otherwise the sign of the exact
difference -/
theorem cmp_iff_val (a b : Num) (ha : wf a = true) (hb : wf b = true) :
    (ordClass a ≠ ordClass b → compareVal a b = .err) ∧
    (ordClass a = ordClass b →
      ∃ r, compareVal a b = .ok r ∧
        (r = none ↔ (a.val.isNaN ∨ b.val.isNaN)) ∧
        ∀ c, r = some c → (c = -1 ∨ c = 0 ∨ c = 1) ∧ (c < 0 ↔ EV.lt a.val b.val) ∧
          (c = 0 ↔ a.val = b.val) ∧ (0 < c ↔ EV.lt b.val a.val)) := by
  rw [compareVal_spec a b ha hb]
  constructor
  · intro h; rw [if_neg h]
  · intro h; rw [if_pos h]
    refine ⟨_, rfl, ?_, ?_⟩
    · rw [Ext.cmp_none_iff, ← Ext.val_nan_iff, ← Ext.val_nan_iff]; rfl
    · intro c hc; exact Ext.cmp_sound _ _ c hc

theorem lt_iff_val (a b : Num) (ha : wf a = true) (hb : wf b = true) (hc : ordClass a = ordClass b) :
    rel .lt a b = .ok true ↔ EV.lt a.val b.val := lt_iff a b ha hb hc

theorem gt_iff_val (a b : Num) (ha : wf a = true) (hb : wf b = true) (hc : ordClass a = ordClass b) :
    rel .gt a b = .ok true ↔ EV.lt b.val a.val := gt_iff a b ha hb hc

theorem le_iff_val (a b : Num) (ha : wf a = true) (hb : wf b = true) (hc : ordClass a = ordClass b) :
    rel .le a b = .ok true ↔ (EV.lt a.val b.val ∨ (a.val = b.val ∧ ¬ a.val.isNaN)) := le_iff a b ha hb hc

/-- `=~` over **all** pairs of numeric kinds: equal exact values, no NaN -/
theorem laxeq_iff_val (a b : Num) (ha : wf a = true) (hb : wf b = true) :
    laxEq a b = true ↔ (a.val = b.val ∧ ¬ a.val.isNaN) := laxEq_iff a b ha hb

/-- the ordering operators are accepted on exactly the same pairs -/
theorem acceptance (op : Ord5) (a b : Num) (ha : wf a = true) (hb : wf b = true) :
    rel op a b = .err ↔ ordClass a ≠ ordClass b := by
  constructor
  · intro h hc; rw [rel_eq op a b ha hb hc] at h; cases h
  · exact rel_err op a b ha hb

/-! ## order-theoretic corollaries (mixed kinds included) -/

/-- `a < b` is `b > a`, `a <= b` is `b >= a` — across kinds -/
theorem ops_agree (a b : Num) (ha : wf a = true) (hb : wf b = true) :
    rel .lt a b = rel .gt b a ∧ rel .le a b = rel .ge b a := by
  by_cases hc : ordClass a = ordClass b
  · rw [rel_eq .lt a b ha hb hc, rel_eq .gt b a hb ha hc.symm, rel_eq .le a b ha hb hc, rel_eq .ge b a hb ha hc.symm,
      Ext.cmp_swap a.ext b.ext]
    cases Ext.cmp a.ext b.ext with
    | none => exact ⟨rfl, rfl⟩
    | some c =>
      simp only [Option.map, Ord5.test]
      constructor <;> congr 1 <;> rw [Bool.eq_iff_iff] <;> simp <;> omega
  · have hc' : ordClass b ≠ ordClass a := fun h => hc h.symm
    rw [rel_err .lt a b ha hb hc, rel_err .gt b a hb ha hc', rel_err .le a b ha hb hc, rel_err .ge b a hb ha hc']
    exact ⟨rfl, rfl⟩

/-- exactly one of `<`, `=~`, `>` holds for comparable non-NaN numbers -/
theorem trichotomy (a b : Num) (ha : wf a = true) (hb : wf b = true) (hc : ordClass a = ordClass b)
    (hna : ¬ a.val.isNaN) (hnb : ¬ b.val.isNaN) :
    (rel .lt a b = .ok true ∧ laxEq a b = false ∧ rel .gt a b = .ok false) ∨
    (rel .lt a b = .ok false ∧ laxEq a b = true ∧ rel .gt a b = .ok false) ∨
    (rel .lt a b = .ok false ∧ laxEq a b = false ∧ rel .gt a b = .ok true) := by
  have hlt := lt_iff a b ha hb hc
  have hgt := gt_iff a b ha hb hc
  have hlx := laxEq_iff a b ha hb
  have hl : rel .lt a b = .ok true ∨ rel .lt a b = .ok false := by
    rw [rel_eq .lt a b ha hb hc]; cases Ext.cmp a.ext b.ext <;> simp
  have hg : rel .gt a b = .ok true ∨ rel .gt a b = .ok false := by
    rw [rel_eq .gt a b ha hb hc]; cases Ext.cmp a.ext b.ext <;> simp
  rcases EV.trichotomy a.val b.val hna hnb with h | h | h
  · left
    have h1 := hlt.mpr h
    have h2 : laxEq a b = false := by
      cases hx : laxEq a b with
      | false => rfl
      | true => exfalso; have := (hlx.mp hx).1; rw [this] at h; exact EV.lt_irrefl _ h
    have h3 : rel .gt a b = .ok false := by
      rcases hg with hg | hg
      · exact absurd (hgt.mp hg) (EV.lt_asymm h)
      · exact hg
    exact ⟨h1, h2, h3⟩
  · right; left
    have h2 := hlx.mpr ⟨h, hna⟩
    have h1 : rel .lt a b = .ok false := by
      rcases hl with hl | hl
      · have := hlt.mp hl; rw [h] at this; exact absurd this (EV.lt_irrefl _)
      · exact hl
    have h3 : rel .gt a b = .ok false := by
      rcases hg with hg | hg
      · have := hgt.mp hg; rw [h] at this; exact absurd this (EV.lt_irrefl _)
      · exact hg
    exact ⟨h1, h2, h3⟩
  · right; right
    have h3 := hgt.mpr h
    have h2 : laxEq a b = false := by
      cases hx : laxEq a b with
      | false => rfl
      | true => exfalso; have := (hlx.mp hx).1; rw [this] at h; exact EV.lt_irrefl _ h
    have h1 : rel .lt a b = .ok false := by
      rcases hl with hl | hl
      · exact absurd (hlt.mp hl) (EV.lt_asymm h)
      · exact hl
    exact ⟨h1, h2, h3⟩

/-- `<` is transitive across mixed kinds -/
theorem lt_trans (a b c : Num) (ha : wf a = true) (hb : wf b = true) (hc : wf c = true)
    (hab : ordClass a = ordClass b) (hbc : ordClass b = ordClass c)
    (h1 : rel .lt a b = .ok true) (h2 : rel .lt b c = .ok true) : rel .lt a c = .ok true :=
  (lt_iff a c ha hc (hab.trans hbc)).mpr
    (EV.lt_trans ((lt_iff a b ha hb hab).mp h1) ((lt_iff b c hb hc hbc).mp h2))

/-- `<=` is transitive across mixed kinds -/
theorem le_trans (a b c : Num) (ha : wf a = true) (hb : wf b = true) (hc : wf c = true)
    (hab : ordClass a = ordClass b) (hbc : ordClass b = ordClass c)
    (h1 : rel .le a b = .ok true) (h2 : rel .le b c = .ok true) : rel .le a c = .ok true := by
  rw [le_iff a c ha hc (hab.trans hbc)]
  rcases (le_iff a b ha hb hab).mp h1 with l1 | ⟨e1, n1⟩ <;> rcases (le_iff b c hb hc hbc).mp h2 with l2 | ⟨e2, n2⟩
  · left; exact EV.lt_trans l1 l2
  · left; rw [← e2]; exact l1
  · left; rw [e1]; exact l2
  · right; exact ⟨e1.trans e2, n1⟩

/-- `=~` is reflexive (NaN excepted), symmetric and transitive over all numeric kinds -/
theorem laxeq_refl (a : Num) (ha : wf a = true) (hn : ¬ a.val.isNaN) : laxEq a a = true :=
  (laxEq_iff a a ha ha).mpr ⟨rfl, hn⟩

theorem laxeq_symm (a b : Num) (ha : wf a = true) (hb : wf b = true) : laxEq a b = laxEq b a := by
  rw [laxEq_spec a b ha hb, laxEq_spec b a hb ha, eqSpec_symm]

theorem laxeq_trans (a b c : Num) (ha : wf a = true) (hb : wf b = true) (hc : wf c = true)
    (h1 : laxEq a b = true) (h2 : laxEq b c = true) : laxEq a c = true := by
  obtain ⟨e1, n1⟩ := (laxEq_iff a b ha hb).mp h1
  obtain ⟨e2, _⟩ := (laxEq_iff b c hb hc).mp h2
  exact (laxEq_iff a c ha hc).mpr ⟨e1.trans e2, n1⟩

/-- `<` and `=~` compose (the case that failed around 2^53 before the fix) -/
theorem lt_laxeq_trans (a b c : Num) (ha : wf a = true) (hb : wf b = true) (hc : wf c = true)
    (hab : ordClass a = ordClass b) (hac : ordClass a = ordClass c)
    (h1 : rel .lt a b = .ok true) (h2 : laxEq b c = true) : rel .lt a c = .ok true := by
  obtain ⟨e2, _⟩ := (laxEq_iff b c hb hc).mp h2
  rw [lt_iff a c ha hc hac, ← e2]
  exact (lt_iff a b ha hb hab).mp h1

/-- `a <= b` and `b <= a` give `a =~ b` -/
theorem le_antisymm_laxeq (a b : Num) (ha : wf a = true) (hb : wf b = true) (hc : ordClass a = ordClass b)
    (h1 : rel .le a b = .ok true) (h2 : rel .le b a = .ok true) : laxEq a b = true := by
  rw [laxEq_iff a b ha hb]
  rcases (le_iff a b ha hb hc).mp h1 with l1 | e1
  · rcases (le_iff b a hb ha hc.symm).mp h2 with l2 | ⟨e2, n2⟩
    · exact absurd l2 (EV.lt_asymm l1)
    · rw [e2] at l1; exact absurd l1 (EV.lt_irrefl _)
  · exact e1

/-! ## `==`, `===`, hash -/

/-- `==` is symmetric over all kind pairs: the dispatch is on the left operand, so this compares two tables -/
theorem eq_symm (a b : Num) : eqVal a b = eqVal b a := eqVal_symm a b

/-- `==` is reflexive, NaN excepted -/
theorem eq_refl (a : Num) (h : a.isNaN = false) : eqVal a a = true := eqVal_refl a h

/-- `===` and `==` coincide on numbers -/
theorem seq_eq (a b : Num) : strictEq a b = eqVal a b := strictEq_eq_eqVal a b

/-- `==` implies `=~` -/
theorem eq_imp_laxeq (a b : Num) (ha : wf a = true) (hb : wf b = true) (h : eqVal a b = true) :
    laxEq a b = true := by
  rw [laxEq_spec a b ha hb]; exact eqVal_imp_eqSpec a b h

/-- **`a == b` implies equal hashes**: the byte streams given to xxhash are equal (xxhash uninterpreted) -/
theorem eq_hash (a b : Num) (ha : wf a = true) (hb : wf b = true) (h : eqVal a b = true) :
    hashBytes a = hashBytes b := hash_of_eq a b ha hb h

/-- without the normalisation invariant the statement fails: a BigInt that fits a SmallInt (as `Negate` of the
literal 9223372036854775808 produces, C06) is `==` to the SmallInt and hashes differently -/
theorem eq_hash_unnormalised_witness :
    wfLoose (.bi (-(2 ^ 63))) = true ∧ eqVal (.bi (-(2 ^ 63))) (.si (-(2 ^ 63))) = true ∧
    hashBytes (.bi (-(2 ^ 63))) ≠ hashBytes (.si (-(2 ^ 63))) := by decide

/-! ## strings, chars, symbols, nil, bools, dates, lists, tuples, pairs, ranges

`Val` is the structural model of `vm.Equal`/`vm.Hash` on all built-in values. `positional`: no hash map/record/set
inside (their `==` is a lookup, C17's domain — tied by correspondence only). -/

open Elk.Val in
/-- `==` is symmetric on all values built from atoms, lists, tuples, pairs, ranges, dates (structural induction) -/
theorem val_eq_symm (a b : Val) (h : a.positional = true) : Val.eqv a b = Val.eqv b a := Val.eqv_symm a b h

open Elk.Val in
/-- `==` is reflexive on such values when no NaN occurs inside -/
theorem val_eq_refl (a : Val) (hp : a.positional = true) (hn : a.nanFree = true) : Val.eqv a a = true :=
  Val.eqv_refl a hp hn

open Elk.Val in
/-- `a == b` implies equal hashes for every non-compound value (numbers, strings, chars, symbols, nil, bools, dates) -/
theorem val_eq_hash_partial (a b : Val) (ha : a.wfAtom = true) (hb : b.wfAtom = true) (h : Val.eqv a b = true) :
    a.hashKey = b.hashKey := Val.hash_of_eqv_atom a b ha hb h

open Elk.Val in
/-- the full statement fails today for compound values (known finding C18-collections-hash-by-identity):
two empty lists are `==` and are hashed by their addresses -/
theorem val_eq_hash_collection_witness :
    Val.eqv (Val.list []) (Val.list []) = true ∧ Val.hashEq false (Val.list []) (Val.list []) = false := by
  simp [Val.list, Items.ofList, Val.eqv, Items.eqv, Val.hashEq, Val.hashKey]

/-- the full-strength statement, not provable of today's code -/
def ValEqHashFull : Prop :=
  ∀ (a b : Elk.Val.Val) (distinctObjects : Bool), Elk.Val.Val.eqv a b = true →
    Elk.Val.Val.hashEq (!distinctObjects) a b = true

/-! ## non-vacuity -/

example : wf (.si (2 ^ 53 + 1)) = true ∧ wf (.f 0x4340000000000000) = true ∧
    ordClass (.si (2 ^ 53 + 1)) = ordClass (.f 0x4340000000000000) := by decide
example : rel .gt (.si (2 ^ 53 + 1)) (.f 0x4340000000000000) = .ok true ∧
    laxEq (.si (2 ^ 53 + 1)) (.f 0x4340000000000000) = false ∧
    laxEq (.int .u64 (2 ^ 63)) (.bi (2 ^ 63)) = true ∧ laxEq (.bi (2 ^ 63)) (.int .u64 (2 ^ 63)) = true ∧
    laxEq (.f32 0x4B800000) (.si 16777217) = false := by decide
example : hashBytes (.bf (.fin 53 false 1 0)) = hashBytes (.bf (.fin 100 false 4 (-2))) :=
  eq_hash _ _ (by decide) (by decide) (by decide)

/-! ## the code before the fixes (kernel-checked witnesses on the legacy definitions) -/

/-- Before the fix `=~` between Int and Float went through float64 and was not transitive:
2^53+1 =~ 2^53 (as Float) =~ 2^53 but not 2^53+1 =~ 2^53. -/
theorem legacy_laxeq_not_trans_witness :
    Legacy.laxIntFloat (2 ^ 53 + 1) 0x4340000000000000 = true ∧
    Legacy.laxIntFloat (2 ^ 53) 0x4340000000000000 = true ∧
    laxEq (.si (2 ^ 53 + 1)) (.si (2 ^ 53)) = false := by decide

/-- … and `2**53 + 1 > (2**53).to_float` was false -/
theorem legacy_gt_wrong_witness :
    Legacy.gtIntFloat (2 ^ 53 + 1) 0x4340000000000000 = false ∧
    rel .gt (.si (2 ^ 53 + 1)) (.f 0x4340000000000000) = .ok true := by decide

/-- Before the fix `0.0 == -0.0` held but the hashed byte streams differed -/
theorem legacy_zero_hash_witness :
    eqVal (.f 0) (.f 0x8000000000000000) = true ∧
    Legacy.floatHashBytes 0 ≠ Legacy.floatHashBytes 0x8000000000000000 ∧
    hashBytes (.f 0) = hashBytes (.f 0x8000000000000000) := by decide

end Elk.C18
