import ElkVerif.Proofs.SeqStep
/-!
# C24 — Lists and tuples behave as sequences

`Model/Seq.lean` models the Go code: a heap of backing arrays, slice headers `(arr, off, len, cap)`,
Go's `append`/`copy`/reslice, and the `ArrayListOfValue` methods on top of them.
`Model/SeqSpec.lean` is the specification: a state is a list of plain sequences (+ capacity counters),
each operation touches only the object it names.

Main results (all for an arbitrary growth policy `g`, arbitrary histories, any number of live lists):

* `norm_index` — `NormalizeArrayIndex` accepts exactly `-n ≤ i < n` and returns `i mod n`;
* `run_refines` — the heap model refines the specification for every slice-free history
  (states related by `R`, answers equal);
* `view_refines`, `push_refines`, `slice_range_refines` … — what each operation does to the sequence it names;
* `no_aliasing` — an operation never changes the sequence or capacity of any list but its target;
* `oob_is_error` — on the Elk-visible (guarded) operations the model never answers a Go panic,
  except `*` with a count whose product with the length reaches `maxAlloc` (known finding);
* `slice_refines`, `slice_push_isolated` — `SliceArrayList` (a Go-API-only operation) shows the
  sub-sequence and, after the D8 fix, an append to the view never reaches the source; views share
  *elements* with their source by design (`slice_shares_elements_witness`).
-/
namespace Elk.C24
open Elk.Seq

/-- `NormalizeArrayIndex` accepts exactly `-n ≤ i < n` and returns `i mod n` (all `i`, all `n`). -/
theorem norm_index (i : Int) (n j : Nat) :
    normIndex i n = some j ↔ (-(n : Int) ≤ i ∧ i < n ∧ (j : Int) = i % n) := by
  unfold normIndex
  by_cases h1 : i ≥ (n : Int) ∨ i < -(n : Int)
  · simp only [h1, if_true]
    constructor
    · intro h; cases h
    · intro ⟨a, b, _⟩; omega
  · simp only [h1, if_false]
    have hn : 0 < (n : Int) := by omega
    by_cases h2 : i < 0
    · simp only [h2, if_true, Option.some.injEq]
      have : i % (n : Int) = i + n := by
        rw [Int.emod_eq_add_self_emod, Int.emod_eq_of_lt (by omega) (by omega)]
      constructor
      · intro h; refine ⟨by omega, by omega, ?_⟩; omega
      · intro ⟨_, _, h⟩; omega
    · simp only [h2, if_false, Option.some.injEq]
      have : i % (n : Int) = i := Int.emod_eq_of_lt (by omega) (by omega)
      constructor
      · intro h; refine ⟨by omega, by omega, ?_⟩; omega
      · intro ⟨_, _, h⟩; omega

/-- rejected indices are exactly the out-of-range ones -/
theorem norm_index_none (i : Int) (n : Nat) : normIndex i n = none ↔ (i < -(n : Int) ∨ (n : Int) ≤ i) := by
  unfold normIndex
  by_cases h1 : i ≥ (n : Int) ∨ i < -(n : Int)
  · simp only [h1, if_true]; exact ⟨fun _ => by omega, fun _ => trivial⟩
  · simp only [h1, if_false]
    split <;> simp <;> omega

/-- the simulation relation gives the observable sequence and capacity of every object -/
theorem view_refines {st : St} {A : List AL} (h : R st A) (id : Nat) :
    view st id = (A[id]?).map (·.xs) ∧ (st.objs[id]?).map (·.cap) = (A[id]?).map (·.cap) := by
  cases hA : A[id]? with
  | none => simp [view, h.look_none hA, h.obj_none hA]
  | some al =>
    obtain ⟨s, a, hs, _, hlook, _, _, hwin, hcap⟩ := h.look_some hA
    simp [view, hlook, hwin, hs, hcap]

/-- **Refinement for every history.** Running any slice-free operation list on the heap-of-slices
model from the empty state gives the same answers as the plain-sequence machine, and the final
states are related (so every list shows exactly the specified sequence and capacity). -/
theorem run_refines (g : Nat → Nat → Nat) (ops : List Op) (hsf : ∀ op ∈ ops, op.sliceFree = true)
    (st : St) (A : List AL) (h : R st A) :
    R (run g st ops).1 (arun g A ops).1 ∧ (run g st ops).2 = (arun g A ops).2 := by
  induction ops generalizing st A with
  | nil => exact ⟨h, rfl⟩
  | cons op ops ih =>
    obtain ⟨h1, h2⟩ := sim_all g h op (hsf op (by simp))
    obtain ⟨h3, h4⟩ := ih (fun o ho => hsf o (by simp [ho])) _ _ h1
    simp only [run, arun]
    exact ⟨h3, by rw [h2, h4]⟩

/-- from the empty program state -/
theorem run_refines_init (g : Nat → Nat → Nat) (ops : List Op) (hsf : ∀ op ∈ ops, op.sliceFree = true) :
    R (run g St.init ops).1 (arun g [] ops).1 ∧ (run g St.init ops).2 = (arun g [] ops).2 :=
  run_refines g ops hsf St.init [] R.init

/-- in the specification an operation changes at most its target -/
theorem astep_frame (g : Nat → Nat → Nat) (A : List AL) (op : Op) (id : Nat) (hid : id < A.length)
    (ht : op.target ≠ some id) : (astep g A op).1[id]? = A[id]? := by
  cases op <;> simp only [astep, Op.target] at ht ⊢ <;>
    (repeat' split) <;>
    first
    | rfl
    | exact List.getElem?_append_left hid
    | (rw [List.getElem?_set_ne]; intro e; exact ht (by rw [e]))

/-- **No aliasing.** In any state reached by a slice-free history, performing any further slice-free
operation leaves the sequence *and capacity* of every list other than its target unchanged
(full strength: any number of live lists, any history, any growth policy). -/
theorem no_aliasing (g : Nat → Nat → Nat) (ops : List Op) (hsf : ∀ op ∈ ops, op.sliceFree = true)
    (op : Op) (hop : op.sliceFree = true) (id : Nat)
    (hid : id < (run g St.init ops).1.objs.length) (ht : op.target ≠ some id) :
    let st := (run g St.init ops).1
    let st' := (step g st op).1
    view st' id = view st id ∧ (st'.objs[id]?).map (·.cap) = (st.objs[id]?).map (·.cap) := by
  intro st st'
  obtain ⟨hR, _⟩ := run_refines_init g ops hsf
  obtain ⟨hR', _⟩ := sim_all g hR op hop
  have hfr := astep_frame g (arun g [] ops).1 op id (by rw [← hR.len]; exact hid) ht
  obtain ⟨v1, c1⟩ := view_refines hR id
  obtain ⟨v2, c2⟩ := view_refines hR' id
  exact ⟨by rw [v2, v1, hfr], by rw [c2, c1, hfr]⟩

/-- every represented sequence fits its capacity -/
theorem R_cap_ok {st : St} {A : List AL} (h : R st A) (id : Nat) (al : AL) (hA : A[id]? = some al) :
    al.xs.length ≤ al.cap := by
  obtain ⟨s, a, _, _, _, hfit, hlen, hwin, hcap⟩ := h.look_some hA
  rw [← hwin, ← hcap, window_length hfit hlen]; exact hlen

/-- the specification machine answers `panic` only outside the guarded (Elk-visible) operations,
or for a repeat whose result would have at least `maxAlloc` elements -/
theorem astep_no_panic (g : Nat → Nat → Nat) (A : List AL) (op : Op) (hg : op.guarded = true)
    (hwf : ∀ (id : Nat) (al : AL), A[id]? = some al → al.xs.length ≤ al.cap)
    (hp : (astep g A op).2 = .panic) :
    ∃ x n al, op = .rep x (some n) ∧ A[x]? = some al ∧ n * al.xs.length ≥ maxAlloc := by
  cases op with
  | rep x n =>
    cases hA : A[x]? with
    | none => simp [astep, hA] at hp
    | some al =>
      cases n with
      | none => simp [astep, hA] at hp
      | some n =>
        simp only [astep, hA] at hp
        by_cases h1 : n < 0
        · simp [h1] at hp
        · by_cases h2 : n * al.xs.length > maxInt
          · simp [h1, h2] at hp
          · by_cases h3 : n * al.xs.length ≥ maxAlloc
            · exact ⟨x, n, al, rfl, hA, h3⟩
            · simp [h1, h2, h3] at hp
  | grow o n =>
    exfalso
    simp only [Op.guarded, decide_eq_true_eq] at hg
    cases hA : A[o]? with
    | none => simp [astep, hA] at hp
    | some al =>
      have := hwf o al hA
      simp only [astep, hA] at hp
      split at hp
      · omega
      · simp at hp
  | «at» o i => simp [Op.guarded] at hg
  | rm o i => simp [Op.guarded] at hg
  | sl a f t => simp [Op.guarded] at hg
  | cl x c =>
    exfalso
    simp only [Op.guarded, decide_eq_true_eq] at hg
    simp only [astep] at hp
    revert hp; (repeat' split) <;> simp <;> omega
  | _ =>
    exfalso
    simp only [astep] at hp
    revert hp; (repeat' split) <;> simp

/-- **Out-of-range is an error, never a crash.** In any state reached by a slice-free history, a
guarded operation of the model of the Go code does not answer `panic` (it answers a value or one of
the error kinds), except for the repeat-count case above. -/
theorem oob_is_error (g : Nat → Nat → Nat) (ops : List Op) (hsf : ∀ op ∈ ops, op.sliceFree = true)
    (op : Op) (hop : op.sliceFree = true) (hg : op.guarded = true)
    (hp : (step g (run g St.init ops).1 op).2 = .panic) :
    ∃ x n, op = .rep x (some n) ∧ ∃ xs, view (run g St.init ops).1 x = some xs ∧ n * xs.length ≥ maxAlloc := by
  obtain ⟨hR, _⟩ := run_refines_init g ops hsf
  obtain ⟨_, hans⟩ := sim_all g hR op hop
  rw [hans] at hp
  obtain ⟨x, n, al, e, hA, hn⟩ := astep_no_panic g _ op hg (R_cap_ok hR) hp
  refine ⟨x, n, e, al.xs, ?_, hn⟩
  rw [(view_refines hR x).1, hA]; rfl

/-! ### what each operation does to the sequence it names (corollaries of the simulation) -/

section ops
variable (g : Nat → Nat → Nat) {st : St} {A : List AL} (h : R st A)
include h

theorem push_refines {o : Nat} {al : AL} (hA : A[o]? = some al) (ys : List Val) :
    view (step g st (.push o ys)).1 o = some (al.xs ++ ys) := by
  obtain ⟨hR, _⟩ := sim_push g h o ys
  rw [(view_refines hR o).1]; simp only [astep, hA]; simp [apush, lt_of_getElem? hA]

theorem set_refines {o : Nat} {al : AL} (hA : A[o]? = some al) (i : Int) (v : Val) :
    (∀ j, normIndex i al.xs.length = some j →
        view (step g st (.set o i v)).1 o = some (al.xs.set j v) ∧ (step g st (.set o i v)).2 = .unit) ∧
    (normIndex i al.xs.length = none →
        view (step g st (.set o i v)).1 o = some al.xs ∧ (step g st (.set o i v)).2 = .oor) := by
  obtain ⟨hR, hans⟩ := sim_set g h o i v
  constructor
  · intro j hj
    rw [(view_refines hR o).1, hans]; simp only [astep, hA, hj]; simp [lt_of_getElem? hA]
  · intro hn
    rw [(view_refines hR o).1, hans]; simp only [astep, hA, hn]; simp

theorem get_refines {o : Nat} {al : AL} (hA : A[o]? = some al) (i : Int) :
    (∀ j, normIndex i al.xs.length = some j → ∃ v, al.xs[j]? = some v ∧ (step g st (.get o i)).2 = .val v) ∧
    (normIndex i al.xs.length = none → (step g st (.get o i)).2 = .oor) := by
  obtain ⟨_, hans⟩ := sim_get g h o i
  constructor
  · intro j hj
    have hlt := normIndex_lt hj
    refine ⟨al.xs[j], by simp [hlt], ?_⟩
    rw [hans]; simp [astep, hA, hj, hlt]
  · intro hn; rw [hans]; simp [astep, hA, hn]

theorem remove_at_refines {o : Nat} {al : AL} (hA : A[o]? = some al) (i : Int) :
    (∀ j, normIndex i al.xs.length = some j →
        view (step g st (.rme o i)).1 o = some (al.xs.eraseIdx j) ∧ (step g st (.rme o i)).2 = .unit) ∧
    (normIndex i al.xs.length = none →
        view (step g st (.rme o i)).1 o = some al.xs ∧ (step g st (.rme o i)).2 = .oor) := by
  obtain ⟨hR, hans⟩ := sim_rme g h o i
  constructor
  · intro j hj
    rw [(view_refines hR o).1, hans]; simp only [astep, hA, hj]; simp [lt_of_getElem? hA]
  · intro hn
    rw [(view_refines hR o).1, hans]; simp only [astep, hA, hn]; simp

theorem concat_refines {x y : Nat} {a b : AL} (hX : A[x]? = some a) (hY : A[y]? = some b) :
    (step g st (.cat x y)).2 = .obj A.length ∧
    view (step g st (.cat x y)).1 A.length = some (a.xs ++ b.xs) := by
  obtain ⟨hR, hans⟩ := sim_cat g h x y
  refine ⟨by rw [hans]; simp [astep, hX, hY], ?_⟩
  rw [(view_refines hR _).1]; simp [astep, hX, hY]

theorem repeat_refines {x : Nat} {a : AL} (hX : A[x]? = some a) (n : Nat) (hn : (n : Int) * a.xs.length < maxAlloc) :
    (step g st (.rep x (some n))).2 = .obj A.length ∧
    view (step g st (.rep x (some n))).1 A.length = some (List.replicate n a.xs).flatten := by
  obtain ⟨hR, hans⟩ := sim_rep g h x (some n)
  have h1 : ¬ (n : Int) < 0 := by omega
  have h2 : ¬ (n : Int) * a.xs.length > maxInt := by simp only [maxInt, maxAlloc] at *; omega
  have h3 : ¬ (n : Int) * a.xs.length ≥ maxAlloc := by omega
  refine ⟨by rw [hans]; simp [astep, hX, h1, h2, h3], ?_⟩
  rw [(view_refines hR _).1]; simp [astep, hX, h1, h2, h3]

theorem eq_refines {x y : Nat} {a b : AL} (hX : A[x]? = some a) (hY : A[y]? = some b) :
    (step g st (.veq x y)).2 = .bool (decide (a.xs = b.xs)) := by
  obtain ⟨_, hans⟩ := sim_veq g h x y
  rw [hans]; simp [astep, hX, hY]

theorem contains_refines {o : Nat} {al : AL} (hA : A[o]? = some al) (v : Val) :
    (step g st (.vcon o v)).2 = .bool (decide (v ∈ al.xs)) := by
  obtain ⟨_, hans⟩ := sim_vcon g h o v
  rw [hans]; simp [astep, hA]

/-- `remove` drops every occurrence and reports whether there was one -/
theorem remove_refines {o : Nat} {al : AL} (hA : A[o]? = some al) (v : Val) :
    view (step g st (.vrem o v)).1 o = some (al.xs.filter (· ≠ v)) ∧
    (step g st (.vrem o v)).2 = .bool (decide (v ∈ al.xs)) := by
  obtain ⟨hR, hans⟩ := sim_vrem g h o v
  have hf : ∀ xs : List Val, removeAll v xs = xs.filter (· ≠ v) := by
    intro xs; induction xs with
    | nil => rfl
    | cons x xs ih => simp only [removeAll, List.filter_cons]; split <;> simp_all
  refine ⟨?_, by rw [hans]; simp [astep, hA]⟩
  rw [(view_refines hR o).1]; simp only [astep, hA]; simp [lt_of_getElem? hA, hf]

/-- **range slicing** (`a[s...e]`, `a[s..<e]`, …, `Tuple#slice`): both bounds are normalised like single
indices (negative counts from the end, out of range is an `IndexError`), the result is a *new* list with
the elements from the first to the last index inclusive -/
theorem slice_range_refines {o : Nat} {al : AL} (hA : A[o]? = some al) (r : RangeK) :
    (∀ i j, normIndex (r.bounds al.xs.length).1 al.xs.length = some i →
        normIndex (r.bounds al.xs.length).2 al.xs.length = some j →
        (step g st (.vsl o r)).2 = .obj A.length ∧
        view (step g st (.vsl o r)).1 A.length = some ((al.xs.drop i).take (j + 1 - i)) ∧
        view (step g st (.vsl o r)).1 o = some al.xs) ∧
    ((normIndex (r.bounds al.xs.length).1 al.xs.length = none ∨
        normIndex (r.bounds al.xs.length).2 al.xs.length = none) → (step g st (.vsl o r)).2 = .oor) := by
  obtain ⟨hR, hans⟩ := sim_vsl g h o r
  have hpe : ∀ (ys : List Val) (a0 : AL), (apushEach g a0 ys).xs = a0.xs ++ ys := by
    intro ys
    induction ys with
    | nil => intro a0; simp [apushEach]
    | cons y ys ih => intro a0; simp [apushEach, ih, apush]
  constructor
  · intro i j hi hj
    cases hb : r.bounds al.xs.length with
    | mk lo hi' =>
      rw [hb] at hi hj
      simp only at hi hj
      refine ⟨by rw [hans]; simp [astep, hA, hb, hi, hj], ?_, ?_⟩
      · rw [(view_refines hR _).1]; simp [astep, hA, hb, hi, hj, hpe]
      · rw [(view_refines hR _).1]
        simp only [astep, hA, hb, hi, hj]
        rw [List.getElem?_append_left (lt_of_getElem? hA), hA]; rfl
  · intro hn
    cases hb : r.bounds al.xs.length with
    | mk lo hi' =>
      rw [hb] at hn
      simp only at hn
      rw [hans]
      simp only [astep, hA, hb]
      rcases hn with hn | hn
      · simp [hn]
      · cases normIndex lo al.xs.length <;> simp [hn]

end ops

/-! ### `SliceArrayList` (Go API only; not reachable from Elk source today) -/

/-- `SliceArrayList(f, t)` shows the sub-sequence `[f, t)` of its source at creation time -/
theorem slice_refines (g : Nat → Nat → Nat) {st : St} {A : List AL} (h : R st A) {x : Nat} {a : AL}
    (hX : A[x]? = some a) (f t : Nat) (hft : f ≤ t) (ht : t ≤ a.xs.length) :
    (step g st (.sl x f t)).2 = .obj st.objs.length ∧
    view (step g st (.sl x f t)).1 st.objs.length = some ((a.xs.drop f).take (t - f)) := by
  obtain ⟨s, arr, hs, hheap, hlook, hfit, hlen, hwin, hcap⟩ := h.look_some hX
  have hl : a.xs.length = s.len := by rw [← hwin]; exact window_length hfit hlen
  have hc : ¬ ((f : Int) < 0 ∨ (t : Int) < f ∨ (t : Int) > s.cap) := by omega
  simp only [step, hlook, hc, if_false]
  refine ⟨trivial, ?_⟩
  simp only [view, look]
  rw [List.getElem?_concat_length]
  simp only [hheap, window, Int.toNat_natCast]
  rw [← hwin]
  simp only [window, List.drop_take, List.take_take, List.drop_drop]
  congr 2
  all_goals omega

/-- **Appending to a view never reaches its source** (after the `[from:to:to]` fix): the view has no
spare capacity, so a non-empty `push` moves it to a fresh array; every object that existed before the
view was taken still shows what it showed. -/
theorem slice_push_isolated (g : Nat → Nat → Nat) {st : St} {A : List AL} (h : R st A) {x : Nat} {a : AL}
    (hX : A[x]? = some a) (f t : Nat) (hft : f ≤ t) (ht : t ≤ a.xs.length)
    (ys : List Val) (hys : ys ≠ []) (id : Nat) (hid : id < st.objs.length) :
    view (step g (step g st (.sl x f t)).1 (.push st.objs.length ys)).1 id = view st id := by
  obtain ⟨s, arr, hs, hheap, hlook, hfit, hlen, hwin, hcap⟩ := h.look_some hX
  have hl : a.xs.length = s.len := by rw [← hwin]; exact window_length hfit hlen
  have hc : ¬ ((f : Int) < 0 ∨ (t : Int) < f ∨ (t : Int) > s.cap) := by omega
  have hy : 0 < ys.length := List.length_pos_iff.mpr hys
  simp only [step, hlook, hc, if_false, goAppend]
  have hlk : look ⟨st.heap, st.objs ++ [⟨s.arr, s.off + (f : Int).toNat, ((t : Int) - f).toNat, ((t : Int) - f).toNat⟩]⟩
      st.objs.length = some (⟨s.arr, s.off + (f : Int).toNat, ((t : Int) - f).toNat, ((t : Int) - f).toNat⟩, arr) := by
    simp only [look]; rw [List.getElem?_concat_length]; simp [hheap]
  simp only [hlk]
  have hnf : ¬ (((t : Int) - f).toNat + ys.length ≤ ((t : Int) - f).toNat) := by omega
  simp only [hnf, if_false, reallocObj, view, look]
  rw [List.getElem?_set_ne (by omega), List.getElem?_append_left hid]
  cases ho : st.objs[id]? with
  | none => rfl
  | some s' =>
    obtain ⟨al', hal'⟩ : ∃ al', A[id]? = some al' := ⟨A[id]'(by rw [← h.len]; exact hid), by simp⟩
    obtain ⟨b, hb, _⟩ := h.rel id s' al' ho hal'
    simp only [List.getElem?_append_left (lt_of_getElem? hb), hb]

/-- regression witness for D8: with the fixed slice, pushing to `[1,2,3,4][0:1]` leaves the source alone
(the unfixed code gave `[1, 9, 3, 4]`) -/
theorem slice_alias_fixed_witness :
    let ops := [Op.lit 0 [.i 1, .i 2, .i 3, .i 4], .sl 0 0 1, .push 1 [.i 9]]
    view (run (fun _ n => n) St.init ops).1 0 = some [.i 1, .i 2, .i 3, .i 4] ∧
    view (run (fun _ n => n) St.init ops).1 1 = some [.i 1, .i 9] := by decide

/-- a view still shares *elements* with its source (documented: "backed by the same underlying data
structure"): writing through the source is visible in the view -/
theorem slice_shares_elements_witness :
    let ops := [Op.lit 0 [.i 1, .i 2, .i 3, .i 4], .sl 0 1 3, .set 0 1 (.i 7)]
    view (run (fun _ n => n) St.init ops).1 1 = some [.i 7, .i 3] := by decide

/-- non-vacuity: a history with two lists, growth, removal and concatenation; the second list is
untouched by operations on the first. -/
example :
    let ops := [Op.lit 0 [.i 1, .i 2], .lit 1 [.i 7], .push 0 [.i 3], .rme 0 (-3), .cat 0 1, .vrem 2 (.i 7)]
    (run (fun c n => c + n) St.init ops).1.objs.length = 3 ∧
    view (run (fun c n => c + n) St.init ops).1 0 = some [.i 2, .i 3] ∧
    view (run (fun c n => c + n) St.init ops).1 1 = some [.i 7] ∧
    view (run (fun c n => c + n) St.init ops).1 2 = some [.i 2, .i 3] := by decide

end Elk.C24
