import ElkVerif.Proofs.HashMapHist
/-!
# C17 — Hash maps, hash records and hash sets behave as finite maps and sets

`Model/HashMap.lean` mirrors the open-addressing tables of `vm/hash_map.go` / `vm/hash_set.go`
(`HashMapOfValue`, `HashRecordOfValue`, `HashSetOfValue`): linear probing from `hash % capacity`,
deleted slots (tombstones), load-factor driven resize, bulk copy.  `hash` and `eqv` (`vm.Hash`,
`vm.Equal`) are **parameters**: every theorem holds for every hash function — all collisions included —
every key equivalence compatible with it (`KeyOk`), every capacity and every history.

* `Inv` — counters exact (`Elements` = live slots, `OccupiedSlots` = live + deleted), no two live keys
  equivalent, every live key reachable from its home slot without crossing an empty slot.
* `history_inv`, `history_refines_map`, `history_refines_set` — for **every operation sequence** over any
  number of live tables the invariant holds and the tables denote what the finite-map / finite-set
  machines compute (`set`, `delete`, resize, clone, `+`/copy, `|`, `&`).
* `get_refines`, `absent_is_nil`, `contains_refines`, `set_refines`, `delete_refines`, `resize_refines`,
  `concat_refines`, `union_refines`, `inter_refines`, `equal_refines`, `length_refines`, `iter_refines`.
* `never_panics` — on tables satisfying the invariant none of the operations reachable from Elk panics.
-/
namespace Elk.C17
open Elk.HashMap

variable {K V : Type} {hash : K → Nat} {eqv : K → K → Bool}

/-- a new table is the empty map and satisfies the invariant -/
theorem new_refines (c : Nat) :
    Inv hash eqv (Tbl.new c : Tbl K V) ∧ ∀ q, lookupL eqv (Tbl.new c : Tbl K V).toList q = none :=
  ⟨inv_new c, lookup_new c⟩

/-- **lookup**: `Get` returns the value bound to a key equivalent to `key`, if any -/
theorem get_refines (hk : KeyOk hash eqv) (t : Tbl K V) (hinv : Inv hash eqv t) (key : K) :
    get hash eqv t key = .ok (match lookupL eqv t.toList key with
      | some v => .val v
      | none => .absent) := get_spec hk t hinv key

/-- **absent keys look up as nil**, whatever deleted slots their probe path crosses and however full the
table is (full strength: this failed before the D7 fixes) -/
theorem absent_is_nil (hk : KeyOk hash eqv) (t : Tbl K V) (hinv : Inv hash eqv t) (key : K)
    (hab : ∀ (j : Nat) (k : K) (v : V), t.slots[j]? = some (Slot.live k v) → eqv k key = false) :
    get hash eqv t key = .ok .absent := by
  rw [get_spec hk t hinv key, (lookup_none_iff hk t hinv key).mpr hab]

theorem contains_refines (hk : KeyOk hash eqv) (t : Tbl K V) (hinv : Inv hash eqv t) (key : K) :
    containsKey hash eqv t key = .ok (lookupL eqv t.toList key).isSome := containsKey_spec hk t hinv key

/-- **insert/update**: binds `key`, changes no other key, keeps the invariant, never panics -/
theorem set_refines (hk : KeyOk hash eqv) (t : Tbl K V) (hinv : Inv hash eqv t) (key : K) (val : V) :
    ∃ t', set hash eqv t key val = .ok t' ∧ Inv hash eqv t' ∧
      (∀ q, lookupL eqv t'.toList q = if eqv key q then some val else lookupL eqv t.toList q) :=
  set_spec hk t hinv key val

/-- **removal** -/
theorem delete_refines (hk : KeyOk hash eqv) (t : Tbl K V) (hinv : Inv hash eqv t) (key : K) :
    ∃ t' b, delete hash eqv t key = .ok (t', b) ∧ Inv hash eqv t' ∧
      b = (lookupL eqv t.toList key).isSome ∧
      ∀ q, lookupL eqv t'.toList q = if eqv key q then none else lookupL eqv t.toList q := by
  obtain ⟨t', b, h1, h2, _, h4, h5⟩ := delete_spec hk t hinv key
  exact ⟨t', b, h1, h2, h4, h5⟩

/-- **resize** keeps the denotation (and whenever it returns at all, it returns a good table) -/
theorem resize_refines (hk : KeyOk hash eqv) (t : Tbl K V) (hinv : Inv hash eqv t) (c : Nat)
    (hroom : t.elements ≤ c) :
    ∃ t', setCapacity hash eqv t c = .ok t' ∧ Inv hash eqv t' ∧ t'.cap = c ∧
      ∀ q, lookupL eqv t'.toList q = lookupL eqv t.toList q := by
  obtain ⟨t', h1, h2, h3, h4, _, _⟩ := setCapacity_spec hk t hinv c (by rw [← hinv.elems]; exact hroom)
  exact ⟨t', h1, h2, h3, h4⟩

/-- **`+` / Copy**: right-biased union; the length of the result is its number of distinct keys
(`length_refines` applies to it: this is what `{1 => 2, 3 => 4} + {1 => 5}` violated) -/
theorem concat_refines (hk : KeyOk hash eqv) (x y : Tbl K V) (hx : Inv hash eqv x) (hy : Inv hash eqv y) :
    ∃ t', concat hash eqv x y = .ok t' ∧ Inv hash eqv t' ∧
      (∀ q, lookupL eqv t'.toList q = match lookupL eqv y.toList q with
        | some w => some w
        | none => lookupL eqv x.toList q) := copy_spec hk x y hx hy

theorem union_refines (hk : KeyOk hash eqv) (dflt : V) (x y : Tbl K V) (hx : Inv hash eqv x) (hy : Inv hash eqv y) :
    ∃ t', union hash eqv dflt x y = .ok t' ∧ Inv hash eqv t' ∧
      ∀ q, (lookupL eqv t'.toList q).isSome =
        ((lookupL eqv x.toList q).isSome || (lookupL eqv y.toList q).isSome) := union_spec hk dflt x y hx hy

theorem inter_refines (hk : KeyOk hash eqv) (dflt : V) (x y : Tbl K V) (hx : Inv hash eqv x) (hy : Inv hash eqv y) :
    ∃ t', inter hash eqv dflt x y = .ok t' ∧ Inv hash eqv t' ∧
      ∀ q, (lookupL eqv t'.toList q).isSome =
        ((lookupL eqv x.toList q).isSome && (lookupL eqv y.toList q).isSome) := inter_spec hk dflt x y hx hy

/-- **`==`** answers `true` exactly when the two tables denote the same finite map -/
theorem equal_refines (hk : KeyOk hash eqv) (veq : V → V → Bool) (x y : Tbl K V)
    (hx : Inv hash eqv x) (hy : Inv hash eqv y) :
    ∃ b, equal hash eqv veq x y = .ok b ∧ (b = true ↔ SameMap eqv veq x y) := equal_spec hk veq x y hx hy

/-- **`length` is the number of distinct keys** and **iteration yields each live entry exactly once**:
the iteration list has `Elements` entries with pairwise inequivalent keys, and it contains `(k, v)`
exactly for the bindings of the denoted map -/
theorem length_refines (t : Tbl K V) (hinv : Inv hash eqv t) :
    t.elements = t.toList.length ∧ Distinct eqv t.toList := length_spec t hinv

theorem iter_refines (hk : KeyOk hash eqv) (t : Tbl K V) (hinv : Inv hash eqv t) (q : K) (w : V) :
    lookupL eqv t.toList q = some w ↔ ∃ k, (k, w) ∈ t.toList ∧ eqv k q = true := by
  constructor
  · exact lookupL_some_mem eqv _ q w
  · rintro ⟨k, hm, he⟩
    obtain ⟨j, hj⟩ := (mem_entries t.slots k w).mp hm
    exact (lookup_iff hk t hinv q w).mpr ⟨j, k, hj, he⟩

/-! ### every history -/

/-- **the invariant holds after every history** over any number of tables, and every table denotes the
finite set the abstract machine computes (insert, remove, resize, clone, copy, union, intersection) -/
theorem history_refines_set (hk : KeyOk hash eqv) (dflt : V) (ops : List (Op K V)) :
    RelG (DenS hash eqv) (mrun hash eqv dflt [] ops) (ops.foldl (astepS eqv) []) := by
  rw [mrun_eq_foldl]
  suffices h : ∀ (objs : List (Tbl K V)) (A : List (K → Bool)), RelG (DenS hash eqv) objs A →
      RelG (DenS hash eqv) (ops.foldl (nextSt hash eqv dflt) objs) (ops.foldl (astepS eqv) A) from
    h [] [] (RelG.nil _)
  induction ops with
  | nil => intro objs A h; exact h
  | cons op ops ih => intro objs A h; exact ih _ _ (next_refinesS hk dflt objs A h op)

theorem history_inv (hk : KeyOk hash eqv) (dflt : V) (ops : List (Op K V)) (t : Tbl K V)
    (ht : t ∈ mrun hash eqv dflt [] ops) : Inv hash eqv t := by
  obtain ⟨i, hi⟩ := List.getElem?_of_mem ht
  obtain ⟨f, _, hden⟩ := (history_refines_set hk dflt ops).get hi
  exact hden.1

/-- **refinement to finite maps for every history** of map operations -/
theorem history_refines_map (hk : KeyOk hash eqv) (dflt : V) (ops : List (Op K V))
    (hops : ∀ op ∈ ops, op.isMapOp = true) :
    RelG (DenM hash eqv) (mrun hash eqv dflt [] ops) (ops.foldl (astepM eqv) []) := by
  rw [mrun_eq_foldl]
  suffices h : ∀ (objs : List (Tbl K V)) (A : List (K → Option V)), RelG (DenM hash eqv) objs A →
      RelG (DenM hash eqv) (ops.foldl (nextSt hash eqv dflt) objs) (ops.foldl (astepM eqv) A) from
    h [] [] (RelG.nil _)
  induction ops with
  | nil => intro objs A h; exact h
  | cons op ops ih =>
    intro objs A h
    exact ih (fun o ho => hops o (by simp [ho])) _ _ (next_refinesM hk dflt objs A h op (hops op (by simp)))

/-- **no operation reachable from Elk source panics** on tables of any history
(`setcap` below the number of pairs is Go-API misuse and is the only exception) -/
theorem never_panics (hk : KeyOk hash eqv) (dflt : V) (ops : List (Op K V)) (op : Op K V)
    (hp : mstep hash eqv dflt (mrun hash eqv dflt [] ops) op = some .panic) :
    ∃ m c, op = .setcap m c := by
  have hall := fun t ht => history_inv hk dflt ops t ht
  generalize mrun hash eqv dflt [] ops = objs at hp hall
  have hget : ∀ {i t}, objs[i]? = some t → Inv hash eqv t := fun h => hall _ (List.mem_of_getElem? h)
  cases op with
  | new c => simp [mstep] at hp
  | set m k v =>
    simp only [mstep] at hp
    cases ht : objs[m]? with
    | none => simp [ht] at hp
    | some t =>
      obtain ⟨t', h1, _⟩ := set_spec hk t (hget ht) k v
      simp [ht, h1] at hp
  | del m k =>
    simp only [mstep] at hp
    cases ht : objs[m]? with
    | none => simp [ht] at hp
    | some t =>
      obtain ⟨t', b, h1, _⟩ := delete_spec hk t (hget ht) k
      simp [ht, h1] at hp
  | setcap m c => exact ⟨m, c, rfl⟩
  | grow m n =>
    simp only [mstep] at hp
    cases ht : objs[m]? with
    | none => simp [ht] at hp
    | some t =>
      have := count_total t.slots
      obtain ⟨t', h1, _⟩ := setCapacity_spec hk t (hget ht) (t.cap + n) (by simp only [Tbl.cap]; omega)
      simp [ht, h1] at hp
  | clone m =>
    simp only [mstep] at hp
    cases ht : objs[m]? <;> simp [ht] at hp
  | clonecap m c =>
    simp only [mstep] at hp
    cases ht : objs[m]? with
    | none => simp [ht] at hp
    | some t =>
      obtain ⟨t', h1, _⟩ := copy_spec hk (Tbl.new c) t (inv_new c) (hget ht)
      simp [ht, cloneCap, h1] at hp
  | cat a b =>
    simp only [mstep] at hp
    cases hta : objs[a]? with
    | none => simp [hta] at hp
    | some x =>
      cases htb : objs[b]? with
      | none => simp [hta, htb] at hp
      | some y =>
        obtain ⟨t', h1, _⟩ := copy_spec hk x y (hget hta) (hget htb)
        simp [hta, htb, concat, h1] at hp
  | copy a b =>
    simp only [mstep] at hp
    cases hta : objs[a]? with
    | none => simp [hta] at hp
    | some x =>
      cases htb : objs[b]? with
      | none => simp [hta, htb] at hp
      | some y =>
        obtain ⟨t', h1, _⟩ := copy_spec hk x y (hget hta) (hget htb)
        simp [hta, htb, h1] at hp
  | union a b =>
    simp only [mstep] at hp
    cases hta : objs[a]? with
    | none => simp [hta] at hp
    | some x =>
      cases htb : objs[b]? with
      | none => simp [hta, htb] at hp
      | some y =>
        obtain ⟨t', h1, _⟩ := union_spec hk dflt x y (hget hta) (hget htb)
        simp [hta, htb, h1] at hp
  | inter a b =>
    simp only [mstep] at hp
    cases hta : objs[a]? with
    | none => simp [hta] at hp
    | some x =>
      cases htb : objs[b]? with
      | none => simp [hta, htb] at hp
      | some y =>
        obtain ⟨t', h1, _⟩ := inter_spec hk dflt x y (hget hta) (hget htb)
        simp [hta, htb, h1] at hp

/-! ### non-vacuity and regression witnesses (identity hash on `Nat`: 0, 5, 10 collide modulo 5) -/

theorem keyOk_nat : KeyOk (fun n : Nat => n) (fun a b => a == b) :=
  ⟨by intro a; simp,
   by intro a b h; have : a = b := by simpa using h
      subst this; simp,
   by intro a b c h1 h2
      have e1 : a = b := by simpa using h1
      have e2 : b = c := by simpa using h2
      subst e1; subst e2; simp,
   by intro a b h; simpa using h⟩

/-- D7 regression (lookup past a deleted slot): 0, 5, 10 share home slot 0 of a capacity-5 table; after
deleting 0 the absent key 10 crosses the deleted slot — it is absent, and 5 is still found. -/
theorem tombstone_lookup_witness :
    let ops : List (Op Nat Nat) := [.new 5, .set 0 0 7, .set 0 5 8, .del 0 0]
    let t := (mrun (fun n => n) (fun a b => a == b) 0 [] ops)
    (t.map fun t => (get (fun n => n) (fun a b => a == b) t 10, get (fun n => n) (fun a b => a == b) t 5)) =
      [(.ok .absent, .ok (.val 8))] := by decide

/-- D7 regression (`{1 => 2, 3 => 4} + {1 => 5}`): the result has 2 pairs and length 2 -/
theorem concat_length_witness :
    let ops : List (Op Nat Nat) := [.new 0, .set 0 1 2, .set 0 3 4, .new 0, .set 1 1 5, .cat 0 1]
    ((mrun (fun n => n) (fun a b => a == b) 0 [] ops).map fun t => (t.elements, t.toList.length)) =
      [(2, 2), (1, 1), (2, 2)] := by decide

end Elk.C17
