import ElkVerif.Model.HashMap
/-!
# C17 — Hash maps, hash records and hash sets behave as finite maps and sets
-/
namespace Elk.C17
open Elk.HashMap

theorem entries_replicate_empty {K V : Type} (c : Nat) :
    entries (List.replicate c (Slot.empty : Slot K V)) = [] := by
  induction c with
  | zero => rfl
  | succ n ih => simp [List.replicate_succ, entries, ih]

/-- a new table is the empty map -/
theorem new_empty {K V : Type} (c : Nat) : (Tbl.new c : Tbl K V).toList = [] ∧ (Tbl.new c : Tbl K V).elements = 0 :=
  ⟨entries_replicate_empty c, rfl⟩

end Elk.C17
