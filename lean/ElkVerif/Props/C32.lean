import ElkVerif.Proofs.LineInfo
/-!
# C32 — Uncaught errors report the active call chain with correct lines

Line-table part: the run-length encoded `LineInfoList` refines the per-byte list of source
lines, for every edit script the compiler can issue.
-/
namespace Elk.C32
open Elk.LineInfo

/-- `GetLineNumber` reads the per-byte abstraction (all tables with non-empty runs, all offsets ≥ 0). -/
theorem getLine_flat (t : Table) (i : Nat) (hp : Pos t) :
    (getInfo t i).map (·.line) = (flat t)[i]? := by
  have := getInfoFrom_flat t 0 (i : Int) hp (by omega)
  simpa [getInfo] using this

/-- not found exactly when the offset is past the end -/
theorem getLine_none_iff (t : Table) (i : Nat) (hp : Pos t) :
    getInfo t i = none ↔ (flat t).length ≤ i := by
  have := getLine_flat t i hp
  constructor
  · intro h; rw [h] at this; simp at this; omega
  · intro h
    have h2 : (flat t)[i]? = none := by simp; omega
    rw [h2] at this
    cases hg : getInfo t i <;> simp [hg] at this ⊢

/-- `AddLineNumber` appends `bytes` copies of `line` -/
theorem flat_addLine (t : Table) (line bytes : Int) (hp : Pos t) (hb : 0 ≤ bytes) :
    flat (addLine t line bytes) = flat t ++ List.replicate bytes.toNat line := by
  unfold addLine
  cases hl : t.getLast? with
  | none => simp [flat_append, flat]
  | some e =>
    obtain ⟨ys, rfl⟩ := List.getLast?_eq_some_iff.mp hl
    have he : 1 ≤ e.count := hp e (by simp)
    by_cases hline : e.line = line
    · simp only [hline, if_true, modifyLast_append_singleton, flat_append, flat, List.append_nil]
      rw [replicate_add_toNat _ _ _ (by omega) hb, ← hline, List.append_assoc]
    · simp [hline, flat_append, flat]

theorem pos_addLine (t : Table) (line bytes : Int) (hp : Pos t) (hb : 1 ≤ bytes) :
    Pos (addLine t line bytes) := by
  unfold addLine
  cases hl : t.getLast? with
  | none => simp only []; rw [pos_append]; exact ⟨hp, by simp [Pos]; omega⟩
  | some e =>
    obtain ⟨ys, rfl⟩ := List.getLast?_eq_some_iff.mp hl
    have hp' := (pos_append _ _).mp hp
    have he : 1 ≤ e.count := hp e (by simp)
    by_cases hline : e.line = line
    · simp only [hline, if_true, modifyLast_append_singleton]
      rw [pos_append]; exact ⟨hp'.1, by simp [Pos]; omega⟩
    · simp only [hline, if_false]
      rw [pos_append]; exact ⟨hp, by simp [Pos]; omega⟩

/-- `AddBytesToLastLine` extends the last run -/
theorem flat_addLast (t t' : Table) (bytes : Int) (hp : Pos t) (hb : 0 ≤ bytes)
    (h : addLast t bytes = .ok t') :
    ∃ l, (flat t).getLast? = some l ∧ flat t' = flat t ++ List.replicate bytes.toNat l ∧ Pos t' := by
  unfold addLast at h
  cases hl : t.getLast? with
  | none => simp [hl] at h
  | some e =>
    obtain ⟨ys, rfl⟩ := List.getLast?_eq_some_iff.mp hl
    simp only [hl, modifyLast_append_singleton] at h
    injection h with h; subst h
    have he : 1 ≤ e.count := hp e (by simp)
    have hp' := (pos_append _ _).mp hp
    refine ⟨e.line, ?_, ?_, ?_⟩
    · simp only [flat_append, flat, List.append_nil]
      rw [List.getLast?_append, List.getLast?_replicate]
      have : ¬ e.count.toNat = 0 := by omega
      simp [this]
    · simp only [flat_append, flat, List.append_nil]
      rw [replicate_add_toNat _ _ _ (by omega) hb, List.append_assoc]
    · rw [pos_append]; exact ⟨hp'.1, by simp [Pos]; omega⟩

/-- `RemoveByte` drops the last byte; it panics exactly on the empty table -/
theorem flat_removeByte (t : Table) (hp : Pos t) :
    (t = [] ∧ removeByte t = .panic) ∨
    (∃ t', removeByte t = .ok t' ∧ flat t' = (flat t).dropLast ∧ Pos t') := by
  unfold removeByte
  cases hl : t.getLast? with
  | none => left; simp [List.getLast?_eq_none_iff] at hl; simp [hl]
  | some e =>
    right
    obtain ⟨ys, rfl⟩ := List.getLast?_eq_some_iff.mp hl
    have he : 1 ≤ e.count := hp e (by simp)
    have hp' := (pos_append _ _).mp hp
    by_cases h1 : e.count = 1
    · refine ⟨ys, by simp [h1], ?_, hp'.1⟩
      simp [flat_append, flat, h1]
    · refine ⟨ys ++ [{ e with count := e.count - 1 }], by simp [h1, modifyLast_append_singleton], ?_, ?_⟩
      · simp only [flat_append, flat, List.append_nil]
        have : e.count.toNat = (e.count - 1).toNat + 1 := by omega
        rw [this, List.replicate_succ', ← List.append_assoc, List.dropLast_concat]
      · rw [pos_append]; exact ⟨hp'.1, by simp [Pos]; omega⟩

/-- `prepLocals` attributes the inserted prologue bytes to the first line -/
theorem flat_prep (t : Table) (bytes : Int) (hp : Pos t) (hb : 0 ≤ bytes) :
    flat (prep t bytes) = List.replicate bytes.toNat ((flat t).headD 0) ++ flat t
      ∨ t = [] := by
  cases t with
  | nil => right; rfl
  | cons e rest =>
    left
    have he : 1 ≤ e.count := hp e (by simp)
    simp only [prep, flat]
    have hh : (List.replicate e.count.toNat e.line ++ flat rest).headD 0 = e.line := by
      have : e.count.toNat = (e.count.toNat - 1) + 1 := by omega
      rw [this, List.replicate_succ]; simp
    rw [hh, ← List.append_assoc, List.replicate_append_replicate]
    congr 2; omega

/-- Abstract (per-byte) meaning of the edits that append or drop at the end. -/
def absStep (bs : List Int) : Edit → Option (List Int)
  | .add l b => some (bs ++ List.replicate b.toNat l)
  | .addLast b => match bs.getLast? with
      | some l => some (bs ++ List.replicate b.toNat l)
      | none => none
  | .removeByte => if bs = [] then none else some bs.dropLast
  | _ => none

def absRun (bs : List Int) : List Edit → Option (List Int)
  | [] => some bs
  | e :: es => match absStep bs e with
    | some bs' => absRun bs' es
    | none => none

/-- scripts made of the emit-time edits with the byte counts the compiler uses -/
def EmitEdit : Edit → Prop
  | .add _ b => 1 ≤ b
  | .addLast b => 0 ≤ b
  | .removeByte => True
  | _ => False

/-- **Refinement for every emit-time edit script**: running the RLE table and then flattening
equals running the per-byte list; a panic of the table is exactly an undefined abstract step. -/
theorem lineinfo_refines (es : List Edit) (t : Table) (hp : Pos t) (he : ∀ e ∈ es, EmitEdit e) :
    match run t es with
    | .ok t' => absRun (flat t) es = some (flat t') ∧ Pos t'
    | .panic => absRun (flat t) es = none := by
  induction es generalizing t with
  | nil => simp [run, absRun, hp]
  | cons e es ih =>
    have he' : ∀ x ∈ es, EmitEdit x := fun x hx => he x (by simp [hx])
    have hee : EmitEdit e := he e (by simp)
    cases e with
    | add l b =>
      simp only [EmitEdit] at hee
      simp only [run, step, absRun, absStep]
      have := ih (addLine t l b) (pos_addLine t l b hp hee)  he'
      rw [flat_addLine t l b hp (by omega)] at this
      exact this
    | addLast b =>
      simp only [EmitEdit] at hee
      simp only [run, step, absRun, absStep]
      cases h : addLast t b with
      | ok t' =>
        obtain ⟨l, hl, hf, hp'⟩ := flat_addLast t t' b hp hee h
        simp only [hl]
        have := ih t' hp' he'
        rw [hf] at this
        exact this
      | panic =>
        have : t = [] := by
          unfold addLast at h
          cases hl : t.getLast? with
          | none => simpa [List.getLast?_eq_none_iff] using hl
          | some e => simp [hl] at h
        simp [this, flat]
    | removeByte =>
      simp only [run, step, absRun, absStep]
      rcases flat_removeByte t hp with ⟨h0, hpn⟩ | ⟨t', hok, hf, hp'⟩
      · subst h0; simp [removeByte, flat]
      · have hne : flat t ≠ [] := by
          intro h0
          have : t = [] := by
            cases t with
            | nil => rfl
            | cons e rest =>
              have he1 : 1 ≤ e.count := hp e (by simp)
              simp [flat] at h0
              omega
          subst this; simp [removeByte] at hok
        simp only [hok, hne, if_false]
        have := ih t' hp' he'
        rw [hf] at this
        exact this
    | removeBytes n => simp [EmitEdit] at hee
    | prep b => simp [EmitEdit] at hee
    | removeAt o c => simp [EmitEdit] at hee

/-- non-vacuity: a non-trivial table meets the hypotheses, and a script that coalesces,
splits and removes reaches the expected bytes. -/
example : Pos [⟨3, 2⟩, ⟨4, 1⟩] := by simp [Pos]
example : run [] [.add 3 2, .add 3 1, .add 5 2, .removeByte, .addLast 2] =
    .ok [⟨3, 3⟩, ⟨5, 3⟩] := by decide
example : getLine [⟨3, 3⟩, ⟨5, 3⟩] 3 = 5 ∧ getLine [⟨3, 3⟩, ⟨5, 3⟩] 6 = -1 := by decide

/-- `removeBytes(offset,count)` is only right when the removed range lies inside one run:
kernel-checked witness that the model (which mirrors the code) leaves a zero-length run
and misattributes lines when the range straddles two runs. -/
theorem removeAt_straddle_witness :
    removeAt [⟨1, 2⟩, ⟨2, 2⟩] 1 2 = .ok [⟨1, 0⟩, ⟨2, 2⟩] ∧
    flat [⟨1, 0⟩, ⟨2, 2⟩] ≠ [1, 2] := by decide

end Elk.C32
