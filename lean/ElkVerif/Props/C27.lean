import ElkVerif.Proofs.Repl
/-!
# C27 — REPL sessions behave like batch runs of their accepted inputs

The theorems are about `Elk.Repl.input` — `CheckSource`'s snapshot / check / restore-on-failure
as coded — for EVERY machine (checker), state, and input history. The code restores four
components; whether the checker's remaining state survives a failing check untouched
(`RestUntouchedOnFailure`) is a fact about the real checker that is only TESTED (shadow-checker
fingerprints and session-vs-batch runs in `checks/c27.py`).
-/
namespace Elk.C27
open Elk.Repl

variable {Snap Rest Src Out : Type}

/-- As coded, unconditionally: after a rejected input the four snapshotted components (global
environment, local environments, constant scopes, method scopes) are the ones saved before. -/
theorem rejected_restores_snapshot (M : Machine Snap Rest Src Out) (s : St Snap Rest) (src : Src)
    (h : (input M s src).2 = none) : (input M s src).1.snap = s.snap := by
  have hf := (input_rejected_iff M s src).mp h
  rw [input_rejected M s src hf]

/-- **A rejected input leaves no trace** — for every machine whose failing checks do not touch
the un-snapshotted rest of the state (complete snapshot). -/
theorem rejected_no_trace (M : Machine Snap Rest Src Out) (hc : RestUntouchedOnFailure M)
    (s : St Snap Rest) (src : Src) (h : (input M s src).2 = none) : (input M s src).1 = s := by
  have hf := (input_rejected_iff M s src).mp h
  rw [input_rejected M s src hf, hc s src hf]

/-- Full statement without the completeness hypothesis. -/
def RejectedNoTraceFull : Prop :=
  ∀ (Snap Rest Src Out : Type) (M : Machine Snap Rest Src Out) (s : St Snap Rest) (src : Src),
    (input M s src).2 = none → (input M s src).1 = s

/-- It fails for a checker that keeps any state outside the four restored components and
touches it before failing (the shape of every "missed piece of state"): `leakyMachine` counts
checked inputs; after the rejected input `[bad]` the counter stays bumped. -/
theorem partial_snapshot_witness : ¬ RejectedNoTraceFull := by
  intro h
  have := h _ _ _ _ Mini.leakyMachine Mini.init [Mini.Item.bad] (by decide)
  have h2 := congrArg St.rest this
  revert h2
  decide

/-- Removing the rejected inputs from a history changes neither the outputs of the accepted
inputs nor the final state (∀ histories; induction on the input list). -/
theorem session_skips_rejected (M : Machine Snap Rest Src Out) (hc : RestUntouchedOnFailure M)
    (s : St Snap Rest) (h : List Src) :
    acceptedOutputs M s (acceptedInputs M s h) = acceptedOutputs M s h ∧
    sessionState M s (acceptedInputs M s h) = sessionState M s h ∧
    AllAccepted M s (acceptedInputs M s h) := by
  induction h generalizing s with
  | nil => simp [acceptedInputs, acceptedOutputs, session, sessionState, AllAccepted]
  | cons a r ih =>
    cases hf : (M.check s a).failed with
    | true =>
      have hin : input M s a = (s, none) := by
        rw [input_rejected M s a hf, hc s a hf]
      have := ih s
      simp only [acceptedInputs, acceptedOutputs, session, sessionState, hin] at this ⊢
      simpa using this
    | false =>
      have hin := input_accepted M s a hf
      have := ih (M.check s a).st
      simp only [acceptedInputs, acceptedOutputs, session, sessionState, hin, AllAccepted,
        List.filterMap_cons] at this ⊢
      refine ⟨?_, ?_, hf, this.2.2⟩
      · simp at this ⊢; exact this.1
      · exact this.2.1

/-- concatenation of a list of inputs into one program -/
def catAll (cat : Src → Src → Src) (empty : Src) : List Src → Src
  | [] => empty
  | a :: r => cat a (catAll cat empty r)

/-- a history in which everything is accepted behaves like the one-program batch run -/
theorem allAccepted_eq_batch {Line : Type} (M : Machine Snap Rest Src (List Line))
    (cat : Src → Src → Src) (empty : Src) (hs : Sequential M cat empty)
    (l : List Src) (s : St Snap Rest) (ha : AllAccepted M s l) :
    (M.check s (catAll cat empty l)).failed = false ∧
    (M.check s (catAll cat empty l)).st = sessionState M s l ∧
    (M.check s (catAll cat empty l)).out = (acceptedOutputs M s l).flatten := by
  induction l generalizing s with
  | nil =>
    obtain ⟨h1, h2, h3⟩ := hs.check_empty s
    simp [catAll, sessionState, acceptedOutputs, session, h1, h2, h3]
  | cons a r ih =>
    obtain ⟨hf, hr⟩ := ha
    obtain ⟨c1, c2, c3⟩ := hs.check_cat s a (catAll cat empty r) hf
    obtain ⟨i1, i2, i3⟩ := ih (M.check s a).st hr
    have hin := input_accepted M s a hf
    simp only [catAll, sessionState, acceptedOutputs, session, hin, List.filterMap_cons]
    refine ⟨by rw [c1, i1], by rw [c2, i2], ?_⟩
    rw [c3, i3]
    simp [acceptedOutputs]

/-- **Session = batch.** For every history: the outputs the session prints for its accepted
inputs, concatenated, are exactly what ONE program made of the accepted inputs prints; that
program is accepted; and it ends in the session's final state. (Hypotheses: complete snapshot;
programs compose sequentially.) -/
theorem session_eq_batch {Line : Type} (M : Machine Snap Rest Src (List Line))
    (cat : Src → Src → Src) (empty : Src) (hs : Sequential M cat empty)
    (hc : RestUntouchedOnFailure M) (s : St Snap Rest) (h : List Src) :
    let batch := M.check s (catAll cat empty (acceptedInputs M s h))
    batch.failed = false ∧ batch.st = sessionState M s h ∧
      batch.out = (acceptedOutputs M s h).flatten := by
  obtain ⟨e1, e2, e3⟩ := session_skips_rejected M hc s h
  obtain ⟨b1, b2, b3⟩ := allAccepted_eq_batch M cat empty hs _ s e3
  exact ⟨b1, by rw [b2, e2], by rw [b3, e1]⟩

/-- and at every point of the history (each accepted input prints what the batch of the accepted
inputs so far prints at that point): the statement above applied to every prefix -/
theorem session_eq_batch_prefix {Line : Type} (M : Machine Snap Rest Src (List Line))
    (cat : Src → Src → Src) (empty : Src) (hs : Sequential M cat empty)
    (hc : RestUntouchedOnFailure M) (s : St Snap Rest) (h : List Src) (k : Nat) :
    (M.check s (catAll cat empty (acceptedInputs M s (h.take k)))).out =
      (acceptedOutputs M s (h.take k)).flatten :=
  (session_eq_batch M cat empty hs hc s (h.take k)).2.2

/-! ### non-vacuity: a concrete machine meets both hypotheses -/

theorem mini_rest_untouched : RestUntouchedOnFailure Mini.machine := by
  intro s src _
  exact Mini.runItems_rest s src

theorem mini_sequential : Sequential Mini.machine (· ++ ·) [] := by
  constructor
  · intro s; exact ⟨rfl, rfl, rfl⟩
  · intro s a b hf
    have happ := Mini.runItems_append s a b
    have hf' : (Mini.runItems s a).2.1 = false := hf
    simp only [Mini.machine, Mini.checkItems] at hf ⊢
    rw [happ]
    simp [hf']

/-- a history with definitions, a failing input that first introduces a constant and a method,
probes for them, and a redefinition: outputs of the session vs the batch of accepted inputs -/
example :
    let h : List (List Mini.Item) :=
      [[.defLocal 0 5, .useLocal 0], [.defConst 1 7, .defMethod 2 9, .bad], [.useConst 1], [.useMethod 2],
       [.defMethod 2 3, .useMethod 2], [.defMethod 2 4], [.useMethod 2, .useLocal 0]]
    session Mini.machine Mini.init h = [some [5], none, none, none, some [3], some [], some [4, 5]] ∧
    (Mini.machine.check Mini.init (catAll (· ++ ·) [] (acceptedInputs Mini.machine Mini.init h))).out = [5, 3, 4, 5] := by
  decide

end Elk.C27
