import ElkVerif.Model.Mini.Eval
import ElkVerif.Proofs.MiniMono
/-!
# C14 — Structured control flow follows its reference semantics

The MiniElk evaluator *is* the reference interpreter the property speaks of. The theorems below
are facts about that reference, for every program, environment, store and fuel: they pin down
what "each `finally` runs exactly once on every exit path", "a `catch` handles exactly the values
its pattern matches (first clause wins)" and "`&&`, `||`, `??` evaluate their right operand only
when needed" mean, and protect the reference against accidental edits. The tie to the real
compiler + VM is the program-level correspondence run of `checks/c14.py`.
-/
namespace Elk.C14
open Elk.Mini

/-- the part of a `do` before its `finally`: body, then the handler of a thrown value -/
def tryCore (defs : List Def) (n : Nat) (env : Env) (s : St) (body : List Stmt) (cs : List Catch) : Out × St :=
  let r1 := execBlock defs n env s body
  match r1.1 with
  | .thrw v => execCatches defs n env r1.2.2 v cs
  | o => (o, r1.2.2)

/-- **finally runs exactly once on every exit path.** Whatever way the protected part ends —
value, `break`, `continue`, `return`, uncaught or rethrown error — the `finally` block is
executed exactly once, after it, in the state it left (`finallyPhase`: a normal `finally`
preserves the pending outcome, an abrupt one replaces it; only a dead evaluation — out of fuel
or stuck — skips it). Every program, every state, every fuel. -/
theorem finally_once (defs : List Def) (n : Nat) (env : Env) (s : St)
    (body : List Stmt) (cs : List Catch) (f : List Stmt) :
    execStmt defs (n + 1) env s (.try body cs (some f)) =
      finallyPhase env (tryCore defs n env s body cs)
        (execBlock defs n env (tryCore defs n env s body cs).2 f) := by
  simp only [execStmt, tryCore]
  rfl

/-- the pending outcome survives a normally finishing `finally`, for each exit kind -/
theorem finally_keeps_pending (env env' : Env) (o : Out) (s2 s3 : St) (v : Val) (h : o.fatal = false) :
    finallyPhase env (o, s2) (.val v, env', s3) = (o, env, s3) := by
  simp [finallyPhase, h]

/-- an abrupt `finally` replaces the pending outcome -/
theorem finally_abrupt_wins (env env' : Env) (o o3 : Out) (s2 s3 : St) (h : o.fatal = false)
    (h3 : ∀ v, o3 ≠ .val v) :
    finallyPhase env (o, s2) (o3, env', s3) = (o3, env, s3) := by
  cases o3 <;> simp_all [finallyPhase]

/-- without a `finally` the `do` is just its protected part -/
theorem try_no_finally (defs : List Def) (n : Nat) (env : Env) (s : St)
    (body : List Stmt) (cs : List Catch) :
    execStmt defs (n + 1) env s (.try body cs none) =
      ((tryCore defs n env s body cs).1, env, (tryCore defs n env s body cs).2) := by
  simp only [execStmt, tryCore]
  rfl

/-- a clause whose pattern does not match is skipped -/
theorem catch_skip (defs : List Def) (n : Nat) (env : Env) (s : St) (v : Val)
    (p : Pat) (x : String) (b : List Stmt) (rest : List Catch) (h : p.matches v = false) :
    execCatches defs (n + 1) env s v (.mk p x b :: rest) = execCatches defs n env s v rest := by
  simp [execCatches, h]

/-- the first clause whose pattern matches handles the value: its body runs with the value bound -/
theorem catch_hit (defs : List Def) (n : Nat) (env : Env) (s : St) (v : Val)
    (p : Pat) (x : String) (b : List Stmt) (rest : List Catch) (h : p.matches v = true) :
    execCatches defs (n + 1) env s v (.mk p x b :: rest) =
      (let (i, s1) := s.alloc v
       let (o, _, s2) := execBlock defs n ((x, i) :: env) s1 b
       (o, s2)) := by
  simp [execCatches, h]

/-- **a catch handles exactly the values its patterns match**: if no clause matches, the value
stays thrown and the state is untouched (given enough fuel to scan the clauses). -/
theorem catch_none (defs : List Def) (env : Env) (s : St) (v : Val) (cs : List Catch)
    (h : ∀ c ∈ cs, match c with | .mk p _ _ => p.matches v = false) (n : Nat) (hn : cs.length < n) :
    execCatches defs n env s v cs = (.thrw v, s) := by
  induction cs generalizing n with
  | nil =>
    cases n with
    | zero => omega
    | succ n => simp [execCatches]
  | cons c rest ih =>
    cases n with
    | zero => omega
    | succ n =>
      cases c with
      | mk p x b =>
        have hp : p.matches v = false := h (.mk p x b) (by simp)
        rw [catch_skip defs n env s v p x b rest hp]
        exact ih (fun c hc => h c (by simp [hc])) n (by simp at hn; omega)

/-- `&&`: the right operand is evaluated only when the left one is truthy -/
theorem and_shortcircuit (defs : List Def) (n : Nat) (env : Env) (s s1 : St) (a b : Expr) (va : Val)
    (ha : evalExpr defs n env s a = (.val va, s1)) (hf : va.truthy = false) :
    evalExpr defs (n + 1) env s (.and a b) = (.val va, s1) := by
  simp [evalExpr, ha, hf]

theorem and_evaluates_right (defs : List Def) (n : Nat) (env : Env) (s s1 : St) (a b : Expr) (va : Val)
    (ha : evalExpr defs n env s a = (.val va, s1)) (ht : va.truthy = true) :
    evalExpr defs (n + 1) env s (.and a b) = evalExpr defs n env s1 b := by
  simp [evalExpr, ha, ht]

/-- `||`: the right operand is evaluated only when the left one is falsy -/
theorem or_shortcircuit (defs : List Def) (n : Nat) (env : Env) (s s1 : St) (a b : Expr) (va : Val)
    (ha : evalExpr defs n env s a = (.val va, s1)) (ht : va.truthy = true) :
    evalExpr defs (n + 1) env s (.or a b) = (.val va, s1) := by
  simp [evalExpr, ha, ht]

theorem or_evaluates_right (defs : List Def) (n : Nat) (env : Env) (s s1 : St) (a b : Expr) (va : Val)
    (ha : evalExpr defs n env s a = (.val va, s1)) (hf : va.truthy = false) :
    evalExpr defs (n + 1) env s (.or a b) = evalExpr defs n env s1 b := by
  simp [evalExpr, ha, hf]

/-- `??`: the right operand is evaluated only when the left one is `nil` -/
theorem nilco_shortcircuit (defs : List Def) (n : Nat) (env : Env) (s s1 : St) (a b : Expr) (va : Val)
    (ha : evalExpr defs n env s a = (.val va, s1)) (hv : va ≠ .nil) :
    evalExpr defs (n + 1) env s (.nilco a b) = (.val va, s1) := by
  cases va <;> simp_all [evalExpr]

theorem nilco_evaluates_right (defs : List Def) (n : Nat) (env : Env) (s s1 : St) (a b : Expr)
    (ha : evalExpr defs n env s a = (.val .nil, s1)) :
    evalExpr defs (n + 1) env s (.nilco a b) = evalExpr defs n env s1 b := by
  simp [evalExpr, ha]

/-- a `break`/`continue` with a label passes through loops that do not carry it -/
theorem label_passes (mine : Option String) (l : String) (h : mine ≠ some l) :
    labelHits mine (some l) = false := by
  simp [labelHits, h]

theorem unlabelled_hits_innermost (mine : Option String) : labelHits mine none = true := rfl

/-- a loop whose condition is falsy does not run its body (state changes come from the condition only) -/
theorem while_false (defs : List Def) (n : Nat) (env : Env) (s s1 : St) (lbl : Option String)
    (c : Expr) (body : List Stmt) (vc : Val)
    (hc : evalExpr defs n env s c = (.val vc, s1)) (hf : vc.truthy = false) :
    execStmt defs (n + 1) env s (.while lbl c body) = (.val .nil, env, s1) := by
  simp [execStmt, hc, hf]

/-- one iteration of `while`: a normally finishing body is followed by the loop again -/
theorem while_step (defs : List Def) (n : Nat) (env env' : Env) (s s1 s2 : St) (lbl : Option String)
    (c : Expr) (body : List Stmt) (vc v : Val)
    (hc : evalExpr defs n env s c = (.val vc, s1)) (ht : vc.truthy = true)
    (hb : execBlock defs n env s1 body = (.val v, env', s2)) :
    execStmt defs (n + 1) env s (.while lbl c body) = execStmt defs n env s2 (.while lbl c body) := by
  simp [execStmt, hc, ht, hb]

/-- **The reference semantics is well defined**: once a program finishes within some fuel
(any outcome other than `timeout`), every larger fuel gives the same outcome, store and printed
lines. "The trace the reference interpreter prescribes" is therefore the trace at any
sufficiently large fuel; the evaluator being a function, it is unique (determinism). -/
theorem fuel_monotone (p : Prog) (n k : Nat) (h : (runProg n p).1.isTimeout = false) :
    runProg (n + k) p = runProg n p := by
  unfold runProg at h ⊢
  have := execBlock_mono p.defs n k [] {} p.main (by
    rcases hb : execBlock p.defs n [] {} p.main with ⟨o, e, s⟩
    rw [hb] at h; exact h)
  rw [this]

/-- non-vacuity: a concrete nesting — throw inside `do` inside a loop, caught by the second
clause, `finally` printing, then a labelled `break` out of the outer loop. -/
def demo : Prog :=
  { modName := "D", defs := [],
    main := [
      .while (some "o") (.bool true) [
        .try [.throw (.str "boom")]
             [.mk .isInt "e" [.print (.str "int")], .mk .isStr "e" [.print (.var "e")]]
             (some [.print (.str "fin")]),
        .brk (some "o")],
      .print (.str "end")] }

example : (runProg 50 demo).2.lines = ["\"boom\"", "\"fin\"", "\"end\""] := by decide

end Elk.C14
