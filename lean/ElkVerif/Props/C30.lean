import ElkVerif.Proofs.Pattern
/-!
# C30 — Pattern matching selects the first matching case and binds correctly

Reference semantics: `Elk.Pattern.matchP` (one pattern against one value), `select` (a `switch`),
`captured`/`covers` (the checker's "fully captured type" = its exhaustiveness notion, consumed by
`do … catch`).  All theorems quantify over every pattern, value, environment and case list.
-/
namespace Elk.C30
open Elk.Pattern

/-- **First match.** `select` answers `(i, b)` exactly when case `i` matches with bindings `b`
and no earlier case matches. -/
theorem select_first (ρ : Env) (cs : List Pat) (v : V) (i : Nat) (b : Bindings) :
    select ρ cs v = some (i, b) ↔
      (∃ p, cs[i]? = some p ∧ matchP ρ p v = some b) ∧
      ∀ j, j < i → ∀ q, cs[j]? = some q → matchP ρ q v = none := by
  have := selectFrom_some ρ v cs 0 i b
  simpa [select] using this

/-- no case is selected (the `else` branch runs) exactly when no case matches -/
theorem select_none (ρ : Env) (cs : List Pat) (v : V) :
    select ρ cs v = none ↔ ∀ p ∈ cs, matchP ρ p v = none :=
  selectFrom_none ρ v cs 0

/-- the selected case is unique: a function of the cases and the value -/
theorem select_deterministic (ρ : Env) (cs : List Pat) (v : V) (r₁ r₂ : Nat × Bindings)
    (h₁ : select ρ cs v = some r₁) (h₂ : select ρ cs v = some r₂) : r₁ = r₂ := by
  rw [h₁] at h₂; injection h₂

/-- **Bindings, shape.** A match binds exactly the variables of the pattern, once per
occurrence, in source order. -/
theorem bindings_names (ρ : Env) (p : Pat) (v : V) (b : Bindings) (h : matchP ρ p v = some b) :
    b.map (·.1) = p.vars :=
  matchP_names ρ p v b h

/-- **Bindings, values.** Every binding `(y, w)` produced by a match is justified by the declarative
relation `Binds`: `w` is the sub-value of `v` at an occurrence of `y` in `p` (element `i` of a
list/tuple, the value under a key — `nil` if absent —, the `length` of an object pattern, the
whole value for `p as y`), the list of middle elements for a named rest `*y`, or `nil` when `y`
occurs only in an alternative of `||` / `?` that was not taken. -/
theorem bindings_sound (ρ : Env) (p : Pat) (v : V) (b : Bindings) (y : String) (w : V)
    (h : matchP ρ p v = some b) (hm : (y, w) ∈ b) : Binds ρ p v y w :=
  matchP_binds ρ p v b y w h hm

/-- the bindings of the selected case of a `switch` are sound -/
theorem select_bindings_sound (ρ : Env) (cs : List Pat) (v : V) (i : Nat) (b : Bindings)
    (h : select ρ cs v = some (i, b)) :
    ∃ p, cs[i]? = some p ∧ b.map (·.1) = p.vars ∧ ∀ y w, (y, w) ∈ b → Binds ρ p v y w := by
  obtain ⟨⟨p, hp, hm⟩, _⟩ := (select_first ρ cs v i b).mp h
  exact ⟨p, hp, matchP_names ρ p v b hm, fun y w hyw => matchP_binds ρ p v b y w hm hyw⟩

/-- the conservative subtype test is sound -/
theorem isSub_sound (a t : Ty) (h : isSub a t = true) (v : V) (hv : hasTy v a = true) : hasTy v t = true :=
  Elk.Pattern.isSub_sound a t h v hv

/-- the checker's fully captured type of a pattern contains only values the pattern matches
(`checkPattern`'s second result, with the literal-only repair of `checkSimpleLiteralPattern`) -/
theorem captured_sound (cfg : Cfg) (hcfg : cfg.literalOnly = true) (ρ : Env) (p : Pat) (μ : Ty) (v : V)
    (h : hasTy v (captured cfg ρ p μ) = true) : (matchP ρ p v).isSome = true :=
  Elk.Pattern.captured_sound cfg hcfg ρ p μ v h

/-- full-strength exhaustiveness statement for a configuration of the checker -/
def CoversSound (cfg : Cfg) : Prop :=
  ∀ (ρ : Env) (ps : List Pat) (τ : Ty), covers cfg ρ ps τ = true →
    ∀ v, hasTy v τ = true → ∃ i b, select ρ ps v = some (i, b)

/-- **Exhaustiveness.** When the checker accepts the catches `ps` as covering the thrown type `τ`
(and, were it consulted, a `switch` as exhaustive), every value of `τ` selects a case. -/
theorem covers_sound : CoversSound ⟨true⟩ := by
  intro ρ ps τ hc v hv
  have h := Elk.Pattern.isSub_sound _ _ hc v hv
  obtain ⟨p, hp, hm⟩ := capturedAll_sound ⟨true⟩ rfl ρ .any v ps h
  cases hs : select ρ ps v with
  | some r => exact ⟨r.1, r.2, rfl⟩
  | none =>
    have := (select_none ρ ps v).mp hs p hp
    simp [this] at hm

/-- the unchanged `checkSimpleLiteralPattern` (an interpolated string literal reported as capturing all
of `String`) is **not** sound: `catch "a#{s0}"` is accepted as covering `String`, `"x"` is not caught. -/
theorem covers_unsound_witness : ¬ CoversSound ⟨false⟩ := by
  intro h
  have := h [("s0", .str "b")] [.interp "a" "s0"] (.cls .string)
    (by simp [covers, capturedAll, captured, isSub, clsLe]) (.sc (.str "x")) (by decide)
  obtain ⟨i, b, hs⟩ := this
  have hn : select [("s0", .str "b")] [.interp "a" "s0"] (.sc (.str "x")) = none := by rfl
  rw [hn] at hs; cases hs

/-- a `switch` without `else` is never treated as exhaustive at this commit: `nil` is always a
member of its static type, whatever the cases are -/
theorem switch_without_else_nilable (arms : List Ty) : hasTy (.sc .nil) (switchTy arms none) = true := by
  simp [switchTy, hasTy]

/-- **The compiled matcher decides the reference relation**: `cmatch` (mirror of the bytecode
`compiler/bytecode_compiler.go pattern` emits: left-to-right tests with early exit, the jumps of
`||` / `&&`, class and length tests of collections) answers true exactly when the reference matcher
matches — for every pattern and value. -/
theorem compiled_verdict (ρ : Env) (p : Pat) (v : V) : (cmatch ρ p v).1 = (matchP ρ p v).isSome :=
  cmatch_verdict ρ p v

/-- hence the compiled `switch` selects the same case as the reference -/
theorem compiled_select_index (ρ : Env) (cs : List Pat) (v : V) :
    (cselect ρ cs v).map (·.1) = (select ρ cs v).map (·.1) :=
  cselectFrom_index ρ v cs 0

/-- **Bindings of the compiled matcher** (patterns without `||` / `?`): after a successful match every
variable holds exactly its reference binding — `p as x` (stored before the test), identifiers, map
shorthands, the rest loop (initialised to `[]`, then overwritten) included; non-linear patterns too. -/
theorem compiled_bindings_partial (ρ : Env) (p : Pat) (v : V) (b : Bindings) (ha : p.altFree = true)
    (h : matchP ρ p v = some b) (x : String) :
    Bindings.get (cmatch ρ p v).2 x = Bindings.get b x :=
  cmatch_ext ρ p v b ha h x

/-- non-vacuity: a nested alt-free pattern with a named rest and an `as` -/
example : (Pat.as (.list [.bind "a"] (.named "r") [.rel .gt (.lit (.int 2))]) "w").altFree = true ∧
    matchP [] (.as (.list [.bind "a"] (.named "r") [.rel .gt (.lit (.int 2))]) "w")
      (.list [.sc (.int 1), .sc (.int 2), .sc (.int 3)]) =
      some [("w", .list [.sc (.int 1), .sc (.int 2), .sc (.int 3)]), ("a", .sc (.int 1)), ("r", .list [.sc (.int 2)])] := by
  constructor <;> rfl

/-- full-strength statement about the stores of the compiled matcher: after a successful match every
variable of the pattern holds its reference binding -/
def CompiledBindingsCorrect : Prop :=
  ∀ (ρ : Env) (p : Pat) (v : V) (b : Bindings), matchP ρ p v = some b →
    ∀ x ∈ p.vars, ∃ w, b.get x = some w ∧ ((cmatch ρ p v).2.slot x = .val w)

/-- it fails (known finding): in `(10 as x) || 11` against 11 the compiled code leaves `x = 11`
(stored before the alternative failed), the reference — and the checker's nilable type — say nil -/
theorem compiled_bindings_witness : ¬ CompiledBindingsCorrect := by
  intro h
  obtain ⟨w, hw, hs⟩ := h [] (.or (.as (.lit (.int 10)) "x") (.lit (.int 11))) (.sc (.int 11))
    [("x", .sc .nil)] rfl "x" (by simp [Pat.vars])
  have h1 : w = .sc .nil := by
    have : Bindings.get [("x", V.sc .nil)] "x" = some (V.sc .nil) := rfl
    rw [this] at hw; injection hw with hw; exact hw.symm
  subst h1
  have h2 : (cmatch [] (.or (.as (.lit (.int 10)) "x") (.lit (.int 11))) (.sc (.int 11))).2.slot "x"
      = .val (.sc (.int 11)) := rfl
  rw [h2] at hs
  injection hs with hs; injection hs with hs; cases hs

/-- and a variable of an alternative that was never tried is never stored: `(10 as x) || (11 as y)`
against 10 leaves `y` stale (whatever the stack slot held) -/
theorem compiled_stale_witness :
    (cmatch [] (.or (.as (.lit (.int 10)) "x") (.as (.lit (.int 11)) "y")) (.sc (.int 10))).2.slot "y" = .stale := rfl

/-! ### non-vacuity -/

/-- a three-case switch: the second case is the first that matches, with bindings -/
example : select [("k", .int 5)]
    [.lit (.int 1), .list [.bind "a"] (.named "r") [.rel .ge (.var "k")], .bind "z"]
    (.list [.sc (.int 1), .sc (.int 2), .sc (.int 3), .sc (.int 9)])
    = some (1, [("a", .sc (.int 1)), ("r", .list [.sc (.int 2), .sc (.int 3)])]) := by rfl

/-- the untaken alternative's variable is nil -/
example : matchP [] (.or (.as (.lit (.int 10)) "x") (.as (.lit (.int 11)) "y")) (.sc (.int 11))
    = some [("x", .sc .nil), ("y", .sc (.int 11))] := by rfl

/-- `covers` accepts a genuinely exhaustive list and rejects a non-exhaustive one -/
example : covers ⟨true⟩ [] [.obj .int none, .and (.rel .ne (.lit .nil)) (.obj .string none), .lit .nil]
    (.union (.cls .int) (.lit .nil)) = true := by
  simp [covers, capturedAll, captured, isSub, clsLe]
example : covers ⟨true⟩ [] [.obj .string (some (.rel .gt (.lit (.int 3))))] (.cls .string) = false := by
  simp [covers, capturedAll, captured, isSub, clsLe, hasLength]
example : covers ⟨true⟩ [] [.obj .string (some (.bind "n"))] (.cls .string) = true := by
  simp [covers, capturedAll, captured, isSub, clsLe, hasLength]

end Elk.C30
