import ElkVerif.Model.Regex.Transpile
/-!
# C21 — Regex translation preserves Elk regex semantics  (stage 0: the transpiler model and the known defect)
-/
namespace Elk.C21
open Elk.Regex

/-- `a # x|y\nb` as the Elk parser builds it: the comment text `x|y` has become an alternation. -/
def xCommentTree : Node :=
  .union (.concat (.cons (.char 97) (.cons (.char 32) (.cons (.char 35) (.cons (.char 32) (.cons (.char 120) .nil))))))
         (.concat (.cons (.char 121) (.cons (.char 10) (.cons (.char 98) .nil))))

/-- **Known defect (witness).** In extended mode the transpiler turns `a # x|y\nb` into `a|yb`:
text inside the comment became a live alternative (the comment tracking is per concatenation). -/
theorem xmode_comment_witness :
    transpile xCommentTree { x := true } = .ok (lit "a|yb") := by decide

end Elk.C21
