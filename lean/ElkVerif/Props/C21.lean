import ElkVerif.Proofs.Regex
/-!
# C21 — Regex translation preserves Elk regex semantics

`Model/Regex/Transpile.lean` mirrors `regex/transpile.go` function by function at the STRING level (`transpile`); that
mirror is what the check ties to the code (string equality with `regex.Transpile` on generated trees x 64 flag sets).
`Model/Regex/Sem.lean` gives the matching semantics: `EM` — what an Elk tree denotes (the specification) — and
`GoRe.M` — RE2's reading of the emitted syntax.

Stage reached (fragment = domain of `tg`): literals, `.`, `^ $ \A \z \b \B`, `\a \f \t \n \r`, meta-character
escapes, `\w \W \d \D \s \S \h \H \v \V` in ASCII and Unicode mode, concatenation, alternation, `? * +` (greedy and lazy),
capturing / non-capturing / named / flag groups with scoped `i m s U x a`, extended-mode whitespace skipping, bracket
expressions `[…]`/`[^…]` over literals, escapes, ranges, POSIX and `\\p{…}` classes and all ten shorthands, including the
split of `\\W \\S \\H \\V` out of positive classes into alternatives.
NOT yet in the fragment (covered by the correspondence and the reference matcher only): empty classes `[]`/`[^]`,
counted repetition, `\Q…\E`, numeric escapes, `\p{…}`, flag-only groups `(?i)`, extended-mode comments.
-/
namespace Elk.C21
open Elk.Regex

/-- the text `regex.Transpile` puts in front: the flags RE2 implements itself -/
def flagPrefix (f : Flags) : Str := if f.visible.any then lit "(?" ++ flagChars f.visible ++ [41] else []

/-- **The mirror's output is the printed translation.** On the fragment, the string the (mirrored) transpiler returns
is the leading flag group followed by the printed RE2 tree `g`; it reports no error and does not panic. -/
theorem transpile_prints (r : Node) (f : Flags) (g : GoRe) (h : tg r f = some g) :
    transpile r f = .ok (flagPrefix f ++ g.print) := by
  have := tr_print r (globalFlags { flags := f }) g
    (by simp only [globalFlags]; split <;> simpa [St.write] using h)
    (by simp only [globalFlags]; split <;> simp [St.write])
  simp only [transpile, this]
  simp only [globalFlags, flagPrefix]
  split <;> simp [St.write]

/-- **transpile_correct (fragment).** For every tree in the fragment, every flag set, every Unicode table, every subject
and every pair of positions: the emitted RE2 tree, read under the flags the leading flag group switches on, matches
`s[i..j)` exactly when the Elk tree denotes a match there. Induction on the tree, flags generalised. -/
theorem transpile_correct (T : Tables) (s : Str) (r : Node) (f : Flags) (g : GoRe) (h : tg r f = some g)
    (i j : Nat) : g.M T s f.visible i j ↔ EM T s r f i j :=
  tg_correct T s r f g h i j

/-- Both together: on the fragment the returned string is the print of a tree with the Elk semantics. What is NOT proved
here is that Go's `regexp/syntax` parses that string back to `g` (trusted; exercised by the matching leg of the check). -/
theorem transpile_sound (T : Tables) (s : Str) (r : Node) (f : Flags) (g : GoRe) (h : tg r f = some g) :
    transpile r f = .ok (flagPrefix f ++ g.print) ∧ ∀ i j, g.M T s f.visible i j ↔ EM T s r f i j :=
  ⟨transpile_prints r f g h, fun i j => transpile_correct T s r f g h i j⟩

/-- non-vacuity: `a\w+|(?i:b.)` is in the fragment, in Unicode and in ASCII mode -/
def sample : Node :=
  .union (.concat (.cons (.char 97) (.cons (.oneOrMore .word false) .nil)))
         (.group (.concat (.cons (.char 98) (.cons .anyChar .nil))) [] { i := true } {} false)
example : (tg sample {}).isSome = true := by decide
example : (tg sample { a := true, x := true }).isSome = true := by decide
/-- and the mirror really prints it (one instance, a test): `a[\p{L}\p{Mn}\p{Nd}\p{Pc}]+|(?i:b.)` -/
example : transpile sample {} = .ok (lit "a[\\p{L}\\p{Mn}\\p{Nd}\\p{Pc}]+|(?i:b.)") := by decide

/-- Scope of a flag-only group is the ENCLOSING group (a test on one instance of the string mirror; flag-only groups are
outside the proved fragment): in `(?i:(?a)\d)\d` the inner `\d` is ASCII, the one after the `)` is Unicode-aware again. -/
example : transpile
    (.concat (.cons (.group (.concat (.cons (.groupNoRegex [] { a := true } {} false) (.cons .digit .nil))) []
      { i := true } {} false) (.cons .digit .nil))) {} = .ok (lit "(?i:\\d)\\p{Nd}") := by decide

/-- `a # x|y\nb` as the Elk parser builds it: the comment text `x|y` has become an alternation. -/
def xCommentTree : Node :=
  .union (.concat (.cons (.char 97) (.cons (.char 32) (.cons (.char 35) (.cons (.char 32) (.cons (.char 120) .nil))))))
         (.concat (.cons (.char 121) (.cons (.char 10) (.cons (.char 98) .nil))))

/-- **Known defect (witness).** In extended mode the transpiler turns `a # x|y\nb` into `a|yb`:
text inside the comment became a live alternative (the comment tracking is per concatenation). At the level of the
pattern TEXT the specification says the pattern is `ab`. -/
theorem xmode_comment_witness :
    transpile xCommentTree { x := true } = .ok (lit "a|yb") := by decide

/-- the tree of the witness is outside the fragment exactly because of the `#` (the hypothesis that excludes the
defect class: no extended-mode comment) -/
theorem xmode_comment_outside_fragment : tg xCommentTree { x := true } = none := by decide

end Elk.C21
