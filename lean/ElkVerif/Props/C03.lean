import ElkVerif.Proofs.Lex
import ElkVerif.Proofs.TokWin
import ElkVerif.Proofs.RegexTotal
import ElkVerif.Proofs.RegexFront
/-!
# C03 — The front end is total

What is a theorem here, and about what:
* the regex TRANSPILER model (`Model/Regex/Transpile.lean`, tied to `regex/transpile.go` by C21's correspondence) is a
  total function — Lean accepted it without fuel — and never takes its one panic path on trees the parser accepts;
* the lexer's cursor machine (`Model/Lex.lean`) makes progress: every emitted token consumes at least one byte, so a
  run emits at most `|src|` tokens;
* panic-mode `synchronise` of the parser's token window (`Model/TokWin.lean`) stops within the remaining tokens, at
  END_OF_FILE or at a statement separator.
* the regex LEXER port (`Model/Regex/Front.lean`, tied to `regex/lexer` + `regex/parser` by the correspondence of
  checks/c03.py and checks/c21.py on pattern TEXT, malformed patterns included) always advances; the regex PARSER port is a
  total function by fuel (8·tokens + 16), answering `stuck` if the fuel ran out — never observed, NOT proved impossible.
For the Elk lexer, parser, macro expander and checker proper there is NO model and no theorem: they are covered only by
the crash/hang search of checks/c03.py.
-/
namespace Elk.C03
open Elk.Lex

/-- **lex_progress (one step).** `tokenWithValue` on a non-empty pending lexeme yields a token with a non-empty span
`[start, cursor-1]` and moves `start` up to the cursor: every emitted token consumes at least one byte. -/
theorem emit_progress (typ : Nat) (c : Cur) (h : c.start < c.cursor) :
    (emitTok typ c).1.s = c.start ∧ (emitTok typ c).1.e = c.cursor - 1 ∧
    (emitTok typ c).1.s ≤ (emitTok typ c).1.e ∧ (emitTok typ c).2.start = c.cursor := by
  simp only [emitTok]
  by_cases he : c.cursor - 1 = c.start
  · simp [he]
  · simp [he]; omega

/-- **lex_progress.** Any precondition-respecting run of the cursor machine over `src` emits at most `|src|` tokens
(they are non-empty, disjoint and inside the input): the token loop of `Lex`/`Colorize` terminates. -/
theorem lex_progress (src : Bytes) (ops : List Op) (hg : Guarded src Cur.init ops) :
    (run src Cur.init ops).2.length ≤ src.length := by
  have h := (guarded_run src Cur.init ops ⟨0, 0, rfl, rfl, Nat.le_refl _, At.zero, At.zero⟩ hg).2.1
  have := spansOkFrom_count src.length _ _ h
  simpa [Cur.init] using this

open Elk.TokWin in
/-- **sync_progress.** `synchronise` consumes `syncSteps toks ≤ |toks|` tokens and then stands either at END_OF_FILE
(answer `false`, nothing left) or at a `NEWLINE`/`;` (answer `true`): panic-mode recovery terminates. -/
theorem sync_progress (toks : List Ty) :
    (synchronise toks).2 = toks.drop (syncSteps toks) ∧ syncSteps toks ≤ toks.length ∧
    (((synchronise toks).1 = false ∧ (synchronise toks).2 = []) ∨
     ((synchronise toks).1 = true ∧ ∃ t rest, (synchronise toks).2 = t :: rest ∧ (t = .newline ∨ t = .semicolon))) :=
  sync_spec toks

open Elk.TokWin in
/-- `matchOk` answers "no token" exactly on a mismatch — the case `closureAfterArrow` dereferenced before the fix. -/
theorem matchOk_none_iff (w : Win) (tys : List Ty) : (matchOk w tys).1 = none ↔ accept w tys = false :=
  matchOk_none w tys

open Elk.Regex in
/-- **regex_total.** The transpiler model is a total function into `ok | errs | panic`, and `panic` (Go:
`asciiLetterIndex` on a non-letter) is impossible when every `\cX` names an ASCII letter — which the parser enforces
by reporting an error otherwise (so `Transpile` is not reached). -/
theorem regex_total (r : Node) (f : Flags) (h : caretOk r = true) :
    (∃ out, transpile r f = .ok out) ∨ (∃ msgs, transpile r f = .errs msgs) := by
  have hp := transpile_no_panic r f h
  cases hr : transpile r f with
  | ok out => exact Or.inl ⟨out, rfl⟩
  | errs msgs => exact Or.inr ⟨msgs, rfl⟩
  | panic => exact absurd hr hp

open Elk.Regex.Front in
/-- **The regex lexer always advances** (port of `regex/lexer`, `Model/Regex/Front.lean`): scanning a non-empty input —
a token or a skipped `(?#…)` group — leaves strictly less input. This is the statement the unfixed lexer violated on an
unterminated `(?#`. -/
theorem regex_lex_progress (b : Nat) (bs : List Nat) : (scan (b :: bs)).rest.length < (b :: bs).length :=
  scan_lt b bs

open Elk.Regex.Front in
/-- … hence the fuel of the token loop never cuts it short: any fuel above the input length gives the same tokens. -/
theorem regex_lex_total (f g : Nat) (bs : List Nat) (hf : bs.length < f) (hg : bs.length < g) :
    lexAll f bs = lexAll g bs := lexAll_fuel f g bs hf hg

/-- the hypothesis of `regex_total` is met by trees without caret escapes, e.g. `[a\W]+` … -/
example : Elk.Regex.caretOk (.oneOrMore (.charClass (.cons (.char 97) (.cons .notWord .nil)) false) false) = true := by decide
/-- … and the panic path is real in the model: `\c1` would panic (the parser rejects it first). -/
example : Elk.Regex.transpile (.caretEscape 49) {} = .panic := by decide

end Elk.C03
