import ElkVerif.Model.Lex
import ElkVerif.Model.Regex.Transpile
/-!
# C03 — The front end is total  (stage 0)

Only the regex transpiler model and the lexer's cursor machine are modelled. For the Elk lexer, parser, macro
expander and checker proper there is no model: they are covered by the search in checks/c03.py.
-/
namespace Elk.C03
open Elk.Lex

/-- **lex_progress (one step).** `tokenWithValue` on a non-empty pending lexeme yields a token with a non-empty span
`[start, cursor-1]` and moves `start` up to the cursor: every emitted token consumes at least one byte. -/
theorem emit_progress (typ : Nat) (c : Cur) (h : c.start < c.cursor) :
    (emitTok typ c).1.s = c.start ∧ (emitTok typ c).1.e = c.cursor - 1 ∧
    (emitTok typ c).1.s ≤ (emitTok typ c).1.e ∧ (emitTok typ c).2.start = c.cursor := by
  simp only [emitTok]
  by_cases he : c.cursor - 1 = c.start
  · simp [he]
  · simp [he]; omega

end Elk.C03
