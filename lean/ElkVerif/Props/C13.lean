import ElkVerif.Proofs.UpvalueRun
import ElkVerif.Proofs.UpvalueGrow
/-!
# C13 — Closures capture variables, not values (machine level)

`Elk.Upvalue.C` mirrors the VM's upvalue machinery (stack slots, upvalue objects that are open
on a slot or closed on their own copy, the open-upvalue list, `captureUpvalue`,
`opCloseUpvalues`, frames, tail calls). `Elk.Upvalue.A` is the reference semantics: every variable is a
heap cell, closures hold cell references. A *handle* is what a closure stores for one captured
variable. The theorems say that the two machines cannot be told apart by reading, for every
operation sequence that respects the compiler's discipline (`stepS`: no slot is popped while an
open upvalue points at it), and derive the three clauses of the property.
-/
namespace Elk.C13
open Elk.Upvalue

/-- The simulation invariant, spelled out: in every reachable state of the index machine the
open list holds exactly the open upvalues, in strictly descending slot order (hence no two
open upvalues on one slot). No scoping assumption. -/
theorem open_list_invariant (ops : List Op) :
    ∀ (c c' : C) (rs : List Val), LInv c.heap c.openL → run step c ops = .ok (c', rs) →
      LInv c'.heap c'.openL := by
  induction ops with
  | nil => intro c c' rs hi h; simp only [run] at h; cases h; exact hi
  | cons op ops ih =>
    intro c c' rs hi h
    simp only [run] at h
    cases h1 : step c op with
    | error e => simp [h1] at h
    | ok p =>
      obtain ⟨c1, r⟩ := p
      simp only [h1] at h
      cases h2 : run step c1 ops with
      | error e => simp [h2] at h
      | ok q =>
        obtain ⟨c2, rs2⟩ := q
        simp only [h2] at h
        have := ih c1 c2 rs2 (step_LInv c c1 op r hi h1).1 h2
        cases h
        exact this

/-- two open upvalues never share a slot -/
theorem one_upvalue_per_slot {h : List Uv} {l : List Nat} (hi : LInv h l) {u u' s : Nat}
    (h1 : h[u]? = some (Uv.opn s)) (h2 : h[u']? = some (Uv.opn s)) : u = u' := hi.slot_inj h1 h2

/-- `captureUpvalue` finds the existing upvalue of a slot instead of making a second one -/
theorem capture_finds_existing (c : C) (slot u : Nat) (hi : LInv c.heap c.openL)
    (hu : c.heap[u]? = some (Uv.opn slot)) : capture c slot = .ok (c, u) := by
  obtain ⟨c', id, hc, res⟩ := capture_spec c slot hi
  cases res with
  | found _ hf => rw [hc, hi.slot_inj hu hf]
  | fresh l' hno _ => exact absurd hu (hno u)

/-- One operation: the simulation relation `R` (stack slots ↦ distinct cells with equal contents,
open upvalue ↦ the cell of its slot, which is below `sp`; closed upvalue ↦ a cell of its own that
no slot and no other closed upvalue uses; handles/frames related pointwise; open list in order)
is preserved, and the operation reads the same value in both machines. -/
theorem step_simulation {c : C} {a : A} {ρ : Nat → Nat} (h : R c a ρ) (op : Op) {c' : C} {r : Option Val}
    (hs : stepS c op = .ok (c', r)) : ∃ a' ρ', stepA a op = .ok (a', r) ∧ R c' a' ρ' := by
  unfold stepS at hs
  split at hs
  · rename_i hsc; exact sim_step h op hsc hs
  · cases hs

/-- **Refinement.** For ALL operation sequences that respect the discipline, the upvalue
machine and the cell machine return the same read results (and end in related states). -/
theorem upvalue_refines_cells (ops : List Op) (c' : C) (rs : List Val)
    (h : run stepS C.init ops = .ok (c', rs)) :
    ∃ a' ρ, run stepA A.init ops = .ok (a', rs) ∧ R c' a' ρ :=
  sim_run ops C.init A.init id R_init c' rs h

/-- the same from any pair of related states -/
theorem upvalue_refines_cells_from (ops : List Op) (c : C) (a : A) (ρ : Nat → Nat) (hR : R c a ρ)
    (c' : C) (rs : List Val) (h : run stepS c ops = .ok (c', rs)) :
    ∃ a' ρ', run stepA a ops = .ok (a', rs) ∧ R c' a' ρ' :=
  sim_run ops c a ρ hR c' rs h

/-- **Shared updates.** Two closures capture the same variable (after any prefix `pre`);
whatever happens afterwards (`mid`: returns from the defining call, scope exits, further
captures, writes, calls, stack growth), a write through one closure is read by the other. -/
theorem shared_updates (pre mid : List Op) (i : Nat) (v : Val) (c₁ c₂ : C) (rs₁ rs₂ : List Val)
    (h₁ : run stepS C.init pre = .ok (c₁, rs₁))
    (h₂ : run stepS c₁ ([.capture i, .capture i] ++ mid ++
            [.uset c₁.hs.length v, .uget (c₁.hs.length + 1)]) = .ok (c₂, rs₂)) :
    rs₂.getLast? = some v := by
  obtain ⟨a₁, ρ₁, _, hR⟩ := upvalue_refines_cells pre c₁ rs₁ h₁
  obtain ⟨a₂, _, hA, _⟩ := sim_run _ c₁ a₁ ρ₁ hR c₂ rs₂ h₂
  have hl : a₁.hs.length = c₁.hs.length := by rw [hR.hs]; simp
  rw [← hl] at hA
  exact runA_shared a₁ a₂ mid i v rs₂ hA

/-- **The enclosing scope and the closure share the variable**: the scope assigns and the
closure reads `v`; the closure assigns and the scope reads `w`. -/
theorem shared_with_scope (pre : List Op) (i : Nat) (v w : Val) (c₁ c₂ : C) (rs₁ rs₂ : List Val)
    (h₁ : run stepS C.init pre = .ok (c₁, rs₁))
    (h₂ : run stepS c₁ [.capture i, .setLocal i v, .uget c₁.hs.length, .uset c₁.hs.length w, .getLocal i]
            = .ok (c₂, rs₂)) :
    rs₂ = [v, w] := by
  obtain ⟨a₁, ρ₁, _, hR⟩ := upvalue_refines_cells pre c₁ rs₁ h₁
  obtain ⟨a₂, _, hA, _⟩ := sim_run _ c₁ a₁ ρ₁ hR c₂ rs₂ h₂
  have hl : a₁.hs.length = c₁.hs.length := by rw [hR.hs]; simp
  rw [← hl] at hA
  exact runA_scope_closure a₁ a₂ i v w rs₂ hA

/-- **Survives return.** A captured variable keeps the value last assigned to it across
anything that is not an assignment: any number of returns (including from the frame the
variable lived in, at any depth), scope exits, calls, pushes, pops, growth. -/
theorem survives_return (pre mid : List Op) (hw : ∀ op ∈ mid, op.isWrite = false) (i : Nat) (v : Val)
    (c₁ c₂ : C) (rs₁ rs₂ : List Val)
    (h₁ : run stepS C.init pre = .ok (c₁, rs₁))
    (h₂ : run stepS c₁ ([.capture i, .uset c₁.hs.length v] ++ mid ++ [.uget c₁.hs.length]) = .ok (c₂, rs₂)) :
    rs₂.getLast? = some v := by
  obtain ⟨a₁, ρ₁, _, hR⟩ := upvalue_refines_cells pre c₁ rs₁ h₁
  obtain ⟨a₂, _, hA, _⟩ := sim_run _ c₁ a₁ ρ₁ hR c₂ rs₂ h₂
  have hl : a₁.hs.length = c₁.hs.length := by rw [hR.hs]; simp
  rw [← hl] at hA
  exact runA_survives a₁ a₂ mid hw i v rs₂ hA

/-- **Tail calls.** A tail call reuses the running frame (`callBytecodeFunctionTCO`: the slots
are overwritten with the receiver and the arguments). A variable of that frame captured before
keeps its value. -/
theorem tailcall_safe (pre : List Op) (i n : Nat) (v : Val) (c₁ c₂ : C) (rs₁ rs₂ : List Val)
    (h₁ : run stepS C.init pre = .ok (c₁, rs₁))
    (h₂ : run stepS c₁ [.capture i, .uset c₁.hs.length v, .tcall n, .uget c₁.hs.length] = .ok (c₂, rs₂)) :
    rs₂.getLast? = some v :=
  survives_return pre [.tcall n] (by intro op hop; simp at hop; subst hop; rfl) i v c₁ c₂ rs₁ rs₂ h₁ h₂

/-- Before d86f559 the VM did not close the frame's upvalues at a tail call: the closure then
read the callee's argument (60) instead of its variable (7). -/
theorem tailcall_prefix_witness :
    (run stepPreTCO C.init [.push 1, .push 7, .capture 1, .push 50, .push 60, .tcall 1, .uget 0]).toOption.map (·.2)
      = some [60] ∧
    (run stepS C.init [.push 1, .push 7, .capture 1, .push 50, .push 60, .tcall 1, .uget 0]).toOption.map (·.2)
      = some [7] ∧
    (run stepA A.init [.push 1, .push 7, .capture 1, .push 50, .push 60, .tcall 1, .uget 0]).toOption.map (·.2)
      = some [7] := by
  decide

/-- **Survives growth** (with C10): the ADDRESSED machine — real addresses, reallocation at any
points the policy chooses, any allocator, any initial size — reads what the cell machine reads
on every sequence that respects the discipline and does not exhaust the stack. -/
theorem survives_growth (cfg : Cfg) (hal : ∀ s, Disjoint s.base s.mem.length (cfg.alloc s))
    (b : Int) (n : Nat) (ops : List Op) (s : CA) (rs : List Val) (c' : C) (rs' : List Val)
    (hA : run (stepCA cfg) (CA.init b n) ops = .ok (s, rs))
    (hS : run stepS C.init ops = .ok (c', rs')) :
    ∃ a', run stepA A.init ops = .ok (a', rs) := by
  have e : CA.init b n = enc b ⟨(List.replicate n undef).set (n - 1) sentinel, []⟩ C.init := by
    simp [CA.init, enc, C.init]
  rw [e] at hA
  obtain ⟨_, _, c1, _, hr, _, _⟩ := runCA_enc cfg hal ops b _ C.init
    ⟨by simp [C.init], by simp [C.init], by simp [C.init]⟩ (by intro u s hu; simp [C.init] at hu) s rs hA
  have := runS_run ops C.init c' rs' hS
  rw [hr] at this
  injection this with this; injection this with e1 e2
  subst e2
  obtain ⟨a', _, h, _⟩ := upvalue_refines_cells ops c' rs hS
  exact ⟨a', h⟩

/-! ## Non-vacuity and the need for the discipline -/

/-- a sequence with a shared capture, a call of a closure holding the variable, growth, a
return that closes the upvalue and reads afterwards is accepted by the scope-checked machine -/
def demoOps : List Op :=
  [.push 1, .push 2, .capture 1, .capture 1, .callc 0 [0], .fset 0 5, .grow, .fget 0, .ret,
   .uset 0 9, .uget 1, .close 0, .pop, .uget 0]

example : (run stepS C.init demoOps).toOption.map (·.2) = some [5, 9, 9] := by decide
example : (run stepA A.init demoOps).toOption.map (·.2) = some [5, 9, 9] := by decide

/-- Without the discipline the machines differ: popping a captured slot without closing leaves
a dangling open upvalue that aliases the next value pushed there. -/
theorem discipline_needed_witness :
    (run step C.init [.push 1, .capture 0, .pop, .push 2, .uget 0]).toOption.map (·.2) = some [2] ∧
    (run stepA A.init [.push 1, .capture 0, .pop, .push 2, .uget 0]).toOption.map (·.2) = some [1] := by
  decide

end Elk.C13
