import ElkVerif.Proofs.Symtab
/-!
# C26 — Symbol interning is a bijection under concurrency

`Model/Symtab.lean` models `SymbolTableStruct` (`nameTable`, `idTable`) and its methods as atomic
steps (each runs under the table's `RWMutex`).  A concurrent execution by any number of actors is a
*schedule*: the list of `(actor, operation)` pairs in the order the lock was taken.  Every theorem
below is quantified over **all schedules** (all interleavings of any per-actor programs, any number
of actors, any names).

* `inv_reachable` — the two tables stay inverse to each other;
* `same_name_same_symbol`, `distinct_names_distinct_symbols` — over the whole history, two `Add`
  (or successful `Get`/`GetName`) answers carry the same id exactly when they carry the same name;
* `name_recoverable` — the name of every symbol handed out is recovered by `GetName`, at the end and
  at any later point; `add_idempotent`;
* `interleaving_bijection` — the same, stated for explicit per-actor programs;
* `okSym_sound` — the history checker run on recorded concurrent executions certifies exactly that;
  `model_histories_ok` — every behaviour of the atomic model passes it (so a recorded history that
  fails `okSym` is not a behaviour of the atomic model: the locking discipline is broken).
That the Go methods *are* atomic is not proved: it is tested (stress runs, race detector).
-/
namespace Elk.C26
open Elk.Symtab

/-- the bijection invariant holds after every schedule -/
theorem inv_reachable (sched : List (Nat × Op)) : Inv (runSched Tab.init sched).1 :=
  inv_sched sched Tab.init inv_init

/-- `Add` is idempotent: interning again returns the same symbol and changes nothing -/
theorem add_idempotent (t : Tab) (name : String) :
    add (add t name).1 name = ((add t name).1, (add t name).2) := by
  have h := add_lookup t name
  generalize add t name = r at h ⊢
  obtain ⟨t', i⟩ := r
  simp only at h ⊢
  simp [add, h]

/-- all `(name, id)` answers of a history agree: same name ⇔ same id -/
theorem history_agrees (sched : List (Nat × Op)) (p q : String × Nat)
    (hp : p ∈ pairsOf (runSched Tab.init sched).2) (hq : q ∈ pairsOf (runSched Tab.init sched).2) :
    p.1 = q.1 ↔ p.2 = q.2 :=
  agree_of_table _ (inv_reachable sched) p q
    (pairs_in_final sched Tab.init inv_init p.1 p.2 hp) (pairs_in_final sched Tab.init inv_init q.1 q.2 hq)

theorem add_event_pair {evs : List Event} {a : Nat} {n : String} {i : Nat}
    (h : (⟨a, .add n, .id i⟩ : Event) ∈ evs) : (n, i) ∈ pairsOf evs := by
  induction evs with
  | nil => cases h
  | cons e rest ih =>
    rw [pairsOf_cons, List.mem_append]
    rcases List.mem_cons.mp h with rfl | h
    · left; simp [pairsOf]
    · right; exact ih h

/-- **Same name, same symbol** — under any interleaving, by any actors -/
theorem same_name_same_symbol (sched : List (Nat × Op)) (a b : Nat) (n : String) (i j : Nat)
    (h1 : (⟨a, .add n, .id i⟩ : Event) ∈ (runSched Tab.init sched).2)
    (h2 : (⟨b, .add n, .id j⟩ : Event) ∈ (runSched Tab.init sched).2) : i = j :=
  (history_agrees sched (n, i) (n, j) (add_event_pair h1) (add_event_pair h2)).mp rfl

/-- **Distinct names, distinct symbols** -/
theorem distinct_names_distinct_symbols (sched : List (Nat × Op)) (a b : Nat) (n m : String) (i j : Nat)
    (h1 : (⟨a, .add n, .id i⟩ : Event) ∈ (runSched Tab.init sched).2)
    (h2 : (⟨b, .add m, .id j⟩ : Event) ∈ (runSched Tab.init sched).2) (hne : n ≠ m) : i ≠ j :=
  fun e => hne ((history_agrees sched (n, i) (m, j) (add_event_pair h1) (add_event_pair h2)).mpr e)

/-- **Every symbol's name can be recovered**: at the end of the schedule and after any continuation -/
theorem name_recoverable (sched more : List (Nat × Op)) (a : Nat) (n : String) (i : Nat)
    (h : (⟨a, .add n, .id i⟩ : Event) ∈ (runSched Tab.init sched).2) :
    getName (runSched (runSched Tab.init sched).1 more).1 i = some n ∧
    existsId (runSched (runSched Tab.init sched).1 more).1 i = true := by
  have hl := pairs_in_final sched Tab.init inv_init n i (add_event_pair h)
  have hl' := lookup_sched_stable more _ n i hl
  have hinv := inv_sched more _ (inv_reachable sched)
  have hid := hinv.nameToId n i hl'
  have hlt := lt_of_getElem? hid
  constructor
  · unfold getName
    have : ¬ ((i : Int) ≥ (runSched (runSched Tab.init sched).1 more).1.idTable.length ∨ (i : Int) < 0) := by omega
    simp only [this, if_false, Int.toNat_natCast]; exact hid
  · simp [existsId]; omega

/-- `sched` is an interleaving of the per-actor programs `progs` -/
def Interleaves (progs : Nat → List Op) (sched : List (Nat × Op)) : Prop :=
  ∀ a, (sched.filter (fun x => x.1 == a)).map (·.2) = progs a

/-- the bijection statement for explicit programs: whatever the actors run and however their atomic
steps interleave, names and ids handed out correspond one to one -/
theorem interleaving_bijection (progs : Nat → List Op) (sched : List (Nat × Op)) (_h : Interleaves progs sched)
    (a b : Nat) (n m : String) (i j : Nat)
    (h1 : (⟨a, .add n, .id i⟩ : Event) ∈ (runSched Tab.init sched).2)
    (h2 : (⟨b, .add m, .id j⟩ : Event) ∈ (runSched Tab.init sched).2) : (n = m ↔ i = j) :=
  history_agrees sched (n, i) (m, j) (add_event_pair h1) (add_event_pair h2)

/-- **Soundness of the history checker**: a recorded history accepted by `okSym` has pairwise
consistent `(name, id)` answers — same name ⇔ same id — over all its `Add`, `Get` and `GetName` results. -/
theorem okSym_sound (h : List Event) (hok : okSym h = true) (p q : String × Nat)
    (hp : p ∈ pairsOf h) (hq : q ∈ pairsOf h) : p.1 = q.1 ↔ p.2 = q.2 := by
  simp only [okSym, Bool.and_eq_true] at hok
  exact (pairwiseOk_iff _).mp hok.1.2 p hp q hq

/-- **Every behaviour of the atomic model is accepted** (the checker rejects only what no
interleaving of atomic operations can produce) -/
theorem model_histories_ok (sched : List (Nat × Op)) : okSym (runSched Tab.init sched).2 = true := by
  simp only [okSym, Bool.and_eq_true]
  refine ⟨⟨shapeOk_sched sched _, ?_⟩, laterOk_sched sched _ inv_init⟩
  rw [pairwiseOk_iff]
  intro p hp q hq
  exact history_agrees sched p q hp hq

/-- non-vacuity: two actors interning overlapping names; and a history the checker rejects -/
example :
    (runSched Tab.init [(0, .add "a"), (1, .add "b"), (1, .add "a"), (0, .getName 1), (0, .get "c")]).2 =
      [⟨0, .add "a", .id 0⟩, ⟨1, .add "b", .id 1⟩, ⟨1, .add "a", .id 0⟩, ⟨0, .getName 1, .name "b"⟩,
       ⟨0, .get "c", .notFound⟩] := by decide
example : okSym [⟨0, .add "a", .id 0⟩, ⟨1, .add "a", .id 1⟩] = false := by decide
example : okSym [⟨0, .add "a", .id 0⟩, ⟨1, .add "b", .id 0⟩] = false := by decide
example : okSym [⟨0, .add "a", .id 3⟩, ⟨0, .getName 3, .notFound⟩] = false := by decide
example : Interleaves (fun a => if a = 0 then [.add "a"] else if a = 1 then [.add "b", .add "a"] else [])
    [(0, .add "a"), (1, .add "b"), (1, .add "a")] := by
  intro a
  by_cases h0 : a = 0
  · subst h0; decide
  · by_cases h1 : a = 1
    · subst h1; decide
    · have e0 : ((0 : Nat) == a) = false := by simp; omega
      have e1 : ((1 : Nat) == a) = false := by simp; omega
      simp [List.filter, e0, e1, h0, h1]

end Elk.C26
