import ElkVerif.Model.Str
import ElkVerif.Proofs.Utf8
/-!
# C20 — String operations agree with code-point, byte and grapheme models
-/
namespace Elk.C20
open Elk.Str Elk.Utf8

/-- `byte_count` is the number of elements of the byte iterator -/
theorem byte_count_eq (s : Bytes) : byteCount s = (byteIter s).length := rfl

/-- `length` is the number of elements of the char iterator — for every byte string -/
theorem length_eq_chars (s : Bytes) : charCount s = (charIter s).length := by
  simp [charCount, charIter, runes, runeCount]

end Elk.C20
