import ElkVerif.Proofs.Str
import ElkVerif.Proofs.LastRune
import ElkVerif.Proofs.Sync
/-!
# C20 — String operations agree with code-point, byte and grapheme models

Strings are arbitrary byte lists (`Bytes`), valid UTF-8 or not. `Elk.Str.*` mirrors
`value/string.go` as reached through the native methods of `vm/string.go`; `Elk.Utf8.*` mirrors
Go's `unicode/utf8`. `charIter`/`byteIter` are the element lists of the char / byte iterators.
Grapheme segmentation (`uniseg`) and case mapping (`unicode.ToUpper/ToLower`) are parameters.
-/
namespace Elk.C20
open Elk.Str Elk.Utf8

/-! ## counts = iterator lengths -/

/-- `byte_count` is the number of elements of the byte iterator -/
theorem byte_count_eq (s : Bytes) : byteCount s = (byteIter s).length := rfl

/-- `length` is the number of elements of the char iterator — for every byte string -/
theorem length_eq_chars (s : Bytes) : charCount s = (charIter s).length := by
  simp [charCount, charIter, runes, runeCount]

/-- a grapheme segmenter (uniseg): any function cutting a string into non-empty clusters -/
structure Segmenter where
  seg : Bytes → List Bytes
  concat_eq : ∀ s, (seg s).flatten = s
  nonempty : ∀ s, ∀ g ∈ seg s, g ≠ []

/-- `grapheme_count` (= `uniseg.GraphemeClusterCount`) -/
def graphemeCount (S : Segmenter) (s : Bytes) : Nat := (S.seg s).length
/-- elements of the grapheme iterator (`FirstGraphemeClusterInString` loop) -/
def graphemeIter (S : Segmenter) (s : Bytes) : List Bytes := S.seg s

/-- parametric in the segmenter: the count is the iterator's length, the clusters tile the string -/
theorem grapheme_count_eq (S : Segmenter) (s : Bytes) :
    graphemeCount S s = (graphemeIter S s).length ∧ (graphemeIter S s).flatten = s :=
  ⟨rfl, S.concat_eq s⟩

/-! ## indexed access -/

/-- **char_at**, both directions: the answer is `ok c` exactly when `-n ≤ i < n` and `c` is
element `i mod n` of the indexed view (`n = length`), … -/
theorem char_at_spec (s : Bytes) (i : Int) (c : Nat) :
    get s i = .ok c ↔
      (-(charCount s : Int) ≤ i ∧ i < charCount s ∧ (getView s)[(i % (charCount s : Int)).toNat]? = some c) := by
  rw [get_eq]
  have hlen := getView_length s.length s rfl
  cases hk : normIdx i (charCount s) with
  | none =>
    have := (normIdx_none i (charCount s)).mp hk
    constructor
    · intro h; cases h
    · intro ⟨a, b, _⟩; exact absurd ⟨a, b⟩ this
  | some k =>
    obtain ⟨a, b, e⟩ := (normIdx_spec i (charCount s) k).mp hk
    have hk' : (i % (charCount s : Int)).toNat = k := by omega
    rw [hk']
    have hlt := normIdx_lt _ _ _ hk
    have hsome : (getView s)[k]? = some ((getView s)[k]'(by omega)) := List.getElem?_eq_getElem (by omega)
    simp only [hsome]
    constructor
    · intro h; injection h with h; exact ⟨a, b, by rw [h]⟩
    · intro ⟨_, _, h⟩; injection h with h; rw [h]

/-- … and an index error otherwise; `char_at` never panics. -/
theorem char_at_error (s : Bytes) (i : Int) :
    get s i = .err .index ↔ ¬ (-(charCount s : Int) ≤ i ∧ i < charCount s) := by
  rw [get_eq]
  have hlen := getView_length s.length s rfl
  cases hk : normIdx i (charCount s) with
  | none => simp [(normIdx_none i (charCount s)).mp hk]
  | some k =>
    obtain ⟨a, b, _⟩ := (normIdx_spec i (charCount s) k).mp hk
    have hlt := normIdx_lt _ _ _ hk
    have hsome : (getView s)[k]? = some ((getView s)[k]'(by omega)) := List.getElem?_eq_getElem (by omega)
    simp only [hsome]
    constructor
    · intro h; cases h
    · intro h; exact absurd ⟨a, b⟩ h

/-- the integer *kind* of the index (Int, i8…i64, u8…u64, uint) is irrelevant: only its value counts
(strings are shorter than 2^63 bytes) -/
theorem char_at_kind_independent (s : Bytes) (hs : (s.length : Int) < two63) (k : IKind) (v : Int) :
    charAt s k v = get s v := by
  unfold charAt
  cases h : toGoInt k v with
  | some i => rw [toGoInt_some k v i h]
  | none =>
    have hv := toGoInt_none k v h
    have hle := charCount_le s
    symm
    rw [char_at_error]
    simp only [two63] at *
    omega

/-- on valid UTF-8 the indexed view *is* the char iterator -/
theorem char_at_view_valid (s : Bytes) (h : valid s = true) : getView s = charIter s :=
  getView_valid s.length s rfl h

/-- Full-strength statement of the property for `char_at`: it returns the corresponding element of
the char iterator. It does **not** hold of the code: … -/
def CharAtAgreesWithIterator : Prop :=
  ∀ (s : Bytes) (i : Int) (c : Nat), get s i = .ok c →
    (charIter s)[(i % (charCount s : Int)).toNat]? = some c

/-- … an invalid byte is returned as `Char(byte)` while the iterator yields U+FFFD
(pinned by `value/string_test.go: TestString_Subscript`; known finding C20-char-at-invalid-byte). -/
theorem char_at_invalid_byte_witness : ¬ CharAtAgreesWithIterator := by
  intro h
  have h1 : get [0x80] 0 = .ok 0x80 := by
    simp [Elk.Str.get, getLoop, decodeRune, runeError]
  have := h [0x80] 0 0x80 h1
  simp [charIter, runes, pieces, decodeRune, charCount, runeCount, runeError] at this

/-- the property holds for every valid UTF-8 string -/
theorem char_at_agrees_partial (s : Bytes) (hv : valid s = true) (i : Int) (c : Nat) (h : get s i = .ok c) :
    (charIter s)[(i % (charCount s : Int)).toNat]? = some c := by
  rw [← char_at_view_valid s hv]
  exact ((char_at_spec s i c).mp h).2.2

example : valid [0xC3, 0xA9, 0x41] = true := by
  simp [valid, pieces, decodeRune, isCont, runeError]

/-- **byte_at**, both directions, for every byte string -/
theorem byte_at_spec (s : Bytes) (i : Int) (b : UInt8) :
    byteAtInt s i = .ok b ↔
      (-(s.length : Int) ≤ i ∧ i < s.length ∧ s[(i % (s.length : Int)).toNat]? = some b) := by
  rw [byteAtInt_eq]
  cases hk : normIdx i s.length with
  | none =>
    have := (normIdx_none i s.length).mp hk
    constructor
    · intro h; cases h
    · intro ⟨a, c, _⟩; exact absurd ⟨a, c⟩ this
  | some k =>
    obtain ⟨a, c, e⟩ := (normIdx_spec i s.length k).mp hk
    have hk' : (i % (s.length : Int)).toNat = k := by omega
    rw [hk']
    have hlt := normIdx_lt _ _ _ hk
    have hsome : s[k]? = some (s[k]'hlt) := List.getElem?_eq_getElem hlt
    simp only [hsome]
    constructor
    · intro h; injection h with h; exact ⟨a, c, by rw [h]⟩
    · intro ⟨_, _, h⟩; injection h with h; rw [h]

theorem byte_at_error (s : Bytes) (i : Int) :
    byteAtInt s i = .err .index ↔ ¬ (-(s.length : Int) ≤ i ∧ i < s.length) := by
  rw [byteAtInt_eq]
  cases hk : normIdx i s.length with
  | none => simp [(normIdx_none i s.length).mp hk]
  | some k =>
    obtain ⟨a, c, _⟩ := (normIdx_spec i s.length k).mp hk
    have hlt := normIdx_lt _ _ _ hk
    have hsome : s[k]? = some (s[k]'hlt) := List.getElem?_eq_getElem hlt
    simp only [hsome]
    constructor
    · intro h; cases h
    · intro h; exact absurd ⟨a, c⟩ h

/-- **grapheme_at** over any segmentation -/
theorem grapheme_at_spec (segs : List Bytes) (i : Int) (g : Bytes) :
    graphemeAtInt segs i = .ok g ↔
      (-(segs.length : Int) ≤ i ∧ i < segs.length ∧ segs[(i % (segs.length : Int)).toNat]? = some g) := by
  unfold graphemeAtInt
  by_cases hneg : i < 0
  · simp only [hneg, if_true]
    by_cases h2 : (segs.length : Int) + i < 0
    · simp only [h2, if_true]
      constructor
      · intro h; cases h
      · intro ⟨a, _, _⟩; omega
    · simp only [h2, if_false]
      have hm : i % (segs.length : Int) = i + segs.length := by
        have h3 : (i + segs.length) % (segs.length : Int) = i + segs.length := Int.emod_eq_of_lt (by omega) (by omega)
        rw [← h3, Int.add_emod_right]
      rw [hm, Int.add_comm]
      cases hg : segs[(i + (segs.length : Int)).toNat]? with
      | none => simp
      | some x => simp; exact ⟨fun h => ⟨by omega, by omega, h⟩, fun h => h.2.2⟩
  · simp only [hneg, if_false]
    by_cases h1 : i < segs.length
    · have hm : i % (segs.length : Int) = i := Int.emod_eq_of_lt (by omega) h1
      rw [hm]
      cases hg : segs[i.toNat]? with
      | none => simp
      | some x => simp; exact ⟨fun h => ⟨by omega, by omega, h⟩, fun h => h.2.2⟩
    · have : segs[i.toNat]? = none := by apply List.getElem?_eq_none; omega
      rw [this]
      constructor
      · intro h; cases h
      · intro ⟨_, b, _⟩; omega

/-! ## padding -/

/-- **rjust** at its documented character-level definition: pad on the left with
`max 0 (n − length s)` copies of the padding char … -/
theorem rjust_spec (s : Bytes) (n : Int) (c : Int) :
    rjust s n c = (List.replicate (n - charCount s).toNat (encodeRuneInt c)).flatten ++ s := by
  unfold rjust
  split
  · rename_i h
    have : (n - charCount s).toNat = 0 := by omega
    simp [this]
  · rfl

theorem ljust_spec (s : Bytes) (n : Int) (c : Int) :
    ljust s n c = s ++ (List.replicate (n - charCount s).toNat (encodeRuneInt c)).flatten := by
  unfold ljust
  split
  · rename_i h
    have : (n - charCount s).toNat = 0 := by omega
    simp [this]
  · rfl

/-- … so that the result has `max n (length s)` characters, for every string (valid or not) and
every padding rune (an invalid one is written as U+FFFD, still one character). -/
theorem rjust_length (s : Bytes) (n : Int) (c : Int) :
    (charCount (rjust s n c) : Int) = max n (charCount s) := by
  rw [rjust_spec, charCount_pad]
  omega

/-- `ljust`: the result has `max n (length s)` characters — for every string, valid or not (UTF-8 is
self-synchronising: padding appended after a truncated sequence cannot complete it) -/
theorem ljust_length (s : Bytes) (n : Int) (c : Int) :
    (charCount (ljust s n c) : Int) = max n (charCount s) := by
  rw [ljust_spec, charCount_pad_right]
  omega

/-- lengths also add for an arbitrary (even invalid) left operand when the right operand starts at a
rune start (is empty or begins with a non-continuation byte — in particular when it is valid UTF-8) -/
theorem length_add_start (a b : Bytes) (hb : StartsAtRune b) : charCount (a ++ b) = charCount a + charCount b :=
  charCount_append_start a b hb

theorem chars_concat_start (a b : Bytes) (hb : StartsAtRune b) : charIter (a ++ b) = charIter a ++ charIter b :=
  charIter_append_start a b hb

/-- `s + c` for a Char always adds exactly one character -/
theorem length_add_char (s : Bytes) (c : Int) : charCount (s ++ encodeRuneInt c) = charCount s + 1 := by
  have := charCount_pad_right 1 c s
  simpa using this

/-- the unchanged tree measured the string in bytes: `"é".rjust(3, '-')` had 2 characters -/
theorem rjust_old_witness :
    rjustOld [0xC3, 0xA9] 3 0x2D = [0x2D, 0xC3, 0xA9] ∧ charCount (rjustOld [0xC3, 0xA9] 3 0x2D) = 2 := by
  have h : rjustOld [0xC3, 0xA9] 3 0x2D = [0x2D, 0xC3, 0xA9] := by
    simp [rjustOld, encodeRuneInt, encodeRune, byte, List.replicate]
  refine ⟨h, ?_⟩
  rw [h]
  simp [charCount, runeCount, pieces, decodeRune, isCont]

/-! ## `+`, `*`, `-` -/

/-- `+` appends the bytes of a String, or the UTF-8 encoding of a Char; anything else is a TypeError -/
theorem concat_spec (s : Bytes) :
    (∀ o, concat s (.str o) = .ok (s ++ o)) ∧ (∀ c, concat s (.chr c) = .ok (s ++ encodeRuneInt c)) ∧
      concat s .other = .err .type := ⟨fun _ => rfl, fun _ => rfl, rfl⟩

/-- lengths add at valid boundaries: `(a + b).length = a.length + b.length` when `a` is valid UTF-8 -/
theorem length_add (a b : Bytes) (h : valid a = true) : charCount (a ++ b) = charCount a + charCount b :=
  charCount_append_valid a b h

/-- the decoder is a monoid morphism at valid boundaries -/
theorem chars_concat (a b : Bytes) (h : valid a = true) : charIter (a ++ b) = charIter a ++ charIter b :=
  charIter_append_valid a b h

/-- the caveat is real: an invalid (truncated) left operand can merge with the right operand -/
theorem length_add_invalid_witness :
    charCount ([0xC3] ++ [0xA9]) = 1 ∧ charCount [0xC3] + charCount [0xA9] = 2 := by
  simp [charCount, runeCount, pieces, decodeRune, isCont]

/-- **`*`**: `n` copies for `0 ≤ n` when the result length fits an `int`; OutOfRangeError for a
negative count, a BigInt count, or an overflowing length — never a panic. -/
theorem repeat_spec (s : Bytes) (n : Int) :
    (0 ≤ n ∧ n < two63 ∧ (s.length : Int) * n ≤ maxInt → repeatStr s n = .ok (List.replicate n.toNat s).flatten) ∧
    (n < 0 ∨ two63 ≤ n ∨ (s.length : Int) * n > maxInt → repeatStr s n = .err .outOfRange) := by
  unfold repeatStr
  constructor
  · intro ⟨h0, h1, h2⟩
    have a : ¬ ¬ (-two63 ≤ n ∧ n < two63) := by simp only [two63] at *; omega
    have b : ¬ n < 0 := by omega
    have c : ¬ (s.length : Int) * n > maxInt := by omega
    simp only [a, b, c, if_false]
    split
    · rename_i hs; subst hs; simp [flatten_replicate_nil]
    · rfl
  · intro h
    by_cases a : ¬ (-two63 ≤ n ∧ n < two63)
    · rw [if_pos a]
    · rw [if_neg a]
      by_cases b : n < 0
      · simp only [b, if_true]
      · have c : (s.length : Int) * n > maxInt := by simp only [two63] at *; omega
        simp only [b, if_false, c, if_true]

/-- the unchanged tree let `strings.Repeat` panic on an overflowing result length -/
theorem repeat_old_witness : repeatStrOld [0x61, 0x62] 4611686018427387904 = .panic := by
  simp [repeatStrOld, two63, maxInt]

/-- **`-` with a String**: removes the suffix if it is one, otherwise returns the string unchanged -/
theorem remove_suffix_string (t suf s : Bytes) :
    removeSuffix (t ++ suf) (.str suf) = .ok t ∧
    ((¬ ∃ t', s = t' ++ suf) → removeSuffix s (.str suf) = .ok s) :=
  ⟨by simp [removeSuffix, cutSuffix_append], fun h => by simp [removeSuffix, cutSuffix_not s suf h]⟩

/-- **`-` with a Char**: a string that ends with the char (its UTF-8 encoding) loses exactly that
char; if the last decoded rune (`DecodeLastRuneInString`) is another one the string is unchanged -/
theorem remove_suffix_char (t : Bytes) (c : Nat) (hv : ValidScalar c) :
    removeSuffix (t ++ encodeRune c) (.chr (c : Int)) = .ok t :=
  removeSuffix_char_append t c hv

theorem remove_suffix_char_other (s : Bytes) (c : Int) (h : ((decodeLastRune s).1 : Int) ≠ c) :
    removeSuffix s (.chr c) = .ok s :=
  removeSuffix_char_other s c h

/-- `DecodeLastRuneInString` finds the scalar value a string ends with (any prefix, valid or not) -/
theorem decode_last_rune (t : Bytes) (c : Nat) (hv : ValidScalar c) :
    decodeLastRune (t ++ encodeRune c) = (c, (encodeRune c).length) :=
  decodeLastRune_encode t c hv

/-! ## comparison is bytewise lexicographic -/

theorem cmp_is_bytewise_lex (a b : Bytes) :
    (cmp a b = -1 ↔ LexLt a b) ∧ (cmp a b = 0 ↔ a = b) ∧ (cmp a b = 1 ↔ LexLt b a) := by
  refine ⟨cmp_lt_iff a b, cmp_eq_iff a b, ?_⟩
  rw [← cmp_lt_iff b a, cmp_antisymm a b]
  omega

/-- `<=>` answers only -1, 0, 1, and `< <= > >=` are its sign tests -/
theorem cmp_total (a b : Bytes) : cmp a b = -1 ∨ cmp a b = 0 ∨ cmp a b = 1 := cmp_range a b

theorem lt_spec (s o : Bytes) : lt s (.str o) = .ok (decide (cmp s o < 0)) ∧ le s (.str o) = .ok (decide (cmp s o ≤ 0)) ∧
    gt s (.str o) = .ok (decide (cmp s o > 0)) ∧ ge s (.str o) = .ok (decide (cmp s o ≥ 0)) := by
  simp [lt, le, gt, ge, Elk.Str.compare]

/-! ## case mapping (parametric in the rune map) -/

/-- `uppercase`/`lowercase` map every element of the char iterator (an invalid byte counts as
U+FFFD) when the rune map sends scalar values to scalar values -/
theorem case_map_chars (f : Nat → Nat) (hf : ∀ r, ValidScalar r → ValidScalar (f r)) (s : Bytes)
    (hs : ∀ r ∈ charIter s, ValidScalar r) :
    charIter (mapStr f s) = (charIter s).map f := by
  have h := runes_flatten_encode ((charIter s).map f) (by
    intro r hr
    obtain ⟨x, hx, rfl⟩ := List.mem_map.mp hr
    exact hf x (hs x hx)) []
  simp only [List.append_nil, pieces_nil] at h
  simp only [mapStr, mapRunes, charIter, runes] at *
  have : List.map (fun p : Nat × Nat => encodeRune (f p.1)) (pieces s) =
      List.map encodeRune (List.map f (List.map (fun x => x.1) (pieces s))) := by
    simp [List.map_map, Function.comp_def]
  rw [this, h]
  simp [List.map_map, Function.comp_def]

/-! ## index conversion of the unchanged tree -/

/-- `byte_at(18446744073709551615u64)` used to wrap to index -1 -/
theorem toGoInt_old_witness : toGoIntOld .u64 18446744073709551615 = some (-1) ∧ toGoInt .u64 18446744073709551615 = none := by
  simp [toGoIntOld, toGoInt, two63, two64]

end Elk.C20
