import ElkVerif.Proofs.Chan
/-!
# C25 — Channels and sync primitives keep their contracts under any schedule

Model: `Model/Chan.lean` (wrapper logic of channels, select, Mutex, RWMutex, WaitGroup, Once as
state machines with their error cases as coded) and `Model/ChanHist.lean` (histories of concurrent
runs on the real wrappers and the executable checker `okHistory`).
"Any schedule" = any sequence of atomic steps of the model (`crun`, `mrun`, `rrun`, `wrun`): each
step is one completed call by some thread; the theorems quantify over all such sequences.
-/
namespace Elk.C25
open Elk.Chan

/-! ### channels -/

/-- **FIFO, exactly once.** For every capacity and every interleaving of pushes, pops, hand-offs,
closes and failing calls: what has been pushed (in order) is what has been delivered (in order)
followed by what is still buffered; the buffer never exceeds the capacity. -/
theorem chan_fifo_once (cap : Nat) (evs : List CEv) (s : CSys) (h : crun (cinit cap) evs = some s) :
    s.pushed = s.delivered ++ s.ch.buf ∧ s.ch.buf.length ≤ cap := by
  obtain ⟨⟨h1, h2⟩, hc⟩ := crun_inv evs (cinit cap) s (cinit_init_inv cap) h
  refine ⟨h1, ?_⟩
  have : s.ch.cap = cap := by simpa [cinit] using hc
  omega
where cinit_init_inv (cap : Nat) : CInv (cinit cap) := cinv_init cap

/-- delivered sequence = pushed sequence once the buffer is drained; before that it is a prefix -/
theorem chan_delivered_prefix (cap : Nat) (evs : List CEv) (s : CSys) (h : crun (cinit cap) evs = some s) :
    s.delivered <+: s.pushed ∧ (s.ch.buf = [] → s.delivered = s.pushed) := by
  obtain ⟨h1, _⟩ := chan_fifo_once cap evs s h
  refine ⟨⟨s.ch.buf, h1.symm⟩, fun hb => ?_⟩
  rw [h1, hb, List.append_nil]

/-- exactly once for unique tokens: nothing is delivered twice, nothing delivered was not pushed -/
theorem chan_exactly_once (cap : Nat) (evs : List CEv) (s : CSys) (h : crun (cinit cap) evs = some s)
    (hu : s.pushed.Nodup) : s.delivered.Nodup ∧ ∀ v, v ∈ s.delivered → v ∈ s.pushed ∧ v ∉ s.ch.buf := by
  obtain ⟨h1, _⟩ := chan_fifo_once cap evs s h
  rw [h1] at hu
  have hd := List.nodup_append.mp hu
  refine ⟨hd.1, fun v hv => ⟨by rw [h1]; exact List.mem_append_left _ hv, fun hb => ?_⟩⟩
  exact hd.2.2 v hv v hb rfl

/-- **Closed protocol, outcomes.** A closed channel rejects pushes and closes with the documented
errors, pops drain the buffer in order and then fail with the documented error; an open channel
never answers with an error. No wrapper call on any channel state is a Go panic or a fatal error. -/
theorem closed_protocol (c : Chan) (v : Nat) :
    (c.closed = true → (push c v) = (.errClosedPush, c) ∧ (close c) = (.errClosedClose, c) ∧
        (∀ x rest, c.buf = x :: rest → pop c = (.val x, { c with buf := rest })) ∧
        (c.buf = [] → pop c = (.errClosedPop, c))) ∧
    (c.closed = false → (push c v).1 ≠ .errClosedPush ∧ (pop c).1 ≠ .errClosedPop ∧ (close c).1 = .ok) ∧
    ((push c v).1 ≠ .panic ∧ (push c v).1 ≠ .fatal ∧ (pop c).1 ≠ .panic ∧ (pop c).1 ≠ .fatal ∧
     (close c).1 ≠ .panic ∧ (close c).1 ≠ .fatal) := by
  refine ⟨fun hc => ⟨by simp [push, hc], by simp [close, hc], fun x rest hb => by simp [pop, hb],
      fun hb => by simp [pop, hb, hc]⟩, fun hc => ⟨?_, ?_, by simp [close, hc]⟩, ?_⟩
  · simp only [push, hc, Bool.false_eq_true, if_false]; split <;> simp
  · simp only [pop]; split <;> simp [hc]
  · refine ⟨?_, ?_, ?_, ?_, ?_, ?_⟩ <;> simp only [push, pop, close] <;> (repeat' split) <;> simp

/-- **Closed protocol, histories.** Under any schedule, once a channel is closed it stays closed,
nothing more gets pushed, and the buffer is only consumed from the front. -/
theorem closed_is_final (s s' : CSys) (e : CEv) (hc : s.ch.closed = true) (h : cstep s e = some s') :
    s'.ch.closed = true ∧ s'.pushed = s.pushed ∧ ∃ k, s'.ch.buf = s.ch.buf.drop k :=
  cstep_closed hc h

/-! ### select -/

/-- **`select` takes only ready cases**: the chosen case can complete without blocking in the
current channel states, and `else` is chosen only when no other case is ready. -/
theorem select_ready_only (chans : Nat → Chan) (cases : List SelCase) (i : Nat) (o : Out)
    (h : selectOutcome chans cases i = some o) :
    (∃ c, cases[i]? = some c ∧ (caseReady chans c = true ∨ (c = .dflt ∧ cases.any (caseReady chans) = false))) := by
  unfold selectOutcome at h
  split at h
  · cases h
  · rename_i hc
    refine ⟨_, hc, Or.inr ⟨rfl, ?_⟩⟩
    split at h
    · cases h
    · rename_i hn; simpa using hn
  · rename_i ch hc
    refine ⟨_, hc, Or.inl ?_⟩
    simp only [caseReady]
    cases hp : pop (chans ch) with
    | mk o' c' =>
      simp only [hp] at h
      cases o' <;> simp_all <;> (subst h; simp)
  · rename_i ch v hc
    refine ⟨_, hc, Or.inl ?_⟩
    simp only [caseReady]
    cases hp : push (chans ch) v with
    | mk o' c' =>
      simp only [hp] at h
      cases o' <;> simp_all <;> (subst h; simp)

/-- **`select` behaves like the chosen channel operation**, closed channels included: the outcome of the
chosen case is the outcome of the plain `pop` / `push` on that channel — a value, `ok`, or the
documented closed-channel error of that direction; never a crash. -/
theorem select_is_channel_op (chans : Nat → Chan) (cases : List SelCase) (i : Nat) (o : Out)
    (h : selectOutcome chans cases i = some o) :
    o ≠ .panic ∧ o ≠ .fatal ∧
    (∀ ch, cases[i]? = some (.recv ch) → o = (pop (chans ch)).1) ∧
    (∀ ch v, cases[i]? = some (.send ch v) → o = (push (chans ch) v).1) := by
  unfold selectOutcome at h
  split at h
  · cases h
  · split at h
    · cases h
    · simp only [Option.some.injEq] at h; subst h
      rename_i hc _
      refine ⟨by simp, by simp, fun ch hr => ?_, fun ch v hr => ?_⟩ <;> simp [hc] at hr
  · rename_i ch hc
    cases hp : pop (chans ch) with
    | mk o' c' =>
      simp only [hp] at h
      have key : o = o' ∧ o ≠ .panic ∧ o ≠ .fatal := by
        cases o' <;> simp_all <;> (subst h; simp)
      refine ⟨key.2.1, key.2.2, fun ch' hr => ?_, fun ch' v hr => ?_⟩
      · simp only [hc, Option.some.injEq, SelCase.recv.injEq] at hr; subst hr; rw [hp]; exact key.1
      · simp [hc] at hr
  · rename_i ch v hc
    cases hp : push (chans ch) v with
    | mk o' c' =>
      simp only [hp] at h
      have key : o = o' ∧ o ≠ .panic ∧ o ≠ .fatal := by
        cases o' <;> simp_all <;> (subst h; simp)
      refine ⟨key.2.1, key.2.2, fun ch' hr => ?_, fun ch' v' hr => ?_⟩
      · simp [hc] at hr
      · simp only [hc, Option.some.injEq, SelCase.send.injEq] at hr
        obtain ⟨rfl, rfl⟩ := hr
        rw [hp]; exact key.1

/-- before the fixes: a send case on a closed channel crashed, a receive case reported the push error -/
theorem select_closed_was_wrong :
    selectOutcomeBeforeFix (fun _ => { closed := true }) [.send 0 5] 0 = some .panic ∧
    selectOutcomeBeforeFix (fun _ => { closed := true }) [.recv 0] 0 = some .errClosedPush := by decide

/-! ### Mutex and RWMutex -/

/-- **Mutual exclusion** under any schedule of well-behaved threads (a thread unlocks only what it
locked): at most one thread is between its `lock` and `unlock`, and the mutex is locked exactly then. -/
theorem mutex_excl (evs : List MEv) (s : MSys) (h : mrun {} evs = some s) :
    s.inside.length ≤ 1 ∧ (s.m.locked = true ↔ s.inside.length = 1) := by
  have key : ∀ (evs : List MEv) (s0 s : MSys), (s0.inside.length = if s0.m.locked then 1 else 0) →
      mrun s0 evs = some s → (s.inside.length = if s.m.locked then 1 else 0) := by
    intro evs
    induction evs with
    | nil => intro s0 s h0 h; simp [mrun] at h; subst h; exact h0
    | cons e es ih =>
      intro s0 s h0 h
      simp only [mrun] at h
      cases hs : mstep s0 e with
      | none => simp [hs] at h
      | some s1 =>
        simp only [hs] at h
        refine ih s1 s ?_ h
        cases e with
        | lock a =>
          simp only [mstep, Mutex.lock] at hs
          by_cases hl : s0.m.locked = true
          · simp [hl] at hs
          · simp only [hl, Bool.false_eq_true, if_false, Option.some.injEq] at hs; subst hs
            simp [hl] at h0 ⊢; exact h0
        | unlock a =>
          simp only [mstep, Mutex.unlock] at hs
          by_cases hm : a ∈ s0.inside
          · by_cases hl : s0.m.locked = true
            · simp only [hm, hl, if_true, Option.some.injEq] at hs; subst hs
              simp only [hl, if_true] at h0
              simp [List.length_erase_of_mem hm, h0]
            · simp [hm, hl] at hs
          · simp [hm] at hs
  have := key evs {} s (by simp) h
  rw [this]; split <;> simp_all

/-- **Unlocking a mutex that is not held raises the documented error** (no crash, state unchanged) -/
theorem unlock_unlocked_is_error (m : Mutex) (h : m.locked = false) :
    m.unlock = (.errUnlocked, m) := by simp [Mutex.unlock, h]

theorem rw_unlock_unlocked_is_error (m : RW) :
    (m.writer = false → m.unlock = (.errUnlocked, m)) ∧ (m.readers = 0 → m.runlock = (.errUnlocked, m)) := by
  constructor <;> intro h <;> simp [RW.unlock, RW.runlock, h]

/-- what the code did before the fix: the process died -/
theorem unlock_unlocked_was_fatal : (Mutex.unlockBeforeFix {}).1 = .fatal := by decide

/-- no Mutex/RWMutex call is a Go panic or a fatal error in any state -/
theorem mutex_calls_never_crash (m : Mutex) (r : RW) :
    m.lock.1 ≠ .fatal ∧ m.unlock.1 ≠ .fatal ∧ m.lock.1 ≠ .panic ∧ m.unlock.1 ≠ .panic ∧
    r.lock.1 ≠ .fatal ∧ r.rlock.1 ≠ .fatal ∧ r.unlock.1 ≠ .fatal ∧ r.runlock.1 ≠ .fatal ∧
    r.lock.1 ≠ .panic ∧ r.rlock.1 ≠ .panic ∧ r.unlock.1 ≠ .panic ∧ r.runlock.1 ≠ .panic := by
  refine ⟨?_, ?_, ?_, ?_, ?_, ?_, ?_, ?_, ?_, ?_, ?_, ?_⟩ <;>
    simp only [Mutex.lock, Mutex.unlock, RW.lock, RW.rlock, RW.unlock, RW.runlock] <;> split <;> simp

/-- **RWMutex exclusion** under any schedule of well-behaved threads: at most one writer, and never a
writer together with a reader -/
theorem rw_excl (evs : List REv) (s : RSys) (h : rrun {} evs = some s) :
    s.writers.length ≤ 1 ∧ (s.writers.length = 1 → s.readers = []) ∧
    s.readers.length = s.m.readers ∧ (s.m.writer = true ↔ s.writers.length = 1) := by
  have key : ∀ (evs : List REv) (s0 s : RSys),
      (s0.writers.length = (if s0.m.writer then 1 else 0) ∧ s0.readers.length = s0.m.readers ∧
        (s0.m.writer = true → s0.m.readers = 0)) →
      rrun s0 evs = some s →
      (s.writers.length = (if s.m.writer then 1 else 0) ∧ s.readers.length = s.m.readers ∧
        (s.m.writer = true → s.m.readers = 0)) := by
    intro evs
    induction evs with
    | nil => intro s0 s h0 h; simp [rrun] at h; subst h; exact h0
    | cons e es ih =>
      intro s0 s h0 h
      simp only [rrun] at h
      cases hs : rstep s0 e with
      | none => simp [hs] at h
      | some s1 =>
        simp only [hs] at h
        refine ih s1 s ?_ h
        obtain ⟨hw, hr, hx⟩ := h0
        cases e with
        | lock a =>
          simp only [rstep, RW.lock] at hs
          split at hs <;> try contradiction
          rename_i m' heq
          split at heq
          · simp at heq
          · rename_i hc
            simp only [Prod.mk.injEq, true_and] at heq; subst heq
            simp only [Option.some.injEq] at hs; subst hs
            simp only [Bool.or_eq_true, bne_iff_ne, ne_eq, not_or, Bool.not_eq_true, Decidable.not_not] at hc
            simp [hc.1] at hw
            simp [hw, hr, hc.2]
        | rlock a =>
          simp only [rstep, RW.rlock] at hs
          split at hs <;> try contradiction
          rename_i m' heq
          split at heq
          · simp at heq
          · rename_i hc
            simp only [Prod.mk.injEq, true_and] at heq; subst heq
            simp only [Option.some.injEq] at hs; subst hs
            simp only [Bool.not_eq_true] at hc
            simp [hc] at hw ⊢
            exact ⟨hw, hr⟩
        | unlock a =>
          simp only [rstep, RW.unlock] at hs
          split at hs <;> try contradiction
          rename_i hm
          split at hs <;> try contradiction
          rename_i m' heq
          split at heq
          · rename_i hc
            simp only [Prod.mk.injEq, true_and] at heq; subst heq
            simp only [Option.some.injEq] at hs; subst hs
            simp only [hc, if_true] at hw
            simp [List.length_erase_of_mem hm, hw, hr]
          · simp at heq
        | runlock a =>
          simp only [rstep, RW.runlock] at hs
          split at hs <;> try contradiction
          rename_i hm
          split at hs <;> try contradiction
          rename_i m' heq
          split at heq
          · rename_i hc
            simp only [Prod.mk.injEq, true_and] at heq; subst heq
            simp only [Option.some.injEq] at hs; subst hs
            simp only [bne_iff_ne, ne_eq] at hc
            refine ⟨hw, ?_, fun hwr => ?_⟩
            · simp [List.length_erase_of_mem hm, hr]
            · have h0 := hx (by simpa using hwr)
              exact absurd h0 hc
          · simp at heq
  obtain ⟨hw, hr, hx⟩ := key evs {} s (by simp) h
  refine ⟨?_, ?_, hr, ?_⟩
  · rw [hw]; split <;> omega
  · intro h1
    have : s.m.writer = true := by
      by_cases hwt : s.m.writer = true
      · exact hwt
      · simp only [hwt, Bool.false_eq_true, if_false] at hw; rw [hw] at h1; cases h1
    have := hx this
    rw [this] at hr
    exact List.eq_nil_of_length_eq_zero hr
  · rw [hw]; split <;> simp_all

/-! ### Once and WaitGroup -/

/-- **Once runs its body once**: after `n` calls (any number, any threads — each call is atomic in
`sync.Once`) the body ran `min n 1` times -/
theorem once_once (n : Nat) : (orun {} n).runs = min n 1 ∧ ((orun {} n).done = true ↔ 0 < n) := by
  have key : ∀ n (o : Once), o.done = true → (orun o n).runs = o.runs ∧ (orun o n).done = true := by
    intro n
    induction n with
    | zero => intro o h; exact ⟨rfl, h⟩
    | succ k ih => intro o h; simp only [orun, Once.call, h, if_true]; exact ih o h
  cases n with
  | zero => simp [orun]
  | succ k =>
    have := key k (Once.call {}).2 (by simp [Once.call])
    simp only [orun]
    refine ⟨?_, by simp [this.2]⟩
    rw [this.1]; simp [Once.call]

/-- **WaitGroup counts**: after any accepted sequence of `add`/`remove` calls the counter is the net
sum, it is never negative, and `wait` can return exactly when it is zero -/
theorem wg_counts (evs : List WEv) (w : WG) (h : wrun {} evs = some w) :
    w.n = wnet evs ∧ 0 ≤ w.n ∧ ((w.wait).1 = .ok ↔ w.n = 0) := by
  have key : ∀ (evs : List WEv) (w0 w : WG), 0 ≤ w0.n → wrun w0 evs = some w → w.n = w0.n + wnet evs ∧ 0 ≤ w.n := by
    intro evs
    induction evs with
    | nil => intro w0 w h0 h; simp [wrun] at h; subst h; simp [wnet, h0]
    | cons e es ih =>
      intro w0 w h0 h
      simp only [wrun] at h
      cases hs : wstep w0 e with
      | none => simp [hs] at h
      | some w1 =>
        simp only [hs] at h
        cases e with
        | add k =>
          simp only [wstep, WG.add] at hs
          split at hs <;> try contradiction
          rename_i w' heq
          split at heq
          · simp at heq
          · rename_i hc
            simp only [Prod.mk.injEq, true_and] at heq; subst heq
            simp only [Option.some.injEq] at hs; subst hs
            obtain ⟨h1, h2⟩ := ih _ w (by simp; omega) h
            exact ⟨by simp [wnet] at h1 ⊢; omega, h2⟩
        | remove k =>
          simp only [wstep, WG.remove] at hs
          split at hs <;> try contradiction
          rename_i w' heq
          split at heq
          · rename_i hk
            simp only [Prod.mk.injEq, true_and] at heq; subst heq
            simp only [Option.some.injEq] at hs; subst hs
            obtain ⟨h1, h2⟩ := ih _ w h0 h
            exact ⟨by simp [wnet, hk] at h1 ⊢; omega, h2⟩
          · rename_i hk
            split at heq
            · simp at heq
            · rename_i hc
              simp only [Prod.mk.injEq, true_and] at heq; subst heq
              simp only [Option.some.injEq] at hs; subst hs
              obtain ⟨h1, h2⟩ := ih _ w (by simp; omega) h
              exact ⟨by simp [wnet, hk] at h1 ⊢; omega, h2⟩
  obtain ⟨h1, h2⟩ := key evs {} w (by simp) h
  refine ⟨by simpa using h1, h2, ?_⟩
  simp only [WG.wait]; split <;> simp_all

/-! ### recorded histories -/

/-- The contract a recorded history must meet (see `Model/ChanHist.lean` for the placement of the
records, which makes each clause a sound reading of the real order of events). -/
structure Contract (h : Hist) : Prop where
  /-- every record, in its context, satisfies the local rule: nothing delivered before it was sent,
      no receive after a consumer saw the channel closed, no successful push started after a close
      completed, mutual exclusion of critical sections, writer/reader exclusion, Once body at most
      once and before any return, Wait returns only after enough Ends -/
  local_ok : ∀ pre x post, h = pre ++ x :: post → localOk pre x post = true
  /-- no token is delivered twice -/
  once : ∀ ch, ch ∈ chansOf h → (delivered ch h).Nodup
  /-- each consumer receives the tokens of one producer in the order they were pushed -/
  fifo : ∀ ch, ch ∈ chansOf h → ∀ c, c ∈ consumersOf ch h →
      (receivedBy c ch h).Pairwise (fun v1 v2 => inPushOrder h ch v1 v2 = true)
  /-- once some consumer saw the channel closed and drained, every successfully pushed token was delivered -/
  drained : ∀ ch, ch ∈ chansOf h → sawClosed ch h = true → ∀ v, v ∈ pushedOk ch h → v ∈ delivered ch h

/-- **The history checker is sound.** -/
theorem okHistory_sound (h : Hist) (hk : okHistory h = true) : Contract h := by
  simp only [okHistory, Bool.and_eq_true, List.all_eq_true] at hk
  obtain ⟨hl, hc⟩ := hk
  refine ⟨fun pre x post he => ?_, fun ch hch => ?_, fun ch hch c hcc => ?_, fun ch hch hs v hv => ?_⟩
  · have := allSplits_sound localOk h [] hl pre x post he
    simpa using this
  · have := hc ch hch
    simp only [chanOk, Bool.and_eq_true] at this
    exact nodupB_sound _ this.1.1
  · have := hc ch hch
    simp only [chanOk, Bool.and_eq_true, List.all_eq_true] at this
    exact pairwiseB_sound _ _ (this.1.2 c hcc)
  · have := hc ch hch
    simp only [chanOk, Bool.and_eq_true, Bool.or_eq_true, Bool.not_eq_true', List.all_eq_true] at this
    rcases this.2 with h0 | h1
    · rw [hs] at h0; cases h0
    · simpa using h1 v hv

/-- the checker accepts a correct history (non-vacuity) … -/
example : okHistory [.pb 0 0 1, .pe 0 0 1 true, .ge 100 0 1, .pb 0 0 2, .ge 100 0 2, .pe 0 0 2 true,
    .cb 9 0, .ce 9 0 true, .gx 100 0, .en 1 0, .lv 1 0, .en 2 0, .lv 2 0, .ob 1 0, .orr 1 0, .orr 2 0,
    .wa 9 0 2, .wb 9 0, .wd 1 0, .wd 2 0, .wr 9 0] = true := by decide
/-- … and rejects a duplicated delivery, a reordering, overlapping critical sections, a second Once
body and an early `Wait` return -/
example : okHistory [.pb 0 0 1, .ge 100 0 1, .ge 101 0 1] = false := by decide
example : okHistory [.pb 0 0 1, .pb 0 0 2, .ge 100 0 2, .ge 100 0 1] = false := by decide
example : okHistory [.en 1 0, .en 2 0, .lv 1 0, .lv 2 0] = false := by decide
example : okHistory [.ob 1 0, .ob 2 0] = false := by decide
example : okHistory [.wa 9 0 2, .wb 9 0, .wd 1 0, .wr 9 0] = false := by decide

end Elk.C25
