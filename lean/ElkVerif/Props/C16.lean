import ElkVerif.Proofs.PromiseLive
import ElkVerif.Gen.AwaitSteps
/-!
# C16 — Awaiting never loses a wake-up or deadlocks the runtime

Theorems about the transition relation of `Model/Promise.lean` (`Step N Q s e s' := stepB N Q s e = some s'`,
the executable function that also validates the hook traces), for every pool size `N`, every queue
capacity `Q` and every reachable state — i.e. for every interleaving of the micro-steps of
`AWAIT`, continuation registration, `Resolve/Reject`, `AddTask` and the worker loop, and for every
program (task bodies are arbitrary: a running task may at any point start a task, await any
promise, or finish).

The full statement `deadlock_free` is FALSE for the code as it is (D9: blocking sends into the
bounded queue while holding a promise mutex, and from pool workers): `deadlock_witness`. What holds
is `deadlock_free_partial`.
-/
namespace Elk.C16
open Elk.Promise

/-- **Exactly-once location.** In every reachable state every task is at exactly one of: in the
queue; in the hands of exactly one goroutine (running it, creating it, about to re-enqueue it);
registered as a continuation of exactly one *unsettled* promise; finished — each with
multiplicity one. Consequently an awaiting task is resumed at most once per suspension and is
never dropped. (`At`, `Queued`, `OnActor`, `WaitingOn`, `Finished` only read the queue, the
goroutine states and the promise fields; the ghost field `loc` is not mentioned.) -/
theorem resume_exactly_once {N Q : Nat} {s : Sys} (h : Reachable N Q s) (t : Nat) (ht : IsTask s t) :
    (∃ l, At s t l ∧ ∀ l', At s t l' → l' = l) ∧
    s.queue.count t ≤ 1 ∧
    (∀ a, (s.act a).holdCount t ≤ 1) ∧
    (∀ p, (s.prom p).settled = none → (s.prom p).conts.count t ≤ 1) := by
  have hi := inv_reachable h
  refine ⟨⟨s.loc t, (at_iff_loc hi t ht _).mpr rfl, fun l' hl' => ((at_iff_loc hi t ht l').mp hl').symm⟩, ?_, ?_, ?_⟩
  · rw [hi.qAgree t]; split <;> omega
  · intro a; rw [hi.aAgree a t]; split <;> omega
  · intro p hp; rw [hi.wAgree p t hp]; split <;> omega

/-- **No lost wake-up (promise side).** A settled promise whose mutex is free has no registered
continuation; while continuations of a settled promise are still listed, the settling goroutine is
inside its `enqueueContinuations` loop holding the mutex. -/
theorem no_lost_wakeup {N Q : Nat} {s : Sys} (h : Reachable N Q s) (p : Nat)
    (hs : (s.prom p).settled ≠ none) :
    ((s.prom p).locked = none → (s.prom p).conts = []) ∧
    ((s.prom p).conts ≠ [] → ∃ a rest, s.act a = .resEnq p rest ∧ (s.prom p).locked = some a) := by
  have hi := inv_reachable h
  have key : (s.prom p).conts ≠ [] → ∃ a rest, s.act a = .resEnq p rest ∧ (s.prom p).locked = some a := by
    intro hne
    rcases hi.lostWake p hs with h0 | ⟨a, rest, ha⟩
    · exact absurd h0 hne
    · exact ⟨a, rest, ha, hi.lockHolder a p (by simp [ha, AState.holdsLock])⟩
  refine ⟨fun hl => ?_, key⟩
  by_cases hne : (s.prom p).conts = []
  · exact hne
  · obtain ⟨a, _, _, hl'⟩ := key hne
    rw [hl] at hl'; cases hl'

/-- **No lost wake-up (task side).** A task suspended on `p` (its saved frame will execute
`AWAIT_RESULT` on `p`) is registered on the still unsettled `p`, or it is in the queue, or it is
in the hands of a goroutine that is inside an `enqueueContinuations` loop. It is never nowhere,
never running, never finished. -/
theorem suspended_task_located {N Q : Nat} {s : Sys} (h : Reachable N Q s) (t p : Nat)
    (hr : s.resumeOn t = some p) :
    WaitingOn s t p ∨ Queued s t ∨ ∃ a, OnActor s t a ∧ (s.act a).isEnq = true := by
  have hi := inv_reachable h
  have ht : IsTask s t := hi.resumeTask t p hr
  rcases hi.resumeLoc t p hr with hl | hl | ⟨a, hl, he⟩
  · exact Or.inl ((at_iff_loc hi t ht (.waiting p)).mpr hl)
  · exact Or.inr (Or.inl ((at_iff_loc hi t ht .queued).mpr hl))
  · exact Or.inr (Or.inr ⟨a, (at_iff_loc hi t ht (.actor a)).mpr hl, he⟩)

/-- **The resumed task finds its promise settled.** `AWAIT_RESULT` panics with "promise is still
unresolved after await" otherwise; it cannot: a queued (or re-enqueued) task that was suspended on
`p` is only there if `p` is settled. -/
theorem await_result_ready {N Q : Nat} {s : Sys} (h : Reachable N Q s) (t p : Nat)
    (hr : s.resumeOn t = some p) (hq : Queued s t) : (s.prom p).settled ≠ none := by
  have hi := inv_reachable h
  have ht : IsTask s t := hi.resumeTask t p hr
  have hl : s.loc t = .queued := (at_iff_loc hi t ht .queued).mp hq
  rcases hi.resumeReady t p hr with h1 | h1
  · rw [hl] at h1; cases h1
  · exact h1

/-- **Mutual exclusion of the promise mutex** as the protocol uses it: at most one goroutine is
between `Lock` and `Unlock` of `p.m`, and `locked` names it. -/
theorem promise_mutex_excl {N Q : Nat} {s : Sys} (h : Reachable N Q s) (p a b : Nat)
    (ha : (s.act a).holdsLock p = true) (hb : (s.act b).holdsLock p = true) : a = b := by
  have hi := inv_reachable h
  have h1 := hi.lockHolder a p ha
  have h2 := hi.lockHolder b p hb
  rw [h1] at h2; exact Option.some.inj h2

/-- The unconditional statement the property asks for: whenever something is in flight, some
goroutine other than an idle outsider can take a step. FALSE for today's code. -/
def deadlock_free : Prop :=
  ∀ N Q s, 1 ≤ N → 1 ≤ Q → Reachable N Q s → NoWorkerSyncWait N s → ¬ Quiescent s → Progress N Q s

/-- **Conditional deadlock freedom.** If at most `Q` tasks were ever created (so the bounded queue can
hold all of them) and no pool worker is parked in a synchronous wait, then in every reachable
state that is not quiescent some in-flight goroutine has an enabled step: sends always find room,
and the holder of any promise mutex somebody waits for can move. -/
theorem deadlock_free_partial {N Q : Nat} {s : Sys} (hN : 1 ≤ N) (h : Reachable N Q s)
    (hQ : s.tasks.length ≤ Q) (hw : NoWorkerSyncWait N s) (hnq : ¬ Quiescent s) : Progress N Q s := by
  have hi := inv_reachable h
  by_cases hA : ∃ a, ¬ (s.act a = .idle ∨ ∃ ret p, s.act a = .wait ret p)
  · obtain ⟨a, ha⟩ := hA
    cases hact : s.act a with
    | idle => exact absurd (Or.inl hact) ha
    | wait ret p => exact absurd (Or.inr ⟨ret, p, hact⟩) ha
    | run t =>
      exact progress_of (.res a t (.ok 0)) (by simp [Event.actor, hact]) (by simp [stepB, hact])
    | add ret c =>
      have hl := hi.aAgree a c
      simp only [hact, AState.holdCount, if_true] at hl
      have hloc : s.loc c = .actor a := by
        by_cases h : s.loc c = .actor a
        · exact h
        · simp [h] at hl
      have hroom := enq_room hi hQ c (by simp [hloc]) (by simp [hloc])
      exact progress_of (.enq a c) (by simp [Event.actor, hact]) (by simp [stepB, hact, hroom])
    | awLock t p =>
      exact lock_progress hi hQ p (fun hl =>
        progress_of (.awl a p) (by simp [Event.actor, hact]) (by simp [stepB, hact, hl]))
    | resLock own p r =>
      exact lock_progress hi hQ p (fun hl =>
        progress_of (.resl a p) (by simp [Event.actor, hact]) (by simp [stepB, hact, hl]))
    | awTest t p => exact holder_progress hi hQ a p (by simp [hact, AState.holdsLock])
    | awSusp t p => exact holder_progress hi hQ a p (by simp [hact, AState.holdsLock])
    | awUnl p => exact holder_progress hi hQ a p (by simp [hact, AState.holdsLock])
    | resPub own p r => exact holder_progress hi hQ a p (by simp [hact, AState.holdsLock])
    | resEnq p rest => exact holder_progress hi hQ a p (by simp [hact, AState.holdsLock])
  · have hall : ∀ a, s.act a = .idle ∨ ∃ ret p, s.act a = .wait ret p := by
      intro a
      by_cases h : s.act a = .idle ∨ ∃ ret p, s.act a = .wait ret p
      · exact h
      · exact absurd ⟨a, h⟩ hA
    by_cases hq : s.queue = []
    · -- some AwaitSync is parked on a settled promise
      have : ∃ a ret p, s.act a = .wait ret p ∧ (s.prom p).settled ≠ none := by
        apply Classical.byContradiction
        intro hno
        apply hnq
        refine ⟨hq, fun a => ?_⟩
        rcases hall a with h | ⟨ret, p, h⟩
        · exact Or.inl h
        · refine Or.inr ⟨ret, p, h, ?_⟩
          apply Classical.byContradiction
          intro hs
          exact hno ⟨a, ret, p, h, hs⟩
      obtain ⟨a, ret, p, ha, hs⟩ := this
      exact progress_of (.sywd a p) (by simp [Event.actor, ha]) (by simp [stepB, ha, hs])
    · -- worker 0 is idle and the queue is not empty
      have h0 : s.act 0 = .idle := by
        rcases hall 0 with h | ⟨ret, p, h⟩
        · exact h
        · exact absurd h (hw 0 (by omega) ret p)
      obtain ⟨t, rest, hqe⟩ := List.exists_cons_of_ne_nil hq
      have hstep : (stepB N Q s (.deq 0 t)).isSome := by
        have : 0 < N := by omega
        simp [stepB, h0, hqe, this]
      obtain ⟨s', hs'⟩ := Option.isSome_iff_exists.mp hstep
      exact ⟨.deq 0 t, s', hs', Or.inr ⟨0, t, rfl⟩⟩

/-! ### the deadlock of today's code (D9), `N = 1`, `Q = 1`

Actor 0 is the pool worker, actor 1 the main thread. Main starts task 0 and waits for it; the
worker runs task 0, whose body starts task 1 (queued) and then task 2: `AddTask` blocks on the full
queue that only this worker could drain. No `await` is needed. -/

def deadTrace : List Event :=
  [.add 1 0, .enq 1 0, .syw 1 0, .deq 0 0, .add 0 1, .enq 0 1, .add 0 2]

def deadState : Sys := (runTrace 1 1 init deadTrace).getD init

theorem some_getD_of_isSome {α} {o : Option α} {d : α} (h : o.isSome = true) : o = some (o.getD d) := by
  cases o <;> simp_all

theorem deadTrace_runs : runTrace 1 1 init deadTrace = some deadState :=
  some_getD_of_isSome (by decide)

theorem deadState_reachable : Reachable 1 1 deadState :=
  reachable_runTrace deadTrace init deadState Reachable.init deadTrace_runs

/-- **Deadlock witness.** A reachable state (pool 1, queue 1) that is not quiescent — a task is
queued, the worker is in the middle of `AddTask`, main waits for an unsettled promise — in which
no in-flight goroutine has an enabled step. Hence `deadlock_free` is false. -/
theorem deadlock_witness :
    Reachable 1 1 deadState ∧ NoWorkerSyncWait 1 deadState ∧ ¬ Quiescent deadState ∧ ¬ Progress 1 1 deadState := by
  have h0 : deadState.act 0 = .add (some 0) 2 := by decide
  have h1 : deadState.act 1 = .wait none 0 := by decide
  have hq : deadState.queue = [1] := by decide
  have hs : (deadState.prom 0).settled = none := by decide
  have hrest : ∀ a, 2 ≤ a → deadState.act a = .idle := by
    intro a ha
    have := runTrace_act_other a deadTrace init deadState deadTrace_runs (by
      intro e he
      simp only [deadTrace, List.mem_cons, List.mem_nil_iff, or_false] at he
      rcases he with rfl | rfl | rfl | rfl | rfl | rfl | rfl <;> simp [Event.actor] <;> omega)
    rw [this]; rfl
  refine ⟨deadState_reachable, ?_, ?_, ?_⟩
  · intro a ha ret p
    have : a = 0 := by omega
    subst this; rw [h0]; simp
  · intro hqs; rw [hqs.1] at hq; cases hq
  · apply stuck_of
    · intro a
      by_cases ha0 : a = 0
      · subst ha0; exact Or.inr (Or.inl ⟨_, _, h0⟩)
      · by_cases ha1 : a = 1
        · subst ha1; exact Or.inr (Or.inr ⟨_, _, h1, hs⟩)
        · exact Or.inl (hrest a (by omega))
    · rw [hq]; simp
    · intro a ha
      have : a = 0 := by omega
      subst this; rw [h0]; simp

theorem deadlock_free_false : ¬ deadlock_free := by
  intro h
  obtain ⟨hr, hw, hnq, hnp⟩ := deadlock_witness
  exact hnp (h 1 1 deadState (by omega) (by omega) hr hw hnq)


/-- `N = 2`, `Q = 1`: the deadlock in the form the property text describes it. Worker 1 settles task 1
while task 0 is registered on it: it publishes and blocks in `enqueueContinuations` on the full queue
**holding the promise mutex**; worker 0, running task 2, awaits the same promise and blocks on that
mutex; the main thread waits for task 0. -/
def deadTrace2 : List Event :=
  [.add 2 0, .enq 2 0, .syw 2 0, .deq 0 0, .add 0 1, .enq 0 1, .deq 1 1,
   .aw 0 1, .awl 0 1, .aws 0 1, .reg 0 1, .unl 0 1,
   .add 1 2, .enq 1 2, .deq 0 2, .add 0 3, .enq 0 3,
   .res 1 1 (.ok 0), .resl 1 1, .pub 1 1, .aw 0 1]

def deadState2 : Sys := (runTrace 2 1 init deadTrace2).getD init

theorem deadTrace2_runs : runTrace 2 1 init deadTrace2 = some deadState2 :=
  some_getD_of_isSome (by decide)

theorem deadlock_witness_lock :
    Reachable 2 1 deadState2 ∧ NoWorkerSyncWait 2 deadState2 ∧ ¬ Quiescent deadState2 ∧ ¬ Progress 2 1 deadState2 ∧
    deadState2.act 1 = .resEnq 1 [0] ∧ (deadState2.prom 1).locked = some 1 ∧ deadState2.act 0 = .awLock 2 1 := by
  have h0 : deadState2.act 0 = .awLock 2 1 := by decide
  have h1 : deadState2.act 1 = .resEnq 1 [0] := by decide
  have h2 : deadState2.act 2 = .wait none 0 := by decide
  have hq : deadState2.queue = [3] := by decide
  have hs : (deadState2.prom 0).settled = none := by decide
  have hl : (deadState2.prom 1).locked = some 1 := by decide
  have hrest : ∀ a, 3 ≤ a → deadState2.act a = .idle := by
    intro a ha
    have := runTrace_act_other a deadTrace2 init deadState2 deadTrace2_runs (by
      intro e he
      simp only [deadTrace2, List.mem_cons, List.mem_nil_iff, or_false] at he
      rcases he with rfl | rfl | rfl | rfl | rfl | rfl | rfl | rfl | rfl | rfl | rfl | rfl | rfl | rfl | rfl | rfl | rfl |
        rfl | rfl | rfl | rfl <;> simp [Event.actor] <;> omega)
    rw [this]; rfl
  refine ⟨reachable_runTrace deadTrace2 init deadState2 Reachable.init deadTrace2_runs, ?_, ?_, ?_, h1, hl, h0⟩
  · intro a ha ret p
    have : a = 0 ∨ a = 1 := by omega
    rcases this with rfl | rfl
    · rw [h0]; simp
    · rw [h1]; simp
  · intro hqs; rw [hqs.1] at hq; cases hq
  · apply stuck_of'
    · intro a
      by_cases ha0 : a = 0
      · subst ha0; exact Or.inr (Or.inr (Or.inr (Or.inr (Or.inl ⟨_, _, h0, by rw [hl]; simp⟩))))
      · by_cases ha1 : a = 1
        · subst ha1; exact Or.inr (Or.inr (Or.inr (Or.inl ⟨_, _, _, h1⟩)))
        · by_cases ha2 : a = 2
          · subst ha2; exact Or.inr (Or.inr (Or.inl ⟨_, _, h2, hs⟩))
          · exact Or.inl (hrest a (by omega))
    · rw [hq]; simp
    · intro a ha
      have : a = 0 ∨ a = 1 := by omega
      rcases this with rfl | rfl
      · rw [h0]; simp
      · rw [h1]; simp


/-- **The ghost fields are never read.** Two states that agree on the physical fields (goroutine states,
queue, promises, saved await targets) enable the same events and step to states that again agree on
the physical fields — whatever their `loc`, `tasks`, `pubs`, `bodyRes` are. So the relation over the
physical state is well defined and the ghost fields are pure bookkeeping for the proofs. -/
theorem ghost_fields_irrelevant {N Q : Nat} {s t : Sys} (h : SamePhys s t) (e : Event) :
    StepAgree (stepB N Q s e) (stepB N Q t e) := ghost_irrelevant h e

/-! ### probe of the micro-step order (tie P)

`Gen/AwaitSteps.lean` is regenerated on every run from one canonical execution of the real runtime
(pool 1, queue 256, no yields): task 0 starts task 1 and awaits it while it is unsettled (suspend path),
task 1 awaits a `timeout` promise settled by a timer goroutine, task 0 is resumed and awaits task 1
again (ready path). `probeTrace` is that execution in the model's vocabulary. -/

def kindOf : Event → String
  | .add .. => "add" | .enq .. => "enq" | .deq .. => "deq" | .aw .. => "aw" | .awl .. => "awl"
  | .aws .. => "aws" | .awr .. => "awr" | .reg .. => "reg" | .unl .. => "unl" | .res .. => "res"
  | .resl .. => "resl" | .pub .. => "pub" | .enqc .. => "enqc" | .resu .. => "resu" | .newx .. => "newx"
  | .syw .. => "syw" | .sywd .. => "sywd"

def probeTrace : List Event :=
  [.add 1 0, .enq 1 0, .syw 1 0,
   .deq 0 0, .add 0 1, .enq 0 1, .aw 0 1, .awl 0 1, .aws 0 1, .reg 0 1, .unl 0 1,
   .deq 0 1, .newx 0 2, .aw 0 2, .awl 0 2, .aws 0 2, .reg 0 2, .unl 0 2,
   .res 2 2 (.ok 0), .resl 2 2, .pub 2 2, .enqc 2 2 1, .resu 2 2,
   .deq 0 1, .res 0 1 (.ok 0), .resl 0 1, .pub 0 1, .enqc 0 1 0, .resu 0 1,
   .deq 0 0, .aw 0 1, .awl 0 1, .awr 0 1, .res 0 0 (.ok 0), .resl 0 0, .pub 0 0, .resu 0 0,
   .sywd 1 0]

def kindsOf (a : Nat) (tr : List Event) : List String := (tr.filter fun e => e.actor == a).map kindOf

/-- the canonical execution is a run of the model … -/
theorem probeTrace_runs : (runTrace 1 256 init probeTrace).isSome = true := by decide

/-- … and, goroutine by goroutine, its micro-steps are the ones the real runtime was observed to take,
in the same order (worker, main thread, timer goroutine). Re-proved by `decide` against the
regenerated `Gen/AwaitSteps.lean` on every run: reordering the protocol steps in the Go code (e.g.
unlocking before registering the continuation) breaks this obligation. -/
theorem awaitSteps_ok :
    Gen.awaitWorker = kindsOf 0 probeTrace ∧ Gen.awaitMain = kindsOf 1 probeTrace ∧
    Gen.awaitSettler = kindsOf 2 probeTrace := by decide

/-! ### non-vacuity -/

/-- the hypotheses of `deadlock_free_partial` are met by a non-trivial state: pool 1, queue 1, one
task created, queued and picked up by the worker, main waiting for it -/
example : ∃ s, Reachable 1 1 s ∧ s.tasks.length ≤ 1 ∧ NoWorkerSyncWait 1 s ∧ ¬ Quiescent s ∧ s.act 0 = .run 0 := by
  refine ⟨(runTrace 1 1 init [.add 1 0, .enq 1 0, .syw 1 0, .deq 0 0]).getD init, ?_, by decide, ?_, ?_, by decide⟩
  · exact reachable_runTrace [.add 1 0, .enq 1 0, .syw 1 0, .deq 0 0] init _ Reachable.init (some_getD_of_isSome (by decide))
  · intro a ha ret p
    have : a = 0 := by omega
    subst this
    have : ((runTrace 1 1 init [.add 1 0, .enq 1 0, .syw 1 0, .deq 0 0]).getD init).act 0 = .run 0 := by decide
    rw [this]; simp
  · intro hq
    have h0 : ((runTrace 1 1 init [.add 1 0, .enq 1 0, .syw 1 0, .deq 0 0]).getD init).act 0 = .run 0 := by decide
    rcases hq.2 0 with h | ⟨_, _, h, _⟩ <;> rw [h0] at h <;> cases h

/-- a complete await/resolve round trip is a behaviour of the relation (the model is not vacuous):
task 0 awaits task 1 before it is settled, is registered, resumed by the settle, and finishes -/
example : (runTrace 2 1 init
    [.add 2 0, .enq 2 0, .deq 0 0, .add 0 1, .enq 0 1, .aw 0 1, .awl 0 1, .aws 0 1, .reg 0 1, .unl 0 1,
     .deq 1 1, .res 1 1 (.ok 7), .resl 1 1, .pub 1 1, .enqc 1 1 0, .resu 1 1,
     .deq 0 0, .res 0 0 (.ok 7), .resl 0 0, .pub 0 0, .resu 0 0]).isSome = true := by decide

end Elk.C16
