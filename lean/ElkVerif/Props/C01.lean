import ElkVerif.Proofs.MiniSound
/-!
# C01 — Programs the type checker accepts never crash the interpreter (and C02, stage A)

Stage A of the staged soundness result of DESIGN.md §6: the expression fragment of MiniElk
(literals, locals, arithmetic/comparison/equality/concatenation, `-`, `!`, `&&`, `||`, `??`).
`stuck` is the reference evaluator's outcome for every situation in which the real VM would
execute an instruction on an operand of the wrong kind (a Go panic).
The statements, closures, calls and exceptions of the fragment (stages B–D) are proved in
`Props/C01B.lean` for the extended checker of `Model/Mini/TypesB.lean`.
-/
namespace Elk.C01
open Elk.Mini

/-- progress: a well-typed expression never gets stuck — for every fuel, environment and store
that agree with the typing context -/
theorem sound_A (defs : List Def) (g : TEnv) (env : Env) (s : St) (hok : EnvOk g env s)
    (n k : Nat) (e : Expr) (t : STy) (hc : check g k e = some t) :
    ∀ w, (evalExpr defs n env s e).1 ≠ .stuck w := by
  intro w hw
  have h := expr_sound defs g env s hok n k e t hc
  cases hr : evalExpr defs n env s e with
  | mk o s' =>
    rw [hr] at h hw
    simp at hw
    subst hw
    simp [Good] at h

/-- preservation (C02, stage A): when a well-typed expression yields a value, the value is an
instance of the expression's static type -/
theorem preservation_A (defs : List Def) (g : TEnv) (env : Env) (s s' : St) (hok : EnvOk g env s)
    (n k : Nat) (e : Expr) (t : STy) (hc : check g k e = some t) (v : Val)
    (hv : evalExpr defs n env s e = (.val v, s')) : v.hasTy t = true := by
  have h := expr_sound defs g env s hok n k e t hc
  rw [hv] at h
  exact h.1

/-- the only Elk error a well-typed expression of the fragment can raise is the unchecked
ZeroDivisionError; control never leaves through break/continue/return -/
theorem errors_A (defs : List Def) (g : TEnv) (env : Env) (s s' : St) (hok : EnvOk g env s)
    (n k : Nat) (e : Expr) (t : STy) (hc : check g k e = some t) (o : Out)
    (hv : evalExpr defs n env s e = (o, s')) :
    (∃ v, o = .val v) ∨ o = .thrw .zde ∨ o = .timeout := by
  have h := expr_sound defs g env s hok n k e t hc
  rw [hv] at h
  cases o with
  | val v => exact Or.inl ⟨v, rfl⟩
  | thrw v => cases v <;> simp_all [Good]
  | timeout => exact Or.inr (Or.inr rfl)
  | _ => simp [Good] at h

/-- non-vacuity: a context with a nilable and an int local, a store that agrees with it, and a
well-typed expression mixing `??`, arithmetic, comparison and `&&` -/
def gEx : TEnv := [("z", .opt .int), ("x", .base .int)]
def envEx : Env := [("z", 0), ("x", 1)]
def stEx : St := { store := [.nil, .int 4] }
def eEx : Expr := .and (.bin .lt (.bin .div (.nilco (.var "z") (.int 7)) (.var "x")) (.int 3)) (.un .not (.bool false))

example : check gEx 10 eEx = some (.base .bool) := by decide
example : EnvOk gEx envEx stEx := by
  intro x t h
  simp only [gEx, lookupTy] at h
  split at h
  · rename_i hx; simp at hx; subst hx; simp at h; subst h
    exact ⟨0, .nil, by simp [envEx, lookup], by simp [stEx, St.read], by simp [Val.hasTy]⟩
  · split at h
    · rename_i hx; simp at hx; subst hx; simp at h; subst h
      exact ⟨1, .int 4, by simp [envEx, lookup], by simp [stEx, St.read], by simp [Val.hasTy, Val.hasBase]⟩
    · simp at h
example : ((evalExpr [] 20 envEx stEx eEx).1 matches .val (.bool true)) = true := by decide

end Elk.C01
