import ElkVerif.Model.Sched
/-!
# C11 — Type checking gives the same verdict under any parallel schedule

What is proved here is deliberately the weakest kind of claim in this framework: a *conditional*
confluence theorem. It says that IF the method-body checks only communicate through the shared
state by atomic merges that commute (hypothesis `Independent`), THEN every schedule of
`concurrent.Foreach` and every concurrency limit ≥ 1 gives the same final shared state, and
`Foreach` itself runs every element exactly once, never more than `limit` at a time, and always
returns. Whether the real checker satisfies `Independent` is NOT proved; it is tested on sampled
schedules (hook H1) and with the race detector (checks/c11.py).
-/
namespace Elk.C11
open Elk.Sched List

variable {α : Type}

/-- every step preserves the multiset of elements spread over pending/running/done -/
theorem step_perm {limit : Nat} {s t : FState α} (h : FStep limit s t) :
    t.pending ++ t.running ++ t.done ~ s.pending ++ s.running ++ s.done := by
  cases h with
  | spawn a p r d _ =>
    show p ++ (r ++ [a]) ++ d ~ a :: p ++ r ++ d
    have h1 : p ++ (r ++ [a]) ~ a :: (p ++ r) := by
      rw [← List.append_assoc]; exact perm_append_singleton a (p ++ r)
    simpa using h1.append_right d
  | finish p r1 r2 d x =>
    show p ++ (r1 ++ r2) ++ (d ++ [x]) ~ p ++ (r1 ++ x :: r2) ++ d
    have h1 : (r1 ++ r2) ++ (d ++ [x]) ~ (r1 ++ x :: r2) ++ d := by
      have a1 : (r1 ++ r2) ++ (d ++ [x]) ~ x :: ((r1 ++ r2) ++ d) := by
        rw [← List.append_assoc]; exact perm_append_singleton x _
      have a2 : (r1 ++ x :: r2) ++ d ~ x :: ((r1 ++ r2) ++ d) := by
        have := (perm_middle (a := x) (l₁ := r1) (l₂ := r2)).append_right d
        simpa using this
      exact a1.trans a2.symm
    simpa [List.append_assoc] using h1.append_left p

theorem run_perm {limit n : Nat} {s t : FState α} (h : FRun limit n s t) :
    t.pending ++ t.running ++ t.done ~ s.pending ++ s.running ++ s.done := by
  induction h with
  | refl => exact Perm.refl _
  | step hs _ ih => exact ih.trans (step_perm hs)

/-- **Every element runs exactly once**: when `Foreach` returns, the completed tasks are a
permutation of the collection (∀ collections, ∀ limits, ∀ executions). -/
theorem foreach_all_run (limit n : Nat) (c : List α) (t : FState α)
    (h : FRun limit n (FState.init c) t) (ht : t.terminal) : t.done ~ c := by
  have := run_perm h
  obtain ⟨hp, hr⟩ := ht
  simpa [FState.init, hp, hr] using this

/-- never more than `limit` bodies in flight -/
theorem foreach_limit {limit n : Nat} {s t : FState α} (h : FRun limit n s t)
    (h0 : s.running.length ≤ limit) : t.running.length ≤ limit := by
  induction h with
  | refl => exact h0
  | step hs _ ih =>
    apply ih
    cases hs with
    | spawn a p r d hl => simp; omega
    | finish p r1 r2 d x => simp at h0 ⊢; omega

/-- **Progress**: with at least one permit, `Foreach` can always take a step until it returns … -/
theorem foreach_progress (limit : Nat) (hl : 1 ≤ limit) (s : FState α) (hn : ¬ s.terminal) :
    ∃ t, FStep limit s t := by
  obtain ⟨p, r, d⟩ := s
  cases r with
  | nil =>
    cases p with
    | nil => exact absurd ⟨rfl, rfl⟩ hn
    | cons a p => exact ⟨_, FStep.spawn a p [] d (by simp; omega)⟩
  | cons x r => exact ⟨_, FStep.finish p [] r d x⟩

/-- … and every step strictly decreases `2·|pending| + |running|` … -/
theorem step_measure {limit : Nat} {s t : FState α} (h : FStep limit s t) : t.measure + 1 = s.measure := by
  cases h with
  | spawn a p r d _ => simp [FState.measure]; omega
  | finish p r1 r2 d x => simp [FState.measure]; omega

/-- … so **`Foreach` terminates**: every execution from the start has at most `2·n` steps, an
execution of exactly `2·n` steps has returned, and no execution can be extended beyond that
(∀ n = |collection|, ∀ limit). -/
theorem foreach_terminates (limit k : Nat) (c : List α) (t : FState α)
    (h : FRun limit k (FState.init c) t) :
    k + t.measure = 2 * c.length ∧ (k = 2 * c.length → t.terminal) := by
  have hm : ∀ {n : Nat} {s u : FState α}, FRun limit n s u → n + u.measure = s.measure := by
    intro n s u hr
    induction hr with
    | refl => simp
    | step hs _ ih => have := step_measure hs; omega
  have := hm h
  have hi : (FState.init c).measure = 2 * c.length := by simp [FState.init, FState.measure]
  refine ⟨by omega, ?_⟩
  intro hk
  have hz : t.measure = 0 := by omega
  obtain ⟨p, r, d⟩ := t
  simp only [FState.measure] at hz
  have h1 : p.length = 0 := by omega
  have h2 : r.length = 0 := by omega
  exact ⟨List.length_eq_zero_iff.mp h1, List.length_eq_zero_iff.mp h2⟩

/-! ### confluence of the shared state -/

variable {σ κ : Type}

/-- **Hypothesis about the real checker** (tested, not proved): what task `a` contributes does not
depend on what other tasks have written (`contrib` is a function of the task alone, i.e. of the
read-only environment), and contributions are merged atomically by an operation in which the
order of two contributions does not matter (appending to a diagnostic list compared as a
multiset, adding to a set/cache, interning a symbol up to renaming of ids). -/
structure Independent (merge : σ → κ → σ) : Prop where
  comm : ∀ (s : σ) (x y : κ), merge (merge s x) y = merge (merge s y) x

/-- **Confluence.** Under `Independent`, any two executions of `Foreach` over the same collection —
different interleavings, different limits — leave the same shared state. -/
theorem sched_confluent (merge : σ → κ → σ) (hI : Independent merge) (contrib : α → κ) (s0 : σ)
    (c : List α) (l₁ l₂ n₁ n₂ : Nat) (t₁ t₂ : FState α)
    (h₁ : FRun l₁ n₁ (FState.init c) t₁) (e₁ : t₁.terminal)
    (h₂ : FRun l₂ n₂ (FState.init c) t₂) (e₂ : t₂.terminal) :
    mergeAll merge s0 (t₁.done.map contrib) = mergeAll merge s0 (t₂.done.map contrib) := by
  have p₁ := foreach_all_run l₁ n₁ c t₁ h₁ e₁
  have p₂ := foreach_all_run l₂ n₂ c t₂ h₂ e₂
  have p : t₁.done.map contrib ~ t₂.done.map contrib := (p₁.trans p₂.symm).map contrib
  exact p.foldl_eq' (fun x _ y _ z => hI.comm z x y) s0

/-- in particular the parallel result is the sequential one (limit 1, source order) -/
theorem parallel_eq_sequential (merge : σ → κ → σ) (hI : Independent merge) (contrib : α → κ) (s0 : σ)
    (c : List α) (l n : Nat) (t : FState α)
    (h : FRun l n (FState.init c) t) (e : t.terminal) :
    mergeAll merge s0 (t.done.map contrib) = mergeAll merge s0 (c.map contrib) := by
  have p := (foreach_all_run l n c t h e).map contrib
  exact p.foldl_eq' (fun x _ y _ z => hI.comm z x y) s0

/-- without the hypothesis the statement is false: with a non-commutative merge (a diagnostic
*list* compared in order) two schedules of two tasks differ -/
theorem order_sensitive_witness :
    ∃ (t₁ t₂ : FState Nat), FRun 2 4 (FState.init [1, 2]) t₁ ∧ t₁.terminal ∧
      FRun 2 4 (FState.init [1, 2]) t₂ ∧ t₂.terminal ∧
      mergeAll (fun (s : List Nat) x => s ++ [x]) [] t₁.done ≠ mergeAll (fun (s : List Nat) x => s ++ [x]) [] t₂.done := by
  refine ⟨⟨[], [], [1, 2]⟩, ⟨[], [], [2, 1]⟩, ?_, ⟨rfl, rfl⟩, ?_, ⟨rfl, rfl⟩, by decide⟩
  · exact .step (.spawn 1 [2] [] [] (by decide)) (.step (.spawn 2 [] [1] [] (by decide))
      (.step (.finish [] [] [2] [] 1) (.step (.finish [] [] [] [1] 2) (.refl _))))
  · exact .step (.spawn 1 [2] [] [] (by decide)) (.step (.spawn 2 [] [1] [] (by decide))
      (.step (.finish [] [1] [] [] 2) (.step (.finish [] [] [] [2] 1) (.refl _))))

/-! ### non-vacuity -/

/-- the merges the design lists satisfy `Independent`: multiset-of-diagnostics as a sorted
insertion, set union, counter — here: insertion into a sorted list of numbers -/
def insertSorted (s : List Nat) (x : Nat) : List Nat :=
  match s with
  | [] => [x]
  | y :: r => if x ≤ y then x :: y :: r else y :: insertSorted r x

theorem insertSorted_comm (s : List Nat) (x y : Nat) :
    insertSorted (insertSorted s x) y = insertSorted (insertSorted s y) x := by
  induction s with
  | nil =>
    simp only [insertSorted]
    by_cases h : y ≤ x <;> by_cases h' : x ≤ y <;> simp [insertSorted, h, h'] <;> omega
  | cons z r ih =>
    simp only [insertSorted]
    by_cases hx : x ≤ z <;> by_cases hy : y ≤ z <;> simp [insertSorted, hx, hy, ih]
    · by_cases h : y ≤ x <;> by_cases h' : x ≤ y <;> simp [h, h'] <;> omega
    · omega
    · omega

example : Independent insertSorted := ⟨insertSorted_comm⟩

/-- a complete execution with limit 2 over three tasks exists (the hypotheses of the theorems
are inhabited) -/
example : ∃ t, FRun 2 6 (FState.init [1, 2, 3]) t ∧ t.terminal ∧ t.done = [2, 1, 3] := by
  refine ⟨⟨[], [], [2, 1, 3]⟩, ?_, ⟨rfl, rfl⟩, rfl⟩
  exact .step (.spawn 1 [2, 3] [] [] (by decide)) (.step (.spawn 2 [3] [1] [] (by decide))
    (.step (.finish [3] [1] [] [] 2) (.step (.finish [3] [] [] [2] 1)
    (.step (.spawn 3 [] [] [2, 1] (by decide)) (.step (.finish [] [] [] [2, 1] 3) (.refl _))))))

end Elk.C11
