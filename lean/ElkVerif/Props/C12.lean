import ElkVerif.Model.Ctx
import ElkVerif.Gen.CtxProbe
import ElkVerif.Model.Mini.Eval
/-!
# C12 — Type-checking verdicts survive meaning-preserving edits

Context-discipline part: whatever a method or closure body does to the checker's context
(mode, flags, return/throw type, catch scopes), `checkMethod` hands the enclosing construct back
exactly the context it had — so checking a closure literal (the "insert an unused closure" edit)
cannot change how the statements after it are checked. That the four edits preserve verdict and
output on real programs is tested metamorphically (checks/c12.py).
-/
namespace Elk.C12
open Elk.Ctx

/-- **Frame rule** for the code as it is today: for every body transformer that leaves the local
environment stack balanced, every method/closure description and every context,
`checkMethod` returns the context unchanged. -/
theorem ctx_frame (body : Ctx → Ctx) (hb : Balanced body) (m : MethodInfo) (c : Ctx) :
    checkMethod .current body m c = c := by
  obtain ⟨mode, flags, rt, tt, cs, le⟩ := c
  obtain ⟨hd, g, ir, it, uh, o⟩ := flags
  simp only [checkMethod]
  rw [hb]; rfl

/-- the individual fields, for bodies that are not even balanced -/
theorem ctx_frame_fields (body : Ctx → Ctx) (m : MethodInfo) (c : Ctx) :
    let c' := checkMethod .current body m c
    c'.mode = c.mode ∧ c'.flags = c.flags ∧ c'.returnType = c.returnType ∧
      c'.throwType = c.throwType ∧ c'.catchScopes = c.catchScopes := by
  obtain ⟨mode, flags, rt, tt, cs, le⟩ := c
  obtain ⟨hd, g, ir, it, uh, o⟩ := flags
  simp [checkMethod]

/-- nested uses compose: a body that itself checks closures through `checkMethod` is balanced -/
theorem checkMethod_balanced (body : Ctx → Ctx) (hb : Balanced body) (m : MethodInfo) :
    Balanced (checkMethod .current body m) := by
  intro x
  rw [ctx_frame body hb m x]

/-- the full statement, for any variant of the function -/
def CtxFrame (v : Variant) : Prop :=
  ∀ (body : Ctx → Ctx), Balanced body → ∀ (m : MethodInfo) (c : Ctx), checkMethod v body m c = c

theorem ctx_frame_current : CtxFrame .current := fun body hb m c => ctx_frame body hb m c

/-- **What was repaired (1).** Before commit e47324a `checkMethod` reset the return/throw context
to nil: inside a method returning `Int` (returnType = some 1) a closure literal left
`returnType = none`, and the following `return 1` was checked against void. -/
theorem ctx_leak_witness : ¬ CtxFrame .preE47324a := by
  intro h
  have := h id (fun _ => rfl) ⟨true, false, false, false, none, none⟩
    ⟨7, ⟨false, false, false, false, false, 0⟩, some 1, none, [], [0]⟩
  revert this
  decide

/-- **What was repaired (2)**, found by this check. `prevFlags` was taken after `hasDefer` had been
cleared, so `c.flags = prevFlags` erased the enclosing method's `hasDefer`: a `defer` followed by
an (unused) closure literal never ran its deferred code. -/
theorem ctx_defer_leak_witness : ¬ CtxFrame .preDeferFix := by
  intro h
  have := h id (fun _ => rfl) ⟨true, false, false, false, none, none⟩
    ⟨7, ⟨true, false, false, false, false, 0⟩, some 1, none, [], [0]⟩
  revert this
  decide

/-- both earlier variants do satisfy the frame rule on the contexts where their defect cannot
show (no enclosing return/throw type; no pending defer) — the `…_partial` statements -/
theorem ctx_frame_preE47324a_partial (body : Ctx → Ctx) (hb : Balanced body) (m : MethodInfo) (c : Ctx)
    (h1 : c.returnType = none) (h2 : c.throwType = none) :
    checkMethod .preE47324a body m c = c := by
  obtain ⟨mode, flags, rt, tt, cs, le⟩ := c
  obtain ⟨hd, g, ir, it, uh, o⟩ := flags
  simp only at h1 h2
  subst h1 h2
  simp only [checkMethod]
  rw [hb]; rfl

theorem ctx_frame_preDeferFix_partial (body : Ctx → Ctx) (hb : Balanced body) (m : MethodInfo) (c : Ctx)
    (h : c.flags.hasDefer = false) :
    checkMethod .preDeferFix body m c = c := by
  obtain ⟨mode, flags, rt, tt, cs, le⟩ := c
  obtain ⟨hd, g, ir, it, uh, o⟩ := flags
  simp only at h
  subst h
  simp only [checkMethod]
  rw [hb]; rfl

/-- the Go names of the fields `checkMethod` saves and restores (the fields of `Ctx`) -/
def ctxFields : List String := ["mode", "flags", "returnType", "throwType", "catchScopes", "localEnvs", "currentLocalEnv.locals"]

/-- **Tie (probe, one execution per closure shape).** On the real checker, for every probed closure
literal, none of the modelled context fields differs after the closure was checked inside a
method context (`Gen.ctxLeaked` is regenerated from the running code on every check). -/
theorem ctx_probe_clean :
    Elk.Gen.ctxLeaked.all (fun p => p.2.all (fun f => !(ctxFields.contains f))) = true := by decide

/-! non-vacuity: a body that changes every field it can and is balanced -/
example :
    let body : Ctx → Ctx := fun x =>
      ⟨3, ⟨true, x.flags.generator, true, false, true, 99⟩, some 42, some 7, 5 :: x.catchScopes, x.localEnvs⟩
    Balanced body ∧
    checkMethod .current body ⟨true, false, false, true, none, some 2⟩
      ⟨7, ⟨true, false, false, false, false, 4⟩, some 1, some 3, [8], [0, 1]⟩ =
      ⟨7, ⟨true, false, false, false, false, 4⟩, some 1, some 3, [8], [0, 1]⟩ := by
  refine ⟨fun _ => rfl, by decide⟩

/-! ### the edit at the level of the reference semantics (stated, NOT proved)

`insert_unused_eval`: inserting, at any position `k` of `main`, a declaration of a variable that
occurs nowhere in the program, bound to a literal or to a closure literal, does not change what
the MiniElk reference evaluator prints (for sufficient fuel). A proof needs a simulation between
stores whose cell numbers are shifted by the extra allocation (closures capture environments of
cell numbers) and a fuel-monotonicity lemma; it was not done. The real pipeline is tested against
this statement metamorphically (checks/c12.py). -/

def insertAt {α : Type} (k : Nat) (a : α) (l : List α) : List α := l.take k ++ a :: l.drop k

def IsValueLike : Elk.Mini.Expr → Prop
  | .int _ | .bool _ | .nil | .str _ | .lam _ _ _ => True
  | _ => False

/-- the full statement; `Fresh x p` is to be read as "the identifier x occurs nowhere in p" -/
def InsertUnusedEval (Fresh : String → Elk.Mini.Prog → Prop) : Prop :=
  ∀ (p : Elk.Mini.Prog) (k : Nat) (x : String) (e : Elk.Mini.Expr), IsValueLike e → Fresh x p →
    ∀ fuel, (∀ why, (Elk.Mini.runProg fuel p).1 ≠ .stuck why) → (Elk.Mini.runProg fuel p).1 ≠ .timeout →
      ∃ fuel', (Elk.Mini.runProg fuel' { p with main := insertAt k (.decl x none e) p.main }).2.lines =
        (Elk.Mini.runProg fuel p).2.lines

/-- one instance of the statement checked by computation (an unused closure inserted between a
declaration and its use) — a TEST of the statement, not a theorem about all programs. -/
example :
    let p : Elk.Mini.Prog := ⟨"M", [], [.decl "a" none (.int 1), .print (.var "a")]⟩
    (Elk.Mini.runProg 20 { p with main := insertAt 1 (.decl "zz" none (.lam [] .int [.expr (.int 1)])) p.main }).2.lines =
      (Elk.Mini.runProg 20 p).2.lines := by
  decide

end Elk.C12
