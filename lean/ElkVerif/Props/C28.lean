import ElkVerif.Gen.HeadersOk
/-!
# C28 — Std headers and native implementations agree

Tables (probed in-process on every run, `Gen/Headers.lean`): for every namespace of `Std` in the
global type environment every method visible on it, with what the runtime lookup on the runtime
class of the same name finds. The theorems are re-checked by the kernel (`decide`, one lemma per
chunk of ≤ 64 rows in `Gen/HeadersOk.lean`) against the regenerated table; rows that fail today are
listed explicitly in `Model/HeaderExceptions.lean` (known findings keyed by namespace, side and
method), so a *new* missing method or arity disagreement breaks the proof.

Return and throw types are not table facts: they are tested by the call sweep of the check.
-/
namespace Elk.C28
open Elk.Headers Elk.Gen.Headers

theorem mem_rows_iff (r : Row) : r ∈ rows ↔ ∃ c ∈ chunks, r ∈ c := by
  unfold rows
  simp [List.mem_flatten]

theorem row_ok (r : Row) (h : r ∈ rows) :
    r.callableOk initCode laxEqCode missing = true ∧ r.arityOk arity = true := by
  obtain ⟨c, hc, hr⟩ := (mem_rows_iff r).mp h
  have hall := all_chunks_ok
  simp only [List.all_eq_true] at hall
  have hcOk := hall c hc
  unfold chunkGood chunkOk at hcOk
  simp only [List.all_eq_true, Bool.and_eq_true] at hcOk
  exact hcOk r hr

/-- **`declared_callable`.** Every method the std headers make visible on a concrete class or on a
module of `Std` (own, inherited or mixed in; not abstract; not the constructor `#init`, not `=~`
which is compiled to an opcode) is found by the runtime method lookup on the runtime class of that
name — or it is one of the explicitly listed exceptions. -/
theorem declared_callable (r : Row) (h : r ∈ rows) (hn : r.needsRuntime initCode laxEqCode = true) :
    r.found = true ∨ missing.has r.ns r.side r.name = true := by
  have := (row_ok r h).1
  unfold Row.callableOk at this
  simp only [hn, Bool.not_true, Bool.false_or, Bool.or_eq_true] at this
  exact this

/-- **`arity_admits`.** Every native the lookup finds takes exactly the parameter slots the header
declares (so every argument count the signature admits — the compiler pushes between `req` and
`slots` arguments and the VM pads with `undefined` up to `ParameterCount` — fills the native's
argument window exactly) — or it is one of the explicitly listed exceptions. -/
theorem arity_admits (r : Row) (h : r ∈ rows) (hf : r.found = true) (hk : r.rtkind = 1) :
    r.slots = r.rtparams ∨ arity.has r.ns r.side r.name = true := by
  have := (row_ok r h).2
  unfold Row.arityOk at this
  simp only [hf, hk, beq_self_eq_true, Bool.and_self, Bool.not_true, Bool.false_or, Bool.or_eq_true, beq_iff_eq] at this
  exact this

/-- consequence for argument counts: any `k` with `req ≤ k ≤ slots` fits the native's window -/
theorem admitted_count_fits (r : Row) (h : r ∈ rows) (hf : r.found = true) (hk : r.rtkind = 1)
    (hx : arity.has r.ns r.side r.name = false) (k : Nat) (hk2 : k ≤ r.slots) : k ≤ r.rtparams := by
  rcases arity_admits r h hf hk with h1 | h1
  · omega
  · rw [hx] at h1; cases h1

/-- non-vacuity: the first chunk of the table contains rows that need a runtime method and have one -/
example : ∃ r ∈ chunk0, r.needsRuntime initCode laxEqCode = true ∧ r.found = true := by decide

/-- the exception lists are not empty today (known findings), i.e. the full statements
`∀ r ∈ rows, needsRuntime r → r.found` / `… → r.slots = r.rtparams` do not hold of this tree -/
example : missing ≠ [] ∧ arity ≠ [] := by decide

end Elk.C28
