import ElkVerif.Proofs.Hygiene
import ElkVerif.Proofs.HygieneTerm
/-!
# C31 — Macro expansion is hygienic except where explicitly unhygienic

Resolution part. The checker type-checks an expansion as `MacroBoundaryNode(body)`:
`pushMacroBoundaryLocalEnv(); checkStatements(body); popLocalEnv()` (`checker.go:4190`), and an
`unhygienic(e)` island by setting `unhygienicFlag` around `e` (`checker.go:4204`). Every local
read/assignment goes through `localEnvironment.resolveLocal(name, unhygienic)` and every
declaration through `addLocal` on the current environment (`local.go`). The theorems below are
about the model of exactly these functions (`Model/Hygiene.lean`), for ALL environment stacks,
names, binding identities and operation sequences.

In every statement the stack is written `inner ++ b :: outer`: `outer` is the caller's
environment chain at the macro call, `b` the boundary environment of the expansion
(`b.typ = macroBoundary`), `inner` whatever environments the expansion's own code has pushed
on top of it (blocks, conditionals, isolated environments, further boundaries).
-/
namespace Elk.C31
open Elk.Hygiene

/-- **The expansion does not see caller locals** (hygienic code): what a hygienic lookup from
inside a boundary returns does not depend on the caller's environments at all … -/
theorem caller_independent (n : Name) (inner : Stack) (b : Frame) (outer outer' : Stack)
    (hb : b.typ = .macroBoundary) :
    resolve n false (inner ++ b :: outer) = resolve n false (inner ++ b :: outer') :=
  resolveFrom_boundary_indep n inner b outer outer' hb 0 false

/-- … and every hit is a binding held by one of the expansion's own environments
(`inner ++ [b]`), never one defined outside the boundary. -/
theorem caller_invisible_inside (n : Name) (inner : Stack) (b : Frame) (outer : Stack)
    (hb : b.typ = .macroBoundary) (h : Hit)
    (hr : resolve n false (inner ++ b :: outer) = some h) :
    h.depth ≤ inner.length ∧
      ∃ f, (inner ++ [b])[h.depth]? = some f ∧ lookup n f.locals = some h.loc := by
  have hd := resolveFrom_hyg_depth n inner b outer hb 0 false h hr
  obtain ⟨_, f, hf, hl⟩ := resolveFrom_sound n false _ 0 false h hr
  refine ⟨by omega, f, ?_, hl⟩
  simp only [Nat.sub_zero] at hf
  by_cases hi : h.depth < inner.length
  · rw [List.getElem?_append_left hi] at hf
    rw [List.getElem?_append_left hi]; exact hf
  · have he : h.depth = inner.length := by omega
    rw [he] at hf ⊢
    simpa using hf

/-- a name bound only by the caller is undefined inside the boundary -/
theorem caller_only_name_undefined (n : Name) (inner : Stack) (b : Frame) (outer : Stack)
    (hb : b.typ = .macroBoundary)
    (hn : ∀ f ∈ inner ++ [b], lookup n f.locals = none) :
    resolve n false (inner ++ b :: outer) = none := by
  cases hr : resolve n false (inner ++ b :: outer) with
  | none => rfl
  | some h =>
    obtain ⟨_, f, hf, hl⟩ := caller_invisible_inside n inner b outer hb h hr
    have := hn f (List.mem_of_getElem? hf)
    rw [this] at hl; cases hl

/-- **Macro locals are invisible outside and never overwrite caller variables.** Checking an
expansion is `pushBoundary; body; pop` where the body's operations stay inside the boundary
(`depthAfter 1 body = some 1`: balanced pushes/pops, no pop of the boundary itself). Whatever
the body declares, the caller's environment stack afterwards is *identical* to the one before
the call … -/
theorem macro_locals_invisible_outside (body : List Op) (outer s' : Stack)
    (hbal : depthAfter 1 body = some 1)
    (hr : run (Op.pushBoundary :: body ++ [.pop]) outer = some s') :
    s' = outer := by
  have hd : depthAfter ([] : Stack).length (Op.pushBoundary :: body ++ [.pop]) = some 0 := by
    show depthAfter 0 (Op.pushNested .macroBoundary :: (body ++ [.pop])) = some 0
    simp only [depthAfter, Nat.zero_add]
    rw [depthAfter_append, hbal]; rfl
  obtain ⟨inner', hl, hs⟩ := run_frame _ [] outer s' 0 hd (by simpa using hr)
  have : inner' = [] := List.length_eq_zero_iff.mp hl
  subst this; simpa using hs

/-- … so every later lookup, hygienic or not, of every name — in particular of a name the
macro declared, and of a caller variable whose name the macro re-used — answers exactly as
before the call. -/
theorem no_overwrite (body : List Op) (outer s' : Stack) (n : Name) (u : Bool)
    (hbal : depthAfter 1 body = some 1)
    (hr : run (Op.pushBoundary :: body ++ [.pop]) outer = some s') :
    resolve n u s' = resolve n u outer := by
  rw [macro_locals_invisible_outside body outer s' hbal hr]

/-- the same *during* the expansion: at every point of the body the caller's environments sit
unchanged underneath the expansion's own (for any prefix `pre` of the body's operations) -/
theorem caller_frames_untouched_during (pre : List Op) (outer s : Stack) (k : Nat)
    (hd : depthAfter 1 pre = some k)
    (hr : run (Op.pushBoundary :: pre) outer = some s) :
    ∃ inner, inner.length = k ∧ s = inner ++ outer := by
  have hd0 : depthAfter ([] : Stack).length (Op.pushBoundary :: pre) = some k := by
    show depthAfter 0 (Op.pushNested .macroBoundary :: pre) = some k
    simpa [depthAfter] using hd
  exact run_frame _ [] outer s k hd0 (by simpa using hr)

/-- a declaration inside the boundary is visible inside (to hygienic code) … -/
theorem add_visible_inside (n : Name) (l : LocalId) (b : Frame) (outer : Stack) :
    resolve n false ({ b with locals := insert n l b.locals } :: outer) = some ⟨l, 0, false⟩ := by
  simp [resolve, resolveFrom, lookup_insert_same]

/-- **`unhygienic` sees the caller.** An unhygienic lookup of a name that the expansion's own
environments do not bind continues into the caller's chain and returns what the caller would
get there (`depth` counted from the inner environment; the conditional flag accumulates). -/
theorem unhygienic_sees_caller (n : Name) (inner : Stack) (b : Frame) (outer : Stack)
    (hp : ∀ f ∈ inner ++ [b], f.hasParent = true)
    (hn : ∀ f ∈ inner ++ [b], lookup n f.locals = none) :
    resolve n true (inner ++ b :: outer) =
      resolveFrom n true outer (inner.length + 1)
        ((inner ++ [b]).any fun f => decide (f.typ = .conditional)) := by
  have := resolveFrom_unhyg_skip n (inner ++ [b]) outer 0 false hp hn
  simpa [resolve] using this

/-- and it returns the caller's own binding -/
theorem unhygienic_sees_caller_loc (n : Name) (inner : Stack) (b : Frame) (outer : Stack)
    (hp : ∀ f ∈ inner ++ [b], f.hasParent = true)
    (hn : ∀ f ∈ inner ++ [b], lookup n f.locals = none) :
    (resolve n true (inner ++ b :: outer)).map (·.loc) = (resolve n true outer).map (·.loc) := by
  rw [unhygienic_sees_caller n inner b outer hp hn]
  simp only [resolve]
  generalize (inner.length + 1) = d
  generalize ((inner ++ [b]).any fun f => decide (f.typ = .conditional)) = k
  -- the location found does not depend on the counters
  suffices h : ∀ (s : Stack) d k d' k', (resolveFrom n true s d k).map (·.loc) = (resolveFrom n true s d' k').map (·.loc) from
    h outer d k 0 false
  intro s
  induction s with
  | nil => intros; rfl
  | cons f rest ih =>
    intro d k d' k'
    simp only [resolveFrom]
    cases lookup n f.locals with
    | some l => rfl
    | none =>
      simp only []
      split
      · rfl
      · split
        · exact ih _ _ _ _
        · rfl

/-- **α-renaming (hygienic identifiers).** Rename the names bound by the expansion's own
environments with any injective `ρ` (in particular: to fresh names) and rename the hygienic
identifier accordingly; replace the caller's environments by anything. The identifier resolves
to the same binding, at the same depth, with the same conditional flag. -/
theorem alpha (ρ : Name → Name) (hρ : ∀ a b, ρ a = ρ b → a = b)
    (n : Name) (inner : Stack) (b : Frame) (outer outer' : Stack) (hb : b.typ = .macroBoundary) :
    resolve (ρ n) false (inner.map (Frame.rename ρ) ++ Frame.rename ρ b :: outer') =
      resolve n false (inner ++ b :: outer) := by
  rw [caller_independent n inner b outer outer' hb]
  exact resolveFrom_rename ρ hρ n inner b outer' hb 0 false

/-- **α-renaming (unhygienic identifiers), full statement.** An identifier inside an
`unhygienic` island is caller code: it is *not* renamed. Renaming the macro's locals to names
that are fresh for it should not change what it resolves to. -/
def AlphaUnhygienicFull : Prop :=
  ∀ (ρ : Name → Name) (m : Name) (inner : Stack) (b : Frame) (outer : Stack),
    (∀ a b, ρ a = ρ b → a = b) → b.typ = .macroBoundary →
    (∀ f ∈ inner ++ [b], f.hasParent = true) →
    (∀ f ∈ inner ++ [b], ∀ p ∈ f.locals, ρ p.1 ≠ m) →          -- the new names are fresh for m
    (resolve m true (inner.map (Frame.rename ρ) ++ Frame.rename ρ b :: outer)).map (·.loc) =
      (resolve m true (inner ++ b :: outer)).map (·.loc)

/-- It does not hold of today's `resolveLocal`: the unhygienic walk starts at the *innermost*
environment, so a macro local that happens to have the caller's name captures the caller's
identifier. Macro `quote a := 1; !{unhygienic(e)} end` called as `m!(a)` with caller `a := 5`:
the boundary binds `a ↦ local 1`, the caller `a ↦ local 0`; the spliced `a` resolves to the
macro's local 1; after renaming the macro's `a` to the fresh `a'` it resolves to the caller's 0. -/
theorem unhygienic_capture_witness : ¬ AlphaUnhygienicFull := by
  intro h
  have := h (fun x => x + 100) 0 [] ⟨.macroBoundary, true, [(0, 1)]⟩ [⟨.default, false, [(0, 0)]⟩]
    (fun a b h => Nat.add_right_cancel h) rfl (by simp) (by simp)
  revert this
  decide

/-- What does hold: the statement for identifiers whose name the macro does not bind
(exactly the hypothesis that excludes the capture). -/
theorem alpha_unhygienic_partial (ρ : Name → Name) (m : Name) (inner : Stack) (b : Frame) (outer : Stack)
    (hp : ∀ f ∈ inner ++ [b], f.hasParent = true)
    (hfresh : ∀ f ∈ inner ++ [b], ∀ p ∈ f.locals, ρ p.1 ≠ m)
    (hn : ∀ f ∈ inner ++ [b], lookup m f.locals = none) :
    (resolve m true (inner.map (Frame.rename ρ) ++ Frame.rename ρ b :: outer)).map (·.loc) =
      (resolve m true (inner ++ b :: outer)).map (·.loc) := by
  rw [unhygienic_sees_caller_loc m inner b outer hp hn]
  have hp' : ∀ f ∈ inner.map (Frame.rename ρ) ++ [Frame.rename ρ b], f.hasParent = true := by
    intro f hf
    simp only [List.mem_append, List.mem_map, List.mem_singleton] at hf
    rcases hf with ⟨g, hg, rfl⟩ | rfl
    · exact hp g (by simp [hg])
    · exact hp b (by simp)
  have hn' : ∀ f ∈ inner.map (Frame.rename ρ) ++ [Frame.rename ρ b], lookup m f.locals = none := by
    intro f hf
    simp only [List.mem_append, List.mem_map, List.mem_singleton] at hf
    rcases hf with ⟨g, hg, rfl⟩ | rfl
    · exact lookup_rename_fresh ρ m g.locals (hfresh g (by simp [hg]))
    · exact lookup_rename_fresh ρ m b.locals (hfresh b (by simp))
  exact unhygienic_sees_caller_loc m (inner.map (Frame.rename ρ)) (Frame.rename ρ b) outer hp' hn'

/-- **α-equivalence of whole expansions.** `body` is any expansion body without `unhygienic`
islands: declarations, hygienic identifier occurrences, arbitrarily nested blocks (default /
conditional / further macro boundaries). Checking it as `MacroBoundaryNode(body)` on the caller's
stack `outer`, and checking the body with ALL its names consistently renamed (any injective ρ, in
particular to fresh names) on ANY other caller stack `outer'`, resolves every identifier
occurrence to the same binding (same list of local ids, in order) — for every fuel. -/
theorem alpha_body (ρ : Name → Name) (hρ : ∀ a b, ρ a = ρ b → a = b) (fuel : Nat) (body : List Tm)
    (outer outer' : Stack) (k : Nat) (hh : hygienicOnly fuel body = true) :
    (checkTms fuel (renameTms ρ fuel body) (⟨.macroBoundary, true, []⟩ :: outer') k).1 =
      (checkTms fuel body (⟨.macroBoundary, true, []⟩ :: outer) k).1 := by
  have := (alpha_body_aux ρ hρ fuel body [] ⟨.macroBoundary, true, []⟩ outer outer' k rfl hh).1
  simpa [Frame.rename] using this

/-- **α-equivalence of expansions with `unhygienic` islands (no-capture hypothesis).** `D` are the
names the macro body declares, `U` the names occurring inside its `unhygienic` islands (caller
code, not renamed). If no declared name is an island name (no capture) and the new names `ρ d`
are fresh for the islands, then checking the body and checking the renamed body as
`MacroBoundaryNode(…)` on the SAME caller stack resolve every identifier occurrence — hygienic
and unhygienic — to the same binding. (Without the no-capture hypothesis this is false:
`unhygienic_capture_witness`.) -/
theorem alpha_body_islands_partial (ρ : Name → Name) (hρ : ∀ a b, ρ a = ρ b → a = b)
    (D U : Name → Prop) (hDU : ∀ n, D n → ¬ U n) (hρU : ∀ n, D n → ¬ U (ρ n))
    (fuel : Nat) (body : List Tm) (outer : Stack) (k : Nat) (hok : okIslands D U fuel body) :
    (checkTms fuel (renameTms ρ fuel body) (⟨.macroBoundary, true, []⟩ :: outer) k).1 =
      (checkTms fuel body (⟨.macroBoundary, true, []⟩ :: outer) k).1 := by
  have hf : ∀ f ∈ ([] : Stack) ++ [(⟨.macroBoundary, true, []⟩ : Frame)], FrameOk D f := by
    intro f h; simp at h; rw [h]; exact ⟨rfl, by intro p hp; cases hp⟩
  have := (alpha_islands_aux ρ hρ D U hDU hρU fuel body [] ⟨.macroBoundary, true, []⟩ outer k rfl hok hf).1
  simpa [Frame.rename] using this

/-- … and the caller's stack is untouched by checking the body (any body, islands included) -/
theorem body_leaves_caller_stack (fuel : Nat) (body : List Tm) (outer : Stack) (k : Nat) :
    ((checkTms fuel body (⟨.macroBoundary, true, []⟩ :: outer) k).2.1).tail = outer := by
  obtain ⟨f', h, _, _⟩ := checkTms_shape fuel body ⟨.macroBoundary, true, []⟩ outer k
  rw [h]; rfl

/-! ### non-vacuity -/

/-- the hypotheses of `alpha_body_islands_partial` are met by a body that declares 0 and 2, reads
them hygienically and reads the caller's 1 inside an island -/
example :
    let body : List Tm := [.decl 0, .uread 1, .block .default [.decl 2, .read 0, .uread 1], .read 2]
    okIslands (fun n => n = 0 ∨ n = 2) (fun n => n = 1) 10 body ∧
    (checkTms 10 body (⟨.macroBoundary, true, []⟩ :: [⟨.default, false, [(0, 100), (1, 101)]⟩]) 0).1 =
      [some 101, some 0, some 101, none] := by
  refine ⟨by simp [okIslands], by decide⟩

/-- a body with a nested conditional block, shadowing and reads; caller binds the same names -/
example :
    let body : List Tm := [.decl 0, .read 0, .block .conditional [.read 0, .decl 0, .read 0, .read 1], .read 0, .read 1]
    let outer : Stack := [⟨.default, false, [(0, 100), (1, 101)]⟩]
    hygienicOnly 10 body = true ∧
    (checkTms 10 body (⟨.macroBoundary, true, []⟩ :: outer) 0).1 = [some 0, some 0, some 1, none, some 0, none] ∧
    (checkTms 10 (renameTms (· + 50) 10 body) (⟨.macroBoundary, true, []⟩ :: []) 0).1 = [some 0, some 0, some 1, none, some 0, none] := by
  decide


/-- a balanced body with a nested block and declarations meets `depthAfter 1 body = some 1`,
runs, and leaves the caller's stack as it was -/
example :
    let body := [Op.add 0 7, .pushNested .conditional, .add 1 8, .add 0 9, .pop, .add 2 10]
    let outer : Stack := [⟨.default, false, [(0, 1), (1, 2)]⟩]
    depthAfter 1 body = some 1 ∧ run (Op.pushBoundary :: body ++ [.pop]) outer = some outer := by
  decide

/-- hygiene in action: caller binds 0 ↦ 1; inside the boundary 0 is undefined hygienically,
visible unhygienically; after `add 0 7` inside, hygienic code sees 7 and the caller still 1 -/
example :
    let outer : Stack := [⟨.default, false, [(0, 1)]⟩]
    resolve 0 false (⟨.macroBoundary, true, []⟩ :: outer) = none ∧
    resolve 0 true (⟨.macroBoundary, true, []⟩ :: outer) = some ⟨1, 1, false⟩ ∧
    resolve 0 false (⟨.macroBoundary, true, [(0, 7)]⟩ :: outer) = some ⟨7, 0, false⟩ ∧
    resolve 0 false outer = some ⟨1, 0, false⟩ := by
  decide

/-- the hypotheses of `alpha_unhygienic_partial` are satisfiable with a non-trivial macro frame -/
example :
    let ρ : Name → Name := fun x => x + 100
    let b : Frame := ⟨.macroBoundary, true, [(1, 5)]⟩
    (∀ f ∈ ([] : Stack) ++ [b], f.hasParent = true) ∧
    (∀ f ∈ ([] : Stack) ++ [b], ∀ p ∈ f.locals, ρ p.1 ≠ 0) ∧
    (∀ f ∈ ([] : Stack) ++ [b], lookup 0 f.locals = none) := by
  simp [lookup]

end Elk.C31
