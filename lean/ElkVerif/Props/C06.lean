import ElkVerif.Proofs.Int
/-!
# C06 — Int arithmetic is exact and independent of integer representation

`⟦v⟧ = v.den`.  Every theorem is about `binVal`/`unVal`, the model of `value.<Op>Val` on two Ints
(the entry point of the VM's generic opcodes, of the typed `*_INT` opcodes and of the constant
folder), for **all** operands in **both** representations, normalised or not.
`v.Is z` means: `v` denotes `z` *and* is in normal form (a `big` never holds a word-sized value).
-/
namespace Elk.C06
open Elk.IntM

/-! ## exactness of `+ - * **`, negation, `++`/`--`, `~` -/

theorem add_exact (a b : IntV) : ∃ v, binVal .add a b = .val v ∧ v.den = a.den + b.den ∧ v.Normal := by
  obtain ⟨v, h, hd, hn⟩ := binVal_add a b; exact ⟨v, h, hd, hn⟩

theorem sub_exact (a b : IntV) : ∃ v, binVal .sub a b = .val v ∧ v.den = a.den - b.den ∧ v.Normal := by
  obtain ⟨v, h, hd, hn⟩ := binVal_sub a b; exact ⟨v, h, hd, hn⟩

theorem mul_exact (a b : IntV) : ∃ v, binVal .mul a b = .val v ∧ v.den = a.den * b.den ∧ v.Normal := by
  obtain ⟨v, h, hd, hn⟩ := binVal_mul a b; exact ⟨v, h, hd, hn⟩

theorem neg_exact (a : IntV) : ∃ v, unVal .neg a = .val v ∧ v.den = -a.den ∧ v.Normal := by
  obtain ⟨v, h, hd, hn⟩ := unVal_neg a; exact ⟨v, h, hd, hn⟩

theorem inc_exact (a : IntV) : ∃ v, unVal .inc a = .val v ∧ v.den = a.den + 1 ∧ v.Normal := by
  obtain ⟨v, h, hd, hn⟩ := unVal_inc a; exact ⟨v, h, hd, hn⟩

theorem dec_exact (a : IntV) : ∃ v, unVal .dec a = .val v ∧ v.den = a.den - 1 ∧ v.Normal := by
  obtain ⟨v, h, hd, hn⟩ := unVal_dec a; exact ⟨v, h, hd, hn⟩

/-- `~a = -a - 1` -/
theorem not_exact (a : IntV) : ∃ v, unVal .not a = .val v ∧ v.den = -a.den - 1 ∧ (a.Normal → v.Normal) := by
  obtain ⟨v, h, hd⟩ := unVal_not_den a
  refine ⟨v, h, by rw [hd, int_not_eq], fun ha => ?_⟩
  obtain ⟨w, hw, _, hn⟩ := unVal_not a ha
  rw [h] at hw; cases hw; exact hn

/-- `a ** n` for a non-negative exponent -/
theorem pow_exact (a b : IntV) (hn : 0 ≤ b.den) :
    ∃ v, binVal .pow a b = .val v ∧ v.den = a.den ^ b.den.toNat ∧ v.Normal := by
  obtain ⟨v, h, hd, hnorm⟩ := binVal_pow a b
  refine ⟨v, h, ?_, hnorm⟩
  rw [hd, bigExp]
  by_cases h0 : b.den ≤ 0
  · have : b.den = 0 := by omega
    simp [this]
  · simp [h0]

/-! ## division truncates toward zero, `%` takes the sign of the dividend -/

theorem div_zero (a b : IntV) : b.den = 0 ↔ binVal .div a b = .zeroDiv := by
  constructor
  · exact binVal_div_zero a b
  · intro h
    by_cases hb : b.den = 0
    · exact hb
    · obtain ⟨v, hv, _⟩ := binVal_div a b hb
      rw [hv] at h; cases h

theorem mod_zero (a b : IntV) : b.den = 0 ↔ binVal .mod a b = .zeroDiv := by
  constructor
  · exact binVal_mod_zero a b
  · intro h
    by_cases hb : b.den = 0
    · exact hb
    · obtain ⟨v, hv, _⟩ := binVal_mod a b hb
      rw [hv] at h; cases h

theorem div_trunc (a b : IntV) (hb : b.den ≠ 0) :
    ∃ q, binVal .div a b = .val q ∧ q.den = Int.tdiv a.den b.den ∧ q.Normal := by
  obtain ⟨v, h, hd, hn⟩ := binVal_div a b hb; exact ⟨v, h, hd, hn⟩

theorem mod_sign (a b : IntV) (hb : b.den ≠ 0) :
    ∃ r, binVal .mod a b = .val r ∧ r.den = Int.tmod a.den b.den ∧ r.Normal ∧
      (0 ≤ a.den → 0 ≤ r.den) ∧ (a.den ≤ 0 → r.den ≤ 0) ∧ r.den.natAbs < b.den.natAbs := by
  obtain ⟨v, h, hd, hn⟩ := binVal_mod a b hb
  refine ⟨v, h, hd, hn, ?_, ?_, ?_⟩
  · intro h0; rw [hd]; exact Int.tmod_nonneg _ h0
  · intro h0; rw [hd]
    have := Int.tmod_nonneg (b := b.den) (a := -a.den) (by omega)
    rw [Int.neg_tmod] at this; omega
  · rw [hd]
    have := tmod_abs_lt a.den b.den
    omega

/-- `a == (a / b) * b + a % b` -/
theorem div_mod_identity (a b q r : IntV)
    (hq : binVal .div a b = .val q) (hr : binVal .mod a b = .val r) :
    a.den = q.den * b.den + r.den := by
  have hb : b.den ≠ 0 := by
    intro h0; rw [(div_zero a b).mp h0] at hq; cases hq
  obtain ⟨q', hq', hqd, _⟩ := binVal_div a b hb
  obtain ⟨r', hr', hrd, _⟩ := binVal_mod a b hb
  rw [hq] at hq'; rw [hr] at hr'
  cases hq'; cases hr'
  rw [hqd, hrd]
  have := Int.tmod_add_tdiv_mul a.den b.den
  omega

/-- the quotient rounds toward zero: `|q·b| ≤ |a|`, and the remainder is smaller than the divisor -/
theorem div_toward_zero (a b : IntV) (hb : b.den ≠ 0) :
    ∃ q, binVal .div a b = .val q ∧ (q.den * b.den).natAbs ≤ a.den.natAbs := by
  obtain ⟨q, h, hd, _⟩ := binVal_div a b hb
  refine ⟨q, h, ?_⟩
  rw [hd]
  have h1 := Int.tmod_add_tdiv_mul a.den b.den
  have h2 : 0 ≤ a.den → 0 ≤ Int.tmod a.den b.den := fun h => Int.tmod_nonneg _ h
  have h3 : a.den ≤ 0 → Int.tmod a.den b.den ≤ 0 := by
    intro h0
    have := Int.tmod_nonneg (b := b.den) (a := -a.den) (by omega)
    rw [Int.neg_tmod] at this; omega
  have h4 : 0 ≤ a.den → 0 ≤ (Int.tdiv a.den b.den) * b.den := by
    intro h0
    rcases Int.lt_or_gt_of_ne hb with hneg | hpos
    · have := Int.tdiv_nonpos_of_nonneg_of_nonpos h0 (by omega : b.den ≤ 0)
      have := Int.mul_nonneg_of_nonpos_of_nonpos this (by omega : b.den ≤ 0)
      exact this
    · exact Int.mul_nonneg (Int.tdiv_nonneg h0 (by omega)) (by omega)
  have h5 : a.den ≤ 0 → (Int.tdiv a.den b.den) * b.den ≤ 0 := by
    intro h0
    rcases Int.lt_or_gt_of_ne hb with hneg | hpos
    · have := Int.tdiv_nonneg_of_nonpos_of_nonpos h0 (by omega : b.den ≤ 0)
      exact Int.mul_nonpos_of_nonneg_of_nonpos this (by omega)
    · have : Int.tdiv a.den b.den ≤ 0 := by
        have := Int.tdiv_nonneg (a := -a.den) (b := b.den) (by omega) (by omega)
        rw [Int.neg_tdiv] at this; omega
      exact Int.mul_nonpos_of_nonpos_of_nonneg this (by omega)
  generalize Int.tdiv a.den b.den * b.den = P at *
  omega

/-! ## shifts: `a << n = a * 2^n`, `a >> n = ⌊a / 2^n⌋`, a negative count reverses the direction

The count is any Int (small or big) whose value lies strictly inside the word range; counts of
magnitude ≥ 2^63 are outside the modelled property (docs/C06.md). -/

theorem shl_exact (a b : IntV) (hn : -(2^63 : Int) < b.den ∧ b.den < 2^63) :
    ∃ v, binVal .shl a b = .val v ∧
      v.den = (if 0 ≤ b.den then a.den * 2 ^ b.den.toNat else a.den >>> (-b.den).toNat) ∧
      (a.Normal → v.Normal) := by
  obtain ⟨v, h, hd, hnorm⟩ := binVal_shl a b hn
  exact ⟨v, h, hd, hnorm⟩

theorem shr_exact (a b : IntV) (hn : -(2^63 : Int) < b.den ∧ b.den < 2^63) :
    ∃ v, binVal .shr a b = .val v ∧
      v.den = (if 0 ≤ b.den then a.den >>> b.den.toNat else a.den * 2 ^ (-b.den).toNat) ∧
      (a.Normal → v.Normal) := by
  obtain ⟨v, h, hd, hnorm⟩ := binVal_shr a b hn
  refine ⟨v, h, ?_, hnorm⟩
  rw [hd, shlSpec]
  by_cases h0 : b.den = 0
  · simp [h0]
  · by_cases hp : 0 ≤ b.den
    · rw [if_neg (show ¬ (0 ≤ -b.den) by omega), if_pos hp, Int.neg_neg]
    · rw [if_pos (show 0 ≤ -b.den by omega), if_neg hp]

/-- Full-strength statement for right shifts (every non-negative count, of any magnitude). It does
**not** hold of the code: a count that does not fit a machine word is answered with 0 without
looking at the receiver's sign (`SmallInt.RightBitshiftBigInt`, `BigInt.RightBitshiftBigInt`:
`return SmallInt(0)`), and the most negative `SmallInt` count negates to itself. -/
def ShrExactAllCounts : Prop :=
  ∀ a b : IntV, 0 ≤ b.den → ∃ v, binVal .shr a b = .val v ∧ v.den = a.den >>> b.den.toNat

/-- kernel-checked witness: `-1 >> 2**64` is 0 in the model (which mirrors the code), the exact value is -1 -/
theorem huge_count_witness : ¬ ShrExactAllCounts := by
  intro h
  obtain ⟨v, hv, hd⟩ := h (.small (-1#64)) (.big (2^64)) (by decide)
  have : binVal .shr (.small (-1#64)) (.big (2^64)) = .val (.small 0#64) := by decide
  rw [this] at hv; cases hv
  revert hd; decide

/-- the right shift is the floor of the quotient (rounds toward negative infinity) -/
theorem shr_is_floor (x : Int) (n : Nat) : x >>> n = x / (2 ^ n : Int) := by
  rw [Int.shiftRight_eq_div_pow]; norm_cast

/-! ## bitwise operators: bit `i` of the result is the operation on bit `i` of the operands,
for every `i`, in infinite two's complement (`tbit a i` is the parity of `⌊a / 2^i⌋`) -/

theorem tbit_is_arithmetic (a : Int) (i : Nat) : tbit a i = decide ((a >>> i) % 2 = 1) :=
  tbit_eq_shift a i

/-- the bits determine the integer, so the four theorems below fix the results completely -/
theorem bits_determine (a b : Int) (h : ∀ i, tbit a i = tbit b i) : a = b := tbit_ext a b h

theorem and_exact (a b : IntV) :
    ∃ v, binVal .and a b = .val v ∧ v.Normal ∧ ∀ i, tbit v.den i = (tbit a.den i && tbit b.den i) := by
  obtain ⟨v, h, hd, hn⟩ := binVal_and a b
  exact ⟨v, h, hn, fun i => by rw [hd, tbit_land]⟩

theorem or_exact (a b : IntV) :
    ∃ v, binVal .or a b = .val v ∧ v.Normal ∧ ∀ i, tbit v.den i = (tbit a.den i || tbit b.den i) := by
  obtain ⟨v, h, hd, hn⟩ := binVal_or a b
  exact ⟨v, h, hn, fun i => by rw [hd, tbit_lor]⟩

theorem xor_exact (a b : IntV) :
    ∃ v, binVal .xor a b = .val v ∧ v.Normal ∧ ∀ i, tbit v.den i = (tbit a.den i ^^ tbit b.den i) := by
  obtain ⟨v, h, hd, hn⟩ := binVal_xor a b
  exact ⟨v, h, hn, fun i => by rw [hd, tbit_lxor]⟩

theorem andNot_exact (a b : IntV) :
    ∃ v, binVal .andNot a b = .val v ∧ v.Normal ∧ ∀ i, tbit v.den i = (tbit a.den i && !tbit b.den i) := by
  obtain ⟨v, h, hd, hn⟩ := binVal_andNot a b
  exact ⟨v, h, hn, fun i => by rw [hd, tbit_landNot]⟩

theorem not_bits (a : IntV) : ∃ v, unVal .not a = .val v ∧ ∀ i, tbit v.den i = !tbit a.den i := by
  obtain ⟨v, h, hd⟩ := unVal_not_den a
  exact ⟨v, h, fun i => by rw [hd, tbit_not]⟩

/-! ## comparisons -/

theorem cmp_exact (a b : IntV) :
    binVal .cmp a b = .val (.small (BitVec.ofInt 64 (if a.den < b.den then -1 else if a.den = b.den then 0 else 1))) := by
  simp only [binVal, cmpInt_spec, bigCmp]

theorem lt_exact (a b : IntV) : binVal .lt a b = .bool (decide (a.den < b.den)) := by
  simp only [binVal, cmpInt_spec]
  rcases bigCmp_cases a.den b.den with ⟨h, e⟩ | ⟨h, e⟩ | ⟨h, e⟩ <;> rw [e] <;> simp <;> omega

theorem le_exact (a b : IntV) : binVal .le a b = .bool (decide (a.den ≤ b.den)) := by
  simp only [binVal, cmpInt_spec]
  rcases bigCmp_cases a.den b.den with ⟨h, e⟩ | ⟨h, e⟩ | ⟨h, e⟩ <;> rw [e] <;> simp <;> omega

theorem gt_exact (a b : IntV) : binVal .gt a b = .bool (decide (a.den > b.den)) := by
  simp only [binVal, cmpInt_spec]
  rcases bigCmp_cases a.den b.den with ⟨h, e⟩ | ⟨h, e⟩ | ⟨h, e⟩ <;> rw [e] <;> simp <;> omega

theorem ge_exact (a b : IntV) : binVal .ge a b = .bool (decide (a.den ≥ b.den)) := by
  simp only [binVal, cmpInt_spec]
  rcases bigCmp_cases a.den b.den with ⟨h, e⟩ | ⟨h, e⟩ | ⟨h, e⟩ <;> rw [e] <;> simp <;> omega

theorem eq_exact (a b : IntV) : binVal .eq a b = .bool (decide (a.den = b.den)) := by
  simp only [binVal, cmpInt_spec]
  rcases bigCmp_cases a.den b.den with ⟨h, e⟩ | ⟨h, e⟩ | ⟨h, e⟩ <;> rw [e] <;> simp <;> omega

/-! ## one representation per value -/

/-- two normal forms of the same integer are the same value -/
theorem repr_unique (a b : IntV) (ha : a.Normal) (hb : b.Normal) (h : a.den = b.den) : a = b :=
  normal_unique a b ha hb h

/-- hence equal `inspect` output and equal bytes fed to the hash function -/
theorem indistinguishable (a b : IntV) (ha : a.Normal) (hb : b.Normal) (h : a.den = b.den) :
    inspect a = inspect b ∧ hashKey a = hashKey b ∧ binVal .eq a b = .bool true := by
  have := repr_unique a b ha hb h
  subst this
  exact ⟨rfl, rfl, by rw [eq_exact]; simp⟩

/-- normal form is what makes this true: an un-normalised `big 5` is `==` to `small 5` but hashes
other bytes (kernel-checked witness; this is why every operator has to normalise) -/
theorem unnormalised_distinguishable_witness :
    binVal .eq (.big 5) (.small 5#64) = .bool true ∧ hashKey (.big 5) ≠ hashKey (.small 5#64) := by decide

/-- results do not depend on how the operands are represented: computing through `BigInt`
operands gives the very same value as computing through `SmallInt` operands -/
theorem repr_independent_arith (op : Op)
    (hop : op = .add ∨ op = .sub ∨ op = .mul ∨ op = .pow ∨ op = .and ∨ op = .or ∨ op = .xor ∨ op = .andNot)
    (a a' b b' : IntV) (ha : a.den = a'.den) (hb : b.den = b'.den) :
    binVal op a b = binVal op a' b' := by
  rcases hop with h | h | h | h | h | h | h | h <;> subst h
  · obtain ⟨v, hv, hi⟩ := binVal_add a b; obtain ⟨w, hw, hj⟩ := binVal_add a' b'
    rw [hv, hw, is_unique hi (by rw [ha, hb]; exact hj)]
  · obtain ⟨v, hv, hi⟩ := binVal_sub a b; obtain ⟨w, hw, hj⟩ := binVal_sub a' b'
    rw [hv, hw, is_unique hi (by rw [ha, hb]; exact hj)]
  · obtain ⟨v, hv, hi⟩ := binVal_mul a b; obtain ⟨w, hw, hj⟩ := binVal_mul a' b'
    rw [hv, hw, is_unique hi (by rw [ha, hb]; exact hj)]
  · obtain ⟨v, hv, hi⟩ := binVal_pow a b; obtain ⟨w, hw, hj⟩ := binVal_pow a' b'
    rw [hv, hw, is_unique hi (by rw [ha, hb]; exact hj)]
  · obtain ⟨v, hv, hi⟩ := binVal_and a b; obtain ⟨w, hw, hj⟩ := binVal_and a' b'
    rw [hv, hw, is_unique hi (by rw [ha, hb]; exact hj)]
  · obtain ⟨v, hv, hi⟩ := binVal_or a b; obtain ⟨w, hw, hj⟩ := binVal_or a' b'
    rw [hv, hw, is_unique hi (by rw [ha, hb]; exact hj)]
  · obtain ⟨v, hv, hi⟩ := binVal_xor a b; obtain ⟨w, hw, hj⟩ := binVal_xor a' b'
    rw [hv, hw, is_unique hi (by rw [ha, hb]; exact hj)]
  · obtain ⟨v, hv, hi⟩ := binVal_andNot a b; obtain ⟨w, hw, hj⟩ := binVal_andNot a' b'
    rw [hv, hw, is_unique hi (by rw [ha, hb]; exact hj)]

theorem repr_independent_divmod (op : Op) (hop : op = .div ∨ op = .mod)
    (a a' b b' : IntV) (ha : a.den = a'.den) (hb : b.den = b'.den) :
    binVal op a b = binVal op a' b' := by
  by_cases h0 : b.den = 0
  · have h0' : b'.den = 0 := by rw [← hb]; exact h0
    rcases hop with h | h <;> subst h
    · rw [binVal_div_zero a b h0, binVal_div_zero a' b' h0']
    · rw [binVal_mod_zero a b h0, binVal_mod_zero a' b' h0']
  · have h0' : b'.den ≠ 0 := by rw [← hb]; exact h0
    rcases hop with h | h <;> subst h
    · obtain ⟨v, hv, hi⟩ := binVal_div a b h0; obtain ⟨w, hw, hj⟩ := binVal_div a' b' h0'
      rw [hv, hw, is_unique hi (by rw [ha, hb]; exact hj)]
    · obtain ⟨v, hv, hi⟩ := binVal_mod a b h0; obtain ⟨w, hw, hj⟩ := binVal_mod a' b' h0'
      rw [hv, hw, is_unique hi (by rw [ha, hb]; exact hj)]

/-! ## C09 helper part: the `value.<Op>Ints` family is the same function -/

theorem helpers_exact (op : Op) (a b : IntV) : binInts op a b = binVal op a b :=
  binInts_eq_binVal op a b

theorem helpers_exact_unary (op : UOp) (a : IntV) : unInts op a = unVal op a :=
  unInts_eq_unVal op a

/-- comparisons see only the values -/
theorem repr_independent_cmp (op : Op) (hop : op = .cmp ∨ op = .gt ∨ op = .ge ∨ op = .lt ∨ op = .le ∨ op = .eq)
    (a a' b b' : IntV) (ha : a.den = a'.den) (hb : b.den = b'.den) :
    binVal op a b = binVal op a' b' := by
  rcases hop with h | h | h | h | h | h <;> subst h <;> simp only [binVal, cmpInt_spec, ha, hb]

/-- closure of the normal forms under every operator (the count of a shift inside the word range) -/
theorem normal_closed (op : Op) (a b v : IntV) (ha : a.Normal) (hb : b.Normal)
    (hcount : (op = .shl ∨ op = .shr) → -(2^63 : Int) < b.den ∧ b.den < 2^63)
    (h : binVal op a b = .val v) : v.Normal := by
  cases op
  case add => obtain ⟨w, hw, _, hn⟩ := binVal_add a b; rw [h] at hw; cases hw; exact hn
  case sub => obtain ⟨w, hw, _, hn⟩ := binVal_sub a b; rw [h] at hw; cases hw; exact hn
  case mul => obtain ⟨w, hw, _, hn⟩ := binVal_mul a b; rw [h] at hw; cases hw; exact hn
  case pow => obtain ⟨w, hw, _, hn⟩ := binVal_pow a b; rw [h] at hw; cases hw; exact hn
  case and => obtain ⟨w, hw, _, hn⟩ := binVal_and a b; rw [h] at hw; cases hw; exact hn
  case or => obtain ⟨w, hw, _, hn⟩ := binVal_or a b; rw [h] at hw; cases hw; exact hn
  case xor => obtain ⟨w, hw, _, hn⟩ := binVal_xor a b; rw [h] at hw; cases hw; exact hn
  case andNot => obtain ⟨w, hw, _, hn⟩ := binVal_andNot a b; rw [h] at hw; cases hw; exact hn
  case div =>
    by_cases h0 : b.den = 0
    · rw [binVal_div_zero a b h0] at h; cases h
    · obtain ⟨w, hw, _, hn⟩ := binVal_div a b h0; rw [h] at hw; cases hw; exact hn
  case mod =>
    by_cases h0 : b.den = 0
    · rw [binVal_mod_zero a b h0] at h; cases h
    · obtain ⟨w, hw, _, hn⟩ := binVal_mod a b h0; rw [h] at hw; cases hw; exact hn
  case shl => obtain ⟨w, hw, _, hn⟩ := binVal_shl a b (hcount (Or.inl rfl)); rw [h] at hw; cases hw; exact hn ha
  case shr => obtain ⟨w, hw, _, hn⟩ := binVal_shr a b (hcount (Or.inr rfl)); rw [h] at hw; cases hw; exact hn ha
  case cmp => simp only [binVal] at h; cases h; trivial
  all_goals (simp only [binVal] at h; cases h)

/-! ## non-vacuity -/
example : binVal .add (.small (BitVec.ofInt 64 (2^63 - 1))) (.small 1#64) = .val (.big (2^63)) := by decide
example : binVal .sub (.big (2^63)) (.small 1#64) = .val (.small (BitVec.ofInt 64 (2^63 - 1))) := by decide
example : binVal .div (.small (-7#64)) (.big (10^30)) = .val (.small 0#64) := by decide
example : binVal .mod (.small (-7#64)) (.big (10^30)) = .val (.small (-7#64)) := by decide
example : binVal .div (.small (BitVec.intMin 64)) (.small (-1#64)) = .val (.big (2^63)) := by decide
example : (IntV.big (2^64)).Normal ∧ ¬ (IntV.big 5).Normal := by decide
example : binVal .shl (.small 1#64) (.small 64#64) = .val (.big (2^64)) := by decide
example : binVal .shl (.small (-1#64)) (.small 63#64) = .val (.small (BitVec.intMin 64)) := by decide
example : binVal .shr (.big (-(2^64) - 1)) (.small 1#64) = .val (.big (-(2^63) - 1)) := by decide
example : binVal .shl (.big (2^64)) (.small (-1#64)) = .val (.big (2^63)) := by decide
example : binVal .and (.small (-1#64)) (.big (2^64 + 5)) = .val (.big (2^64 + 5)) := by decide +kernel
example : binVal .andNot (.big (2^64 + 5)) (.small 1#64) = .val (.big (2^64 + 4)) := by decide +kernel

end Elk.C06
