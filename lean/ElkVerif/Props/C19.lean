import ElkVerif.Model.Inspect
import ElkVerif.Proofs.Utf8
/-!
# C19 — inspect output is Elk source that evaluates back to an equal value
-/
namespace Elk.C19
open Elk.Inspect Elk.Utf8

/-- the lexer reads back every `%x` digit -/
theorem hexVal_hexDigit (n : Nat) (h : n < 16) : hexVal (hexDigit n) = some n := by
  have : ∀ n : Fin 16, hexVal (hexDigit n.val) = some n.val := by decide
  exact this ⟨n, h⟩

end Elk.C19
