import ElkVerif.Proofs.Inspect
import ElkVerif.Proofs.Symbol
import ElkVerif.Proofs.ToInt
import ElkVerif.Proofs.FloatInspect
import ElkVerif.Model.Ranges
import ElkVerif.Gen.Unicode
/-!
# C19 — inspect output is Elk source that evaluates back to an equal value

`inspectString/inspectChar/showInt` mirror `value.String.Inspect`, `value.Char.Inspect`,
`SmallInt/BigInt.Inspect`; `readString/readChar/readInt/readIntLit/parseBigInt` mirror the lexer
(`scanStringLiteral…`, `character`, `numberLiteral`) followed by the parser/`resolveInt`
(`ParseBigInt`). Strings are arbitrary byte lists (valid UTF-8 or not); `g` is
`unicode.IsGraphic`, `L` is `unicode.IsLetter` — the theorems hold for *every* such function.
-/
namespace Elk.C19
open Elk.Inspect Elk.Utf8 Elk.FloatInspect

/-- **Strings.** For every byte string — valid UTF-8, invalid bytes, control and non-graphic
characters, astral code points — and whatever the Unicode classification is, the lexer reads the
`inspect` output back as exactly the original bytes. -/
theorem string_roundtrip (g L : Nat → Bool) (bs : Bytes) :
    readString L (inspectString g bs) = some bs :=
  readString_inspectString g L bs

/-- **Chars.** Every Unicode scalar value is read back from its `inspect` output. -/
theorem char_roundtrip (g : Nat → Bool) (c : Nat) (hv : ValidScalar c) :
    readChar (inspectChar g c) = some c :=
  readChar_inspectChar g c hv

example : ValidScalar 0x80 ∧ ValidScalar 0x10FFFF := by unfold ValidScalar; omega

/-- Chars outside the scalar values (surrogates) have no literal: the lexer's `WriteRune` turns the
escape into U+FFFD. Such Chars cannot be built from Elk source or from strings. -/
theorem char_surrogate_witness : readChar (inspectChar (fun _ => false) 0xD800) = some 0xFFFD := by
  simp [inspectChar, charEscape, escapeRune, hex4, hexDigit, byte, readChar, decodeRune, readEscape,
    charUnescape, parseHexN, hexVal, encodeRune, isCont, lo2, hi2, runeError]

/-- **Ints.** Every integer is read back from its decimal `inspect` output (a literal, with a
unary minus applied for negative numbers). -/
theorem int_roundtrip (n : Int) : readInt (showInt n) = some n :=
  readInt_showInt n

/-- **Integer literals denote their positional value** in every base that has a literal syntax,
with an optional single `_` in front of any digit after the first.
`litPrefix` is `0x 0d 0o 0q 0b` or empty; `ofDigits base 0 ds = Σ dᵢ·base^(n-1-i)`. -/
theorem literal_value (base : Nat) (hb : LitBase base) (d0 : Nat) (rest : List (Bool × Nat))
    (h0 : d0 < base) (hr : ∀ p ∈ rest, p.2 < base) :
    readIntLit (litPrefix base ++ (digitByte d0 :: litBody rest)) =
      some (ofDigits base 0 (d0 :: rest.map (·.2)) : Int) := by
  rcases hb with rfl | rfl | rfl | rfl | rfl | rfl
  · exact readIntLit_bin d0 rest h0 hr
  · exact readIntLit_quat d0 rest h0 hr
  · exact readIntLit_oct d0 rest h0 hr
  · exact readIntLit_dec d0 rest h0 hr
  · exact readIntLit_duo d0 rest h0 hr
  · exact readIntLit_hex d0 rest h0 hr

/-- the positional value is the usual sum: appending a digit multiplies by the base -/
theorem ofDigits_snoc (base : Nat) (ds : List Nat) (d : Nat) :
    ofDigits base 0 (ds ++ [d]) = ofDigits base 0 ds * base + d := by
  simp [ofDigits, List.foldl_append]

example : readIntLit (litPrefix 16 ++ (digitByte 15 :: litBody [(true, 15), (false, 0)])) = some 0xFF0 :=
  literal_value 16 (by simp [LitBase]) 15 [(true, 15), (false, 0)] (by omega) (by simp)

/-- **`String#to_int(base)`**, explicit base 2…36: optional sign, digits in either case and `_`
anywhere; the result is exactly the positional value of the digits (`TChar` = `_` | digit). -/
theorem to_int_value (base : Nat) (h2 : 2 ≤ base) (h36 : base ≤ 36) (xs : List TChar) (hne : xs ≠ [])
    (hok : ∀ x ∈ xs, x.ok base) :
    parseBigInt (xs.map TChar.byte) base = .ok (ofDigits base 0 (xs.filterMap TChar.val?) : Int) ∧
    parseBigInt (0x2D :: xs.map TChar.byte) base = .ok (-(ofDigits base 0 (xs.filterMap TChar.val?) : Int)) ∧
    parseBigInt (0x2B :: xs.map TChar.byte) base = .ok (ofDigits base 0 (xs.filterMap TChar.val?) : Int) :=
  parseBigInt_explicit base h2 h36 xs hne hok

/-- `String#to_int` with base inference from a `0x 0d 0o 0q 0b` prefix -/
theorem to_int_prefixed (base : Nat) (hb : LitBase base) (h10 : base ≠ 10) (xs : List TChar) (hne : xs ≠ [])
    (hok : ∀ x ∈ xs, x.ok base) :
    parseBigInt (litPrefix base ++ xs.map TChar.byte) 0 = .ok (ofDigits base 0 (xs.filterMap TChar.val?) : Int) :=
  parseBigInt_prefixed base hb h10 xs hne hok

example : parseBigInt ([TChar.up 35, .us, .lo 35].map TChar.byte) 36 = .ok (35 * 36 + 35 : Int) :=
  (to_int_value 36 (by omega) (by omega) _ (by simp) (by simp [TChar.ok])).1

/-! ### Floats (strconv is a parameter; its contract is a hypothesis) -/

/-- **Floats (finite).** `inspect` of a `Float`/`Float64`/`Float32` is read back (unary minus, one
float literal of the right kind, `strconv.ParseFloat` on its lexeme) as the same value — under
strconv's contract for that value (`StrconvContract`: the printed shape and the shortest
round trip), which is a hypothesis here and is exercised on generated bit patterns by the check. -/
theorem float_roundtrip {F : Type} (S : Strconv F) (k : Kind) (x : F)
    (hn : S.isNaN x = false) (hp : S.isPosInf x = false) (hm : S.isNegInf x = false)
    (hc : StrconvContract S k x) :
    readFinite S k (inspectFloat S k x) = some x :=
  readFinite_inspectFloat S k x hn hp hm hc

/-- the lexer side of it, without any assumption on strconv: every text of the shape
`digits[.digits][e[+-]digits][f64|f32]` is one number token whose lexeme is the text without suffix -/
theorem float_text_lexes (i0 : Nat) (I : List Nat) (h0 : i0 < 10) (hI : ∀ d ∈ I, d < 10)
    (Fr : Option (Nat × List Nat)) (hF : fracOk Fr) (E : Option (Option Bool × Nat × List Nat)) (hE : expOk E)
    (suf : Bytes) (hsuf : IsSuffix suf) :
    lexNumber (digs (i0 :: I) ++ (fracBytes Fr ++ (expBytes E ++ suf))) =
      some (tokFor Fr E suf, digs (i0 :: I) ++ fracBytes Fr ++ expBytes E) :=
  lexNumber_render i0 I h0 hI Fr hF E hE suf hsuf

/-- non-finite values print the constants of their class (declared in the headers since `3ae0e77`) -/
theorem float_nonfinite {F : Type} (S : Strconv F) (k : Kind) (x : F) :
    (S.isNaN x = true → inspectFloat S k x = className k ++ "::NAN".toUTF8.toList) ∧
    (S.isNaN x = false → S.isPosInf x = true → inspectFloat S k x = className k ++ "::INF".toUTF8.toList) ∧
    (S.isNaN x = false → S.isPosInf x = false → S.isNegInf x = true →
      inspectFloat S k x = className k ++ "::NEG_INF".toUTF8.toList) := by
  refine ⟨fun h => by simp [inspectFloat, h], fun h1 h2 => by simp [inspectFloat, h1, h2],
    fun h1 h2 h3 => by simp [inspectFloat, h1, h2, h3]⟩

/-- non-vacuity: a toy `Strconv` whose only value prints as `1.5` satisfies the contract -/
def toyStrconv : Strconv Unit where
  isNaN := fun _ => false
  isPosInf := fun _ => false
  isNegInf := fun _ => false
  isInt := fun _ => false
  fmtG := fun _ => [0x31, 0x2E, 0x35]
  fmtF1 := fun _ => [0x31, 0x2E, 0x35]
  parse := fun _ => some ()
  neg := fun _ => ()

example : StrconvContract toyStrconv .float64 () :=
  ⟨false, 1, [], some (5, []), none, (), by omega, by simp, by simp [fracOk], by simp [expOk],
    by simp [finiteText, toyStrconv, digs, fracBytes, expBytes, digitByte, byte], by simp, rfl, rfl⟩

/-! ### Symbols -/

/-- **Symbols.** For every name (any byte string: identifiers, keywords-like names, operators,
empty, invalid UTF-8 …) the parser reads `inspect` output back as the same name, provided Go's
Unicode classes satisfy `ClsOk`: letters and digits are graphic, digits are numbers. When the name
is written quoted (`:"…"`) no assumption is needed (`symbol_roundtrip_quoted`). -/
theorem symbol_roundtrip (U : Cls) (ok : ClsOk U) (name : Bytes) :
    readSymbol U (inspectSymbol U name) = some name :=
  readSymbol_inspectSymbol U ok name

theorem symbol_roundtrip_quoted (U : Cls) (name : Bytes)
    (hq : (symLoop U { out := [], quotes := symInitQuotes U name, first := true } name).quotes = true) :
    readSymbol U (inspectSymbol U name) = some name :=
  readSymbol_quoted U name hq

/-- the classification probed from the Go runtime (`elkh probe unicode` → `Gen/Unicode.lean`,
regenerated on every run) -/
def tableCls : Cls where
  graphic := Elk.Ranges.mem Elk.Gen.Unicode.graphic
  letter := Elk.Ranges.mem Elk.Gen.Unicode.letter
  digit := Elk.Ranges.mem Elk.Gen.Unicode.digit
  number := Elk.Ranges.mem Elk.Gen.Unicode.number
  upper := Elk.Ranges.mem Elk.Gen.Unicode.upper
  lower := Elk.Ranges.mem Elk.Gen.Unicode.lower

/-- probe-table obligation, re-proved by the kernel against the regenerated tables: Go's
`unicode.IsLetter ⊆ IsGraphic`, `IsDigit ⊆ IsGraphic`, `IsDigit ⊆ IsNumber` over all code points -/
theorem tables_ok : ClsOk tableCls where
  letter_graphic := Elk.Ranges.subset_sound 4000 _ _ (by decide +kernel)
  digit_graphic := Elk.Ranges.subset_sound 4000 _ _ (by decide +kernel)
  digit_number := Elk.Ranges.subset_sound 4000 _ _ (by decide +kernel)

/-- the symbol round trip for the real Unicode tables, without hypotheses -/
theorem symbol_roundtrip_tables (name : Bytes) :
    readSymbol tableCls (inspectSymbol tableCls name) = some name :=
  symbol_roundtrip tableCls tables_ok name

/-! ### the unchanged tree (before this branch's `fix:` commits) violated the round trip -/

/-- a classification close to `unicode.IsGraphic` on Latin-1 -/
def gLatin1 : Nat → Bool := fun c => 0x20 ≤ c && c < 0x7F || 0xA0 ≤ c && c ≠ 0xAD

/-- `"\u0080".inspect` was `"\x80"`, which the lexer reads as the one-byte string `80` -/
theorem string_old_witness_nongraphic :
    readString gLatin1 (inspectStringOld gLatin1 [0xC2, 0x80]) = some [0x80] := by
  have h : inspectStringOld gLatin1 [0xC2, 0x80] = [0x22, 0x5C, 0x78, 0x38, 0x30, 0x22] := by
    simp [inspectStringOld, inspectBodyOld, inspectPieceOld, escapeRuneOld, decodeRune, isCont, strEscape,
      runeError, gLatin1, hex2, hexDigit, byte]
  rw [h]
  simp [readString, readLoop, strStep, readEscape, decodeRune, strUnescape, parseHexN, hexVal, byte]

/-- the invalid byte `E9` was written as the graphic rune U+00E9, read back as `C3 A9` -/
theorem string_old_witness_invalid :
    readString gLatin1 (inspectStringOld gLatin1 [0xE9]) = some [0xC3, 0xA9] := by
  have h : inspectStringOld gLatin1 [0xE9] = [0x22, 0xC3, 0xA9, 0x22] := by
    simp [inspectStringOld, inspectBodyOld, inspectPieceOld, escapeRuneOld, decodeRune, strEscape,
      runeError, gLatin1, encodeRune, byte]
  rw [h]
  simp [readString, readLoop, strStep, decodeRune, isCont, encodeRune, byte]

/-- `Char(0x80).inspect` was `` `\x80` ``: a raw byte, decoded by the parser to U+FFFD -/
theorem char_old_witness : readChar (inspectCharOld gLatin1 0x80) = some 0xFFFD := by
  simp [inspectCharOld, charEscape, escapeRuneOld, gLatin1, hex2, hexDigit, byte, readChar, decodeRune,
    readEscape, charUnescape, parseHexN, hexVal, runeError]

/-- an ASCII-only classification, enough for the symbol witnesses -/
def asciiCls : Cls where
  graphic := fun c => 0x20 ≤ c && c < 0x7F || c == 0xFFFD
  letter := fun c => 0x41 ≤ c && c ≤ 0x5A || 0x61 ≤ c && c ≤ 0x7A
  digit := fun c => 0x30 ≤ c && c ≤ 0x39
  number := fun c => 0x30 ≤ c && c ≤ 0x39
  upper := fun c => 0x41 ≤ c && c ≤ 0x5A
  lower := fun c => 0x61 ≤ c && c ≤ 0x7A

/-- `"$a".to_symbol.inspect` was `:"$a"`: an interpolated symbol literal, not a plain one -/
theorem symbol_old_witness_interpolation :
    readSymbol asciiCls (inspectSymbolOld asciiCls [0x24, 0x61]) = none := by
  have h : inspectSymbolOld asciiCls [0x24, 0x61] = [0x3A, 0x22, 0x24, 0x61, 0x22] := by
    simp [inspectSymbolOld, symLoopOld, symPieceOld, symEscapeOld, symEscape, decodeRune, asciiCls, encodeRune, byte]
  rw [h]
  simp [readSymbol, readLoop, strStep, decodeRune, asciiCls]

/-- `"_1".to_symbol.inspect` was `:_1`: the lexer stops the identifier after `_` -/
theorem symbol_old_witness_underscore :
    readSymbol asciiCls (inspectSymbolOld asciiCls [0x5F, 0x31]) = none := by
  have h : inspectSymbolOld asciiCls [0x5F, 0x31] = [0x3A, 0x5F, 0x31] := by
    simp [inspectSymbolOld, symLoopOld, symPieceOld, symEscapeOld, symEscape, decodeRune, asciiCls, encodeRune, byte]
  rw [h]
  simp [readSymbol, identToken, decodeRune, asciiCls]

/-- an invalid byte in a symbol name was written as a literal U+FFFD -/
theorem symbol_old_witness_invalid :
    readSymbol asciiCls (inspectSymbolOld asciiCls [0xFF]) = some [0xEF, 0xBF, 0xBD] := by
  have h : inspectSymbolOld asciiCls [0xFF] = [0x3A, 0x22, 0xEF, 0xBF, 0xBD, 0x22] := by
    simp [inspectSymbolOld, symLoopOld, symPieceOld, symEscapeOld, symEscape, decodeRune, asciiCls, encodeRune, byte, runeError]
  rw [h]
  simp [readSymbol, readLoop, strStep, decodeRune, asciiCls, isCont, lo2, hi2, encodeRune, byte]

end Elk.C19
