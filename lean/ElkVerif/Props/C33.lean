import ElkVerif.Proofs.Abort
/-!
# C33 — Cancellation stops any running program

Certified per-instance checking of abort-check placement on bytecode compiled with
`AdditionalAbortChecks` (as the REPL compiles). The control-flow graph of a program (intra edges =
all steps of the C29 abstract machine from a certificate, tail-call edges to statically known
callees) is given a ranking by an untrusted search; `validRank` checks it; the theorems say what a
valid ranking guarantees, for every path / every run of the abstract machine.

Promptness in wall-clock terms, blocking natives and the callee side of non-tail calls are outside
the model: they are exercised by the dynamic leg of the check (cancel a running program, require
`Std::ExecutionAbortedError` within the grace period).
-/
namespace Elk.C33
open Elk.Bytecode Elk.Bytecode.Abort

/-- **`rank_valid_bounds`.** If `rank` is a valid ranking of `g` (strictly decreasing along every edge
leaving a node that is not a check node), then every path of `g` that passes no check node — except
possibly as its last node — has at most `rank (first) + 1` nodes. Hence every infinite path visits
check nodes infinitely often, and between two visits at most `max rank` other nodes. -/
theorem rank_valid_bounds (g : Graph) (rank : Node → Nat) (h : validRank g rank = true)
    (u : Node) (p : List Node) (hp : IsPath g (u :: p))
    (hc : ∀ w ∈ (u :: p).dropLast, g.isCheck w = false) : (u :: p).length ≤ rank u + 1 :=
  path_bound h p u hp hc

/-- a run of the abstract machine inside one activation: consecutive states are `exec` successors -/
inductive Run (P : Prog) (f : Func) (cfg : Cfg) : List St → Prop where
  | single (s : St) : Run P f cfg [s]
  | cons {s s' : St} {l : List St} {rest : List St} : exec P f cfg s = .ok l → s' ∈ l →
      Run P f cfg (s' :: rest) → Run P f cfg (s :: s' :: rest)

/-- the program counters of a run of reachable states form a path of any graph that contains the
function's intra-procedural edges -/
theorem run_is_path (P : Prog) (k : Nat) (f : Func) (cfg : Cfg) (cert : List St) (g : Graph)
    (hcert : checkCert P f cfg cert = true)
    (hsub : ∀ e ∈ intraEdges P k f cfg cert, e ∈ g.edges) :
    ∀ (r : List St) (s : St), Reachable P f cfg s → Run P f cfg (s :: r) →
      IsPath g ((s :: r).map fun x => (k, x)) := by
  intro r
  induction r with
  | nil => intro s _ _; exact .single _
  | cons s' rest ih =>
    intro s hr hrun
    cases hrun with
    | cons he hm hrest =>
      have hs := reachable_in_cert hcert hr
      have hedge := hsub _ (edge_of_step P k f cfg cert s s' _ hs he hm)
      have hr' : Reachable P f cfg s' := .step hr he hm
      exact .cons hedge (ih s' hr' hrest)

/-- **Bounded check-free execution.** Let `cert` be an accepted C29 certificate of `f` and `rank` a
valid ranking of a graph containing `f`'s intra-procedural edges. Then any run of the abstract
machine from a reachable state that executes no check instruction (`CHECK_ABORT`, `SELECT`) before
its last state has at most `rank (start) + 1` states: the activation cannot spin without looking at
its context. -/
theorem check_free_run_bounded (P : Prog) (k : Nat) (f : Func) (cfg : Cfg) (cert : List St) (g : Graph)
    (rank : Node → Nat) (hcert : checkCert P f cfg cert = true)
    (hsub : ∀ e ∈ intraEdges P k f cfg cert, e ∈ g.edges) (hrank : validRank g rank = true)
    (s : St) (r : List St) (hr : Reachable P f cfg s) (hrun : Run P f cfg (s :: r))
    (hfree : ∀ x ∈ (s :: r).dropLast, g.isCheck (k, x) = false) :
    (s :: r).length ≤ rank (k, s) + 1 := by
  have hp := run_is_path P k f cfg cert g hcert hsub r s hr hrun
  have hc : ∀ w ∈ (((s :: r).map fun x => (k, x))).dropLast, g.isCheck w = false := by
    intro w hw
    rw [← List.map_dropLast] at hw
    obtain ⟨x, hx, rfl⟩ := List.mem_map.mp hw
    exact hfree x hx
  have := path_bound hrank (r.map fun x => (k, x)) (k, s) (by simpa using hp) (by simpa using hc)
  simpa using this

/-! ## non-vacuity and witness -/

/-- a two-node loop with a check node admits a ranking … -/
example : validRank ⟨[((0, ⟨0, [], []⟩), (0, ⟨1, [], []⟩)), ((0, ⟨1, [], []⟩), (0, ⟨0, [], []⟩))],
      ({} : Std.HashSet Node).insert (0, ⟨1, [], []⟩)⟩
    (fun u => if u = (0, ⟨0, [], []⟩) then 1 else 0) = true := by
  simp [validRank, Graph.isCheck]

/-- … and no function ranks a cycle without a check node (so a program with such a cycle is
always reported): the D12 shape `loop … continue … end`. -/
theorem no_rank_for_check_free_cycle (g : Graph) (u v : Node) (h1 : (u, v) ∈ g.edges) (h2 : (v, u) ∈ g.edges)
    (hu : g.isCheck u = false) (hv : g.isCheck v = false) : ∀ rank, validRank g rank = false := by
  intro rank
  cases h : validRank g rank with
  | false => rfl
  | true =>
    have a := validRank_edge h h1 hu
    have b := validRank_edge h h2 hv
    omega

end Elk.C33
