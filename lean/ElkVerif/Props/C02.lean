import ElkVerif.Proofs.Narrow
import ElkVerif.Props.C01B
/-!
# C02 — Static types describe runtime values (narrowing tables)

`Elk.Narrow` models the decision tables of `types/checker/narrow.go` over types abstracted to
subsets of the universe `{nil, false, true, 1, 2, "a"}`.  The statements below say: whenever the
checker refines the type of a local on a branch, the value the local holds on that branch is a member
of the refined type — for every condition shape, every environment and every value assignment.
-/
namespace Elk.C02
open Elk.Narrow

/-- the tables as they are in the code (the row "`a || b` assumed nil" is pinned by
`TestNilCoalescing/narrow nested ||`, the row "`a && b` assumed notNil" is unreachable) -/
def found : Cfg := ⟨false, false⟩
/-- the tables with both rows repaired (not in the code: proposal) -/
def fixed : Cfg := ⟨true, true⟩

/-- full-strength statement: every row of the tables is sound, for every assumption -/
def NarrowTablesSound (cfg : Cfg) : Prop :=
  ∀ (c : ACond) (A : Assumption) (Γ : TEnv) (ρ : VEnv), Sound Γ ρ → AnnOK ρ c →
    A.sat (eval ρ c) = true → Sound (narrow cfg c A Γ) ρ

/-- the same for the assumptions that can reach a table with a satisfiable premise: the checker
enters `narrowCondition` with `truthy`/`falsy` (`if`, `unless`, `while`, `until`, modifiers, `&&`,
`||`) and `nil` (`??`); `notNil` is only ever produced by negating `nil` under `!`/`!=`, whose
values are never nil. -/
def NarrowTablesSoundReachable (cfg : Cfg) : Prop :=
  ∀ (c : ACond) (A : Assumption) (Γ : TEnv) (ρ : VEnv), A.reachable = true → Sound Γ ρ → AnnOK ρ c →
    A.sat (eval ρ c) = true → Sound (narrow cfg c A Γ) ρ

/-- **Soundness of the narrowing tables as they are in the code**: for every condition, every reachable
assumption and every value assignment — outside the defect class "`||` on the nil-path of a `??`"
(`Ok`) — if evaluating the condition yields a value satisfying the assumption, every refinement the
tables emit is satisfied by the run-time values. -/
theorem narrow_tables_sound_partial (c : ACond) (A : Assumption) (Γ : TEnv) (ρ : VEnv)
    (hr : A.reachable = true) (hok : Ok found c A = true) (hΓ : Sound Γ ρ) (ha : AnnOK ρ c)
    (hs : A.sat (eval ρ c) = true) : Sound (narrow found c A Γ) ρ :=
  narrow_sound found c A Γ ρ hr hok hΓ ha hs

/-- with the `||`/nil row repaired the statement holds for all reachable assumptions -/
theorem narrow_tables_sound_fixed : NarrowTablesSoundReachable fixed :=
  fun c A Γ ρ hr hΓ ha hs => narrow_sound fixed c A Γ ρ hr (by simp [Ok, fixed]) hΓ ha hs

def anyTy : Ty := fun _ => true

/-- the full statement fails even for the repaired tables: the row `!c` under `notNil` narrows `c`
under `nil` although `!c` is never nil.  (The row is unreachable with a satisfiable premise, see
`NarrowTablesSoundReachable`.) -/
theorem not_notNil_witness : ¬ NarrowTablesSound fixed := by
  intro h
  have := h (.not (.var 0 anyTy)) .notNil (fun _ => anyTy) (fun _ => .tru)
    (fun _ => rfl) rfl rfl 0
  revert this; decide

/-- the tables as found violate even the reachable statement: `a || b` assumed `nil` narrows `a` to
`nil`, but `false || nil` is nil.  Witness: `a : false | nil`, `b : 1 | nil`, `a = false`, `b = nil`. -/
theorem or_nil_witness : ¬ NarrowTablesSoundReachable found := by
  intro h
  let τa : Ty := fun v => v == .nil || v == .fls
  let τb : Ty := fun v => v == .nil || v == .i1
  let Γ : TEnv := fun x => if x = 0 then τa else τb
  let ρ : VEnv := fun x => if x = 0 then .fls else .nil
  have hΓ : Sound Γ ρ := by
    intro x
    by_cases hx : x = 0
    · subst hx; rfl
    · simp [Γ, ρ, hx, τb]
  have := h (.or (.var 0 τa) (.var 1 τb) (fun v => v == .nil || v == .i1 || v == .fls)) .nil Γ ρ rfl hΓ
    ⟨rfl, fun _ => rfl, rfl⟩ rfl 0
  revert this; decide

/-- the row `a && b` under `notNil` as found narrows `b` to non-nil although `false && nil` is
`false`: `a = false`, `b = nil`. -/
theorem and_notNil_row_witness :
    ∃ (c : ACond) (Γ : TEnv) (ρ : VEnv), Sound Γ ρ ∧ AnnOK ρ c ∧ Assumption.notNil.sat (eval ρ c) = true ∧
      ¬ Sound (narrow found c .notNil Γ) ρ ∧ Sound (narrow fixed c .notNil Γ) ρ := by
  let τ : Ty := fun v => v == .nil || v == .fls
  refine ⟨.and (.var 0 τ) (.var 1 τ) τ, fun _ => τ, fun x => if x = 0 then .fls else .nil, ?_, ?_, rfl, ?_, ?_⟩
  · intro x; by_cases hx : x = 0 <;> simp [hx, τ]
  · exact ⟨rfl, fun h => by simp [eval, Val.truthy] at h, rfl⟩
  · intro h; have := h 1; revert this; decide
  · intro x
    rcases x with _ | _ | x
    · decide
    · decide
    · simp [narrow, fixed, Ty.isNil, τ, narrowLocal, TEnv.set, ACond.ty]

/-- the checker's own annotations of a condition are sound (so `narrow_tables_sound_partial`
applies to every condition typed by `check`) -/
theorem check_annotations_sound (c : Cond) (hc : c.ok = true) (Γ : TEnv) (ρ : VEnv) (hΓ : Sound Γ ρ) :
    AnnOK ρ (check found Γ c) :=
  check_annOK found c Γ ρ (by simp [CondOk, hc]) hΓ

/-- **Branches of `if c`** (the code as it is; conditions outside the defect class). In a sound
environment, on the branch that is executed every local holds a value of the type the checker narrowed
it to. -/
theorem if_branches_sound (c : Cond) (hc : c.ok = true) (Γ : TEnv) (ρ : VEnv) (hΓ : Sound Γ ρ) :
    ((eval ρ (check found Γ c)).truthy = true → Sound (thenEnv found Γ c) ρ) ∧
    ((eval ρ (check found Γ c)).truthy = false → Sound (elseEnv found Γ c) ρ) := by
  have ha := check_annOK found c Γ ρ (by simp [CondOk, hc]) hΓ
  constructor
  · intro h
    exact narrow_sound found _ .truthy Γ ρ rfl (ok_of_ne_nil _ _ (by decide)) hΓ ha (by simpa [Assumption.sat] using h)
  · intro h
    exact narrow_sound found _ .falsy Γ ρ rfl (ok_of_ne_nil _ _ (by decide)) hΓ ha (by simp [Assumption.sat, h])

/-- the static type the checker gives a condition contains its value -/
theorem condition_type_sound (c : Cond) (hc : c.ok = true) (Γ : TEnv) (ρ : VEnv) (hΓ : Sound Γ ρ) :
    (check found Γ c).ty (eval ρ (check found Γ c)) = true :=
  ty_of_annOK (check_annOK found c Γ ρ (by simp [CondOk, hc]) hΓ)

/-- program-level witness of the defect class: in `(a || b) ?? a` the right operand is typed in an
environment where `a : nil`, but with `a = false`, `b = nil` it is evaluated and `a` is `false`. -/
theorem nilco_or_witness :
    let τa : Ty := fun v => v == .nil || v == .fls
    let τb : Ty := fun v => v == .nil || v == .i1
    let Γ : TEnv := fun x => if x = 0 then τa else τb
    let ρ : VEnv := fun x => if x = 0 then .fls else .nil
    let c : Cond := .nilco (.or (.var 0) (.var 1)) (.var 0)
    Sound Γ ρ ∧ c.ok = false ∧ ¬ AnnOK ρ (check found Γ c) ∧ AnnOK ρ (check fixed Γ c) := by
  refine ⟨?_, rfl, ?_, ?_⟩
  · intro x
    rcases x with _ | x
    · rfl
    · simp
  · intro h
    have := h.2.1 (by decide)
    simp only [check, AnnOK] at this
    revert this; decide
  · exact check_annOK fixed _ _ _ (by simp [CondOk, fixed]) (by
      intro x
      rcases x with _ | x
      · rfl
      · simp)

/-- `negate` is an involution and `toNilable` is idempotent (narrow.go:21-47) -/
theorem negate_negate (A : Assumption) : A.negate.negate = A := by cases A <;> rfl
theorem toNilable_idem (A : Assumption) : A.toNilable.toNilable = A.toNilable := by cases A <;> rfl

/-! ### non-vacuity -/

/-- `if a && !(b == nil)` with `a : true | false | nil`, `b : 1 | nil`: in the then-branch `a` is `true`
and `b` is `1`, for the assignment `a = true, b = 1` which takes that branch. -/
example :
    let τa : Ty := fun v => v == .tru || v == .fls || v == .nil
    let τb : Ty := fun v => v == .i1 || v == .nil
    let Γ : TEnv := fun x => if x = 0 then τa else τb
    let c : Cond := .and (.var 0) (.not (.eq (.var 1) (.lit .nil)))
    let ρ : VEnv := fun x => if x = 0 then .tru else .i1
    (eval ρ (check found Γ c)).truthy = true ∧
    (Val.all.map (thenEnv found Γ c 0)) = [false, false, true, false, false, false] := by decide


/-! ## Preservation for whole MiniElk programs (from the C01 soundness development) -/

open Elk.Mini in
/-- every cell of the store always holds a value of the type it was declared with, and the value of the main
block has the block's static type — for every program `checkProg` accepts (statements, methods, closures), every fuel.
(`Elk.C01B.preservation_B`; the model checker is tied to the real one by C01's run.) -/
theorem preservation_programs (k : Nat) (p : Prog) (h : checkProg k p = true) (fuel : Nat) :
    ∃ (t : T) (S : List T), (runProg fuel p).2.store.length = S.length ∧
      (∀ (i : Nat) v ti, (runProg fuel p).2.store[i]? = some v → S[i]? = some ti → HasTy p.defs S v ti) ∧
      (checkBlock p.defs k ⟨[], [], none, []⟩ p.main).map (·.1) = some t ∧
      (∀ v, (runProg fuel p).1 = .val v → HasTy p.defs S v t) :=
  Elk.C01B.preservation_B k p h fuel

end Elk.C02
