import ElkVerif.Proofs.Lex
/-!
# C04 — Lexing partitions the source faithfully; colouring never alters text

`src` ranges over ALL byte strings, `toks` over ALL token lists, `style` over ALL style tables.
The checker `spansOk` / `positionsOk` is what `elkmodel` evaluates on the real lexer's token list for
every generated input (certified per-instance checking); the theorems say what an accepted list guarantees.
-/
namespace Elk.C04
open Elk.Lex

/-- **Tiling.** A token list whose spans the checker accepts makes the modelled `Colorize` run without a
slice panic, and its output with the colour wrappers removed structurally is the source, byte for byte. -/
theorem tiling (src : Bytes) (toks : List Tok) (style : Tok → List Nat) (h : spansOk src toks = true) :
    ∃ segs, colorize src toks style = some segs ∧ payload segs = src := by
  have := colorizeFrom_tiling src style toks 0 (by omega) (by omega) h
  simpa [colorize] using this

/-- `wellFormed` (spans and positions) in particular gives tiling — the form stated in the design. -/
theorem tiling_wellFormed (src : Bytes) (toks : List Tok) (style : Tok → List Nat)
    (h : wellFormed src toks = true) : ∃ segs, colorize src toks style = some segs ∧ payload segs = src := by
  simp only [wellFormed, Bool.and_eq_true] at h
  exact tiling src toks style h.1

/-- **Strip.** If the source contains no ESC byte, deleting the ANSI sequences `ESC [ (0-9|;)* m` from the
rendered output textually gives back the source. -/
theorem strip (src : Bytes) (toks : List Tok) (style : Tok → List Nat)
    (h : spansOk src toks = true) (hesc : ∀ b ∈ src, b ≠ 27) :
    ∃ segs, colorize src toks style = some segs ∧ stripAnsi (render segs) = src := by
  obtain ⟨segs, hc, hp⟩ := tiling src toks style h
  refine ⟨segs, hc, ?_⟩
  rw [stripAnsi, strip_render segs ?_, hp]
  intro s hs b hb
  exact hesc b (hp ▸ mem_payload_of_mem hs hb)

/-- non-vacuity: a two-token list over `a b` (with a gap) is accepted, for a source without ESC -/
example : spansOk [97, 32, 98] [⟨102, 0, 1, 1, 0, 1, 1, []⟩, ⟨102, 2, 1, 3, 2, 1, 3, [95]⟩] = true := by decide
example : ∀ b ∈ ([97, 32, 98] : Bytes), b ≠ 27 := by decide
/-- the rendering really contains colour codes (test on one instance, not a theorem about all) -/
example : (colorize [97, 32, 98] [⟨102, 0, 1, 1, 0, 1, 1, []⟩, ⟨102, 2, 1, 3, 2, 1, 3, [95]⟩] (·.sgr)).map render
    = some [27, 91, 109, 97, 27, 91, 48, 109, 32, 27, 91, 57, 53, 109, 98, 27, 91, 48, 109] := by decide

end Elk.C04
