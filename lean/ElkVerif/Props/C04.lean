import ElkVerif.Proofs.Lex
/-!
# C04 — Lexing partitions the source faithfully; colouring never alters text

`src` ranges over ALL byte strings, `toks` over ALL token lists, `style` over ALL style tables.
The checker `spansOk` / `positionsOk` is what `elkmodel` evaluates on the real lexer's token list for
every generated input (certified per-instance checking); the theorems say what an accepted list guarantees.
-/
namespace Elk.C04
open Elk.Lex

/-- **Tiling.** A token list whose spans the checker accepts makes the modelled `Colorize` run without a
slice panic, and its output with the colour wrappers removed structurally is the source, byte for byte. -/
theorem tiling (src : Bytes) (toks : List Tok) (style : Tok → List Nat) (h : spansOk src toks = true) :
    ∃ segs, colorize src toks style = some segs ∧ payload segs = src := by
  have := colorizeFrom_tiling src style toks 0 (by omega) (by omega) h
  simpa [colorize] using this

/-- `wellFormed` (spans and positions) in particular gives tiling — the form stated in the design. -/
theorem tiling_wellFormed (src : Bytes) (toks : List Tok) (style : Tok → List Nat)
    (h : wellFormed src toks = true) : ∃ segs, colorize src toks style = some segs ∧ payload segs = src := by
  simp only [wellFormed, Bool.and_eq_true] at h
  exact tiling src toks style h.1

/-- **Strip.** If the source contains no ESC byte, deleting the ANSI sequences `ESC [ (0-9|;)* m` from the
rendered output textually gives back the source. -/
theorem strip (src : Bytes) (toks : List Tok) (style : Tok → List Nat)
    (h : spansOk src toks = true) (hesc : ∀ b ∈ src, b ≠ 27) :
    ∃ segs, colorize src toks style = some segs ∧ stripAnsi (render segs) = src := by
  obtain ⟨segs, hc, hp⟩ := tiling src toks style h
  refine ⟨segs, hc, ?_⟩
  rw [stripAnsi, strip_render segs ?_, hp]
  intro s hs b hb
  exact hesc b (hp ▸ mem_payload_of_mem hs hb)

/-- non-vacuity: a two-token list over `a b` (with a gap) is accepted, for a source without ESC -/
example : spansOk [97, 32, 98] [⟨102, 0, 1, 1, 0, 1, 1, []⟩, ⟨102, 2, 1, 3, 2, 1, 3, [95]⟩] = true := by decide
example : ∀ b ∈ ([97, 32, 98] : Bytes), b ≠ 27 := by decide
/-- the rendering really contains colour codes (test on one instance, not a theorem about all) -/
example : (colorize [97, 32, 98] [⟨102, 0, 1, 1, 0, 1, 1, []⟩, ⟨102, 2, 1, 3, 2, 1, 3, [95]⟩] (·.sgr)).map render
    = some [27, 91, 109, 97, 27, 91, 48, 109, 32, 27, 91, 57, 53, 109, 98, 27, 91, 48, 109] := by decide


/-! ## positions and the cursor machine -/

/-- **What the checker's `spansOk` means.** Every accepted span is non-empty and inside the input; the spans are in
source order and pairwise disjoint. -/
theorem spansOk_sound (src : Bytes) (toks : List Tok) (h : spansOk src toks = true) :
    (∀ t ∈ toks, 0 ≤ t.s ∧ t.s ≤ t.e ∧ t.e < src.length) ∧ toks.Pairwise (fun a b => a.e < b.s) :=
  spansOkFrom_sound src.length toks 0 h

/-- **What `posOf` computes.** At a rune boundary `k` (reached from offset 0 by whole runes, Go `utf8.DecodeRune`
widths) `posOf src k` is the position `At` derives — one column per rune, a new line after each `\n` — … -/
theorem posOf_boundary (src : Bytes) (k : Nat) (p : Pos) (h : At src k p) : posOf src k = p := at_posOf h

/-- … every byte inside a rune has the position of the rune (the reading used for `EndPos`) … -/
theorem posOf_inside (src : Bytes) (k : Nat) (p : Pos) (h : At src k p) (hk : k < src.length)
    (j : Nat) (hj : j < runeWidth (src.drop k)) : posOf src (k + j) = p := at_posOf_inside h hk j hj

/-- … and its line is one more than the number of line-break bytes in front of the offset. -/
theorem posOf_line (src : Bytes) (k : Nat) (p : Pos) (h : At src k p) :
    (posOf src k).line = 1 + ((src.take k).count 10 : Nat) := by
  rw [at_posOf h]; exact h.line_spec

theorem inv_init (src : Bytes) : Inv src Cur.init :=
  ⟨0, 0, rfl, rfl, Nat.le_refl _, At.zero, At.zero⟩

/-- **Cursor invariant.** For every source and every sequence of cursor primitives used within their preconditions
(`Guarded`: a consumed line break is followed by `incrementLine`, `backupChar`/`skipByte` only over a one-byte
character of the same line, `tokenWithValue` only on a non-empty lexeme, restoring only saved boundaries):
`(line, column)` stays the position of `cursor`; the emitted tokens are in order, non-empty, disjoint and inside
the input; every start position is `posOf` of its offset; every end position is `posOf` of its offset unless the
token's last byte is a line break, in which case it is column 0 of the following line (the known deviation). -/
theorem cursor_inv (src : Bytes) (ops : List Op) (hg : Guarded src Cur.init ops) :
    Inv src (run src Cur.init ops).1 ∧
    spansOk src (run src Cur.init ops).2 = true ∧
    positionsOkLax src (run src Cur.init ops).2 = true ∧
    (∀ t ∈ (run src Cur.init ops).2, src.getD t.e.toNat 0 ≠ 10 → endPosOk src t = true) := by
  have := guarded_run src Cur.init ops (inv_init src) hg
  simpa [spansOk, Cur.init] using this

/-- The full-strength statement: every emitted position is the position of its offset. -/
def PositionsAgree : Prop :=
  ∀ (src : Bytes) (ops : List Op), Guarded src Cur.init ops → positionsOk src (run src Cur.init ops).2 = true

/-- the scanner's handling of the input `\n\n` (two folded line breaks, one NEWLINE token) -/
def nlOps : List Op := [.advance, .incrementLine] ++ ([.advance, .incrementLine] ++ ([.emit 4] ++ []))

theorem nlOps_guarded : Guarded [10, 10] Cur.init nlOps := by
  refine Guarded.cons (Macro.advNL _ 0 rfl (by decide) (by decide)) ?_
  refine Guarded.cons (Macro.advNL _ 1 (by decide) (by decide) (by decide)) ?_
  refine Guarded.cons (Macro.emit _ 4 (by decide)) ?_
  exact Guarded.nil _

/-- **Known defect (witness).** The model, which mirrors `tokenWithValue`, reports the end of the NEWLINE token of
`\n\n` as line 3, column 0; the byte is on line 2, column 1. The real lexer does the same (corpus/C04). -/
theorem end_position_newline_witness :
    (run [10, 10] Cur.init nlOps).2 = [⟨4, 0, 1, 1, 1, 3, 0, []⟩] ∧ posOf [10, 10] 1 = ⟨2, 1⟩ := by decide

theorem positionsAgree_fails : ¬ PositionsAgree := by
  intro h
  have := h [10, 10] nlOps nlOps_guarded
  revert this
  decide

/-- **Partial theorem.** Excluding exactly the defect class — tokens whose last byte is a line break — all reported
positions are the positions of their offsets. -/
theorem positions_partial (src : Bytes) (ops : List Op) (hg : Guarded src Cur.init ops)
    (hnl : ∀ t ∈ (run src Cur.init ops).2, src.getD t.e.toNat 0 ≠ 10) :
    positionsOk src (run src Cur.init ops).2 = true := by
  obtain ⟨_, _, hlax, hend⟩ := cursor_inv src ops hg
  simp only [positionsOk, positionsOkLax, List.all_eq_true, Bool.and_eq_true] at hlax ⊢
  intro t ht
  exact ⟨(hlax t ht).1, hend t ht (hnl t ht)⟩

/-- non-vacuity of `positions_partial`: `a\n` lexed as identifier + NEWLINE satisfies its hypotheses … -/
example : Guarded [97, 10] Cur.init ([.advance] ++ ([.emit 102] ++ ([.advance, .incrementLine] ++ ([.emit 4] ++ [])))) := by
  refine Guarded.cons (Macro.adv _ 0 rfl (by decide) (by decide)) ?_
  refine Guarded.cons (Macro.emit _ 102 (by decide)) ?_
  refine Guarded.cons (Macro.advNL _ 1 (by decide) (by decide) (by decide)) ?_
  refine Guarded.cons (Macro.emit _ 4 (by decide)) ?_
  exact Guarded.nil _
/-- … because a one-byte NEWLINE token takes its end position from its start position. -/
example : (run [97, 10] Cur.init [.advance, .emit 102, .advance, .incrementLine, .emit 4]).2 =
    [⟨102, 0, 1, 1, 0, 1, 1, []⟩, ⟨4, 1, 1, 2, 1, 1, 2, []⟩] := by decide

end Elk.C04
