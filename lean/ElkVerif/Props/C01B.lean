import ElkVerif.Props.C01
import ElkVerif.Proofs.MiniSoundBMain
import ElkVerif.Proofs.MiniSoundBEmbed
import ElkVerif.Proofs.MiniCheckMono
/-!
# C01 / C02, stages B–D — accepted programs never crash the interpreter; values have their static types

`Props/C01.lean` (stage A) covers the side-effect-free expressions. This file covers the whole
MiniElk fragment the reference evaluator runs: statements and blocks (declarations, assignments,
print, if/else, labelled loops, break/continue, return, throw, do/catch/finally — stage B), method
definitions and calls, recursion included (stage C), and closures with function types (stage D).

The checker is `checkProg` / `checkBlock` / `checkStmt` / `checkExpr` of `Model/Mini/TypesB.lean`
(its design choices are listed there). `stuck` is the reference evaluator's outcome for every
situation in which the real VM would execute an instruction on an operand of the wrong kind.
The store typing `S : List T` records the declared type of every cell ever allocated; it only
grows (`Ext`), and `StOk` says every cell holds a value of its declared type (C02).
All theorems hold for EVERY fuel, i.e. also for every prefix of a diverging run.
-/
namespace Elk.C01B
open Elk.Mini

/-- **Expressions (with assignments, calls, closures).** Run in a store typed by `S` and an
environment agreeing with the context, a well-typed expression ends — for every fuel — in a value
of its static type, a thrown value, or out of fuel; never `stuck`, `break`, `continue`, `return`.
The store typing only grows and the store keeps satisfying it. -/
theorem expr_sound_B (defs : List Def) (hd : DefsOk defs) (S : List T) (g : TEnvB) (env : Env) (s : St)
    (hs : StOk defs S s) (he : EnvOkB S g env) (k : Nat) (e : Expr) (t : T)
    (hc : checkExpr defs k g e = some t) (n : Nat) :
    ∃ S', Ext S S' ∧ StOk defs S' (evalExpr defs n env s e).2 ∧
      OutOk defs S' [] none t (evalExpr defs n env s e).1 :=
  (soundAt_all defs hd n).expr S g env s e k t hs he hc

/-- **Statements.** A well-typed statement, any fuel: the outcome is never `stuck`; `break l` /
`continue l` escape only with labels of enclosing loops of the context (`lblOk c.labels l`);
`return v` only with `v` of the context's return type; a value outcome has the statement's type.
The store typing only grows, the store satisfies it, and after a normal finish the environment
agrees with the extended context `g'` — so the invariant composes over sequences and iterations. -/
theorem stmt_sound (defs : List Def) (hd : DefsOk defs) (S : List T) (c : Ctx) (env : Env) (s : St)
    (hs : StOk defs S s) (he : EnvOkB S c.vars env) (k : Nat) (st : Stmt) (t : T) (g' : TEnvB)
    (hc : checkStmt defs k c st = some (t, g')) (n : Nat) :
    ∃ S', Ext S S' ∧ StOk defs S' (execStmt defs n env s st).2.2 ∧
      OutOk defs S' c.labels c.ret t (execStmt defs n env s st).1 ∧
      (∀ v, (execStmt defs n env s st).1 = .val v → EnvOkB S' g' (execStmt defs n env s st).2.1) :=
  (soundAt_all defs hd n).stmt S c env s st k t g' hs he hc

/-- **Blocks.** Same as `stmt_sound` for a statement sequence. -/
theorem block_sound (defs : List Def) (hd : DefsOk defs) (S : List T) (c : Ctx) (env : Env) (s : St)
    (hs : StOk defs S s) (he : EnvOkB S c.vars env) (k : Nat) (ss : List Stmt) (t : T) (g' : TEnvB)
    (hc : checkBlock defs k c ss = some (t, g')) (n : Nat) :
    ∃ S', Ext S S' ∧ StOk defs S' (execBlock defs n env s ss).2.2 ∧
      OutOk defs S' c.labels c.ret t (execBlock defs n env s ss).1 ∧
      (∀ v, (execBlock defs n env s ss).1 = .val v → EnvOkB S' g' (execBlock defs n env s ss).2.1) :=
  (soundAt_all defs hd n).block S c env s ss k t g' hs he hc

/-- reading `OutOk` off: a well-typed block is never stuck -/
theorem block_never_stuck (defs : List Def) (hd : DefsOk defs) (S : List T) (c : Ctx) (env : Env) (s : St)
    (hs : StOk defs S s) (he : EnvOkB S c.vars env) (k : Nat) (ss : List Stmt) (t : T) (g' : TEnvB)
    (hc : checkBlock defs k c ss = some (t, g')) (n : Nat) :
    ∀ w, (execBlock defs n env s ss).1 ≠ .stuck w := by
  intro w hw
  obtain ⟨S', _, _, ho, _⟩ := block_sound defs hd S c env s hs he k ss t g' hc n
  rw [hw] at ho
  exact ho

/-- **Stage C: method calls are sound.** If every method is well typed against its signature, the
body of a call never leaks `break`/`continue` and never gets stuck: whatever well-typed argument
values a method is applied to, `callResult` of its body is a value of the declared return type, a
thrown value or out of fuel (recursion is handled by the fuel induction). -/
theorem call_sound (defs : List Def) (hd : DefsOk defs) (S : List T) (g : TEnvB) (env : Env) (s : St)
    (hs : StOk defs S s) (he : EnvOkB S g env) (k : Nat) (f : String) (args : List Expr) (t : T)
    (hc : checkExpr defs k g (.callDef f args) = some t) (n : Nat) :
    (∀ w, (evalExpr defs n env s (.callDef f args)).1 ≠ .stuck w) ∧
    (∀ v, (evalExpr defs n env s (.callDef f args)).1 = .val v →
      ∃ S', Ext S S' ∧ HasTy defs S' v t) := by
  obtain ⟨S', hx, _, ho⟩ := expr_sound_B defs hd S g env s hs he k _ t hc n
  refine ⟨fun w hw => ?_, fun v hv => ⟨S', hx, ?_⟩⟩
  · rw [hw] at ho; exact ho
  · rw [hv] at ho; exact ho

/-- **Stage D: closure calls are sound**, same statement for `f.call(args)` with `f` any
expression of function type. -/
theorem closure_call_sound (defs : List Def) (hd : DefsOk defs) (S : List T) (g : TEnvB) (env : Env) (s : St)
    (hs : StOk defs S s) (he : EnvOkB S g env) (k : Nat) (f : Expr) (args : List Expr) (t : T)
    (hc : checkExpr defs k g (.callClo f args) = some t) (n : Nat) :
    (∀ w, (evalExpr defs n env s (.callClo f args)).1 ≠ .stuck w) ∧
    (∀ v, (evalExpr defs n env s (.callClo f args)).1 = .val v →
      ∃ S', Ext S S' ∧ HasTy defs S' v t) := by
  obtain ⟨S', hx, _, ho⟩ := expr_sound_B defs hd S g env s hs he k _ t hc n
  refine ⟨fun w hw => ?_, fun v hv => ⟨S', hx, ?_⟩⟩
  · rw [hw] at ho; exact ho
  · rw [hv] at ho; exact ho

theorem runProg_eq (fuel : Nat) (p : Prog) :
    runProg fuel p = ((execBlock p.defs fuel [] {} p.main).1, (execBlock p.defs fuel [] {} p.main).2.2) := rfl

/-- whole programs: the facts the program theorems below are read off from -/
theorem prog_sound (k : Nat) (p : Prog) (h : checkProg k p = true) (fuel : Nat) :
    ∃ (t : T) (S : List T), StOk p.defs S (runProg fuel p).2 ∧ OutOk p.defs S [] none t (runProg fuel p).1 := by
  have hd := defsOk_of_checkProg h
  simp only [checkProg, Bool.and_eq_true, Option.isSome_iff_exists] at h
  obtain ⟨_, ⟨t, g'⟩, hc⟩ := h
  obtain ⟨S', _, hs, ho, _⟩ := block_sound p.defs hd [] ⟨[], [], none, []⟩ [] {} (stOk_empty _) (envOkB_empty _)
    k p.main t g' hc fuel
  exact ⟨t, S', by rw [runProg_eq]; exact hs, by rw [runProg_eq]; exact ho⟩

/-- **C01 for whole programs (stages B+C+D).** A program accepted by `checkProg` — methods,
recursion, closures, exceptions, loops — run with any fuel: finishes with a value, raises an Elk
error (`thrw`), or runs out of budget. It is never `stuck`, and no `break`/`continue`/`return`
reaches the top level. -/
theorem sound_C (k : Nat) (p : Prog) (h : checkProg k p = true) (fuel : Nat) :
    (∃ v, (runProg fuel p).1 = .val v) ∨ (∃ v, (runProg fuel p).1 = .thrw v) ∨
      (runProg fuel p).1 = .timeout := by
  obtain ⟨t, S, _, ho⟩ := prog_sound k p h fuel
  cases hr : (runProg fuel p).1 with
  | val v => exact Or.inl ⟨v, rfl⟩
  | thrw v => exact Or.inr (Or.inl ⟨v, rfl⟩)
  | timeout => exact Or.inr (Or.inr rfl)
  | brk l => rw [hr] at ho; simp [OutOk, lblOk_nil] at ho
  | cont l => rw [hr] at ho; simp [OutOk, lblOk_nil] at ho
  | ret v => rw [hr] at ho; obtain ⟨_, h1, _⟩ := ho; cases h1
  | stuck w => rw [hr] at ho; exact ho.elim

/-- **C01, stage B.** A well-typed main block with no method definitions: never `stuck`, never an
escaping `break`/`continue`/`return`. -/
theorem sound_B (k : Nat) (p : Prog) (_hdefs : p.defs = []) (h : checkProg k p = true) (fuel : Nat) :
    (∀ w, (runProg fuel p).1 ≠ .stuck w) ∧ (∀ l, (runProg fuel p).1 ≠ .brk l) ∧
    (∀ l, (runProg fuel p).1 ≠ .cont l) ∧ (∀ v, (runProg fuel p).1 ≠ .ret v) := by
  have h3 := sound_C k p h fuel
  refine ⟨?_, ?_, ?_, ?_⟩ <;> intro x hx <;> rw [hx] at h3 <;> simp at h3

/-- **C02 for whole programs (preservation).** At the end of every run prefix (any fuel) there is a
store typing `S` — one declared type per allocated cell — such that every cell holds a value of its
declared type, and a final value has the static type of the main block. (That a cell's type never
changes during the run is the `Ext` clause of `block_sound`/`stmt_sound`.) -/
theorem preservation_B (k : Nat) (p : Prog) (h : checkProg k p = true) (fuel : Nat) :
    ∃ (t : T) (S : List T), (runProg fuel p).2.store.length = S.length ∧
      (∀ (i : Nat) v ti, (runProg fuel p).2.store[i]? = some v → S[i]? = some ti → HasTy p.defs S v ti) ∧
      (checkBlock p.defs k ⟨[], [], none, []⟩ p.main).map (·.1) = some t ∧
      (∀ v, (runProg fuel p).1 = .val v → HasTy p.defs S v t) := by
  have hd := defsOk_of_checkProg h
  simp only [checkProg, Bool.and_eq_true, Option.isSome_iff_exists] at h
  obtain ⟨_, ⟨t, g'⟩, hc⟩ := h
  obtain ⟨S', _, hs, ho, _⟩ := block_sound p.defs hd [] ⟨[], [], none, []⟩ [] {} (stOk_empty _) (envOkB_empty _)
    k p.main t g' hc fuel
  refine ⟨t, S', ?_, ?_, by simp [hc], ?_⟩
  · rw [runProg_eq]; exact hs.1
  · rw [runProg_eq]; exact hs.2
  · intro v hv
    rw [runProg_eq] at hv
    simp only at hv
    rw [hv] at ho
    exact ho

/-- "the checker accepts `p`": at some checker fuel — equivalently, by `checker_fuel_mono`, at every
larger one, so acceptance does not depend on the fuel a caller happens to pick. -/
def Accepted (p : Prog) : Prop := ∃ k, checkProg k p = true

theorem checker_fuel_mono (k j : Nat) (p : Prog) (h : checkProg k p = true) :
    checkProg (k + j) p = true :=
  checkProg_mono k j p h

/-- C01 in its fuel-free form: an accepted program, run with any budget, finishes with a value,
raises an Elk error, or runs out of budget. -/
theorem sound_accepted (p : Prog) (h : Accepted p) (fuel : Nat) :
    (∃ v, (runProg fuel p).1 = .val v) ∨ (∃ v, (runProg fuel p).1 = .thrw v) ∨
      (runProg fuel p).1 = .timeout := by
  obtain ⟨k, hk⟩ := h
  exact sound_C k p hk fuel

/-- **The extended checker extends stage A**: whatever `check` (Props/C01) accepts, `checkExpr`
accepts with the corresponding type, at the same fuel, for any method table. -/
theorem checker_extends_A (defs : List Def) (g : TEnv) (k : Nat) (e : Expr) (t : STy)
    (h : check g k e = some t) : checkExpr defs k (TEnv.toB g) e = some t.toT :=
  check_embeds defs g k e t h

/-- … and the two value typings agree on stage-A types -/
theorem hasTy_extends_A (defs : List Def) (S : List T) (v : Val) (t : STy) :
    v.hasTy t = true ↔ HasTy defs S v t.toT :=
  hasTy_embeds defs S v t

-- ---------------------------------------------------------------- non-vacuity
/-! The checker accepts non-trivial programs (the hypotheses `StOk`/`EnvOkB` of the block theorems
are met by the empty store and environment, which is how `prog_sound` uses them):
`progB` — nilable declaration, labelled `while true` left by `break[outer]` from inside a
`do … catch ZeroDivisionError … finally`, assignment of an `Int` to an `Int?` local, `??`;
`progD` — the same plus a recursive method and a closure that captures a local by reference.
These `decide`s are tests of the definitions, not theorems. -/

def loopTry : List Stmt :=
  [.decl "z" (some (.opt .int)) .nil,
   .decl "acc" none (.int 0),
   .decl "i" none (.int 0),
   .while (some "outer") (.bool true)
     [.expr (.assign "i" (.bin .add (.var "i") (.int 1))),
      .try
        [.ite (.bin .gt (.var "i") (.int 3)) [.brk (some "outer")] [],
         .expr (.assign "acc" (.bin .add (.var "acc") (.bin .div (.int 10) (.bin .sub (.int 3) (.var "i")))))]
        [.mk .isZde "err" [.expr (.assign "z" (.var "i"))]]
        (some [.print (.var "i")])],
   .print (.nilco (.var "z") (.int 0))]

def progB : Prog := { modName := "P", defs := [], main := loopTry }

def factDef : Def :=
  { name := "fact", params := [("n", .int)], ret := .int,
    body := [.ite (.bin .le (.var "n") (.int 1)) [.ret (.int 1)] [],
             .expr (.bin .mul (.var "n") (.callDef "fact" [.bin .sub (.var "n") (.int 1)]))] }

def progD : Prog :=
  { modName := "P", defs := [factDef],
    main := loopTry ++
      [.decl "add" none (.lam [("a", .int)] .int [.expr (.bin .add (.var "a") (.var "acc"))]),
       .expr (.assign "acc" (.int 100)),
       .print (.callClo (.var "add") [.callDef "fact" [.int 4]])] }

example : checkProg 30 progB = true := by decide
example : Accepted progB := ⟨30, by decide⟩
example : (runProg 40 progB).2.lines = ["1", "2", "3", "4", "3"] := by decide
example : ((runProg 40 progB).1 matches .val .nil) = true := by decide
example : checkProg 30 progD = true := by decide
example : (runProg 40 progD).2.lines = ["1", "2", "3", "4", "3", "124"] := by decide

/-- rejected: assigning a String to an Int local; `break` outside a loop; `return` at top level;
wrong arity; redeclaring a local in the same scope; printing a nilable -/
example : checkProg 30 { modName := "P", defs := [], main := [.decl "x" none (.int 1), .expr (.assign "x" (.str "a"))] } = false := by decide
example : checkProg 30 { modName := "P", defs := [], main := [.brk none] } = false := by decide
example : checkProg 30 { modName := "P", defs := [], main := [.decl "x" none (.int 1), .decl "x" none (.int 2)] } = false := by decide
example : checkProg 30 { modName := "P", defs := [], main := [.decl "z" (some (.opt .int)) .nil, .print (.var "z")] } = false := by decide
example : checkProg 30 { modName := "P", defs := [], main := [.ret (.int 1)] } = false := by decide
example : checkProg 30 { modName := "P", defs := [factDef], main := [.expr (.callDef "fact" [])] } = false := by decide

/-- the hypotheses of the block/statement/expression theorems at a non-empty state: a store with a
nil `Int?` cell and an `Int` cell, an environment naming them, and a statement typed in it -/
example : StOk [] [.opt .int, .int] { store := [.nil, .int 4] } := by
  refine ⟨rfl, fun i v t hv ht => ?_⟩
  match i with
  | 0 => simp at hv ht; subst hv; subst ht; simp [HasTy]
  | 1 => simp at hv ht; subst hv; subst ht; simp [HasTy]
  | _ + 2 => simp at hv
example : EnvOkB [.opt .int, .int] [("z", .opt .int), ("x", .int)] [("z", 0), ("x", 1)] := by
  intro y t h
  simp only [lookupT] at h
  split at h
  · rename_i hy; simp at hy; subst hy; cases h; exact ⟨0, by simp [lookup], rfl⟩
  · split at h
    · rename_i hy; simp at hy; subst hy; cases h; exact ⟨1, by simp [lookup], rfl⟩
    · cases h
example : (checkStmt [] 10 ⟨[("z", .opt .int), ("x", .int)], [], none, []⟩
    (.expr (.assign "z" (.bin .add (.nilco (.var "z") (.int 7)) (.var "x"))))).isSome = true := by decide

end Elk.C01B
