import ElkVerif.Proofs.FilterRun
/-!
# C34 — The test runner runs exactly the selected cases and reports failures

`Elk.Filter` (Model/Filter.lean) mirrors `ext/std/test/{filter,test,suite,case,suite_report,
case_report}.go` and `runTestFile` in `cmd/elk/main.go`. `elkTest fs root` is what `elk test`
does for the test tree `root` (everything the test files would register without filters) and
the filter list `fs` (`--grep`/`--path`, in registration order); `selected fs root` is the
specification: the cases satisfying every filter (`sat`).

Quantifiers: all trees (any depth and width, any names, any locations subject to lexical
nesting `WFRoot`), all filter lists (any number and order, arbitrary regex/glob predicates, any
line), all pass/fail/error outcomes of case bodies and hooks.
-/
namespace Elk.C34
open Elk.Filter

/-- no top-level `before_all` and no `before_all` of any suite fails -/
def RootBeforeAllPass (root : Root) : Prop :=
  (∀ h ∈ root.hooks.beforeAll, h.outcome = .pass) ∧ BeforeAllPassList root.subs

/-- the cases for which `Case.Run` was called, in run order (one entry per call) -/
def ran (fs : List Filter) (root : Root) : List Case := (elkTest fs root).cases.map (·.c)

/-- **Registration-time filtering registers exactly the cases that satisfy every filter**, each
once, in tree order — for every well-nested tree and every filter list. -/
theorem registers_exactly (fs : List Filter) (root : Root) (hwf : WFRoot root) :
    (rcases (register fs root)).map (·.c) = selected fs root :=
  register_eq_selected fs root hwf

/-- **`elk test` runs exactly the selected cases, each once** (no `before_all` hook failing;
a failing `before_all` skips its suite by design, see `runs_only_selected`). -/
theorem runs_exactly (fs : List Filter) (root : Root) (hwf : WFRoot root) (hba : RootBeforeAllPass root) :
    ran fs root = selected fs root := by
  unfold ran elkTest run
  rw [← register_eq_selected fs root hwf]
  apply runSuite_cases
  exact ⟨hba.1, regSubs_beforeAll fs _ _ _ root.subs hba.2⟩

/-- Whatever the hooks do, the runner never runs a case that is not selected and never runs a
case twice: what ran is a sub-list of the selected cases. -/
theorem runs_only_selected (fs : List Filter) (root : Root) (hwf : WFRoot root) :
    (ran fs root).Sublist (selected fs root) := by
  unfold ran elkTest run
  rw [← register_eq_selected fs root hwf]
  exact runSuite_sublist [] [] _

/-- The order in which the filters were given does not matter. -/
theorem filter_order_irrelevant (fs fs' : List Filter) (root : Root) (hwf : WFRoot root)
    (hba : RootBeforeAllPass root) (hp : fs.Perm fs') : ran fs root = ran fs' root := by
  rw [runs_exactly fs root hwf hba, runs_exactly fs' root hwf hba]
  unfold selected
  congr 1
  apply List.filter_congr
  intro ci _
  exact hp.all_eq

/-- **Exit status.** `elk test` exits non-zero exactly when some case that ran is reported
failed or errored, or an executed `before_all`/`after_all` hook failed or errored. -/
theorem exit_iff_failed (fs : List Filter) (root : Root) :
    exitCode (elkTest fs root) ≠ 0 ↔
      (∃ cr ∈ (elkTest fs root).cases, cr.status = .failed ∨ cr.status = .error) ∨
      ∃ e ∈ (elkTest fs root).events, e.outcome ≠ .pass ∧ (e.kind = .beforeAll ∨ e.kind = .afterAll) := by
  have h := runSuite_spec [] [] (register fs root)
  have hb : exitCode (elkTest fs root) ≠ 0 ↔ Bad (elkTest fs root).status := by
    unfold exitCode
    rcases h.1 with h1 | h1 | h1 | h1 <;> simp [elkTest, run, h1, Bad]
  rw [hb]
  exact h.2.2

/-- Same, in terms of the closures the runner called: non-zero exactly when one of them (case
body or any hook) failed or errored. In particular selecting nothing exits 0. -/
theorem exit_iff_closure_failed (fs : List Filter) (root : Root) :
    exitCode (elkTest fs root) ≠ 0 ↔ ∃ e ∈ (elkTest fs root).events, e.outcome ≠ .pass := by
  have h := runSuite_spec [] [] (register fs root)
  have hb : exitCode (elkTest fs root) ≠ 0 ↔ Bad (elkTest fs root).status := by
    unfold exitCode
    rcases h.1 with h1 | h1 | h1 | h1 <;> simp [elkTest, run, h1, Bad]
  rw [hb]
  exact h.2.1

/-- A case is reported failed/errored exactly when one of the closures called for it failed;
otherwise it is reported as a success. -/
theorem case_report_status (bes aes : List Hook) (rc : RCase) :
    ((runCase bes aes rc).1.status = .success ∨ (runCase bes aes rc).1.status = .failed ∨
      (runCase bes aes rc).1.status = .error) ∧
    (((runCase bes aes rc).1.status = .failed ∨ (runCase bes aes rc).1.status = .error) ↔
      ∃ e ∈ (runCase bes aes rc).2, e.outcome ≠ .pass) :=
  ⟨(runCase_spec bes aes rc).1, (runCase_spec bes aes rc).2.1⟩

/-! ## non-vacuity and regression witnesses (tests by evaluation, not theorems about all inputs) -/

section Witness

private def locA : Loc := ⟨"a.elk.test", 3, 9⟩
private def c1 : Case := ⟨1, "c1", ⟨"a.elk.test", 4, 5⟩, .pass⟩
private def c2 : Case := ⟨2, "it c2", ⟨"a.elk.test", 6, 8⟩, .fail⟩
private def top : Case := ⟨3, "top", ⟨"b.elk.test", 3, 3⟩, .pass⟩
/-- `describe "A"` (lines 3–9 of a.elk.test) with two cases, and a top-level case in b.elk.test -/
private def tree : Root := ⟨{}, [top], [.mk "A" locA {} [c1, c2] []]⟩
private def globA : String → Bool := fun f => f == "a.elk.test"
private def reC : String → Bool := fun n => n == "A > c1" || n == "A > it c2"

/-- the hypotheses of `runs_exactly` are met by a non-trivial tree -/
example : WFRoot tree ∧ RootBeforeAllPass tree := by
  refine ⟨?_, ?_⟩
  · intro s hs
    simp only [tree, List.mem_singleton] at hs
    subst hs
    simp [WFTop, WFSuite, WFSubs, Suite.loc, locA, c1, c2]
  · simp [RootBeforeAllPass, tree, BeforeAllPassList, BeforeAllPass]

/-- D10 regression: `--path a.elk.test:3 --grep c` (line 3 = first line of `describe "A"`) runs
both cases of the suite (the unfixed code registered nothing), and the failing one makes the
exit status 1 -/
example : (ran [.grep reC, .path globA 3] tree).map (·.id) = [1, 2] ∧
    exitCode (elkTest [.grep reC, .path globA 3] tree) = 1 := by decide

/-- a line inside one case selects that case only; the run succeeds -/
example : (ran [.path globA 4] tree).map (·.id) = [1] ∧ exitCode (elkTest [.path globA 4] tree) = 0 := by
  decide

/-- D17 regression: a selection that matches nothing exits 0 -/
example : ran [.grep fun _ => false] tree = [] ∧ exitCode (elkTest [.grep fun _ => false] tree) = 0 := by
  decide

end Witness

end Elk.C34
