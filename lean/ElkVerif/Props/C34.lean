import ElkVerif.Model.Filter
/-! # C34 — placeholder while the proofs are being written -/
namespace Elk.C34
open Elk.Filter

theorem updateStatus_success_running : updateStatus .running .success = .success := rfl

end Elk.C34
