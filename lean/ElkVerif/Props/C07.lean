import ElkVerif.Proofs.Strict
import ElkVerif.Gen.ShiftAdmitted
/-!
# C07 — Fixed-width integers wrap modulo 2^n; floats follow IEEE-754

All theorems are generic in the width `w` (instantiated at 8, 16, 32, 64 by the nine sized types)
and in the signedness.  `arith`/`shift` model `value.AddVal …`, `value.LeftBitshiftVal …` on a
sized left operand (`value/int8.go …`, `value/strict_numeric.go`).
-/
namespace Elk.C07
open Elk.Strict

/-! ## `+ - *`, negation: two's complement modulo 2^w -/

theorem wrap_add {w} (s : Bool) (a b : BitVec w) :
    ∃ r, arith .add s a b = .ok r ∧ r.toInt = (a.toInt + b.toInt).bmod (2 ^ w) ∧
      r.toNat = (a.toNat + b.toNat) % 2 ^ w :=
  ⟨_, rfl, BitVec.toInt_add a b, BitVec.toNat_add a b⟩

theorem wrap_sub {w} (s : Bool) (a b : BitVec w) :
    ∃ r, arith .sub s a b = .ok r ∧ r.toInt = (a.toInt - b.toInt).bmod (2 ^ w) ∧
      (r.toNat + b.toNat) % 2 ^ w = a.toNat := by
  refine ⟨_, rfl, BitVec.toInt_sub, ?_⟩
  show ((a - b).toNat + b.toNat) % 2 ^ w = a.toNat
  rw [← BitVec.toNat_add, BitVec.sub_add_cancel]

theorem wrap_mul {w} (s : Bool) (a b : BitVec w) :
    ∃ r, arith .mul s a b = .ok r ∧ r.toInt = (a.toInt * b.toInt).bmod (2 ^ w) ∧
      r.toNat = (a.toNat * b.toNat) % 2 ^ w :=
  ⟨_, rfl, BitVec.toInt_mul a b, BitVec.toNat_mul a b⟩

theorem wrap_neg {w} (a : BitVec w) :
    ∃ r, unary .neg a = .ok r ∧ r.toInt = (-a.toInt).bmod (2 ^ w) :=
  ⟨_, rfl, BitVec.toInt_neg⟩

/-! ## `/` truncates, `%` takes the sign of the dividend, a zero divisor raises -/

theorem div_zero {w} (op : AOp) (hop : op = .div ∨ op = .mod) (s : Bool) (a b : BitVec w) :
    b = 0#w ↔ arith op s a b = .zeroDiv := by
  rcases hop with h | h <;> subst h <;> simp only [arith] <;> by_cases hb : b = 0#w <;> simp [hb]

theorem div_trunc_signed {w} (a b : BitVec w) (hb : b ≠ 0#w) :
    ∃ q, arith .div true a b = .ok q ∧ q.toInt = (Int.tdiv a.toInt b.toInt).bmod (2 ^ w) := by
  refine ⟨_, by simp [arith, hb], BitVec.toInt_sdiv a b⟩

theorem mod_sign_signed {w} (a b : BitVec w) (hb : b ≠ 0#w) :
    ∃ r, arith .mod true a b = .ok r ∧ r.toInt = Int.tmod a.toInt b.toInt := by
  refine ⟨_, by simp [arith, hb], BitVec.toInt_srem a b⟩

theorem div_unsigned {w} (a b : BitVec w) (hb : b ≠ 0#w) :
    ∃ q, arith .div false a b = .ok q ∧ q.toNat = a.toNat / b.toNat := by
  refine ⟨_, by simp [arith, hb], BitVec.toNat_udiv⟩

theorem mod_unsigned {w} (a b : BitVec w) (hb : b ≠ 0#w) :
    ∃ r, arith .mod false a b = .ok r ∧ r.toNat = a.toNat % b.toNat := by
  refine ⟨_, by simp [arith, hb], BitVec.toNat_umod⟩

/-- signed division: `a = q*b + r` in wrapped arithmetic, for every divisor but 0 -/
theorem div_mod_identity_signed {w} (a b : BitVec w) :
    BitVec.sdiv a b * b + BitVec.srem a b = a := by
  apply BitVec.eq_of_toInt_eq
  rw [BitVec.toInt_add, BitVec.toInt_mul, BitVec.toInt_sdiv, BitVec.toInt_srem, Int.bmod_add_bmod]
  rw [Int.add_bmod_eq_add_bmod_right _ (Int.bmod_mul_bmod)]
  have h := Int.tmod_add_tdiv_mul a.toInt b.toInt
  rw [Int.add_comm] at h
  rw [h]
  exact BitVec.toInt_bmod_cancel a

/-! ## `**`: the wrapped power, 1 for a non-positive exponent -/

theorem pow_spec {w} (s : Bool) (a b : BitVec w) :
    ∃ r, arith .pow s a b = .ok r ∧ r.toNat = a.toNat ^ exponent s b % 2 ^ w :=
  ⟨_, rfl, powLoop_toNat a _⟩

theorem pow_exponent_unsigned {w} (b : BitVec w) : exponent false b = b.toNat := rfl

theorem pow_exponent_signed {w} (b : BitVec w) (h : 0 ≤ b.toInt) : (exponent true b : Int) = b.toInt := by
  simp only [exponent, if_true]
  by_cases h0 : b.toInt ≤ 0
  · have : b.toInt = 0 := by omega
    simp [this]
  · simp only [h0, if_false]; omega

/-! ## shifts: every helper, every integer right operand -/

/-- `<<`, `>>`, `<<<`, `>>>` on a sized integer with a right operand of **any** integer kind and
**any** value (every `SmallInt`, every sized value, every `BigInt` of whatever magnitude) equal the
ideal shift by the exact count: left shift, arithmetic right shift on signed types, logical on
unsigned ones and for `<<< >>>`; a negative count reverses the direction; counts of any size
saturate (0, or the sign fill). In particular no Go panic and no error. -/
theorem shift_spec {w} (hw : w ≤ 64) (op : ShOp) (signed : Bool) (a : BitVec w) (r : ROp)
    (hr : r.kind ≠ .other) : shift op signed a r = .ok (ideal op signed a r.val) := by
  obtain ⟨k, v⟩ := r
  cases op <;> cases signed <;> simp only [shift, ideal, Bool.false_eq_true, if_false, if_true]
  all_goals first
    | exact leftShift_spec hw _ a k v hr
    | exact rightShift_spec hw _ a k v hr
    | exact logicalLeftShift_spec hw a k v hr
    | exact logicalRightShift_spec hw a k v hr

/-- what the ideal shift is, in arithmetic terms (signed left operand, arithmetic right shift):
`a >> n` is the floor of `a / 2^n`; `a << n` is `a * 2^n` wrapped -/
theorem ideal_shr_floor {w} (a : BitVec w) (n : Nat) :
    (ideal .shr true a (n : Int)).toInt = a.toInt >>> n := by
  simp only [ideal, Bool.not_true]
  rw [idealShift_right _ a n (by omega)]
  simp [BitVec.toInt_sshiftRight]

theorem ideal_shl_wrap {w} (s : Bool) (a : BitVec w) (n : Nat) :
    (ideal .shl s a (n : Int)).toNat = (a.toNat * 2 ^ n) % 2 ^ w := by
  simp only [ideal]
  rw [idealShift_nonneg _ a n (by omega)]
  simp [BitVec.toNat_shiftLeft, Nat.shiftLeft_eq]

/-- non-vacuity / sanity of the reference on concrete cases, including the counts that used to panic -/
example : shift .shr true (0x80#8) ⟨.u8, 7⟩ = .ok 0xFF#8 ∧ shift .lshr true (0x80#8) ⟨.u8, 7⟩ = .ok 0x01#8 ∧
    shift .shl true (0x01#8) ⟨.i8, -1⟩ = .ok 0x00#8 ∧ shift .lshl true (0x81#8) ⟨.uint, 1⟩ = .ok 0x02#8 ∧
    shift .shl true (0x81#8) ⟨.i8, -128⟩ = .ok 0xFF#8 ∧ shift .shr true (0x81#8) ⟨.bigInt, 2^64⟩ = .ok 0xFF#8 := by
  decide

/-! ## an operand the checker admits never raises the bitshift type error -/

open Elk.Gen.ShiftAdmitted in
/-- decidable side condition on the probed table: every admitted static type has integer runtime kinds only -/
def tableOk : Bool :=
  admittedList.all fun (_, _, t) => t.kinds.all fun k => k != .other

open Elk.Gen.ShiftAdmitted in
/-- re-proved against the regenerated table on every run -/
theorem tables_ok : tableOk = true := by decide +kernel

open Elk.Gen.ShiftAdmitted in
/-- **shift_total**: for every shift operator, sized left type and right static type that the real
checker admits (probed table), every value of that static type, of whatever runtime kind, is
accepted by the runtime helper -/
theorem shift_total (op : ShOp) (l : LKind) (t : RTy) (hadm : (op, l, t) ∈ admittedList)
    (k : RKind) (hk : k ∈ t.kinds) (a : BitVec l.width) (v : Int) :
    shift op l.signed a ⟨k, v⟩ ≠ .bitshiftOperand := by
  intro h
  have hko := (shift_typeErr_iff op l.signed a k v).mp h
  have hall := tables_ok
  simp only [tableOk, List.all_eq_true] at hall
  have := hall (op, l, t) hadm
  simp only [List.all_eq_true] at this
  have := this k hk
  simp [hko] at this

open Elk.Gen.ShiftAdmitted in
/-- non-vacuity: the table admits the pair quoted in the property text (`Int8 <<< UInt`) -/
example : (ShOp.lshl, LKind.i8, RTy.uint) ∈ admittedList := by decide +kernel

/-- and conversely a non-integer operand does raise it (the checker must reject those) -/
theorem non_integer_operand_raises {w} (op : ShOp) (signed : Bool) (a : BitVec w) (v : Int) :
    shift op signed a ⟨.other, v⟩ = .bitshiftOperand :=
  (shift_typeErr_iff op signed a .other v).mpr rfl

/-! ## floats: the operator applies the IEEE primitive to (left, right) in this order -/

theorem float_dispatch {F} (O : FloatOps F) (op : FOp) (a b : F) :
    floatOp O op a (.flt b) = O.bin op a b := rfl

/-- an Int right operand of a `Float` operator is converted first (nearest, ties to even) -/
theorem float_dispatch_int {F} (O : FloatOps F) (op : FOp) (a : F) (z : Int) :
    floatOp O op a (.int z) = O.bin op a (O.ofInt z) := rfl

/-- with the binary64 instance the four basic operators are Lean's IEEE-754 model operations -/
theorem float64_ops_are_ieee (a b : Float) :
    floatOp ieee64 .add a (.flt b) = a + b ∧ floatOp ieee64 .sub a (.flt b) = a - b ∧
    floatOp ieee64 .mul a (.flt b) = a * b ∧ floatOp ieee64 .div a (.flt b) = a / b :=
  ⟨rfl, rfl, rfl, rfl⟩

theorem float32_ops_are_ieee (a b : Float32) :
    floatOp ieee32 .add a (.flt b) = a + b ∧ floatOp ieee32 .sub a (.flt b) = a - b ∧
    floatOp ieee32 .mul a (.flt b) = a * b ∧ floatOp ieee32 .div a (.flt b) = a / b :=
  ⟨rfl, rfl, rfl, rfl⟩

end Elk.C07
