import ElkVerif.Model.Civil
/-!
# Model of `value/date.go`, `value/datetime.go`, `value/date_span.go`, `value/datetime_span.go`,
`value/time_span.go` (C22) — arithmetic part

The code is mirrored as it is; every definition names the Go function it follows.

* `Date` is the packed `uint32` of `value.Date` (`bits`): 23 bits of biased year, 4 of month, 5 of day.
* `DateTime` wraps `time.Time`; everything runs in UTC (`TZ=UTC`), so a `DateTime` is modelled by its
  Unix time in nanoseconds as an unbounded `Int` (Go's range of ±292·10⁹ years is never left by the
  values reachable from `Date`s and spans). `time.Date` / `Year` / `Month` / `Day` are modelled by
  `Elk.Civil` (assumption `go-time-is-proleptic-gregorian`, exercised by every correspondence line).
* `TimeSpan` is an `int64` nanosecond count: arithmetic that Go performs in `int64` is wrapped
  explicitly with `wrap64`; `DateSpan` has two `int32` fields, wrapped with `wrap32`.
* Go `/` and `%` truncate towards zero: `quot`, `rem`.
-/
namespace Elk.Date
open Elk.Civil

/-! ### Go integer semantics -/

/-- Go `a / b` for `b > 0` (truncation towards zero). -/
def quot (a b : Int) : Int := if 0 ≤ a then a / b else -((-a) / b)
/-- Go `a % b` for `b > 0` (sign of the dividend). -/
def rem (a b : Int) : Int := a - b * quot a b

/-- conversion to `int32` -/
def wrap32 (x : Int) : Int := (x + 2147483648) % 4294967296 - 2147483648
/-- conversion to `int64` / `int64` overflow -/
def wrap64 (x : Int) : Int := (x + 9223372036854775808) % 18446744073709551616 - 9223372036854775808
/-- conversion to `uint32` -/
def u32 (x : Int) : Nat := (x % 4294967296).toNat

def nsPerDay : Int := 86400000000000
def nsPerHour : Int := 3600000000000
def nsPerMinute : Int := 60000000000
def nsPerSecond : Int := 1000000000

/-! ### `value.Date` -/

def yearBias : Int := 4194304          -- dateYearBias = 1 << 22
def maxYear : Int := 4194303           -- DateMaxYear
def minYear : Int := -4194304          -- DateMinYear

/-- `value.Date`: the packed `bits` (always `< 2^32`). -/
structure Date where
  bits : Nat
  deriving DecidableEq, Repr

/-- `MakeDate`: `(uint32(year+bias) << 9) | (uint32(month) << 5) | uint32(day)`, no validation. -/
def makeDate (y m d : Int) : Date :=
  ⟨(u32 (y + yearBias) <<< 9) % 4294967296 ||| (u32 m <<< 5) % 4294967296 ||| u32 d⟩

/-- `Date.Year`: `int32(bits >> 9) - bias` -/
def Date.year (d : Date) : Int := ((d.bits >>> 9 : Nat) : Int) - yearBias
/-- `Date.Month`: `(bits >> 5) & 0b1111` -/
def Date.month (d : Date) : Int := (((d.bits >>> 5) % 16 : Nat) : Int)
/-- `Date.Day`: `bits & 0b11111` -/
def Date.day (d : Date) : Int := ((d.bits % 32 : Nat) : Int)

/-! ### `time.Date` and `value.DateTime` (UTC) -/

/-- A `DateTime` in UTC: Unix nanoseconds. -/
abbrev DateTime := Int

/-- `time.Date(y, mo, d, h, mi, s, ns, UTC)`: month overflow is carried into the year
(`norm(year, month-1, 12)`, floor), every other field is carried linearly. -/
def goDate (y mo d h mi s ns : Int) : DateTime :=
  let m0 := mo - 1
  let y' := y + m0 / 12
  let m' := m0 % 12 + 1
  (daysFromCivil y' m' 1 + (d - 1)) * nsPerDay + h * nsPerHour + mi * nsPerMinute + s * nsPerSecond + ns

def DateTime.dayNum (t : DateTime) : Int := t / nsPerDay
/-- nanoseconds since midnight -/
def DateTime.tod (t : DateTime) : Int := t % nsPerDay
def DateTime.civil (t : DateTime) : Int × Int × Int := civilFromDays t.dayNum
def DateTime.year (t : DateTime) : Int := t.civil.1
def DateTime.month (t : DateTime) : Int := t.civil.2.1
def DateTime.day (t : DateTime) : Int := t.civil.2.2

/-- `DateTime.Date`: `MakeDate(t.Year(), t.Month(), t.Day())` — packs without a range check. -/
def DateTime.date (t : DateTime) : Date := makeDate t.year t.month t.day

/-- `Date.ToGoTime` / `ToDateTime`: `time.Date(Year, Month, Day, 0, 0, 0, 0, Local)` -/
def Date.toDateTime (d : Date) : DateTime := goDate d.year d.month d.day 0 0 0 0

inductive Err | year | month | day | format | unsupported
  deriving DecidableEq, Repr

/-- `Date.Normalize` with today's (month, day) as a parameter: zero fields are replaced by `now`,
then the date goes through `time.Date` and back (which wraps day/month overflow). -/
def Date.normalize (now : Int × Int) (d : Date) : Date :=
  let d1 := if d.month = 0 then makeDate d.year now.1 d.day else d
  let d2 := if d1.day = 0 then makeDate d1.year d1.month now.2 else d1
  d2.toDateTime.date

/-- `MakeValidatedDate` (the `Date(y, m, d)` constructor of Elk). Month and day are ≥ 1 here, so
`Normalize` never consults the clock. -/
def makeValidatedDate (y m d : Int) : Except Err Date :=
  if y > maxYear ∨ y < minYear then .error .year
  else if m > 12 ∨ m < 1 then .error .month
  else if d > 31 ∨ d < 1 then .error .day
  else .ok ((makeDate y m d).normalize (1, 1))

/-! ### spans -/

/-- `value.DateSpan`: two `int32` fields. -/
structure DateSpan where
  months : Int
  days : Int
  deriving DecidableEq, Repr

/-- `MakeDateSpan(years, months, days)`: `int32(months + years*12)`, `int32(days)` -/
def makeDateSpan (years months days : Int) : DateSpan := ⟨wrap32 (months + years * 12), wrap32 days⟩

def DateSpan.negate (s : DateSpan) : DateSpan := ⟨wrap32 (-s.months), wrap32 (-s.days)⟩
def DateSpan.add (a b : DateSpan) : DateSpan := ⟨wrap32 (a.months + b.months), wrap32 (a.days + b.days)⟩
/-- `DateSpan.Years` / `Months`: truncated division of the month count -/
def DateSpan.years (s : DateSpan) : Int := quot s.months 12
def DateSpan.monthsPart (s : DateSpan) : Int := rem s.months 12

/-- `value.DateTimeSpan` -/
structure DateTimeSpan where
  date : DateSpan
  time : Int            -- TimeSpan, int64 nanoseconds
  deriving DecidableEq, Repr

/-- `DateTimeSpan.Normalise` -/
def DateTimeSpan.normalise (s : DateTimeSpan) : DateTimeSpan :=
  let days := quot s.time nsPerDay
  let s1 : DateTimeSpan :=
    if days ≠ 0 then ⟨⟨s.date.months, wrap32 (s.date.days + wrap32 days)⟩, rem s.time nsPerDay⟩ else s
  if s1.date.days > 0 ∧ s1.time < 0 then ⟨⟨s1.date.months, wrap32 (s1.date.days - 1)⟩, wrap64 (s1.time + nsPerDay)⟩
  else if s1.date.days < 0 ∧ s1.time > 0 then ⟨⟨s1.date.months, wrap32 (s1.date.days + 1)⟩, wrap64 (s1.time - nsPerDay)⟩
  else s1

/-- `NewDateTimeSpan` -/
def newDateTimeSpan (d : DateSpan) (t : Int) : DateTimeSpan := (DateTimeSpan.mk d t).normalise

/-- `Date.ToDateSpan`: `MakeDateSpan(Year, Month-1, Day-1)` -/
def Date.toDateSpan (d : Date) : DateSpan := makeDateSpan d.year (d.month - 1) (d.day - 1)

/-- `Time.Normalise` applied to a nanosecond count (`TimeSpan.ToTime`) -/
def timeNormalise (t : Int) : Int :=
  let r := rem t nsPerDay
  if r < 0 then nsPerDay + r else r

/-- `DateTime.ToDateTimeSpan`: `NewDateTimeSpan(t.Date().ToDateSpan(), t.Time().ToTimeSpan())` -/
def DateTime.toSpan (t : DateTime) : DateTimeSpan := newDateTimeSpan t.date.toDateSpan t.tod

/-! ### arithmetic -/

/-- `DateTime.AddTimeSpan`: `time.Time.Add` (exact) -/
def DateTime.addTimeSpan (t : DateTime) (ns : Int) : DateTime := t + ns

/-- `daysOfMonth(year, month)`: day of `MakeDateTime(year, month+1, 1) - Day` -/
def daysOfMonth (y m : Int) : Int := DateTime.day (goDate y (m + 1) 1 0 0 0 0 - nsPerDay)

/-- `DateTime.addMonthsAndDays`: days first (`time.Time.AddDate(0, 0, days)`: on the calendar, exact),
then months with the day clamped to the length of the target month. -/
def DateTime.addMonthsDays (t : DateTime) (months days : Int) : DateTime :=
  let result := t + days * nsPerDay
  let oldDay := DateTime.day result
  let month := DateTime.month result + months
  let year := DateTime.year result + quot month 12
  let month := rem month 12
  let newDay := min oldDay (daysOfMonth year month)
  goDate year month newDay 0 0 0 0 + DateTime.tod result

/-- `DateTime.AddDateSpan` -/
def DateTime.addDateSpan (t : DateTime) (s : DateSpan) : DateTime := t.addMonthsDays s.months s.days

/-- `DateTime.CheckedDate`: the date part, `Date::InvalidYearError` when the year does not fit -/
def DateTime.checkedDate (t : DateTime) : Except Err Date :=
  if t.year > maxYear ∨ t.year < minYear then .error .year else .ok t.date

/-- `Date.AddDateSpan`: through `DateTime`, range-checked. -/
def Date.addDateSpan (d : Date) (s : DateSpan) : Except Err Date := (d.toDateTime.addDateSpan s).checkedDate

/-- `DateSpan.ToDate`: `MakeDate(Years, Months, 1)` of `months+1`, then plus the days (unchecked packing).
A negative month count feeds a negative month into `MakeDate`, whose `uint32(month) << 5` then spills
into the year bits. -/
def DateSpan.toDate (s : DateSpan) : Date :=
  let m1 := wrap32 (s.months + 1)
  ((makeDate (quot m1 12) (rem m1 12) 1).toDateTime.addDateSpan (makeDateSpan 0 0 s.days)).date

/-- `DateTimeSpan.ToDateTime` -/
def DateTimeSpan.toDateTime (s : DateTimeSpan) : DateTime :=
  let d := s.date.toDate
  goDate d.year d.month d.day 0 0 0 0 + timeNormalise s.time

/-- `DateTimeSpan.SubtractDateSpan` -/
def DateTimeSpan.subDateSpan (s : DateTimeSpan) (o : DateSpan) : DateTimeSpan :=
  newDateTimeSpan (s.date.add o.negate) s.time

/-- `DateTime.SubtractDateSpan`: the fields are negated as `int` (no `int32` wrap) and added -/
def DateTime.subDateSpan (t : DateTime) (s : DateSpan) : DateTime := t.addMonthsDays (-s.months) (-s.days)

/-- `Date.SubtractDateSpan` -/
def Date.subDateSpan (d : Date) (s : DateSpan) : Except Err Date := (d.toDateTime.subDateSpan s).checkedDate

/-- `DateTime.DiffDate(val)`: `t.ToDateTimeSpan().SubtractDateSpan(val.ToDateSpan())` -/
def DateTime.diffDate (t : DateTime) (v : Date) : DateTimeSpan := t.toSpan.subDateSpan v.toDateSpan

/-- `Date.DiffDate`: field-wise difference (months, days) -/
def Date.diffDate (d v : Date) : DateSpan := (d.toDateTime.diffDate v).date

/-- `DateTime.DiffDateTime`: `a.ToDateTimeSpan().SubtractDateTimeSpan(b.ToDateTimeSpan())` -/
def DateTime.diff (a b : DateTime) : DateTimeSpan :=
  let sa := a.toSpan
  let sb := b.toSpan
  newDateTimeSpan (sa.date.add sb.date.negate) (wrap64 (sa.time + wrap64 (-sb.time)))

/-- `DateTime.AddDateTimeSpan`: time part first, then the date part -/
def DateTime.addSpan (t : DateTime) (s : DateTimeSpan) : DateTime := (t.addTimeSpan s.time).addDateSpan s.date

/-! ### `Int#days` … (`value/small_int.go`) -/

def spanOfUnit (unit : String) (n : Int) : Option DateSpan :=
  match unit with
  | "days" => some (makeDateSpan 0 0 n)
  | "weeks" => some (makeDateSpan 0 0 (wrap64 (n * 7)))
  | "months" => some (makeDateSpan 0 n 0)
  | "years" => some (makeDateSpan n 0 0)
  | "centuries" => some (makeDateSpan (wrap64 (n * 100)) 0 0)
  | "millenia" => some (makeDateSpan (wrap64 (n * 1000)) 0 0)
  | _ => none

def timeSpanOfUnit (unit : String) (n : Int) : Option Int :=
  match unit with
  | "hours" => some (wrap64 (n * nsPerHour))
  | "minutes" => some (wrap64 (n * nsPerMinute))
  | "seconds" => some (wrap64 (n * nsPerSecond))
  | "milliseconds" => some (wrap64 (n * 1000000))
  | "microseconds" => some (wrap64 (n * 1000))
  | "nanoseconds" => some n
  | _ => none

end Elk.Date
