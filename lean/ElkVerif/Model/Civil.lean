/-!
# Proleptic Gregorian calendar over `Int` (C22)

Reference arithmetic the Date/DateTime model is built on. Go's `time.Date(y, m, d, …)` and the
accessors `Year/Month/Day/YearDay/Weekday` are *modelled* by these functions in UTC (the harness
pins `TZ=UTC`); that identification is tied to the real `time` package by the correspondence run
(every line of the `date` domain goes through `time.Date` and back) and is listed as an
assumption of C22. Day numbers count from 1970-01-01 = 0.

The formulation is the "count whole centuries, then whole 4-year cycles, then whole years" one, so
that it differs from the Neri–Schneider / Hinnant formulas used by Go and by the Python oracle.
-/
namespace Elk.Civil

/-- Gregorian leap-year rule, for every integer year (year 0 = 1 BC is leap). -/
def isLeap (y : Int) : Bool := decide (y % 4 = 0 ∧ (y % 100 ≠ 0 ∨ y % 400 = 0))

def daysInMonth (y m : Int) : Int :=
  if m = 2 then (if isLeap y then 29 else 28)
  else if m = 4 ∨ m = 6 ∨ m = 9 ∨ m = 11 then 30
  else 31

/-- A real calendar date. -/
def Valid (y m d : Int) : Prop := 1 ≤ m ∧ m ≤ 12 ∧ 1 ≤ d ∧ d ≤ daysInMonth y m

instance (y m d : Int) : Decidable (Valid y m d) := by unfold Valid; infer_instance

/-- Days before the first of month `mp`, months counted from March = 0 (… Feb = 11). -/
def monthStart (mp : Int) : Int := (153 * mp + 2) / 5

/-- March-based month index of a civil month. -/
def marchMonth (m : Int) : Int := if m > 2 then m - 3 else m + 9

/-- Day number of (era, year of era, March-based day of year). -/
def daysOfEra (era yoe doy : Int) : Int :=
  era * 146097 + (yoe * 365 + yoe / 4 - yoe / 100 + doy) - 719468

/-- Day number (1970-01-01 = 0) of a civil date. Total: also defined for day/month out of range
(`time.Date` normalisation is built on top of it in `Model/Date.lean`). -/
def daysFromCivil (y m d : Int) : Int :=
  let y' := if m ≤ 2 then y - 1 else y
  daysOfEra (y' / 400) (y' % 400) (monthStart (marchMonth m) + d - 1)

/-- (year of era, day of year) of a day of era in `[0, 146096]`; years start on 1 March. -/
def yoeOf (doe : Int) : Int × Int :=
  let c := min (doe / 36524) 3
  let doc := doe - c * 36524
  let q := min (doc / 1461) 24
  let doq := doc - q * 1461
  let yq := min (doq / 365) 3
  (c * 100 + q * 4 + yq, doq - yq * 365)

/-- March-based month of a March-based day of year in `[0, 365]`. -/
def monthOfDoy (doy : Int) : Int := (5 * doy + 2) / 153

/-- Civil date of (era, year of era, March-based day of year). -/
def civilOfEra (era yoe doy : Int) : Int × Int × Int :=
  let mp := monthOfDoy doy
  let d := doy - monthStart mp + 1
  let m := if mp < 10 then mp + 3 else mp - 9
  (yoe + era * 400 + (if m ≤ 2 then 1 else 0), m, d)

/-- Civil date of a day number. -/
def civilFromDays (n : Int) : Int × Int × Int :=
  let z := n + 719468
  let p := yoeOf (z % 146097)
  civilOfEra (z / 146097) p.1 p.2

/-- The day after a valid date, by the calendar rules alone (the *specification* of the day count). -/
def nextDay (y m d : Int) : Int × Int × Int :=
  if d < daysInMonth y m then (y, m, d + 1)
  else if m < 12 then (y, m + 1, 1)
  else (y + 1, 1, 1)

/-- Go `Weekday()` (Sunday = 0) of a day number; 1970-01-01 was a Thursday. -/
def weekday (n : Int) : Int := (n + 4) % 7

/-- Go `YearDay()` (1 … 366). -/
def yearDay (y m d : Int) : Int := daysFromCivil y m d - daysFromCivil y 1 1 + 1

end Elk.Civil
