/-
Model of the upvalue machinery of the Elk VM (properties C13 and C10). Core Lean only.

Mirrors, in the elk tree (after fix commits 7e4e807 and e18b419):
  vm/upvalue.go      `Upvalue` (`slot` pointer, `closed` field), `Get/Set/Close`
  vm/thread.go       `captureUpvalue` (walk of the open-upvalue list, sorted by descending slot
                     address; find-or-insert), `opCloseUpvalues(lastToClose)`, `push/pop`,
                     `getLocalValue/setLocalValue`, `getUpvalueValue/setUpvalueValue`,
                     `callBytecodeClosure`, `callBytecodeFunction` (+ its growth check),
                     `callBytecodeFunctionTCO` (after d86f559: closes the frame's upvalues first),
                     `createCurrentCallFrame`, `restoreLastFrame`, `growValueStack`.

Three machines over the same operation alphabet `Op`:

* `CA`  the ADDRESSED concrete machine: the value stack is a backing array at address `base`,
        `sp`, `fp`, saved frame pointers and open upvalue slots are byte addresses
        (`ValueSize = 24`); `grow` reallocates and rebases exactly as `growValueStack` does.
        This is the model the real `*vm.Thread` is compared with (driver domain `upv`).
* `C`   the INDEX form of the same machine (slot indices instead of addresses, no capacity):
        the address-free abstraction `abs : CA → C`.
* `A`   the reference semantics: every variable is a heap cell, the stack holds cell
        references, closures (handles, frame upvalues) hold cell references; closing a scope
        rebinds its slots to fresh cells. No upvalue objects, no list, no addresses.

A *handle* is the result of the k-th `capture` (the k-th environment slot of some closure).
Values are opaque integers (`SmallInt` payloads in the harness).
-/
namespace Elk.Upvalue

abbrev Val := Int

/-- `value.Undefined` as written by `pop`, and the stack sentinel: never observable below `sp`. -/
def undef : Val := 0
def sentinel : Val := -1

inductive Err where
  | oob        -- local / pop / call outside the live part of the stack
  | full       -- push onto the sentinel slot (the VM would write past the array)
  | dangling   -- dereference of an upvalue slot pointer outside `[base, sp)`
  | corrupt    -- a closed (or unknown) upvalue on the open list: Go compares a heap address
  | noframe    -- return without a call frame
  | badHandle  -- unknown handle / frame upvalue index
  | max        -- `growValueStack`: "maximum value stack size exceeded"
deriving Repr, DecidableEq, Inhabited

inductive Op where
  | push (v : Val)
  | pop
  | getLocal (i : Nat)
  | setLocal (i : Nat) (v : Val)
  | capture (i : Nat)              -- `captureUpvalue(fp + i)`; the result becomes the next handle
  | close (i : Nat)                -- `opCloseUpvalues(fp + i)`
  | uget (k : Nat)                 -- `handle[k].Get()`
  | uset (k : Nat) (v : Val)       -- `handle[k].Set(v)`
  | fget (j : Nat)                 -- GET_UPVALUE j : `vm.upvalues[j].Get()`
  | fset (j : Nat) (v : Val)       -- SET_UPVALUE j
  | callc (argc : Nat) (ks : List Nat)   -- `callBytecodeClosure`, closure.Upvalues = handles ks
  | callm (argc : Nat)             -- `callBytecodeFunction` (keeps `vm.upvalues`; growth check)
  | tcall (argc : Nat)             -- `callBytecodeFunctionTCO`: the running frame is reused
  | ret                            -- `restoreLastFrame`
  | grow                           -- `growValueStack`
deriving Repr, DecidableEq, Inhabited

/-- lookup of a list of handles (`none` if one is unknown) -/
def lookupAll (hs : List Nat) : List Nat → Option (List Nat)
  | [] => some []
  | k :: ks =>
    match hs[k]?, lookupAll hs ks with
    | some id, some ids => some (id :: ids)
    | _, _ => none

/-! ## Index form -/

inductive Uv where
  | opn (slot : Nat)      -- open: `slot` points at stack slot `slot`
  | closed (v : Val)      -- closed: `slot = &closed`
deriving Repr, DecidableEq, Inhabited

structure Frame where
  fp : Nat
  upvalues : List Nat
deriving Repr, DecidableEq, Inhabited

structure C where
  stack : List Val          -- live part `[0, sp)`
  fp : Nat
  upvalues : List Nat       -- `vm.upvalues` (upvalue ids)
  frames : List Frame       -- live call frames, innermost first
  heap : List Uv            -- every upvalue object ever created, by creation order
  openL : List Nat          -- `openUpvalueHead` list, head first
  hs : List Nat             -- handles: results of the `capture` operations, in order
deriving Repr, DecidableEq, Inhabited

def C.init : C := ⟨[], 0, [], [], [], [], []⟩

/-- the loop of `captureUpvalue`: skip nodes whose slot is above `slot`.
Returns (nodes skipped, remainder starting at `currentUpvalue`). -/
def walk (h : List Uv) (slot : Nat) : List Nat → Except Err (List Nat × List Nat)
  | [] => .ok ([], [])
  | u :: rest =>
    match h[u]? with
    | some (.opn s) =>
      if s ≤ slot then .ok ([], u :: rest)
      else match walk h slot rest with
        | .ok (p, r) => .ok (u :: p, r)
        | .error e => .error e
    | _ => .error .corrupt

/-- `captureUpvalue`: find the upvalue of `slot` or insert a new one, keeping the list order. -/
def capture (c : C) (slot : Nat) : Except Err (C × Nat) :=
  match walk c.heap slot c.openL with
  | .error e => .error e
  | .ok (pre, []) =>
    .ok ({ c with heap := c.heap ++ [.opn slot], openL := pre ++ [c.heap.length] }, c.heap.length)
  | .ok (pre, cur :: rest) =>
    if c.heap[cur]? = some (.opn slot) then .ok (c, cur)
    else .ok ({ c with heap := c.heap ++ [.opn slot], openL := pre ++ c.heap.length :: cur :: rest },
              c.heap.length)

/-- the loop of `opCloseUpvalues`: close and unlink from the head while `slot ≥ from`. -/
def closeLoop (stack : List Val) (frm : Nat) : List Uv → List Nat → Except Err (List Uv × List Nat)
  | h, [] => .ok (h, [])
  | h, u :: rest =>
    match h[u]? with
    | some (.opn s) =>
      if s < frm then .ok (h, u :: rest)
      else match stack[s]? with
        | some v => closeLoop stack frm (h.set u (.closed v)) rest
        | none => .error .dangling
    | _ => .error .corrupt

def uvGet (c : C) (id : Nat) : Except Err Val :=
  match c.heap[id]? with
  | none => .error .badHandle
  | some (.closed v) => .ok v
  | some (.opn s) =>
    match c.stack[s]? with
    | some v => .ok v
    | none => .error .dangling

def uvSet (c : C) (id : Nat) (v : Val) : Except Err C :=
  match c.heap[id]? with
  | none => .error .badHandle
  | some (.closed _) => .ok { c with heap := c.heap.set id (.closed v) }
  | some (.opn s) =>
    if s < c.stack.length then .ok { c with stack := c.stack.set s v } else .error .dangling

def step (c : C) : Op → Except Err (C × Option Val)
  | .push v => .ok ({ c with stack := c.stack ++ [v] }, none)
  | .pop =>
    if c.stack.length = 0 then .error .oob
    else .ok ({ c with stack := c.stack.dropLast }, none)
  | .getLocal i =>
    match c.stack[c.fp + i]? with
    | some v => .ok (c, some v)
    | none => .error .oob
  | .setLocal i v =>
    if c.fp + i < c.stack.length then .ok ({ c with stack := c.stack.set (c.fp + i) v }, none)
    else .error .oob
  | .capture i =>
    if c.fp + i < c.stack.length then
      match capture c (c.fp + i) with
      | .ok (c', id) => .ok ({ c' with hs := c'.hs ++ [id] }, none)
      | .error e => .error e
    else .error .oob
  | .close i =>
    match closeLoop c.stack (c.fp + i) c.heap c.openL with
    | .ok (h, l) => .ok ({ c with heap := h, openL := l }, none)
    | .error e => .error e
  | .uget k =>
    match c.hs[k]? with
    | none => .error .badHandle
    | some id =>
      match uvGet c id with
      | .ok v => .ok (c, some v)
      | .error e => .error e
  | .uset k v =>
    match c.hs[k]? with
    | none => .error .badHandle
    | some id =>
      match uvSet c id v with
      | .ok c' => .ok (c', none)
      | .error e => .error e
  | .fget j =>
    match c.upvalues[j]? with
    | none => .error .badHandle
    | some id =>
      match uvGet c id with
      | .ok v => .ok (c, some v)
      | .error e => .error e
  | .fset j v =>
    match c.upvalues[j]? with
    | none => .error .badHandle
    | some id =>
      match uvSet c id v with
      | .ok c' => .ok (c', none)
      | .error e => .error e
  | .callc n ks =>
    if n + 1 ≤ c.stack.length then
      match lookupAll c.hs ks with
      | some ids =>
        .ok ({ c with frames := ⟨c.fp, c.upvalues⟩ :: c.frames, fp := c.stack.length - (n + 1),
                      upvalues := ids }, none)
      | none => .error .badHandle
    else .error .oob
  | .callm n =>
    if n + 1 ≤ c.stack.length then
      .ok ({ c with frames := ⟨c.fp, c.upvalues⟩ :: c.frames, fp := c.stack.length - (n + 1) }, none)
    else .error .oob
  | .tcall n =>
    -- close the frame's upvalues, move receiver and arguments down to `fp`, drop the rest
    if c.fp + (n + 1) ≤ c.stack.length then
      match closeLoop c.stack c.fp c.heap c.openL with
      | .ok (h, l) =>
        .ok ({ c with stack := c.stack.take c.fp ++ c.stack.drop (c.stack.length - (n + 1)),
                      heap := h, openL := l }, none)
      | .error e => .error e
    else .error .oob
  | .ret =>
    match c.frames with
    | [] => .error .noframe
    | f :: fs =>
      match c.stack.getLast? with
      | none => .error .oob
      | some rv =>
        if c.fp < c.stack.length then
          match closeLoop c.stack c.fp c.heap c.openL with
          | .ok (h, l) =>
            .ok ({ c with stack := c.stack.take c.fp ++ [rv], fp := f.fp, upvalues := f.upvalues,
                          frames := fs, heap := h, openL := l }, none)
          | .error e => .error e
        else .error .oob
  | .grow => .ok (c, none)

/-- `callBytecodeFunctionTCO` as it was before d86f559: the frame's slots are overwritten while
upvalues are still open on them. All other operations as in `step`. -/
def stepPreTCO (c : C) : Op → Except Err (C × Option Val)
  | .tcall n =>
    if c.fp + (n + 1) ≤ c.stack.length then
      .ok ({ c with stack := c.stack.take c.fp ++ c.stack.drop (c.stack.length - (n + 1)) }, none)
    else .error .oob
  | op => step c op

/-- run an operation list, collecting the values read -/
def run (stp : σ → Op → Except Err (σ × Option Val)) (s : σ) : List Op → Except Err (σ × List Val)
  | [] => .ok (s, [])
  | op :: ops =>
    match stp s op with
    | .error e => .error e
    | .ok (s', r) =>
      match run stp s' ops with
      | .error e => .error e
      | .ok (s'', rs) => .ok (s'', r.toList ++ rs)

/-- The compiler's discipline, as far as the machine can see it: a slot does not leave the
stack while an open upvalue points at it (`CLOSE_UPVALUES` precedes the pops of a scope). -/
def scopeOk (c : C) : Op → Bool
  | .pop => c.heap.all (fun u => u != .opn (c.stack.length - 1))
  | _ => true

/-- the concrete step, refusing operations that break the discipline -/
def stepS (c : C) (op : Op) : Except Err (C × Option Val) :=
  if scopeOk c op then step c op else .error .dangling

/-! ## Reference semantics: variables are heap cells -/

structure A where
  cells : List Val          -- the heap of variables
  stack : List Nat          -- slot ↦ cell of the variable living there
  fp : Nat
  upvalues : List Nat       -- cells captured by the running closure
  frames : List Frame       -- (fp, captured cells) of the callers, innermost first
  hs : List Nat             -- handle ↦ cell
deriving Repr, DecidableEq, Inhabited

def A.init : A := ⟨[], [], 0, [], [], []⟩

/-- read the cells referenced by a list -/
def readAll (cells : List Val) : List Nat → Option (List Val)
  | [] => some []
  | r :: rs =>
    match cells[r]?, readAll cells rs with
    | some v, some vs => some (v :: vs)
    | _, _ => none

def cellGet (a : A) (r : Nat) : Except Err Val :=
  match a.cells[r]? with
  | some v => .ok v
  | none => .error .corrupt

def cellSet (a : A) (r : Nat) (v : Val) : Except Err A :=
  if r < a.cells.length then .ok { a with cells := a.cells.set r v } else .error .corrupt

def stepA (a : A) : Op → Except Err (A × Option Val)
  | .push v => .ok ({ a with cells := a.cells ++ [v], stack := a.stack ++ [a.cells.length] }, none)
  | .pop =>
    if a.stack.length = 0 then .error .oob
    else .ok ({ a with stack := a.stack.dropLast }, none)
  | .getLocal i =>
    match a.stack[a.fp + i]? with
    | some r => match cellGet a r with
      | .ok v => .ok (a, some v)
      | .error e => .error e
    | none => .error .oob
  | .setLocal i v =>
    match a.stack[a.fp + i]? with
    | some r => match cellSet a r v with
      | .ok a' => .ok (a', none)
      | .error e => .error e
    | none => .error .oob
  | .capture i =>
    match a.stack[a.fp + i]? with
    | some r => .ok ({ a with hs := a.hs ++ [r] }, none)
    | none => .error .oob
  | .close i =>
    -- end of scope for the slots from `fp + i`: the variables living there are detached from
    -- the stack; the slots are rebound to fresh variables holding the same values
    match readAll a.cells (a.stack.drop (a.fp + i)) with
    | some vs =>
      .ok ({ a with cells := a.cells ++ vs,
                    stack := a.stack.take (a.fp + i) ++ List.range' a.cells.length vs.length }, none)
    | none => .error .corrupt
  | .uget k =>
    match a.hs[k]? with
    | none => .error .badHandle
    | some r => match cellGet a r with
      | .ok v => .ok (a, some v)
      | .error e => .error e
  | .uset k v =>
    match a.hs[k]? with
    | none => .error .badHandle
    | some r => match cellSet a r v with
      | .ok a' => .ok (a', none)
      | .error e => .error e
  | .fget j =>
    match a.upvalues[j]? with
    | none => .error .badHandle
    | some r => match cellGet a r with
      | .ok v => .ok (a, some v)
      | .error e => .error e
  | .fset j v =>
    match a.upvalues[j]? with
    | none => .error .badHandle
    | some r => match cellSet a r v with
      | .ok a' => .ok (a', none)
      | .error e => .error e
  | .callc n ks =>
    if n + 1 ≤ a.stack.length then
      match lookupAll a.hs ks with
      | some rs =>
        .ok ({ a with frames := ⟨a.fp, a.upvalues⟩ :: a.frames, fp := a.stack.length - (n + 1),
                      upvalues := rs }, none)
      | none => .error .badHandle
    else .error .oob
  | .callm n =>
    if n + 1 ≤ a.stack.length then
      .ok ({ a with frames := ⟨a.fp, a.upvalues⟩ :: a.frames, fp := a.stack.length - (n + 1) }, none)
    else .error .oob
  | .tcall n =>
    -- the caller's variables leave the stack; receiver and arguments become the callee's
    -- variables (fresh cells)
    if a.fp + (n + 1) ≤ a.stack.length then
      match readAll a.cells (a.stack.drop (a.stack.length - (n + 1))) with
      | some vs =>
        .ok ({ a with cells := a.cells ++ vs,
                      stack := a.stack.take a.fp ++ List.range' a.cells.length vs.length }, none)
      | none => .error .corrupt
    else .error .oob
  | .ret =>
    match a.frames with
    | [] => .error .noframe
    | f :: fs =>
      match a.stack.getLast? with
      | none => .error .oob
      | some r =>
        if a.fp < a.stack.length then
          match cellGet a r with
          | .ok rv =>
            -- the callee's variables leave the stack; the result lives in a fresh cell
            .ok ({ a with cells := a.cells ++ [rv], stack := a.stack.take a.fp ++ [a.cells.length],
                          fp := f.fp, upvalues := f.upvalues, frames := fs }, none)
          | .error e => .error e
        else .error .oob
  | .grow => .ok (a, none)

/-! ## Addressed form -/

/-- `value.ValueSize` -/
def VS : Int := 24

inductive UvA where
  | opn (addr : Int)
  | closed (v : Val)
deriving Repr, DecidableEq, Inhabited

structure FrameA where
  fp : Int
  upvalues : List Nat
deriving Repr, DecidableEq, Inhabited

structure CA where
  base : Int                -- `&stack[0]`
  mem : List Val            -- the whole backing array (`len(vm.stack)` slots)
  sp : Int
  fp : Int
  upvalues : List Nat
  frames : List FrameA      -- `callFrames[0:cfp]`, innermost first
  stale : List FrameA       -- `callFrames[cfp:]` as far as ever written: popped frames
  heap : List UvA
  openL : List Nat
  hs : List Nat
deriving Repr, DecidableEq, Inhabited

/-- Parameters that must not matter: the growth policy of `callBytecodeFunction`
(`float64(spOffset) > 0.7*float64(len(stack))` in the driver), where the allocator puts the new
array, and `MAX_VALUE_STACK_SIZE`. -/
structure Cfg where
  needGrow : Nat → Nat → Bool
  alloc : CA → Int
  maxSize : Nat

/-- initial thread: `size` slots at address `b` (`vm.New`) -/
def CA.init (b : Int) (size : Nat) : CA :=
  { base := b, mem := (List.replicate size undef).set (size - 1) sentinel, sp := b, fp := b,
    upvalues := [], frames := [], stale := [], heap := [], openL := [], hs := [] }

/-- dereference of a stack pointer: legal only inside the live part, on a slot boundary -/
def CA.slot? (s : CA) (addr : Int) : Option Nat :=
  if s.base ≤ addr ∧ addr < s.sp ∧ (addr - s.base) % VS = 0 then some ((addr - s.base) / VS).toNat
  else none

def walkA (h : List UvA) (slot : Int) : List Nat → Except Err (List Nat × List Nat)
  | [] => .ok ([], [])
  | u :: rest =>
    match h[u]? with
    | some (.opn a) =>
      if a ≤ slot then .ok ([], u :: rest)
      else match walkA h slot rest with
        | .ok (p, r) => .ok (u :: p, r)
        | .error e => .error e
    | _ => .error .corrupt

def captureA (s : CA) (slot : Int) : Except Err (CA × Nat) :=
  match walkA s.heap slot s.openL with
  | .error e => .error e
  | .ok (pre, []) =>
    .ok ({ s with heap := s.heap ++ [.opn slot], openL := pre ++ [s.heap.length] }, s.heap.length)
  | .ok (pre, cur :: rest) =>
    if s.heap[cur]? = some (.opn slot) then .ok (s, cur)
    else .ok ({ s with heap := s.heap ++ [.opn slot], openL := pre ++ s.heap.length :: cur :: rest },
              s.heap.length)

def closeLoopA (s : CA) (last : Int) : List UvA → List Nat → Except Err (List UvA × List Nat)
  | h, [] => .ok (h, [])
  | h, u :: rest =>
    match h[u]? with
    | some (.opn a) =>
      if a < last then .ok (h, u :: rest)
      else match s.slot? a with
        | some i => match s.mem[i]? with
          | some v => closeLoopA s last (h.set u (.closed v)) rest
          | none => .error .dangling
        | none => .error .dangling
    | _ => .error .corrupt

def uvGetA (s : CA) (id : Nat) : Except Err Val :=
  match s.heap[id]? with
  | none => .error .badHandle
  | some (.closed v) => .ok v
  | some (.opn a) =>
    match s.slot? a with
    | some i => match s.mem[i]? with
      | some v => .ok v
      | none => .error .dangling
    | none => .error .dangling

def uvSetA (s : CA) (id : Nat) (v : Val) : Except Err CA :=
  match s.heap[id]? with
  | none => .error .badHandle
  | some (.closed _) => .ok { s with heap := s.heap.set id (.closed v) }
  | some (.opn a) =>
    match s.slot? a with
    | some i => if i < s.mem.length then .ok { s with mem := s.mem.set i v } else .error .dangling
    | none => .error .dangling

/-- is `a` inside the old backing array? (`slotPtr < oldStackPtr || slotPtr >= oldStackEnd`) -/
def inOld (s : CA) (a : Int) : Bool := decide (s.base ≤ a) && decide (a < s.base + VS * s.mem.length)

/-- `stackOffsetFromTo(p, &stack[0])` then `stackAdd(&newStack[0], offset)`; Go `/` truncates -/
def rebasePtr (s : CA) (nb : Int) (p : Int) : Int := nb + ((p - s.base).tdiv VS) * VS

def rebaseUv (s : CA) (nb : Int) : UvA → UvA
  | .closed v => .closed v
  | .opn a => if inOld s a then .opn (rebasePtr s nb a) else .opn a

/-- one `for _, upvalue := range …` loop of `growValueStack` -/
def rebaseIds (f : UvA → UvA) (h : List UvA) (ids : List Nat) : List UvA :=
  ids.foldl (fun h id => h.modify id f) h

def rebaseFrame (s : CA) (nb : Int) (f : FrameA) : FrameA := { f with fp := rebasePtr s nb f.fp }

/-- `growValueStack` (after 7e4e807 and e18b419) with the new array at address `nb`:
walks every call frame's `upvalues` (all of `vm.callFrames`, stale entries included), then the
running frame's, then the open-upvalue list; each time only slots inside the old array. -/
def grow (s : CA) (nb : Int) : CA :=
  let n := s.mem.length
  let newMem := (s.mem ++ List.replicate n undef).set (2 * n - 1) sentinel
  let h1 := (s.frames.reverse ++ s.stale).foldl (fun h f => rebaseIds (rebaseUv s nb) h f.upvalues) s.heap
  let h2 := rebaseIds (rebaseUv s nb) h1 s.upvalues
  let h3 := rebaseIds (rebaseUv s nb) h2 s.openL
  { s with base := nb, mem := newMem,
           frames := s.frames.map (rebaseFrame s nb), stale := s.stale.map (rebaseFrame s nb),
           heap := h3, fp := rebasePtr s nb s.fp, sp := rebasePtr s nb s.sp }

/-- `growValueStack` as it was before e18b419: the frame walks have no in-old-array guard, so an
open upvalue reachable from two walked sets is rebased twice. -/
def rebaseUvNoGuard (s : CA) (nb : Int) : UvA → UvA
  | .closed v => .closed v
  | .opn a => .opn (rebasePtr s nb a)

def growNoGuard (s : CA) (nb : Int) : CA :=
  let n := s.mem.length
  let newMem := (s.mem ++ List.replicate n undef).set (2 * n - 1) sentinel
  let h1 := (s.frames.reverse ++ s.stale).foldl (fun h f => rebaseIds (rebaseUvNoGuard s nb) h f.upvalues) s.heap
  let h2 := rebaseIds (rebaseUvNoGuard s nb) h1 s.upvalues
  let h3 := rebaseIds (rebaseUv s nb) h2 s.openL
  { s with base := nb, mem := newMem,
           frames := s.frames.map (rebaseFrame s nb), stale := s.stale.map (rebaseFrame s nb),
           heap := h3, fp := rebasePtr s nb s.fp, sp := rebasePtr s nb s.sp }

/-- `growValueStack` as it was before 7e4e807: the arguments of the offset computation are
swapped (`stackOffsetFromTo(&stack[0], slot)`), and the open-upvalue list is not walked.
`fp`/`sp` went through `fpOffset()/spOffset()` and were right. -/
def rebasePtrBuggy (s : CA) (nb : Int) (p : Int) : Int := nb + ((s.base - p).tdiv VS) * VS

def rebaseUvBuggy (s : CA) (nb : Int) : UvA → UvA
  | .closed v => .closed v
  | .opn a => .opn (rebasePtrBuggy s nb a)

def growBuggy (s : CA) (nb : Int) : CA :=
  let n := s.mem.length
  let newMem := (s.mem ++ List.replicate n undef).set (2 * n - 1) sentinel
  let h1 := (s.frames.reverse ++ s.stale).foldl (fun h f => rebaseIds (rebaseUvBuggy s nb) h f.upvalues) s.heap
  let h2 := rebaseIds (rebaseUvBuggy s nb) h1 s.upvalues
  { s with base := nb, mem := newMem,
           frames := s.frames.map (fun f => { f with fp := rebasePtrBuggy s nb f.fp }),
           stale := s.stale.map (fun f => { f with fp := rebasePtrBuggy s nb f.fp }),
           heap := h2, fp := rebasePtr s nb s.fp, sp := rebasePtr s nb s.sp }

/-- `for i := range localCount { *fpAdd(i) = *spAdd(-localCount + i) }`: slot by slot, in
increasing order, reading the array as it is at that moment -/
def copyLoop (dst src : Nat) : Nat → Nat → List Val → Except Err (List Val)
  | 0, _, mem => .ok mem
  | k + 1, i, mem =>
    match mem[src + i]? with
    | some v => if dst + i < mem.length then copyLoop dst src k (i + 1) (mem.set (dst + i) v) else .error .oob
    | none => .error .oob

/-- `growValueStack` including its size check -/
def growChecked (cfg : Cfg) (s : CA) : Except Err CA :=
  if 2 * s.mem.length ≥ cfg.maxSize then .error .max else .ok (grow s (cfg.alloc s))

def stepCA (cfg : Cfg) (s : CA) : Op → Except Err (CA × Option Val)
  | .push v =>
    -- `*sp = v; sp++`
    if s.base ≤ s.sp ∧ (s.sp - s.base) % VS = 0 then
      let i := ((s.sp - s.base) / VS).toNat
      if i + 1 < s.mem.length then .ok ({ s with mem := s.mem.set i v, sp := s.sp + VS }, none)
      else .error .full
    else .error .dangling
  | .pop =>
    -- `sp--; *sp = Undefined`
    match s.slot? (s.sp - VS) with
    | some i => .ok ({ s with mem := s.mem.set i undef, sp := s.sp - VS }, none)
    | none => .error .oob
  | .getLocal i =>
    match s.slot? (s.fp + VS * i) with
    | some j => match s.mem[j]? with
      | some v => .ok (s, some v)
      | none => .error .oob
    | none => .error .oob
  | .setLocal i v =>
    match s.slot? (s.fp + VS * i) with
    | some j => if j < s.mem.length then .ok ({ s with mem := s.mem.set j v }, none) else .error .oob
    | none => .error .oob
  | .capture i =>
    match s.slot? (s.fp + VS * i) with
    | some _ =>
      match captureA s (s.fp + VS * i) with
      | .ok (s', id) => .ok ({ s' with hs := s'.hs ++ [id] }, none)
      | .error e => .error e
    | none => .error .oob
  | .close i =>
    match closeLoopA s (s.fp + VS * i) s.heap s.openL with
    | .ok (h, l) => .ok ({ s with heap := h, openL := l }, none)
    | .error e => .error e
  | .uget k =>
    match s.hs[k]? with
    | none => .error .badHandle
    | some id =>
      match uvGetA s id with
      | .ok v => .ok (s, some v)
      | .error e => .error e
  | .uset k v =>
    match s.hs[k]? with
    | none => .error .badHandle
    | some id =>
      match uvSetA s id v with
      | .ok s' => .ok (s', none)
      | .error e => .error e
  | .fget j =>
    match s.upvalues[j]? with
    | none => .error .badHandle
    | some id =>
      match uvGetA s id with
      | .ok v => .ok (s, some v)
      | .error e => .error e
  | .fset j v =>
    match s.upvalues[j]? with
    | none => .error .badHandle
    | some id =>
      match uvSetA s id v with
      | .ok s' => .ok (s', none)
      | .error e => .error e
  | .callc n ks =>
    -- `createCurrentCallFrame; fp = sp - (paramCount+1); upvalues = closure.Upvalues`
    match s.slot? (s.sp - VS * (n + 1)) with
    | some _ =>
      match lookupAll s.hs ks with
      | some ids =>
        .ok ({ s with frames := ⟨s.fp, s.upvalues⟩ :: s.frames, stale := s.stale.drop 1,
                      fp := s.sp - VS * (n + 1), upvalues := ids }, none)
      | none => .error .badHandle
    | none => .error .oob
  | .callm n =>
    -- as above without touching `vm.upvalues`, then the growth check
    match s.slot? (s.sp - VS * (n + 1)) with
    | some _ =>
      let s' := { s with frames := ⟨s.fp, s.upvalues⟩ :: s.frames, stale := s.stale.drop 1,
                         fp := s.sp - VS * (n + 1) }
      if cfg.needGrow ((s.sp - s.base) / VS).toNat s.mem.length then
        match growChecked cfg s' with
        | .ok s'' => .ok (s'', none)
        | .error e => .error e
      else .ok (s', none)
    | none => .error .oob
  | .tcall n =>
    -- `opCloseUpvalues(fp)`; copy receiver and arguments down to `fp`; `popN(vm.localCount)` where
    -- `localCount` is the rest of the frame (what the compiler guarantees at a tail-call site)
    match s.slot? s.fp, s.slot? (s.sp - VS * (n + 1)) with
    | some fpi, some src =>
      if fpi ≤ src then
        match closeLoopA s s.fp s.heap s.openL with
        | .ok (h, l) =>
          match copyLoop fpi src (n + 1) 0 s.mem with
          | .ok m => .ok ({ s with mem := m, sp := s.fp + VS * (n + 1), heap := h, openL := l }, none)
          | .error e => .error e
        | .error e => .error e
      else .error .oob
    | _, _ => .error .oob
  | .ret =>
    -- `returnValue = peek(); opCloseUpvalues(fp); popN(…); restore; *sp[-1] = returnValue`
    match s.frames with
    | [] => .error .noframe
    | f :: fs =>
      match s.slot? (s.sp - VS), s.slot? s.fp with
      | some top, some fpi =>
        match s.mem[top]? with
        | none => .error .oob
        | some rv =>
          match closeLoopA s s.fp s.heap s.openL with
          | .ok (h, l) =>
            .ok ({ s with mem := s.mem.set fpi rv, sp := s.fp + VS, fp := f.fp, upvalues := f.upvalues,
                          frames := fs, stale := f :: s.stale, heap := h, openL := l }, none)
          | .error e => .error e
      | _, _ => .error .oob
  | .grow =>
    match growChecked cfg s with
    | .ok s' => .ok (s', none)
    | .error e => .error e

/-! ## The address-free abstraction -/

def absUv (b : Int) : UvA → Uv
  | .opn a => .opn ((a - b) / VS).toNat
  | .closed v => .closed v

def absFrame (b : Int) (f : FrameA) : Frame := ⟨((f.fp - b) / VS).toNat, f.upvalues⟩

def abs (s : CA) : C :=
  { stack := s.mem.take ((s.sp - s.base) / VS).toNat,
    fp := ((s.fp - s.base) / VS).toNat,
    upvalues := s.upvalues,
    frames := s.frames.map (absFrame s.base),
    heap := s.heap.map (absUv s.base),
    openL := s.openL,
    hs := s.hs }

/-- what does not belong to the abstraction: slots above `sp`, popped call frames -/
structure Junk where
  g : List Val
  stale : List FrameA
deriving Repr, DecidableEq, Inhabited

def encUv (b : Int) : Uv → UvA
  | .opn s => .opn (b + VS * s)
  | .closed v => .closed v

def encFrame (b : Int) (f : Frame) : FrameA := ⟨b + VS * f.fp, f.upvalues⟩

/-- the addressed state that represents `c` at address `b` -/
def enc (b : Int) (j : Junk) (c : C) : CA :=
  { base := b, mem := c.stack ++ j.g, sp := b + VS * c.stack.length, fp := b + VS * c.fp,
    upvalues := c.upvalues, frames := c.frames.map (encFrame b), stale := j.stale,
    heap := c.heap.map (encUv b), openL := c.openL, hs := c.hs }

end Elk.Upvalue
