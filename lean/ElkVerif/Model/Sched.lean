/-
Model for C11: `concurrent.Foreach` (concurrent/foreach.go) and the shared state the concurrently
checked method bodies write to.

```go
func Foreach[E any](concurrencyLimit int, collection []E, f func(E)) {
    sem := make(chan bool, concurrencyLimit)
    for _, element := range collection {
        sem <- true                      // acquire a permit (blocks while `limit` goroutines run)
        go func(element E) { f(element); <-sem }(element)
    }
    for range cap(sem) { sem <- true }   // acquire every permit: returns only when nothing runs
}
```

The loop is a transition system over (pending, running, done): `spawn` moves the head of `pending`
to `running` when a permit is free; `finish` is any one of the running goroutines completing `f`
and releasing its permit. `f`'s effect on the shared state is one atomic *merge* of the task's
contribution (diagnostics appended under the SyncDiagnosticList mutex, methods pushed to the method
cache, symbols interned, bytecode attached to the method) — atomicity and independence are
HYPOTHESES about the real checker (see `Independent` in Props/C11.lean), tested, not proved.
Core Lean only.
-/
namespace Elk.Sched

structure FState (α : Type) where
  pending : List α
  running : List α
  done : List α          -- completion order
deriving Repr, DecidableEq

/-- one step of the semaphore loop with `limit` permits -/
inductive FStep {α : Type} (limit : Nat) : FState α → FState α → Prop where
  | spawn (a : α) (p r d : List α) (h : r.length < limit) :
      FStep limit ⟨a :: p, r, d⟩ ⟨p, r ++ [a], d⟩
  | finish (p r1 r2 d : List α) (x : α) :
      FStep limit ⟨p, r1 ++ x :: r2, d⟩ ⟨p, r1 ++ r2, d ++ [x]⟩

/-- executions: reflexive transitive closure, counting steps -/
inductive FRun {α : Type} (limit : Nat) : Nat → FState α → FState α → Prop where
  | refl (s : FState α) : FRun limit 0 s s
  | step {n : Nat} {s t u : FState α} : FStep limit s t → FRun limit n t u → FRun limit (n + 1) s u

def FState.init {α : Type} (c : List α) : FState α := ⟨c, [], []⟩

/-- `Foreach` returns exactly in these states: loop finished and every permit could be re-acquired -/
def FState.terminal {α : Type} (s : FState α) : Prop := s.pending = [] ∧ s.running = []

/-- termination measure -/
def FState.measure {α : Type} (s : FState α) : Nat := 2 * s.pending.length + s.running.length

/-- shared state after the tasks completed in the order `done`: the contributions are merged one
after the other (each merge is atomic) -/
def mergeAll {σ κ : Type} (merge : σ → κ → σ) (s0 : σ) (contribs : List κ) : σ :=
  contribs.foldl merge s0

/-- an executable scheduler for the driver: `choices` picks, at each step, spawn (0) or which
running task finishes (k+1 → index k mod running.length); always completes -/
def simulate {α : Type} (limit : Nat) : Nat → List Nat → FState α → FState α
  | 0, _, s => s
  | fuel + 1, choices, s =>
    match s.pending, s.running with
    | [], [] => s
    | a :: p, r =>
      let (c, rest) := match choices with | [] => (0, []) | c :: rest => (c, rest)
      if r.length < limit ∧ (c = 0 ∨ r = []) then simulate limit fuel rest ⟨p, r ++ [a], s.done⟩
      else
        match r with
        | [] => s     -- limit = 0: deadlock (excluded by limit ≥ 1)
        | x :: xs =>
          let i := (c - 1) % (x :: xs).length
          simulate limit fuel rest ⟨a :: p, (x :: xs).eraseIdx i, s.done ++ [(x :: xs).getD i x]⟩
    | [], x :: xs =>
      let (c, rest) := match choices with | [] => (0, []) | c :: rest => (c, rest)
      let i := c % (x :: xs).length
      simulate limit fuel rest ⟨[], (x :: xs).eraseIdx i, s.done ++ [(x :: xs).getD i x]⟩

end Elk.Sched
