import ElkVerif.Model.Val
/-!
# Model of the evaluation paths of a binary operator (C08)

Mirrors

* `compiler/bytecode_compiler.go` `emitBinaryOperation`: the opcode is chosen from the *static type of the left
  operand* — the table itself is probed from the real compiler (`ElkVerif/Gen/OpSelect.lean`);
* `vm/thread.go` typed handlers `opAddInt … opNotEqualFloat`: which receiver method they call and **with which
  accessor they read the left operand** (`handlerOf`, compared with the probed `Gen/Handlers.lean`);
* `vm/thread.go` `binaryOperation` + `value/value.go` `AddVal/…`: the generic dispatch on the runtime
  representation of the left operand;
* `compiler/resolve.go` `resolveBinaryExpression`: constant folding calls the same `value.*Val` functions and gives
  up (`Undefined`) on an error; `emitFloat` loads the folded constant.

The receivers' methods (`SmallInt.AddVal`, `Float.SubtractVal`, …) are an abstract parameter `Sem`: the theorems
say the paths hand the same operands, read the same way, to the same method.
-/
namespace Elk.Paths

/-- runtime representation of a left operand, as the handlers can see it -/
inductive LV (V : Type)
  | small (i : Int)      -- SMALL_INT_FLAG: the data word is the integer
  | big (i : Int)        -- reference to *BigInt
  | float (bits : Nat)   -- FLOAT_FLAG: the data word is the IEEE bit pattern
  | other (v : V)        -- anything else
deriving Repr

inductive Out (V E : Type)
  | ok (v : V)
  | err (e : E)          -- an Elk error is thrown
  | undef                -- the handler dropped the error and pushed `Undefined`
  | panic                -- Go panic (type assertion on the operand)
deriving DecidableEq, Repr

/-- the receivers' methods, by operator name -/
structure Sem (V E : Type) where
  small : String → Int → V → Except E V    -- `SmallInt.<Op>Val(right)`, receiver = int64 word
  big : String → Int → V → Except E V      -- `(*BigInt).<Op>Val(right)`
  float : String → Nat → V → Except E V    -- `Float.<Op>Val(right)`, receiver = bit pattern
  other : String → V → V → Except E V      -- every other receiver (builtin switch or method fallback)

def outOf {V E} : Except E V → Out V E
  | .ok v => .ok v
  | .error e => .err e

/-- `vm.binaryOperation(value.<Op>Val, …)`: switch on the representation of the left operand -/
def generic {V E} (sem : Sem V E) (op : String) (l : LV V) (r : V) : Out V E :=
  match l with
  | .small i => outOf (sem.small op i r)
  | .big i => outOf (sem.big op i r)
  | .float b => outOf (sem.float op b r)
  | .other v => outOf (sem.other op v r)

/-- how a typed handler reads its left operand -/
inductive Acc
  | intDispatch     -- `if left.IsSmallInt() { left.AsSmallInt() } else { left.AsReference().(*value.BigInt) }`
  | asFloat         -- `left.AsFloat()`
  | asSmallIntRaw   -- `left.AsSmallInt()` without a test: the data word whatever it is
deriving DecidableEq, Repr

structure Handler where
  op : String            -- the receiver method it calls
  acc : Acc
  propagates : Bool      -- does it return the method's error (`DIVIDE_INT`, `MODULO_INT`) or drop it (`result, _ :=`)
  negate : Bool := false -- `NOT_EQUAL_*`: `!Equal`
deriving DecidableEq, Repr

/-- `vm/thread.go`: the typed handlers -/
def handlerOf : String → Option Handler
  | "ADD_INT" => some ⟨"+", .intDispatch, false, false⟩
  | "SUBTRACT_INT" => some ⟨"-", .intDispatch, false, false⟩
  | "MULTIPLY_INT" => some ⟨"*", .intDispatch, false, false⟩
  | "DIVIDE_INT" => some ⟨"/", .intDispatch, true, false⟩
  | "EXPONENTIATE_INT" => some ⟨"**", .intDispatch, false, false⟩
  | "MODULO_INT" => some ⟨"%", .intDispatch, true, false⟩
  | "LBITSHIFT_INT" => some ⟨"<<", .intDispatch, false, false⟩
  | "RBITSHIFT_INT" => some ⟨">>", .intDispatch, false, false⟩
  | "BITWISE_AND_INT" => some ⟨"&", .intDispatch, false, false⟩
  | "BITWISE_OR_INT" => some ⟨"|", .intDispatch, false, false⟩
  | "BITWISE_XOR_INT" => some ⟨"^", .intDispatch, false, false⟩
  | "EQUAL_INT" => some ⟨"==", .intDispatch, false, false⟩
  | "NOT_EQUAL_INT" => some ⟨"==", .intDispatch, false, true⟩
  | "GREATER_INT" => some ⟨">", .intDispatch, false, false⟩
  | "GREATER_EQUAL_I" => some ⟨">=", .intDispatch, false, false⟩
  | "LESS_INT" => some ⟨"<", .intDispatch, false, false⟩
  | "LESS_EQUAL_INT" => some ⟨"<=", .intDispatch, false, false⟩
  | "ADD_FLOAT" => some ⟨"+", .asFloat, false, false⟩
  | "SUBTRACT_FLOAT" => some ⟨"-", .asFloat, false, false⟩          -- read `AsSmallInt` before the fix
  | "MULTIPLY_FLOAT" => some ⟨"*", .asFloat, false, false⟩
  | "DIVIDE_FLOAT" => some ⟨"/", .asFloat, false, false⟩
  | "MODULO_FLOAT" => some ⟨"%", .asFloat, false, false⟩
  | "EQUAL_FLOAT" => some ⟨"==", .asFloat, false, false⟩
  | "NOT_EQUAL_FLOAT" => some ⟨"==", .asFloat, false, true⟩
  | "GREATER_FLOAT" => some ⟨">", .asFloat, false, false⟩
  | "GREATER_EQUAL_F" => some ⟨">=", .asFloat, false, false⟩
  | "LESS_FLOAT" => some ⟨"<", .asFloat, false, false⟩               -- read `AsSmallInt` before the fix
  | "LESS_EQUAL_FLOAT" => some ⟨"<=", .asFloat, false, false⟩        -- read `AsSmallInt` before the fix
  | _ => none

/-- the handlers as they were before the `fix:` commit (witness theorems) -/
def legacyHandlerOf : String → Option Handler
  | "SUBTRACT_FLOAT" => some ⟨"-", .asSmallIntRaw, false, false⟩
  | "LESS_FLOAT" => some ⟨"<", .asSmallIntRaw, false, false⟩
  | "LESS_EQUAL_FLOAT" => some ⟨"<=", .asSmallIntRaw, false, false⟩
  | s => handlerOf s

/-- the 64-bit data word of an inline value read as int64 -/
def wordAsInt (bits : Nat) : Int := Int.bmod bits (2 ^ 64)

/-- what a result means after a typed handler: errors are dropped unless the handler propagates them -/
def finish {V E} (h : Handler) (neg : V → V) : Except E V → Out V E
  | .ok v => .ok (if h.negate then neg v else v)
  | .error e => if h.propagates then .err e else .undef

/-- a typed handler applied to a left operand of *any* representation -/
def typed {V E} (sem : Sem V E) (neg : V → V) (h : Handler) (l : LV V) (r : V) : Out V E :=
  match h.acc, l with
  | .intDispatch, .small i => finish h neg (sem.small h.op i r)
  | .intDispatch, .big i => finish h neg (sem.big h.op i r)
  | .intDispatch, _ => .panic                       -- `left.AsReference().(*value.BigInt)` on something else
  | .asFloat, .float b => finish h neg (sem.float h.op b r)
  | .asFloat, .small i => finish h neg (sem.float h.op (i % 2 ^ 64).toNat r)   -- the word, reinterpreted
  | .asFloat, _ => .panic
  | .asSmallIntRaw, .float b => finish h neg (sem.small h.op (wordAsInt b) r)
  | .asSmallIntRaw, .small i => finish h neg (sem.small h.op i r)
  | .asSmallIntRaw, _ => .panic

/-- static type classes of the left operand that get typed opcodes -/
inductive STy
  | int | float
deriving DecidableEq, Repr

def STy.name : STy → String
  | .int => "Int"
  | .float => "Float"

/-- values a variable of that static type can hold (type soundness, C02) -/
def hasTy {V} : LV V → STy → Bool
  | .small _, .int | .big _, .int | .float _, .float => true
  | _, _ => false

def accFits : Acc → STy → Bool
  | .intDispatch, .int | .asFloat, .float => true
  | _, _ => false

/-- the operator a (possibly negating) handler computes -/
def Handler.operator (h : Handler) : String :=
  if h.negate then (if h.op = "==" then "!=" else "!" ++ h.op) else h.op

/-! ## the probed tables -/

def lookup (rows : List (String × List String)) (ops : List String) (ty op : String) : Option String := do
  let row ← rows.lookup ty
  let i ← ops.idxOf? op
  row[i]?

/-- side condition on the probed selection table: whenever a typed opcode is selected for `Int`/`Float`, its
handler computes that operator and reads an operand of that type. `except` lists known-bad entries. -/
def tableOk (rows : List (String × List String)) (ops : List String) (except : List (String × String)) : Bool :=
  [STy.int, STy.float].all fun ty => ops.all fun op =>
    except.contains (ty.name, op) ||
    match lookup rows ops ty.name op with
    | none => true
    | some opc =>
      match handlerOf opc with
      | none => true                                  -- generic opcode or method call
      | some h => h.operator == op && accFits h.acc ty

/-- side condition on the probed handler table: the hand-written `handlerOf` reads operands the way the real
handlers were observed to -/
def accName : Acc → STy → String
  | .intDispatch, _ => "IsSmallInt?AsSmallInt:BigInt"
  | .asFloat, _ => "AsFloat"
  | .asSmallIntRaw, _ => "AsSmallInt"

def handlersOk (hs : List (String × String × String × String)) (except : List (String × String)) : Bool :=
  hs.all fun (opc, op, ty, acc) =>
    except.contains (ty, op) ||
    match handlerOf opc with
    | none => false
    | some h => h.operator == op && acc == accName h.acc (if ty = "Int" then .int else .float)

/-! ## constant folding -/

/-- `resolveBinaryExpression`: the same `value.<Op>Val` on the folded operands; an error or a missing builtin
means "not static" and the expression is compiled normally -/
def fold {V E} (sem : Sem V E) (op : String) (l : LV V) (r : V) : Option V :=
  match generic sem op l r with
  | .ok v => some v
  | _ => none

/-- `emitFloat` after the fix: the short opcodes only for the exact bit patterns of +0.0, 1.0, 2.0 -/
inductive FloatLoad
  | float0 | float1 | float2 | loadValue (bits : Nat)
deriving DecidableEq, Repr

def isZero64 (bits : Nat) : Bool := bits % 2 ^ 63 == 0

def emitFloat (bits : Nat) : FloatLoad :=
  if isZero64 bits then (if bits / 2 ^ 63 % 2 == 0 then .float0 else .loadValue bits)   -- `case 0:` + `!Signbit`
  else if bits == 0x3FF0000000000000 then .float1
  else if bits == 0x4000000000000000 then .float2
  else .loadValue bits

/-- before the fix: `switch f { case 0: FLOAT_0 …` matches -0.0 -/
def legacyEmitFloat (bits : Nat) : FloatLoad :=
  if isZero64 bits then .float0
  else if bits == 0x3FF0000000000000 then .float1
  else if bits == 0x4000000000000000 then .float2
  else .loadValue bits

/-- what the VM pushes for the load -/
def FloatLoad.run : FloatLoad → Nat
  | .float0 => 0
  | .float1 => 0x3FF0000000000000
  | .float2 => 0x4000000000000000
  | .loadValue b => b

end Elk.Paths
