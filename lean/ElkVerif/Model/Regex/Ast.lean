/-
Elk regex syntax trees (`regex/parser/ast/ast.go`) and flags (`regex/flag/flag.go`). Core Lean only.
Runes are `Nat` code points, strings are lists of runes.
-/
namespace Elk.Regex

abbrev Rune := Nat
abbrev Str := List Rune

/-- `bitfield.BitField8` over `flag.Flags` = [i, m, s, U, x, a] (bit values 1, 2, 4, 8, 16, 32) -/
structure Flags where
  i : Bool := false   -- CaseInsensitiveFlag
  m : Bool := false   -- MultilineFlag
  s : Bool := false   -- DotAllFlag
  U : Bool := false   -- UngreedyFlag
  x : Bool := false   -- ExtendedFlag
  a : Bool := false   -- ASCIIFlag
deriving DecidableEq, Repr, Inhabited

def Flags.ofNat (n : Nat) : Flags :=
  ⟨n.testBit 0, n.testBit 1, n.testBit 2, n.testBit 3, n.testBit 4, n.testBit 5⟩

def Flags.toNat (f : Flags) : Nat :=
  (if f.i then 1 else 0) + (if f.m then 2 else 0) + (if f.s then 4 else 0) +
  (if f.U then 8 else 0) + (if f.x then 16 else 0) + (if f.a then 32 else 0)

def Flags.any (f : Flags) : Bool := f.i || f.m || f.s || f.U || f.x || f.a

mutual
/-- `ast.Node`. One constructor per Go node type; `Nodes` is a Go slice of nodes. -/
inductive Node where
  | concat (els : Nodes)                                   -- ConcatenationNode
  | union (l r : Node)                                     -- UnionNode
  | zeroOrOne (r : Node) (alt : Bool)                      -- ZeroOrOneQuantifierNode
  | zeroOrMore (r : Node) (alt : Bool)
  | oneOrMore (r : Node) (alt : Bool)
  | nQuant (r : Node) (n : Str) (alt : Bool)               -- NQuantifierNode `{n}`
  | nmQuant (r : Node) (n m : Str) (alt : Bool)            -- NMQuantifierNode `{n,m}`
  | group (regex : Node) (name : Str) (setFlags unsetFlags : Flags) (nonCapturing : Bool)   -- GroupNode, Regex != nil
  | groupNoRegex (name : Str) (setFlags unsetFlags : Flags) (nonCapturing : Bool)          -- GroupNode, Regex == nil: `(?i)`
  | charClass (els : Nodes) (negated : Bool)               -- CharClassNode
  | charRange (l r : Node)                                 -- CharRangeNode
  | namedCharClass (name : Str) (negated : Bool)           -- `[:alpha:]`
  | char (c : Rune)
  | metaCharEscape (c : Rune)
  | quotedText (s : Str)
  | caretEscape (c : Rune)
  | unicodeEscape (s : Str)
  | hexEscape (s : Str)
  | octalEscape (s : Str)
  | unicodeCharClass (s : Str) (negated : Bool)
  | bell | formFeed | tab | newline | carriageReturn
  | startOfString | endOfString | absStart | absEnd | wordBoundary | notWordBoundary
  | word | notWord | digit | notDigit | whitespace | notWhitespace
  | hWhitespace | notHWhitespace | vWhitespace | notVWhitespace | anyChar
  | invalid                                                -- InvalidNode
inductive Nodes where
  | nil
  | cons (n : Node) (rest : Nodes)
end

def Nodes.toList : Nodes → List Node
  | .nil => []
  | .cons n rest => n :: rest.toList

def Nodes.ofList : List Node → Nodes
  | [] => .nil
  | n :: rest => .cons n (Nodes.ofList rest)

end Elk.Regex
