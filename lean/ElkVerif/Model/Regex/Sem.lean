import ElkVerif.Model.Regex.Transpile
/-
Matching semantics for C21. Core Lean only.

* `Tables`   — the Unicode data both matchers consult (general categories, simple case folding), abstract
* `GoRe`     — the target syntax (the RE2 subset the transpiler emits), its printer `GoRe.print` and its
               matching relation `GoRe.M` (RE2 reading: ASCII `\w \d \s \b`, `(?flags:…)` scoping)
* `EM`/`EMs` — the SPECIFICATION: what an Elk regex tree denotes under a flag set (Unicode-aware `\w \d \s \h \v`
               unless `a`, whitespace characters ignored under `x`, flags scoped by groups)
* `tg`/`tgs` — the transpiler restated as a tree-to-tree translation on the fragment covered so far
               (`none` outside the fragment); `Proofs/Regex.lean` shows that printing its result is exactly what the
               string-level mirror `trNode` of `regex/transpile.go` appends to its buffer.

A match is a pair of positions `i j` in the subject `s` (so anchors and `\b` can look at the context).
Greedy vs. lazy quantifiers and the `U` flag do not change which `(i, j)` pairs match, so they do not occur here.
-/
namespace Elk.Regex

structure Tables where
  cat : Str → Rune → Bool        -- `\p{Name}` membership
  foldEq : Rune → Rune → Bool    -- same simple-case-folding orbit (`unicode.SimpleFold`)
  posix : Str → Rune → Bool      -- `[:name:]` membership (ASCII classes)

/-- reflexive–transitive iteration of a match relation (Kleene star on position pairs) -/
inductive Star (R : Nat → Nat → Prop) : Nat → Nat → Prop
  | refl (i : Nat) : Star R i i
  | step {i k j : Nat} : R i k → Star R k j → Star R i j

section
variable (T : Tables) (s : Str)

/-- case folding of a set of runes: under `i` a rune is in the set when some rune of its orbit is -/
def foldSet (ci : Bool) (P : Rune → Prop) (r : Rune) : Prop :=
  if ci then ∃ r', T.foldEq r r' = true ∧ P r' else P r

/-- one rune of the subject at position `i` satisfying `P` -/
def one (P : Rune → Prop) (i j : Nat) : Prop := ∃ r, s[i]? = some r ∧ P r ∧ j = i + 1

def asciiWord (r : Rune) : Prop := (48 ≤ r ∧ r ≤ 57) ∨ (65 ≤ r ∧ r ≤ 90) ∨ (97 ≤ r ∧ r ≤ 122) ∨ r = 95
def asciiDigit (r : Rune) : Prop := 48 ≤ r ∧ r ≤ 57
/-- RE2 `\s`: `[\t\n\f\r ]` -/
def asciiSpace (r : Rune) : Prop := r = 9 ∨ r = 10 ∨ r = 12 ∨ r = 13 ∨ r = 32
def asciiH (r : Rune) : Prop := r = 9 ∨ r = 32
def asciiV (r : Rune) : Prop := r = 10 ∨ r = 11 ∨ r = 12 ∨ r = 13

/-- Unicode-aware sets of the Elk specification -/
def uniWord (r : Rune) : Prop :=
  T.cat (lit "L") r = true ∨ T.cat (lit "Mn") r = true ∨ T.cat (lit "Nd") r = true ∨ T.cat (lit "Pc") r = true
def uniDigit (r : Rune) : Prop := T.cat (lit "Nd") r = true
def uniSpace (r : Rune) : Prop := asciiSpace r ∨ r = 11 ∨ T.cat (lit "Z") r = true ∨ r = 0x85
def uniH (r : Rune) : Prop := r = 9 ∨ T.cat (lit "Zs") r = true
def uniV (r : Rune) : Prop := asciiV r ∨ r = 0x85 ∨ r = 0x2028 ∨ r = 0x2029

/-- ASCII word boundary at position `i` (RE2 `\b`; Elk keeps it ASCII whatever the flags) -/
def isWordAt (i : Nat) : Prop := ∃ r, s[i]? = some r ∧ asciiWord r
def wordBoundary (i : Nat) : Prop :=
  ((0 < i ∧ isWordAt s (i - 1)) ∧ ¬ isWordAt s i) ∨ (¬ (0 < i ∧ isWordAt s (i - 1)) ∧ isWordAt s i)

def atLineStart (m : Bool) (i : Nat) : Prop := i = 0 ∨ (m = true ∧ 0 < i ∧ s[i - 1]? = some 10)
def atLineEnd (m : Bool) (i : Nat) : Prop := i = s.length ∨ (m = true ∧ s[i]? = some 10)
end

/-! ### the target: RE2 syntax trees -/

/-- value of a string of hex digits (`strconv.ParseUint(s, 16, …)`; non-digits count as 0) -/
def hexDigitVal (c : Rune) : Nat :=
  if 48 ≤ c ∧ c ≤ 57 then c - 48 else if 97 ≤ c ∧ c ≤ 102 then c - 87 else if 65 ≤ c ∧ c ≤ 70 then c - 55 else 0
def hexVal (d : Str) : Nat := d.foldl (fun acc c => acc * 16 + hexDigitVal c) 0

/-- rune denoted by `\a \f \t \n \r \v` -/
def namedRune (c : Rune) : Rune :=
  if c = 97 then 7 else if c = 102 then 12 else if c = 116 then 9 else if c = 110 then 10
  else if c = 114 then 13 else if c = 118 then 11 else c

/-- an end of a range inside a bracket expression -/
inductive REnd where
  | rune (c : Rune)     -- printed raw
  | esc (c : Rune)      -- `\c`
  | named (c : Rune)    -- `\a \f \t \n \r`
deriving Repr, DecidableEq

/-- an element of a bracket expression -/
inductive Item where
  | rune (c : Rune)                 -- a literal rune, printed raw
  | esc (c : Rune)                  -- `\c`
  | named (c : Rune)                -- `\a \f \t \n \r \v` by letter `c`
  | hex (braced : Bool) (digits : Str)  -- `\x{…}` (braced) or `\xHH`
  | range (lo hi : REnd)            -- `lo-hi`
  | posix (neg : Bool) (name : Str) -- `[:name:]` / `[:^name:]`
  | perl (k : Rune)                 -- `\w \d \s \W \D \S`
  | uni (neg : Bool) (name : Str)   -- `\p{name}` / `\P{name}`
deriving Repr, DecidableEq

inductive GoRe where
  | eps
  | lit (c : Rune)
  | esc (c : Rune)                  -- `\c` for a meta character: the rune `c`
  | named (c : Rune)                -- `\a \f \t \n \r`
  | any
  | perl (k : Rune)
  | uni (neg : Bool) (name : Str)   -- `\p{name}` / `\P{name}`
  | cls (neg : Bool) (items : List Item)
  | bol | eol | bot | eot | wb | nwb
  | seq (a b : GoRe)
  | alt (a b : GoRe)
  | opt (r : GoRe) (lzy : Bool)
  | star (r : GoRe) (lzy : Bool)
  | plus (r : GoRe) (lzy : Bool)
  | grp (r : GoRe)                  -- `(r)`
  | ncg (r : GoRe)                  -- `(?:r)`
  | ngrp (name : Str) (r : GoRe)    -- `(?P<name>r)`
  | fgrp (set unset : Flags) (r : GoRe)  -- `(?set-unset:r)` (only i m s U are ever set here)
deriving Repr

def REnd.print : REnd → Str
  | .rune c => [c]
  | .esc c => [92, c]
  | .named c => [92, c]

def REnd.val : REnd → Rune
  | .rune c => c
  | .esc c => c
  | .named c => namedRune c

def Item.print : Item → Str
  | .rune c => [c]
  | .esc c => [92, c]
  | .named c => [92, c]
  | .hex braced d => if braced then lit "\\x{" ++ d ++ [125] else [92, 120] ++ d
  | .range lo hi => lo.print ++ [45] ++ hi.print
  | .posix neg name => [91, 58] ++ (if neg then [94] else []) ++ name ++ [58, 93]
  | .perl k => [92, k]
  | .uni neg name => [92, if neg then 80 else 112, 123] ++ name ++ [125]

/-- string literal as runes (`lit` would resolve to `GoRe.lit` inside the `GoRe` namespace) -/
abbrev sl (x : String) : Str := lit x

def GoRe.print : GoRe → Str
  | .eps => []
  | .lit c => [c]
  | .esc c => [92, c]
  | .named c => [92, c]
  | .any => [46]
  | .perl k => [92, k]
  | .uni neg name => [92, if neg then 80 else 112, 123] ++ name ++ [125]
  | .cls neg items => [91] ++ (if neg then [94] else []) ++ (items.map Item.print).flatten ++ [93]
  | .bol => [94] | .eol => [36] | .bot => sl "\\A" | .eot => sl "\\z" | .wb => sl "\\b" | .nwb => sl "\\B"
  | .seq a b => a.print ++ b.print
  | .alt a b => a.print ++ [124] ++ b.print
  | .opt r l => r.print ++ (if l then sl "??" else sl "?")
  | .star r l => r.print ++ (if l then sl "*?" else sl "*")
  | .plus r l => r.print ++ (if l then sl "+?" else sl "+")
  | .grp r => [40] ++ r.print ++ [41]
  | .ncg r => sl "(?:" ++ r.print ++ [41]
  | .ngrp name r => sl "(?P<" ++ name ++ [62] ++ r.print ++ [41]
  | .fgrp set unset r =>
    sl "(?" ++ flagChars set ++ (if unset.any then [45] ++ flagChars unset else []) ++ [58] ++ r.print ++ [41]

section
variable (T : Tables) (s : Str)

/-- RE2 reading of the ASCII Perl classes -/
def perlSet (k : Rune) : Rune → Prop :=
  if k = 119 ∨ k = 87 then asciiWord else if k = 100 ∨ k = 68 then asciiDigit else asciiSpace
def perlNeg (k : Rune) : Bool := k = 87 || k = 68 || k = 83

/-- membership of a rune in one bracket item (RE2: the positive part is case-folded first, then negated) -/
def Item.has (ci : Bool) : Item → Rune → Prop
  | .rune c, r => foldSet T ci (· = c) r
  | .esc c, r => foldSet T ci (· = c) r
  | .named c, r => foldSet T ci (· = namedRune c) r
  | .hex _ d, r => foldSet T ci (· = hexVal d) r
  | .range lo hi, r => foldSet T ci (fun x => lo.val ≤ x ∧ x ≤ hi.val) r
  | .posix neg name, r => if neg then ¬ foldSet T ci (fun x => T.posix name x = true) r
                          else foldSet T ci (fun x => T.posix name x = true) r
  | .perl k, r => if perlNeg k then ¬ foldSet T ci (perlSet k) r else foldSet T ci (perlSet k) r
  | .uni neg name, r => if neg then ¬ foldSet T ci (fun x => T.cat name x = true) r
                        else foldSet T ci (fun x => T.cat name x = true) r

/-- RE2 matching; `gf` carries the flags RE2 itself knows (`i m s`; `U` is irrelevant for match pairs) -/
def GoRe.M : GoRe → Flags → Nat → Nat → Prop
  | .eps, _, i, j => i = j
  | .lit c, gf, i, j => one s (foldSet T gf.i (· = c)) i j
  | .esc c, gf, i, j => one s (foldSet T gf.i (· = c)) i j
  | .named c, gf, i, j => one s (foldSet T gf.i (· = namedRune c)) i j
  | .any, gf, i, j => one s (fun r => gf.s = true ∨ r ≠ 10) i j
  | .perl k, gf, i, j =>
    one s (fun r => if perlNeg k then ¬ foldSet T gf.i (perlSet k) r else foldSet T gf.i (perlSet k) r) i j
  | .uni neg name, gf, i, j => one s (Item.has T gf.i (.uni neg name)) i j
  | .cls neg items, gf, i, j =>
    one s (fun r => if neg then ¬ (∃ it ∈ items, Item.has T gf.i it r) else (∃ it ∈ items, Item.has T gf.i it r)) i j
  | .bol, gf, i, j => i = j ∧ atLineStart s gf.m i
  | .eol, gf, i, j => i = j ∧ atLineEnd s gf.m i
  | .bot, _, i, j => i = j ∧ i = 0
  | .eot, _, i, j => i = j ∧ i = s.length
  | .wb, _, i, j => i = j ∧ wordBoundary s i
  | .nwb, _, i, j => i = j ∧ ¬ wordBoundary s i
  | .seq a b, gf, i, j => ∃ k, a.M gf i k ∧ b.M gf k j
  | .alt a b, gf, i, j => a.M gf i j ∨ b.M gf i j
  | .opt r _, gf, i, j => i = j ∨ r.M gf i j
  | .star r _, gf, i, j => Star (r.M gf) i j
  | .plus r _, gf, i, j => ∃ k, r.M gf i k ∧ Star (r.M gf) k j
  | .grp r, gf, i, j => r.M gf i j
  | .ncg r, gf, i, j => r.M gf i j
  | .ngrp _ r, gf, i, j => r.M gf i j
  | .fgrp set unset r, gf, i, j => r.M (applyFlags gf set unset).visible i j

/-! ### the specification: what an Elk tree denotes -/

/-- the set a single-rune Elk node denotes under flags `f` and whether it is a complemented set;
`none` for nodes that are not single-rune matchers of the fragment -/
def elkSet (f : Flags) : Node → Option ((Rune → Prop) × Bool)
  | .metaCharEscape c => some ((· = c), false)
  | .bell => some ((· = 7), false)
  | .formFeed => some ((· = 12), false)
  | .tab => some ((· = 9), false)
  | .newline => some ((· = 10), false)
  | .carriageReturn => some ((· = 13), false)
  | .word => some (if f.a then asciiWord else uniWord T, false)
  | .notWord => some (if f.a then asciiWord else uniWord T, true)
  | .digit => some (if f.a then asciiDigit else uniDigit T, false)
  | .notDigit => some (if f.a then asciiDigit else uniDigit T, true)
  | .whitespace => some (if f.a then asciiSpace else uniSpace T, false)
  | .notWhitespace => some (if f.a then asciiSpace else uniSpace T, true)
  | .hWhitespace => some (if f.a then asciiH else uniH T, false)
  | .notHWhitespace => some (if f.a then asciiH else uniH T, true)
  | .vWhitespace => some (if f.a then asciiV else uniV, false)
  | .notVWhitespace => some (if f.a then asciiV else uniV, true)
  | _ => none

/-- a (possibly complemented) set under case folding: fold the positive set, then complement -/
def setHas (ci : Bool) (P : (Rune → Prop) × Bool) (r : Rune) : Prop :=
  if P.2 then ¬ foldSet T ci P.1 r else foldSet T ci P.1 r

/-- the rune a node stands for when it is an end of a range -/
def runeOf : Node → Option Rune
  | .char c => some c
  | .metaCharEscape c => some c
  | .bell => some 7
  | .formFeed => some 12
  | .tab => some 9
  | .newline => some 10
  | .carriageReturn => some 13
  | _ => none

/-- the (possibly complemented) set a bracket-expression element denotes; whitespace is literal here even under `x` -/
def elemSet (f : Flags) : Node → Option ((Rune → Prop) × Bool)
  | .char c => some ((· = c), false)
  | .charRange l r =>
    match runeOf l, runeOf r with
    | some lo, some hi => some ((fun x => lo ≤ x ∧ x ≤ hi), false)
    | _, _ => none
  | .namedCharClass name neg => some ((fun x => T.posix name x = true), neg)
  | .unicodeCharClass name neg => some ((fun x => T.cat name x = true), neg)
  | n => elkSet T f n

def elemHas (f : Flags) (e : Node) (r : Rune) : Prop :=
  match elemSet T f e with
  | some P => setHas T f.i P r
  | none => False

mutual
/-- `EM r f i j`: the Elk regex `r`, read under flags `f`, matches `s[i..j)` -/
def EM : Node → Flags → Nat → Nat → Prop
  | .char c, f, i, j =>
    if f.x = true ∧ isSpace c = true then i = j          -- extended mode: whitespace is not part of the pattern
    else one s (foldSet T f.i (· = c)) i j
  | .anyChar, f, i, j => one s (fun r => f.s = true ∨ r ≠ 10) i j
  | .startOfString, f, i, j => i = j ∧ atLineStart s f.m i
  | .endOfString, f, i, j => i = j ∧ atLineEnd s f.m i
  | .absStart, _, i, j => i = j ∧ i = 0
  | .absEnd, _, i, j => i = j ∧ i = s.length
  | .wordBoundary, _, i, j => i = j ∧ wordBoundary s i
  | .notWordBoundary, _, i, j => i = j ∧ ¬ wordBoundary s i
  | .concat els, f, i, j => EMs els f i j
  | .union l r, f, i, j => EM l f i j ∨ EM r f i j
  | .zeroOrOne r _, f, i, j => i = j ∨ EM r f i j
  | .zeroOrMore r _, f, i, j => Star (EM r f) i j
  | .oneOrMore r _, f, i, j => ∃ k, EM r f i k ∧ Star (EM r f) k j
  | .group r _ set unset _, f, i, j => EM r (applyFlags f set unset) i j   -- flags are scoped by the group
  | .charClass els neg, f, i, j =>                           -- one rune in (or, negated, outside) the union of the elements
    one s (fun r => if neg then ¬ (∃ e ∈ els.toList, elemHas T f e r) else (∃ e ∈ els.toList, elemHas T f e r)) i j
  | n, f, i, j =>
    match elkSet T f n with
    | some P => one s (setHas T f.i P) i j
    | none => False                                       -- outside the fragment covered so far
def EMs : Nodes → Flags → Nat → Nat → Prop
  | .nil, _, i, j => i = j
  | .cons n rest, f, i, j => ∃ k, EM n f i k ∧ EMs rest f k j
end
end

/-! ### the transpiler as a tree translation (fragment) -/

/-- the Unicode expansions `transpile.go` writes for the shorthand classes (top-level mode) -/
def wordItems : List Item := [.uni false (lit "L"), .uni false (lit "Mn"), .uni false (lit "Nd"), .uni false (lit "Pc")]
def spaceItems : List Item := [.perl 115, .named 118, .uni false (lit "Z"), .hex false (lit "85")]
def hItems (a : Bool) : List Item := if a then [.named 116, .rune 32] else [.named 116, .uni false (lit "Zs")]
def vItems (a : Bool) : List Item :=
  [.named 110, .named 118, .named 102, .named 114] ++
    (if a then [] else [.hex false (lit "85"), .hex true (lit "2028"), .hex true (lit "2029")])

/-- translation of the single-rune nodes of the fragment in top-level mode -/
def tgLeaf (f : Flags) : Node → Option GoRe
  | .metaCharEscape c => some (.esc c)
  | .bell => some (.named 97)
  | .formFeed => some (.named 102)
  | .tab => some (.named 116)
  | .newline => some (.named 110)
  | .carriageReturn => some (.named 114)
  | .word => some (if f.a then .perl 119 else .cls false wordItems)
  | .notWord => some (if f.a then .perl 87 else .cls true wordItems)
  | .digit => some (if f.a then .perl 100 else .uni false (lit "Nd"))
  | .notDigit => some (if f.a then .perl 68 else .uni true (lit "Nd"))
  | .whitespace => some (if f.a then .perl 115 else .cls false spaceItems)
  | .notWhitespace => some (if f.a then .perl 83 else .cls true spaceItems)
  | .hWhitespace => some (.cls false (hItems f.a))
  | .notHWhitespace => some (.cls true (hItems f.a))
  | .vWhitespace => some (.cls false (vItems f.a))
  | .notVWhitespace => some (.cls true (vItems f.a))
  | _ => none

/-- `nodeHasToBeSplitInCharacterClasses` as a function of the class's polarity and the flags -/
def splitP (neg : Bool) (f : Flags) : Node → Bool
  | .notHWhitespace | .notVWhitespace => !neg
  | .notWhitespace | .notWord => !f.a && !neg
  | _ => false

def rend : Node → Option REnd
  | .char c => some (.rune c)
  | .metaCharEscape c => some (.esc c)
  | .bell => some (.named 97)
  | .formFeed => some (.named 102)
  | .tab => some (.named 116)
  | .newline => some (.named 110)
  | .carriageReturn => some (.named 114)
  | _ => none

/-- what `charClassElement` writes for an element that stays inside the brackets -/
def tgItems (f : Flags) : Node → Option (List Item)
  | .char c => some [.rune c]
  | .metaCharEscape c => some [.esc c]
  | .bell => some [.named 97]
  | .formFeed => some [.named 102]
  | .tab => some [.named 116]
  | .newline => some [.named 110]
  | .carriageReturn => some [.named 114]
  | .word => some (if f.a then [.perl 119] else wordItems)
  | .notWord => if f.a then some [.perl 87] else none
  | .digit => some [if f.a then .perl 100 else .uni false (lit "Nd")]
  | .notDigit => some [if f.a then .perl 68 else .uni true (lit "Nd")]
  | .whitespace => some (if f.a then [.perl 115] else spaceItems)
  | .notWhitespace => if f.a then some [.perl 83] else none
  | .hWhitespace => some (hItems f.a)
  | .vWhitespace => some (vItems f.a)
  | .charRange l r =>
    match rend l, rend r with
    | some a, some b => some [.range a b]
    | _, _ => none
  | .namedCharClass name neg => some [.posix neg name]
  | .unicodeCharClass name neg => some [.uni neg name]
  | _ => none

def mapItems (f : Flags) : List Node → Option (List Item)
  | [] => some []
  | e :: es => do
    let a ← tgItems f e
    let b ← mapItems f es
    pure (a ++ b)

def mapLeaf (f : Flags) : List Node → Option (List GoRe)
  | [] => some []
  | e :: es => do
    let a ← tgLeaf f e
    let b ← mapLeaf f es
    pure (a :: b)

def altList : GoRe → List GoRe → GoRe
  | g, [] => g
  | g, x :: xs => .alt g (altList x xs)

/-- `charClass`: the bracket expression, with the split-out negated shorthands as further alternatives -/
def tgClass (els : List Node) (neg : Bool) (f : Flags) : Option GoRe := do
  let items ← mapItems f (els.filter (fun n => !splitP neg f n))
  let leaves ← mapLeaf f (els.filter (splitP neg f))
  match (els.filter (fun n => !splitP neg f n)).isEmpty, leaves with
  | false, [] => pure (.cls neg items)
  | false, x :: xs => pure (.ncg (altList (.cls neg items) (x :: xs)))
  | true, [] => none            -- `[]` / `[^]`: written as full-range classes; not in the fragment
  | true, x :: xs => pure (.ncg (altList x xs))

mutual
def tg : Node → Flags → Option GoRe
  | .char c, f => some (if f.x && isSpace c then .eps else .lit c)
  | .anyChar, _ => some .any
  | .startOfString, _ => some .bol
  | .endOfString, _ => some .eol
  | .absStart, _ => some .bot
  | .absEnd, _ => some .eot
  | .wordBoundary, _ => some .wb
  | .notWordBoundary, _ => some .nwb
  | .concat els, f => tgs els f
  | .union l r, f => do
    let a ← tg l f
    let b ← tg r f
    pure (.alt a b)
  | .zeroOrOne r alt, f => do pure (.opt (← tg r f) alt)
  | .zeroOrMore r alt, f => do pure (.star (← tg r f) alt)
  | .oneOrMore r alt, f => do pure (.plus (← tg r f) alt)
  | .group r name set unset nc, f => do
    let inner ← tg r (applyFlags f set unset)
    if set.visible.any || unset.visible.any then pure (.fgrp set.visible unset.visible inner)
    else if set.any || unset.any then
      -- only `x`/`a` are switched: `(?:` … `)`; a name or `?:` after it would not be valid RE2, so not in the fragment
      if name.length > 0 || nc then none else pure (.ncg inner)
    else if name.length > 0 then pure (.ngrp name inner)
    else if nc then pure (.ncg inner)
    else pure (.grp inner)
  | .charClass els neg, f => tgClass els.toList neg f
  | n, f => tgLeaf f n
/-- a concatenation without `#` (no extended-mode comment can start) -/
def tgs : Nodes → Flags → Option GoRe
  | .nil, _ => some .eps
  | .cons n rest, f =>
    if f.x && isChar n 35 then none
    else do
      let a ← tg n f
      let b ← tgs rest f
      pure (.seq a b)
end

end Elk.Regex
