import ElkVerif.Model.Regex.Transpile
/-
Port of `regex/lexer/lexer.go` and `regex/parser/parser.go` (as of the fixed tree). Core Lean only.

Lexer: input = the bytes of the Go string, output = the token stream without the trailing END_OF_FILE tokens; spans
are not modelled (no Go code of the regex front end branches on them). An ERROR token carries its message (only its
first rune is ever observable, through `Token.Char()`).
Parser: reads the stream through a two-token window; the lexer has no modes, so the stream is the pre-lexed list
(`none` = END_OF_FILE for ever). Diagnostics are COUNTED (their texts are not modelled); an ERROR token is reported
exactly once, when it becomes the lookahead, and every token does, so the count is `#ERROR tokens + #parser diagnostics`.
Parser recursion is fuel-indexed (fuel = 8·tokens + 16; every loop iteration and every nested group consumes a token);
running out of fuel sets `stuck` (never observed; not proved impossible). `unicode.IsLetter` is external: the caller passes the letters among the
pattern's runes (`letters`), ASCII letters are built in.
-/
namespace Elk.Regex.Front
open Elk.Regex

inductive TT where
  | error | char | metaCharEscape | quotedText | dot | singleQuote | dash | colon | comma | langle | rangle
  | lparen | rparen | lbrace | rbrace | lbracket | rbracket | pipe | star | plus | question | caret | dollar
  | caretEscape | longUnicodeEscape | unicodeEscape | hexEscape | octalEscape | simpleOctalEscape
  | bellEscape | formFeedEscape | tabEscape | newlineEscape | carriageReturnEscape
  | absStart | absEnd | wordBoundary | notWordBoundary | unicodeCharClass | negatedUnicodeCharClass
  | wordCC | notWordCC | digitCC | notDigitCC | whitespaceCC | notWhitespaceCC | hCC | notHCC | vCC | notVCC
deriving DecidableEq, Repr, Inhabited

/-- a token: its type and `Value` as runes (`Value` is only ever read through `Char()`/appended rune-wise
or, for digits, byte-wise on ASCII) -/
structure Tok where
  ty : TT
  val : Str := []
deriving DecidableEq, Repr, Inhabited

/-- Go `utf8.DecodeRune`: (rune, width); `(0xFFFD, 1)` for invalid input, width 0 only on empty input -/
def decodeRune : List Nat → Nat × Nat
  | [] => (0xFFFD, 0)
  | b0 :: rest =>
    if b0 < 0x80 then (b0, 1)
    else if b0 < 0xC2 then (0xFFFD, 1)
    else if b0 < 0xE0 then
      match rest with
      | b1 :: _ => if 0x80 ≤ b1 && b1 ≤ 0xBF then ((b0 - 0xC0) * 64 + (b1 - 0x80), 2) else (0xFFFD, 1)
      | _ => (0xFFFD, 1)
    else if b0 < 0xF0 then
      let lo := if b0 = 0xE0 then 0xA0 else 0x80
      let hi := if b0 = 0xED then 0x9F else 0xBF
      match rest with
      | b1 :: b2 :: _ =>
        if lo ≤ b1 && b1 ≤ hi && 0x80 ≤ b2 && b2 ≤ 0xBF
        then ((b0 - 0xE0) * 4096 + (b1 - 0x80) * 64 + (b2 - 0x80), 3) else (0xFFFD, 1)
      | _ => (0xFFFD, 1)
    else if b0 < 0xF5 then
      let lo := if b0 = 0xF0 then 0x90 else 0x80
      let hi := if b0 = 0xF4 then 0x8F else 0xBF
      match rest with
      | b1 :: b2 :: b3 :: _ =>
        if lo ≤ b1 && b1 ≤ hi && 0x80 ≤ b2 && b2 ≤ 0xBF && 0x80 ≤ b3 && b3 ≤ 0xBF
        then ((b0 - 0xF0) * 262144 + (b1 - 0x80) * 4096 + (b2 - 0x80) * 64 + (b3 - 0x80), 4) else (0xFFFD, 1)
      | _ => (0xFFFD, 1)
    else (0xFFFD, 1)

/-- `peekChar` (0 at end of input) and the input after `advanceChar` -/
def peek (bs : List Nat) : Nat := if bs.isEmpty then 0 else (decodeRune bs).1
def adv (bs : List Nat) : List Nat := bs.drop (max 1 (decodeRune bs).2)

def isDigit (c : Nat) : Bool := 48 ≤ c && c ≤ 57
def isOctalDigit (c : Nat) : Bool := 48 ≤ c && c ≤ 55

/-- `(?#…)`: the input after the closing `)`, or `none` when the input ends first (error token) -/
def skipComment : List Nat → Option (List Nat)
  | [] => none
  | b :: rest => if b = 41 then some rest else skipComment rest

/-- `octalEscape`: the digits that follow the backslash -/
def octalDigits : List Nat → Str → Bool → Str × Bool × List Nat
  | [], acc, inv => (acc, inv, [])
  | b :: rest, acc, inv =>
    if isDigit b then octalDigits rest (acc ++ [b]) (inv || !isOctalDigit b || acc.length ≥ 3)
    else (acc, inv, b :: rest)

inductive QRes where
  | ok (txt : Str) (rest : List Nat)
  | expectedEnd (rest : List Nat)     -- `\` not followed by `E`: "expected end of quoted text"
  | unclosed                          -- the input ended: "unclosed quoted text, missing \E"

/-- `quotedText` after `\Q`; `fuel` = number of bytes + 1 -/
def quoted : Nat → List Nat → Str → QRes
  | 0, _, _ => .unclosed
  | _ + 1, [], _ => .unclosed
  | fuel + 1, bs, acc =>
    if peek bs = 92 then
      let bs1 := adv bs
      if peek bs1 = 69 ∧ !bs1.isEmpty then .ok acc (adv bs1) else .expectedEnd bs1
    else quoted fuel (adv bs) (acc ++ [(decodeRune bs).1])

inductive Lexed where
  | tok (t : Tok) (rest : List Nat)
  | skip (rest : List Nat)          -- a `(?#…)` comment group was skipped
deriving Repr

def simpleEscape (c : Nat) : Option TT :=
  if c = 85 then some .longUnicodeEscape else if c = 117 then some .unicodeEscape else if c = 120 then some .hexEscape
  else if c = 99 then some .caretEscape else if c = 111 then some .octalEscape else if c = 97 then some .bellEscape
  else if c = 102 then some .formFeedEscape else if c = 116 then some .tabEscape else if c = 110 then some .newlineEscape
  else if c = 114 then some .carriageReturnEscape else if c = 112 then some .unicodeCharClass
  else if c = 80 then some .negatedUnicodeCharClass else if c = 65 then some .absStart else if c = 122 then some .absEnd
  else if c = 98 then some .wordBoundary else if c = 66 then some .notWordBoundary else if c = 119 then some .wordCC
  else if c = 87 then some .notWordCC else if c = 100 then some .digitCC else if c = 68 then some .notDigitCC
  else if c = 115 then some .whitespaceCC else if c = 83 then some .notWhitespaceCC else if c = 104 then some .hCC
  else if c = 72 then some .notHCC else if c = 118 then some .vCC else if c = 86 then some .notVCC
  else none

def isMetaChar (c : Nat) : Bool :=
  c = 46 || c = 63 || c = 45 || c = 43 || c = 42 || c = 94 || c = 92 || c = 124 || c = 36 || c = 40 || c = 41 ||
  c = 91 || c = 93 || c = 123 || c = 125 || c = 32

def punct (c : Nat) : Option TT :=
  if c = 46 then some .dot else if c = 44 then some .comma else if c = 39 then some .singleQuote
  else if c = 45 then some .dash else if c = 58 then some .colon else if c = 124 then some .pipe
  else if c = 123 then some .lbrace else if c = 41 then some .rparen else if c = 60 then some .langle
  else if c = 62 then some .rangle else if c = 125 then some .rbrace else if c = 91 then some .lbracket
  else if c = 93 then some .rbracket else if c = 36 then some .dollar else if c = 94 then some .caret
  else if c = 42 then some .star else if c = 43 then some .plus else if c = 63 then some .question
  else none

/-- `scanNormal` for a non-empty input: one token, or a skipped comment group -/
def scan (bs : List Nat) : Lexed :=
  let c := (decodeRune bs).1
  let r := adv bs
  if c = 40 then
    -- `(`: `acceptChar('?') && acceptNextChar('#')`; peekNextChar decodes at cursor+1 BYTE
    if peek r = 63 ∧ !r.isEmpty ∧ peek (r.drop 1) = 35 ∧ !(r.drop 1).isEmpty then
      match skipComment (r.drop 2) with
      | some rest => .skip rest
      | none => .tok ⟨.error, lit "unterminated comment group, missing )"⟩ []
    else .tok ⟨.lparen, []⟩ r
  else if c = 92 then
    let p := peek r
    if r.isEmpty then .tok ⟨.error, lit "trailing backslash"⟩ r
    else if p = 81 then
      match quoted (r.length + 1) (adv r) [] with
      | .ok txt rest => .tok ⟨.quotedText, txt⟩ rest
      | .expectedEnd rest => .tok ⟨.error, lit "expected end of quoted text"⟩ rest
      | .unclosed => .tok ⟨.error, lit "unclosed quoted text, missing \\E"⟩ []
    else match simpleEscape p with
      | some ty => .tok ⟨ty, []⟩ (adv r)
      | none =>
        if isMetaChar p then .tok ⟨.metaCharEscape, [p]⟩ (adv r)
        else if isDigit p then
          let (ds, inv, rest) := octalDigits r [] false
          if inv then .tok ⟨.error, lit "invalid octal escape"⟩ rest else .tok ⟨.simpleOctalEscape, ds⟩ rest
        else .tok ⟨.error, lit "invalid escape sequence"⟩ (adv r)
  else match punct c with
    | some ty => .tok ⟨ty, []⟩ r
    | none => .tok ⟨.char, [c]⟩ r

def Lexed.rest : Lexed → List Nat
  | .tok _ r => r
  | .skip r => r


/-- parser state: remaining tokens, number of diagnostics, fuel exhausted? -/
structure PS where
  toks : List Tok
  letters : List Nat := []
  errs : Nat := 0
  stuck : Bool := false
deriving Repr

abbrev P := StateM PS

def la : P (Option Tok) := do return (← get).toks.head?
def laTy : P (Option TT) := do return (← la).map (·.ty)
def la2Ty : P (Option TT) := do return ((← get).toks[1]?).map (·.ty)
/-- `advance`: the previous lookahead (`none` = the END_OF_FILE token) -/
def advance : P (Option Tok) := do
  let s ← get
  set { s with toks := s.toks.tail }
  return s.toks.head?
def err : P Unit := modify fun s => { s with errs := s.errs + 1 }
def markStuck : P Unit := modify fun s => { s with stuck := true }

def accept (ty : TT) : P Bool := do return (← laTy) == some ty
def atEnd : P Bool := do return (← laTy) == none
def acceptAny (tys : List TT) : P Bool := do
  match ← laTy with
  | some t => return tys.contains t
  | none => return false
def matchTok (ty : TT) : P Bool := do
  if ← accept ty then discard advance; return true else return false

/-- `consumeExpected`: always advances; `(token, ok)`; an ERROR lookahead is passed over silently -/
def consumeExpected (ty : TT) : P (Option Tok × Bool) := do
  match ← laTy with
  | some .error => return (← advance, false)
  | t =>
    if t == some ty then return (← advance, true)
    else do err; return (← advance, false)

/-- `Token.Char()`: first rune of `StringValue()` (the value, or the token type's name) -/
def tokChar : Option Tok → Nat
  | none => 69                                  -- "END_OF_FILE"
  | some t =>
    match t.val with
    | c :: _ => c
    | [] =>
      match t.ty with
      | .quotedText => 81 | .dot => 46 | .singleQuote => 39 | .dash => 45 | .colon => 58 | .comma => 44
      | .langle => 60 | .rangle => 62 | .lparen => 40 | .rparen => 41 | .lbrace => 123 | .rbrace => 125
      | .lbracket => 91 | .rbracket => 93 | .pipe => 124 | .star => 42 | .plus => 43 | .question => 63
      | .caret => 94 | .dollar => 36
      | .error => 69 | .char => 67 | .metaCharEscape => 77 | .simpleOctalEscape => 83
      | _ => 92                                 -- the escape tokens are named `\x`

def isOctal (c : Nat) : Bool := 48 ≤ c && c ≤ 55
def isHex (c : Nat) : Bool := isDigit c || (97 ≤ c && c ≤ 102) || (65 ≤ c && c ≤ 70)
def isAsciiLetter (c : Nat) : Bool := (97 ≤ c && c ≤ 122) || (65 ≤ c && c ≤ 90)

/-- Go `unicode.IsLetter` (external): ASCII letters, and the runes the caller declared to be letters -/
def isLetterIn (letters : List Nat) (c : Nat) : Bool := isAsciiLetter c || letters.contains c

/-- bytes `WriteRune` appends for a rune -/
def utf8Len (c : Nat) : Nat := if c < 0x80 then 1 else if c < 0x800 then 2 else if c < 0x10000 then 3 else 4

/-- the loops of `consumeDigits` / `consumeLetters`: CHAR tokens until a stop token; fuel = remaining tokens -/
def consumeChars (ok : Nat → Bool) (stops : List TT) : Nat → Str → P Str
  | 0, acc => do markStuck; return acc
  | fuel + 1, acc => do
    if (← atEnd) || (← acceptAny stops) then return acc
    let (t, good) ← consumeExpected .char
    if !good then consumeChars ok stops fuel acc
    else do
      let c := tokChar t
      if !ok c then err
      consumeChars ok stops fuel (acc ++ (t.map (·.val)).getD [])

/-- `consumeFlags` -/
def flagOf (c : Nat) : Option (Flags → Flags) :=
  if c = 109 then some (fun f => { f with m := true }) else if c = 105 then some (fun f => { f with i := true })
  else if c = 115 then some (fun f => { f with s := true }) else if c = 85 then some (fun f => { f with U := true })
  else if c = 120 then some (fun f => { f with x := true }) else if c = 97 then some (fun f => { f with a := true })
  else none

def consumeFlags (stops : List TT) : Nat → Flags → Flags → Bool → P (Flags × Flags)
  | 0, st, us, _ => do markStuck; return (st, us)
  | fuel + 1, st, us, disable => do
    if (← atEnd) || (← acceptAny stops) then return (st, us)
    if ← matchTok .dash then consumeFlags stops fuel st us true
    else do
      let (t, good) ← consumeExpected .char
      if !good then consumeFlags stops fuel st us disable
      else
        match flagOf (tokChar t) with
        | some setter =>
          if disable then consumeFlags stops fuel st (setter us) disable
          else consumeFlags stops fuel (setter st) us disable
        | none => do
          err   -- `currentFlag` stays 0: setting flag 0 changes nothing
          consumeFlags stops fuel st us disable

/-- the body shared by `\u{…}`, `\U{…}`, `\x{…}`, `\o{…}`, `\p{…}`: CHARs up to `}`; fuel = remaining tokens -/
def braced (ok : Nat → Bool) : Nat → Str → P Str
  | 0, acc => do markStuck; return acc
  | fuel + 1, acc => do
    if ← matchTok .rbrace then return acc
    if ← atEnd then do err; discard advance; return acc
    let (t, good) ← consumeExpected .char
    if !good then braced ok fuel acc
    else do
      let c := tokChar t
      if !ok c then err
      braced ok fuel (acc ++ [c])

/-- `for range n { consumeExpected(CHAR) … }` -/
def fixedChars (ok : Nat → Bool) : Nat → Str → P Str
  | 0, acc => return acc
  | n + 1, acc => do
    let (t, good) ← consumeExpected .char
    if !good then fixedChars ok n acc
    else do
      let c := tokChar t
      if !ok c then err
      fixedChars ok n (acc ++ [c])

/-- `hexEscape` / `unicodeEscape` / `longUnicodeEscape` (n = 2 / 4 / 8) -/
def hexLike (n : Nat) (fuel : Nat) : P Str := do
  discard advance
  if ← matchTok .lbrace then
    let s ← braced isHex fuel []
    if s.isEmpty then err
    return s
  else fixedChars isHex n []

def octalEscape (fuel : Nat) : P Node := do
  discard advance
  if ← matchTok .lbrace then
    let s ← braced isOctal fuel []
    if s.isEmpty then err
    if (s.map utf8Len).sum > 3 then err
    return .octalEscape s
  else return .octalEscape (← fixedChars isOctal 3 [])

def caretEscape : P Node := do
  discard advance
  let (t, _) ← consumeExpected .char
  let c := tokChar t
  if !isAsciiLetter c then err
  return .caretEscape c

/-- `unicodeCharClass` (`neg0 = false`) and `negatedUnicodeCharClass` (`neg0 = true`) -/
def unicodeClass (neg0 : Bool) (fuel : Nat) : P Node := do
  discard advance
  if ← matchTok .lbrace then
    let negated ← matchTok .caret
    let letters := (← get).letters
    let s ← braced (isLetterIn letters) fuel []
    if s.isEmpty then err
    return .unicodeCharClass s (negated != neg0)
  else do
    let (t, _) ← consumeExpected .char
    let c := tokChar t
    if !isLetterIn (← get).letters c then err
    return .unicodeCharClass [c] neg0

/-- token types that are nodes by themselves -/
def atomOf : TT → Option Node
  | .bellEscape => some .bell | .formFeedEscape => some .formFeed | .tabEscape => some .tab
  | .newlineEscape => some .newline | .carriageReturnEscape => some .carriageReturn
  | .wordCC => some .word | .notWordCC => some .notWord | .digitCC => some .digit | .notDigitCC => some .notDigit
  | .whitespaceCC => some .whitespace | .notWhitespaceCC => some .notWhitespace
  | .hCC => some .hWhitespace | .notHCC => some .notHWhitespace | .vCC => some .vWhitespace | .notVCC => some .notVWhitespace
  | _ => none

/-- escapes shared by `primaryRegex` and `primaryCharClassElement` -/
def sharedEscape (ty : TT) (fuel : Nat) : Option (P Node) :=
  match ty with
  | .longUnicodeEscape => some (do return .unicodeEscape (← hexLike 8 fuel))
  | .unicodeEscape => some (do return .unicodeEscape (← hexLike 4 fuel))
  | .hexEscape => some (do return .hexEscape (← hexLike 2 fuel))
  | .octalEscape => some (octalEscape fuel)
  | .simpleOctalEscape => some (do let t ← advance; return .octalEscape ((t.map (·.val)).getD []))
  | .unicodeCharClass => some (unicodeClass false fuel)
  | .negatedUnicodeCharClass => some (unicodeClass true fuel)
  | .metaCharEscape => some (do let t ← advance; return .metaCharEscape (tokChar t))
  | t => (atomOf t).map fun n => do discard advance; return n

def charNode : P Node := do
  let t ← advance
  return .char (tokChar t)

/-- `primaryCharClassElement` -/
def ccPrimary (fuel : Nat) : P Node := do
  match ← laTy with
  | some ty =>
    if [TT.char, .comma, .lbrace, .rbrace, .rbracket, .colon, .langle, .rangle, .singleQuote, .caret, .dollar, .dot,
        .plus, .star, .question, .pipe, .lparen, .rparen].contains ty then charNode
    else match sharedEscape ty fuel with
      | some p => if ty == .caretEscape then (do err; discard advance; return .invalid) else p
      | none => do
        if ty != .error then err
        discard advance
        return .invalid
  | none => do
    err
    discard advance
    return .invalid

def isValidRangeEnd : Node → Bool
  | .char _ | .metaCharEscape _ | .hexEscape _ | .unicodeEscape _ | .bell | .formFeed | .tab | .newline
  | .carriageReturn | .caretEscape _ => true
  | _ => false

/-- `charRange` -/
def charRange (fuel : Nat) : P Node := do
  let l ← ccPrimary fuel
  if !isValidRangeEnd l then return l
  if !(← matchTok .dash) then return l
  let r ← ccPrimary fuel
  return .charRange l r

/-- the name loop of `namedCharClass`; `none` = the input ended (an InvalidNode is returned) -/
def posixName : Nat → Str → P (Option Str)
  | 0, acc => do markStuck; return some acc
  | fuel + 1, acc => do
    if ← atEnd then do err; discard advance; return none
    if ← matchTok .colon then return some acc
    let (t, good) ← consumeExpected .char
    if !good then posixName fuel acc
    else do
      let c := tokChar t
      if !isAsciiLetter c then err
      posixName fuel (acc ++ [c])

/-- `namedCharClass` -/
def namedCharClass (fuel : Nat) : P Node := do
  if !(← accept .lbracket) then return ← charRange fuel
  discard advance
  let (_, good) ← consumeExpected .colon
  if !good then return .invalid
  let negated ← matchTok .caret
  match ← posixName fuel [] with
  | none => return .invalid
  | some name =>
    let (_, good) ← consumeExpected .rbracket
    if !good then return .invalid
    if name.isEmpty then err
    return .namedCharClass name negated

/-- the element loop of `charClass` -/
def ccElems : Nat → List Node → P (List Node)
  | 0, acc => do markStuck; return acc
  | fuel + 1, acc => do
    if ← atEnd then do err; return acc
    if ← accept .rbracket then do discard advance; return acc
    let e ← namedCharClass fuel
    ccElems fuel (acc ++ [e])

def charClass (fuel : Nat) : P Node := do
  discard advance
  let negated ← matchTok .caret
  let els ← ccElems fuel []
  return .charClass (Nodes.ofList els) negated

/-- the bounds of `{…}` after the `{` -/
def braceQuant (r : Node) (fuel : Nat) : P Node := do
  discard advance  -- `{`
  let mut mn : Str := []
  let mut mx : Str := []
  let mut commaPresent := false
  if ← matchTok .comma then
    commaPresent := true
    mx ← consumeChars isDigit [.rbrace] fuel []
  else
    mn ← consumeChars isDigit [.rbrace, .comma] fuel []
    if ← matchTok .comma then
      commaPresent := true
      if !(← accept .rbrace) then
        mx ← consumeChars isDigit [.rbrace] fuel []
  let (_, _) ← consumeExpected .rbrace
  let alt ← matchTok .question
  if commaPresent then return .nmQuant r mn mx alt
  if mn.isEmpty then err
  return .nQuant r mn alt

mutual
/-- `union` (stop tokens: `|`, and `)` inside a group) -/
def union (inGroup : Bool) : Nat → P Node
  | 0 => do markStuck; return .invalid
  | fuel + 1 => do
    let left ← concatenation inGroup fuel
    unionLoop inGroup fuel left
def unionLoop (inGroup : Bool) : Nat → Node → P Node
  | 0, left => do markStuck; return left
  | fuel + 1, left => do
    if ← matchTok .pipe then
      let right ← concatenation inGroup fuel
      unionLoop inGroup fuel (.union left right)
    else return left
/-- `concatenation`: quantified primaries until END_OF_FILE or a stop token; a single element is returned as such -/
def concatenation (inGroup : Bool) : Nat → P Node
  | 0 => do markStuck; return .invalid
  | fuel + 1 => do
    let els ← concatLoop inGroup fuel []
    match els with
    | [e] => return e
    | _ => return .concat (Nodes.ofList els)
def concatLoop (inGroup : Bool) : Nat → List Node → P (List Node)
  | 0, acc => do markStuck; return acc
  | fuel + 1, acc => do
    let stop ← acceptAny (if inGroup then [.pipe, .rparen] else [.pipe])
    if (← atEnd) || stop then return acc
    let e ← quantifier fuel
    concatLoop inGroup fuel (acc ++ [e])
/-- `quantifier` -/
def quantifier : Nat → P Node
  | 0 => do markStuck; return .invalid
  | fuel + 1 => do
    let r ← primary fuel
    match ← laTy with
    | some .plus => do discard advance; return .oneOrMore r (← matchTok .question)
    | some .star => do discard advance; return .zeroOrMore r (← matchTok .question)
    | some .question => do discard advance; return .zeroOrOne r (← matchTok .question)
    | some .lbrace => braceQuant r fuel
    | _ => return r
/-- `primaryRegex` -/
def primary : Nat → P Node
  | 0 => do markStuck; return .invalid
  | fuel + 1 => do
    match ← laTy with
    | none => do err; discard advance; return .invalid
    | some ty =>
      if [TT.char, .comma, .rbrace, .rbracket, .dash, .colon, .langle, .rangle, .singleQuote].contains ty then charNode
      else match ty with
      | .quotedText => do let t ← advance; return .quotedText ((t.map (·.val)).getD [])
      | .lbracket => charClass fuel
      | .lparen => group fuel
      | .absStart => do discard advance; return .absStart
      | .absEnd => do discard advance; return .absEnd
      | .caret => do discard advance; return .startOfString
      | .dollar => do discard advance; return .endOfString
      | .dot => do discard advance; return .anyChar
      | .wordBoundary => do discard advance; return .wordBoundary
      | .notWordBoundary => do discard advance; return .notWordBoundary
      | .caretEscape => caretEscape
      | _ =>
        match sharedEscape ty fuel with
        | some p => p
        | none => do
          if ty != .error then err
          discard advance
          return .invalid
/-- `group` -/
def group : Nat → P Node
  | 0 => do markStuck; return .invalid
  | fuel + 1 => do
    discard advance   -- `(`
    let mut nonCapturing := false
    let mut onlyFlags := false
    let mut name : Str := []
    let mut st : Flags := {}
    let mut us : Flags := {}
    if ← matchTok .question then
      if ← matchTok .colon then nonCapturing := true
      else if ← matchTok .langle then
        name ← consumeChars isAsciiLetter [.rangle, .rparen] fuel []
        let (_, _) ← consumeExpected .rangle
        if name.isEmpty then err
      else if ← matchTok .singleQuote then
        name ← consumeChars isAsciiLetter [.singleQuote, .rparen] fuel []
        let (_, _) ← consumeExpected .singleQuote
        if name.isEmpty then err
      else
        let l ← la
        if (l.map (·.ty)) == some .char && (l.map (·.val)) == some [80] then
          discard advance
          let (_, _) ← consumeExpected .langle
          name ← consumeChars isAsciiLetter [.rangle, .rparen] fuel []
          let (_, _) ← consumeExpected .rangle
          if name.isEmpty then err
        else
          let (s', u') ← consumeFlags [.rparen, .colon] fuel {} {} false
          st := s'
          us := u'
          if !(← matchTok .colon) then onlyFlags := true
    let mut content : Option Node := none
    if !onlyFlags then content := some (← union true fuel)
    let (_, good) ← consumeExpected .rparen
    if !good then return .invalid
    match content with
    | some c => return .group c name st us nonCapturing
    | none => return .groupNoRegex name st us nonCapturing
end

/-- `Parse`: the tree and the number of diagnostics (plus the ERROR tokens of the stream) -/
def parse (letters : List Nat) (toks : List Tok) : Node × Nat × Bool :=
  let nerr := (toks.filter (·.ty == .error)).length
  let (n, s) := (union false (8 * toks.length + 16)).run { toks := toks, letters := letters }
  (n, s.errs + nerr, s.stuck)


def lexAll : Nat → List Nat → List Tok
  | 0, _ => []
  | _ + 1, [] => []
  | fuel + 1, b :: bs =>
    match scan (b :: bs) with
    | .tok t rest => t :: lexAll fuel rest
    | .skip rest => lexAll fuel rest

/-- `parser.Parse` on the bytes of the pattern -/
def parseBytes (letters : List Nat) (bs : List Nat) : Node × Nat × Bool :=
  parse letters (lexAll (bs.length + 1) bs)

end Elk.Regex.Front
