import ElkVerif.Model.Regex.Ast
/-
`regex/transpile.go`, function by function, as a state transformer over
`(Buffer, Mode, Flags, Errors)`. The x-mode comment handling is mirrored AS CODED (per concatenation).
-/
namespace Elk.Regex

inductive Mode where
  | top      -- topLevelMode
  | cc       -- charClassMode
  | ncc      -- negatedCharClassMode
deriving DecidableEq, Repr, Inhabited

/-- the `transpiler` struct; `panicked` records a Go `panic` (asciiLetterIndex on a non-letter) -/
structure St where
  buf : Str := []
  mode : Mode := .top
  flags : Flags := {}
  errs : List String := []
  panicked : Bool := false
deriving Repr, Inhabited

def St.write (t : St) (s : Str) : St := { t with buf := t.buf ++ s }
def St.fail (t : St) (msg : String) : St := { t with errs := t.errs ++ [msg] }

def lit (s : String) : Str := s.toList.map Char.toNat

/-- Go `unicode.IsSpace` -/
def isSpace (c : Rune) : Bool :=
  c = 0x09 || c = 0x0A || c = 0x0B || c = 0x0C || c = 0x0D || c = 0x20 || c = 0x85 || c = 0xA0 ||
  c = 0x1680 || (0x2000 ≤ c && c ≤ 0x200A) || c = 0x2028 || c = 0x2029 || c = 0x202F || c = 0x205F || c = 0x3000

def isAsciiLetter (c : Rune) : Bool := (65 ≤ c && c ≤ 90) || (97 ≤ c && c ≤ 122)

/-- `asciiLetterIndex` (defined on ASCII letters only; Go panics otherwise) -/
def asciiLetterIndex (c : Rune) : Nat := if 65 ≤ c && c ≤ 90 then c - 65 + 1 else c - 97 + 1

def hexDigit (d : Nat) : Rune := if d < 10 then 48 + d else 87 + d
/-- `%x` of 1…26 -/
def hexLower (n : Nat) : Str := if n < 16 then [hexDigit n] else [hexDigit (n / 16), hexDigit (n % 16)]

/-- `fmt.Sprintf("%03s", s)`: left-pad with `0` to three runes -/
def pad3 (s : Str) : Str := List.replicate (3 - s.length) 48 ++ s

/-- `nodeHasToBeSplitInCharacterClasses` -/
def hasToBeSplit (t : St) : Node → Bool
  | .notHWhitespace | .notVWhitespace => t.mode == .cc
  | .notWhitespace | .notWord => if t.flags.a then false else t.mode == .cc
  | _ => false

def flagChars (f : Flags) : Str :=
  (if f.i then [105] else []) ++ (if f.m then [109] else []) ++ (if f.s then [115] else []) ++
  (if f.U then [85] else [])   -- only the flags Go supports are ever written

/-- visible (= supported by Go: i m s U) part of a flag set -/
def Flags.visible (f : Flags) : Flags := { f with x := false, a := false }

/-- `t.Flags` after the set/unset loop of `group` (per flag: set first, then unset) -/
def applyFlags (cur set unset : Flags) : Flags :=
  let ap (c s u : Bool) : Bool := (c || s) && !u
  ⟨ap cur.i set.i unset.i, ap cur.m set.m unset.m, ap cur.s set.s unset.s,
   ap cur.U set.U unset.U, ap cur.x set.x unset.x, ap cur.a set.a unset.a⟩

/-! leaf emitters that depend on mode/flags -/

def wordCharClass (t : St) : St :=
  if t.flags.a then t.write (lit "\\w") else
  match t.mode with
  | .top => t.write (lit "[\\p{L}\\p{Mn}\\p{Nd}\\p{Pc}]")
  | _ => t.write (lit "\\p{L}\\p{Mn}\\p{Nd}\\p{Pc}")

def notWordCharClass (t : St) : St :=
  if t.flags.a then t.write (lit "\\W") else
  match t.mode with
  | .top => t.write (lit "[^\\p{L}\\p{Mn}\\p{Nd}\\p{Pc}]")
  | .cc => t.fail "unicode-aware \\W in char classes is not supported"
  | .ncc => t.fail "double negation of unicode-aware \\W is not supported"

def digitCharClass (t : St) : St := if t.flags.a then t.write (lit "\\d") else t.write (lit "\\p{Nd}")
def notDigitCharClass (t : St) : St := if t.flags.a then t.write (lit "\\D") else t.write (lit "\\P{Nd}")

def whitespaceCharClass (t : St) : St :=
  if t.flags.a then t.write (lit "\\s") else
  match t.mode with
  | .top => t.write (lit "[\\s\\v\\p{Z}\\x85]")
  | _ => t.write (lit "\\s\\v\\p{Z}\\x85")

def notWhitespaceCharClass (t : St) : St :=
  if t.flags.a then t.write (lit "\\S") else
  match t.mode with
  | .top => t.write (lit "[^\\s\\v\\p{Z}\\x85]")
  | .cc => t.fail "unicode-aware \\S in char classes is not supported"
  | .ncc => t.fail "double negation of unicode-aware \\S is not supported"

def hWhitespaceCharClass (t : St) : St :=
  match t.mode with
  | .top => if t.flags.a then t.write (lit "[\\t ]") else t.write (lit "[\\t\\p{Zs}]")
  | _ => if t.flags.a then t.write (lit "\\t ") else t.write (lit "\\t\\p{Zs}")

def notHWhitespaceCharClass (t : St) : St :=
  match t.mode with
  | .top => if t.flags.a then t.write (lit "[^\\t ]") else t.write (lit "[^\\t\\p{Zs}]")
  | .cc => t.fail "unicode-aware \\H in char classes is not supported"
  | .ncc => t.fail "double negation of unicode-aware \\H is not supported"

def vWhitespaceCharClass (t : St) : St :=
  match t.mode with
  | .top => if t.flags.a then t.write (lit "[\\n\\v\\f\\r]") else t.write (lit "[\\n\\v\\f\\r\\x85\\x{2028}\\x{2029}]")
  | _ => if t.flags.a then t.write (lit "\\n\\v\\f\\r") else t.write (lit "\\n\\v\\f\\r\\x85\\x{2028}\\x{2029}")

def notVWhitespaceCharClass (t : St) : St :=
  match t.mode with
  | .top => if t.flags.a then t.write (lit "[^\\n\\v\\f\\r]") else t.write (lit "[^\\n\\v\\f\\r\\x85\\x{2028}\\x{2029}]")
  | .cc => t.fail "unicode-aware \\V in char classes is not supported"
  | .ncc => t.fail "double negation of unicode-aware \\V is not supported"

def caretEscape (t : St) (c : Rune) : St :=
  let t := t.write (lit "\\x{")
  if isAsciiLetter c then (t.write (hexLower (asciiLetterIndex c))).write (lit "}")
  else { t with panicked := true }

def unicodeCharClass (t : St) (s : Str) (neg : Bool) : St :=
  (((t.write [92]).write [if neg then 80 else 112]).write [123]).write (s ++ [125])

def quantSuffix (t : St) (plain : Str) (alt : Bool) : St :=
  if alt then t.write (plain ++ [63]) else t.write plain

/-- nodes that `transpileNode` and `charClassElement` treat alike (no recursion): `none` = not a leaf -/
def leaf (t : St) : Node → Option St
  | .metaCharEscape c => some (t.write [92, c])
  | .caretEscape c => some (caretEscape t c)
  | .unicodeEscape s => some (t.write (lit "\\x{" ++ s ++ lit "}"))
  | .hexEscape s => some (t.write (lit "\\x{" ++ s ++ lit "}"))
  | .octalEscape s => some (t.write (92 :: pad3 s))
  | .unicodeCharClass s neg => some (unicodeCharClass t s neg)
  | .bell => some (t.write (lit "\\a"))
  | .formFeed => some (t.write (lit "\\f"))
  | .tab => some (t.write (lit "\\t"))
  | .newline => some (t.write (lit "\\n"))
  | .carriageReturn => some (t.write (lit "\\r"))
  | .word => some (wordCharClass t)
  | .notWord => some (notWordCharClass t)
  | .digit => some (digitCharClass t)
  | .notDigit => some (notDigitCharClass t)
  | .whitespace => some (whitespaceCharClass t)
  | .notWhitespace => some (notWhitespaceCharClass t)
  | .hWhitespace => some (hWhitespaceCharClass t)
  | .notHWhitespace => some (notHWhitespaceCharClass t)
  | .vWhitespace => some (vWhitespaceCharClass t)
  | .notVWhitespace => some (notVWhitespaceCharClass t)
  | _ => none

/-- `charClassElement` (a node kind it does not list is silently ignored) -/
def ccElement : Node → St → St
  | .charRange l r, t => ccElement r ((ccElement l t).write [45])
  | .namedCharClass name neg, t =>
    ((t.write (lit "[:")).write (if neg then [94] else [])).write (name ++ lit ":]")
  | .char c, t => t.write [c]
  | n, t => match leaf t n with
    | some t' => t'
    | none => t

/-- the body of `charClass` once the elements are partitioned (`t` is already in class mode) -/
def ccBody (split internal : List Node) (neg : Bool) (t : St) : St :=
  let t := if split.isEmpty then t else t.write (lit "(?:")
  let t :=
    if !internal.isEmpty then
      let t := t.write [91]
      let t := if neg then t.write [94] else t
      let t := internal.foldl (fun t n => ccElement n t) t
      t.write [93]
    else if split.isEmpty then
      t.write (if neg then lit "[\\x{0}-\\x{10FFFF}]" else lit "[^\\x{0}-\\x{10FFFF}]")
    else t
  let t := { t with mode := .top }
  match split with
  | [] => t
  | first :: rest =>
    let t := ccElement first (if internal.isEmpty then t else t.write [124])
    (rest.foldl (fun t n => ccElement n (t.write [124])) t).write [41]

/-- `charClass` -/
def charClass (els : Nodes) (neg : Bool) (t : St) : St :=
  let t := { t with mode := if neg then .ncc else .cc }
  ccBody (els.toList.filter (hasToBeSplit t)) (els.toList.filter (fun n => !hasToBeSplit t n)) neg t

/-- the part of `group` before the content; answers (state, wroteFlagsHeader, hasVisibleContent) -/
def groupOpen (hasRegex : Bool) (name : Str) (set unset : Flags) (nc : Bool) (t : St) : St × Bool × Bool :=
  let vs := set.visible
  let vu := unset.visible
  let t := { t with flags := applyFlags t.flags set unset }
  let anyVisible := vs.any || vu.any
  let hasVisibleContent := hasRegex || anyVisible
  let t := if hasVisibleContent then t.write [40] else t
  if anyVisible then
    let t := (t.write [63]).write (flagChars vs)
    let t := if vu.any then (t.write [45]).write (flagChars vu) else t
    let t := if hasRegex then t.write [58] else t
    (t, true, hasVisibleContent)
  else
    let t := if hasVisibleContent && (set.any || unset.any) then t.write (lit "?:") else t
    let t := if name.length > 0 then t.write (lit "?P<" ++ name ++ [62])
             else if nc then t.write (lit "?:") else t
    (t, false, hasVisibleContent)

def isChar (n : Node) (c : Rune) : Bool :=
  match n with
  | .char d => d == c
  | _ => false

mutual
/-- `transpileNode` -/
def trNode : Node → St → St
  | .concat els, t => trConcat els false t
  | .zeroOrOne r alt, t => quantSuffix (trNode r t) [63] alt
  | .zeroOrMore r alt, t => quantSuffix (trNode r t) [42] alt
  | .oneOrMore r alt, t => quantSuffix (trNode r t) [43] alt
  | .nQuant r n alt, t =>
    let t := (trNode r t).write ([123] ++ n ++ [125])
    if alt then t.write [63] else t
  | .nmQuant r n m alt, t =>
    let t := (trNode r t).write ([123] ++ (if n.isEmpty then [48] else n) ++ [44] ++ m ++ [125])
    if alt then t.write [63] else t
  | .group regex name set unset nc, t =>
    let original := t.flags
    let (t, _, _) := groupOpen true name set unset nc t
    let t := trNode regex t
    { t with flags := original }.write [41]
  | .groupNoRegex name set unset nc, t =>
    let (t, _, vis) := groupOpen false name set unset nc t
    if vis then t.write [41] else t
  | .union l r, t => trNode r ((trNode l t).write [124])
  | .charClass els neg, t => charClass els neg t
  | .quotedText s, t => t.write (lit "\\Q" ++ s ++ lit "\\E")
  | .char c, t => if t.flags.x && isSpace c then t else t.write [c]
  | .startOfString, t => t.write [94]
  | .endOfString, t => t.write [36]
  | .absStart, t => t.write (lit "\\A")
  | .absEnd, t => t.write (lit "\\z")
  | .wordBoundary, t => t.write (lit "\\b")
  | .notWordBoundary, t => t.write (lit "\\B")
  | .anyChar, t => t.write [46]
  | .invalid, t => t.fail "compilation of this node has not been implemented: *ast.InvalidNode"
  | .charRange _ _, t => t.fail "compilation of this node has not been implemented: *ast.CharRangeNode"
  | .namedCharClass _ _, t => t.fail "compilation of this node has not been implemented: *ast.NamedCharClassNode"
  | n, t => match leaf t n with
    | some t' => t'
    | none => t
/-- the loop of `concatenation`; `inComment` is its local variable -/
def trConcat : Nodes → Bool → St → St
  | .nil, _, t => t
  | .cons n rest, inComment, t =>
    if t.flags.x then
      if inComment then trConcat rest (!isChar n 10) t
      else if isChar n 35 then trConcat rest true t
      else trConcat rest false (trNode n t)
    else trConcat rest inComment (trNode n t)
end

/-- `globalFlags`: the flags Go's regexp implements itself are written as a leading flag group -/
def globalFlags (t : St) : St :=
  if t.flags.visible.any then t.write (lit "(?" ++ flagChars t.flags.visible ++ [41]) else t

/-- outcome of `regex.Transpile` after a successful parse -/
inductive Res where
  | ok (out : Str)
  | errs (msgs : List String)
  | panic
deriving Repr, DecidableEq

/-- `Transpile` (after `parser.Parse` succeeded with `ast`) -/
def transpile (ast : Node) (flags : Flags) : Res :=
  let t := trNode ast (globalFlags { flags := flags })
  if t.panicked then .panic
  else if t.errs.isEmpty then .ok t.buf else .errs t.errs

end Elk.Regex
