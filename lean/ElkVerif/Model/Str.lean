import ElkVerif.Model.Utf8
/-
C20 — `value.String` operations over byte lists (value/string.go, reached through the native
methods of vm/string.go). Mirrors the Go code of the elk worktree (with this branch's `fix:`
commits); `*Old` definitions keep the behaviour of the unchanged tree for the witness theorems.
Grapheme segmentation (`uniseg`) and case mapping (`unicode.ToUpper/ToLower`) are parameters.
Core Lean only.
-/
namespace Elk.Str
open Elk.Utf8

inductive Err where
  | index        -- Std::IndexError
  | outOfRange   -- Std::OutOfRangeError
  | type         -- Std::TypeError (incl. coercion errors)
deriving Repr, DecidableEq

inductive Res (α : Type) where
  | ok (a : α)
  | err (e : Err)
  | panic          -- a Go panic inside the native method
deriving Repr, DecidableEq

/-! ### counts and iterators -/

/-- `ByteCount` = `len(s)` -/
def byteCount (s : Bytes) : Nat := s.length
/-- `CharCount` = `utf8.RuneCountInString` -/
def charCount (s : Bytes) : Nat := runeCount s
/-- elements of `StringByteIterator` -/
def byteIter (s : Bytes) : List UInt8 := s
/-- elements of `StringCharIterator` (`NextValue` decodes at `ByteOffset`; invalid bytes come out
as U+FFFD) -/
def charIter (s : Bytes) : List Nat := runes s

/-! ### index conversion (`value.ToGoInt`) -/

/-- the integer kinds a subscript may have -/
inductive IKind where
  | int      -- Std::Int (SmallInt or BigInt)
  | i64 | i32 | i16 | i8
  | u64 | u32 | u16 | u8 | uint
deriving Repr, DecidableEq

def two63 : Int := 9223372036854775808
def two64 : Int := 18446744073709551616

/-- `ToGoInt` (fixed): `none` = the value does not fit Go's `int` — a BigInt outside int64 or an
unsigned 64-bit value above `MaxInt` (`(-1, false)` → IndexError in every caller). -/
def toGoInt (k : IKind) (v : Int) : Option Int :=
  match k with
  | .int => if -two63 ≤ v ∧ v < two63 then some v else none
  | .u64 | .uint => if v ≥ two63 then none else some v
  | _ => some v

/-- unchanged tree: unsigned 64-bit kinds were converted with Go's wrapping `int(v)` -/
def toGoIntOld (k : IKind) (v : Int) : Option Int :=
  match k with
  | .int => if -two63 ≤ v ∧ v < two63 then some v else none
  | .u64 | .uint => some (if v ≥ two63 then v - two64 else v)
  | _ => some v

/-! ### indexed access -/

/-- the walk of `String.Get`: the `i`-th decoded piece; an invalid byte is returned as the rune
with the *byte's* value (pinned by value/string_test.go `TestString_Subscript`), not as U+FFFD. -/
def getLoop (s : Bytes) (i : Nat) : Option Nat :=
  match s with
  | [] => none
  | b :: rest =>
    let p := decodeRune (b :: rest)
    let r := if p.1 = runeError ∧ p.2 = 1 then b.toNat else p.1
    if i = 0 then some r else getLoop ((b :: rest).drop p.2) (i - 1)
termination_by s.length
decreasing_by
  have h1 := decodeRune_width_pos (b :: rest) (by simp)
  have h2 := decodeRune_width_le (b :: rest)
  simp only [List.length_drop, List.length_cons] at *
  omega

/-- what `char_at` indexes into: the decoded code points, an invalid byte standing for the rune
with the byte's value (the char *iterator* yields U+FFFD there — see `C20.CharAtAgreesWithIterator`) -/
def getView (s : Bytes) : List Nat :=
  match s with
  | [] => []
  | b :: rest =>
    let p := decodeRune (b :: rest)
    (if p.1 = runeError ∧ p.2 = 1 then b.toNat else p.1) :: getView ((b :: rest).drop p.2)
termination_by s.length
decreasing_by
  have h1 := decodeRune_width_pos (b :: rest) (by simp)
  have h2 := decodeRune_width_le (b :: rest)
  simp only [List.length_drop, List.length_cons] at *
  omega

/-- Elk index normalisation: `i` counts from the end when negative -/
def normIdx (i : Int) (n : Nat) : Option Nat :=
  if 0 ≤ i ∧ i < n then some i.toNat
  else if -(n : Int) ≤ i ∧ i < 0 then some (i + n).toNat
  else none

/-- `String.Get` -/
def get (s : Bytes) (index : Int) : Res Nat :=
  if index < 0 then
    let i := (charCount s : Int) + index
    if i < 0 then .err .index
    else match getLoop s i.toNat with
      | some r => .ok r
      | none => .err .index
  else match getLoop s index.toNat with
    | some r => .ok r
    | none => .err .index

/-- `String.Subscript` (`char_at`, `[]`) -/
def charAt (s : Bytes) (k : IKind) (v : Int) : Res Nat :=
  match toGoInt k v with
  | none => .err .index
  | some i => get s i

/-- `String.ByteAtInt` -/
def byteAtInt (s : Bytes) (index : Int) : Res UInt8 :=
  let l : Int := s.length
  if index ≥ l ∨ index < -l then .err .index
  else
    let i := if index < 0 then l + index else index
    match s[i.toNat]? with
    | some b => .ok b
    | none => .panic

/-- `String.ByteAt` -/
def byteAt (s : Bytes) (k : IKind) (v : Int) : Res UInt8 :=
  match toGoInt k v with
  | none => .err .index
  | some i => byteAtInt s i

/-- `String.GraphemeAtInt`, with the cluster list `segs` (uniseg) as a parameter -/
def graphemeAtInt (segs : List Bytes) (index : Int) : Res Bytes :=
  let i := if index < 0 then (segs.length : Int) + index else index
  if i < 0 then .err .index
  else match segs[i.toNat]? with
    | some g => .ok g
    | none => .err .index

def graphemeAt (segs : List Bytes) (k : IKind) (v : Int) : Res Bytes :=
  match toGoInt k v with
  | none => .err .index
  | some i => graphemeAtInt segs i

/-! ### padding -/

/-- `String.RJust` (fixed: the current length is `CharCount()`, in code points) -/
def rjust (s : Bytes) (target : Int) (pad : Int) : Bytes :=
  if (charCount s : Int) ≥ target then s
  else (List.replicate (target - charCount s).toNat (encodeRuneInt pad)).flatten ++ s

/-- `String.LJust` (fixed) -/
def ljust (s : Bytes) (target : Int) (pad : Int) : Bytes :=
  if (charCount s : Int) ≥ target then s
  else s ++ (List.replicate (target - charCount s).toNat (encodeRuneInt pad)).flatten

/-- unchanged tree: the current length is `len(s)`, in bytes -/
def rjustOld (s : Bytes) (target : Int) (pad : Int) : Bytes :=
  if (s.length : Int) ≥ target then s
  else (List.replicate (target - s.length).toNat (encodeRuneInt pad)).flatten ++ s

def ljustOld (s : Bytes) (target : Int) (pad : Int) : Bytes :=
  if (s.length : Int) ≥ target then s
  else s ++ (List.replicate (target - s.length).toNat (encodeRuneInt pad)).flatten

/-! ### `+`, `*`, `-` -/

/-- right operand of `+`, `-`, `<=>` … -/
inductive Arg where
  | str (s : Bytes)
  | chr (c : Int)
  | other           -- any other value
deriving Repr, DecidableEq

/-- `String.Concat` -/
def concat (s : Bytes) : Arg → Res Bytes
  | .str o => .ok (s ++ o)
  | .chr c => .ok (s ++ encodeRuneInt c)
  | .other => .err .type

def maxInt : Int := 9223372036854775807

/-- `String.Repeat`; `count` is an `Int` (BigInt when outside int64). Fixed: a count whose result
length overflows `int` is an OutOfRangeError (the unchanged tree lets `strings.Repeat` panic). -/
def repeatStr (s : Bytes) (count : Int) : Res Bytes :=
  if ¬ (-two63 ≤ count ∧ count < two63) then .err .outOfRange          -- BigInt
  else if count < 0 then .err .outOfRange
  else if (s.length : Int) * count > maxInt then .err .outOfRange
  else if s = [] then .ok []                                             -- `if len(s) == 0 { return "" }`
  else .ok (List.replicate count.toNat s).flatten

def repeatStrOld (s : Bytes) (count : Int) : Res Bytes :=
  if ¬ (-two63 ≤ count ∧ count < two63) then .err .outOfRange
  else if count < 0 then .err .outOfRange
  else if count = 0 then .ok []
  else if count = 1 then .ok s
  else if (s.length : Int) * count > maxInt then .panic
  else if s = [] then .ok []
  else .ok (List.replicate count.toNat s).flatten

/-- `strings.CutSuffix` -/
def cutSuffix (s suf : Bytes) : Bytes :=
  if suf.length ≤ s.length ∧ s.drop (s.length - suf.length) = suf then s.take (s.length - suf.length) else s

/-- `String.RemoveSuffix` -/
def removeSuffix (s : Bytes) : Arg → Res Bytes
  | .str o => .ok (cutSuffix s o)
  | .chr c =>
    let p := decodeLastRune s
    if s.length > 0 ∧ (p.1 : Int) = c then .ok (s.take (s.length - p.2)) else .ok s
  | .other => .err .type

/-! ### comparison -/

/-- `strings.Compare`: bytewise lexicographic, -1 / 0 / +1 -/
def cmp : Bytes → Bytes → Int
  | [], [] => 0
  | [], _ :: _ => -1
  | _ :: _, [] => 1
  | a :: as, b :: bs => if a.toNat < b.toNat then -1 else if a.toNat > b.toNat then 1 else cmp as bs

/-- `String.CompareVal` -/
def compare (s : Bytes) : Arg → Res Int
  | .str o => .ok (cmp s o)
  | .chr c => .ok (cmp s (encodeRuneInt c))
  | .other => .err .type

/-- `<`, `<=`, `>`, `>=` go through Go's string comparison operators -/
def lt (s : Bytes) (a : Arg) : Res Bool := match compare s a with | .ok c => .ok (c < 0) | .err e => .err e | .panic => .panic
def le (s : Bytes) (a : Arg) : Res Bool := match compare s a with | .ok c => .ok (c ≤ 0) | .err e => .err e | .panic => .panic
def gt (s : Bytes) (a : Arg) : Res Bool := match compare s a with | .ok c => .ok (c > 0) | .err e => .err e | .panic => .panic
def ge (s : Bytes) (a : Arg) : Res Bool := match compare s a with | .ok c => .ok (c ≥ 0) | .err e => .err e | .panic => .panic

/-- `String.Equal` (`==`): only another String with the same bytes -/
def equal (s : Bytes) : Arg → Bool
  | .str o => s == o
  | _ => false

/-! ### case mapping -/

def isAscii (s : Bytes) : Bool := s.all fun b => b.toNat < 0x80

/-- `strings.ToUpper` / `ToLower` = `strings.Map(f, s)`: every decoded rune (U+FFFD for an invalid
byte) is mapped and re-encoded. (The ASCII fast path of the Go code computes the same thing; a
string on which the map is the identity is returned unchanged — also the same bytes, because a
rune decoded from a valid sequence re-encodes to that sequence, *except* that an invalid byte is
replaced by U+FFFD only when some rune of the string changes or is invalid… see `mapStr`.) -/
def mapRunes (f : Nat → Nat) (s : Bytes) : Bytes :=
  ((pieces s).map fun p => encodeRune (f p.1)).flatten

/-- `strings.Map`: returns `s` itself when no rune is changed by `f` and all bytes are valid;
once a rune changes (or an invalid byte is met, which `Map` treats as a change because
`RuneError` with width 1 ≠ the source byte), the rest is rebuilt rune by rune. The observable
result is `mapRunes f s` in every case. -/
def mapStr (f : Nat → Nat) (s : Bytes) : Bytes := mapRunes f s

end Elk.Str
