/-
Model of the operator sub-language of Elk expressions (C05): the printers
`BinaryExpressionNode.String`, `LogicalExpressionNode.String`, `UnaryExpressionNode.String`,
`PostfixExpressionNode.String`, `RangeLiteralNode.String`, `AsExpressionNode.String`
(`parser/ast/*.go`) with `ExpressionPrecedence`/`ExpressionAssociativity` (`parser/ast/ast.go`)
as a table, and the precedence ladder of `parser/parser.go`
(`logicalOrExpression … multiplicativeExpression` through `binaryProduction`, then
`rangeLiteral`, `asExpression`, `unaryExpression`, `powerExpression`, `postfixExpression`,
primary with parentheses) parametrised by the ladder of operator sets.

Tokens, not characters: how operators are spelled and lexed is outside the model (the search part
of the check covers it). Core Lean only.
-/
namespace Elk.Prec

abbrev Op := String

/-- which node a ladder level builds: `BinaryExpressionNode` or `LogicalExpressionNode` -/
inductive Kind where
  | bin | logic
deriving DecidableEq, Repr, Inhabited

/-- operator expressions -/
inductive E where
  | atom (n : String)                       -- identifier / literal / any primary expression
  | un (op : Op) (e : E)                    -- UnaryExpressionNode
  | post (e : E) (op : Op)                  -- PostfixExpressionNode (`a++`)
  | bin (k : Kind) (op : Op) (l r : E)      -- BinaryExpressionNode (incl. `**`) / LogicalExpressionNode
  | rng (op : Op) (l r : E)                 -- RangeLiteralNode with both ends
  | rngOpen (op : Op) (l : E)               -- RangeLiteralNode without end (`a...`)
  | as (e : E) (c : String)                 -- AsExpressionNode
deriving DecidableEq, Repr, Inhabited

/-- where an operator token stands; only used to lay the printed tokens out as text, the parser
(like the real one, which sees plain operator tokens) ignores it -/
inductive Role where
  | pre | inf | post | rng
deriving DecidableEq, Repr, Inhabited

inductive Tok where
  | atom (n : String)
  | op (role : Role) (o : Op)
  | lparen | rparen
  | as
  | const (c : String)
deriving DecidableEq, Repr, Inhabited

/-- one `binaryProduction` level of the parser with the printer's precedence of its operators -/
structure Level where
  kind : Kind
  prec : Nat
  ops : List Op
deriving Repr, DecidableEq

/-- printer tables (`ExpressionPrecedence`, `ExpressionAssociativity`) and the parser's ladder -/
structure Table where
  /-- printer: precedence of a binary / logical node by operator (255 when not listed) -/
  infixPrec : List ((Kind × Op) × Nat)
  /-- printer: the operators of `BinaryExpressionNode` that are RIGHT_ASSOCIATIVE -/
  rightAssoc : List Op
  unPrec : Nat
  postPrec : Nat
  rngPrec : Nat
  asPrec : Nat
  /-- parser: the `binaryProduction` levels, loosest first -/
  ladder : List Level
  rngOps : List Op
  /-- parser: the prefix operators that may start the end of a range (`IsValidAsEndInRangeLiteral`) -/
  rngEndOps : List Op
  unOps : List Op
  powOp : Op
  postOps : List Op
deriving Repr

def atomPrec : Nat := 255

def Table.precOf (T : Table) (k : Kind) (o : Op) : Nat :=
  match T.infixPrec.lookup (k, o) with
  | some p => p
  | none => 255

def Table.isRight (T : Table) (k : Kind) (o : Op) : Bool :=
  k == .bin && T.rightAssoc.contains o

/-- `ExpressionPrecedence` -/
def prec (T : Table) : E → Nat
  | .atom _ => atomPrec
  | .un _ _ => T.unPrec
  | .post _ _ => T.postPrec
  | .bin k o _ _ => T.precOf k o
  | .rng _ _ _ => T.rngPrec
  | .rngOpen _ _ => T.rngPrec
  | .as _ _ => T.asPrec

def paren (b : Bool) (ts : List Tok) : List Tok :=
  if b then .lparen :: (ts ++ [.rparen]) else ts

/-- the `String()` printers of the operator nodes, as token lists -/
def print (T : Table) : E → List Tok
  | .atom n => [.atom n]
  | .un o e => .op .pre o :: paren (decide (T.unPrec > prec T e)) (print T e)
  | .post e o => paren (decide (T.postPrec > prec T e)) (print T e) ++ [.op .post o]
  | .bin k o l r =>
    let p := T.precOf k o
    let lp := if T.isRight k o then decide (p ≥ prec T l) else decide (p > prec T l)
    let rp := if T.isRight k o then decide (p > prec T r) else decide (p ≥ prec T r)
    paren lp (print T l) ++ .op .inf o :: paren rp (print T r)
  | .rng o l r =>
    paren (decide (T.rngPrec ≥ prec T l)) (print T l) ++ .op .rng o :: paren (decide (T.rngPrec ≥ prec T r)) (print T r)
  | .rngOpen o l => paren (decide (T.rngPrec ≥ prec T l)) (print T l) ++ [.op .rng o]
  | .as e c => paren (decide (T.asPrec ≥ prec T e)) (print T e) ++ [.as, .const c]

/-! ## the parser -/

abbrev P := List Tok → Option (E × List Tok)

/-- primary expression: an atom or a parenthesised expression (`top` parses what is inside) -/
def parsePrimary (top : P) : P
  | .atom n :: ts => some (.atom n, ts)
  | .lparen :: ts =>
    match top ts with
    | some (e, .rparen :: ts') => some (e, ts')
    | _ => none
  | _ => none

/-- `postfixExpression = methodCall ["++" | "--"]` -/
def parsePostfix (T : Table) (top : P) : P := fun ts =>
  match parsePrimary top ts with
  | some (e, .op ro o :: ts') => if T.postOps.contains o then some (.post e o, ts') else some (e, .op ro o :: ts')
  | r => r

/-- `powerExpression = postfixExpression | postfixExpression "**" powerExpression` -/
def parsePower (T : Table) (top : P) : Nat → P
  | 0, _ => none
  | n + 1, ts =>
    match parsePostfix T top ts with
    | some (l, .op ro o :: ts') =>
      if o = T.powOp then
        match parsePower T top n ts' with
        | some (r, ts'') => some (.bin .bin o l r, ts'')
        | none => none
      else some (l, .op ro o :: ts')
    | r => r

/-- `unaryExpression = powerExpression | ("!" | "-" | "+" | "~" | …) unaryExpression` -/
def parseUnary (T : Table) (top : P) : Nat → P
  | 0, _ => none
  | n + 1, .op ro o :: ts =>
    if T.unOps.contains o then
      match parseUnary T top n ts with
      | some (e, ts') => some (.un o e, ts')
      | none => none
    else parsePower T top (n + 1) (.op ro o :: ts)
  | n + 1, ts => parsePower T top (n + 1) ts

/-- `asExpression = unaryExpression ["as" strictConstantLookup]` -/
def parseAs (T : Table) (top : P) (n : Nat) : P := fun ts =>
  match parseUnary T top n ts with
  | some (e, .as :: .const c :: ts') => some (.as e c, ts')
  | r => r

/-- can the token start the end of a range literal (`IsValidAsEndInRangeLiteral`)? -/
def startsOperand (T : Table) : List Tok → Bool
  | .atom _ :: _ => true
  | .lparen :: _ => true
  | .op _ o :: _ => T.unOps.contains o && T.rngEndOps.contains o
  | _ => false

/-- `rangeLiteral = asExpression | asExpression RANGE_OP [asExpression]` -/
def parseRng (T : Table) (top : P) (n : Nat) : P := fun ts =>
  match parseAs T top n ts with
  | some (l, .op ro o :: ts') =>
    if T.rngOps.contains o then
      if startsOperand T ts' then
        match parseAs T top n ts' with
        | some (r, ts'') => some (.rng o l r, ts'')
        | none => none
      else some (.rngOpen o l, ts')
    else some (l, .op ro o :: ts')
  | r => r

/-- the loop of `binaryProduction` for one level: `left (op sub)*` -/
def loop (lv : Level) (sub : P) : Nat → E → P
  | 0, _, _ => none
  | n + 1, left, .op ro o :: ts =>
    if lv.ops.contains o then
      match sub ts with
      | some (r, ts') => loop lv sub n (.bin lv.kind o left r) ts'
      | none => none
    else some (left, .op ro o :: ts)
  | _ + 1, left, ts => some (left, ts)

/-- the ladder from a given level downwards (towards tighter operators) -/
def parseBin (T : Table) (top : P) (n : Nat) : List Level → P
  | [] => parseRng T top n
  | lv :: rest => fun ts =>
    match parseBin T top n rest ts with
    | some (l, ts') => loop lv (parseBin T top n rest) n l ts'
    | none => none

/-- a whole expression; the fuel bounds the nesting of parentheses and the length of operator chains -/
def parseTop (T : Table) : Nat → P
  | 0, _ => none
  | n + 1, ts => parseBin T (parseTop T n) (n + 1) T.ladder ts

/-- parse a complete token list -/
def parse (T : Table) (ts : List Tok) : Option E :=
  match parseTop T (ts.length + 1) ts with
  | some (e, []) => some e
  | _ => none

/-! ## which trees the real parser can produce, and the decidable side condition on the tables -/

/-- trees of the fragment: operators in the role the tables give them; `++`/`--` not applied twice
(the parser takes a single postfix operator); no endless ranges, and no range whose end starts with a prefix
operator that the parser does not accept at that place (`a...(<<b)`), see docs/C05.md -/
def Valid (T : Table) : E → Bool
  | .atom _ => true
  | .un o e => T.unOps.contains o && Valid T e
  | .post e o => T.postOps.contains o && Valid T e && (match e with | .post _ _ => false | _ => true)
  | .bin k o l r =>
    ((T.ladder.any fun lv => lv.kind == k && lv.ops.contains o) || (k == .bin && o == T.powOp)) &&
      Valid T l && Valid T r
  | .rng o l r =>
    T.rngOps.contains o && Valid T l && Valid T r &&
      -- an end that is printed without parentheses starts with a token that may start a range end
      (decide (T.rngPrec ≥ prec T r) || startsOperand T (print T r))
  | .rngOpen _ _ => false
  | .as e _ => Valid T e

def strictInc : List Nat → Bool
  | a :: b :: rest => decide (a < b) && strictInc (b :: rest)
  | _ => true

/-- **`Compatible`**: the printer's tables and the parser's ladder describe the same grammar -/
def Compatible (T : Table) : Bool :=
  -- every operator of a ladder level has that level's precedence in the printer and is left-associative
  (T.ladder.all fun lv => lv.ops.all fun o => T.precOf lv.kind o == lv.prec && !T.isRight lv.kind o) &&
  -- the levels get tighter along the ladder, then range < as < unary < power < postfix < primary
  strictInc (T.ladder.map (·.prec) ++ [T.rngPrec, T.asPrec, T.unPrec, T.precOf .bin T.powOp, T.postPrec, atomPrec]) &&
  -- `**` is right-associative in the printer
  T.isRight .bin T.powOp &&
  -- an operator continues an expression in one way only
  (T.ladder.all fun lv => lv.ops.all fun o =>
    !T.rngOps.contains o && o != T.powOp && !T.postOps.contains o &&
    T.ladder.all fun lv' => lv'.prec == lv.prec || !lv'.ops.contains o) &&
  (T.rngOps.all fun o => o != T.powOp && !T.postOps.contains o) &&
  !T.postOps.contains T.powOp

end Elk.Prec
