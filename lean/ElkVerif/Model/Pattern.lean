/-!
# Pattern matching — reference semantics of `switch`/`case` patterns (C30)

Values, patterns (the forms `types/checker/pattern.go:checkPattern` dispatches on), the
reference matcher `matchP`, first-match selection `select`, and the checker's
"fully captured type" computation (`captured`, second result of `checkPattern`) with the
exhaustiveness verdict `covers` that `do … catch` uses (`checkThrowType`: a thrown type is
accepted when it is a subtype of the union of the fully captured types of the catches).
At this commit `checkSwitchExpressionNode` ignores the captured type: a `switch` without `else`
always has `nil` in its static type (`switchTy`).

Core Lean only.  Floats are restricted to halves (`flt h` = h/2): exactly representable,
total order = order on `h`, no NaN.  Strings/symbols are ASCII words.
-/
namespace Elk.Pattern

inductive Scalar where
  | int (i : Int)
  | flt (h : Int)          -- the Float h/2
  | str (s : String)
  | sym (s : String)
  | bool (b : Bool)
  | nil
deriving DecidableEq, Repr, Inhabited

/-- runtime values of the fragment. Maps/records are association lists with scalar keys
(first occurrence of a key wins on lookup; the generator emits distinct keys). -/
inductive V where
  | sc (s : Scalar)
  | list (xs : List V)                 -- ArrayList
  | tup (xs : List V)                  -- ArrayTuple
  | map (kvs : List (Scalar × V))      -- HashMap
  | recd (kvs : List (Scalar × V))     -- HashRecord
  | range (lo hi : Int)                -- ClosedRange[Int]
deriving Repr, Inhabited

/-- classes and mixins usable in object patterns `C()` -/
inductive Cls where
  | int | float | string | symbol | bool | nil
  | arrayList | arrayTuple | hashMap | hashRecord | closedRange
  | listM | tupleM | mapM | recordM      -- mixins Std::List, Std::Tuple, Std::Map, Std::Record
  | value                                 -- Std::Value (everything)
deriving DecidableEq, Repr, Inhabited

/-- `value.IsA` for the fragment: `List` includes `Tuple`, `Map` includes `Record`. -/
def isA : V → Cls → Bool
  | _, .value => true
  | .sc (.int _), .int => true
  | .sc (.flt _), .float => true
  | .sc (.str _), .string => true
  | .sc (.sym _), .symbol => true
  | .sc (.bool _), .bool => true
  | .sc .nil, .nil => true
  | .list _, .arrayList => true
  | .list _, .listM => true
  | .list _, .tupleM => true
  | .tup _, .arrayTuple => true
  | .tup _, .tupleM => true
  | .map _, .hashMap => true
  | .map _, .mapM => true
  | .map _, .recordM => true
  | .recd _, .hashRecord => true
  | .recd _, .recordM => true
  | .range _ _, .closedRange => true
  | _, _ => false

/-- the `length` getter (object patterns `C(length: p)`); ASCII strings: chars = bytes -/
def lengthOf : V → Option Int
  | .sc (.str s) => some s.length
  | .list xs => some xs.length
  | .tup xs => some xs.length
  | .map kvs => some kvs.length
  | .recd kvs => some kvs.length
  | _ => none

/-- classes whose instances answer `length` (the checker rejects `C(length: …)` otherwise) -/
def hasLength : Cls → Bool
  | .string | .arrayList | .arrayTuple | .hashMap | .hashRecord
  | .listM | .tupleM | .mapM | .recordM => true
  | _ => false

inductive RangeOp where | cc | co | oc | oo      -- `...`  `..<`  `<..`  `<.<`
deriving DecidableEq, Repr, Inhabited

inductive RelOp where | lt | le | gt | ge | eq | ne
deriving DecidableEq, Repr, Inhabited

/-- right operand of a unary pattern: a literal or an outer local (`>= k`) -/
inductive Operand where
  | lit (s : Scalar)
  | var (x : String)
deriving DecidableEq, Repr, Inhabited

inductive Rest where | none | anon | named (x : String)
deriving DecidableEq, Repr, Inhabited

inductive Pat where
  | lit (s : Scalar)
  | interp (pre : String) (x : String)              -- `"pre#{x}"`, x an outer String local
  | range (op : RangeOp) (lo hi : Option Scalar)
  | list (pre : List Pat) (rest : Rest) (post : List Pat)   -- `[p…, *r, q…]`
  | tup (pre : List Pat) (rest : Rest) (post : List Pat)    -- `%[p…, *r, q…]`
  | map (keys : List Scalar) (ps : List Pat)        -- `{ k => p, … }` (`foo` = `foo: foo`)
  | recd (keys : List Scalar) (ps : List Pat)       -- `%{ k => p, … }`
  | obj (c : Cls) (len : Option Pat)                -- `C()` / `C(length: p)`
  | bind (x : String)
  | as (p : Pat) (x : String)
  | or (p q : Pat)
  | and (p q : Pat)
  | opt (p : Pat)                                   -- `p?`
  | must
  | rel (op : RelOp) (o : Operand)
deriving Repr, Inhabited

abbrev Bindings := List (String × V)
/-- outer locals visible to the patterns (`>= k`, `"a#{s}"`) -/
abbrev Env := List (String × Scalar)

def Env.get (ρ : Env) (x : String) : Option Scalar := (ρ.find? (·.1 == x)).map (·.2)

def Operand.val (ρ : Env) : Operand → Option Scalar
  | .lit s => some s
  | .var x => ρ.get x

/-! ## comparison of scalars (same class only; the compiled relational pattern first tests
`pattern_value is_a value.class`) -/

inductive Kind where | int | flt | str | other
deriving DecidableEq, Repr

def Scalar.kind : Scalar → Kind
  | .int _ => .int | .flt _ => .flt | .str _ => .str | _ => .other

/-- `a < b` for two scalars of the same ordered class -/
def Scalar.lt : Scalar → Scalar → Option Bool
  | .int a, .int b => some (decide (a < b))
  | .flt a, .flt b => some (decide (a < b))
  | .str a, .str b => some (decide (a < b))
  | _, _ => none

def Scalar.le (a b : Scalar) : Option Bool :=
  match Scalar.lt a b with
  | some r => some (r || decide (a = b))
  | none => none

def relHolds (op : RelOp) (v : V) (s : Scalar) : Bool :=
  match op, v with
  | .eq, .sc t => decide (t = s)
  | .eq, _ => false
  | .ne, .sc t => !decide (t = s)
  | .ne, _ => true
  | .lt, .sc t => (Scalar.lt t s).getD false
  | .le, .sc t => (Scalar.le t s).getD false
  | .gt, .sc t => (Scalar.lt s t).getD false
  | .ge, .sc t => (Scalar.le s t).getD false
  | _, _ => false

def lowerOk (op : RangeOp) (lo : Option Scalar) (t : Scalar) : Bool :=
  match lo with
  | none => true
  | some l => match op with
    | .cc | .co => (Scalar.le l t).getD false
    | .oc | .oo => (Scalar.lt l t).getD false

def upperOk (op : RangeOp) (hi : Option Scalar) (t : Scalar) : Bool :=
  match hi with
  | none => true
  | some h => match op with
    | .cc | .oc => (Scalar.le t h).getD false
    | .co | .oo => (Scalar.lt t h).getD false

/-- `range.contains(v)`: only scalars of the bounds' class, within the bounds -/
def inRange (op : RangeOp) (lo hi : Option Scalar) : V → Bool
  | .sc t => (lo.isSome || hi.isSome) && lowerOk op lo t && upperOk op hi t
  | _ => false

def lookupKey (kvs : List (Scalar × V)) (k : Scalar) : V :=
  match kvs.find? (·.1 == k) with
  | some (_, v) => v
  | none => V.sc .nil         -- `[]` answers nil for an absent key

/-! ## variables of a pattern, in binding order -/

def Rest.vars : Rest → List String
  | .named x => [x]
  | _ => []

mutual
def Pat.vars : Pat → List String
  | .lit _ | .interp _ _ | .range _ _ _ | .must | .rel _ _ => []
  | .list pre r post => varsL pre ++ r.vars ++ varsL post
  | .tup pre r post => varsL pre ++ r.vars ++ varsL post
  | .map _ ps => varsL ps
  | .recd _ ps => varsL ps
  | .obj _ none => []
  | .obj _ (some p) => p.vars
  | .bind x => [x]
  | .as p x => x :: p.vars
  | .or p q => p.vars ++ q.vars
  | .and p q => p.vars ++ q.vars
  | .opt p => p.vars
def varsL : List Pat → List String
  | [] => []
  | p :: ps => p.vars ++ varsL ps
end

def nils (xs : List String) : Bindings := xs.map (·, .sc .nil)

/-! ## the reference matcher -/

/-- where the elements after the rest marker start -/
def postStart (r : Rest) (npre npost : Nat) (xs : List V) : Nat :=
  match r with
  | .none => npre
  | _ => xs.length - npost

/-- length test of a list/tuple pattern: `=` without a rest element, `≥` with one -/
def lenOk (r : Rest) (npre npost n : Nat) : Bool :=
  match r with
  | .none => n == npre + npost
  | _ => decide (npre + npost ≤ n)

/-- `[pre…, *rest, post…]` against the element list `xs`, given the results of matching the
`pre` patterns against the first elements and the `post` patterns against the last ones:
length test (`=` without rest, `≥` with), then the bindings in order pre, rest, post.
A named rest is always bound to a fresh ArrayList of the middle elements. -/
def seqCombine (r : Rest) (npre npost : Nat) (xs : List V) (mpre mpost : Option Bindings) : Option Bindings :=
  if lenOk r npre npost xs.length then
    match mpre, mpost with
    | some b, some b' =>
      some (b ++ (r.vars.map (·, V.list ((xs.drop npre).take (xs.length - npre - npost)))) ++ b')
    | _, _ => none
  else none

mutual
/-- `matchP ρ p v = some b`: pattern `p` matches `v`, binding `b` (in binding order).
In `p || q` the variables of the alternative that was not taken are `nil`
(the checker gives them nilable types for that reason: `nilablePatternMode`). -/
def matchP (ρ : Env) : Pat → V → Option Bindings
  | .lit s, v => match v with
    | .sc t => if t = s then some [] else none
    | _ => none
  | .interp pre x, v => match ρ.get x, v with
    | some (.str s), .sc (.str t) => if t = pre ++ s then some [] else none
    | _, _ => none
  | .range op lo hi, v => if inRange op lo hi v then some [] else none
  | .list pre r post, v => match v with
    | .list xs => seqCombine r pre.length post.length xs (matchElems ρ pre xs)
        (matchElems ρ post (xs.drop (postStart r pre.length post.length xs)))
    | _ => none
  | .tup pre r post, v => match v with
    | .list xs => seqCombine r pre.length post.length xs (matchElems ρ pre xs)
        (matchElems ρ post (xs.drop (postStart r pre.length post.length xs)))
    | .tup xs => seqCombine r pre.length post.length xs (matchElems ρ pre xs)
        (matchElems ρ post (xs.drop (postStart r pre.length post.length xs)))
    | _ => none
  | .map ks ps, v => match v with
    | .map kvs => matchKeys ρ ks ps kvs
    | _ => none
  | .recd ks ps, v => match v with
    | .map kvs => matchKeys ρ ks ps kvs
    | .recd kvs => matchKeys ρ ks ps kvs
    | _ => none
  | .obj c none, v => if isA v c then some [] else none
  | .obj c (some p), v =>
    if isA v c then
      match lengthOf v with
      | some n => matchP ρ p (.sc (.int n))
      | none => none
    else none
  | .bind x, v => some [(x, v)]
  | .as p x, v => match matchP ρ p v with
    | some b => some ((x, v) :: b)       -- `x` is stored first (`asPattern`), an inner binding of the same name wins
    | none => none
  | .or p q, v => match matchP ρ p v with
    | some b => some (b ++ nils q.vars)
    | none => match matchP ρ q v with
      | some b => some (nils p.vars ++ b)
      | none => none
  | .and p q, v => match matchP ρ p v with
    | some b₁ => match matchP ρ q v with
      | some b₂ => some (b₁ ++ b₂)
      | none => none
    | none => none
  | .opt p, v => match matchP ρ p v with
    | some b => some b
    | none => match v with
      | .sc .nil => some (nils p.vars)
      | _ => none
  | .must, v => match v with
    | .sc .nil => none
    | _ => some []
  | .rel op o, v => match o.val ρ with
    | some s => if relHolds op v s then some [] else none
    | none => none

/-- element-wise matching of a fixed-length prefix: `ps` against the first `ps.length` elements -/
def matchElems (ρ : Env) : List Pat → List V → Option Bindings
  | [], _ => some []
  | _ :: _, [] => none
  | p :: ps, x :: xs => match matchP ρ p x with
    | some b => match matchElems ρ ps xs with
      | some b' => some (b ++ b')
      | none => none
    | none => none

/-- `{ k => p, … }`: each key is looked up (nil when absent) and its pattern matched -/
def matchKeys (ρ : Env) : List Scalar → List Pat → List (Scalar × V) → Option Bindings
  | k :: ks, p :: ps, kvs => match matchP ρ p (lookupKey kvs k) with
    | some b => match matchKeys ρ ks ps kvs with
      | some b' => some (b ++ b')
      | none => none
    | none => none
  | [], [], _ => some []
  | _, _, _ => none          -- malformed (a key without a pattern): never built by the parser
end

/-- first-match selection: index of the selected case and its bindings -/
def selectFrom (ρ : Env) (v : V) : Nat → List Pat → Option (Nat × Bindings)
  | _, [] => none
  | i, p :: ps => match matchP ρ p v with
    | some b => some (i, b)
    | none => selectFrom ρ v (i + 1) ps

def select (ρ : Env) (cases : List Pat) (v : V) : Option (Nat × Bindings) := selectFrom ρ v 0 cases

/-- last binding of a name wins (bindings are sequential assignments) -/
def Bindings.get (b : Bindings) (x : String) : Option V :=
  (b.reverse.find? (·.1 == x)).map (·.2)

/-! ## static types of the fragment, "fully captured" types, exhaustiveness -/

inductive Ty where
  | any | never
  | lit (s : Scalar)             -- literal / singleton types `1`, `"a"`, `:a`, `true`, `nil`
  | cls (c : Cls)
  | union (a b : Ty)
  | inter (a b : Ty)
  | not (a : Ty)
deriving Repr, Inhabited, DecidableEq

def hasTy (v : V) : Ty → Bool
  | .any => true
  | .never => false
  | .lit s => match v with
    | .sc t => decide (t = s)
    | _ => false
  | .cls c => isA v c
  | .union a b => hasTy v a || hasTy v b
  | .inter a b => hasTy v a && hasTy v b
  | .not a => !hasTy v a

def Ty.nilable (t : Ty) : Ty := .union t (.lit .nil)
/-- `differenceType(t, u)` = `t & ~u` -/
def Ty.diff (t u : Ty) : Ty := .inter t (.not u)

def Scalar.cls : Scalar → Cls
  | .int _ => .int | .flt _ => .float | .str _ => .string | .sym _ => .symbol
  | .bool _ => .bool | .nil => .nil

/-- type of the right operand of a unary pattern -/
def Operand.ty (ρ : Env) : Operand → Ty
  | .lit s => .lit s
  | .var x => match ρ.get x with
    | some s => .cls s.cls
    | none => .never

def Operand.isLit : Operand → Bool
  | .lit _ => true
  | .var _ => false

/-- atoms: literal and class types -/
def Ty.isAtom : Ty → Bool
  | .lit _ | .cls _ => true
  | _ => false

/-- class inclusion table (sub ≤ sup) for the fragment -/
def clsLe : Cls → Cls → Bool
  | _, .value => true
  | .arrayList, .listM | .arrayList, .tupleM | .arrayTuple, .tupleM | .listM, .tupleM => true
  | .hashMap, .mapM | .hashMap, .recordM | .hashRecord, .recordM | .mapM, .recordM => true
  | a, b => decide (a = b)

/-- two atoms with no common instance (conservative: `true` only when certainly disjoint) -/
def atomsDisjoint : Ty → Ty → Bool
  | .lit s, .lit t => decide (s ≠ t)
  | .lit s, .cls c => !clsLe s.cls c
  | .cls c, .lit s => !clsLe s.cls c
  | .cls a, .cls b =>
    -- leaf classes of scalars are pairwise disjoint from everything they are not below
    let scalar (c : Cls) := c == .int || c == .float || c == .string || c == .symbol || c == .bool || c == .nil
    (scalar a || scalar b) && !clsLe a b && !clsLe b a
  | _, _ => false

/-- conservative subtype test: `isSub a b = true → every value of a is a value of b`
(`isSub_sound`).  Shapes follow `Checker.isSubtype` on unions/intersections/not. -/
def isSub : Ty → Ty → Bool
  | .never, _ => true
  | .union a b, t => isSub a t && isSub b t
  | _, .any => true
  | a, .union x y => isSub a x || isSub a y
  | a, .inter x y => isSub a x && isSub a y
  | .inter x y, t => isSub x t || isSub y t
  | a, .not y => a.isAtom && y.isAtom && atomsDisjoint a y
  | .lit s, .lit t => decide (s = t)
  | .lit s, .cls c => clsLe s.cls c
  | .cls d, .cls c => clsLe d c
  | _, _ => false
termination_by a t => sizeOf a + sizeOf t

/-- is the interpolated-string defect of `checkSimpleLiteralPattern` repaired?  The model is
parametric so that both the unchanged code (`fixed := false`: a non-literal pattern type such as
`String` is returned as fully captured) and the repaired code are described. -/
structure Cfg where
  literalOnly : Bool      -- `checkSimpleLiteralPattern` returns the node type only when it is a literal type

mutual
/-- type the checker assigns to the pattern node (`c.TypeOf(pattern)`), matched type `μ` -/
def patTy (ρ : Env) : Pat → Ty → Ty
  | .lit s, _ => .lit s
  | .interp _ _, _ => .cls .string
  | .range _ lo hi, _ => match lo, hi with
    | some l, _ => .cls l.cls
    | none, some h => .cls h.cls
    | none, none => .never
  | .list _ _ _, μ => .inter μ (.cls .listM)
  | .tup _ _ _, μ => .inter μ (.cls .tupleM)
  | .map _ _, μ => .inter μ (.cls .mapM)
  | .recd _ _, μ => .inter μ (.cls .recordM)
  | .obj c _, _ => .cls c
  | .bind _, μ => μ
  | .as p _, μ => patTy ρ p μ
  | .or p q, μ => .union (patTy ρ p μ) (patTy ρ q μ)
  | .and p q, μ => .inter (patTy ρ p μ) (patTy ρ q (patTy ρ p μ))
  | .opt p, μ => (patTy ρ p μ).nilable
  | .must, μ => μ.diff (.lit .nil)
  | .rel op o, μ => match op with
    | .eq => o.ty ρ
    | .ne => match o with
      | .lit .nil => μ.diff (.lit .nil)
      | .lit (.bool true) => μ.diff (.lit (.bool true))
      | .lit (.bool false) => μ.diff (.lit (.bool false))
      | _ => μ
    | _ => match o.val ρ with
      | some s => .inter (.cls s.cls) μ
      | none => .never
end

/-- second result of `checkPattern`: the part of the matched type `μ` that the pattern is
guaranteed to match ("fully captured"). -/
def captured (cfg : Cfg) (ρ : Env) : Pat → Ty → Ty
  | .lit s, _ => .lit s
  | .interp _ _, _ => if cfg.literalOnly then .never else .cls .string
  | .range _ _ _, _ => .never
  | .list _ _ _, _ | .tup _ _ _, _ | .map _ _, _ | .recd _ _, _ => .never
  | .obj c none, _ => .cls c
  | .obj c (some p), _ =>
    if hasLength c && isSub (.cls .int) (captured cfg ρ p (.cls .int)) then .cls c else .never
  | .bind _, _ => .any
  | .as p _, μ => captured cfg ρ p μ
  | .or p q, μ => .union (captured cfg ρ p μ) (captured cfg ρ q μ)
  | .and p q, μ => .inter (captured cfg ρ p μ) (captured cfg ρ q (patTy ρ p μ))
  | .opt p, μ => (captured cfg ρ p μ).nilable
  | .must, μ => μ.diff (.lit .nil)
  | .rel op o, μ => match op with
    | .eq => match o with
      | .lit s => Ty.lit s
      | .var _ => Ty.never
    | .ne => match o with
      | .lit .nil => μ.diff (.lit .nil)
      | .lit (.bool true) => μ.diff (.lit (.bool true))
      | .lit (.bool false) => μ.diff (.lit (.bool false))
      | _ => .never
    | _ => .never

def capturedAll (cfg : Cfg) (ρ : Env) (μ : Ty) : List Pat → Ty
  | [] => .never
  | p :: ps => .union (captured cfg ρ p μ) (capturedAll cfg ρ μ ps)

/-- exhaustiveness verdict of `do … catch p₁ … catch pₙ end` for a thrown type `τ`
(`checkThrowType`: `isSubtype(τ, ⋃ fullyCaught)`); catch patterns are checked against `any`. -/
def covers (cfg : Cfg) (ρ : Env) (ps : List Pat) (τ : Ty) : Bool :=
  isSub τ (capturedAll cfg ρ .any ps)

/-- static type of a `switch` whose arms have types `arms`: without `else` the checker always
adds `nil` (`checkSwitchExpressionNode` does not consult the captured types). -/
def switchTy (arms : List Ty) (elseTy : Option Ty) : Ty :=
  let u := arms.foldr Ty.union .never
  match elseTy with
  | some e => .union u e
  | none => .union u (.lit .nil)


/-! ## the compiled matcher — mirror of `compiler/bytecode_compiler.go` `pattern`

The bytecode tests a pattern from left to right with early exit and *assigns variables as it goes*:
`p as x` stores the value in `x` before testing `p` (`asPattern`), an identifier pattern stores and
answers true, `p || q` runs `q` after a failed `p` without resetting what `p` assigned, a named rest
variable is initialised to `[]` before the class test and filled once the elements before it have
matched.  `cmatch` answers the verdict and the sequence of stores performed (also on failure).
A variable that is never stored keeps whatever its stack slot held (`Slot.stale`). -/

abbrev Writes := List (String × V)

def Rest.init : Rest → Writes
  | .named x => [(x, V.list [])]
  | _ => []

/-- stores of `[pre…, *r, post…]` after the class test, given the results for `pre` (against the first
elements) and `post` (against the last ones): length test, `pre`, the rest loop, `post` -/
def cseqCombine (r : Rest) (npre npost : Nat) (xs : List V) (cpre cpost : Bool × Writes) : Bool × Writes :=
  if lenOk r npre npost xs.length then
    if cpre.1 then
      (cpost.1, cpre.2 ++ (r.vars.map (·, V.list ((xs.drop npre).take (xs.length - npre - npost)))) ++ cpost.2)
    else (false, cpre.2)
  else (false, [])

mutual
def cmatch (ρ : Env) : Pat → V → Bool × Writes
  | .lit s, v => (match v with | .sc t => decide (t = s) | _ => false, [])
  | .interp pre x, v =>
    (match ρ.get x, v with
      | some (.str s), .sc (.str t) => decide (t = pre ++ s)
      | _, _ => false, [])
  | .range op lo hi, v => (inRange op lo hi v, [])
  | .list pre r post, v =>
    match v with
    | .list xs =>
      let c := cseqCombine r pre.length post.length xs (celems ρ pre xs)
        (celems ρ post (xs.drop (postStart r pre.length post.length xs)))
      (c.1, r.init ++ c.2)
    | _ => (false, r.init)
  | .tup pre r post, v =>
    match v with
    | .list xs =>
      let c := cseqCombine r pre.length post.length xs (celems ρ pre xs)
        (celems ρ post (xs.drop (postStart r pre.length post.length xs)))
      (c.1, r.init ++ c.2)
    | .tup xs =>
      let c := cseqCombine r pre.length post.length xs (celems ρ pre xs)
        (celems ρ post (xs.drop (postStart r pre.length post.length xs)))
      (c.1, r.init ++ c.2)
    | _ => (false, r.init)
  | .map ks ps, v => match v with
    | .map kvs => ckeys ρ ks ps kvs
    | _ => (false, [])
  | .recd ks ps, v => match v with
    | .map kvs => ckeys ρ ks ps kvs
    | .recd kvs => ckeys ρ ks ps kvs
    | _ => (false, [])
  | .obj c none, v => (isA v c, [])
  | .obj c (some p), v =>
    if isA v c then
      match lengthOf v with
      | some n => cmatch ρ p (.sc (.int n))
      | none => (false, [])
    else (false, [])
  | .bind x, v => (true, [(x, v)])
  | .as p x, v =>
    let r := cmatch ρ p v
    (r.1, (x, v) :: r.2)
  | .or p q, v =>
    let r := cmatch ρ p v
    if r.1 then r else
      let r' := cmatch ρ q v
      (r'.1, r.2 ++ r'.2)
  | .and p q, v =>
    let r := cmatch ρ p v
    if r.1 then
      let r' := cmatch ρ q v
      (r'.1, r.2 ++ r'.2)
    else r
  | .opt p, v =>
    let r := cmatch ρ p v
    if r.1 then r else (match v with | .sc .nil => true | _ => false, r.2)
  | .must, v => (match v with | .sc .nil => false | _ => true, [])
  | .rel op o, v => (match o.val ρ with | some s => relHolds op v s | none => false, [])

/-- element patterns against the first elements, left to right, stopping at the first failure -/
def celems (ρ : Env) : List Pat → List V → Bool × Writes
  | [], _ => (true, [])
  | _ :: _, [] => (false, [])
  | p :: ps, x :: xs =>
    let r := cmatch ρ p x
    if r.1 then
      let r' := celems ρ ps xs
      (r'.1, r.2 ++ r'.2)
    else r

def ckeys (ρ : Env) : List Scalar → List Pat → List (Scalar × V) → Bool × Writes
  | k :: ks, p :: ps, kvs =>
    let r := cmatch ρ p (lookupKey kvs k)
    if r.1 then
      let r' := ckeys ρ ks ps kvs
      (r'.1, r.2 ++ r'.2)
    else r
  | [], [], _ => (true, [])
  | _, _, _ => (false, [])
end

mutual
/-- no `||` / `?` anywhere in the pattern -/
def Pat.altFree : Pat → Bool
  | .or _ _ | .opt _ => false
  | .list pre _ post | .tup pre _ post => altFreeL pre && altFreeL post
  | .map _ ps | .recd _ ps => altFreeL ps
  | .obj _ (some p) => p.altFree
  | .as p _ => p.altFree
  | .and p q => p.altFree && q.altFree
  | _ => true
def altFreeL : List Pat → Bool
  | [] => true
  | p :: ps => p.altFree && altFreeL ps
end

inductive Slot where
  | val (v : V)
  | stale
deriving Repr, Inhabited

/-- content of variable `x` after the stores `w` (the last store wins; never stored = stale) -/
def Writes.slot (w : Writes) (x : String) : Slot :=
  match w.reverse.find? (·.1 == x) with
  | some (_, v) => .val v
  | none => .stale

/-- the compiled `switch`: first case whose compiled pattern answers true, with the stores of that
case (every case runs in its own scope) -/
def cselectFrom (ρ : Env) (v : V) : Nat → List Pat → Option (Nat × Writes)
  | _, [] => none
  | i, p :: ps =>
    let r := cmatch ρ p v
    if r.1 then some (i, r.2) else cselectFrom ρ v (i + 1) ps

def cselect (ρ : Env) (cases : List Pat) (v : V) : Option (Nat × Writes) := cselectFrom ρ v 0 cases

end Elk.Pattern
