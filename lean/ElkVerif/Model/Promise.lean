/-
Model of the await / resolve / thread-pool protocol of `vm/promise.go`, `vm/thread_pool.go`
and the `AWAIT` case of `vm/thread.go` (C16, C15).  Core Lean only.

Actors are numbered: `a < N` is pool worker `a` (goroutine `threadWorker`), `a ≥ N` is any other
goroutine (main thread, `go` threads, the timer goroutine of `timeout`, `Promise.wait`).
Promises and tasks share one id space: a task *is* the promise that is settled with the
result of its body (`*Promise` with a `Body`).

Micro-steps (one `Event` each; the verif hook H2 records exactly these, see
`vm/verif_events_on.go`).  Go code on the right.

  add  a c     AddTask(c) entered: promise c exists            NewPromise: p := &Promise{..}; AddTask(p)
  enq  a c     `t.TaskQueue <- c` completed (needs room)       BLOCKING send into the bounded channel
  deq  a t     worker a received t from the queue              `for task := range queue`
  aw   a p     AWAIT: about to lock p                          promise.m.Lock()  (blocks while held)
  awl  a p     lock acquired
  aws  a p     p unsettled: suspend, STILL HOLDING the lock    vm.state = awaitState; return
  awr  a p     p settled: read result, unlock, go on           err := ..; promise.m.Unlock()
  reg  a p     continuation registered                         awaitedPromise.RegisterContinuationUnsafe(task)
  unl  a p     unlock after registering; worker idle           awaitedPromise.m.Unlock()
  res  a p r   Resolve/Reject(p) entered with result r         task.Resolve(result) / p.Resolve(..)
  resl a p     lock acquired                                   p.m.Lock()
  pub  a p     result published                                p.ThreadPool = nil; p.result = ..; p.wg.Done()
  enqc a p c   one continuation sent (needs room)              `queue <- cont`  BLOCKING, lock held
  resu a p     continuations cleared, unlock                   p.continuations = nil; p.m.Unlock()
  newx a p     external (bodyless) promise created             NewExternalPromise
  syw  a p     AwaitSync(p) entered                            p.wg.Wait()  (blocks the goroutine)
  sywd a p     AwaitSync returned (p settled)

The task queue is a bounded Go channel of capacity `Q`.  Its FIFO order plays no role in C16;
the relation lets a worker receive *any* queued task (a superset of the FIFO behaviours), which
also makes trace validation independent of the order in which two workers log their receives.
-/
namespace Elk.Promise

/-- result of a body / of an external settle: value or error (payloads abstract) -/
inductive Res where
  | ok (v : Nat)
  | err (v : Nat)
deriving DecidableEq, Repr, Inhabited

inductive Kind where
  | none   -- id not allocated
  | task   -- promise with a body, run by the pool
  | ext    -- NewExternalPromise: settled by some other goroutine
deriving DecidableEq, Repr, Inhabited

/-- `vm.Promise` -/
structure PState where
  kind : Kind := .none
  locked : Option Nat := none     -- `m`: the actor holding it
  settled : Option Res := none    -- `ThreadPool == nil` together with `result`/`err`
  conts : List Nat := []          -- `continuations`
  claimed : Option Nat := none    -- ext only: the one goroutine that settles it has started
deriving Repr, Inhabited

/-- control state of an actor (goroutine) -/
inductive AState where
  | idle
  | run (t : Nat)                              -- inside `vm.run()` on task t's body
  | add (ret : Option Nat) (c : Nat)           -- in AddTask(c), blocked on the send until there is room
  | awLock (t p : Nat)                         -- AWAIT: waiting for p.m
  | awTest (t p : Nat)                         -- holding p.m, about to test IsResolved
  | awSusp (t p : Nat)                         -- suspended (awaitState) holding p.m
  | awUnl (p : Nat)                            -- continuation registered, about to unlock
  | wait (ret : Option Nat) (p : Nat)          -- in AwaitSync(p)
  | resLock (own : Bool) (p : Nat) (r : Res)   -- Resolve/Reject: waiting for p.m (own: a worker settling the task it ran)
  | resPub (own : Bool) (p : Nat) (r : Res)    -- holding p.m, about to publish
  | resEnq (p : Nat) (rest : List Nat)         -- published; continuations still to send, p.m held
deriving DecidableEq, Repr, Inhabited

/-- where a task is (ghost: written by the steps, never read by a guard) -/
inductive Loc where
  | none | queued | actor (a : Nat) | waiting (p : Nat) | finished
deriving DecidableEq, Repr, Inhabited

/-- pointwise update. `noinline`: the compiled replayer must evaluate `v` once, before the closure is built -/
@[noinline] def upd {α : Type} (f : Nat → α) (k : Nat) (v : α) : Nat → α := fun x => if x = k then v else f x

@[simp] theorem upd_same {α} (f : Nat → α) (k v) : upd f k v k = v := by simp [upd]
@[simp] theorem upd_other {α} (f : Nat → α) (k v x) (h : x ≠ k) : upd f k v x = f x := by simp [upd, h]
theorem upd_apply {α} (f : Nat → α) (k v x) : upd f k v x = if x = k then v else f x := rfl

structure Sys where
  act : Nat → AState
  queue : List Nat
  prom : Nat → PState
  resumeOn : Nat → Option Nat      -- promise on top of the saved stack of a suspended task (AWAIT_RESULT reads it)
  -- ghost state (only written)
  loc : Nat → Loc
  tasks : List Nat                 -- every task ever created
  pubs : Nat → Nat                 -- number of publishes per promise
  bodyRes : Nat → Option Res       -- what Resolve/Reject was called with

def init : Sys where
  act := fun _ => .idle
  queue := []
  prom := fun _ => {}
  resumeOn := fun _ => none
  loc := fun _ => .none
  tasks := []
  pubs := fun _ => 0
  bodyRes := fun _ => none

inductive Event where
  | add (a c : Nat) | enq (a c : Nat) | deq (a t : Nat)
  | aw (a p : Nat) | awl (a p : Nat) | aws (a p : Nat) | awr (a p : Nat)
  | reg (a p : Nat) | unl (a p : Nat)
  | res (a p : Nat) (r : Res) | resl (a p : Nat) | pub (a p : Nat) | enqc (a p c : Nat) | resu (a p : Nat)
  | newx (a p : Nat) | syw (a p : Nat) | sywd (a p : Nat)
deriving DecidableEq, Repr, Inhabited

def Event.actor : Event → Nat
  | .add a _ | .enq a _ | .deq a _ | .aw a _ | .awl a _ | .aws a _ | .awr a _ | .reg a _ | .unl a _
  | .res a _ _ | .resl a _ | .pub a _ | .enqc a _ _ | .resu a _ | .newx a _ | .syw a _ | .sywd a _ => a

/-- state an actor returns to after a nested blocking call -/
def retState : Option Nat → AState
  | some t => .run t
  | none => .idle

/-- who may start something: a worker only while running a task, another goroutine when idle -/
def starter (N : Nat) (s : Sys) (a : Nat) : Option (Option Nat) :=
  match s.act a with
  | .run t => some (some t)
  | .idle => if N ≤ a then some none else none
  | _ => none

/-- `inline`: otherwise the compiler eta-expands it and re-evaluates `f (s.prom p)` on every lookup -/
@[inline] def setProm (s : Sys) (p : Nat) (f : PState → PState) : Nat → PState := upd s.prom p (f (s.prom p))

/-- location update of `pub`: the settled task is finished, its continuations are in the hands of the settler -/
@[noinline] def pubLoc (loc : Nat → Loc) (p : Nat) (own : Bool) (cs : List Nat) (a : Nat) : Nat → Loc :=
  fun c => if c = p ∧ own = true then .finished else if c ∈ cs then .actor a else loc c

/-- erase the first occurrence -/
def eraseFirst (t : Nat) : List Nat → List Nat
  | [] => []
  | x :: xs => if x = t then xs else x :: eraseFirst t xs

/-- The executable step function (trace validation replays hook logs through it). -/
def stepB (N Q : Nat) (s : Sys) : Event → Option Sys
  | .add a c =>
    match starter N s a with
    | some ret =>
      if (s.prom c).kind = .none then
        some { s with act := upd s.act a (.add ret c)
                      prom := setProm s c (fun _ => { kind := .task })
                      loc := upd s.loc c (.actor a)
                      tasks := c :: s.tasks }
      else none
    | none => none
  | .enq a c =>
    match s.act a with
    | .add ret c' =>
      if c' = c ∧ s.queue.length < Q then
        some { s with act := upd s.act a (retState ret), queue := s.queue ++ [c], loc := upd s.loc c .queued }
      else none
    | _ => none
  | .deq a t =>
    match s.act a with
    | .idle =>
      if a < N ∧ t ∈ s.queue then
        some { s with act := upd s.act a (.run t), queue := eraseFirst t s.queue
                      loc := upd s.loc t (.actor a), resumeOn := upd s.resumeOn t none }
      else none
    | _ => none
  | .aw a p =>
    match s.act a with
    | .run t => if (s.prom p).kind ≠ .none then some { s with act := upd s.act a (.awLock t p) } else none
    | _ => none
  | .awl a p =>
    match s.act a with
    | .awLock t p' =>
      if p' = p ∧ (s.prom p).locked = none then
        some { s with act := upd s.act a (.awTest t p), prom := setProm s p (fun q => { q with locked := some a }) }
      else none
    | _ => none
  | .aws a p =>
    match s.act a with
    | .awTest t p' =>
      if p' = p ∧ (s.prom p).settled = none then some { s with act := upd s.act a (.awSusp t p) } else none
    | _ => none
  | .awr a p =>
    match s.act a with
    | .awTest t p' =>
      if p' = p ∧ (s.prom p).settled ≠ none then
        some { s with act := upd s.act a (.run t), prom := setProm s p (fun q => { q with locked := none }) }
      else none
    | _ => none
  | .reg a p =>
    match s.act a with
    | .awSusp t p' =>
      if p' = p then
        some { s with act := upd s.act a (.awUnl p)
                      prom := setProm s p (fun q => { q with conts := q.conts ++ [t] })
                      resumeOn := upd s.resumeOn t (some p)
                      loc := upd s.loc t (.waiting p) }
      else none
    | _ => none
  | .unl a p =>
    match s.act a with
    | .awUnl p' =>
      if p' = p then
        some { s with act := upd s.act a .idle, prom := setProm s p (fun q => { q with locked := none }) }
      else none
    | _ => none
  | .res a p r =>
    match s.act a with
    | .run t =>
      if t = p then some { s with act := upd s.act a (.resLock true p r), bodyRes := upd s.bodyRes p (some r) } else none
    | .idle =>
      if N ≤ a ∧ (s.prom p).kind = .ext ∧ (s.prom p).claimed = none then
        some { s with act := upd s.act a (.resLock false p r), bodyRes := upd s.bodyRes p (some r)
                      prom := setProm s p (fun q => { q with claimed := some a }) }
      else none
    | _ => none
  | .resl a p =>
    match s.act a with
    | .resLock own p' r =>
      if p' = p ∧ (s.prom p).locked = none then
        some { s with act := upd s.act a (.resPub own p r), prom := setProm s p (fun q => { q with locked := some a }) }
      else none
    | _ => none
  | .pub a p =>
    match s.act a with
    | .resPub own p' r =>
      if p' = p then
        let cs := (s.prom p).conts
        some { s with act := upd s.act a (.resEnq p cs)
                      prom := setProm s p (fun q => { q with settled := some r })
                      pubs := upd s.pubs p (s.pubs p + 1)
                      loc := pubLoc s.loc p own cs a }
      else none
    | _ => none
  | .enqc a p c =>
    match s.act a with
    | .resEnq p' (c' :: rest) =>
      if p' = p ∧ c' = c ∧ s.queue.length < Q then
        some { s with act := upd s.act a (.resEnq p rest), queue := s.queue ++ [c], loc := upd s.loc c .queued }
      else none
    | _ => none
  | .resu a p =>
    match s.act a with
    | .resEnq p' [] =>
      if p' = p then
        some { s with act := upd s.act a .idle
                      prom := setProm s p (fun q => { q with conts := [], locked := none }) }
      else none
    | _ => none
  | .newx a p =>
    match starter N s a with
    | some _ =>
      if (s.prom p).kind = .none then some { s with prom := setProm s p (fun _ => { kind := .ext }) } else none
    | none => none
  | .syw a p =>
    match starter N s a with
    | some ret => if (s.prom p).kind ≠ .none then some { s with act := upd s.act a (.wait ret p) } else none
    | none => none
  | .sywd a p =>
    match s.act a with
    | .wait ret p' =>
      if p' = p ∧ (s.prom p).settled ≠ none then some { s with act := upd s.act a (retState ret) } else none
    | _ => none

/-- replay of a whole log -/
def runTrace (N Q : Nat) : Sys → List Event → Option Sys
  | s, [] => some s
  | s, e :: es => match stepB N Q s e with
    | some s' => runTrace N Q s' es
    | none => none

/-- labelled transition relation and reachability -/
def Step (N Q : Nat) (s : Sys) (e : Event) (s' : Sys) : Prop := stepB N Q s e = some s'

inductive Reachable (N Q : Nat) : Sys → Prop where
  | init : Reachable N Q init
  | step {s e s'} : Reachable N Q s → Step N Q s e s' → Reachable N Q s'

/-- number of times an actor state "has" task `c` in hand -/
def AState.holdCount : AState → Nat → Nat
  | .idle, _ => 0
  | .run t, c => if c = t then 1 else 0
  | .add ret c', c => (if ret = some c then 1 else 0) + (if c = c' then 1 else 0)
  | .awLock t _, c => if c = t then 1 else 0
  | .awTest t _, c => if c = t then 1 else 0
  | .awSusp t _, c => if c = t then 1 else 0
  | .awUnl _, _ => 0
  | .wait ret _, c => if ret = some c then 1 else 0
  | .resLock own p _, c => if own = true ∧ c = p then 1 else 0
  | .resPub own p _, c => if own = true ∧ c = p then 1 else 0
  | .resEnq _ rest, c => rest.count c

/-- does the actor state hold `p.m` -/
def AState.holdsLock : AState → Nat → Bool
  | .awTest _ p', p => p' = p
  | .awSusp _ p', p => p' = p
  | .awUnl p', p => p' = p
  | .resPub _ p' _, p => p' = p
  | .resEnq p' _, p => p' = p
  | _, _ => false

/-- the actor is inside the `enqueueContinuations` loop -/
def AState.isEnq : AState → Bool
  | .resEnq _ _ => true
  | _ => false

/-- Physical location predicates of a task (no ghost field mentioned). -/
def Queued (s : Sys) (t : Nat) : Prop := t ∈ s.queue
def OnActor (s : Sys) (t : Nat) (a : Nat) : Prop := 0 < (s.act a).holdCount t
def WaitingOn (s : Sys) (t : Nat) (p : Nat) : Prop := (s.prom p).settled = none ∧ t ∈ (s.prom p).conts
def Finished (s : Sys) (t : Nat) : Prop := (s.prom t).settled ≠ none
def IsTask (s : Sys) (t : Nat) : Prop := (s.prom t).kind = .task

/-- `At s t l`: task t is at location l (physical reading of `Loc`) -/
def At (s : Sys) (t : Nat) : Loc → Prop
  | .none => False
  | .queued => Queued s t
  | .actor a => OnActor s t a
  | .waiting p => WaitingOn s t p
  | .finished => Finished s t

/-- nothing is in flight: empty queue and every goroutine idle or parked in AwaitSync on an unsettled promise -/
def Quiescent (s : Sys) : Prop :=
  s.queue = [] ∧ ∀ a, s.act a = .idle ∨ ∃ ret p, s.act a = .wait ret p ∧ (s.prom p).settled = none

/-- an enabled step that is not "an idle non-pool goroutine starts something new" -/
def Progress (N Q : Nat) (s : Sys) : Prop :=
  ∃ e s', Step N Q s e s' ∧ (s.act e.actor ≠ .idle ∨ ∃ a t, e = .deq a t)

/-- all pool workers are not parked in AwaitSync (`await` compiled to AWAIT_SYNC inside a plain
    function called from an async body parks the worker thread itself) -/
def NoWorkerSyncWait (N : Nat) (s : Sys) : Prop := ∀ a, a < N → ∀ ret p, s.act a ≠ .wait ret p

end Elk.Promise
