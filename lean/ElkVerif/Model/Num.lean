/-!
# Model of Elk's numeric comparison, equality and hashing (C18)

Mirrors, for a 64-bit build (`Int64`, `UInt64`, `Float64` are inline values):

* `value/value.go`        `CompareVal`, `GreaterThanVal` …, `LaxEqualVal`, `EqualVal`, `StrictEqualVal`, `Hash`
* `value/small_int.go`    `SmallInt.CompareVal/…/LaxEqual/StrictEqualVal/Hash`
* `value/big_int.go`      `BigInt.CompareVal/…/LaxEqual/Equal/Hash`
* `value/float.go`        `Float.CompareVal/…/LaxEqual/Equal/Hash`
* `value/big_float.go`    `BigFloat.CompareVal/…/LaxEqual/Equal/Hash`
* `value/strict_numeric.go` `StrictFloatLaxEqual`, `StrictSignedIntLaxEqual`, `StrictUnsignedIntLaxEqual`
* `value/int64.go` … `uint8.go`, `float64.go`, `float32.go`  same-kind comparison, `Equal`, `Hash`
* `value/exact_compare.go` `CmpInt64Float64`, `CmpUint64Float64`, `CmpBigIntFloat64` (the exact mixed comparisons)

Floats are bit patterns; their meaning is obtained by exact decoding into dyadic numbers `m·2^e`.
Go primitives that are exact on their domain (`int`/`uint` comparison, `big.Int.Cmp`, `big.Float.Cmp`
after exact `SetInt/SetInt64/SetUint64/SetFloat64`, IEEE `== < <= > >=` on float64/float32, the exact
widening `float64(float32)`) are modelled by exact comparison of the decoded values.
`xxhash` is uninterpreted: `hashBytes` is the byte stream written into the digest.
-/
namespace Elk.Num

/-! ## dyadic numbers `m·2^e` and extended values -/

structure Dy where
  m : Int
  e : Int
deriving DecidableEq, Repr

namespace Dy
def ofInt (i : Int) : Dy := ⟨i, 0⟩

/-- `a.m·2^(a.e-e)` with `e = min a.e b.e`: numerator of `a` over the common power of two -/
def numL (a b : Dy) : Int := a.m * 2 ^ (a.e - min a.e b.e).toNat
def numR (a b : Dy) : Int := b.m * 2 ^ (b.e - min a.e b.e).toNat

/-- sign of `a - b` (exact): -1, 0, 1 -/
def cmp (a b : Dy) : Int := Int.sign (numL a b - numR a b)

/-- integer part, truncated toward zero (`math.Trunc`) -/
def trunc (a : Dy) : Int :=
  if 0 ≤ a.e then a.m * 2 ^ a.e.toNat else Int.tdiv a.m (2 ^ (-a.e).toNat)
end Dy

/-- a number, an infinity, or NaN -/
inductive Ext
  | nan
  | ninf
  | fin (d : Dy)
  | pinf
deriving DecidableEq, Repr

namespace Ext
def isNaN : Ext → Bool
  | nan => true
  | _ => false

/-- exact three-way comparison; `none` iff a NaN is involved -/
def cmp : Ext → Ext → Option Int
  | nan, _ => none
  | _, nan => none
  | ninf, ninf => some 0
  | ninf, _ => some (-1)
  | _, ninf => some 1
  | pinf, pinf => some 0
  | pinf, _ => some 1
  | _, pinf => some (-1)
  | fin a, fin b => some (Dy.cmp a b)

def ofInt (i : Int) : Ext := fin (Dy.ofInt i)
end Ext

/-! ## IEEE-754 decoding -/

/-- binary64: sign(1) exponent(11) fraction(52) -/
def decode64 (bits : Nat) : Ext :=
  let neg : Bool := bits / 2 ^ 63 % 2 == 1
  let ex : Nat := bits / 2 ^ 52 % 2 ^ 11
  let fr : Nat := bits % 2 ^ 52
  if ex = 2047 then
    if fr = 0 then (if neg then .ninf else .pinf) else .nan
  else
    let mag : Int := if ex = 0 then Int.ofNat fr else Int.ofNat (2 ^ 52 + fr)
    let e : Int := if ex = 0 then -1074 else (ex : Int) - 1075
    .fin ⟨if neg then -mag else mag, e⟩

/-- binary32: sign(1) exponent(8) fraction(23) -/
def decode32 (bits : Nat) : Ext :=
  let neg : Bool := bits / 2 ^ 31 % 2 == 1
  let ex : Nat := bits / 2 ^ 23 % 2 ^ 8
  let fr : Nat := bits % 2 ^ 23
  if ex = 255 then
    if fr = 0 then (if neg then .ninf else .pinf) else .nan
  else
    let mag : Int := if ex = 0 then Int.ofNat fr else Int.ofNat (2 ^ 23 + fr)
    let e : Int := if ex = 0 then -149 else (ex : Int) - 150
    .fin ⟨if neg then -mag else mag, e⟩

/-! ## values -/

/-- `big.Float` as Elk uses it: NaN is a mode flag, otherwise ±Inf or `±m·2^e` with a precision -/
inductive BF
  | nan
  | inf (neg : Bool)
  | fin (prec : Nat) (neg : Bool) (m : Nat) (e : Int)
deriving DecidableEq, Repr

def BF.ext : BF → Ext
  | .nan => .nan
  | .inf true => .ninf
  | .inf false => .pinf
  | .fin _ neg m e => .fin ⟨if neg then -(m : Int) else m, e⟩

/-- the sized ("strict") integer kinds -/
inductive IK
  | i64 | i32 | i16 | i8 | u64 | u32 | u16 | u8 | ui
deriving DecidableEq, Repr

def IK.signed : IK → Bool
  | .i64 | .i32 | .i16 | .i8 => true
  | _ => false

def IK.bits : IK → Nat
  | .i64 | .u64 | .ui => 64
  | .i32 | .u32 => 32
  | .i16 | .u16 => 16
  | .i8 | .u8 => 8

def IK.lo (k : IK) : Int := if k.signed then -(2 ^ (k.bits - 1)) else 0
def IK.hi (k : IK) : Int := if k.signed then 2 ^ (k.bits - 1) - 1 else 2 ^ k.bits - 1

inductive Num
  | si (v : Int)            -- SmallInt (inline int64)
  | bi (v : Int)            -- *BigInt
  | f (bits : Nat)          -- Float
  | bf (x : BF)             -- *BigFloat
  | f64 (bits : Nat)        -- Float64
  | f32 (bits : Nat)        -- Float32
  | int (k : IK) (v : Int)  -- Int64 … UInt8, UInt
deriving DecidableEq, Repr

def Num.ext : Num → Ext
  | .si v | .bi v | .int _ v => .ofInt v
  | .f b | .f64 b => decode64 b
  | .f32 b => decode32 b
  | .bf x => x.ext

def Num.isNaN (a : Num) : Bool := a.ext.isNaN

/-- representation invariants: ranges of the fixed-width kinds, a `BigInt` does not fit a `SmallInt`
(`Normalize`), bit patterns have the right width -/
def wf : Num → Bool
  | .si v => decide (-(2 ^ 63) ≤ v ∧ v < 2 ^ 63)
  | .bi v => decide (v < -(2 ^ 63) ∨ 2 ^ 63 ≤ v)
  | .f b | .f64 b => decide (b < 2 ^ 64)
  | .f32 b => decide (b < 2 ^ 32)
  | .bf _ => true
  | .int k v => decide (k.lo ≤ v ∧ v ≤ k.hi)

/-- like `wf` but a `BigInt` may be un-normalised (the model of a representation bug, C06) -/
def wfLoose : Num → Bool
  | .bi _ => true
  | a => wf a

/-! ## the exact mixed comparisons of `value/exact_compare.go` -/

/-- `CmpInt64Float64(i, f)`, `f` not NaN. `f >= 2^63` and `f < -2^63` are float comparisons (exact);
in between `math.Trunc(f)` fits an int64, so `int64(t)` is exact. -/
def cmpI64F (i : Int) : Ext → Int
  | .nan => 0
  | .pinf => -1
  | .ninf => 1
  | .fin d =>
    if Dy.cmp d (Dy.ofInt (2 ^ 63)) ≥ 0 then -1
    else if Dy.cmp d (Dy.ofInt (-(2 ^ 63))) < 0 then 1
    else
      let t := d.trunc
      if i < t then -1
      else if i > t then 1
      else if Dy.cmp d (Dy.ofInt t) > 0 then -1
      else if Dy.cmp d (Dy.ofInt t) < 0 then 1
      else 0

/-- `CmpUint64Float64(u, f)`, `f` not NaN -/
def cmpU64F (u : Int) : Ext → Int
  | .nan => 0
  | .pinf => -1
  | .ninf => 1
  | .fin d =>
    if Dy.cmp d (Dy.ofInt (2 ^ 64)) ≥ 0 then -1
    else if Dy.cmp d (Dy.ofInt 0) < 0 then 1
    else
      let t := d.trunc
      if u < t then -1
      else if u > t then 1
      else if Dy.cmp d (Dy.ofInt t) > 0 then -1
      else 0

/-- `CmpBigIntFloat64(i, f)`, `f` not NaN: infinities first, then `big.Float.Cmp` of exact conversions -/
def cmpBigF (i : Int) : Ext → Int
  | .nan => 0
  | .pinf => -1
  | .ninf => 1
  | .fin d => Dy.cmp (Dy.ofInt i) d

/-- `EqInt64Float64`, `EqUint64Float64`, `EqBigIntFloat64`: `f == f && Cmp… == 0` -/
def eqI64F (i : Int) (x : Ext) : Bool := !x.isNaN && cmpI64F i x == 0
def eqU64F (u : Int) (x : Ext) : Bool := !x.isNaN && cmpU64F u x == 0
def eqBigF (i : Int) (x : Ext) : Bool := !x.isNaN && cmpBigF i x == 0

/-! ## ordering: `<=>`, `<`, `<=`, `>`, `>=` -/

inductive Res (α : Type)
  | ok (a : α)
  | err          -- TypeError "cannot be coerced"
deriving DecidableEq, Repr

/-- `X.CompareVal(other)` for every left kind `X`: `none` = `nil` (a NaN operand).

Rows `si`, `bi`: `SmallInt.CompareVal`, `BigInt.CompareVal` — `*BigInt` and `SmallInt` through `big.Int.Cmp`,
`*BigFloat` through `big.Float.Cmp` after the exact `SetInt64/SetInt`, `Float` through
`CmpInt64Float64/CmpBigIntFloat64` (NaN tested first).
Row `f`: `Float.CompareVal` — the integer cases are the negated mixed comparison, `Float` is IEEE.
Row `bf`: `BigFloat.CompareVal`.  Sized kinds compare with their own kind only. -/
def compareVal : Num → Num → Res (Option Int)
  | .si i, .si o | .si i, .bi o | .bi i, .si o | .bi i, .bi o => .ok (some (Int.sign (i - o)))
  | .si i, .bf o | .bi i, .bf o => .ok (Ext.cmp (.ofInt i) o.ext)
  | .si i, .f o => .ok (if (decode64 o).isNaN then none else some (cmpI64F i (decode64 o)))
  | .bi i, .f o => .ok (if (decode64 o).isNaN then none else some (cmpBigF i (decode64 o)))
  | .f x, .si o => .ok (if (decode64 x).isNaN then none else some (-(cmpI64F o (decode64 x))))
  | .f x, .bi o => .ok (if (decode64 x).isNaN then none else some (-(cmpBigF o (decode64 x))))
  | .f x, .f o => .ok (Ext.cmp (decode64 x) (decode64 o))
  | .f x, .bf o => .ok (Ext.cmp (decode64 x) o.ext)
  | .bf x, .si o | .bf x, .bi o => .ok (Ext.cmp x.ext (.ofInt o))
  | .bf x, .f o => .ok (Ext.cmp x.ext (decode64 o))
  | .bf x, .bf o => .ok (Ext.cmp x.ext o.ext)
  | .f64 x, .f64 o => .ok (Ext.cmp (decode64 x) (decode64 o))
  | .f32 x, .f32 o => .ok (Ext.cmp (decode32 x) (decode32 o))
  | .int k i, .int k' o => if k = k' then .ok (some (Int.sign (i - o))) else .err
  | _, _ => .err

inductive Ord5
  | lt | le | gt | ge
deriving DecidableEq, Repr

def Ord5.test : Ord5 → Int → Bool
  | .lt, c => c < 0
  | .le, c => c ≤ 0
  | .gt, c => c > 0
  | .ge, c => c ≥ 0

/-- `X.LessThan/LessThanEqual/GreaterThan/GreaterThanEqual(other)`: every one of these Go functions is the
corresponding test on the same exact comparison as `CompareVal` uses, `false` when a NaN is involved, and
the same `TypeError` cases (each function is tied separately by the correspondence run). -/
def rel (op : Ord5) (a b : Num) : Res Bool :=
  match compareVal a b with
  | .ok (some c) => .ok (op.test c)
  | .ok none => .ok false
  | .err => .err

/-! ## `=~` -/

/-- Go `int64(x)` of an integer value: wraps modulo 2^64 -/
def wrapI64 (x : Int) : Int := Int.bmod x (2 ^ 64)
def maxI64 : Int := 2 ^ 63 - 1

/-- IEEE `==` after exact widening: false with a NaN, ±0 equal -/
def ieeeEq (x y : Ext) : Bool := Ext.cmp x y == some 0

/-- `=~` of an integer receiver with a float/bigfloat right operand -/
def laxIntFloat (signedRecv : Bool) (i : Int) (x : Ext) : Bool :=
  if signedRecv then eqI64F i x else eqU64F i x

/-- `value.LaxEqualVal(left, right)` -/
def laxEq : Num → Num → Bool
  -- SmallInt.LaxEqual
  | .si i, .si o => i == o
  | .si i, .bi o => i == o                                   -- NewBigInt(i).Cmp(o) == 0
  | .si i, .bf o => !o.ext.isNaN && Ext.cmp (.ofInt i) o.ext == some 0
  | .si i, .f o | .si i, .f64 o => eqI64F i (decode64 o)
  | .si i, .f32 o => eqI64F i (decode32 o)
  | .si i, .int k o =>
    match k with
    | .i64 | .ui | .u64 => if o > maxI64 then false else i == wrapI64 o   -- `o > MaxSmallInt`
    | _ => i == o
  -- BigInt.LaxEqual: every integer through big.Int (unsigned ones through SetUint64)
  | .bi i, .si o | .bi i, .bi o | .bi i, .int _ o => i == o
  | .bi i, .bf o => !o.ext.isNaN && Ext.cmp (.ofInt i) o.ext == some 0
  | .bi i, .f o | .bi i, .f64 o => eqBigF i (decode64 o)
  | .bi i, .f32 o => eqBigF i (decode32 o)
  -- Float.LaxEqual
  | .f x, .si o => eqI64F o (decode64 x)
  | .f x, .bi o => eqBigF o (decode64 x)
  | .f x, .bf o => ieeeEq (decode64 x) o.ext
  | .f x, .f o | .f x, .f64 o => ieeeEq (decode64 x) (decode64 o)
  | .f x, .f32 o => ieeeEq (decode64 x) (decode32 o)
  | .f x, .int k o => laxIntFloat k.signed o (decode64 x)
  -- BigFloat.LaxEqual: NaN tests, then big.Float.Cmp against an exact conversion
  | .bf x, .si o | .bf x, .bi o | .bf x, .int _ o => !x.ext.isNaN && Ext.cmp x.ext (.ofInt o) == some 0
  | .bf x, .f o | .bf x, .f64 o => ieeeEq x.ext (decode64 o)
  | .bf x, .f32 o => ieeeEq x.ext (decode32 o)
  | .bf x, .bf o => ieeeEq x.ext o.ext
  -- StrictFloatLaxEqual[Float64]
  | .f64 x, .si o => eqI64F o (decode64 x)
  | .f64 x, .bi o => eqBigF o (decode64 x)
  | .f64 x, .bf o => ieeeEq (decode64 x) o.ext
  | .f64 x, .f o | .f64 x, .f64 o => ieeeEq (decode64 x) (decode64 o)
  | .f64 x, .f32 o => ieeeEq (decode64 x) (decode32 o)
  | .f64 x, .int k o => laxIntFloat k.signed o (decode64 x)
  -- StrictFloatLaxEqual[Float32]
  | .f32 x, .si o => eqI64F o (decode32 x)
  | .f32 x, .bi o => eqBigF o (decode32 x)
  | .f32 x, .bf o => ieeeEq (decode32 x) o.ext
  | .f32 x, .f o | .f32 x, .f64 o => ieeeEq (decode32 x) (decode64 o)
  | .f32 x, .f32 o => ieeeEq (decode32 x) (decode32 o)
  | .f32 x, .int k o => laxIntFloat k.signed o (decode32 x)
  -- StrictSignedIntLaxEqual / StrictUnsignedIntLaxEqual
  | .int _ l, .bi o => l == o                                 -- big.NewInt(int64(l)) / SetUint64(uint64(l))
  | .int _ l, .bf o => !o.ext.isNaN && Ext.cmp (.ofInt l) o.ext == some 0
  | .int k l, .f o | .int k l, .f64 o => laxIntFloat k.signed l (decode64 o)
  | .int k l, .f32 o => laxIntFloat k.signed l (decode32 o)
  | .int k l, .si o =>
    if k.signed then wrapI64 l == wrapI64 o
    else if l > maxI64 then false else wrapI64 l == wrapI64 o
  | .int k l, .int k' o =>
    if k.signed then
      -- signed receiver: unsigned 64-bit operands above MaxInt64 are never equal
      if (k' == .u64 || k' == .ui) && o > maxI64 then false else wrapI64 l == wrapI64 o
    else if k'.signed then
      if l > maxI64 then false else wrapI64 l == wrapI64 o
    else l == o

/-! ## `==` and `===` -/

/-- `value.IsA(right, left.Class())` for numeric values: `SmallInt` and `*BigInt` share `Std::Int` -/
def sameClass : Num → Num → Bool
  | .si _, .si _ | .si _, .bi _ | .bi _, .si _ | .bi _, .bi _ => true
  | .f _, .f _ | .bf _, .bf _ | .f64 _, .f64 _ | .f32 _, .f32 _ => true
  | .int k _, .int k' _ => k == k'
  | _, _ => false

/-- `X.StrictEqualVal(other)`: same kind (or SmallInt/BigInt) and equal; IEEE for the floats -/
def strictEq : Num → Num → Bool
  | .si i, .si o | .si i, .bi o | .bi i, .si o | .bi i, .bi o => i == o
  | .f x, .f o | .f64 x, .f64 o => ieeeEq (decode64 x) (decode64 o)
  | .f32 x, .f32 o => ieeeEq (decode32 x) (decode32 o)
  | .bf x, .bf o => ieeeEq x.ext o.ext                        -- EqualBigFloat: NaN tests, Cmp == 0
  | .int k i, .int k' o => k == k' && i == o
  | _, _ => false

/-- `value.EqualVal(left, right)`: class test first, then the receiver's `EqualVal` -/
def eqVal (a b : Num) : Bool := sameClass a b && strictEq a b

/-! ## `Hash`: the byte stream given to xxhash -/

/-- `n` bytes of `x`, little endian -/
def leBytes : Nat → Nat → List UInt8
  | 0, _ => []
  | n + 1, x => UInt8.ofNat (x % 256) :: leBytes n (x / 256)

/-- minimal big-endian bytes (`big.Int.Bytes`): empty for 0 -/
def beBytesAux : Nat → Nat → List UInt8 → List UInt8
  | 0, _, acc => acc
  | fuel + 1, x, acc => if x = 0 then acc else beBytesAux fuel (x / 256) (UInt8.ofNat (x % 256) :: acc)

def beBytes (x : Nat) : List UInt8 := beBytesAux (x + 1) x []

/-- `if f == 0 { f = 0 }`: the sign bit of a zero is cleared -/
def normZero (signBit : Nat) (bits : Nat) : Nat := if bits % 2 ^ signBit = 0 then 0 else bits

/-- number of binary digits (`big.Int.BitLen`), by structural recursion on a fuel -/
def bitLenAux : Nat → Nat → Nat → Nat
  | 0, _, acc => acc
  | fuel + 1, x, acc => if x = 0 then acc else bitLenAux fuel (x / 2) (acc + 1)

def bitLen (x : Nat) : Nat := bitLenAux (x + 1) x 0

/-- odd part and 2-adic valuation (fuel-indexed) -/
def stripTwos : Nat → Nat → Int → Nat × Int
  | 0, m, e => (m, e)
  | fuel + 1, m, e => if m % 2 = 0 ∧ m ≠ 0 then stripTwos fuel (m / 2) (e + 1) else (m, e)

def hexDigit (d : Nat) : Char := if d < 10 then Char.ofNat (48 + d) else Char.ofNat (87 + d)

def hexDigitsAux : Nat → Nat → List Char → List Char
  | 0, _, acc => acc
  | fuel + 1, x, acc => if x = 0 then acc else hexDigitsAux fuel (x / 16) (hexDigit (x % 16) :: acc)

def hexDigits (x : Nat) : List Char := hexDigitsAux (x + 1) x []

/-- canonical value of a finite non-zero BigFloat: sign, odd mantissa, exponent -/
def BF.canon (neg : Bool) (m : Nat) (e : Int) : Bool × Nat × Int :=
  let (m', e') := stripTwos (m + 1) m e
  (neg, m', e')

/-- `big.Float.Text('p', 0)` of a finite non-zero value: `[-]0x.<hex mantissa without trailing zeros>p±<exp>`
where the mantissa is normalised to `[0.5, 1)` -/
def bfText (neg : Bool) (m : Nat) (e : Int) : String :=
  let (_, m', e') := BF.canon neg m e
  let l := bitLen m'
  let pad := (4 - l % 4) % 4
  let ex : Int := e' + l
  (if neg then "-" else "") ++ "0x." ++ String.ofList (hexDigits (m' * 2 ^ pad)) ++ "p" ++
    (if ex ≥ 0 then "+" else "") ++ toString ex

/-- what `BigFloat.Hash` writes -/
def BF.hashText : BF → String
  | .nan => "NaN"
  | .inf true => "-Inf"
  | .inf false => "+Inf"
  | .fin _ neg m e => if m = 0 then "0" else bfText neg m e

def hashBytes : Num → List UInt8
  | .si v => leBytes 8 (v % 2 ^ 64).toNat
  | .bi v => beBytes v.natAbs
  | .f b | .f64 b => leBytes 8 (normZero 63 b)
  | .f32 b => leBytes 4 (normZero 31 b)
  | .bf x => x.hashText.toUTF8.toList
  | .int k v => leBytes (k.bits / 8) (v % 2 ^ k.bits).toNat

/-! ## the code before the `fix:` commits (kept for the witness theorems) -/

namespace Legacy
/-- Go `float64(int64)` / `big.Int.Float64`: round to nearest, ties to even, 53 bits (|i| < 2^1024) -/
def roundF64 (i : Int) : Ext :=
  let a := i.natAbs
  let n := bitLen a
  if n ≤ 53 then .fin ⟨i, 0⟩
  else
    let sh := n - 53
    let q := a / 2 ^ sh
    let r := a % 2 ^ sh
    let half := 2 ^ (sh - 1)
    let q' := if r > half ∨ (r = half ∧ q % 2 = 1) then q + 1 else q
    .fin ⟨if i < 0 then -(q' : Int) else q', sh⟩

/-- `SmallInt.LaxEqual` FLOAT case, `Float(i) == other` -/
def laxIntFloat (i : Int) (bits : Nat) : Bool := ieeeEq (roundF64 i) (decode64 bits)
/-- `SmallInt.GreaterThanFloat`, `Float(i) > other` -/
def gtIntFloat (i : Int) (bits : Nat) : Bool := Ext.cmp (roundF64 i) (decode64 bits) == some 1
/-- old `Float.Hash`: the raw bit pattern -/
def floatHashBytes (bits : Nat) : List UInt8 := leBytes 8 bits
end Legacy

end Elk.Num
