/-
Model of `value/symbol_table.go` (`SymbolTableStruct`): `nameTable map[string]Symbol`,
`idTable []string`, and the methods `Add`, `Get`, `GetName`, `ExistsId`, each of which runs under
the table's `sync.RWMutex` and is therefore one atomic step here.  A schedule of any number of
actors is a list of `(actor, operation)` pairs: the order in which the lock was taken.
The Go map is an association list with at most one pair per name (`add` only conses a name that
`lookup` did not find).  Core Lean only.
-/
namespace Elk.Symtab

structure Tab where
  nameTable : List (String × Nat)
  idTable : List String
deriving Repr, DecidableEq

def Tab.init : Tab := ⟨[], []⟩

/-- `nameTable[name]` -/
def lookup : List (String × Nat) → String → Option Nat
  | [], _ => none
  | (n, i) :: rest, name => if n = name then some i else lookup rest name

/-- `Add(name)`: idempotent interning -/
def add (t : Tab) (name : String) : Tab × Nat :=
  match lookup t.nameTable name with
  | some id => (t, id)
  | none => (⟨(name, t.idTable.length) :: t.nameTable, t.idTable ++ [name]⟩, t.idTable.length)

/-- `Get(name)`: `(-1, false)` is `none` -/
def get (t : Tab) (name : String) : Option Nat := lookup t.nameTable name

/-- `GetName(symbol)`; `Symbol` is a Go `int` -/
def getName (t : Tab) (id : Int) : Option String :=
  if id ≥ t.idTable.length ∨ id < 0 then none else t.idTable[id.toNat]?

/-- `ExistsId(symbol)`: `0 ≤ symbol < len(idTable)` -/
def existsId (t : Tab) (id : Int) : Bool := decide (id < t.idTable.length ∧ id ≥ 0)

inductive Op where
  | add (name : String)
  | get (name : String)
  | getName (id : Int)
  | existsId (id : Int)
deriving Repr, DecidableEq

inductive Res where
  | id (i : Nat)          -- Add / successful Get
  | notFound              -- Get of an unknown name, GetName of an unknown id
  | name (s : String)
  | bool (b : Bool)
deriving Repr, DecidableEq

def step (t : Tab) : Op → Tab × Res
  | .add n => let (t', i) := add t n; (t', .id i)
  | .get n => match get t n with
    | some i => (t, .id i)
    | none => (t, .notFound)
  | .getName i => match getName t i with
    | some s => (t, .name s)
    | none => (t, .notFound)
  | .existsId i => (t, .bool (existsId t i))

/-- an event of a history: who did what and got which answer -/
structure Event where
  actor : Nat
  op : Op
  res : Res
deriving Repr, DecidableEq

/-- run a schedule (the order in which the actors got the lock) -/
def runSched : Tab → List (Nat × Op) → Tab × List Event
  | t, [] => (t, [])
  | t, (a, op) :: rest =>
    let (t', r) := step t op
    let (t'', evs) := runSched t' rest
    (t'', ⟨a, op, r⟩ :: evs)

/-! ### certified history checker -/

/-- the `(name, id)` pairs a history claims: results of `Add`, successful `Get`, successful `GetName` -/
def pairsOf : List Event → List (String × Nat)
  | [] => []
  | ⟨_, .add n, .id i⟩ :: rest => (n, i) :: pairsOf rest
  | ⟨_, .get n, .id i⟩ :: rest => (n, i) :: pairsOf rest
  | ⟨_, .getName j, .name s⟩ :: rest => if j < 0 then pairsOf rest else (s, j.toNat) :: pairsOf rest
  | _ :: rest => pairsOf rest

/-- every pair of `ps` agrees with `(n, i)`: same name ⇔ same id -/
def agreesWith (n : String) (i : Nat) : List (String × Nat) → Bool
  | [] => true
  | (m, j) :: rest => (decide (n = m) == decide (i = j)) && agreesWith n i rest

def pairwiseOk : List (String × Nat) → Bool
  | [] => true
  | (n, i) :: rest => agreesWith n i rest && pairwiseOk rest

/-- shape of each answer: `Add` answers an id; `GetName` of a negative id finds nothing -/
def shapeOk : List Event → Bool
  | [] => true
  | ⟨_, .add _, .id _⟩ :: rest => shapeOk rest
  | ⟨_, .add _, _⟩ :: _ => false
  | ⟨_, .get _, .id _⟩ :: rest => shapeOk rest
  | ⟨_, .get _, .notFound⟩ :: rest => shapeOk rest
  | ⟨_, .get _, _⟩ :: _ => false
  | ⟨_, .getName j, .name _⟩ :: rest => decide (0 ≤ j) && shapeOk rest
  | ⟨_, .getName _, .notFound⟩ :: rest => shapeOk rest
  | ⟨_, .getName _, _⟩ :: _ => false
  | ⟨_, .existsId _, .bool _⟩ :: rest => shapeOk rest
  | ⟨_, .existsId _, _⟩ :: _ => false

/-- a name that some actor interned is never "not found" *by that same actor afterwards*, and an id it
obtained is afterwards known to it (per-actor program order is the only order a history records) -/
def laterOk : List Event → Bool
  | [] => true
  | ⟨a, .add n, .id i⟩ :: rest =>
    rest.all (fun e => !(e.actor == a) ||
      (match e.op, e.res with
       | .get m, .notFound => decide (m ≠ n)
       | .getName j, .notFound => decide (j ≠ i)
       | .existsId j, .bool false => decide (j ≠ i)
       | _, _ => true)) && laterOk rest
  | _ :: rest => laterOk rest

/-- `okSym h`: the recorded results are those of a bijective, stable interning -/
def okSym (h : List Event) : Bool := shapeOk h && pairwiseOk (pairsOf h) && laterOk h

end Elk.Symtab
