import ElkVerif.Model.Date
/-!
# Model of formatting and parsing (C22): `value/timescanner`, `Date.Format`, `ParseDate`,
`DateTime.Format` / `ParseDateTime` (directives of the default formats), `value/durationscanner`,
span `String` / `Parse…Span`.

Strings are ASCII `List Char` (the driver refuses non-ASCII input: those lines answer `unsupported`
and are never generated). Directives outside the modelled subset scan to `Tok.unmodelled` and make the
operation answer `unsupported` — they are *not* claimed.
-/
namespace Elk.DateFmt
open Elk.Date Elk.Civil

/-! ### decimal printing as `fmt.Fprintf` does it -/

def digitChar (n : Nat) : Char := Char.ofNat (48 + n % 10)

/-- decimal digits of a natural number, most significant first (fuel-indexed; `natDigits` gives enough fuel) -/
def natDigitsF : Nat → Nat → List Char
  | 0, _ => []
  | fuel + 1, n => if n < 10 then [digitChar n] else natDigitsF fuel (n / 10) ++ [digitChar n]

def natDigits (n : Nat) : List Char := natDigitsF (n + 1) n

/-- `%d` -/
def fmtD (n : Int) : List Char :=
  if n < 0 then '-' :: natDigits n.natAbs else natDigits n.natAbs

/-- `%0wd`: zeros after the sign up to total width `w` -/
def fmtZero (w : Nat) (n : Int) : List Char :=
  let ds := natDigits n.natAbs
  if n < 0 then '-' :: (List.replicate (w - 1 - ds.length) '0' ++ ds)
  else List.replicate (w - ds.length) '0' ++ ds

/-- `%wd`: spaces before the sign up to total width `w` -/
def fmtSpace (w : Nat) (n : Int) : List Char :=
  let s := fmtD n
  List.replicate (w - s.length) ' ' ++ s

inductive Pad | zero | space | none
  deriving DecidableEq, Repr

def fmtPad (p : Pad) (w : Nat) (n : Int) : List Char :=
  match p with
  | .zero => fmtZero w n
  | .space => fmtSpace w n
  | .none => fmtD n

/-! ### `timescanner` -/

inductive Tok
  | text (s : List Char) | percent | newline | tab
  | year (p : Pad) | century (p : Pad) | yearLastTwo (p : Pad) | month (p : Pad)
  | dayOfMonth (p : Pad) | dayOfYear (p : Pad)
  | hour (p : Pad) | minute (p : Pad) | second (p : Pad) | nanos (p : Pad)
  | isoDate | dateD | time24s | tzOffset | tzOffsetColon
  | invalid            -- INVALID_FORMAT_DIRECTIVE
  | unmodelled         -- a real directive outside the modelled subset
  deriving DecidableEq, Repr

/-- directive letters shared by the `%X`, `%-X` and `%_X` families that the model covers -/
def padded (p : Pad) : Char → Option Tok
  | 'Y' => some (.year p) | 'C' => some (.century p) | 'y' => some (.yearLastTwo p)
  | 'm' => some (.month p) | 'd' => some (.dayOfMonth p) | 'j' => some (.dayOfYear p)
  | 'H' => some (.hour p) | 'M' => some (.minute p) | 'S' => some (.second p)
  | 'N' => some (.nanos p)
  | _ => none

/-- one directive after a `%`; returns the token and the rest of the format -/
def scanDirective : List Char → Tok × List Char
  | '%' :: r => (.percent, r)
  | 'n' :: r => (.newline, r)
  | 't' :: r => (.tab, r)
  | ':' :: 'z' :: r => (.tzOffsetColon, r)
  | ':' :: r => (.invalid, r.drop 1)
  | '#' :: 'Z' :: r => (.unmodelled, r)
  | '#' :: r => (.invalid, r.drop 1)
  | '-' :: c :: r =>
    match padded .none c with
    | some t => (t, r)
    | none => if "ILGgVUW36912".toList.contains c then (.unmodelled, r) else (.invalid, r)
  | ['-'] => (.invalid, [])
  | '_' :: c :: r =>
    match padded .space c with
    | some t => (t, r)
    | none => if "ILGgVUW36912".toList.contains c then (.unmodelled, r) else (.invalid, r)
  | ['_'] => (.invalid, [])
  | '^' :: c :: r => if "BbPAac+".toList.contains c then (.unmodelled, r) else (.invalid, r)
  | ['^'] => (.invalid, [])
  | 'e' :: r => (.dayOfMonth .space, r)
  | 'z' :: r => (.tzOffset, r)
  | 'F' :: r => (.isoDate, r)
  | 'D' :: r => (.dateD, r)
  | 'T' :: r => (.time24s, r)
  | '9' :: 'N' :: r => (.nanos .zero, r)
  | '9' :: 's' :: r => (.unmodelled, r)
  | '9' :: r => (.invalid, r.drop 1)
  | c :: r =>
    match padded .zero c with
    | some t => (t, r)
    | none => if "BbhkIlpPsQLZAauwGgVUWcrR+3612".toList.contains c then (.unmodelled, r) else (.invalid, r)
  | [] => (.invalid, [])

/-- the whole format string as a token list (`Timescanner.Next` until `END_OF_FILE`); scanning stops
at the first invalid directive exactly as `Format`/`Parse` stop there. -/
def scanF : Nat → List Char → List Tok
  | 0, _ => []
  | _, [] => []
  | fuel + 1, '%' :: r =>
    let (t, r') := scanDirective r
    if t = .invalid then [t] else t :: scanF fuel r'
  | fuel + 1, c :: r =>
    let txt := c :: r.takeWhile (· ≠ '%')
    .text txt :: scanF fuel (r.dropWhile (· ≠ '%'))

def scan (s : List Char) : List Tok := scanF (s.length + 1) s

/-! ### `Date.Format` -/

inductive FErr | format | unsupported
  deriving DecidableEq, Repr

def dateYearDay (d : Date) : Int :=
  let t := d.toDateTime
  yearDay t.year t.month t.day

/-- one token of `Date.Format` -/
def fmtDateTok (d : Date) : Tok → Except FErr (List Char)
  | .text s => .ok s
  | .percent => .ok ['%'] | .newline => .ok ['\n'] | .tab => .ok ['\t']
  | .year p => .ok (fmtPad p 4 d.year)
  | .century p => .ok (fmtPad p 2 (quot d.year 100))
  | .yearLastTwo p => .ok (fmtPad p 2 (rem d.year 100))
  | .month p => .ok (fmtPad p 2 d.month)
  | .dayOfMonth p => .ok (fmtPad p 2 d.day)
  | .dayOfYear p => .ok (fmtPad p 3 (dateYearDay d))
  | .isoDate => .ok (fmtZero 4 d.year ++ '-' :: fmtZero 2 d.month ++ '-' :: fmtZero 2 d.day)
  | .dateD => .ok (fmtZero 2 d.month ++ '/' :: fmtZero 2 d.day ++ '/' :: fmtZero 2 (rem d.year 100))
  | .invalid => .error .format
  | .unmodelled => .error .unsupported
  | _ => .error .format       -- time directives: "unsupported date format directive"

def fmtToks (f : Tok → Except FErr (List Char)) : List Tok → Except FErr (List Char)
  | [] => .ok []
  | t :: ts => do
    let a ← f t
    let b ← fmtToks f ts
    pure (a ++ b)

/-- `Date.Format` -/
def formatDate (fmt : List Char) (d : Date) : Except FErr (List Char) :=
  fmtToks (fmtDateTok d) (scan fmt)

/-- `Date.String`: `Sprintf("%04d-%02d-%02d", …)` -/
def dateString (d : Date) : List Char :=
  fmtZero 4 d.year ++ '-' :: fmtZero 2 d.month ++ '-' :: fmtZero 2 d.day

/-! ### `ParseDate` -/

def isDigit (c : Char) : Bool := '0' ≤ c && c ≤ '9'

/-- the digit loop of `parseTemporalDigitsOk` from position `i` with accumulator `n` -/
def digitLoop (maxChars : Nat) : List Char → Nat → Nat → Nat × Nat × List Char
  | [], i, n => (i, n, [])
  | c :: r, i, n =>
    if i ≥ maxChars ∨ !isDigit c then (i, n, c :: r)
    else digitLoop maxChars r (i + 1) (n * 10 + (c.toNat - 48))

def spaceLoop (maxChars : Nat) : List Char → Nat → Nat × List Char
  | [], i => (i, [])
  | c :: r, i => if i < maxChars ∧ c = ' ' then spaceLoop maxChars r (i + 1) else (i, c :: r)

/-- `parseTemporalDigitsOk`: `none` is the `ok = false` answer. Note that consumed padding spaces count
as progress: `"  x"` space-padded parses as 0. -/
def parseDigits (s : List Char) (maxChars : Nat) (spacePadded : Bool) : Option (Nat × List Char) :=
  if s.isEmpty then none else
  let (i0, s0) := if spacePadded then spaceLoop maxChars s 0 else (0, s)
  let (i, n, rest) := digitLoop maxChars s0 i0 0
  if i = 0 then none else some (n, rest)

/-- `tmpDate` restricted to the modelled fields; `none` = flag not set -/
structure Tmp where
  century : Option Int := none
  year : Option Int := none
  month : Option Int := none
  day : Option Int := none
  dayOfYear : Option Int := none
  usedNow : Bool := false       -- the real code consulted the clock (answer not modelled)
  deriving Repr

/-- `parseTemporalMatchText` -/
def matchText (inp txt : List Char) : Option (List Char) :=
  if inp.length < txt.length then none
  else if inp.take txt.length = txt then some (inp.drop txt.length) else none

def spaceOf : Pad → Bool | .space => true | _ => false

def pYear (inp : List Char) (t : Tmp) (sp : Bool) : Option (List Char × Tmp) := do
  let (n, r) ← parseDigits inp 4 sp
  pure (r, { t with year := some n })

def pMonth (inp : List Char) (t : Tmp) (sp : Bool) : Option (List Char × Tmp) := do
  let (n, r) ← parseDigits inp 2 sp
  if n < 1 ∨ n > 12 then none else pure (r, { t with month := some n })

def pDay (inp : List Char) (t : Tmp) (sp : Bool) : Option (List Char × Tmp) := do
  let (n, r) ← parseDigits inp 2 sp
  if n > 31 then none else pure (r, { t with day := some n })

def pYearLastTwo (inp : List Char) (t : Tmp) (sp : Bool) : Option (List Char × Tmp) := do
  let (n, r) ← parseDigits inp 2 sp
  -- without a century the real code takes today's century
  let t := if t.century.isNone then { t with century := some 0, usedNow := true } else t
  pure (r, { t with year := some n })

/-- one token of `ParseDate`; `none` = some `FormatError` -/
def parseDateTok (inp : List Char) (t : Tmp) : Tok → Except FErr (List Char × Tmp)
  | .text s => match matchText inp s with | some r => .ok (r, t) | none => .error .format
  | .percent => match matchText inp ['%'] with | some r => .ok (r, t) | none => .error .format
  | .newline => match matchText inp ['\n'] with | some r => .ok (r, t) | none => .error .format
  | .tab => match matchText inp ['\t'] with | some r => .ok (r, t) | none => .error .format
  | .year p => match pYear inp t (spaceOf p) with | some x => .ok x | none => .error .format
  | .century p =>
    match parseDigits inp 2 (spaceOf p) with
    | some (n, r) => .ok (r, { t with century := some n })
    | none => .error .format
  | .yearLastTwo p => match pYearLastTwo inp t (spaceOf p) with | some x => .ok x | none => .error .format
  | .month p => match pMonth inp t (spaceOf p) with | some x => .ok x | none => .error .format
  | .dayOfMonth p => match pDay inp t (spaceOf p) with | some x => .ok x | none => .error .format
  | .dayOfYear p =>
    match parseDigits inp 3 (spaceOf p) with
    | some (n, r) => if n > 366 then .error .format else .ok (r, { t with dayOfYear := some n })
    | none => .error .format
  | .isoDate =>
    match (do
      let (r, t) ← pYear inp t false
      let r ← matchText r ['-']
      let (r, t) ← pMonth r t false
      let r ← matchText r ['-']
      pDay r t false) with
    | some x => .ok x | none => .error .format
  | .dateD =>
    match (do
      let (r, t) ← pMonth inp t false
      let r ← matchText r ['/']
      let (r, t) ← pDay r t false
      let r ← matchText r ['/']
      pYearLastTwo r t false) with
    | some x => .ok x | none => .error .format
  | .invalid => .error .format
  | .unmodelled => .error .unsupported
  | _ => .error .format

def parseToks : List Tok → List Char → Tmp → Except FErr Tmp
  | [], inp, t => if inp.isEmpty then .ok t else .error .format
  | tok :: ts, inp, t => do
    let (r, t') ← parseDateTok inp t tok
    parseToks ts r t'

/-- `constructDateFromTmp` for the modelled fields. `result` starts as the zero `Date` (year −2²²,
month 0, day 0); the order of the updates is the order in the Go function. -/
def construct (t : Tmp) : Date × Bool :=
  let c : Int := t.century.getD 0
  let r0 : Date := ⟨0⟩
  let r1 : Date := if t.century.isSome then makeDate (c * 100) r0.month r0.day else r0
  let r2 : Date := match t.year with | some y => makeDate (c * 100 + y) r1.month r1.day | none => r1
  let hasYear : Bool := t.century.isSome || t.year.isSome
  let r3 : Date := match t.dayOfYear with
    | some n => DateTime.date ((goDate r2.year 1 1 0 0 0 0).addTimeSpan (wrap64 ((n - 1) * nsPerDay)))
    | none => r2
  let r4 : Date := match t.month with | some m => makeDate r3.year m r3.day | none => r3
  let r5 : Date := match t.day with | some d => makeDate r4.year r4.month d | none => r4
  let r6 : Date := if r5.day = 0 ∧ t.month.isSome = true then makeDate r5.year r5.month 1 else r5
  -- without a year the real code takes the current year; a zero month/day are replaced by today's
  let usedNow : Bool := t.usedNow || !hasYear || decide (r6.month = 0) || decide (r6.day = 0)
  (r6.normalize (1, 1), usedNow)

inductive PRes | ok (d : Date) | now | err (e : FErr)
  deriving DecidableEq, Repr

/-- the end of `ParseDate`: build the date from the collected fields -/
def finishParse : Except FErr Tmp → PRes
  | .error e => .err e
  | .ok t => let (d, n) := construct t; if n then .now else .ok d

/-- `ParseDate` -/
def parseDate (fmt inp : List Char) : PRes := finishParse (parseToks (scan fmt) inp {})

/-! ### `DateTime` default format `%Y-%m-%d %H:%M:%S.%9N %:z` (UTC) -/

def defaultDateTimeFormat : List Char := "%Y-%m-%d %H:%M:%S.%9N %:z".toList
def defaultDateFormat : List Char := "%Y-%m-%d".toList

def fmtDateTimeTok (t : DateTime) : Tok → Except FErr (List Char)
  | .text s => .ok s
  | .percent => .ok ['%'] | .newline => .ok ['\n'] | .tab => .ok ['\t']
  | .year p => .ok (fmtPad p 4 t.year)
  | .century p => .ok (fmtPad p 2 (quot t.year 100))
  | .yearLastTwo p => .ok (fmtPad p 2 (rem t.year 100))
  | .month p => .ok (fmtPad p 2 t.month)
  | .dayOfMonth p => .ok (fmtPad p 2 t.day)
  | .dayOfYear p => .ok (fmtPad p 3 (yearDay t.year t.month t.day))
  | .hour p => .ok (fmtPad p 2 (t.tod / nsPerHour))
  | .minute p => .ok (fmtPad p 2 (t.tod / nsPerMinute % 60))
  | .second p => .ok (fmtPad p 2 (t.tod / nsPerSecond % 60))
  | .nanos p => .ok (fmtPad p 9 (t.tod % nsPerSecond))
  | .isoDate => .ok (fmtZero 4 t.year ++ '-' :: fmtZero 2 t.month ++ '-' :: fmtZero 2 t.day)
  | .tzOffsetColon => .ok "+00:00".toList
  | .tzOffset => .ok "+0000".toList
  | .invalid => .error .format
  | _ => .error .unsupported

def formatDateTime (fmt : List Char) (t : DateTime) : Except FErr (List Char) :=
  fmtToks (fmtDateTimeTok t) (scan fmt)

structure TmpT where
  date : Tmp := {}
  hour : Option Int := none
  minute : Option Int := none
  second : Option Int := none
  nanos : Option Int := none
  offset : Option Int := none     -- zone offset in ns
  deriving Repr

/-- `parseTemporalDigits` + range check, for hour/minute/second/nanosecond -/
def pField (inp : List Char) (w : Nat) (sp : Bool) (hi : Nat) : Option (Nat × List Char) := do
  let (n, r) ← parseDigits inp w sp
  if n > hi then none else pure (n, r)

/-- `parseDateTimeTimezoneOffset` -/
def pOffset (inp : List Char) (colon : Bool) : Option (Int × List Char) :=
  match inp with
  | [] => none
  | c :: r => do
    let sign : Int ← (if c = '+' then some 1 else if c = '-' then some (-1) else none)
    let (h, r) ← parseDigits r 2 false
    if h ≥ 24 then none
    let r ← (if colon then matchText r [':'] else some r)
    let (m, r) ← parseDigits r 2 false
    if m ≥ 60 then none
    pure (sign * (h * nsPerHour + m * nsPerMinute), r)

def parseDateTimeTok (inp : List Char) (t : TmpT) : Tok → Except FErr (List Char × TmpT)
  | .hour p => match pField inp 2 (spaceOf p) 23 with
      | some (n, r) => .ok (r, { t with hour := some n }) | none => .error .format
  | .minute p => match pField inp 2 (spaceOf p) 59 with
      | some (n, r) => .ok (r, { t with minute := some n }) | none => .error .format
  | .second p => match pField inp 2 (spaceOf p) 59 with
      | some (n, r) => .ok (r, { t with second := some n }) | none => .error .format
  | .nanos p => match pField inp 9 (spaceOf p) 999999999 with
      | some (n, r) => .ok (r, { t with nanos := some n }) | none => .error .format
  | .tzOffsetColon => match pOffset inp true with
      | some (o, r) => .ok (r, { t with offset := some o }) | none => .error .format
  | .tzOffset => match pOffset inp false with
      | some (o, r) => .ok (r, { t with offset := some o }) | none => .error .format
  | .time24s => .error .unsupported
  | tok => match parseDateTok inp t.date tok with
      | .ok (r, d) => .ok (r, { t with date := d })
      | .error e => .error e

def parseToksT : List Tok → List Char → TmpT → Except FErr TmpT
  | [], inp, t => if inp.isEmpty then .ok t else .error .format
  | tok :: ts, inp, t => do
    let (r, t') ← parseDateTimeTok inp t tok
    parseToksT ts r t'

inductive PResT | ok (t : DateTime) | now | err (e : FErr)
  deriving DecidableEq, Repr

/-- `ParseDateTime`: `constructDateFromTmp`, `constructTimeFromTmp` (each present field is added, then
`Normalise`), `MakeDateTimeFromDateAndTime` in the parsed zone -/
def parseDateTime (fmt inp : List Char) : PResT :=
  match parseToksT (scan fmt) inp {} with
  | .error e => .err e
  | .ok t =>
    let (d, n) := construct t.date
    if n then .now else
    let tod := timeNormalise (t.hour.getD 0 * nsPerHour + t.minute.getD 0 * nsPerMinute
      + t.second.getD 0 * nsPerSecond + t.nanos.getD 0)
    .ok (goDate d.year d.month d.day 0 0 0 0 + tod - t.offset.getD 0)

/-! ### `durationscanner` and span strings -/

inductive Unit' | Y | M | D | h | m | s | ms | us | ns
  deriving DecidableEq, Repr

/-- a scanned component: integer lexeme (sign and digits) and unit; float components are outside the model -/
inductive DTok | comp (neg : Bool) (digits : List Char) (u : Unit') | float | error
  deriving DecidableEq, Repr

/-- `consumeDigits`: at most one `_` is skipped before each digit (and one may be swallowed at the end) -/
def consumeDigits : Nat → List Char → List Char × List Char
  | 0, s => ([], s)
  | fuel + 1, s =>
    let s1 := match s with | '_' :: r => r | _ => s
    match s1 with
    | c :: r => if isDigit c then let (ds, rest) := consumeDigits fuel r; (c :: ds, rest) else ([], s1)
    | [] => ([], [])

def unitOf : List Char → Option (Unit' × List Char)
  | 'Y' :: r => some (.Y, r) | 'M' :: r => some (.M, r) | 'D' :: r => some (.D, r)
  | 'h' :: r => some (.h, r)
  | 'm' :: 's' :: r => some (.ms, r) | 'm' :: r => some (.m, r)
  | 's' :: r => some (.s, r)
  | 'u' :: 's' :: r => some (.us, r) | 'µ' :: 's' :: r => some (.us, r) | 'μ' :: 's' :: r => some (.us, r)
  | 'n' :: 's' :: r => some (.ns, r)
  | _ => none

/-- `Durationscanner.scan` + `numericComponent` for one component starting at a non-space char -/
def scanComp (c : Char) (r : List Char) : DTok × List Char :=
  if c = '.' then (.float, [])
  else if c = '-' then
    match r with
    | d :: _ =>
      if isDigit d then
        let (ds, rest) := consumeDigits (r.length + 1) r
        match rest with
        | '.' :: _ => (.float, [])
        | _ => match unitOf rest with
          | some (u, rest') => (.comp true ds u, rest')
          | none => (.error, [])
      else (.error, [])
    | [] => (.error, [])
  else if isDigit c then
    let (ds, rest) := consumeDigits (r.length + 1) r
    match rest with
    | '.' :: _ => (.float, [])
    | _ => match unitOf rest with
      | some (u, rest') => (.comp false (c :: ds) u, rest')
      | none => (.error, [])
  else (.error, [])

def isSpace (c : Char) : Bool := c = ' ' || c = '\t' || c = '\n' || c = '\r' || c.toNat = 11 || c.toNat = 12

def scanDur : Nat → List Char → List DTok
  | 0, _ => []
  | _, [] => []
  | fuel + 1, c :: r =>
    if isSpace c then scanDur fuel r
    else
      let (t, rest) := scanComp c r
      match t with
      | .comp .. => t :: scanDur fuel rest
      | _ => [t]

def digitsVal (ds : List Char) : Nat := ds.foldl (fun a c => a * 10 + (c.toNat - 48)) 0

/-- `ParseBigInt(lexeme).ToSmallInt()`: the decimal value wrapped to `int64` -/
def compVal (neg : Bool) (ds : List Char) : Int :=
  wrap64 (if neg then -(digitsVal ds : Int) else digitsVal ds)

/-- `DateSpan.String` -/
def dateSpanString (s : DateSpan) : List Char :=
  let years := quot s.months 12
  let months := rem s.months 12
  let a := if years ≠ 0 then fmtD years ++ ['Y'] else []
  let b := if months ≠ 0 then (if a.isEmpty then [] else [' ']) ++ fmtD months ++ ['M'] else []
  let ab := a ++ b
  let c := if s.days ≠ 0 ∨ (s.months = 0 ∧ s.days = 0) then (if ab.isEmpty then [] else [' ']) ++ fmtD s.days ++ ['D'] else []
  ab ++ c

inductive SRes (α : Type) | ok (a : α) | err | unsupported
  deriving Repr

/-- `ParseDateSpan` -/
def parseDateSpan (inp : List Char) : SRes DateSpan :=
  let rec go : List DTok → DateSpan → SRes DateSpan
    | [], acc => .ok acc
    | .comp neg ds .Y :: ts, acc => go ts ⟨wrap32 (acc.months + wrap32 (wrap32 (compVal neg ds) * 12)), acc.days⟩
    | .comp neg ds .M :: ts, acc => go ts ⟨wrap32 (acc.months + wrap32 (compVal neg ds)), acc.days⟩
    | .comp neg ds .D :: ts, acc => go ts ⟨acc.months, wrap32 (acc.days + wrap32 (compVal neg ds))⟩
    | .comp .. :: _, _ => .err          -- "undefined date span token"
    | .float :: _, _ => .unsupported
    | .error :: _, _ => .err
  go (scanDur (inp.length + 1) inp) ⟨0, 0⟩

def appendComp (buf : List Char) (v : Int) (u : List Char) : List Char :=
  if v ≠ 0 then buf ++ (if buf.isEmpty then [] else [' ']) ++ fmtD v ++ u else buf

/-- `TimeSpan.String` -/
def timeSpanString (t : Int) : List Char :=
  if t = 0 then "0s".toList else
  let b := appendComp [] (quot t nsPerHour) ['h']
  let b := appendComp b (rem (quot t nsPerMinute) 60) ['m']
  let b := appendComp b (rem (quot t nsPerSecond) 60) ['s']
  let b := appendComp b (rem (quot t 1000000) 1000) ['m', 's']
  let b := appendComp b (rem (quot t 1000) 1000) ['µ', 's']
  appendComp b (rem t 1000) ['n', 's']

def unitNs : Unit' → Option Int
  | .h => some nsPerHour | .m => some nsPerMinute | .s => some nsPerSecond
  | .ms => some 1000000 | .us => some 1000 | .ns => some 1
  | _ => none

/-- `ParseTimeSpan`: every component is an `int64` product added to an `int64` sum -/
def parseTimeSpan (inp : List Char) : SRes Int :=
  let rec go : List DTok → Int → SRes Int
    | [], acc => .ok acc
    | .comp neg ds u :: ts, acc =>
      match unitNs u with
      | some k => go ts (wrap64 (acc + wrap64 (compVal neg ds * k)))
      | none => .err
    | .float :: _, _ => .unsupported
    | .error :: _, _ => .err
  go (scanDur (inp.length + 1) inp) 0

/-- `DateTimeSpan.String` -/
def dateTimeSpanString (s : DateTimeSpan) : List Char :=
  if s.date.months = 0 ∧ s.date.days = 0 ∧ s.time = 0 then "0D".toList else
  let a := if s.date.months = 0 ∧ s.date.days = 0 then [] else dateSpanString s.date
  if s.time ≠ 0 then a ++ (if a.isEmpty then [] else [' ']) ++ timeSpanString s.time else a

/-- `ParseDateTimeSpan`: sums the components, then `Normalise` -/
def parseDateTimeSpan (inp : List Char) : SRes DateTimeSpan :=
  let rec go : List DTok → DateTimeSpan → SRes DateTimeSpan
    | [], acc => .ok acc.normalise
    | .comp neg ds .Y :: ts, acc =>
      go ts ⟨⟨wrap32 (acc.date.months + wrap32 (wrap32 (compVal neg ds) * 12)), acc.date.days⟩, acc.time⟩
    | .comp neg ds .M :: ts, acc => go ts ⟨⟨wrap32 (acc.date.months + wrap32 (compVal neg ds)), acc.date.days⟩, acc.time⟩
    | .comp neg ds .D :: ts, acc => go ts ⟨⟨acc.date.months, wrap32 (acc.date.days + wrap32 (compVal neg ds))⟩, acc.time⟩
    | .comp neg ds u :: ts, acc =>
      match unitNs u with
      | some k => go ts ⟨acc.date, wrap64 (acc.time + wrap64 (compVal neg ds * k))⟩
      | none => .err
    | .float :: _, _ => .unsupported
    | .error :: _, _ => .err
  go (scanDur (inp.length + 1) inp) ⟨⟨0, 0⟩, 0⟩

end Elk.DateFmt
