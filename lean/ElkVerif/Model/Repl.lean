/-
Model of the REPL loop (C27): `repl/repl.go evaluate` + `Checker.CheckSource` (checker.go:374-413)
+ `Thread.InterpretREPL` (vm/thread.go:95-114).

```go
func (c *Checker) CheckSource(name, source) (Compiler, DiagnosticList) {
    envCopy            := c.runtimeEnv.DeepCopyEnv()                 // snapshot …
    localEnvsCopy      := c.deepCopyLocalEnvs(c.runtimeEnv, envCopy)
    constantScopesCopy := c.deepCopyConstantScopes(c.runtimeEnv, envCopy)
    methodScopesCopy   := c.deepCopyMethodScopes(c.runtimeEnv, envCopy)
    … reset per-input work lists …
    compiler := c.CheckProgram(ast)                                  // check (mutates the state as it goes)
    if c.Errors.IsFailure() {                                        // … restore on failure
        c.setRuntimeGlobalEnv(envCopy); c.localEnvs = localEnvsCopy
        c.constantScopes = constantScopesCopy; c.methodScopes = methodScopesCopy
    }
    …
}
```
`evaluate` runs the compiled function with `InterpretREPL` only when there was no failure.

The model is generic in the checker: a *machine* has a state, a `check` that may dirty the state
before it reports failure, and a snapshot/restore pair. The state is split the way the code splits
it: the four snapshotted components (`Snap`: global environment, local environments, constant
scopes, method scopes) and everything else a `Checker` + VM carry (`Rest`: flags, mode, return and
throw context, placeholders, compiler scopes, VM stack, …) which `CheckSource` does NOT restore.
Core Lean only.
-/
namespace Elk.Repl

/-- checker+VM state: snapshotted part and the rest -/
structure St (Snap Rest : Type) where
  snap : Snap
  rest : Rest

/-- result of checking (and, if accepted, running) one input on a state -/
structure Step (Snap Rest Out : Type) where
  st : St Snap Rest          -- state after (possibly partial) checking / after running
  failed : Bool              -- `c.Errors.IsFailure()`
  out : Out                  -- what the input printed (meaningful when accepted)

/-- a REPL machine -/
structure Machine (Snap Rest Src Out : Type) where
  /-- `CheckProgram` followed (on success) by `InterpretREPL` -/
  check : St Snap Rest → Src → Step Snap Rest Out

variable {Snap Rest Src Out : Type}

/-- `CheckSource` + `evaluate` as coded: snapshot the four components, check, and on failure put
the four components back (the rest stays as the failed check left it). `none` = rejected. -/
def input (M : Machine Snap Rest Src Out) (s : St Snap Rest) (src : Src) : St Snap Rest × Option Out :=
  let copy := s.snap
  let r := M.check s src
  if r.failed then ({ snap := copy, rest := r.st.rest }, none) else (r.st, some r.out)

/-- a session: the list of per-input results -/
def session (M : Machine Snap Rest Src Out) : St Snap Rest → List Src → List (Option Out)
  | _, [] => []
  | s, src :: rest =>
    let (s', o) := input M s src
    o :: session M s' rest

/-- final state of a session -/
def sessionState (M : Machine Snap Rest Src Out) : St Snap Rest → List Src → St Snap Rest
  | s, [] => s
  | s, src :: rest => sessionState M (input M s src).1 rest

/-- the inputs of a history that the session accepts -/
def acceptedInputs (M : Machine Snap Rest Src Out) : St Snap Rest → List Src → List Src
  | _, [] => []
  | s, src :: rest =>
    let (s', o) := input M s src
    match o with
    | some _ => src :: acceptedInputs M s' rest
    | none => acceptedInputs M s' rest

/-- outputs of the accepted inputs, in order -/
def acceptedOutputs (M : Machine Snap Rest Src Out) (s : St Snap Rest) (h : List Src) : List Out :=
  (session M s h).filterMap id

/-- **The snapshot is complete** for a machine: a failing check leaves the un-snapshotted rest of
the state as it found it. This is the hypothesis the real checker is TESTED against. -/
def RestUntouchedOnFailure (M : Machine Snap Rest Src Out) : Prop :=
  ∀ s src, (M.check s src).failed = true → (M.check s src).st.rest = s.rest

/-- batch run of a list of inputs as ONE program: the machine's sources can be concatenated and
checking a concatenation is checking the parts in sequence (top-level items are processed in
order; an accepted prefix does not change how the rest is treated) -/
structure Sequential (M : Machine Snap Rest Src (List Out)) (cat : Src → Src → Src) (empty : Src) : Prop where
  check_empty : ∀ s, (M.check s empty).failed = false ∧ (M.check s empty).st = s ∧ (M.check s empty).out = []
  check_cat : ∀ s a b, (M.check s a).failed = false →
    (M.check s (cat a b)).failed = (M.check (M.check s a).st b).failed ∧
    (M.check s (cat a b)).st = (M.check (M.check s a).st b).st ∧
    (M.check s (cat a b)).out = (M.check s a).out ++ (M.check (M.check s a).st b).out

/-! ### a small concrete machine (non-vacuity; also used by the driver) -/

namespace Mini

/-- items of an input: definitions and uses over three name spaces -/
inductive Item where
  | defConst (n : Nat) (v : Int)      -- introduces a constant / class
  | defMethod (n : Nat) (v : Int)     -- introduces or redefines a method returning v
  | defLocal (n : Nat) (v : Int)      -- `x := v`
  | useConst (n : Nat)                -- prints the constant; error if undefined
  | useMethod (n : Nat)
  | useLocal (n : Nat)
  | bad                               -- an ill-typed item
deriving DecidableEq, Repr

abbrev Tbl := List (Nat × Int)

def get (t : Tbl) (n : Nat) : Option Int :=
  match t with
  | [] => none
  | (m, v) :: r => if m = n then some v else get r n

def set (t : Tbl) (n : Nat) (v : Int) : Tbl :=
  match t with
  | [] => [(n, v)]
  | (m, w) :: r => if m = n then (n, v) :: r else (m, w) :: set r n v

/-- snapshotted components: (constants, methods, locals) -/
structure Env where
  consts : Tbl
  methods : Tbl
  locals : Tbl
deriving DecidableEq, Repr

/-- un-snapshotted rest: a counter of checked items (stands for compiler/VM side state) -/
abbrev Side := Nat

/-- one item: definitions are introduced as checking goes, uses of undefined names are errors
(checking continues after an error, as the real checker does) -/
def stepItem (s : St Env Side) (it : Item) : St Env Side × Bool × Option Int :=
  match it with
  | .defConst n v => ({ s with snap := { s.snap with consts := set s.snap.consts n v } }, false, none)
  | .defMethod n v => ({ s with snap := { s.snap with methods := set s.snap.methods n v } }, false, none)
  | .defLocal n v => ({ s with snap := { s.snap with locals := set s.snap.locals n v } }, false, none)
  | .useConst n =>
    match get s.snap.consts n with
    | some v => (s, false, some v)
    | none => (s, true, none)
  | .useMethod n =>
    match get s.snap.methods n with
    | some v => (s, false, some v)
    | none => (s, true, none)
  | .useLocal n =>
    match get s.snap.locals n with
    | some v => (s, false, some v)
    | none => (s, true, none)
  | .bad => (s, true, none)

/-- all items of an input: (state, failed, printed lines) -/
def runItems : St Env Side → List Item → St Env Side × Bool × List Int
  | s, [] => (s, false, [])
  | s, it :: rest =>
    let (s1, f1, o1) := stepItem s it
    let (s2, f2, o2) := runItems s1 rest
    (s2, f1 || f2, o1.toList ++ o2)

def checkItems (s : St Env Side) (items : List Item) : Step Env Side (List Int) :=
  let (s', f, o) := runItems s items
  ⟨s', f, o⟩

/-- the machine whose snapshot is complete -/
def machine : Machine Env Side (List Item) (List Int) where
  check := fun s items => checkItems s items

/-- a machine that also counts checked inputs in the un-snapshotted rest — the shape of a missed
piece of state -/
def leakyMachine : Machine Env Side (List Item) (List Int) where
  check := fun s items =>
    let r := checkItems s items
    { r with st := { r.st with rest := r.st.rest + 1 } }

def init : St Env Side := ⟨⟨[], [], []⟩, 0⟩

end Mini

end Elk.Repl
