/-
Go's `unicode/utf8` over byte lists (shared by C19, C20, C04).

Mirrors `utf8.DecodeRune` / `DecodeRuneInString`, `utf8.EncodeRune` / `AppendRune` /
`strings.Builder.WriteRune`, `utf8.DecodeLastRuneInString`, `utf8.RuneCountInString`, `utf8.RuneLen`.
Runes are `Nat` here (`Int` wrappers for Go's signed `rune` are at the end). Bit operations of the
Go code are written arithmetically (`(b0 & 0x1F) << 6 | (b1 & 0x3F)` = `(b0-0xC0)*64 + (b1-0x80)`
under the range tests that guard them) so that `omega` can reason about them; the correspondence
run compares with the real functions on every code point and on generated invalid sequences.
Core Lean only.
-/
namespace Elk.Utf8

abbrev Bytes := List UInt8

/-- `utf8.RuneError` -/
def runeError : Nat := 0xFFFD
/-- `utf8.MaxRune` -/
def maxRune : Nat := 0x10FFFF

/-- a Unicode scalar value: what a *valid* UTF-8 sequence can encode -/
def ValidScalar (r : Nat) : Prop := r < 0xD800 ∨ (0xDFFF < r ∧ r ≤ 0x10FFFF)

instance (r : Nat) : Decidable (ValidScalar r) := by unfold ValidScalar; exact inferInstance

@[inline] def byte (n : Nat) : UInt8 := UInt8.ofNat n

/-- continuation byte `10xxxxxx` (Go: `locb ≤ b ≤ hicb`) -/
def isCont (b : UInt8) : Bool := 0x80 ≤ b.toNat && b.toNat ≤ 0xBF

/-- lower bound of the accept range of the second byte (Go `acceptRanges`) -/
def lo2 (x : Nat) : Nat := if x = 0xE0 then 0xA0 else if x = 0xF0 then 0x90 else 0x80
/-- upper bound of the accept range of the second byte -/
def hi2 (x : Nat) : Nat := if x = 0xED then 0x9F else if x = 0xF4 then 0x8F else 0xBF

/-- `utf8.DecodeRune`: `(rune, width)`. Width 0 only for the empty input; `(RuneError, 1)` for
every byte that does not start a well-formed shortest-form sequence (stray continuation bytes,
`C0 C1 F5..FF`, truncated sequences, overlongs, surrogates, > U+10FFFF). -/
def decodeRune : Bytes → Nat × Nat
  | [] => (runeError, 0)
  | b0 :: rest =>
    let x := b0.toNat
    if x < 0x80 then (x, 1)
    else if x < 0xC2 then (runeError, 1)
    else if x < 0xE0 then
      match rest with
      | b1 :: _ =>
        if isCont b1 then ((x - 0xC0) * 64 + (b1.toNat - 0x80), 2) else (runeError, 1)
      | [] => (runeError, 1)
    else if x < 0xF0 then
      match rest with
      | b1 :: b2 :: _ =>
        if lo2 x ≤ b1.toNat && b1.toNat ≤ hi2 x && isCont b2 then
          ((x - 0xE0) * 4096 + (b1.toNat - 0x80) * 64 + (b2.toNat - 0x80), 3)
        else (runeError, 1)
      | _ => (runeError, 1)
    else if x < 0xF5 then
      match rest with
      | b1 :: b2 :: b3 :: _ =>
        if lo2 x ≤ b1.toNat && b1.toNat ≤ hi2 x && isCont b2 && isCont b3 then
          ((x - 0xF0) * 262144 + (b1.toNat - 0x80) * 4096 + (b2.toNat - 0x80) * 64 + (b3.toNat - 0x80), 4)
        else (runeError, 1)
      | _ => (runeError, 1)
    else (runeError, 1)

/-- `utf8.EncodeRune` / `AppendRune` / `WriteRune`: surrogates and runes above `MaxRune` are
written as U+FFFD. -/
def encodeRune (r : Nat) : Bytes :=
  if r < 0x80 then [byte r]
  else if r < 0x800 then [byte (0xC0 + r / 64), byte (0x80 + r % 64)]
  else if (0xD800 ≤ r ∧ r ≤ 0xDFFF) ∨ 0x10FFFF < r then [0xEF, 0xBF, 0xBD]
  else if r < 0x10000 then [byte (0xE0 + r / 4096), byte (0x80 + r / 64 % 64), byte (0x80 + r % 64)]
  else [byte (0xF0 + r / 262144), byte (0x80 + r / 4096 % 64), byte (0x80 + r / 64 % 64), byte (0x80 + r % 64)]

/-- Go's `rune` is a signed 32-bit integer: negative runes are written as U+FFFD. -/
def encodeRuneInt (r : Int) : Bytes := if r < 0 then [0xEF, 0xBF, 0xBD] else encodeRune r.toNat

/-- `utf8.RuneLen` (-1 for surrogates / out of range) -/
def runeLen (r : Int) : Int :=
  if r < 0 then -1 else if r < 0x80 then 1 else if r < 0x800 then 2
  else if 0xD800 ≤ r ∧ r ≤ 0xDFFF then -1 else if r < 0x10000 then 3
  else if r ≤ 0x10FFFF then 4 else -1

/-- `utf8.RuneStart` -/
def runeStart (b : UInt8) : Bool := !(isCont b)

/-! ### decoding a whole string -/

theorem decodeRune_width_le (bs : Bytes) : (decodeRune bs).2 ≤ bs.length := by
  unfold decodeRune
  split
  · simp
  · rename_i b0 rest
    simp only []
    repeat' split
    all_goals simp_all <;> omega

theorem decodeRune_width_pos (bs : Bytes) (h : bs ≠ []) : 1 ≤ (decodeRune bs).2 := by
  unfold decodeRune
  split
  · exact absurd rfl h
  · simp only []
    repeat' split
    all_goals simp

/-- the (rune, width) pieces the char iterator / `for range` / `DecodeRune` loops walk through -/
def pieces (bs : Bytes) : List (Nat × Nat) :=
  match bs with
  | [] => []
  | b :: rest =>
    let p := decodeRune (b :: rest)
    p :: pieces ((b :: rest).drop p.2)
termination_by bs.length
decreasing_by
  have h1 := decodeRune_width_pos (b :: rest) (by simp)
  have h2 := decodeRune_width_le (b :: rest)
  simp only [List.length_drop, List.length_cons] at *
  omega

/-- the runes a `for _, r := range s` loop / the char iterator yields (U+FFFD for invalid bytes) -/
def runes (bs : Bytes) : List Nat := (pieces bs).map (·.1)

/-- `utf8.RuneCountInString` -/
def runeCount (bs : Bytes) : Nat := (pieces bs).length

/-- `utf8.ValidString` -/
def valid (bs : Bytes) : Bool := (pieces bs).all fun p => !(p.1 == runeError && p.2 == 1)

/-- `utf8.DecodeLastRuneInString`. The Go loop `for start--; start >= lim; start--` looks at the
positions `end-2, end-3, end-4` (those that exist) for a rune start; when none is one, `start`
ends at `lim-1` (clipped to 0). -/
def lastStart (bs : Bytes) : Nat :=
  let e := bs.length
  match ([2, 3, 4].filter (· ≤ e)).find? (fun k => runeStart (bs.getD (e - k) 0)) with
  | some k => e - k
  | none => (e - 4) - 1

def decodeLastRune (bs : Bytes) : Nat × Nat :=
  let e := bs.length
  if e = 0 then (runeError, 0)
  else
    let last := (bs.getD (e - 1) 0).toNat
    if last < 0x80 then (last, 1)
    else
      let start := lastStart bs
      let p := decodeRune (bs.drop start)
      if start + p.2 ≠ e then (runeError, 1) else p

end Elk.Utf8
