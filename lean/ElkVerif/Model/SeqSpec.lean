import ElkVerif.Model.Seq
/-
The *specification* machine for C24: the state is a plain list of sequences (one per list object,
with its capacity counter — capacity is Elk-visible); there is no heap, no sharing.  Every
operation touches exactly the object it names.  `Props/C24.lean` proves that the heap-of-slices
model of the Go code (`Model/Seq.lean`) refines this machine for every slice-free history.
-/
namespace Elk.Seq

structure AL where
  xs : List Val
  cap : Nat
deriving DecidableEq, Repr

/-- capacity after `append` of `k` more elements (`g` = growslice policy) -/
def appendCap (g : Nat → Nat → Nat) (len cap k : Nat) : Nat :=
  if len + k ≤ cap then cap else max (g cap (len + k)) (len + k)

def apush (g : Nat → Nat → Nat) (al : AL) (ys : List Val) : AL :=
  ⟨al.xs ++ ys, appendCap g al.xs.length al.cap ys.length⟩

def apushEach (g : Nat → Nat → Nat) : AL → List Val → AL
  | al, [] => al
  | al, y :: ys => apushEach g (apush g al [y]) ys

/-- the target object of an operation (the only one it may change), if it has one -/
def Op.target : Op → Option Nat
  | .push o _ | .pushEach o _ | .set o _ _ | .rme o _ | .rm o _ | .grow o _ | .exp o _ | .apat o _ _ | .vrem o _ => some o
  | _ => none

def astep (g : Nat → Nat → Nat) (A : List AL) : Op → List AL × Ans
  | .new cap => (A ++ [⟨[], cap⟩], .obj A.length)
  | .lit cap xs => (A ++ [⟨xs, xs.length + cap⟩], .obj A.length)
  | .wlen n => (A ++ [⟨List.replicate n Val.undef, n⟩], .obj A.length)
  | .push o ys =>
    match A[o]? with
    | none => (A, .bad)
    | some al => (A.set o (apush g al ys), .unit)
  | .pushEach o ys =>
    match A[o]? with
    | none => (A, .bad)
    | some al => (A.set o (apushEach g al ys), .unit)
  | .get o i =>
    match A[o]? with
    | none => (A, .bad)
    | some al =>
      match normIndex i al.xs.length with
      | none => (A, .oor)
      | some j =>
        match al.xs[j]? with
        | some v => (A, .val v)
        | none => (A, .bad)
  | .set o i v =>
    match A[o]? with
    | none => (A, .bad)
    | some al =>
      match normIndex i al.xs.length with
      | none => (A, .oor)
      | some j => (A.set o ⟨al.xs.set j v, al.cap⟩, .unit)
  | .at o i =>
    match A[o]? with
    | none => (A, .bad)
    | some al =>
      if i < 0 ∨ i ≥ al.xs.length then (A, .panic)
      else match al.xs[i.toNat]? with
        | some v => (A, .val v)
        | none => (A, .bad)
  | .rme o i =>
    match A[o]? with
    | none => (A, .bad)
    | some al =>
      match normIndex i al.xs.length with
      | none => (A, .oor)
      | some j => (A.set o ⟨al.xs.eraseIdx j, al.cap⟩, .unit)
  | .rm o i =>
    match A[o]? with
    | none => (A, .bad)
    | some al =>
      if i < 0 ∨ i + 1 > al.xs.length then (A, .panic)
      else (A.set o ⟨al.xs.eraseIdx i.toNat, al.cap⟩, .unit)
  | .grow o n =>
    match A[o]? with
    | none => (A, .bad)
    | some al =>
      if (al.cap : Int) + n < al.xs.length then (A, .panic)
      else (A.set o ⟨al.xs, ((al.cap : Int) + n).toNat⟩, .unit)
  | .exp o n =>
    match A[o]? with
    | none => (A, .bad)
    | some al =>
      if n < 1 then (A, .unit)
      else (A.set o ⟨al.xs ++ List.replicate n.toNat Val.nil, al.cap + n.toNat⟩, .unit)
  | .apat o i v =>
    match A[o]? with
    | none => (A, .bad)
    | some al =>
      if i < 0 then (A, .negIndex)
      else if i ≥ al.xs.length then
        (A.set o ⟨al.xs ++ List.replicate (i.toNat - al.xs.length) Val.nil ++ [v],
                  al.cap + (i.toNat + 1 - al.xs.length)⟩, .unit)
      else (A.set o ⟨al.xs.set i.toNat v, al.cap⟩, .unit)
  | .cat x y =>
    match A[x]?, A[y]? with
    | some a, some b => (A ++ [⟨a.xs ++ b.xs, a.xs.length + b.xs.length⟩], .obj A.length)
    | _, _ => (A, .bad)
  | .rep x n =>
    match A[x]? with
    | none => (A, .bad)
    | some a =>
      match n with
      | none => (A, .tooLarge)
      | some n =>
        if n < 0 then (A, .negCount)
        else if n * a.xs.length > maxInt then (A, .tooLarge)
        else if n * a.xs.length ≥ maxAlloc then (A, .panic)
        else
          let xs := (List.replicate n.toNat a.xs).flatten
          (A ++ [⟨xs, xs.length⟩], .obj A.length)
  | .sl _ _ _ => (A, .bad)        -- views are not sequences: outside the specification
  | .cp x =>
    match A[x]? with
    | none => (A, .bad)
    | some a => (A ++ [⟨a.xs, a.xs.length⟩], .obj A.length)
  | .cl x cap =>
    match A[x]? with
    | none => (A, .bad)
    | some a =>
      if cap < 0 then (A, .panic)
      else if a.xs.length ≤ cap.toNat then (A ++ [⟨a.xs, cap.toNat⟩], .obj A.length)
      else (A ++ [⟨a.xs, max (g cap.toNat a.xs.length) a.xs.length⟩], .obj A.length)
  | .vsl o r =>
    match A[o]? with
    | none => (A, .bad)
    | some al =>
      let (lo, hi) := r.bounds al.xs.length
      match normIndex lo al.xs.length, normIndex hi al.xs.length with
      | some i, some j => (A ++ [apushEach g ⟨[], 0⟩ ((al.xs.drop i).take (j + 1 - i))], .obj A.length)
      | _, _ => (A, .oor)
  | .vrem o v =>
    match A[o]? with
    | none => (A, .bad)
    | some al => (A.set o ⟨removeAll v al.xs, al.cap⟩, .bool (decide (v ∈ al.xs)))
  | .veq x y =>
    match A[x]?, A[y]? with
    | some a, some b => (A, .bool (decide (a.xs = b.xs)))
    | _, _ => (A, .bad)
  | .vcon o v =>
    match A[o]? with
    | none => (A, .bad)
    | some al => (A, .bool (decide (v ∈ al.xs)))
  | .iter o k =>
    match A[o]? with
    | none => (A, .bad)
    | some al => (A, .vals (al.xs.take k))
  | .len o =>
    match A[o]? with
    | none => (A, .bad)
    | some al => (A, .val (.i al.xs.length))

def arun (g : Nat → Nat → Nat) : List AL → List Op → List AL × List Ans
  | A, [] => (A, [])
  | A, op :: ops =>
    let (A', a) := astep g A op
    let (A'', as) := arun g A' ops
    (A'', a :: as)

/-- the operations the specification covers (everything but views) -/
def Op.sliceFree : Op → Bool
  | .sl _ _ _ => false
  | _ => true

/-- operations reachable from Elk source with their guards (bounds-checked variants only) -/
def Op.guarded : Op → Bool
  | .at _ _ | .rm _ _ | .sl _ _ _ => false
  | .grow _ n => decide (0 ≤ n)          -- `ArrayList#grow` rejects negative counts before calling `Grow`
  | .cl _ c => decide (0 ≤ c)
  | _ => true

end Elk.Seq
