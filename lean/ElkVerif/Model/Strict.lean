/-!
# Model of the fixed-width integers and the float operators (C07)

`value/int8.go … uint64.go, uint.go` (one template, instantiated nine times), the four generic
shift helpers of `value/strict_numeric.go`, and the operator methods of `value/float.go`,
`float64.go`, `float32.go`.

A sized integer is a `BitVec w` together with its signedness; `w ∈ {8,16,32,64}` (`UInt` is 64 bits
on the platforms Elk's `Value` supports inline 64-bit payloads on; the 32-bit boxed branch of the
helpers is not modelled).  Go's operators on sized integers:

  `+ - * & | ^ &^ ^x -x`   → the `BitVec` operations (wrap-around)
  `/ %`                    → `sdiv/srem` (signed, truncating, `MinInt / -1` wraps) or `udiv/umod`
  `x << n`, `x >> n`       → `goShl`, `goShr` with an unsigned count (the helpers convert a negative
                             signed count `r` to `uint64(-int64(r))` first); counts ≥ w give 0
                             (or the sign fill of an arithmetic shift)

Core Lean only.
-/
namespace Elk.Strict

/-- the runtime kind of a shift's right operand (the `switch right.ValueFlag()` of the helpers) -/
inductive RKind where
  | smallInt | bigInt | i64 | i32 | i16 | i8 | u64 | u32 | u16 | u8 | uint
  | other        -- any value that is not an integer (Float, String, nil, …): the `default:` arm
  deriving DecidableEq, Repr

/-- right operand of a shift: kind and value (within the kind's range; any integer for `bigInt`) -/
structure ROp where
  kind : RKind
  val : Int
  deriving Repr

inductive Res (w : Nat) where
  | ok (v : BitVec w)
  | bool (b : Bool)
  | cmp (c : Int)          -- `<=>` answers an Elk `Int`
  | bitshiftOperand        -- TypeError "cannot be used as a bitshift operand"
  | coerce                 -- TypeError "cannot be coerced"
  | zeroDiv
  deriving DecidableEq, Repr

/-- `a <<< n`, `a >>> n`, `a.sshiftRight n` computed without materialising `2^n` for huge counts
(`Proofs/Strict.lean`: `shlSat_eq`, `lshrSat_eq`, `ashrSat_eq` show they are the `BitVec` shifts) -/
def shlSat {w} (a : BitVec w) (n : Nat) : BitVec w := if w ≤ n then 0#w else a <<< n
def lshrSat {w} (a : BitVec w) (n : Nat) : BitVec w := if w ≤ n then 0#w else a >>> n
def ashrSat {w} (a : BitVec w) (n : Nat) : BitVec w := a.sshiftRight (min n w)

/-- `left << n` for an unsigned count (`uint64(-int64(r))` for a negative `r`, or an unsigned operand) -/
def goShl {w} (a : BitVec w) (n : Nat) : Res w := .ok (shlSat a n)

/-- `left >> n`: arithmetic for signed `left`, logical for unsigned -/
def goShr {w} (signed : Bool) (a : BitVec w) (n : Nat) : Res w :=
  .ok (if signed then ashrSat a n else lshrSat a n)

/-- `LogicalRightShift8/16/32/64(left, right uint64)`: `L(uintN(left) >> right)` -/
def logShr {w} (a : BitVec w) (n : Nat) : Res w := .ok (lshrSat a n)

/-- `(*BigInt).IsSmallInt` -/
def fits64 (z : Int) : Bool := decide (-(2 ^ 63 : Int) ≤ z) && decide (z < (2 ^ 63 : Int))

/-- how the helpers see the right operand: every integer kind yields a signed count (the
magnitude of a negative count is taken in 64 bits: `uint64(-int64(r))`, which is exact for every
value of every signed kind); a `*BigInt` that does not fit a word is only looked at for its sign -/
inductive Count where
  | left (n : Nat)       -- count ≥ 0
  | right (n : Nat)      -- count < 0, magnitude n
  | hugeLeft | hugeRight -- a BigInt beyond the word range (positive / negative)
  | notAnInt

def ROp.count (r : ROp) : Count :=
  match r.kind with
  | .other => .notAnInt
  | .bigInt =>
    if fits64 r.val then (if r.val < 0 then .right (-r.val).toNat else .left r.val.toNat)
    else if 0 < r.val then .hugeLeft else .hugeRight
  | _ => if r.val < 0 then .right (-r.val).toNat else .left r.val.toNat

/-- `StrictIntLeftBitshift[T]` (`<<` on every sized type, `<<<` on the unsigned ones) -/
def leftShift {w} (signed : Bool) (a : BitVec w) (r : ROp) : Res w :=
  match r.count with
  | .notAnInt => .bitshiftOperand
  | .left n => goShl a n
  | .right n => goShr signed a n
  | .hugeLeft => .ok 0
  | .hugeRight => goShr signed a 64        -- `left >> 64`: only the sign is left

/-- `StrictIntRightBitshift[T]` (`>>` on every sized type, `>>>` on the unsigned ones) -/
def rightShift {w} (signed : Bool) (a : BitVec w) (r : ROp) : Res w :=
  match r.count with
  | .notAnInt => .bitshiftOperand
  | .left n => goShr signed a n
  | .right n => goShl a n
  | .hugeLeft => goShr signed a 64
  | .hugeRight => .ok 0

/-- `StrictIntLogicalLeftBitshift[T]` (`<<<` on the signed types) -/
def logicalLeftShift {w} (a : BitVec w) (r : ROp) : Res w :=
  match r.count with
  | .notAnInt => .bitshiftOperand
  | .left n => goShl a n
  | .right n => logShr a n
  | .hugeLeft => .ok 0
  | .hugeRight => .ok 0

/-- `StrictIntLogicalRightBitshift[T]` (`>>>` on the signed types) -/
def logicalRightShift {w} (a : BitVec w) (r : ROp) : Res w :=
  match r.count with
  | .notAnInt => .bitshiftOperand
  | .left n => logShr a n
  | .right n => goShl a n
  | .hugeLeft => .ok 0
  | .hugeRight => .ok 0

inductive ShOp where
  | shl | shr | lshl | lshr
  deriving DecidableEq, Repr

/-- `value.LeftBitshiftVal / RightBitshiftVal / LogicalLeftBitshiftVal / LogicalRightBitshiftVal`
on a sized left operand: the logical helpers are used for the signed types only -/
def shift {w} (op : ShOp) (signed : Bool) (a : BitVec w) (r : ROp) : Res w :=
  match op with
  | .shl => leftShift signed a r
  | .shr => rightShift signed a r
  | .lshl => if signed then logicalLeftShift a r else leftShift signed a r
  | .lshr => if signed then logicalRightShift a r else rightShift signed a r

/-- the nine sized integer types -/
inductive LKind where
  | i8 | i16 | i32 | i64 | u8 | u16 | u32 | u64 | uint
  deriving DecidableEq, Repr

def LKind.width : LKind → Nat
  | .i8 | .u8 => 8 | .i16 | .u16 => 16 | .i32 | .u32 => 32 | .i64 | .u64 | .uint => 64

def LKind.signed : LKind → Bool
  | .i8 | .i16 | .i32 | .i64 => true
  | _ => false

/-- the runtime kind of a value of the left operand's own type -/
def LKind.asRKind : LKind → RKind
  | .i8 => .i8 | .i16 => .i16 | .i32 => .i32 | .i64 => .i64
  | .u8 => .u8 | .u16 => .u16 | .u32 => .u32 | .u64 => .u64 | .uint => .uint

/-- static types a shift's right operand is probed with (`elkh probe shiftadmitted`) -/
inductive RTy where
  | int | int64 | int32 | int16 | int8 | uint64 | uint32 | uint16 | uint8 | uint | float | string
  deriving DecidableEq, Repr

/-- the runtime kinds a value of that static type can have -/
def RTy.kinds : RTy → List RKind
  | .int => [.smallInt, .bigInt]
  | .int64 => [.i64] | .int32 => [.i32] | .int16 => [.i16] | .int8 => [.i8]
  | .uint64 => [.u64] | .uint32 => [.u32] | .uint16 => [.u16] | .uint8 => [.u8] | .uint => [.uint]
  | .float => [.other] | .string => [.other]

/-! ## arithmetic, bitwise and comparison operators: both operands of the same sized type -/

inductive AOp where
  | add | sub | mul | div | mod | pow | and | or | xor | andNot
  | cmp | gt | ge | lt | le | eq
  deriving DecidableEq, Repr

/-- `ExponentiateInt8` …: 1 for a non-positive exponent, else `n - 1` wrapping multiplications -/
def powLoop {w} (a : BitVec w) : Nat → BitVec w
  | 0 => 1#w
  | 1 => a
  | n + 1 => powLoop a n * a

def exponent {w} (signed : Bool) (b : BitVec w) : Nat :=
  if signed then (if b.toInt ≤ 0 then 0 else b.toInt.toNat) else b.toNat

def lt {w} (signed : Bool) (a b : BitVec w) : Bool := if signed then BitVec.slt a b else BitVec.ult a b

def arith {w} (op : AOp) (signed : Bool) (a b : BitVec w) : Res w :=
  match op with
  | .add => .ok (a + b)
  | .sub => .ok (a - b)
  | .mul => .ok (a * b)
  | .div => if b == 0#w then .zeroDiv else .ok (if signed then BitVec.sdiv a b else a / b)
  | .mod => if b == 0#w then .zeroDiv else .ok (if signed then BitVec.srem a b else a % b)
  | .pow => .ok (powLoop a (exponent signed b))
  | .and => .ok (a &&& b)
  | .or => .ok (a ||| b)
  | .xor => .ok (a ^^^ b)
  | .andNot => .ok (a &&& ~~~b)
  | .cmp => .cmp (if lt signed b a then 1 else if lt signed a b then -1 else 0)
  | .gt => .bool (lt signed b a)
  | .ge => .bool (!lt signed a b)
  | .lt => .bool (lt signed a b)
  | .le => .bool (!lt signed b a)
  | .eq => .bool (a == b)

/-- `Int8.Add(other Value)` …: any operand of another type is a coerce error (`==`: false) -/
def binOp (L : LKind) (op : AOp) (a : BitVec L.width) (r : ROp) : Res L.width :=
  if r.kind == L.asRKind then arith op L.signed a (BitVec.ofInt L.width r.val)
  else if op == .eq then .bool false
  else .coerce

inductive UOp where
  | neg | not
  deriving DecidableEq, Repr

def unary {w} (op : UOp) (a : BitVec w) : Res w :=
  match op with
  | .neg => .ok (-a)
  | .not => .ok (~~~a)

/-! ## floats: IEEE arithmetic is a parameter, the model is the dispatch -/

/-- the IEEE-754 primitives of one float width (Go's `+ - * /`, `math.Mod`, `math.Pow`, conversion
from an integer); `F` is the set of bit patterns -/
structure FloatOps (F : Type) where
  add : F → F → F
  sub : F → F → F
  mul : F → F → F
  div : F → F → F
  mod : F → F → F
  pow : F → F → F
  neg : F → F
  ofInt : Int → F

inductive FOp where
  | add | sub | mul | div | mod | pow
  deriving DecidableEq, Repr

/-- right operand of a `Float` operator (`Float.AddVal` …): a Float or an Int (small or big).
`Float64`/`Float32` accept only their own type. -/
inductive FArg (F : Type) where
  | flt (x : F)
  | int (z : Int)

def FArg.asFloat {F} (O : FloatOps F) : FArg F → F
  | .flt x => x
  | .int z => O.ofInt z

def FloatOps.bin {F} (O : FloatOps F) : FOp → F → F → F
  | .add => O.add | .sub => O.sub | .mul => O.mul | .div => O.div | .mod => O.mod | .pow => O.pow

/-- `Float.AddVal` … `Float.ModuloVal`, `Float64.Add` …, `Float32.Add` …: convert an Int operand,
apply the primitive to (left, right) in this order -/
def floatOp {F} (O : FloatOps F) (op : FOp) (a : F) (b : FArg F) : F := O.bin op a (b.asFloat O)

/-! ### the two instances used by the driver

`+ - * /`, negation and `Float.ofInt` are Lean's *defined* IEEE-754 binary64/binary32 operations
(`Init/Data/Float/Model`: unpack, operate exactly, round to nearest even, pack); at run time they
are the hardware instructions.  `fmod` is computed exactly on the decoded operands; `pow` is the C
library's (opaque to the kernel, compared on exactly representable cases only). -/

/-- exact `fmod` on binary64 bit patterns (`math.Mod`): the result `x - n*y` (n = trunc(x/y)) is
always representable, so no rounding is involved -/
def fmod64 (x y : Float) : Float :=
  let bx := x.toBits.toNat
  let b_y := y.toBits.toNat
  let ex : Nat := (bx / 2 ^ 52) % 2048
  let ey : Nat := (b_y / 2 ^ 52) % 2048
  let fx : Nat := bx % 2 ^ 52
  let fy : Nat := b_y % 2 ^ 52
  let nan := Float.ofBits 0x7FF8000000000000
  if x.isNaN || y.isNaN then nan
  else if ex = 2047 then nan                      -- x = ±inf
  else if ey = 0 ∧ fy = 0 then nan                -- y = ±0
  else if ey = 2047 then x                        -- y = ±inf
  else if ex = 0 ∧ fx = 0 then x                  -- x = ±0
  else
    -- |x| = mx * 2^(qx), |y| = my * 2^(qy)
    let mx := if ex = 0 then fx else fx + 2 ^ 52
    let qx : Int := (if ex = 0 then 1 else (ex : Int)) - 1075
    let my := if ey = 0 then fy else fy + 2 ^ 52
    let qy : Int := (if ey = 0 then 1 else (ey : Int)) - 1075
    let q0 := min qx qy
    let a := mx <<< (qx - q0).toNat
    let b := my <<< (qy - q0).toNat
    let r := a % b
    let neg := bx ≥ 2 ^ 63
    if r = 0 then (if neg then Float.ofBits 0x8000000000000000 else Float.ofBits 0)
    else
      -- strip trailing zero bits so that the mantissa fits 53 bits, then scale exactly
      let tz := (List.range 2200).foldl (fun k _ => if r % 2 ^ (k + 1) = 0 then k + 1 else k) 0
      let m := r >>> tz
      let v := Float.scaleB (Float.ofNat m) (q0 + tz)
      if neg then Float.neg v else v

def ieee64 : FloatOps Float where
  add := Float.add
  sub := Float.sub
  mul := Float.mul
  div := Float.div
  mod := fmod64
  pow := Float.pow
  neg := Float.neg
  ofInt := Float.ofInt

/-- `Float32`: `+ - * /` are binary32 operations; `%` and `**` go through float64 and round
(`Float32(math.Mod(float64(f), float64(o)))`) -/
def ieee32 : FloatOps Float32 where
  add := Float32.add
  sub := Float32.sub
  mul := Float32.mul
  div := Float32.div
  mod := fun a b => (fmod64 a.toFloat b.toFloat).toFloat32
  pow := fun a b => (Float.pow a.toFloat b.toFloat).toFloat32
  neg := Float32.neg
  ofInt := fun z => (Float.ofInt z).toFloat32

end Elk.Strict
